import GaeaVerif.Drv.All
open GaeaVerif

/-- Line protocol: `<property> <s-expressions…>` in, one canonical line out. -/
partial def loop (h : IO.FS.Stream) (out : IO.FS.Stream) : IO Unit := do
  let line ← h.getLine
  if line.isEmpty then return ()
  let l := line.trimAscii.toString
  if l.isEmpty then
    out.putStrLn ""
  else
    match Sexp.parseLine l with
    | some (Sexp.atom p :: args) => out.putStrLn (Drv.dispatch p args)
    | _ => out.putStrLn "bad-line"
  loop h out

def main : IO Unit := do
  let out ← IO.getStdout
  loop (← IO.getStdin) out
  out.flush
