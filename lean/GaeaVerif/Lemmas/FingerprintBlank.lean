import GaeaVerif.Model.Fingerprint
import GaeaVerif.Model.FingerprintGrammar
import GaeaVerif.Lemmas.FingerprintSteps
/-
  `blankComments` on the statements of the token grammar
  (Model/FingerprintGrammar.lean): words, numbers and quoted strings are left
  as they are, every comment piece is overwritten by blanks, the content of a
  value list becomes `contentBlank` — the text of `Stmt.toCore`.
  Used by Props/C36.lean.
-/
namespace GaeaVerif.FingerprintBlank
open GaeaVerif.Fingerprint GaeaVerif.FingerprintGrammar GaeaVerif.FingerprintSteps

/-- Characters `blankComments` copies without looking at anything else. -/
def inert (c : Char) : Bool := c ≠ '\'' && c ≠ '"' && c ≠ '/' && c ≠ '#' && c ≠ '-'

theorem blank_inert_cons (c : Char) (tl : List Char) (h : inert c = true) :
    blankGo .code (c :: tl) = c :: blankGo .code tl := by
  simp only [inert, Bool.and_eq_true, bne_iff_ne, ne_eq, decide_eq_true_eq, decide_not, Bool.not_eq_true',
    decide_eq_false_iff_not] at h
  obtain ⟨⟨⟨⟨h1, h2⟩, h3⟩, h4⟩, h5⟩ := h
  simp [blankGo, h1, h2, h3, h4, h5]

theorem blank_inert : ∀ (w tl : List Char), w.all inert = true → blankGo .code (w ++ tl) = w ++ blankGo .code tl := by
  intro w
  induction w with
  | nil => intro tl _; rfl
  | cons c r ih =>
    intro tl h
    simp only [List.all_cons, Bool.and_eq_true] at h
    rw [List.cons_append, blank_inert_cons c _ h.1, ih tl h.2]; rfl

theorem notBad_inert {c : Char} (h : wordBad c = false) : inert c = true := by
  simp only [wordBad, Bool.or_eq_false_iff, decide_eq_false_iff_not] at h
  obtain ⟨⟨⟨⟨⟨⟨⟨_, h1⟩, h2⟩, h3⟩, _⟩, h5⟩, h6⟩, _⟩ := h
  simp [inert, h1, h2, h3, h5, h6]

/-! ### Word text -/

theorem word_inert (w : List Char) (h : wordShape w = true) : w.all inert = true := by
  cases w with
  | nil => simp [wordShape] at h
  | cons c r =>
    simp only [wordShape, Bool.and_eq_true] at h
    obtain ⟨⟨hfirst, hchain⟩, _⟩ := h
    simp only [List.all_cons, Bool.and_eq_true, List.all_eq_true]
    refine ⟨?_, fun x hx => notBad_inert (chainOK_notBad c r hchain x hx)⟩
    simp only [okFirst, Bool.and_eq_true, Bool.not_eq_true'] at hfirst
    exact notBad_inert hfirst.1.1

theorem blank_word (w tl : List Char) (h : wordShape w = true) :
    blankGo .code (w ++ tl) = w ++ blankGo .code tl := blank_inert w tl (word_inert w h)

/-! ### Numbers -/

theorem numberChar_inert {c : Char} (h : isNumberChar c = true) (hm : c ≠ '-') : inert c = true := by
  have h1 : c ≠ '\'' := by intro e; subst e; revert h; decide
  have h2 : c ≠ '"' := by intro e; subst e; revert h; decide
  have h3 : c ≠ '/' := by intro e; subst e; revert h; decide
  have h4 : c ≠ '#' := by intro e; subst e; revert h; decide
  simp [inert, h1, h2, h3, h4, hm]

theorem blank_minus_digit (d : Char) (tl : List Char) (hd : isDigit d = true) :
    blankGo .code ('-' :: d :: tl) = '-' :: blankGo .code (d :: tl) := by
  have hne : d ≠ '-' := by intro e; subst e; revert hd; decide
  simp [blankGo, startsDash, hne]

theorem blank_numTail : ∀ (rest : List Char) (p : Char) (tl : List Char), numTail p rest = true →
    blankGo .code (rest ++ tl) = rest ++ blankGo .code tl := by
  intro rest
  induction rest with
  | nil => intro p tl _; rfl
  | cons c r ih =>
    intro p tl h
    unfold numTail at h
    by_cases hc : c = '-' ∨ c = '+'
    · rw [if_pos hc] at h
      simp only [Bool.and_eq_true] at h
      obtain ⟨⟨_, hnext⟩, hrest⟩ := h
      rcases hc with hc | hc
      · subst hc
        cases r with
        | nil => simp at hnext
        | cons d r' =>
          simp only at hnext
          rw [List.cons_append, List.cons_append, blank_minus_digit d _ hnext]
          have := ih '-' tl hrest
          rw [List.cons_append] at this
          rw [this]; rfl
      · subst hc
        rw [List.cons_append, blank_inert_cons '+' _ (by decide), ih '+' tl hrest]; rfl
    · rw [if_neg hc] at h
      simp only [Bool.and_eq_true] at h
      have hm : c ≠ '-' := fun e => hc (Or.inl e)
      rw [List.cons_append, blank_inert_cons c _ (numberChar_inert h.1 hm), ih c tl h.2]; rfl

theorem digit_numberChar {d : Char} (h : isDigit d = true) : isNumberChar d = true ∧ d ≠ '-' := by
  refine ⟨by simp [isNumberChar, h], ?_⟩
  intro e; subst e; revert h; decide

theorem blank_num (n tl : List Char) (h : numShape n = true) :
    blankGo .code (n ++ tl) = n ++ blankGo .code tl := by
  cases n with
  | nil => simp [numShape] at h
  | cons c r =>
    simp only [numShape] at h
    by_cases hd : isDigit c = true
    · rw [if_pos hd] at h
      obtain ⟨h1, h2⟩ := digit_numberChar hd
      rw [List.cons_append, blank_inert_cons c _ (numberChar_inert h1 h2), blank_numTail r c tl h]; rfl
    · rw [if_neg hd] at h
      by_cases hsd : c = '-' ∨ c = '+' ∨ c = '.'
      · rw [if_pos hsd] at h
        cases r with
        | nil => simp at h
        | cons d r' =>
          simp only [Bool.and_eq_true] at h
          obtain ⟨hdd, htl⟩ := h
          obtain ⟨h1, h2⟩ := digit_numberChar hdd
          have hrest : blankGo .code (d :: r' ++ tl) = d :: r' ++ blankGo .code tl := by
            rw [List.cons_append, blank_inert_cons d _ (numberChar_inert h1 h2), blank_numTail r' d tl htl]; rfl
          rcases hsd with e | e | e
          · subst e
            rw [List.cons_append, List.cons_append, blank_minus_digit d _ hdd]
            rw [List.cons_append] at hrest
            rw [hrest]; rfl
          · subst e
            rw [List.cons_append, blank_inert_cons '+' _ (by decide), hrest]; rfl
          · subst e
            rw [List.cons_append, blank_inert_cons '.' _ (by decide), hrest]; rfl
      · rw [if_neg hsd] at h; cases h

/-! ### Quoted strings -/

theorem blank_quote_body (c : Char) (hc : c = '\'' ∨ c = '"') :
    ∀ (body : List Char) (esc : Bool) (tl : List Char), closesAt c esc body = true →
      blankGo (.quote c esc) (body ++ tl) = body ++ blankGo .code tl := by
  intro body
  induction body with
  | nil => intro esc tl h; simp [closesAt] at h
  | cons x rest ih =>
    intro esc tl h
    unfold closesAt at h
    by_cases hx : x = c
    · subst hx
      simp only [ne_eq, not_true_eq_false, if_false] at h
      cases esc with
      | true =>
        simp only [if_true] at h
        simp only [List.cons_append, blankGo, if_true]
        rw [ih false tl h]
      | false =>
        simp only [Bool.false_eq_true, if_false] at h
        cases rest with
        | nil =>
          have hb : x ≠ '\\' := by rcases hc with e | e <;> subst e <;> decide
          simp [blankGo, hb]
        | cons y rest2 =>
          simp only at h
          by_cases hy : y = x
          · subst hy
            rw [if_pos rfl] at h
            have h2 := ih true tl h
            -- in code mode the second quote character reopens the value
            have e1 : blankGo (.quote y false) (y :: (y :: rest2) ++ tl) = y :: blankGo .code ((y :: rest2) ++ tl) := by
              have hb : y ≠ '\\' := by rcases hc with e | e <;> subst e <;> decide
              simp [blankGo, hb]
            have e2 : blankGo .code ((y :: rest2) ++ tl) = blankGo (.quote y true) ((y :: rest2) ++ tl) := by
              simp [blankGo, hc]
            rw [e1, e2, h2]; rfl
          · rw [if_neg hy] at h; cases h
    · simp only [ne_eq, hx, not_false_eq_true, if_true] at h
      cases esc with
      | true =>
        simp only [if_true] at h
        simp only [List.cons_append, blankGo, if_true]
        rw [ih false tl h]
      | false =>
        simp only [Bool.false_eq_true, if_false] at h
        by_cases hb : x = '\\'
        · subst hb
          simp only [if_true] at h
          simp only [List.cons_append, blankGo, Bool.false_eq_true, if_false, if_true]
          rw [ih true tl h]
        · simp only [hb, if_false] at h
          simp only [List.cons_append, blankGo, Bool.false_eq_true, if_false, hb, hx]
          rw [ih false tl h]

theorem blank_str (t tl : List Char) (h : strShape t = true) :
    blankGo .code (t ++ tl) = t ++ blankGo .code tl := by
  cases t with
  | nil => simp [strShape] at h
  | cons c body =>
    simp only [strShape, Bool.and_eq_true, Bool.or_eq_true, decide_eq_true_eq] at h
    have : blankGo .code (c :: body ++ tl) = c :: blankGo (.quote c false) (body ++ tl) := by
      simp [blankGo, h.1]
    rw [this, blank_quote_body c h.1 body false tl h.2]; rfl

/-! ### Chunks -/

theorem blank_segs : ∀ (segs : List Seg) (ctx : SegCtx) (tl : List Char), segsOK ctx segs = true →
    blankGo .code (segsText segs ++ tl) = segsText segs ++ blankGo .code tl := by
  intro segs
  induction segs with
  | nil => intro _ tl _; rfl
  | cons x rest ih =>
    intro ctx tl h
    cases x with
    | w t =>
      simp only [segsOK, Bool.and_eq_true] at h
      obtain ⟨⟨_, hws⟩, hr⟩ := h
      cases hl : t.getLast? with
      | none => rw [hl] at hr; cases hr
      | some a =>
        rw [hl] at hr
        simp only [segsText_cons, Seg.text, List.append_assoc]
        rw [blank_word t _ hws, ih _ tl hr]
    | n t =>
      simp only [segsOK, Bool.and_eq_true] at h
      obtain ⟨⟨⟨_, hns⟩, _⟩, hr⟩ := h
      simp only [segsText_cons, Seg.text, List.append_assoc]
      rw [blank_num t _ hns, ih _ tl hr]
    | s t =>
      simp only [segsOK, Bool.and_eq_true] at h
      obtain ⟨⟨⟨_, hss⟩, _⟩, hr⟩ := h
      simp only [segsText_cons, Seg.text, List.append_assoc]
      rw [blank_str t _ hss, ih _ tl hr]
    | p c t =>
      simp only [segsOK, Bool.and_eq_true, Bool.or_eq_true, decide_eq_true_eq] at h
      obtain ⟨⟨⟨⟨_, hc⟩, hss⟩, _⟩, hr⟩ := h
      have hci : inert c = true := by rcases hc with e | e <;> subst e <;> decide
      simp only [segsText_cons, Seg.text, List.append_assoc, List.cons_append]
      rw [blank_inert_cons c _ hci, blank_str t _ hss, ih _ tl hr]

/-! ### Separator pieces -/

theorem space_inert {c : Char} (h : isSpace c = true) : inert c = true := by
  rcases isSpace_cases h with e | e | e | e | e | e <;> subst e <;> decide

/-- The body of a `/* … */` comment is overwritten by blanks (`p`: the
    character before `body`). -/
theorem blank_mlc_body : ∀ (body : List Char) (p : Char) (tl : List Char), mlcTail (p :: body) = true →
    blankGo (.mlc (p = '*')) (body ++ tl) = List.replicate body.length ' ' ++ blankGo .code tl := by
  intro body
  induction body with
  | nil => intro p tl h; simp [mlcTail] at h
  | cons b r ih =>
    intro p tl h
    unfold mlcTail at h
    by_cases hpb : p = '*' ∧ b = '/'
    · rw [if_pos hpb] at h
      simp only [List.isEmpty_iff] at h
      subst h
      simp [blankGo, hpb.1, hpb.2]
    · rw [if_neg hpb] at h
      have hm : (if b = '/' ∧ decide (p = '*') = true then BMode.code else BMode.mlc (decide (b = '*'))) =
          BMode.mlc (decide (b = '*')) := by
        rw [if_neg]; intro hh; exact hpb ⟨by simpa using hh.2, hh.1⟩
      simp only [List.cons_append, blankGo, hm, List.length_cons, List.replicate_succ]
      rw [ih b tl h]

theorem blank_olc_body : ∀ (body : List Char) (tl : List Char), lineTail body = true →
    blankGo .olc (body ++ tl) = List.replicate (body.length - 1) ' ' ++ '\n' :: blankGo .code tl := by
  intro body
  induction body with
  | nil => intro tl h; simp [lineTail] at h
  | cons b r ih =>
    intro tl h
    unfold lineTail at h
    by_cases hb : b = '\n'
    · rw [if_pos hb] at h
      simp only [List.isEmpty_iff] at h
      subst h; subst hb
      simp [blankGo]
    · rw [if_neg hb] at h
      simp only [List.cons_append, blankGo, hb, if_false]
      rw [ih tl h]
      have : 0 < r.length := by
        cases r with
        | nil => simp [lineTail] at h
        | cons _ _ => simp
      have e : (b :: r).length - 1 = (r.length - 1) + 1 := by simp; omega
      rw [e, List.replicate_succ]; rfl

theorem gapText_replicate (n : Nat) : gapText (List.replicate n (SepPiece.ws ' ')) = List.replicate n ' ' := by
  induction n with
  | zero => rfl
  | succ n ih =>
    simp only [List.replicate_succ, gapText, List.flatMap_cons, SepPiece.text] at ih ⊢
    rw [ih]; rfl

theorem blank_piece (p : SepPiece) (tl : List Char) (h : p.ok = true) :
    blankGo .code (p.text ++ tl) = gapText p.blank ++ blankGo .code tl := by
  cases p with
  | ws c =>
    simp only [SepPiece.ok] at h
    simp only [SepPiece.text, SepPiece.blank, gapText, List.flatMap_cons, List.flatMap_nil, List.append_nil]
    exact blank_inert_cons c tl (space_inert h)
  | mlc body =>
    simp only [SepPiece.ok, Bool.and_eq_true, Bool.not_eq_true', decide_eq_false_iff_not] at h
    obtain ⟨htail, hbang⟩ := h
    cases body with
    | nil => simp [mlcTail] at htail
    | cons b rest =>
      have hb : b ≠ '!' := by simpa using hbang
      have h1 : blankGo .code ('/' :: '*' :: (b :: rest) ++ tl) = ' ' :: ' ' :: blankGo (.mlc false) ((b :: rest) ++ tl) := by
        simp [blankGo, startsMlc, hb]
      have h2 : blankGo (.mlc false) ((b :: rest) ++ tl) = ' ' :: blankGo (.mlc (b = '*')) (rest ++ tl) := by
        simp [blankGo]
      simp only [SepPiece.text, SepPiece.blank, gapText_replicate]
      rw [h1, h2, blank_mlc_body rest b tl htail]
      simp [List.replicate_succ]
  | dash c body =>
    simp only [SepPiece.ok, Bool.and_eq_true, bne_iff_ne, ne_eq, decide_eq_true_eq] at h
    obtain ⟨⟨hcs, hcn⟩, htail⟩ := h
    have hcn' : c ≠ '\n' := by simpa using hcn
    have h1 : blankGo .code ('-' :: '-' :: c :: body ++ tl) = ' ' :: ' ' :: ' ' :: blankGo .olc (body ++ tl) := by
      simp [blankGo, startsDash, hcs, hcn']
    simp only [SepPiece.text, SepPiece.blank, gapText, List.flatMap_append, List.flatMap_cons, List.flatMap_nil]
    have := gapText_replicate (body.length + 2)
    simp only [gapText] at this
    rw [this, h1, blank_olc_body body tl htail]
    have hpos : 0 < body.length := by
      cases body with
      | nil => simp [lineTail] at htail
      | cons _ _ => simp
    have e : body.length + 2 = (body.length - 1) + 3 := by omega
    rw [e]
    simp [List.replicate_succ, SepPiece.text]
  | hash body =>
    simp only [SepPiece.ok] at h
    have h1 : blankGo .code ('#' :: body ++ tl) = ' ' :: blankGo .olc (body ++ tl) := by
      simp [blankGo]
    simp only [SepPiece.text, SepPiece.blank, gapText, List.flatMap_append, List.flatMap_cons, List.flatMap_nil]
    have := gapText_replicate body.length
    simp only [gapText] at this
    rw [this, h1, blank_olc_body body tl h]
    have hpos : 0 < body.length := by
      cases body with
      | nil => simp [lineTail] at h
      | cons _ _ => simp
    have e : body.length = (body.length - 1) + 1 := by omega
    conv => rhs; rw [e]
    simp [List.replicate_succ, SepPiece.text]

theorem blank_gap : ∀ (g : Gap) (tl : List Char), gapOK g = true →
    blankGo .code (gapText g ++ tl) = gapText (gapBlank g) ++ blankGo .code tl := by
  intro g
  induction g with
  | nil => intro tl _; rfl
  | cons p rest ih =>
    intro tl h
    simp only [gapOK, List.all_cons, Bool.and_eq_true] at h
    simp only [gapText, gapBlank, List.flatMap_cons, List.append_assoc]
    have := blank_piece p (rest.flatMap SepPiece.text ++ tl) h.1
    simp only [gapText] at this
    rw [this]
    have h2 := ih tl (by simpa [gapOK] using h.2)
    simp only [gapText, gapBlank] at h2
    rw [h2]; simp

/-! ### The content of a value list -/

theorem length_blankGo : ∀ (l : List Char) (m : BMode), (blankGo m l).length = l.length := by
  intro l
  induction l with
  | nil => intro m; simp [blankGo]
  | cons c r ih =>
    intro m
    cases m with
    | code => simp only [blankGo]; repeat' split
              all_goals simp [ih]
    | quote qc esc => simp [blankGo, ih]
    | mlcOpen => simp [blankGo, ih]
    | mlc ps => simp [blankGo, ih]
    | olc => simp only [blankGo]; split <;> simp [ih]

theorem startsMlc_barrier (a tl : List Char) (z : Char) (hz : z ≠ '*') :
    startsMlc (a ++ z :: tl) = startsMlc (a ++ [z]) := by
  cases a with
  | nil =>
    simp only [List.nil_append, startsMlc]
    split
    · rename_i h; simp at h; exact absurd h.1 hz
    · split
      · rename_i h; simp at h; exact absurd h.1 hz
      · rfl
  | cons x a' =>
    cases a' with
    | nil => by_cases hx : x = '*' <;> simp [startsMlc, hx]
    | cons y a'' => by_cases hx : x = '*' <;> simp [startsMlc, hx]

theorem startsDash_barrier (a tl : List Char) (z : Char) (hz : z ≠ '-') :
    startsDash (a ++ z :: tl) = startsDash (a ++ [z]) := by
  cases a with
  | nil =>
    have e1 : startsDash (z :: tl) = false := by
      unfold startsDash; split
      · rename_i h; simp at h; exact absurd h.1 hz
      · rename_i h; simp at h; exact absurd h.1 hz
      · rfl
    have e2 : startsDash [z] = false := by
      unfold startsDash; split
      · rename_i h; simp at h; exact absurd h hz
      · rename_i h; simp at h
      · rfl
    simp [e1, e2]
  | cons x a' =>
    cases a' with
    | nil => by_cases hx : x = '-' <;> simp [startsDash, hx]
    | cons y a'' => by_cases hx : x = '-' <;> simp [startsDash, hx]

/-- Splitting the text after a character that is neither `/`, `-` nor `*`:
    what `blankComments` does before it does not depend on what follows. -/
theorem blank_barrier : ∀ (a : List Char) (m : BMode) (z : Char) (tl : List Char), z ≠ '/' → z ≠ '-' → z ≠ '*' →
    blankGo m (a ++ z :: tl) = blankGo m (a ++ [z]) ++ blankGo (blankMode m (a ++ [z])) tl := by
  intro a
  induction a with
  | nil =>
    intro m z tl h1 h2 h3
    cases m with
    | code =>
      simp only [List.nil_append, blankGo, blankMode]
      by_cases hq : z = '\'' ∨ z = '"'
      · simp [hq, blankGo]
      · by_cases hh : z = '#'
        · subst hh; simp [blankGo]
        · simp [hq, h1, h2, hh, blankGo]
    | quote qc esc => simp [blankGo, blankMode]
    | mlcOpen => simp [blankGo, blankMode]
    | mlc ps => simp [blankGo, blankMode]
    | olc =>
      simp only [List.nil_append, blankGo, blankMode]
      split <;> simp [blankGo]
  | cons c a' ih =>
    intro m z tl h1 h2 h3
    cases m with
    | code =>
      simp only [List.cons_append, blankGo, blankMode, startsMlc_barrier a' tl z h3, startsDash_barrier a' tl z h2]
      split
      · simp [ih _ z tl h1 h2 h3]
      · split
        · simp [ih _ z tl h1 h2 h3]
        · split
          · simp [ih _ z tl h1 h2 h3]
          · simp [ih _ z tl h1 h2 h3]
    | quote qc esc => simp [blankGo, blankMode, ih _ z tl h1 h2 h3]
    | mlcOpen => simp [blankGo, blankMode, ih _ z tl h1 h2 h3]
    | mlc ps => simp [blankGo, blankMode, ih _ z tl h1 h2 h3]
    | olc =>
      simp only [List.cons_append, blankGo, blankMode]
      split <;> simp [ih _ z tl h1 h2 h3]

/-- If `blankComments` is outside comments and quoted values after `a ++ ")"`,
    it has copied the `)`. -/
theorem blank_last_paren : ∀ (a : List Char) (m : BMode), blankMode m (a ++ [')']) = .code →
    blankGo m (a ++ [')']) = (blankGo m (a ++ [')'])).dropLast ++ [')'] := by
  intro a
  induction a with
  | nil =>
    intro m h
    cases m with
    | code => simp [blankGo]
    | quote qc esc =>
      simp only [List.nil_append, blankMode] at h
      split at h
      · cases h
      · split at h
        · cases h
        · split at h
          · rename_i h3; simp [blankGo]
          · cases h
    | mlcOpen => simp [blankMode] at h
    | mlc ps => simp [blankMode] at h
    | olc => simp [blankMode] at h
  | cons c a' ih =>
    intro m h
    have key : ∀ (x : Char) (m' : BMode), blankMode m' (a' ++ [')']) = .code →
        x :: blankGo m' (a' ++ [')']) = (x :: blankGo m' (a' ++ [')'])).dropLast ++ [')'] := by
      intro x m' hm
      have hne : blankGo m' (a' ++ [')']) ≠ [] := by
        intro e
        have := length_blankGo (a' ++ [')']) m'
        rw [e] at this; simp at this
      rw [List.dropLast_cons_of_ne_nil hne, List.cons_append, ← ih m' hm]
    cases m with
    | code =>
      simp only [List.cons_append, blankGo, blankMode] at h ⊢
      split
      · rename_i hq; rw [if_pos hq] at h; exact key _ _ h
      · rename_i hq; rw [if_neg hq] at h
        split
        · rename_i hs; rw [if_pos hs] at h; exact key _ _ h
        · rename_i hs; rw [if_neg hs] at h
          split
          · rename_i ho; rw [if_pos ho] at h; exact key _ _ h
          · rename_i ho; rw [if_neg ho] at h; exact key _ _ h
    | quote qc esc =>
      simp only [List.cons_append, blankGo, blankMode] at h ⊢
      exact key _ _ h
    | mlcOpen =>
      simp only [List.cons_append, blankGo, blankMode] at h ⊢
      exact key _ _ h
    | mlc ps =>
      simp only [List.cons_append, blankGo, blankMode] at h ⊢
      exact key _ _ h
    | olc =>
      simp only [List.cons_append, blankGo, blankMode] at h ⊢
      split
      · rename_i hn; rw [if_pos hn] at h; exact key _ _ h
      · rename_i hn; rw [if_neg hn] at h; exact key _ _ h

/-- **The content of a value list**: comments are blanked, the closing
    parenthesis is copied, and `blankComments` goes on outside comments. -/
theorem blank_content (content c' tl : List Char) (h : contentBlank content = some c') :
    blankGo .code (content ++ ')' :: tl) = c' ++ ')' :: blankGo .code tl := by
  unfold contentBlank at h
  by_cases hm : blankMode .code (content ++ [')']) = .code
  · rw [if_pos hm] at h
    simp only [Option.some.injEq] at h
    rw [blank_barrier content .code ')' tl (by decide) (by decide) (by decide), hm,
      blank_last_paren content .code hm, h]
    simp
  · rw [if_neg hm] at h; cases h

/-! ### Items and statements -/

theorem contentOK_some {content : List Char} (h : contentOK content = true) :
    ∃ c', contentBlank content = some c' ∧ listContentOK c' = true := by
  unfold contentOK at h
  cases hc : contentBlank content with
  | none => rw [hc] at h; cases h
  | some c' => rw [hc] at h; exact ⟨c', rfl, h⟩

theorem blank_row (r : Row) (tl : List Char) (h : r.ok = true) :
    blankGo .code (r.text ++ tl) = r.toCore.text ++ blankGo .code tl := by
  simp only [Row.ok, Bool.and_eq_true] at h
  obtain ⟨⟨h1, h2⟩, h3⟩ := h
  obtain ⟨c', hc, _⟩ := contentOK_some h3
  simp only [Row.text, Row.toCore, hc, Option.getD_some, List.append_assoc, List.cons_append]
  rw [blank_gap r.g1 _ h1, blank_inert_cons ',' _ (by decide), blank_gap r.g2 _ h2,
    blank_inert_cons '(' _ (by decide)]
  have := blank_content r.content c' tl hc
  simp only [List.append_assoc, List.cons_append, List.nil_append] at this ⊢
  rw [this]

theorem blank_rows : ∀ (rows : List Row) (tl : List Char), rows.all Row.ok = true →
    blankGo .code (rows.flatMap Row.text ++ tl) = (rows.map Row.toCore).flatMap Row.text ++ blankGo .code tl := by
  intro rows
  induction rows with
  | nil => intro tl _; rfl
  | cons r rest ih =>
    intro tl h
    simp only [List.all_cons, Bool.and_eq_true] at h
    simp only [List.flatMap_cons, List.map_cons, List.append_assoc]
    rw [blank_row r _ h.1, ih tl h.2]

theorem blank_item (it : Item) (tl : List Char) (h : it.shapeOK = true) :
    blankGo .code (it.text ++ tl) = it.toCore.text ++ blankGo .code tl := by
  cases it with
  | chunk segs => exact blank_segs segs .start tl h
  | vlist kw gap content rows =>
    simp only [Item.shapeOK, Bool.and_eq_true, kwShape] at h
    obtain ⟨⟨⟨⟨⟨hkw, _⟩, _⟩, hgap⟩, hcontent⟩, hrows⟩ := h
    obtain ⟨c', hc, _⟩ := contentOK_some hcontent
    simp only [Item.text, Item.toCore, hc, Option.getD_some, List.append_assoc, List.cons_append]
    rw [blank_word kw _ hkw, blank_gap gap _ hgap, blank_inert_cons '(' _ (by decide)]
    have := blank_content content c' (rows.flatMap Row.text ++ tl) hc
    rw [this, blank_rows rows tl hrows]

theorem blank_items : ∀ (its : List (Item × Gap)) (tl : List Char),
    (∀ p ∈ its, p.1.shapeOK = true ∧ gapOK p.2 = true) →
    blankGo .code (renderItems its ++ tl) =
      renderItems (its.map fun p => (p.1.toCore, gapBlank p.2)) ++ blankGo .code tl := by
  intro its
  induction its with
  | nil => intro tl _; rfl
  | cons p rest ih =>
    intro tl h
    obtain ⟨it, g⟩ := p
    have hp := h (it, g) (by simp)
    simp only [renderItems, List.map_cons, List.append_assoc]
    rw [blank_item it _ hp.1, blank_gap g _ hp.2, ih tl (fun p hp => h p (by simp [hp]))]

/-- **`blankComments` on a statement of the grammar** gives the text of the
    same statement with every comment overwritten by blanks. -/
theorem blank_stmt (s : Stmt) (hok : s.ok = true) : blankComments s.text = s.toCore.text := by
  simp only [Stmt.ok, Bool.and_eq_true] at hok
  obtain ⟨⟨⟨⟨⟨hlead, hinit⟩, hlast⟩, htail⟩, _⟩, _⟩ := hok
  have hinit' : ∀ p ∈ s.init, p.1.shapeOK = true ∧ gapOK p.2 = true := by
    intro p hp
    have := List.all_eq_true.mp hinit p hp
    simpa using this
  unfold blankComments
  simp only [Stmt.text, Stmt.toCore]
  rw [blank_gap s.lead _ hlead, blank_items s.init _ hinit', blank_item s.last _ hlast]
  have := blank_gap s.tail [] htail
  simp only [List.append_nil] at this
  rw [this]; simp [blankGo]

/-! ### `toCore` is a core statement with the same skeleton -/

theorem wsGap_replicate (n : Nat) : wsGap (List.replicate n (SepPiece.ws ' ')) = true := by
  simp [wsGap, gapOK, gapIsWs, List.all_replicate, SepPiece.ok, SepPiece.isWs, isSpace]

theorem wsGap_append (a b : Gap) (ha : wsGap a = true) (hb : wsGap b = true) : wsGap (a ++ b) = true := by
  simp only [wsGap, gapOK, gapIsWs, Bool.and_eq_true, List.all_append] at *
  exact ⟨⟨ha.1, hb.1⟩, ⟨ha.2, hb.2⟩⟩

theorem wsGap_piece (p : SepPiece) (h : p.ok = true) : wsGap p.blank = true := by
  have hnl : wsGap [SepPiece.ws '\n'] = true := by decide
  cases p with
  | ws c => simpa [SepPiece.blank, wsGap, gapOK, gapIsWs, SepPiece.isWs] using h
  | mlc body => exact wsGap_replicate _
  | dash c body => exact wsGap_append _ _ (wsGap_replicate _) hnl
  | hash body => exact wsGap_append _ _ (wsGap_replicate _) hnl

theorem wsGap_blank : ∀ (g : Gap), gapOK g = true → wsGap (gapBlank g) = true := by
  intro g
  induction g with
  | nil => intro _; rfl
  | cons p rest ih =>
    intro h
    simp only [gapOK, List.all_cons, Bool.and_eq_true] at h
    simp only [gapBlank, List.flatMap_cons]
    exact wsGap_append _ _ (wsGap_piece p h.1) (ih (by simpa [gapOK] using h.2))

theorem piece_blank_ne (p : SepPiece) : p.blank ≠ [] := by
  cases p <;> simp [SepPiece.blank]

theorem gapBlank_isEmpty (g : Gap) : (gapBlank g).isEmpty = g.isEmpty := by
  cases g with
  | nil => rfl
  | cons p rest =>
    simp only [gapBlank, List.flatMap_cons, List.isEmpty_cons]
    cases h : p.blank with
    | nil => exact absurd h (piece_blank_ne p)
    | cons _ _ => rfl

theorem row_toCore_core (r : Row) (h : r.ok = true) : r.toCore.core = true := by
  simp only [Row.ok, Bool.and_eq_true] at h
  obtain ⟨c', hc, hl⟩ := contentOK_some h.2
  simp [Row.core, Row.toCore, wsGap_blank _ h.1.1, wsGap_blank _ h.1.2, hc, hl]

theorem item_toCore_core (it : Item) (h : it.shapeOK = true) : it.toCore.core = true := by
  cases it with
  | chunk segs => exact h
  | vlist kw gap content rows =>
    simp only [Item.shapeOK, Bool.and_eq_true] at h
    obtain ⟨⟨⟨hkw, hgap⟩, hcontent⟩, hrows⟩ := h
    obtain ⟨c', hc, hl⟩ := contentOK_some hcontent
    simp only [Item.toCore, Item.core, Bool.and_eq_true, hc, Option.getD_some]
    refine ⟨⟨⟨hkw, wsGap_blank gap hgap⟩, hl⟩, ?_⟩
    rw [List.all_map]
    apply List.all_eq_true.mpr
    intro r hr
    exact row_toCore_core r (List.all_eq_true.mp hrows r hr)

theorem item_toCore_norm (it : Item) (h : it.shapeOK = true) : it.toCore.norm = it.norm := by
  cases it with
  | chunk segs => rfl
  | vlist kw gap content rows =>
    simp only [Item.shapeOK, Bool.and_eq_true] at h
    obtain ⟨c', hc, _⟩ := contentOK_some h.1.2
    simp only [Item.toCore, Item.norm, hc, Option.getD_some]
    -- the blanked content is empty iff the content is
    have hlen : c'.length = content.length := by
      unfold contentBlank at hc
      split at hc
      · simp only [Option.some.injEq] at hc
        rw [← hc, List.length_dropLast, length_blankGo]; simp
      · cases hc
    have : c'.isEmpty = content.isEmpty := by
      cases c' <;> cases content <;> simp_all
    rw [this]

theorem item_toCore_misc (it : Item) :
    it.toCore.isList = it.isList ∧ it.toCore.rows.isEmpty = it.rows.isEmpty ∧ it.toCore.isPlain = it.isPlain ∧
      (∀ prev d, it.toCore.ctxOK1 prev d = it.ctxOK1 prev d) ∧ (∀ prev, it.toCore.nextPrev prev = it.nextPrev prev) ∧
      (∀ prev d, it.toCore.nextDupe prev d = it.nextDupe prev d) := by
  cases it with
  | chunk segs => exact ⟨rfl, rfl, rfl, fun _ _ => rfl, fun _ => rfl, fun _ _ => rfl⟩
  | vlist kw gap content rows =>
    refine ⟨rfl, ?_, rfl, fun _ _ => rfl, fun _ => rfl, fun _ _ => rfl⟩
    simp [Item.toCore, Item.rows]

def coreItems (its : List (Item × Gap)) : List (Item × Gap) := its.map fun p => (p.1.toCore, gapBlank p.2)

theorem ctxOK_toCore : ∀ (its : List Item) (prev : List Char) (d : Bool),
    ctxOK prev d (its.map Item.toCore) = ctxOK prev d its := by
  intro its
  induction its with
  | nil => intro _ _; rfl
  | cons it rest ih =>
    intro prev d
    obtain ⟨_, _, _, h4, h5, h6⟩ := item_toCore_misc it
    simp only [List.map_cons, ctxOK, h4, h5, h6, ih]

theorem sepsOK_toCore : ∀ (its : List (Item × Gap)), sepsOK (coreItems its) = sepsOK its := by
  intro its
  induction its with
  | nil => rfl
  | cons p rest ih =>
    obtain ⟨it, g⟩ := p
    obtain ⟨h1, h2, _, _, _, _⟩ := item_toCore_misc it
    have e : coreItems ((it, g) :: rest) = (it.toCore, gapBlank g) :: coreItems rest := rfl
    rw [e]
    cases rest with
    | nil => simp only [sepsOK, gapBlank_isEmpty, h1, h2, coreItems, List.map_nil, List.isEmpty_nil]
    | cons p2 rest2 =>
      obtain ⟨it2, g2⟩ := p2
      have e2 : coreItems ((it2, g2) :: rest2) = (it2.toCore, gapBlank g2) :: coreItems rest2 := rfl
      rw [e2] at ih ⊢
      simp only [sepsOK] at ih ⊢
      rw [ih]
      simp only [gapBlank_isEmpty, h1, h2, (item_toCore_misc it2).2.2.1, List.isEmpty_cons]

theorem skelOf_toCore : ∀ (its : List (Item × Gap)), (∀ p ∈ its, p.1.shapeOK = true) →
    skelOf (coreItems its) = skelOf its := by
  intro its
  induction its with
  | nil => intro _; rfl
  | cons p rest ih =>
    intro h
    obtain ⟨it, g⟩ := p
    have e : coreItems ((it, g) :: rest) = (it.toCore, gapBlank g) :: coreItems rest := rfl
    rw [e]
    simp only [skelOf, gapBlank_isEmpty, item_toCore_norm it (h (it, g) (by simp)),
      ih (fun p hp => h p (by simp [hp]))]

theorem toCore_allItems (s : Stmt) : s.toCore.allItems = coreItems s.allItems := by
  simp [Stmt.allItems, Stmt.toCore, coreItems, Stmt.lastSep, gapBlank, SepPiece.blank]

theorem toCore_items (s : Stmt) : s.toCore.items = s.items.map Item.toCore := by
  simp [Stmt.items, Stmt.toCore]

theorem allItems_shape (s : Stmt) (hok : s.ok = true) : ∀ p ∈ s.allItems, p.1.shapeOK = true := by
  simp only [Stmt.ok, Bool.and_eq_true] at hok
  obtain ⟨⟨⟨⟨⟨_, hinit⟩, hlast⟩, _⟩, _⟩, _⟩ := hok
  intro p hp
  simp only [Stmt.allItems, List.mem_append, List.mem_singleton] at hp
  rcases hp with hp | hp
  · have := List.all_eq_true.mp hinit p hp
    simp only [Bool.and_eq_true] at this; exact this.1
  · subst hp; exact hlast

/-- The statement with its comments blanked is a core statement with the same skeleton. -/
theorem toCore_core (s : Stmt) (hok : s.ok = true) : s.toCore.core = true ∧ s.toCore.skeleton = s.skeleton := by
  have hshape := allItems_shape s hok
  simp only [Stmt.ok, Bool.and_eq_true] at hok
  obtain ⟨⟨⟨⟨⟨hlead, hinit⟩, hlast⟩, htail⟩, hctx⟩, hseps⟩ := hok
  refine ⟨?_, ?_⟩
  · simp only [Stmt.core, Bool.and_eq_true]
    refine ⟨⟨⟨⟨⟨wsGap_blank _ hlead, ?_⟩, item_toCore_core _ hlast⟩, wsGap_blank _ htail⟩, ?_⟩, ?_⟩
    · simp only [Stmt.toCore, List.all_map]
      apply List.all_eq_true.mpr
      intro p hp
      have := List.all_eq_true.mp hinit p hp
      simp only [Bool.and_eq_true] at this
      simp [item_toCore_core _ this.1, wsGap_blank _ this.2]
    · rw [toCore_items, ctxOK_toCore]; exact hctx
    · rw [toCore_allItems, sepsOK_toCore]; exact hseps
  · simp only [Stmt.skeleton]
    rw [toCore_allItems, skelOf_toCore _ hshape]

end GaeaVerif.FingerprintBlank
