import GaeaVerif.Lemmas.C10Router
/-
  C10: a shard rule that `Shard.verify` accepts is parsed by `parseRule`, and a
  rule list that `verifyShardRules` accepts is loaded by the loops of NewRouter.
-/
namespace GaeaVerif.C10
open GaeaVerif

/-! ### one rule -/

theorem verifyMycatHash_parse (l : List Int) (s d : List Str) (t : IntMap)
    (h : verifyMycatHashRuleSliceInfos l s d = .ok t) :
    parseMycatHashRuleSliceInfos l s d = .ok (t.map (·.1), t) ∧ ∃ dbs, getRealDatabases d = .ok dbs := by
  unfold verifyMycatHashRuleSliceInfos at h
  cases hv : verifyHashRuleSliceInfos l s with
  | fail => rw [hv] at h; simp at h
  | panic => rw [hv] at h; simp at h
  | ok t' =>
    rw [hv] at h; simp only at h
    cases hd : getRealDatabases d with
    | fail => rw [hd] at h; simp at h
    | panic => rw [hd] at h; simp at h
    | ok dbs =>
      rw [hd] at h; simp only at h
      split at h
      · cases h
      · next hlen =>
        simp only [R.ok.injEq] at h
        subst h
        unfold parseMycatHashRuleSliceInfos
        rw [(verifyHash_iff_parseHash l s _).mp hv]
        simp only [hd]
        exact ⟨by rw [if_neg hlen], dbs, rfl⟩

theorem verifyGlobal_parse (l : List Int) (s d : List Str)
    (h : verifyGlobalTableRuleSliceInfos l s d = .ok ()) :
    (∃ idx t, parseGlobalTableRuleSliceInfos l s d = .ok (idx, t)) ∧
    (d.length ≠ 0 → ∃ dbs, getRealDatabases d = .ok dbs) := by
  unfold verifyGlobalTableRuleSliceInfos at h
  split at h
  · next t hv =>
    unfold parseGlobalTableRuleSliceInfos
    rw [(verifyHash_iff_parseHash l s _).mp hv]
    simp only
    split at h
    · next hd =>
      rw [if_pos hd]
      split at h
      · next dbs hdb =>
        split at h
        · cases h
        · next hlen =>
          simp only [hdb]
          rw [if_neg hlen]
          exact ⟨⟨_, _, rfl⟩, fun _ => ⟨dbs, rfl⟩⟩
      · cases h
      · cases h
    · next hd =>
      rw [if_neg hd]
      exact ⟨⟨_, _, rfl⟩, fun hne => absurd hne hd⟩
  · cases h
  · cases h

theorem dateLoop_mono (p1 p2 : Str → R (List Int)) (hp : ∀ dr nums, p1 dr = .ok nums → p2 dr = .ok nums) :
    ∀ (drs : List Str) (i : Int) (acc : List Int) (m : IntMap) (r : List Int × IntMap),
      dateLoop p1 drs i acc m = .ok r → dateLoop p2 drs i acc m = .ok r
  | [], _, _, _, _, h => by simpa [dateLoop] using h
  | dr :: rest, i, acc, m, r, h => by
    unfold dateLoop at h ⊢
    split at h
    · cases h
    · cases h
    · next nums hn =>
      rw [hp dr nums hn]
      split at h
      · cases h
      · next last n0 tl hl =>
        simp only [hl]
        split at h
        · cases h
        · next hlt =>
          rw [if_neg hlt]
          exact dateLoop_mono p1 p2 hp rest _ _ _ r h
      · next hnone =>
        simp only [hnone]
        exact dateLoop_mono p1 p2 hp rest _ _ _ r h

theorem verifyDate_parse (p1 p2 : Str → R (List Int)) (hp : ∀ dr nums, p1 dr = .ok nums → p2 dr = .ok nums)
    (drs sl : List Str) (h : verifyDateRuleSliceInfos p1 drs sl = .ok ()) :
    ∃ idx t, parseDateRuleSliceInfos p2 drs sl = .ok (idx, t) := by
  unfold verifyDateRuleSliceInfos at h
  unfold parseDateRuleSliceInfos
  split at h
  · cases h
  · next hlen =>
    rw [if_neg hlen]
    split at h
    · next r hr => exact ⟨r.1, r.2, dateLoop_mono p1 p2 hp drs 0 [] [] r hr⟩
    · cases h
    · cases h

/-- what `parseRule` needs beyond `parseRuleSliceInfos` -/
theorem parseRule_of_sliceInfos (cfg : Shard)
    (hex : ∃ r, parseRuleSliceInfos cfg = .ok r)
    (hm : isMycatShardingRule (rtOf cfg.typ) = true → ∃ dbs, getRealDatabases cfg.databases = .ok dbs)
    (hg : rtOf cfg.typ = .global → cfg.databases.length ≠ 0 → ∃ dbs, getRealDatabases cfg.databases = .ok dbs) :
    ∃ b, parseRule cfg = .ok b := by
  obtain ⟨r, h⟩ := hex
  unfold parseRule
  rw [h]
  simp only
  split
  · next hmy =>
    obtain ⟨dbs, hd⟩ := hm hmy
    rw [hd]; exact ⟨_, rfl⟩
  · split
    · next hgl =>
      split
      · next hne =>
        obtain ⟨dbs, hd⟩ := hg hgl hne
        rw [hd]; exact ⟨_, rfl⟩
      · exact ⟨_, rfl⟩
    · exact ⟨_, rfl⟩

theorem shardVerify_parseRule (s : Shard) (h : shardVerify s = .ok ()) : ∃ b, parseRule s = .ok b := by
  cases hrt : rtOf s.typ with
  | hash =>
    simp only [shardVerify, hrt] at h
    r_cases h : verifyHashRuleSliceInfos s.locations s.slices with t hv
    have hp := (verifyHash_iff_parseHash _ _ _).mp hv
    refine parseRule_of_sliceInfos s ?_ (by simp [hrt, isMycatShardingRule]) (by simp [hrt])
    simp only [parseRuleSliceInfos, hrt, hp]
    exact ⟨_, rfl⟩
  | mod =>
    simp only [shardVerify, hrt] at h
    r_cases h : verifyHashRuleSliceInfos s.locations s.slices with t hv
    have hp := (verifyHash_iff_parseHash _ _ _).mp hv
    refine parseRule_of_sliceInfos s ?_ (by simp [hrt, isMycatShardingRule]) (by simp [hrt])
    simp only [parseRuleSliceInfos, hrt, hp]
    exact ⟨_, rfl⟩
  | range =>
    simp only [shardVerify, hrt] at h
    r_cases h : verifyHashRuleSliceInfos s.locations s.slices with t hv
    r_cases h : parseNumSharding s.locations s.tableRowLimit with rs hn
    split at h
    · cases h
    · next hlen =>
      have hp := (verifyHash_iff_parseHash _ _ _).mp hv
      refine parseRule_of_sliceInfos s ?_ (by simp [hrt, isMycatShardingRule]) (by simp [hrt])
      simp only [parseRuleSliceInfos, hrt, hp, hn]
      rw [if_neg hlen]
      exact ⟨_, rfl⟩
  | day =>
    simp only [shardVerify, hrt] at h
    obtain ⟨idx, t, hp⟩ := verifyDate_parse _ _ parseDayRange_lenient _ _ h
    refine parseRule_of_sliceInfos s ?_ (by simp [hrt, isMycatShardingRule]) (by simp [hrt])
    simp only [parseRuleSliceInfos, hrt, hp]
    exact ⟨_, rfl⟩
  | month =>
    simp only [shardVerify, hrt] at h
    obtain ⟨idx, t, hp⟩ := verifyDate_parse _ _ parseMonthRange_lenient _ _ h
    refine parseRule_of_sliceInfos s ?_ (by simp [hrt, isMycatShardingRule]) (by simp [hrt])
    simp only [parseRuleSliceInfos, hrt, hp]
    exact ⟨_, rfl⟩
  | year =>
    simp only [shardVerify, hrt] at h
    obtain ⟨idx, t, hp⟩ := verifyDate_parse _ _ parseYearRange_lenient _ _ h
    refine parseRule_of_sliceInfos s ?_ (by simp [hrt, isMycatShardingRule]) (by simp [hrt])
    simp only [parseRuleSliceInfos, hrt, hp]
    exact ⟨_, rfl⟩
  | mycatMod =>
    simp only [shardVerify, hrt] at h
    r_cases h : verifyMycatHashRuleSliceInfos s.locations s.slices s.databases with t hv
    obtain ⟨hp, hdb⟩ := verifyMycatHash_parse _ _ _ _ hv
    refine parseRule_of_sliceInfos s ?_ (fun _ => hdb) (by simp [hrt])
    simp only [parseRuleSliceInfos, hrt, hp]
    exact ⟨_, rfl⟩
  | mycatLong =>
    simp only [shardVerify, hrt] at h
    r_cases h : verifyMycatHashRuleSliceInfos s.locations s.slices s.databases with t hv
    r_cases h : partitionLongInit (mapLen t) s.partitionCount s.partitionLength with seg hseg
    obtain ⟨hp, hdb⟩ := verifyMycatHash_parse _ _ _ _ hv
    refine parseRule_of_sliceInfos s ?_ (fun _ => hdb) (by simp [hrt])
    simp only [parseRuleSliceInfos, hrt, hp, hseg]
    exact ⟨_, rfl⟩
  | mycatString =>
    simp only [shardVerify, hrt] at h
    r_cases h : verifyMycatHashRuleSliceInfos s.locations s.slices s.databases with t hv
    r_cases h : partitionLongInit (mapLen t) s.partitionCount s.partitionLength with seg hseg
    r_cases h : parseHashSliceStartEnd s.hashSlice with se hse
    obtain ⟨hp, hdb⟩ := verifyMycatHash_parse _ _ _ _ hv
    refine parseRule_of_sliceInfos s ?_ (fun _ => hdb) (by simp [hrt])
    simp only [parseRuleSliceInfos, hrt, hp, hseg, hse]
    exact ⟨_, rfl⟩
  | mycatMurmur =>
    simp only [shardVerify, hrt] at h
    r_cases h : verifyMycatHashRuleSliceInfos s.locations s.slices s.databases with t hv
    r_cases h : parseMurmur s.seed s.virtualBucketTimes with sv hsv
    obtain ⟨hp, hdb⟩ := verifyMycatHash_parse _ _ _ _ hv
    refine parseRule_of_sliceInfos s ?_ (fun _ => hdb) (by simp [hrt])
    simp only [parseRuleSliceInfos, hrt, hp, hsv]
    exact ⟨_, rfl⟩
  | mycatPadding =>
    simp only [shardVerify, hrt] at h
    r_cases h : verifyMycatHashRuleSliceInfos s.locations s.slices s.databases with t hv
    r_cases h : parsePaddingMod s.padFrom s.padLength s.modBegin s.modEnd (mapLen t) with p hpad
    obtain ⟨hp, hdb⟩ := verifyMycatHash_parse _ _ _ _ hv
    refine parseRule_of_sliceInfos s ?_ (fun _ => hdb) (by simp [hrt])
    simp only [parseRuleSliceInfos, hrt, hp, hpad]
    exact ⟨_, rfl⟩
  | global =>
    simp only [shardVerify, hrt] at h
    obtain ⟨⟨idx, t, hp⟩, hdb⟩ := verifyGlobal_parse _ _ _ h
    refine parseRule_of_sliceInfos s ?_ (by simp [hrt, isMycatShardingRule]) (fun _ => hdb)
    simp only [parseRuleSliceInfos, hrt, hp]
    exact ⟨_, rfl⟩
  | default => simp [shardVerify, hrt] at h
  | linked => simp [shardVerify, hrt] at h
  | unknown => simp [shardVerify, hrt] at h

/-! ### the rule list -/

/-- relation between the type map of `verifyShardRules` and the rule map of
    `NewRouter` while both walk the same rule list -/
structure LoadInv (rv : TypeMap) (rr : RuleMap) (lv : List Shard) : Prop where
  sub : ∀ k r, lookup rr k = some r → ∃ b, r = .base b ∧ rtOf b.ruleType ≠ .linked ∧ (lookup rv k).isSome
  sup : ∀ k t, lookup rv k = some t → rtOf t ≠ .linked →
    ∃ b, lookup rr k = some (.base b) ∧ rtOf b.ruleType ≠ .linked
  linked : ∀ s ∈ lv, rtOf s.typ = .linked ∧
    ∃ t, lookup rv (s.db, toLower s.table) = some t ∧ rtOf t = .linked

theorem LoadInv.add_linked {rv : TypeMap} {rr : RuleMap} {lv : List Shard} (inv : LoadInv rv rr lv) (s : Shard)
    (hl : rtOf s.typ = .linked) (hnew : ¬ (lookup rv (s.db, toLower s.table)).isSome) :
    LoadInv (rv ++ [((s.db, toLower s.table), s.typ)]) rr (lv ++ [s]) := by
  have hnone : lookup rv (s.db, toLower s.table) = none := by
    cases hx : lookup rv (s.db, toLower s.table) with
    | none => rfl
    | some v => rw [hx] at hnew; simp at hnew
  refine ⟨?_, ?_, ?_⟩
  · intro k r hr
    obtain ⟨b, hb, hnl, hs⟩ := inv.sub k r hr
    refine ⟨b, hb, hnl, ?_⟩
    rw [lookup_append_single]
    split
    · simp
    · exact hs
  · intro k t ht hnl
    rw [lookup_append_single] at ht
    split at ht
    · simp only [Option.some.injEq] at ht; subst ht; exact absurd hl hnl
    · exact inv.sup k t ht hnl
  · intro s' hs'
    rcases List.mem_append.mp hs' with h1 | h1
    · obtain ⟨hl', t, ht, htl⟩ := inv.linked s' h1
      refine ⟨hl', t, ?_, htl⟩
      rw [lookup_append_single]
      split
      · next heq => rw [← heq, hnone] at ht; cases ht
      · exact ht
    · simp only [List.mem_singleton] at h1
      subst h1
      refine ⟨hl, s'.typ, ?_, hl⟩
      rw [lookup_append_single]; simp

theorem LoadInv.add_base {rv : TypeMap} {rr : RuleMap} {lv : List Shard} (inv : LoadInv rv rr lv)
    (k : Str × Str) (typ : Str) (b : BaseRule) (hb : b.ruleType = typ) (hnl : rtOf typ ≠ .linked)
    (hnew : ¬ (lookup rv k).isSome) :
    LoadInv (rv ++ [(k, typ)]) (rr ++ [(k, .base b)]) lv := by
  have hnone : lookup rv k = none := by
    cases hx : lookup rv k with
    | none => rfl
    | some v => rw [hx] at hnew; simp at hnew
  refine ⟨?_, ?_, ?_⟩
  · intro k' r hr
    rw [lookup_append_single] at hr
    rw [lookup_append_single]
    split at hr
    · next heq =>
      simp only [Option.some.injEq] at hr
      subst hr
      refine ⟨b, rfl, by rw [hb]; exact hnl, ?_⟩
      rw [if_pos heq]; simp
    · next hne =>
      obtain ⟨b', hb', hnl', hs⟩ := inv.sub k' r hr
      refine ⟨b', hb', hnl', ?_⟩
      rw [if_neg hne]; exact hs
  · intro k' t ht hnl'
    rw [lookup_append_single] at ht
    rw [lookup_append_single]
    split at ht
    · next heq =>
      rw [if_pos heq]
      exact ⟨b, rfl, by rw [hb]; exact hnl⟩
    · next hne =>
      rw [if_neg hne]
      exact inv.sup k' t ht hnl'
  · intro s' hs'
    obtain ⟨hl', t, ht, htl⟩ := inv.linked s' hs'
    refine ⟨hl', t, ?_, htl⟩
    rw [lookup_append_single]
    split
    · next heq => rw [← heq, hnone] at ht; cases ht
    · exact ht

theorem rulesLoop_load (names : List Str) :
    ∀ (shards lv : List Shard) (rv : TypeMap) (rr : RuleMap) (lv' : List Shard) (rv' : TypeMap),
      LoadInv rv rr lv → verifyRulesLoop names shards lv rv = .ok (lv', rv') →
      ∃ rr', routerRulesLoop names shards lv rr = .ok (lv', rr') ∧ LoadInv rv' rr' lv'
  | [], lv, rv, rr, lv', rv', inv, h => by
    simp only [verifyRulesLoop, R.ok.injEq, Prod.mk.injEq] at h
    obtain ⟨h1, h2⟩ := h
    subst h1; subst h2
    exact ⟨rr, rfl, inv⟩
  | s :: rest, lv, rv, rr, lv', rv', inv, h => by
    unfold verifyRulesLoop at h
    unfold routerRulesLoop
    split at h
    · cases h
    · next hinc =>
      rw [if_neg hinc]
      cases hrt : rtOf s.typ with
      | default => rw [hrt] at h; simp at h
      | linked =>
        rw [hrt] at h
        simp only at h
        split at h
        · cases h
        · next hnew =>
          simp only [if_true]
          exact rulesLoop_load names rest _ _ rr lv' rv' (inv.add_linked s hrt hnew) h
      | _ =>
        rw [hrt] at h
        simp only at h
        r_cases h : shardVerify s with u hv
        split at h
        · cases h
        · next hnew =>
          obtain ⟨b, hb⟩ := shardVerify_parseRule s hv
          have sp := parseRule_spec s b hb
          rw [if_neg (by simp), hb]
          simp only
          have hdef : ¬ rtOf b.ruleType = .default := by
            rw [sp.2.2.1, hrt]; simp
          rw [if_neg hdef]
          have hkey : (b.db, b.table) = (s.db, toLower s.table) := by
            rw [sp.1, sp.2.1]
          rw [hkey]
          have hnl : rtOf s.typ ≠ .linked := by rw [hrt]; simp
          have hnot : ¬ (lookup rr (s.db, toLower s.table)).isSome = true := by
            intro hsome
            cases hx : lookup rr (s.db, toLower s.table) with
            | none => rw [hx] at hsome; simp at hsome
            | some r =>
              obtain ⟨_, _, _, hs⟩ := inv.sub _ r hx
              exact hnew hs
          rw [if_neg hnot]
          exact rulesLoop_load names rest lv _ _ lv' rv'
            (inv.add_base (s.db, toLower s.table) s.typ b sp.2.2.1 hnl hnew) h

theorem linkedLoop_load (rv : TypeMap) :
    ∀ (linked : List Shard) (rr : RuleMap),
      (∀ s ∈ linked, rtOf s.typ = .linked ∧ ∃ t, lookup rv (s.db, toLower s.table) = some t ∧ rtOf t = .linked) →
      (∀ k t, lookup rv k = some t → rtOf t ≠ .linked →
        ∃ b, lookup rr k = some (.base b) ∧ rtOf b.ruleType ≠ .linked) →
      verifyLinkedLoop rv linked = .ok () → ∃ rr', routerLinkedLoop linked rr = .ok rr'
  | [], rr, _, _, _ => ⟨rr, rfl⟩
  | s :: rest, rr, hl, hJ, h => by
    unfold verifyLinkedLoop at h
    unfold routerLinkedLoop
    split at h
    · cases h
    · next t ht =>
      split at h
      · cases h
      · next hnl =>
        obtain ⟨b, hb, hbnl⟩ := hJ _ t ht hnl
        obtain ⟨hsl, t', ht', ht'l⟩ := hl s List.mem_cons_self
        have hc : createLinkedRule rr s = .ok (.linked s.db (toLower s.table) (toLower s.key) b) := by
          unfold createLinkedRule
          rw [if_neg (by simp [hsl]), hb]
          have hbnl' : ¬ rtOf (Rule.base b).target.ruleType = .linked := hbnl
          simp only [hbnl', if_false]
        rw [hc]
        simp only
        refine linkedLoop_load rv rest _ (fun s' hs' => hl s' (List.mem_cons_of_mem _ hs')) ?_ h
        intro k t2 ht2 hnl2
        obtain ⟨b2, hb2, hb2nl⟩ := hJ k t2 ht2 hnl2
        refine ⟨b2, ?_, hb2nl⟩
        rw [lookup_append_single]
        split
        · next heq =>
          rw [heq] at ht'
          rw [ht'] at ht2
          simp only [Option.some.injEq] at ht2
          subst ht2
          exact absurd ht'l hnl2
        · exact hb2

end GaeaVerif.C10
