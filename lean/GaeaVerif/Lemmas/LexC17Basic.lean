import GaeaVerif.Model.LexC17Spec
/-
  Helper lemmas for C17: the reader (`peek`, `incAsLongAs`) on ASCII and
  non-ASCII bytes.
-/
namespace GaeaVerif.LexC17
open GaeaVerif

theorem peek_ascii (b : UInt8) (t : Bytes) (h : b.toNat < 0x80) : peek (b :: t) = (b.toNat, 1) := by
  simp [peek, h]

theorem lo3_ge (c : Nat) : 0x80 ≤ lo3 c := by unfold lo3; split <;> omega
theorem lo4_ge (c : Nat) : 0x80 ≤ lo4 c := by unfold lo4; split <;> omega
theorem hi3_le (c : Nat) : hi3 c ≤ 0xBF := by unfold hi3; split <;> omega
theorem hi4_le (c : Nat) : hi4 c ≤ 0xBF := by unfold hi4; split <;> omega

/-- A multi-byte result of `decodeRune`: rune ≥ 0x80, width 2–4 within the
    input, all bytes of the encoding ≥ 0x80. -/
def MultiByte (l : Bytes) (r w : Nat) : Prop :=
  0x80 ≤ r ∧ 2 ≤ w ∧ w ≤ 4 ∧ w ≤ l.length ∧ ∀ i, i < w → 0x80 ≤ (l.getD i 0).toNat

/-- What `decodeRune` can return on a non-empty input whose first byte is not ASCII. -/
theorem decodeRune_high (b : UInt8) (t : Bytes) (h : ¬ b.toNat < 0x80) (r w : Nat)
    (hd : decodeRune (b :: t) = (r, w)) :
    (r = runeError ∧ w = 1) ∨ MultiByte (b :: t) r w := by
  simp only [decodeRune, if_neg h] at hd
  by_cases h1 : b.toNat < 0xC2
  · simp only [if_pos h1, Prod.mk.injEq] at hd; left; exact ⟨hd.1.symm, hd.2.symm⟩
  simp only [if_neg h1] at hd
  by_cases h2 : b.toNat < 0xE0
  · simp only [if_pos h2] at hd
    match t, hd with
    | [], hd => simp only [Prod.mk.injEq] at hd; left; exact ⟨hd.1.symm, hd.2.symm⟩
    | b1 :: t', hd =>
      simp only at hd
      by_cases hc : isCont b1 = true
      · simp only [hc, if_true, Prod.mk.injEq] at hd
        obtain ⟨rfl, rfl⟩ := hd
        right
        simp only [isCont, Bool.and_eq_true, decide_eq_true_eq] at hc
        refine ⟨by omega, by omega, by omega, by simp, ?_⟩
        intro i hi
        have : i = 0 ∨ i = 1 := by omega
        rcases this with rfl | rfl <;> simp <;> omega
      · simp only [Bool.not_eq_true] at hc
        simp only [hc, Bool.false_eq_true, if_false, Prod.mk.injEq] at hd; left; exact ⟨hd.1.symm, hd.2.symm⟩
  simp only [if_neg h2] at hd
  by_cases h3 : b.toNat < 0xF0
  · simp only [if_pos h3] at hd
    match t, hd with
    | [], hd => simp only [Prod.mk.injEq] at hd; left; exact ⟨hd.1.symm, hd.2.symm⟩
    | [_], hd => simp only [Prod.mk.injEq] at hd; left; exact ⟨hd.1.symm, hd.2.symm⟩
    | b1 :: b2 :: t', hd =>
      simp only at hd
      by_cases hc : lo3 b.toNat ≤ b1.toNat ∧ b1.toNat ≤ hi3 b.toNat ∧ isCont b2 = true
      · simp only [if_pos hc, Prod.mk.injEq] at hd
        obtain ⟨rfl, rfl⟩ := hd
        obtain ⟨c1, c2, c3⟩ := hc
        have := lo3_ge b.toNat
        have := hi3_le b.toNat
        have e0 : b.toNat = 0xE0 ∧ 0xA0 ≤ b1.toNat ∨ b.toNat ≠ 0xE0 := by
          by_cases e : b.toNat = 0xE0
          · left; simp only [lo3, e, if_true] at c1; exact ⟨e, c1⟩
          · right; exact e
        simp only [isCont, Bool.and_eq_true, decide_eq_true_eq] at c3
        right
        refine ⟨by omega, by omega, by omega, by simp, ?_⟩
        intro i hi
        have : i = 0 ∨ i = 1 ∨ i = 2 := by omega
        rcases this with rfl | rfl | rfl <;> simp <;> omega
      · simp only [if_neg hc, Prod.mk.injEq] at hd; left; exact ⟨hd.1.symm, hd.2.symm⟩
  simp only [if_neg h3] at hd
  by_cases h4 : b.toNat < 0xF5
  · simp only [if_pos h4] at hd
    match t, hd with
    | [], hd => simp only [Prod.mk.injEq] at hd; left; exact ⟨hd.1.symm, hd.2.symm⟩
    | [_], hd => simp only [Prod.mk.injEq] at hd; left; exact ⟨hd.1.symm, hd.2.symm⟩
    | [_, _], hd => simp only [Prod.mk.injEq] at hd; left; exact ⟨hd.1.symm, hd.2.symm⟩
    | b1 :: b2 :: b3 :: t', hd =>
      simp only at hd
      by_cases hc : lo4 b.toNat ≤ b1.toNat ∧ b1.toNat ≤ hi4 b.toNat ∧ isCont b2 = true ∧ isCont b3 = true
      · simp only [if_pos hc, Prod.mk.injEq] at hd
        obtain ⟨rfl, rfl⟩ := hd
        obtain ⟨c1, c2, c3, c4⟩ := hc
        have := lo4_ge b.toNat
        have := hi4_le b.toNat
        have e0 : b.toNat = 0xF0 ∧ 0x90 ≤ b1.toNat ∨ b.toNat ≠ 0xF0 := by
          by_cases e : b.toNat = 0xF0
          · left; simp only [lo4, e, if_true] at c1; exact ⟨e, c1⟩
          · right; exact e
        simp only [isCont, Bool.and_eq_true, decide_eq_true_eq] at c3 c4
        right
        refine ⟨by omega, by omega, by omega, by simp, ?_⟩
        intro i hi
        have : i = 0 ∨ i = 1 ∨ i = 2 ∨ i = 3 := by omega
        rcases this with rfl | rfl | rfl | rfl <;> simp <;> omega
      · simp only [if_neg hc, Prod.mk.injEq] at hd; left; exact ⟨hd.1.symm, hd.2.symm⟩
  · simp only [if_neg h4, Prod.mk.injEq] at hd; left; exact ⟨hd.1.symm, hd.2.symm⟩


theorem peek_high (b : UInt8) (t : Bytes) (h : ¬ b.toNat < 0x80) :
    0x80 ≤ (peek (b :: t)).1 ∧ 1 ≤ (peek (b :: t)).2 ∧ (peek (b :: t)).2 ≤ (b :: t).length ∧
    ∀ i, i < (peek (b :: t)).2 → 0x80 ≤ ((b :: t).getD i 0).toNat := by
  have hd := decodeRune_high b t h (decodeRune (b :: t)).1 (decodeRune (b :: t)).2 rfl
  simp only [peek, if_neg h]
  rcases hd with ⟨h1, h2⟩ | hm
  · rw [h1, h2]
    rw [if_pos ⟨rfl, rfl⟩]
    refine ⟨by show 128 ≤ b.toNat; omega, by show 1 ≤ 1; omega, by simp, ?_⟩
    intro i hi
    have : i = 0 := by have : i < 1 := hi; omega
    subst this
    show 128 ≤ b.toNat
    omega
  · obtain ⟨m1, m2, m3, m4, m5⟩ := hm
    have : ¬ ((decodeRune (b :: t)).1 = runeError ∧ (decodeRune (b :: t)).2 = 1) := by
      intro ⟨_, e⟩; omega
    simp only [this, if_false]
    exact ⟨m1, by omega, m4, m5⟩

theorem peek_width_pos (rest : Bytes) (h : rest ≠ []) : 1 ≤ (peek rest).2 := by
  cases rest with
  | nil => exact absurd rfl h
  | cons b t =>
    by_cases hb : b.toNat < 0x80
    · rw [peek_ascii b t hb]; exact Nat.le_refl 1
    · exact (peek_high b t hb).2.1

theorem peek_width_le (rest : Bytes) : (peek rest).2 ≤ rest.length := by
  cases rest with
  | nil => simp [peek]
  | cons b t =>
    by_cases hb : b.toNat < 0x80
    · rw [peek_ascii b t hb]; simp
    · exact (peek_high b t hb).2.2.1

theorem incAux_fuel (fn : Nat → Bool) : ∀ (f1 f2 : Nat) (rest : Bytes),
    rest.length ≤ f1 → rest.length ≤ f2 → incAsLongAsAux fn f1 rest = incAsLongAsAux fn f2 rest := by
  intro f1
  induction f1 with
  | zero =>
    intro f2 rest h1 _
    have : rest = [] := List.length_eq_zero_iff.mp (by omega)
    subst this
    cases f2 <;> simp [incAsLongAsAux]
  | succ n ih =>
    intro f2 rest h1 h2
    cases rest with
    | nil => cases f2 <;> simp [incAsLongAsAux]
    | cons b t =>
      cases f2 with
      | zero => simp at h2
      | succ m =>
        simp only [incAsLongAsAux]
        split
        · congr 1
          have hp := peek_width_pos (b :: t) (by simp)
          apply ih
          · simp only [List.length_drop, List.length_cons] at *; omega
          · simp only [List.length_drop, List.length_cons] at *; omega
        · rfl

theorem incAsLongAs_nil (fn : Nat → Bool) : incAsLongAs fn [] = 0 := by
  simp [incAsLongAs, incAsLongAsAux]

theorem incAsLongAs_step (fn : Nat → Bool) (rest : Bytes) (h : rest ≠ []) (hf : fn (peek rest).1 = true) :
    incAsLongAs fn rest = (peek rest).2 + incAsLongAs fn (rest.drop (peek rest).2) := by
  cases rest with
  | nil => exact absurd rfl h
  | cons b t =>
    simp only [incAsLongAs, List.length_cons, incAsLongAsAux, hf, if_true]
    congr 1
    have hp := peek_width_pos (b :: t) (by simp)
    apply incAux_fuel
    · simp only [List.length_drop, List.length_cons]; omega
    · exact Nat.le_refl _

theorem incAsLongAs_stop (fn : Nat → Bool) (rest : Bytes) (hf : fn (peek rest).1 = false) :
    incAsLongAs fn rest = 0 := by
  cases rest with
  | nil => exact incAsLongAs_nil fn
  | cons b t => simp [incAsLongAs, incAsLongAsAux, hf]

/-- Over a run of ASCII bytes that all satisfy `fn`, the loop advances byte by byte. -/
theorem incAsLongAs_ascii_run (fn : Nat → Bool) (w rest : Bytes)
    (hw : ∀ b ∈ w, b.toNat < 0x80 ∧ fn b.toNat = true) :
    incAsLongAs fn (w ++ rest) = w.length + incAsLongAs fn rest := by
  induction w with
  | nil => simp
  | cons b t ih =>
    have hb := hw b (by simp)
    have hs := incAsLongAs_step fn (b :: (t ++ rest)) (by simp) (by rw [peek_ascii b _ hb.1]; exact hb.2)
    rw [peek_ascii b _ hb.1] at hs
    simp only [List.cons_append, List.length_cons]
    rw [hs]
    simp only [List.drop_succ_cons, List.drop_zero]
    rw [ih (fun b' hb' => hw b' (by simp [hb']))]
    omega

end GaeaVerif.LexC17
