import GaeaVerif.Model.GlobalTree
/-
  The name skeleton of a statement tree (Model/GlobalTree.lean: `skeleton`, the
  walk of the planner's handlers) lists exactly the names of the tree
  (`refs`, a listing that knows nothing about handlers): no handler skips a
  column.  Used by Props/C04.lean.
-/
namespace GaeaVerif.GlobalTree
open GaeaVerif GaeaVerif.Layout GaeaVerif.Global

/-- how the planner prints the name met at a position -/
def posKind : Pos → RefKind
  | .tableRef => .table
  | .setColumn | .insColumn | .insValue => .bare
  | _ => .column

/-- a name of the skeleton without its position -/
def nameRef (n : Name) : Ref :=
  { kind := posKind n.pos, schema := n.schema, table := n.table, name := n.name, alias := n.alias }

@[simp] theorem nameRef_mkName (pos : Pos) (c : ColRef) : nameRef (mkName pos c) = colRef (posKind pos) c := rfl

@[simp] theorem map_visitNames (pos : Pos) (e : Expr) :
    (visitNames pos e).map nameRef = e.cols.map (colRef (posKind pos)) := by
  simp [visitNames, List.map_map, Function.comp_def]

theorem map_cmpOperand (e : Expr) : (cmpOperand e).map nameRef = e.cols.map (colRef .column) := by
  cases e <;> simp [cmpOperand, Expr.cols, posKind]

theorem map_binopOperand (e : Expr) : (binopOperand e).map nameRef = e.cols.map (colRef .column) := by
  cases e <;> simp [binopOperand, Expr.cols, posKind]

/-- **`handleComparisonExpr` reaches every column of a condition**, in text order -/
theorem map_condNames (e : Expr) : (condNames e).map nameRef = e.cols.map (colRef .column) := by
  induction e with
  | col c => simp [condNames, Expr.cols, posKind]
  | val => simp [condNames, Expr.cols]
  | node l r _ _ => simp [condNames, Expr.cols, posKind]
  | cmp l r _ _ => simp [condNames, Expr.cols, map_cmpOperand]
  | logic l r ihl ihr => simp [condNames, Expr.cols, ihl, ihr]
  | binop l r _ _ => simp [condNames, Expr.cols, map_binopOperand]
  | inList e items _ _ => cases e <;> simp [condNames, Expr.cols, posKind]
  | between e lo hi _ _ _ => cases e <;> simp [condNames, Expr.cols, posKind]
  | paren e ih => simp [condNames, Expr.cols, ih]

theorem map_fieldNames (f : Field) : (fieldNames f).map nameRef = fieldRefs f := by
  cases f with
  | star => rfl
  | wild s t => rfl
  | expr e => cases e <;> simp [fieldNames, fieldRefs, Expr.cols, posKind] <;> rfl

theorem map_optCond (o : Option Expr) : (optCond o).map nameRef = optRefs o := by
  cases o <;> simp [optCond, optRefs, map_condNames]

theorem map_tableNames (t : TableRef) : (tableNames t).map nameRef = tableRefs t := by
  unfold tableNames tableRefs
  cases h : t.on <;> simp [optRefs, map_condNames, nameRef, posKind]

theorem map_byNames (b : ByItem) : (byNames b).map nameRef = byRefs b := by
  cases b <;> simp [byNames, byRefs, posKind]

theorem map_flatMap_eq {α β γ : Type} (l : List α) (f : α → List β) (g : α → List γ) (h : β → γ)
    (hfg : ∀ a, (f a).map h = g a) : (l.flatMap f).map h = l.flatMap g := by
  induction l with
  | nil => rfl
  | cons a l ih => simp [List.flatMap_cons, hfg, ih]

/-- is the name a GROUP BY / ORDER BY item (column or below an aggregate function)? -/
def isBy (n : Name) : Bool := n.pos == .byItem || n.pos == .byExpr

theorem visitNames_pos (pos : Pos) (e : Expr) : ∀ n ∈ visitNames pos e, n.pos = pos := by
  intro n hn
  simp only [visitNames, List.mem_map] at hn
  obtain ⟨c, _, rfl⟩ := hn
  rfl

theorem cmpOperand_notBy (e : Expr) : ∀ n ∈ cmpOperand e, isBy n = false := by
  intro n hn
  cases e <;> simp only [cmpOperand] at hn
  case col c => simp at hn; subst hn; rfl
  case val => simp at hn
  all_goals (have := visitNames_pos _ _ n hn; simp [isBy, this])

theorem binopOperand_notBy (e : Expr) : ∀ n ∈ binopOperand e, isBy n = false := by
  intro n hn
  cases e <;> simp only [binopOperand] at hn
  case col c => simp at hn; subst hn; rfl
  case val => simp at hn
  all_goals (have := visitNames_pos _ _ n hn; simp [isBy, this])

theorem condNames_notBy (e : Expr) : ∀ n ∈ condNames e, isBy n = false := by
  induction e with
  | col c => intro n hn; simp [condNames] at hn; subst hn; rfl
  | val => intro n hn; simp [condNames] at hn
  | node l r _ _ => intro n hn; simp only [condNames] at hn; have := visitNames_pos _ _ n hn; simp [isBy, this]
  | cmp l r _ _ =>
    intro n hn; simp only [condNames, List.mem_append] at hn
    rcases hn with h | h
    · exact cmpOperand_notBy l n h
    · exact cmpOperand_notBy r n h
  | logic l r ihl ihr =>
    intro n hn; simp only [condNames, List.mem_append] at hn
    rcases hn with h | h
    · exact ihl n h
    · exact ihr n h
  | binop l r _ _ =>
    intro n hn; simp only [condNames, List.mem_append] at hn
    rcases hn with h | h
    · exact binopOperand_notBy l n h
    · exact binopOperand_notBy r n h
  | inList e items _ _ =>
    intro n hn
    cases e <;> simp only [condNames, List.mem_append, List.mem_cons] at hn
    all_goals
      rcases hn with h | h
      · first | (subst h; rfl) | (have := visitNames_pos _ _ n h; simp [isBy, this])
      · have := visitNames_pos _ _ n h; simp [isBy, this]
  | between e lo hi _ _ _ =>
    intro n hn
    cases e <;> simp only [condNames, List.mem_append, List.mem_cons] at hn
    all_goals
      rcases hn with h | h | h
      · first | (subst h; rfl) | (have := visitNames_pos _ _ n h; simp [isBy, this])
      · have := visitNames_pos _ _ n h; simp [isBy, this]
      · have := visitNames_pos _ _ n h; simp [isBy, this]
  | paren e ih => intro n hn; simp only [condNames] at hn; exact ih n hn

theorem visitNames_whole (pos : Pos) (e : Expr) : ∀ n ∈ visitNames pos e, n.whole = false := by
  intro n hn
  simp only [visitNames, List.mem_map] at hn
  obtain ⟨c, _, rfl⟩ := hn
  rfl

theorem any_false_of_forall {α : Type} (l : List α) (p : α → Bool) (h : ∀ a ∈ l, p a = false) : l.any p = false := by
  induction l with
  | nil => rfl
  | cons a l ih => simp [List.any_cons, h a (by simp), ih (fun b hb => h b (by simp [hb]))]

theorem hasPlainField_skeleton (fields : List Field) (c : String) :
    hasPlainField (fields.flatMap fieldNames) c = selectsPlain fields c := by
  unfold hasPlainField selectsPlain
  rw [List.any_flatMap]
  congr 1
  funext f
  cases f with
  | star => simp [fieldNames]
  | wild s t => simp [fieldNames]
  | expr e =>
    cases e
    case col x => simp [fieldNames, mkName]
    all_goals
      simp only [fieldNames]
      apply any_false_of_forall
      intro n hn
      simp [visitNames_whole _ _ n hn]

/-- the filter of `appendedFields` -/
def keepBy (fields : List Name) (n : Name) : Bool :=
  (n.pos == .byItem && !hasPlainField fields n.name) || n.pos == .byExpr

/-- the relabelling of `appendedFields` -/
def relabel (n : Name) : Name := { n with pos := if n.pos == .byItem then .byAppended else .byExprAppended }

theorem appendedFields_eq (s : Stmt) :
    appendedFields s = if s.kind = .select then (s.tail.filter (keepBy s.fields)).map relabel else [] := rfl

theorem filter_keepBy_nil (fields : List Name) (l : List Name) (h : ∀ n ∈ l, isBy n = false) :
    l.filter (keepBy fields) = [] := by
  rw [List.filter_eq_nil_iff]
  intro n hn
  have := h n hn
  simp only [isBy, Bool.or_eq_false_iff] at this
  simp [keepBy, this.1, this.2]

theorem appended_byNames (fields : List Field) (b : ByItem) :
    (((byNames b).filter (keepBy (fields.flatMap fieldNames))).map relabel).map nameRef = appendedOf fields b := by
  cases b with
  | col c =>
    simp only [byNames, appendedOf]
    by_cases h : selectsPlain fields c.name
    · simp [keepBy, mkName, hasPlainField_skeleton, h]
    · simp [keepBy, mkName, hasPlainField_skeleton, h, relabel, nameRef, posKind, colRef]
  | agg e =>
    simp only [byNames, appendedOf]
    have hf : (visitNames .byExpr e).filter (keepBy (fields.flatMap fieldNames)) = visitNames .byExpr e := by
      rw [List.filter_eq_self]
      intro n hn
      simp [keepBy, visitNames_pos _ _ n hn]
    rw [hf]
    simp [visitNames, List.map_map, Function.comp_def, relabel, mkName, nameRef, posKind, colRef]
  | lit => rfl
  | other => rfl

theorem appended_flatMap (fields : List Field) (l : List ByItem) :
    (((l.flatMap byNames).filter (keepBy (fields.flatMap fieldNames))).map relabel).map nameRef =
      l.flatMap (appendedOf fields) := by
  induction l with
  | nil => rfl
  | cons b l ih =>
    simp only [List.flatMap_cons, List.filter_append, List.map_append, ih, appended_byNames]

theorem byNames_flatMap_isBy_having (e : Expr) : ∀ n ∈ visitNames .having e, isBy n = false := by
  intro n hn
  simp [isBy, visitNames_pos _ _ n hn]

theorem optCond_notBy (o : Option Expr) : ∀ n ∈ optCond o, isBy n = false := by
  cases o with
  | none => intro n hn; simp [optCond] at hn
  | some e => exact condNames_notBy e

/-- the fields the planner appends are the by-items again -/
theorem havingNames_notBy (o : Option Expr) : ∀ n ∈ havingNames o, isBy n = false := by
  cases o with
  | none => intro n hn; simp [havingNames] at hn
  | some e => exact byNames_flatMap_isBy_having e

theorem map_appendedFields (s : TStmt) : (appendedFields (skeleton s)).map nameRef = appendedRefs s := by
  rw [appendedFields_eq]
  unfold appendedRefs
  by_cases hk : s.kind = .select
  · have hk' : (skeleton s).kind = .select := hk
    rw [if_pos hk, if_pos hk']
    have htail : (skeleton s).tail = optCond s.«where» ++ s.groupBy.flatMap byNames ++ havingNames s.having ++
        s.orderBy.flatMap byNames := by
      simp [skeleton, tailNames, hk]
    have hfields : (skeleton s).fields = s.fields.flatMap fieldNames := rfl
    rw [htail, hfields]
    simp only [List.filter_append, List.map_append, List.flatMap_append]
    rw [filter_keepBy_nil _ _ (optCond_notBy s.«where»), filter_keepBy_nil _ _ (havingNames_notBy s.having)]
    simp only [List.map_nil, List.append_nil, List.nil_append, appended_flatMap]
  · have hk' : ¬ (skeleton s).kind = .select := hk
    rw [if_neg hk, if_neg hk']
    rfl

theorem map_havingNames (o : Option Expr) : (havingNames o).map nameRef = optRefs o := by
  cases o <;> simp [havingNames, optRefs, posKind]

theorem map_insAssign (a : Assign) : (insAssign a).map nameRef = insAssignRefs a := by
  simp [insAssign, insAssignRefs, posKind]

theorem map_tailNames (s : TStmt) : (tailNames s).map nameRef = tailRefs s := by
  unfold tailNames tailRefs
  cases s.kind
  · simp only [List.map_append, map_optCond, map_havingNames, map_flatMap_eq _ _ _ _ map_byNames]
  · simp only [List.map_append, map_optCond, map_flatMap_eq _ _ _ _ map_byNames]
    congr 2
    apply map_flatMap_eq
    intro a
    simp [posKind]
  · simp only [List.map_append, map_optCond, map_flatMap_eq _ _ _ _ map_byNames]
  · simp only [List.map_append, map_flatMap_eq _ _ _ _ map_insAssign]
    congr 2
    · congr 1
      · simp [List.map_map, Function.comp_def, posKind]
      · apply map_flatMap_eq
        intro row
        apply map_flatMap_eq
        intro e
        simp [posKind]

/-- **The planner's handlers meet every name of the statement**: the name
    skeleton, positions forgotten, is the handler-independent listing `refs` -/
theorem map_textNames (s : TStmt) : (textNames (skeleton s)).map nameRef = refs s := by
  unfold textNames refs
  simp only [List.map_append, map_appendedFields]
  have h1 : (skeleton s).fields.map nameRef = s.fields.flatMap fieldRefs :=
    map_flatMap_eq _ _ _ _ map_fieldNames
  have h2 : (skeleton s).«from».map nameRef = s.tables.flatMap tableRefs :=
    map_flatMap_eq _ _ _ _ map_tableNames
  have h3 := map_tailNames s
  rw [h1, h2]
  show _ ++ _ ++ _ ++ (tailNames s).map nameRef = _
  rw [h3]

end GaeaVerif.GlobalTree
