import GaeaVerif.Lemmas.MergeRow
import GaeaVerif.Lemmas.MergeKey
/-
  C02 helper lemmas: first occurrences (`dedup`), the association list that
  models the Go map of `buildSelectGroupByResult`, and the loop of that function:
  merging per-shard groups under an injective key encoding.
-/
namespace GaeaVerif.Merge

section Dedup
variable {α : Type} [DecidableEq α]

theorem mem_dedupAux : ∀ (l seen : List α) (a : α), a ∈ dedupAux seen l ↔ a ∈ l ∧ a ∉ seen
  | [], _, _ => by simp [dedupAux]
  | b :: l, seen, a => by
    simp only [dedupAux]
    split
    · rename_i hb
      rw [mem_dedupAux l seen a]
      constructor
      · rintro ⟨h1, h2⟩; exact ⟨by simp [h1], h2⟩
      · rintro ⟨h1, h2⟩
        rcases List.mem_cons.mp h1 with rfl | h1
        · exact absurd hb h2
        · exact ⟨h1, h2⟩
    · rename_i hb
      rw [List.mem_cons, mem_dedupAux l (b :: seen) a]
      constructor
      · rintro (rfl | ⟨h1, h2⟩)
        · exact ⟨by simp, hb⟩
        · exact ⟨by simp [h1], fun h => h2 (by simp [h])⟩
      · rintro ⟨h1, h2⟩
        by_cases e : a = b
        · left; exact e
        · right
          rcases List.mem_cons.mp h1 with rfl | h1
          · exact absurd rfl e
          · exact ⟨h1, by simp [e, h2]⟩

theorem mem_dedup (l : List α) (a : α) : a ∈ dedup l ↔ a ∈ l := by
  simp [dedup, mem_dedupAux]

theorem nodup_dedupAux : ∀ (l seen : List α), (dedupAux seen l).Nodup
  | [], _ => by simp [dedupAux]
  | b :: l, seen => by
    simp only [dedupAux]
    split
    · exact nodup_dedupAux l seen
    · rw [List.nodup_cons]
      refine ⟨?_, nodup_dedupAux l (b :: seen)⟩
      rw [mem_dedupAux]; simp

theorem nodup_dedup (l : List α) : (dedup l).Nodup := nodup_dedupAux l []

theorem dedupAux_append_singleton : ∀ (l seen : List α) (a : α),
    dedupAux seen (l ++ [a]) = if a ∈ seen ∨ a ∈ l then dedupAux seen l else dedupAux seen l ++ [a]
  | [], seen, a => by
    by_cases h : a ∈ seen <;> simp [dedupAux, h]
  | b :: l, seen, a => by
    simp only [List.cons_append, dedupAux]
    split
    · rename_i hb
      rw [dedupAux_append_singleton l seen a]
      by_cases h1 : a ∈ seen
      · simp [h1]
      · by_cases h2 : a ∈ l
        · simp [h2]
        · have : a ≠ b := fun e => h1 (e ▸ hb)
          simp [h1, h2, this]
    · rename_i hb
      rw [dedupAux_append_singleton l (b :: seen) a]
      by_cases h0 : a = b
      · subst h0; simp
      · by_cases h1 : a ∈ seen
        · simp [h1]
        · by_cases h2 : a ∈ l
          · simp [h2]
          · simp [h0, h1, h2]

theorem dedup_append_singleton (l : List α) (a : α) :
    dedup (l ++ [a]) = if a ∈ l then dedup l else dedup l ++ [a] := by
  simp [dedup, dedupAux_append_singleton]

end Dedup

/-! ### the association list -/

section Assoc
variable {κ : Type} [DecidableEq κ]

theorem mapLookup_map (mk : κ → List UInt8) (val : κ → Row) : ∀ (ks : List κ) (k : κ),
    (∀ k' ∈ ks, mk k' = mk k → k' = k) →
    mapLookup (mk k) (ks.map fun x => (mk x, val x)) = if k ∈ ks then some (val k) else none
  | [], _, _ => by simp [mapLookup]
  | x :: ks, k, hinj => by
    simp only [List.map_cons, mapLookup]
    by_cases e : mk k = mk x
    · have := hinj x (by simp) e.symm
      subst this
      simp
    · have hne : k ≠ x := fun h => e (h ▸ rfl)
      have hne' : ¬ x = k := fun h => hne h.symm
      rw [if_neg e, mapLookup_map mk val ks k (fun k' hk' => hinj k' (by simp [hk']))]
      simp [hne]

theorem mapSet_map_mem (mk : κ → List UInt8) (val : κ → Row) (v : Row) : ∀ (ks : List κ) (k : κ),
    (∀ k' ∈ ks, mk k' = mk k → k' = k) → k ∈ ks → ks.Nodup →
    mapSet (mk k) v (ks.map fun x => (mk x, val x)) = ks.map fun x => (mk x, if x = k then v else val x)
  | [], _, _, h, _ => by simp at h
  | x :: ks, k, hinj, hmem, hnd => by
    simp only [List.map_cons, mapSet]
    rw [List.nodup_cons] at hnd
    by_cases e : mk k = mk x
    · have := hinj x (by simp) e.symm
      subst this
      simp only [if_true]
      congr 1
      apply List.map_congr_left
      intro y hy
      have : y ≠ x := fun h => hnd.1 (h ▸ hy)
      simp [this]
    · have hne : k ≠ x := fun h => e (h ▸ rfl)
      have hne' : ¬ x = k := fun h => hne h.symm
      rw [if_neg e]
      have hk : k ∈ ks := by
        rcases List.mem_cons.mp hmem with h | h
        · exact absurd h hne
        · exact h
      rw [mapSet_map_mem mk val v ks k (fun k' hk' => hinj k' (by simp [hk'])) hk hnd.2]
      simp [hne']

theorem mapSet_map_not_mem (mk : κ → List UInt8) (val : κ → Row) (v : Row) : ∀ (ks : List κ) (k : κ),
    (∀ k' ∈ ks, mk k' = mk k → k' = k) → k ∉ ks →
    mapSet (mk k) v (ks.map fun x => (mk x, val x)) = (ks.map fun x => (mk x, val x)) ++ [(mk k, v)]
  | [], _, _, _ => by simp [mapSet]
  | x :: ks, k, hinj, hmem => by
    simp only [List.map_cons, mapSet, List.cons_append]
    have hne : x ≠ k := fun h => hmem (by simp [h])
    have e : ¬ mk k = mk x := fun h => hne (hinj x (by simp) h.symm)
    rw [if_neg e, mapSet_map_not_mem mk val v ks k (fun k' hk' => hinj k' (by simp [hk']))
      (fun h => hmem (by simp [h]))]

end Assoc

/-! ### the loop of buildSelectGroupByResult -/

/-- the rows of the chunks with key `k`, in order -/
def chunkRows (kc : List Row → List Val) (done : List (List Row)) (k : List Val) : List Row :=
  (done.filter fun c => kc c = k).flatten

/-- the map after the chunks `done`: one entry per key in order of first
    occurrence, holding the row of all rows with that key -/
def chunkState (items : List Item) (kc : List Row → List Val) (done : List (List Row)) : List (List UInt8 × Row) :=
  (dedup (done.map kc)).map fun k => (generateMapKey k, fullRow items (chunkRows kc done k))

theorem chunkRows_snoc (kc : List Row → List Val) (done : List (List Row)) (c : List Row) (k : List Val) :
    chunkRows kc (done ++ [c]) k = chunkRows kc done k ++ (if kc c = k then c else []) := by
  simp only [chunkRows, List.filter_append, List.flatten_append]
  by_cases h : kc c = k <;> simp [List.filter, h]

theorem chunkRows_ne_nil (kc : List Row → List Val) (done : List (List Row)) (k : List Val)
    (hne : ∀ c ∈ done, c ≠ []) (hk : k ∈ done.map kc) : chunkRows kc done k ≠ [] := by
  obtain ⟨c, hc, rfl⟩ := List.mem_map.mp hk
  intro h
  have : c ∈ done.filter fun c' => kc c' = kc c := by simp [hc]
  have hall := List.flatten_eq_nil_iff.mp h c this
  exact hne c hc hall

theorem chunkRows_typed {schema : List Ty} (kc : List Row → List Val) (done : List (List Row)) (k : List Val)
    (ht : ∀ c ∈ done, TypedRows schema c) : TypedRows schema (chunkRows kc done k) := by
  intro r hr
  simp only [chunkRows, List.mem_flatten, List.mem_filter] at hr
  obtain ⟨c, ⟨hc, _⟩, hrc⟩ := hr
  exact ht c hc r hrc

theorem chunkState_snoc_not_mem (items : List Item) (kc : List Row → List Val) (done : List (List Row))
    (c : List Row) (h : kc c ∉ done.map kc) :
    chunkState items kc (done ++ [c]) = chunkState items kc done ++ [(generateMapKey (kc c), fullRow items c)] := by
  simp only [chunkState, List.map_append, List.map_cons, List.map_nil, dedup_append_singleton, h, if_false]
  congr 1
  · apply List.map_congr_left
    intro k hk
    have hk' : k ∈ done.map kc := (mem_dedup _ _).mp hk
    have : kc c ≠ k := fun e => h (e ▸ hk')
    simp [chunkRows_snoc, this]
  · have : chunkRows kc done (kc c) = [] := by
      simp only [chunkRows]
      apply List.flatten_eq_nil_iff.mpr
      intro l hl
      simp only [List.mem_filter, decide_eq_true_eq] at hl
      exact absurd (List.mem_map.mpr ⟨l, hl.1, hl.2⟩) h
    simp [chunkRows_snoc, this]

theorem chunkState_snoc_mem (items : List Item) (kc : List Row → List Val) (done : List (List Row))
    (c : List Row) (h : kc c ∈ done.map kc) :
    chunkState items kc (done ++ [c]) =
      (dedup (done.map kc)).map fun k => (generateMapKey k,
        if k = kc c then fullRow items (chunkRows kc done (kc c) ++ c) else fullRow items (chunkRows kc done k)) := by
  simp only [chunkState, List.map_append, List.map_cons, List.map_nil, dedup_append_singleton, h, if_true]
  apply List.map_congr_left
  intro k _
  by_cases e : k = kc c
  · subst e; simp [chunkRows_snoc]
  · have : ¬ kc c = k := fun h => e h.symm
    simp [chunkRows_snoc, e, this]

theorem keySliceOf_congr (cols : List Int) (d : Int) (v : Row) : keySliceOf cols d v = keySliceOf cols d v := rfl

/-- **Merging per-shard groups.**  `todo` are the groups the shards return
    (each a non-empty list of rows of one shard, all with one GROUP BY key
    `kc c`), in any order; the key encoding is injective on the keys present.
    The loop of `buildSelectGroupByResult` ends with one row per key, computed
    from all rows that carry the key. -/
theorem groupLoop_chunks {schema : List Ty} (p : Plan) (d : Int) (items : List Item) (kc : List Row → List Val)
    (haggs : p.aggs = aggPositions items) (hok : ∀ it ∈ items, it.aggOK schema = true) :
    ∀ (todo done : List (List Row)),
    (∀ c ∈ done ++ todo, c ≠ [] ∧ TypedRows schema c ∧
      keySliceOf p.groupByColumn d (fullRow items c) = .ok (kc c)) →
    (∀ c ∈ done ++ todo, ∀ c' ∈ done ++ todo, generateMapKey (kc c) = generateMapKey (kc c') → kc c = kc c') →
    groupLoop p d (chunkState items kc done) (todo.map (fullRow items)) = .ok (chunkState items kc (done ++ todo))
  | [], done, _, _ => by simp [groupLoop]
  | c :: cs, done, hall, hinj => by
    have hc := hall c (by simp)
    have hstep : ∀ m, m = chunkState items kc (done ++ [c]) →
        groupLoop p d m (cs.map (fullRow items)) = .ok (chunkState items kc (done ++ c :: cs)) := by
      intro m hm
      subst hm
      have := groupLoop_chunks p d items kc haggs hok cs (done ++ [c])
        (fun x hx => hall x (by simpa using hx)) (fun x hx y hy => hinj x (by simpa using hx) y (by simpa using hy))
      simpa using this
    have hinj' : ∀ k' ∈ dedup (done.map kc), generateMapKey k' = generateMapKey (kc c) → k' = kc c := by
      intro k' hk' e
      obtain ⟨c', hc', rfl⟩ := List.mem_map.mp ((mem_dedup _ _).mp hk')
      exact hinj c' (by simp [hc']) c (by simp) e
    simp only [List.map_cons, groupLoop, hc.2.2]
    have hlook := mapLookup_map generateMapKey (fun k => fullRow items (chunkRows kc done k))
      (dedup (done.map kc)) (kc c) hinj'
    simp only [chunkState] at hlook ⊢
    rw [hlook]
    by_cases hmem : kc c ∈ done.map kc
    · have hmem' : kc c ∈ dedup (done.map kc) := (mem_dedup _ _).mpr hmem
      simp only [hmem', if_true]
      have hX : chunkRows kc done (kc c) ≠ [] :=
        chunkRows_ne_nil kc done (kc c) (fun x hx => (hall x (by simp [hx])).1) hmem
      have hXt : TypedRows schema (chunkRows kc done (kc c)) :=
        chunkRows_typed kc done (kc c) (fun x hx => (hall x (by simp [hx])).2.1)
      have hrow := row_homomorphism items (chunkRows kc done (kc c)) c hXt hc.2.1 (Or.inl hX) hok
      by_cases hempty : p.aggs.isEmpty = true
      · simp only [hempty, if_true]
        apply hstep
        rw [chunkState_snoc_mem items kc done c hmem]
        apply List.map_congr_left
        intro k _
        by_cases e : k = kc c
        · subst e
          simp only [if_true]
          have : aggPositions items = [] := by
            rw [← haggs]; exact List.isEmpty_iff.mp hempty
          rw [this] at hrow
          simp only [mergeAll] at hrow
          rw [R.ok.injEq] at hrow
          rw [hrow]
        · simp [e]
      · simp only [hempty, Bool.false_eq_true, if_false]
        rw [haggs, hrow]
        simp only
        apply hstep
        rw [chunkState_snoc_mem items kc done c hmem]
        exact mapSet_map_mem generateMapKey _ _ _ _ hinj' hmem' (nodup_dedup _)
    · have hmem' : kc c ∉ dedup (done.map kc) := fun h => hmem ((mem_dedup _ _).mp h)
      simp only [hmem', if_false]
      apply hstep
      rw [chunkState_snoc_not_mem items kc done c hmem]
      exact mapSet_map_not_mem generateMapKey _ _ _ _ hinj' hmem'

end GaeaVerif.Merge
