import GaeaVerif.Lemmas.MergeKey
/-
  C02 helper lemmas: the text `formatValue` produces for a DECIMAL value
  (`decimal.Decimal.StringFixed(scale)`) determines the value among the values
  of one scale, and its length is bounded — so the GROUP BY / DISTINCT map key is
  injective on DECIMAL columns too.
-/
namespace GaeaVerif.Merge

theorem dk_map_inj_on {α β : Type} (f : α → β) : ∀ (l1 l2 : List α),
    (∀ a ∈ l1, ∀ b ∈ l2, f a = f b → a = b) → l1.map f = l2.map f → l1 = l2
  | [], [], _, _ => rfl
  | [], _ :: _, _, h => by simp at h
  | _ :: _, [], _, h => by simp at h
  | a :: l1, b :: l2, hinj, h => by
    simp only [List.map_cons, List.cons.injEq] at h
    rw [hinj a (by simp) b (by simp) h.1,
      dk_map_inj_on f l1 l2 (fun x hx y hy => hinj x (by simp [hx]) y (by simp [hy])) h.2]

theorem dk_digit_byte (c : Char) (h : c.isDigit = true) : (UInt8.ofNat c.toNat).toNat = c.toNat := by
  simp only [Char.isDigit, Bool.and_eq_true, decide_eq_true_eq] at h
  have h2 : c.toNat ≤ 57 := h.2
  simp [UInt8.toNat_ofNat']
  omega

/-- the bytes of `digitsOf` read back as characters -/
def byteChars (l : List UInt8) : List Char := l.map fun b => Char.ofNat b.toNat

theorem byteChars_digitsOf (n : Nat) : byteChars (digitsOf n) = Nat.toDigits 10 n := by
  simp only [byteChars, digitsOf, List.map_map]
  conv => rhs; rw [← List.map_id (Nat.toDigits 10 n)]
  apply List.map_congr_left
  intro c hc
  have dc := Nat.isDigit_of_mem_toDigits (by decide) (by decide) hc
  simp only [Function.comp, dk_digit_byte c dc, id]
  exact Char.ofNat_toNat c

/-- the number a digit string denotes -/
def byteVal (l : List UInt8) : Nat := Nat.ofDigitChars 10 (byteChars l) 0

theorem byteVal_digitsOf (n : Nat) : byteVal (digitsOf n) = n := by
  simp [byteVal, byteChars_digitsOf, Nat.ofDigitChars_ten_toDigits]

theorem byteVal_padLeft (s : Nat) (l : List UInt8) : byteVal (padLeft s l) = byteVal l := by
  simp only [byteVal, padLeft, byteChars, List.map_append, List.map_replicate, Nat.ofDigitChars_append]
  have : Char.ofNat (48 : UInt8).toNat = '0' := by decide
  rw [this, Nat.ofDigitChars_replicate_zero]
  simp

theorem digitsOf_inj' (n m : Nat) (h : digitsOf n = digitsOf m) : n = m := by
  have := congrArg byteVal h
  rwa [byteVal_digitsOf, byteVal_digitsOf] at this

theorem digitsOf_digit (n : Nat) : ∀ b ∈ digitsOf n, 48 ≤ b.toNat ∧ b.toNat ≤ 57 := by
  intro b hb
  simp only [digitsOf, List.mem_map] at hb
  obtain ⟨c, hc, rfl⟩ := hb
  have dc := Nat.isDigit_of_mem_toDigits (by decide) (by decide) hc
  rw [dk_digit_byte c dc]
  simp only [Char.isDigit, Bool.and_eq_true, decide_eq_true_eq] at dc
  exact ⟨dc.1, dc.2⟩

theorem digitsOf_ne_nil (n : Nat) : digitsOf n ≠ [] := by
  intro h
  have := congrArg byteVal h
  rw [byteVal_digitsOf] at this
  subst this
  revert h
  decide

/-- splitting at the first occurrence of a byte that neither prefix contains -/
theorem append_cons_inj_of_not_mem {α : Type} (x : α) : ∀ (l1 l2 r1 r2 : List α), x ∉ l1 → x ∉ l2 →
    l1 ++ x :: r1 = l2 ++ x :: r2 → l1 = l2 ∧ r1 = r2
  | [], [], _, _, _, _, h => by simpa using h
  | [], b :: l2, _, _, _, h2, h => by
    simp only [List.nil_append, List.cons_append, List.cons.injEq] at h
    exact absurd (by simp [h.1]) h2
  | a :: l1, [], _, _, h1, _, h => by
    simp only [List.nil_append, List.cons_append, List.cons.injEq] at h
    exact absurd (by simp [h.1]) h1
  | a :: l1, b :: l2, r1, r2, h1, h2, h => by
    simp only [List.cons_append, List.cons.injEq] at h
    have := append_cons_inj_of_not_mem x l1 l2 r1 r2 (fun hm => h1 (by simp [hm])) (fun hm => h2 (by simp [hm])) h.2
    exact ⟨by rw [h.1, this.1], this.2⟩

/-- the text without the sign -/
def decBody (a scale : Nat) : List UInt8 :=
  if scale = 0 then digitsOf a
  else digitsOf (a / 10 ^ scale) ++ [46] ++ padLeft scale (digitsOf (a % 10 ^ scale))

theorem decText_eq (u : Int) (scale : Nat) :
    decText u scale = (if u < 0 then [45] else []) ++ decBody u.natAbs scale := by
  simp only [decText, decBody]
  split <;> simp [List.append_assoc]

theorem decBody_head (a scale : Nat) : ∃ b rest, decBody a scale = b :: rest ∧ 48 ≤ b.toNat := by
  simp only [decBody]
  split
  · cases h : digitsOf a with
    | nil => exact absurd h (digitsOf_ne_nil a)
    | cons b rest => exact ⟨b, rest, rfl, (digitsOf_digit a b (by rw [h]; simp)).1⟩
  · cases h : digitsOf (a / 10 ^ scale) with
    | nil => exact absurd h (digitsOf_ne_nil _)
    | cons b rest =>
      exact ⟨b, rest ++ [46] ++ padLeft scale (digitsOf (a % 10 ^ scale)), by simp,
        (digitsOf_digit _ b (by rw [h]; simp)).1⟩

theorem decBody_inj (a b scale : Nat) (h : decBody a scale = decBody b scale) : a = b := by
  simp only [decBody] at h
  split at h
  · exact digitsOf_inj' a b h
  · rename_i hs
    simp only [List.append_assoc, List.singleton_append] at h
    have hno : ∀ n, (46 : UInt8) ∉ digitsOf n := by
      intro n hm
      have := (digitsOf_digit n 46 hm).1
      revert this; decide
    obtain ⟨h1, h2⟩ := append_cons_inj_of_not_mem 46 _ _ _ _ (hno _) (hno _) h
    have hq := digitsOf_inj' _ _ h1
    have hm := congrArg byteVal h2
    rw [byteVal_padLeft, byteVal_padLeft, byteVal_digitsOf, byteVal_digitsOf] at hm
    rw [← Nat.div_add_mod a (10 ^ scale), ← Nat.div_add_mod b (10 ^ scale), hq, hm]

/-- **the DECIMAL text determines the value** among the values of one scale -/
theorem decText_inj (u u' : Int) (scale : Nat) (h : decText u scale = decText u' scale) : u = u' := by
  rw [decText_eq, decText_eq] at h
  obtain ⟨b, rest, hb, hb48⟩ := decBody_head u.natAbs scale
  obtain ⟨b', rest', hb', hb48'⟩ := decBody_head u'.natAbs scale
  by_cases hu : u < 0 <;> by_cases hu' : u' < 0
  · simp only [hu, hu', if_true, List.cons_append, List.nil_append, List.cons.injEq, true_and] at h
    have := decBody_inj _ _ _ h
    omega
  · simp only [hu, hu', if_true, if_false, List.cons_append, List.nil_append] at h
    rw [hb'] at h
    simp only [List.cons.injEq] at h
    have : b'.toNat = 45 := by rw [← h.1]; decide
    omega
  · simp only [hu, hu', if_true, if_false, List.cons_append, List.nil_append] at h
    rw [hb] at h
    simp only [List.cons.injEq] at h
    have : b.toNat = 45 := by rw [h.1]; decide
    omega
  · simp only [hu, hu', if_false, List.nil_append] at h
    have := decBody_inj _ _ _ h
    omega

theorem digitsOf_length_le (n k : Nat) (h : n < 10 ^ k) (hk : 0 < k) : (digitsOf n).length ≤ k := by
  simp only [digitsOf, List.length_map]
  exact (Nat.length_toDigits_le_iff (by decide) hk).mpr h

/-- the DECIMAL text of a value with at most 65 digits and a scale of at most 30 (MySQL's limits) is short -/
theorem decText_length (u : Int) (scale : Nat) (hu : u.natAbs < 10 ^ 65) (hs : scale ≤ 30) :
    (decText u scale).length ≤ 200 := by
  rw [decText_eq]
  have h1 : (if u < 0 then ([45] : List UInt8) else []).length ≤ 1 := by split <;> simp
  have hd : ∀ n, n ≤ u.natAbs → (digitsOf n).length ≤ 65 := by
    intro n hn
    exact digitsOf_length_le n 65 (by omega) (by decide)
  have h2 : (decBody u.natAbs scale).length ≤ 65 + 1 + (30 + 65) := by
    simp only [decBody]
    split
    · have := hd u.natAbs (Nat.le_refl _); omega
    · simp only [List.length_append, List.length_singleton, padLeft, List.length_replicate]
      have a1 := hd (u.natAbs / 10 ^ scale) (Nat.div_le_self _ _)
      have a2 := hd (u.natAbs % 10 ^ scale) (Nat.mod_le _ _)
      omega
  simp only [List.length_append]
  omega

end GaeaVerif.Merge
