import GaeaVerif.Lemmas.C13ColDef
import GaeaVerif.Model.BinRowBig
/-
  C13 helper lemmas: the row of one long byte-string cell and a sentinel
  (request kind `big` of the driver).
-/
namespace GaeaVerif.C13
open GaeaVerif GaeaVerif.BinRow GaeaVerif.BinProto GaeaVerif.LenEnc

theorem patFoldFrom_eq (f : UInt64 → UInt8 → UInt64) (k i : Nat) (h : UInt64) :
    patFoldFrom f k i h = ((List.range' i k).map patByte).foldl f h := by
  induction k generalizing i h with
  | zero => rfl
  | succ k ih => rw [patFoldFrom, ih, List.range'_succ, List.map_cons, List.foldl_cons]

/-- The hash the driver computes without building the cell is the hash of the cell. -/
theorem patHash_eq (n : Nat) : patHash n = hashBytes (patCell n) := by
  unfold patHash hashBytes patCell
  rw [patFoldFrom_eq, List.range_eq_range']

theorem patCell_length (n : Nat) : (patCell n).length = n := by simp [patCell]

/-- What `ParseText` makes of a cell of a byte-string column, and what
    `AppendBinaryValue` makes of that. -/
theorem bytes_cell_value (ops : FloatOps) (ty flag : Nat) (cell : Bytes) (hty : isBytesType ty = true) :
    ∃ v, parseTextValue ops ⟨ty, flag⟩ cell = .ok v ∧ v ≠ GoVal.nil ∧ integerFitsColumn ⟨ty, flag⟩ v = true
      ∧ appendBinaryValue ops ty v = .ok (appendLenEncStringBytes cell) := by
  simp only [isBytesType, Bool.or_eq_true, beq_iff_eq] at hty
  rcases hty with ((((((((((h | h) | h) | h) | h) | h) | h) | h) | h) | h) | h) | h <;> subst h <;>
    first
    | (refine ⟨.str cell, ?_, by simp, ?_, ?_⟩
       · simp [parseTextValue, isIntFieldType, isStringFieldType]
       · simp [integerFitsColumn]
       · simp [appendBinaryValue, binaryValueBytes, isLenEncFieldType, isRawFieldType])
    | (refine ⟨.bytes cell, ?_, by simp, ?_, ?_⟩
       · simp [parseTextValue, isIntFieldType, isStringFieldType]
       · simp [integerFitsColumn]
       · simp [appendBinaryValue, binaryValueBytes, isLenEncFieldType, isRawFieldType])

/-- **The row of one byte-string cell of any length and the sentinel INT 7.** -/
theorem big_cell_row' (ops : FloatOps) (ty flag : Nat) (cell : Bytes) (hty : isBytesType ty = true)
    (hlen : cell.length < 2 ^ 62) :
    rowToBinary ops [⟨ty, flag⟩, ⟨TypeLong, 0⟩] (encodeTextRow [some cell, some [55]])
      = .ok (bigRowHead cell.length ++ cell ++ bigRowTail) := by
  obtain ⟨v, hp, hv, hfit, ha⟩ := bytes_cell_value ops ty flag cell hty
  have hrow : (encodeTextRow [some cell, some [55]]).length < 2 ^ 63 := by
    simp [encodeTextRow, appendLenEncStringBytes, GaeaVerif.C12.appendLenEncInt_length, lenEncIntSize]
    split <;> (try split) <;> (try split) <;> omega
  unfold rowToBinary
  rw [parseText_encode ops _ _ rfl hrow]
  have hpi : parseInt [55] 64 = some 7 := by decide
  have h7 : parseTextValue ops ⟨TypeLong, 0⟩ [55] = .ok (.i64 7) := by
    simp [parseTextValue, isIntFieldType, Field.isUnsigned, hpi]
  have ha7 : appendBinaryValue ops TypeLong (.i64 7) = .ok [7, 0, 0, 0] := by
    have := (abv_i64 ops TypeLong 4 7 (by decide)).1
    rw [this]; decide
  have hf7 : integerFitsColumn ⟨TypeLong, 0⟩ (.i64 7) = true := by decide
  simp only [convertCells, hp, h7]
  simp only [buildBinaryRow, List.length_cons, List.length_nil, ne_eq, not_true_eq_false, if_false, buildRowLoop,
    hv, hfit, Bool.not_true, Bool.false_eq_true, ha, ha7, hf7, show (GoVal.i64 7 = GoVal.nil) = False by simp]
  simp [bigRowHead, bigRowTail, appendLenEncStringBytes]

end GaeaVerif.C13
