import GaeaVerif.Lemmas.PreviewC21Margin
import GaeaVerif.Lemmas.LexC17Steps
/-
  Helper lemmas for C21: `withMainStatement` on a WITH clause given as a list
  of lexical pieces (`WTok`), followed by the main statement.
-/
namespace GaeaVerif.PreviewC21
open GaeaVerif GaeaVerif.LexC17

/-- The lexical pieces a WITH clause is made of. -/
inductive WTok where
  | blank (t : Trivia)                  -- white space, `/* */`, `-- `, `#` comment
  | word (w : Bytes)                    -- a keyword, a name, a number
  | quoted (q : UInt8) (body : Bytes)   -- 'text', "text" or `name`
  | lpar
  | rpar
  | sym (b : UInt8)                     -- any other character
  deriving DecidableEq, Repr

def WTok.render : WTok → Bytes
  | .blank t => t.render
  | .word w => w
  | .quoted q body => q :: body ++ [q]
  | .lpar => [0x28]
  | .rpar => [0x29]
  | .sym b => [b]

def renderW (ts : List WTok) : Bytes := (ts.map WTok.render).flatten

/-- Each piece is what it says: a comment is closed where it ends and is no
    `/*!` or `/*M!` comment; a word is made of identifier characters; a quoted
    text holds neither its quote nor a backslash; a symbol is none of the
    above and opens no comment. -/
def WTok.ok : WTok → Bool
  | .blank t => t.ok && !t.isXopen &&
      (match t with
       | .cblock body => !isPrefixB [0x21] (body ++ [0x2A]) && !isPrefixB [0x4D, 0x21] (body ++ [0x2A, 0x2F])
       | .ws bs => bs.all isWsByte        -- no semicolon inside a WITH clause
       | _ => true)
  | .word w => w ≠ [] && w.all isIdentByte
  | .quoted q body => isQuoteByte q && body.all (fun b => b ≠ q && b.toNat ≠ 0x5C)
  | .lpar => true
  | .rpar => true
  | .sym b => !isWsByte b && !isIdentByte b && !isQuoteByte b && b.toNat ≠ 0x28 && b.toNat ≠ 0x29 && b.toNat ≠ 0x23

def isComma : WTok → Bool
  | .sym b => b.toNat = 0x2C
  | _ => false

def isAsTok : WTok → Bool
  | .word w => isAsWord w.length w
  | _ => false

/-- What follows a piece does not merge with it: a word is followed by a
    character that ends it, `-` is not followed by `-`, `/` not by `*`. -/
def boundary (tok : WTok) (next : Option UInt8) : Bool :=
  match tok with
  | .word _ => (match next with | some b => !isIdentByte b | none => false)
  | .sym b =>
    (if b.toNat = 0x2D then (match next with | some n => n.toNat ≠ 0x2D | none => true) else true) &&
    (if b.toNat = 0x2F then (match next with | some n => n.toNat ≠ 0x2A | none => true) else true)
  | _ => true

/-- The pieces form the part of a WITH statement in front of its main
    statement, read from nesting depth `depth` (`closed`: a parenthesis has just
    closed at the outermost level): parentheses are balanced, after a
    parenthesis that closes at the outermost level comes `,` or AS, and the
    last piece that is not a blank is such a parenthesis.  The main statement
    starts with a letter. -/
def wfW : Nat → Bool → List WTok → Bool
  | depth, closed, [] => closed && depth == 0
  | depth, closed, .blank _ :: r => wfW depth closed r
  | depth, closed, tok :: r =>
    (!closed || isComma tok || isAsTok tok) &&
    boundary tok ((renderW r).head?) &&
    (match tok with
     | .lpar => wfW (depth + 1) false r
     | .rpar => decide (0 < depth) && wfW (depth - 1) (decide (depth - 1 = 0)) r
     | _ => wfW depth false r)

/-- The main statement starts with an ASCII letter and its first word is not AS. -/
structure MainStart (main : Bytes) : Prop where
  letter : ∃ b t, main = b :: t ∧ isAsciiLetterB b = true
  notAs : isAsWord (spanLen isIdentByte main) main = false

/-! ### single steps of the loop -/

theorem isWsByte_eq (b : UInt8) : isWsByte b = isAsciiWs b := rfl

theorem withMainLoop_ws (depth : Nat) (closed : Bool) : ∀ (bs X : Bytes) (fuel : Nat),
    (∀ b ∈ bs, isWsByte b = true) → bs.length ≤ fuel →
    withMainLoop fuel depth closed (bs ++ X) = withMainLoop (fuel - bs.length) depth closed X := by
  intro bs
  induction bs with
  | nil => intro X fuel _ _; simp
  | cons b t ih =>
    intro X fuel h hf
    obtain ⟨f, rfl⟩ : ∃ f, fuel = f + 1 := ⟨fuel - 1, by simp only [List.length_cons] at hf; omega⟩
    have hb := h b (by simp)
    simp only [List.cons_append, withMainLoop, hb, if_true]
    rw [ih X f (fun b' hb' => h b' (by simp [hb'])) (by simp only [List.length_cons] at hf; omega)]
    simp only [List.length_cons]
    congr 1
    omega

theorem indexSub_byte (q : UInt8) : ∀ (pre y : Bytes), (∀ b ∈ pre, b ≠ q) →
    indexSub [q] (pre ++ q :: y) = some pre.length := by
  intro pre
  induction pre with
  | nil => intro y _; simp [indexSub, isPrefixB]
  | cons b t ih =>
    intro y h
    have hb : b ≠ q := h b (by simp)
    have hp : isPrefixB [q] (b :: (t ++ q :: y)) = false := by
      simp only [isPrefixB, List.length_cons, List.length_nil, List.take_succ_cons, List.take_zero,
        beq_eq_false_iff_ne, ne_eq, List.cons.injEq, and_true]
      exact hb
    simp only [List.cons_append, indexSub, hp, Bool.false_eq_true, if_false, List.length_cons]
    rw [ih y (fun b' hb' => h b' (by simp [hb']))]
    simp

theorem spanLen_word (w X : Bytes) (hw : ∀ b ∈ w, isIdentByte b = true)
    (hX : match X.head? with | some b => isIdentByte b = false | none => True) :
    spanLen isIdentByte (w ++ X) = w.length := by
  apply spanLen_run isIdentByte w X hw
  cases X with
  | nil => left; rfl
  | cons n t => right; exact ⟨n, t, rfl, by simpa using hX⟩

theorem isAsWord_append (w X : Bytes) (h2 : w.length = 2 ∨ isAsWord w.length w = false) (n : Nat) (hn : n = w.length) :
    isAsWord n (w ++ X) = isAsWord w.length w := by
  subst hn
  match w, h2 with
  | [], _ => simp [isAsWord]
  | [a], _ => simp [isAsWord]
  | [a, b], _ => simp [isAsWord]
  | a :: b :: c :: t, h =>
    simp only [isAsWord, List.length_cons, List.cons_append]

/-- One round of the loop at a character that is neither white space nor the start of a comment. -/
theorem withMainLoop_step (fuel depth : Nat) (closed : Bool) (c : UInt8) (t : Bytes)
    (hws : isWsByte c = false) (hhash : c.toNat ≠ 0x23) (hdash : ¬ (c.toNat = 0x2D ∧ dashComment t = true))
    (hslash : ¬ (c.toNat = 0x2F ∧ startsStar t = true)) :
    withMainLoop (fuel + 1) depth closed (c :: t) =
      (if closed = true ∧ c.toNat ≠ 0x2C ∧ isAsWord (spanLen isIdentByte (c :: t)) (c :: t) = false then some (c :: t)
       else if spanLen isIdentByte (c :: t) > 0 then withMainLoop fuel depth false ((c :: t).drop (spanLen isIdentByte (c :: t)))
       else if isQuoteByte c then
         match indexSub [c] t with
         | none => none
         | some e =>
           if (t.take e).any (·.toNat = 0x5C) then none else withMainLoop fuel depth false (t.drop (e + 1))
       else if c.toNat = 0x28 then withMainLoop fuel (depth + 1) false t
       else if c.toNat = 0x29 then
         if depth = 0 then none else withMainLoop fuel (depth - 1) (decide (depth - 1 = 0)) t
       else withMainLoop fuel depth false t) := by
  have h1 : ¬ (c.toNat = 0x23 ∨ (c.toNat = 0x2D ∧ dashComment t = true)) := by
    intro h; rcases h with h | h
    · exact hhash h
    · exact hdash h
  simp only [withMainLoop, hws, Bool.false_eq_true, if_false, h1, hslash]
  rfl

theorem identByte_facts (c : UInt8) (h : isIdentByte c = true) :
    isWsByte c = false ∧ c.toNat ≠ 0x23 ∧ c.toNat ≠ 0x2D ∧ c.toNat ≠ 0x2F ∧ c.toNat ≠ 0x2C ∧ isQuoteByte c = false := by
  simp only [isIdentByte, isLetter, isDigit, Bool.or_eq_true, Bool.and_eq_true, decide_eq_true_eq] at h
  simp only [isWsByte, isQuoteByte, Bool.or_eq_false_iff, Bool.and_eq_false_iff, decide_eq_false_iff_not]
  omega

theorem headOf (r main : Bytes) (n : UInt8) (h : r.head? = some n) : ∃ t, r ++ main = n :: t := by
  cases r with
  | nil => simp at h
  | cons a t => simp only [List.head?_cons, Option.some.injEq] at h; exact ⟨t ++ main, by rw [h]; rfl⟩

theorem letter_facts (b : UInt8) (h : isAsciiLetterB b = true) :
    isIdentByte b = true ∧ isWsByte b = false ∧ b.toNat ≠ 0x23 ∧ b.toNat ≠ 0x2D ∧ b.toNat ≠ 0x2F ∧ b.toNat ≠ 0x2C ∧
      b.toNat ≠ 0x2A := by
  have hb := letterB b h
  simp only [isIdentByte, isLetter, isDigit, isWsByte, Bool.or_eq_true, Bool.and_eq_true, decide_eq_true_eq,
    Bool.or_eq_false_iff, Bool.and_eq_false_iff, decide_eq_false_iff_not]
  omega

/-- What the text after a piece starts with, given what the remaining pieces start with. -/
theorem head_rest (r : List WTok) (main : Bytes) (hm : MainStart main) :
    ∃ n t, renderW r ++ main = n :: t ∧
      ((renderW r).head? = some n ∨ ((renderW r).head? = none ∧ isAsciiLetterB n = true)) := by
  cases h : renderW r with
  | nil =>
    obtain ⟨b, t, e, hb⟩ := hm.letter
    exact ⟨b, t, by rw [e]; rfl, Or.inr ⟨rfl, hb⟩⟩
  | cons a t => exact ⟨a, t ++ main, rfl, Or.inl rfl⟩

theorem withMainLoop_cblock (fuel depth : Nat) (closed : Bool) (body R : Bytes)
    (hfree : Trivia.ok.hasSS (body ++ [0x2A]) = false)
    (hp1 : isPrefixB [0x21] (body ++ [0x2A]) = false) (hp2 : isPrefixB [0x4D, 0x21] (body ++ [0x2A, 0x2F]) = false) :
    withMainLoop (fuel + 1) depth closed (0x2F :: 0x2A :: (body ++ 0x2A :: 0x2F :: R)) = withMainLoop fuel depth closed R := by
  have hq1 : isPrefixB [0x21] (body ++ 0x2A :: 0x2F :: R) = false := by
    simp only [isPrefixB, List.length_cons, List.length_nil] at hp1 ⊢
    rw [show body ++ 0x2A :: 0x2F :: R = (body ++ [0x2A]) ++ 0x2F :: R by simp, List.take_append_of_le_length (by simp)]
    exact hp1
  have hq2 : isPrefixB [0x4D, 0x21] (body ++ 0x2A :: 0x2F :: R) = false := by
    simp only [isPrefixB, List.length_cons, List.length_nil] at hp2 ⊢
    rw [show body ++ 0x2A :: 0x2F :: R = (body ++ [0x2A, 0x2F]) ++ R by simp, List.take_append_of_le_length (by simp)]
    exact hp2
  have hidx := indexSub_starslash body R hfree
  have hdrop : List.drop (body.length + 2) (body ++ 0x2A :: 0x2F :: R) = R := by
    rw [show body ++ 0x2A :: 0x2F :: R = (body ++ [0x2A, 0x2F]) ++ R by simp, List.drop_left' (by simp)]
  have h0 : isWsByte 0x2F = false := by decide
  have h2 : (0x2F : UInt8).toNat = 0x2F ∧ startsStar (0x2A :: (body ++ 0x2A :: 0x2F :: R)) = true := ⟨by decide, by simp [startsStar]⟩
  simp only [withMainLoop, h0, Bool.false_eq_true, if_false, h2, and_self, if_true, List.drop_succ_cons, List.drop_zero, hq1, hq2,
    Bool.or_self, hidx, hdrop]
  rw [if_neg (by intro h; rcases h with h | ⟨h, _⟩ <;> exact absurd h (by decide))]

theorem withMainLoop_line (fuel depth : Nat) (closed : Bool) (c : UInt8) (pre R : Bytes)
    (hc : c.toNat = 0x23 ∨ (c.toNat = 0x2D ∧ dashComment (pre ++ 0x0A :: R) = true))
    (hpre : ∀ b ∈ pre, b.toNat ≠ 0x0A) (hcn : c.toNat ≠ 0x0A) :
    withMainLoop (fuel + 1) depth closed (c :: (pre ++ 0x0A :: R)) = withMainLoop fuel depth closed R := by
  have h0 : isWsByte c = false := by
    simp only [isWsByte, Bool.or_eq_false_iff, Bool.and_eq_false_iff, decide_eq_false_iff_not]
    rcases hc with h | h <;> omega
  have hidx := indexSub_nl (c :: pre) R (by
    intro b hb
    simp only [List.mem_cons] at hb
    rcases hb with rfl | hb
    · exact hcn
    · exact hpre b hb)
  simp only [List.cons_append, List.length_cons] at hidx
  have hdrop : List.drop (pre.length + 1 + 1) (c :: (pre ++ 0x0A :: R)) = R := by
    simp only [List.drop_succ_cons]
    rw [show pre ++ 0x0A :: R = (pre ++ [0x0A]) ++ R by simp, List.drop_left' (by simp)]
  simp only [withMainLoop, h0, Bool.false_eq_true, if_false, hc, if_true, hidx, hdrop]

/-- **The loop finds the main statement** behind well-formed pieces. -/
theorem withMainLoop_toks : ∀ (toks : List WTok) (depth : Nat) (closed : Bool) (main : Bytes) (fuel : Nat),
    (∀ t ∈ toks, t.ok = true) → wfW depth closed toks = true → MainStart main →
    (renderW toks).length + 1 ≤ fuel →
    withMainLoop fuel depth closed (renderW toks ++ main) = some main := by
  intro toks
  induction toks with
  | nil =>
    intro depth closed main fuel _ hwf hm hf
    obtain ⟨f, rfl⟩ : ∃ f, fuel = f + 1 := ⟨fuel - 1, by omega⟩
    simp only [wfW, Bool.and_eq_true, beq_iff_eq] at hwf
    obtain ⟨b, t, e, hb⟩ := hm.letter
    have hl := letter_facts b hb
    have hna := hm.notAs
    simp only [renderW, List.map_nil, List.flatten_nil, List.nil_append]
    rw [e] at hna ⊢
    rw [withMainLoop_step f depth closed b t hl.2.1 hl.2.2.1 (fun h => hl.2.2.2.1 h.1) (fun h => hl.2.2.2.2.1 h.1)]
    rw [if_pos ⟨hwf.1, hl.2.2.2.2.2.1, hna⟩]
  | cons tok r ih =>
    intro depth closed main fuel hok hwf hm hf
    have hokr : ∀ t ∈ r, t.ok = true := fun t h => hok t (by simp [h])
    have hoktok := hok tok (by simp)
    have hrender : renderW (tok :: r) = tok.render ++ renderW r := by simp [renderW]
    rw [hrender] at hf ⊢
    rw [List.append_assoc]
    simp only [List.length_append] at hf
    obtain ⟨n, tl, hR, hhead⟩ := head_rest r main hm
    cases tok with
    | blank t =>
      simp only [wfW] at hwf
      simp only [WTok.ok, Bool.and_eq_true, Bool.not_eq_true'] at hoktok
      obtain ⟨⟨htok, hnx⟩, hextra⟩ := hoktok
      cases t with
      | ws bs =>
        simp only [List.all_eq_true] at hextra
        simp only [WTok.render, Trivia.render] at hf ⊢
        rw [withMainLoop_ws depth closed bs _ fuel (fun b hb => hextra b hb) (by omega)]
        exact ih depth closed main _ hokr hwf hm (by omega)
      | cblock body =>
        simp only [Trivia.ok, Bool.and_eq_true] at htok
        simp only [Bool.and_eq_true, Bool.not_eq_true'] at hextra
        obtain ⟨f, rfl⟩ : ∃ f, fuel = f + 1 := ⟨fuel - 1, by omega⟩
        have e : (WTok.blank (.cblock body)).render ++ (renderW r ++ main) = 0x2F :: 0x2A :: (body ++ 0x2A :: 0x2F :: (renderW r ++ main)) := by
          simp [WTok.render, Trivia.render]
        rw [e, withMainLoop_cblock f depth closed body _ (by simpa [Trivia.ok.blockFree] using htok.1) hextra.1 hextra.2]
        simp only [WTok.render, Trivia.render, List.length_cons, List.length_append] at hf
        exact ih depth closed main f hokr hwf hm (by omega)
      | cdash body =>
        simp only [Trivia.ok, Bool.and_eq_true, List.all_eq_true] at htok
        obtain ⟨f, rfl⟩ : ∃ f, fuel = f + 1 := ⟨fuel - 1, by omega⟩
        have e : (WTok.blank (.cdash body)).render ++ (renderW r ++ main) = 0x2D :: ((0x2D :: body) ++ 0x0A :: (renderW r ++ main)) := by
          simp [WTok.render, Trivia.render]
        have hdc : dashComment ((0x2D :: body) ++ 0x0A :: (renderW r ++ main)) = true := by
          cases body with
          | nil => simp [dashComment]
          | cons x xs =>
            have := htok.1
            simp only [isAsciiWs, Bool.and_eq_true, Bool.or_eq_true, decide_eq_true_eq] at this
            simp only [dashComment, List.cons_append, Bool.and_eq_true, decide_eq_true_eq, Bool.or_eq_true]
            exact ⟨by decide, by left; omega⟩
        rw [e, withMainLoop_line f depth closed 0x2D (0x2D :: body) _ (Or.inr ⟨by decide, hdc⟩) (by
          intro b hb
          simp only [List.mem_cons] at hb
          rcases hb with rfl | hb
          · decide
          · have := htok.2 b hb; simpa using this) (by decide)]
        simp only [WTok.render, Trivia.render, List.length_cons, List.length_append] at hf
        exact ih depth closed main f hokr hwf hm (by omega)
      | chash body =>
        simp only [Trivia.ok, List.all_eq_true] at htok
        obtain ⟨f, rfl⟩ : ∃ f, fuel = f + 1 := ⟨fuel - 1, by omega⟩
        have e : (WTok.blank (.chash body)).render ++ (renderW r ++ main) = 0x23 :: (body ++ 0x0A :: (renderW r ++ main)) := by
          simp [WTok.render, Trivia.render]
        rw [e, withMainLoop_line f depth closed 0x23 body _ (Or.inl (by decide)) (by
          intro b hb; have := htok b hb; simpa using this) (by decide)]
        simp only [WTok.render, Trivia.render, List.length_cons, List.length_append] at hf
        exact ih depth closed main f hokr hwf hm (by omega)
      | xopen v bl => simp [Trivia.isXopen] at hnx
    | word w =>
      simp only [wfW, Bool.and_eq_true, Bool.or_eq_true, Bool.not_eq_true', isComma, Bool.false_eq_true, or_false] at hwf
      obtain ⟨⟨hcl, hbd⟩, hwf'⟩ := hwf
      simp only [WTok.ok, Bool.and_eq_true, decide_eq_true_eq, List.all_eq_true] at hoktok
      obtain ⟨hne, hall⟩ := hoktok
      obtain ⟨f, rfl⟩ : ∃ f, fuel = f + 1 := ⟨fuel - 1, by omega⟩
      simp only [WTok.render] at hf ⊢
      obtain ⟨c, w', rfl⟩ : ∃ c w', w = c :: w' := by cases w with | nil => exact absurd rfl hne | cons c w' => exact ⟨c, w', rfl⟩
      have hc := identByte_facts c (hall c (by simp))
      -- the word ends where the piece ends
      have hnext : isIdentByte n = false := by
        simp only [boundary] at hbd
        rcases hhead with h | ⟨h, _⟩
        · rw [h] at hbd; simpa using hbd
        · rw [h] at hbd; simp at hbd
      have hspan : spanLen isIdentByte ((c :: w') ++ (renderW r ++ main)) = (c :: w').length :=
        spanLen_run isIdentByte (c :: w') _ hall (Or.inr ⟨n, tl, hR, hnext⟩)
      have hstep := withMainLoop_step f depth closed c (w' ++ (renderW r ++ main)) hc.1 hc.2.1 (fun h => hc.2.2.1 h.1)
        (fun h => hc.2.2.2.1 h.1)
      simp only [List.cons_append] at hspan ⊢
      rw [hstep, hspan]
      have hcond : ¬ (closed = true ∧ c.toNat ≠ 0x2C ∧ isAsWord (c :: w').length (c :: (w' ++ (renderW r ++ main))) = false) := by
        intro ⟨h1, _, h3⟩
        rcases hcl with hcl | hcl
        · rw [h1] at hcl; exact absurd hcl (by simp)
        · simp only [isAsTok] at hcl
          have hlen : (c :: w').length = 2 := by
            simp only [isAsWord, Bool.and_eq_true, decide_eq_true_eq] at hcl; exact hcl.1
          have := isAsWord_append (c :: w') (renderW r ++ main) (Or.inl hlen) _ rfl
          simp only [List.cons_append] at this
          rw [this, hcl] at h3
          exact absurd h3 (by simp)
      rw [if_neg hcond, if_pos (by simp)]
      rw [show List.drop (c :: w').length (c :: (w' ++ (renderW r ++ main))) = renderW r ++ main by
        rw [show c :: (w' ++ (renderW r ++ main)) = (c :: w') ++ (renderW r ++ main) by rfl, List.drop_left]]
      exact ih depth false main f hokr hwf' hm (by simp only [List.length_cons] at hf; omega)
    | quoted q body =>
      simp only [wfW, Bool.and_eq_true, Bool.or_eq_true, Bool.not_eq_true', isComma, isAsTok, Bool.false_eq_true, or_false] at hwf
      obtain ⟨⟨hcl, _⟩, hwf'⟩ := hwf
      simp only [WTok.ok, Bool.and_eq_true, List.all_eq_true, decide_eq_true_eq] at hoktok
      obtain ⟨hq, hbody⟩ := hoktok
      obtain ⟨f, rfl⟩ : ∃ f, fuel = f + 1 := ⟨fuel - 1, by omega⟩
      simp only [WTok.render, List.cons_append, List.append_assoc, List.nil_append, List.length_cons, List.length_append, List.length_nil] at hf ⊢
      have hqf : isWsByte q = false ∧ q.toNat ≠ 0x23 ∧ q.toNat ≠ 0x2D ∧ q.toNat ≠ 0x2F ∧ isIdentByte q = false ∧
          q.toNat ≠ 0x28 ∧ q.toNat ≠ 0x29 := by
        simp only [isQuoteByte, Bool.or_eq_true, decide_eq_true_eq] at hq
        simp only [isWsByte, isIdentByte, isLetter, isDigit, Bool.or_eq_false_iff, Bool.and_eq_false_iff, decide_eq_false_iff_not]
        omega
      have hspan : spanLen isIdentByte (q :: (body ++ q :: (renderW r ++ main))) = 0 := by
        simp [spanLen, List.takeWhile, hqf.2.2.2.2.1]
      have hidx := indexSub_byte q body (renderW r ++ main) (fun b hb => (hbody b hb).1)
      rw [withMainLoop_step f depth closed q _ hqf.1 hqf.2.1 (fun h => hqf.2.2.1 h.1) (fun h => hqf.2.2.2.1 h.1), hspan]
      rw [if_neg (by intro ⟨h1, _⟩; rw [h1] at hcl; exact absurd hcl (by simp)), if_neg (by simp), if_pos hq]
      simp only [hidx]
      have hnb : (List.take body.length (body ++ q :: (renderW r ++ main))).any (fun b => decide (b.toNat = 0x5C)) = false := by
        rw [List.take_left]
        simp only [List.any_eq_false, decide_eq_true_eq]
        intro b hb; exact (hbody b hb).2
      rw [hnb]
      simp only [Bool.false_eq_true, if_false]
      rw [show List.drop (body.length + 1) (body ++ q :: (renderW r ++ main)) = renderW r ++ main by
        rw [show body ++ q :: (renderW r ++ main) = (body ++ [q]) ++ (renderW r ++ main) by simp, List.drop_left' (by simp)]]
      exact ih depth false main f hokr hwf' hm (by omega)
    | lpar =>
      simp only [wfW, Bool.and_eq_true, Bool.or_eq_true, Bool.not_eq_true', isComma, isAsTok, Bool.false_eq_true, or_false] at hwf
      obtain ⟨⟨hcl, _⟩, hwf'⟩ := hwf
      obtain ⟨f, rfl⟩ : ∃ f, fuel = f + 1 := ⟨fuel - 1, by omega⟩
      simp only [WTok.render, List.cons_append, List.nil_append, List.length_cons, List.length_nil] at hf ⊢
      rw [withMainLoop_step f depth closed 0x28 _ (by decide) (by decide) (fun h => absurd h.1 (by decide)) (fun h => absurd h.1 (by decide))]
      have hspan : spanLen isIdentByte (0x28 :: (renderW r ++ main)) = 0 := by
        simp [spanLen, List.takeWhile, show isIdentByte 0x28 = false by decide]
      rw [hspan, if_neg (by intro ⟨h1, _⟩; rw [h1] at hcl; exact absurd hcl (by simp)), if_neg (by simp),
        if_neg (by decide), if_pos (by decide)]
      exact ih (depth + 1) false main f hokr hwf' hm (by omega)
    | rpar =>
      simp only [wfW, Bool.and_eq_true, Bool.or_eq_true, Bool.not_eq_true', isComma, isAsTok, Bool.false_eq_true, or_false,
        decide_eq_true_eq] at hwf
      obtain ⟨⟨hcl, _⟩, hd, hwf'⟩ := hwf
      obtain ⟨f, rfl⟩ : ∃ f, fuel = f + 1 := ⟨fuel - 1, by omega⟩
      simp only [WTok.render, List.cons_append, List.nil_append, List.length_cons, List.length_nil] at hf ⊢
      rw [withMainLoop_step f depth closed 0x29 _ (by decide) (by decide) (fun h => absurd h.1 (by decide)) (fun h => absurd h.1 (by decide))]
      have hspan : spanLen isIdentByte (0x29 :: (renderW r ++ main)) = 0 := by
        simp [spanLen, List.takeWhile, show isIdentByte 0x29 = false by decide]
      rw [hspan, if_neg (by intro ⟨h1, _⟩; rw [h1] at hcl; exact absurd hcl (by simp)), if_neg (by simp),
        if_neg (by decide), if_neg (by decide), if_pos (by decide), if_neg (by omega)]
      exact ih (depth - 1) _ main f hokr hwf' hm (by omega)
    | sym b =>
      simp only [wfW, Bool.and_eq_true, Bool.or_eq_true, Bool.not_eq_true', isComma, isAsTok, Bool.false_eq_true, or_false,
        decide_eq_true_eq] at hwf
      obtain ⟨⟨hcl, hbd⟩, hwf'⟩ := hwf
      simp only [WTok.ok, Bool.and_eq_true, Bool.not_eq_true', decide_eq_true_eq] at hoktok
      obtain ⟨⟨⟨⟨⟨hws, hid⟩, hqb⟩, hlp⟩, hrp⟩, hhash⟩ := hoktok
      obtain ⟨f, rfl⟩ : ∃ f, fuel = f + 1 := ⟨fuel - 1, by omega⟩
      simp only [WTok.render, List.cons_append, List.nil_append, List.length_cons, List.length_nil] at hf ⊢
      simp only [boundary, Bool.and_eq_true] at hbd
      have hdash : ¬ (b.toNat = 0x2D ∧ dashComment (renderW r ++ main) = true) := by
        intro ⟨hb, hd⟩
        have h1 := hbd.1
        rw [if_pos hb] at h1
        rw [hR] at hd
        simp only [dashComment, Bool.and_eq_true, decide_eq_true_eq] at hd
        rcases hhead with h | ⟨_, hl⟩
        · rw [h] at h1; simp only [decide_eq_true_eq] at h1; exact h1 hd.1
        · exact (letter_facts n hl).2.2.2.1 hd.1
      have hslash : ¬ (b.toNat = 0x2F ∧ startsStar (renderW r ++ main) = true) := by
        intro ⟨hb, hd⟩
        have h1 := hbd.2
        rw [if_pos hb] at h1
        rw [hR] at hd
        simp only [startsStar, decide_eq_true_eq] at hd
        rcases hhead with h | ⟨_, hl⟩
        · rw [h] at h1; simp only [decide_eq_true_eq] at h1; exact h1 hd
        · exact (letter_facts n hl).2.2.2.2.2.2 hd
      rw [withMainLoop_step f depth closed b _ hws hhash hdash hslash]
      have hspan : spanLen isIdentByte (b :: (renderW r ++ main)) = 0 := by
        simp [spanLen, List.takeWhile, hid]
      rw [hspan, if_neg (by
        intro ⟨h1, h2, _⟩
        rcases hcl with hcl | hcl
        · rw [h1] at hcl; exact absurd hcl (by simp)
        · exact h2 hcl), if_neg (by simp), if_neg (by simp [hqb]), if_neg hlp, if_neg hrp]
      exact ih depth false main f hokr hwf' hm (by omega)

end GaeaVerif.PreviewC21
