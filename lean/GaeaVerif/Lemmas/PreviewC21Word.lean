import GaeaVerif.Lemmas.PreviewC21Strip
/-
  Helper lemmas for C21: the first word of a text that starts with a keyword,
  its lower case, and the look-ups in the keyword tables.
-/
namespace GaeaVerif.PreviewC21
open GaeaVerif GaeaVerif.LexC17

theorem letterRanges_head : UnicodeC21.letterRanges = (65, 90, 1) :: (97, 122, 1) :: UnicodeC21.letterRanges.drop 2 := by
  rfl

theorem isLetterU_ascii (r : Nat) (h : (65 ≤ r ∧ r ≤ 90) ∨ (97 ≤ r ∧ r ≤ 122)) : isLetterU r = true := by
  simp only [isLetterU, inRanges]
  rw [letterRanges_head]
  rcases h with h | h
  · simp [h.1, h.2, Nat.mod_one]
  · simp [h.1, h.2, Nat.mod_one]

theorem letterB (b : UInt8) (h : isAsciiLetterB b = true) :
    b.toNat < 0x80 ∧ ((65 ≤ b.toNat ∧ b.toNat ≤ 90) ∨ (97 ≤ b.toNat ∧ b.toNat ≤ 122)) := by
  simp only [isAsciiLetterB, isLetter, Bool.or_eq_true, Bool.and_eq_true, decide_eq_true_eq] at h
  omega

theorem letter_not_wordEnd (b : UInt8) (h : isAsciiLetterB b = true) : isWordEnd b.toNat = false := by
  have := letterB b h
  simp only [isWordEnd, isSpace, isIdentChar, isLetter, isDigit, isIdentExtend, Bool.or_eq_false_iff, Bool.and_eq_false_iff,
    Bool.not_eq_false', Bool.or_eq_true, Bool.and_eq_true, decide_eq_false_iff_not, decide_eq_true_eq]
  omega

/-- What may follow the keyword: nothing, or an ASCII byte that ends a word. -/
def KwStop (rest : Bytes) : Prop :=
  rest = [] ∨ ∃ n t, rest = n :: t ∧ n.toNat < 0x80 ∧ isWordEnd n.toNat = true

theorem indexFunc_fuel (f : Nat → Bool) : ∀ (n m : Nat) (s : Bytes), s.length ≤ n → s.length ≤ m →
    indexFunc f n s = indexFunc f m s := by
  intro n
  induction n with
  | zero =>
    intro m s h1 _
    have : s = [] := List.length_eq_zero_iff.mp (by omega)
    subst this
    cases m <;> simp [indexFunc]
  | succ n ih =>
    intro m s h1 h2
    cases s with
    | nil => cases m <;> simp [indexFunc]
    | cons b t =>
      cases m with
      | zero => simp at h2
      | succ m =>
        simp only [indexFunc]
        split
        · rfl
        · have := decodeRune_width_pos b t
          congr 1
          apply ih <;> simp only [List.length_drop, List.length_cons] at * <;> omega

theorem indexFunc_succ_cons (f : Nat → Bool) (n : Nat) (b : UInt8) (t : Bytes) :
    indexFunc f (n + 1) (b :: t) =
      if f (decodeRune (b :: t)).1 = true then some 0
      else (indexFunc f n ((b :: t).drop (decodeRune (b :: t)).2)).map ((decodeRune (b :: t)).2 + ·) := rfl

theorem indexFunc_kw (kw rest : Bytes) (hkw : ∀ b ∈ kw, isAsciiLetterB b = true) (hr : KwStop rest) :
    indexFunc isWordEnd ((kw ++ rest).length + 1) (kw ++ rest) = if rest = [] then none else some kw.length := by
  induction kw with
  | nil =>
    rcases hr with rfl | ⟨n, t, rfl, h1, h2⟩
    · simp [indexFunc]
    · simp [indexFunc, decodeRune_ascii n t h1, h2]
  | cons b t ih =>
    have hb := hkw b (by simp)
    have h80 := (letterB b hb).1
    rw [List.cons_append, indexFunc_succ_cons, decodeRune_ascii b _ h80, letter_not_wordEnd b hb]
    simp only [Bool.false_eq_true, if_false, List.drop_succ_cons, List.drop_zero, List.length_cons]
    rw [indexFunc_fuel isWordEnd _ ((t ++ rest).length + 1) _ (by simp) (by simp),
      ih (fun b' hb' => hkw b' (by simp [hb']))]
    split <;> simp <;> omega

theorem firstWord_kw (kw rest : Bytes) (hne : kw ≠ []) (hkw : ∀ b ∈ kw, isAsciiLetterB b = true) (hr : KwStop rest) :
    firstWord (kw ++ rest) = kw := by
  cases kw with
  | nil => exact absurd rfl hne
  | cons b t =>
    have hb := letterB b (hkw b (by simp))
    have hl : trimLeftFunc (fun r => !isLetterU r) ((b :: t) ++ rest).length ((b :: t) ++ rest) = (b :: t) ++ rest := by
      rw [List.cons_append]
      exact trimLeft_stop _ _ b _ hb.1 (by simp [isLetterU_ascii b.toNat hb.2])
    simp only [firstWord, hl]
    rw [indexFunc_kw (b :: t) rest hkw hr]
    by_cases hrest : rest = []
    · simp [hrest]
    · simp [hrest]

theorem runes_ascii (l : Bytes) (h : ∀ b ∈ l, b.toNat < 0x80) : ∀ n, l.length ≤ n → runes n l = l.map UInt8.toNat := by
  induction l with
  | nil => intro n _; cases n <;> simp [runes]
  | cons b t ih =>
    intro n hn
    cases n with
    | zero => simp at hn
    | succ n =>
      simp only [runes, decodeRune_ascii b t (h b (by simp)), List.drop_succ_cons, List.drop_zero, List.map_cons]
      rw [ih (fun b' hb' => h b' (by simp [hb'])) n (by simpa using hn)]

theorem toLower_kw (kw : Bytes) (hkw : ∀ b ∈ kw, isAsciiLetterB b = true) : toLower kw = kw.map asciiLower := by
  simp only [toLower]
  rw [runes_ascii kw (fun b hb => (letterB b (hkw b hb)).1) _ (Nat.le_refl _), List.map_map]
  apply List.map_congr_left
  intro b hb
  have := letterB b (hkw b hb)
  simp only [Function.comp, lowerRune, asciiLower]
  split <;> rename_i h1
  · rfl
  · rw [if_neg (by omega), if_neg (by omega)]

/-- The first two runes of the lower case of a text that starts with two ASCII bytes. -/
theorem toLower_two (a b : UInt8) (t : Bytes) (ha : a.toNat < 0x80) (hb : b.toNat < 0x80) :
    ∃ r, toLower (a :: b :: t) = lowerRune a.toNat :: lowerRune b.toNat :: r := by
  simp only [toLower, List.length_cons, runes, decodeRune_ascii a _ ha, decodeRune_ascii b _ hb, List.drop_succ_cons,
    List.drop_zero, List.map_cons]
  exact ⟨_, rfl⟩

theorem toLower_short (s : Bytes) (h : s.length ≤ 1) : (toLower s).length ≤ 1 := by
  cases s with
  | nil => simp [toLower, runes]
  | cons a t =>
    have : t = [] := by cases t <;> simp_all
    subst this
    simp [toLower, runes]

/-! ### look-ups -/

theorem lookup_none (tbl : List (List Nat × Nat)) (w : List Nat) (h : ∀ e ∈ tbl, (e.1 == w) = false) :
    lookup tbl w = none := by
  simp only [lookup, Option.map_eq_none_iff, List.find?_eq_none]
  intro e he
  simp [h e he]

/-- No key of `tbl` starts with the two code points `x`, `y`. -/
def missTwo (tbl : List (List Nat × Nat)) (x y : Nat) : Bool :=
  tbl.all fun e => match e.1 with
    | a :: b :: _ => !(a == x && b == y)
    | _ => false

theorem lookup_missTwo (tbl : List (List Nat × Nat)) (x y : Nat) (t : List Nat) (h : missTwo tbl x y = true) :
    lookup tbl (x :: y :: t) = none := by
  apply lookup_none
  intro e he
  simp only [missTwo, List.all_eq_true] at h
  have := h e he
  cases hk : e.1 with
  | nil => simp
  | cons a r =>
    cases r with
    | nil => simp
    | cons b r' =>
      rw [hk] at this
      simp only [Bool.not_eq_true', Bool.and_eq_false_iff, beq_eq_false_iff_ne, ne_eq] at this
      simp only [beq_eq_false_iff_ne, ne_eq, List.cons.injEq, not_and]
      intro e1 e2
      rcases this with h | h
      · exact absurd e1 h
      · exact absurd e2 h

theorem lookup_short (tbl : List (List Nat × Nat)) (w : List Nat) (hw : w.length ≤ 1)
    (h : tbl.all (fun e => decide (2 ≤ e.1.length)) = true) : lookup tbl w = none := by
  apply lookup_none
  intro e he
  simp only [List.all_eq_true, decide_eq_true_eq] at h
  have := h e he
  simp only [beq_eq_false_iff_ne, ne_eq]
  intro e1; rw [e1] at this; omega

end GaeaVerif.PreviewC21
