import GaeaVerif.Model.ShardPlace
/-
  The civil-from-days function of Model/ShardPlace.lean (`civilOfDays`, the
  executable instance of the time-zone parameter `civilOf` of C09) runs forward:
  the day number `year·10000 + month·100 + day` is strictly increasing in the
  day count, and month and day stay within 1…12 and 1…31.  Used by C01 to
  discharge the monotone-placement hypotheses of the calendar rules for unix
  timestamp keys in a zone with a fixed offset.

  The proof decomposes a day of the 400-year era into century, 4-year cycle,
  year and day of year, and checks the closed formulas of the algorithm against
  that decomposition with `omega`.
-/
namespace GaeaVerif.CivilDays
open GaeaVerif.ShardPlace

/-- `year·10000 + month·100 + day` -/
def civilNum (c : Civil) : Int := c.year * 10000 + c.month * 100 + c.day

def fOf (doe : Int) : Int := doe - doe / 1460 + doe / 36524 - doe / 146096
def yoeOf (doe : Int) : Int := fOf doe / 365
def doyOf (doe : Int) : Int := doe - (365 * yoeOf doe + yoeOf doe / 4 - yoeOf doe / 100)

theorem f_mono (a b : Int) (h : a ≤ b) : fOf a ≤ fOf b := by
  unfold fOf; omega

/-- decomposition of a day of era -/
structure Dec (doe c q t u : Int) : Prop where
  eq : doe = 36524 * c + 1461 * q + 365 * t + u
  hc : 0 ≤ c ∧ c ≤ 3
  hq : 0 ≤ q ∧ q ≤ 24
  ht : 0 ≤ t ∧ t ≤ 3
  hu : 0 ≤ u ∧ u ≤ 365
  leap : u = 365 → t = 3 ∧ (q < 24 ∨ c = 3)

theorem dec_exists (doe : Int) (h : 0 ≤ doe ∧ doe < 146097) : ∃ c q t u, Dec doe c q t u := by
  let c := if doe / 36524 ≤ 3 then doe / 36524 else 3
  let r := doe - 36524 * c
  let q := if r / 1461 ≤ 24 then r / 1461 else 24
  let s := r - 1461 * q
  let t := if s / 365 ≤ 3 then s / 365 else 3
  let u := s - 365 * t
  refine ⟨c, q, t, u, ?_, ?_, ?_, ?_, ?_, ?_⟩ <;> simp only [c, r, q, s, t, u] <;> (repeat' split) <;> omega

theorem dec_yoe (doe c q t u : Int) (h : Dec doe c q t u) : yoeOf doe = 100 * c + 4 * q + t := by
  obtain ⟨eq, hc, hq, ht, hu, leap⟩ := h
  unfold yoeOf fOf
  -- doe / 146096
  have e3 : doe / 146096 = if doe = 146096 then 1 else 0 := by
    split <;> omega
  -- doe / 36524
  have e2 : doe / 36524 = if 1461 * q + 365 * t + u = 36524 then c + 1 else c := by
    split <;> omega
  -- doe / 1460
  have e1 : doe / 1460 = if 24 * c + q + 365 * t + u < 1460 then 25 * c + q else 25 * c + q + 1 := by
    split <;> omega
  rw [e1, e2, e3]
  repeat' split
  all_goals omega

theorem dec_doy (doe c q t u : Int) (h : Dec doe c q t u) : doyOf doe = u := by
  have hy := dec_yoe doe c q t u h
  obtain ⟨eq, hc, hq, ht, hu, leap⟩ := h
  unfold doyOf; rw [hy]; omega

def mpOf (u : Int) : Int := (5 * u + 2) / 153
def mOf (u : Int) : Int := if mpOf u < 10 then mpOf u + 3 else mpOf u - 9
def dOf (u : Int) : Int := u - (153 * mpOf u + 2) / 5 + 1
def hOf (u : Int) : Int := (if mOf u ≤ 2 then 10000 else 0) + mOf u * 100 + dOf u

theorem md_bounds (u : Int) (h : 0 ≤ u ∧ u ≤ 365) : 1 ≤ mOf u ∧ mOf u ≤ 12 ∧ 1 ≤ dOf u ∧ dOf u ≤ 31 := by
  unfold mOf dOf mpOf; split <;> omega

theorem h_mono (u u' : Int) (h : 0 ≤ u) (h' : u' ≤ 365) (hlt : u < u') : hOf u < hOf u' := by
  unfold hOf mOf dOf mpOf; repeat' split
  all_goals omega

theorem h_bounds (u : Int) (h : 0 ≤ u ∧ u ≤ 365) : 301 ≤ hOf u ∧ hOf u ≤ 10229 := by
  unfold hOf mOf dOf mpOf; repeat' split
  all_goals omega

theorem civil_eq (z : Int) :
    civilOfDays z =
      let doe := (z + 719468) % 146097
      let era := (z + 719468) / 146097
      let u := doyOf doe
      { year := if mOf u ≤ 2 then yoeOf doe + era * 400 + 1 else yoeOf doe + era * 400,
        month := (mOf u).toNat, day := (dOf u).toNat } := by
  rfl

theorem doe_range (z : Int) : 0 ≤ (z + 719468) % 146097 ∧ (z + 719468) % 146097 < 146097 := by omega

theorem yoe_doy_bounds (doe : Int) (h : 0 ≤ doe ∧ doe < 146097) :
    0 ≤ yoeOf doe ∧ yoeOf doe ≤ 399 ∧ 0 ≤ doyOf doe ∧ doyOf doe ≤ 365 := by
  obtain ⟨c, q, t, u, hd⟩ := dec_exists doe h
  rw [dec_yoe doe c q t u hd, dec_doy doe c q t u hd]
  obtain ⟨eq, hc, hq, ht, hu, leap⟩ := hd
  omega

theorem compact_eq (z : Int) :
    civilNum (civilOfDays z) =
      (yoeOf ((z + 719468) % 146097) + (z + 719468) / 146097 * 400) * 10000 + hOf (doyOf ((z + 719468) % 146097)) := by
  rw [civil_eq]
  have hb := yoe_doy_bounds _ (doe_range z)
  have hm := md_bounds (doyOf ((z + 719468) % 146097)) ⟨hb.2.2.1, hb.2.2.2⟩
  simp only [civilNum, hOf]
  split <;> omega

theorem yoe_mono (a b : Int) (h : a ≤ b) : yoeOf a ≤ yoeOf b :=
  Int.ediv_le_ediv (by decide) (f_mono a b h)

theorem civil_strict_mono (z z' : Int) (h : z < z') : civilNum (civilOfDays z) < civilNum (civilOfDays z') := by
  rw [compact_eq, compact_eq]
  have r1 := doe_range z
  have r2 := doe_range z'
  have b1 := yoe_doy_bounds _ r1
  have b2 := yoe_doy_bounds _ r2
  have hh1 := h_bounds _ ⟨b1.2.2.1, b1.2.2.2⟩
  have hh2 := h_bounds _ ⟨b2.2.2.1, b2.2.2.2⟩
  by_cases he : (z + 719468) / 146097 = (z' + 719468) / 146097
  · rw [← he]
    have hdoe : (z + 719468) % 146097 < (z' + 719468) % 146097 := by omega
    have hy := yoe_mono _ _ (Int.le_of_lt hdoe)
    by_cases hyy : yoeOf ((z + 719468) % 146097) = yoeOf ((z' + 719468) % 146097)
    · have : doyOf ((z + 719468) % 146097) < doyOf ((z' + 719468) % 146097) := by
        unfold doyOf; rw [hyy]; omega
      have := h_mono _ _ b1.2.2.1 b2.2.2.2 this
      rw [hyy]; omega
    · omega
  · have : (z + 719468) / 146097 < (z' + 719468) / 146097 := by omega
    omega

theorem civil_bounds (z : Int) : 1 ≤ (civilOfDays z).month ∧ (civilOfDays z).month ≤ 12 ∧
    1 ≤ (civilOfDays z).day ∧ (civilOfDays z).day ≤ 31 := by
  rw [civil_eq]
  have hb := yoe_doy_bounds _ (doe_range z)
  have hm := md_bounds (doyOf ((z + 719468) % 146097)) ⟨hb.2.2.1, hb.2.2.2⟩
  simp only
  omega

end GaeaVerif.CivilDays
