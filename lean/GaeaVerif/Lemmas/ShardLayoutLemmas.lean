import GaeaVerif.Model.ShardLayout
/-
  Helper lemmas about `Model/ShardLayout.lean` shared by the theorems of C03
  and C04.
-/
namespace GaeaVerif.Layout
open GaeaVerif

/-- element-wise relation between two lists of the same length -/
inductive Forall₂ {α β : Type} (P : α → β → Prop) : List α → List β → Prop
  | nil : Forall₂ P [] []
  | cons {a : α} {b : β} {as : List α} {bs : List β} : P a b → Forall₂ P as bs → Forall₂ P (a :: as) (b :: bs)

theorem Forall₂.length_eq {α β : Type} {P : α → β → Prop} {as : List α} {bs : List β}
    (h : Forall₂ P as bs) : as.length = bs.length := by
  induction h with
  | nil => rfl
  | cons _ _ ih => simp [ih]

theorem Forall₂.imp {α β : Type} {P Q : α → β → Prop} {as : List α} {bs : List β}
    (h : Forall₂ P as bs) (hpq : ∀ a b, P a b → Q a b) : Forall₂ Q as bs := by
  induction h with
  | nil => exact .nil
  | cons hab _ ih => exact .cons (hpq _ _ hab) ih

/-- every right element is related to some left element -/
theorem Forall₂.exists_left {α β : Type} {P : α → β → Prop} {as : List α} {bs : List β}
    (h : Forall₂ P as bs) : ∀ b ∈ bs, ∃ a ∈ as, P a b := by
  induction h with
  | nil => simp
  | cons hab _ ih =>
    intro b hb
    simp only [List.mem_cons] at hb
    rcases hb with hb | hb
    · subst hb; exact ⟨_, by simp, hab⟩
    · obtain ⟨a, ha, hp⟩ := ih b hb
      exact ⟨a, by simp [ha], hp⟩

theorem Forall₂.exists_right {α β : Type} {P : α → β → Prop} {as : List α} {bs : List β}
    (h : Forall₂ P as bs) : ∀ a ∈ as, ∃ b ∈ bs, P a b := by
  induction h with
  | nil => simp
  | cons hab _ ih =>
    intro a ha
    simp only [List.mem_cons] at ha
    rcases ha with ha | ha
    · subst ha; exact ⟨_, by simp, hab⟩
    · obtain ⟨b, hb, hp⟩ := ih a ha
      exact ⟨b, by simp [hb], hp⟩

/-- an accepted `targetOf` keeps the statement and proves that the rule maps
    the index to a slice (otherwise `GetSlice(-1)` panics) -/
theorem targetOf_sql {α : Type} (r : Rule) (i : Int) (sql : α) (o : Target α) (h : targetOf r i sql = .ok o) :
    o.sql = sql ∧ mapGet r.t2s i ≠ none := by
  unfold targetOf at h
  constructor
  · repeat' split at h
    all_goals simp at h
    all_goals subst h; rfl
  · intro hn
    simp [getSliceIndexFromTableIndex, hn, getSlice, strIdx] at h

/-! ### `parseHashRuleSliceInfos`: the keys of `tableToSlice` are the listed tables -/

theorem mapGet_mapSet (m : List (Int × Int)) (k v k' : Int) :
    mapGet (mapSet m k v) k' = if k = k' then some v else mapGet m k' := by
  induction m with
  | nil => simp [mapSet, mapGet]
  | cons p rest ih =>
    obtain ⟨a, b⟩ := p
    simp only [mapSet]
    by_cases hak : a = k
    · subst hak
      simp only [↓reduceIte, mapGet]
      split <;> rfl
    · simp only [hak, ↓reduceIte, mapGet, ih]
      by_cases ha : a = k'
      · subst ha
        have : ¬ k = a := fun h => hak h.symm
        simp [this]
      · simp [ha]

/-- the table indexes and the keys of the table-to-slice map agree -/
def KeysAgree (acc : List Int × List (Int × Int)) : Prop := ∀ x, mapGet acc.2 x ≠ none ↔ x ∈ acc.1

theorem addTables_keys (i sum : Int) (n : Nat) (acc : List Int × List (Int × Int)) (h : KeysAgree acc) :
    KeysAgree (addTables i sum n acc) := by
  induction n with
  | zero => exact h
  | succ n ih =>
    intro x
    simp only [addTables, mapGet_mapSet, List.mem_append, List.mem_singleton]
    by_cases hx : (n : Int) + sum = x
    · simp [hx]
    · have : ¬ x = (n : Int) + sum := fun e => hx e.symm
      simp only [hx, ↓reduceIte, this, or_false]
      exact ih x

theorem hashLoop_keys (locs : List Int) (i sum : Int) (acc : List Int × List (Int × Int)) (h : KeysAgree acc) :
    KeysAgree (hashLoop locs i sum acc) := by
  induction locs generalizing i sum acc with
  | nil => exact h
  | cons loc rest ih => exact ih _ _ _ (addTables_keys i sum loc.toNat acc h)

/-- `parseHashRuleSliceInfos`: a table index is mapped to a slice exactly when
    it is one of the listed sub tables (for every `locations` list) -/
theorem parseHashRuleSliceInfos_keys (locs : List Int) (slices : List String) (idxs : List Int)
    (t2s : List (Int × Int)) (h : parseHashRuleSliceInfos locs slices = some (idxs, t2s)) :
    ∀ x, mapGet t2s x ≠ none ↔ x ∈ idxs := by
  unfold parseHashRuleSliceInfos at h
  split at h
  · simp at h
  split at h
  · simp at h
  split at h
  · simp at h
  · simp only [Option.some.injEq] at h
    have := hashLoop_keys locs 0 0 ([], []) (by intro x; simp [mapGet])
    rw [h] at this
    exact this

/-! ### The layout of a global rule is the list of configured copies -/

/-- number of tables a `locations` list describes -/
def totalTables (locs : List Int) : Nat := (locs.map Int.toNat).sum

/-- the group (position in `locations`) the `d`-th table belongs to -/
def groupOf : List Int → Nat → Nat
  | [], _ => 0
  | l :: ls, d => if d < l.toNat then 0 else 1 + groupOf ls (d - l.toNat)

theorem addTables_fst (i sum : Int) (n : Nat) (acc : List Int × List (Int × Int)) :
    (addTables i sum n acc).1 = acc.1 ++ (List.range n).map (fun (j : Nat) => (j : Int) + sum) := by
  induction n with
  | zero => simp [addTables]
  | succ n ih => simp [addTables, ih, List.range_succ]

theorem addTables_get (i sum : Int) (n : Nat) (acc : List Int × List (Int × Int)) (x : Int) :
    mapGet (addTables i sum n acc).2 x = if sum ≤ x ∧ x < sum + n then some i else mapGet acc.2 x := by
  induction n with
  | zero =>
    simp only [addTables]
    split
    · exfalso; omega
    · rfl
  | succ n ih =>
    simp only [addTables, mapGet_mapSet, ih]
    have hc : ((n + 1 : Nat) : Int) = (n : Int) + 1 := by omega
    rw [hc]
    repeat' split
    all_goals first | rfl | (exfalso; omega)

theorem hashLoop_fst (locs : List Int) (i sum : Int) (acc : List Int × List (Int × Int)) (hpos : ∀ l ∈ locs, 0 ≤ l) :
    (hashLoop locs i sum acc).1 = acc.1 ++ (List.range (totalTables locs)).map (fun (j : Nat) => (j : Int) + sum) := by
  induction locs generalizing i sum acc with
  | nil => simp [hashLoop, totalTables]
  | cons l ls ih =>
    have hl : 0 ≤ l := hpos l (by simp)
    simp only [hashLoop]
    rw [ih _ _ _ (fun x hx => hpos x (by simp [hx])), addTables_fst]
    simp only [totalTables, List.map_cons, List.sum_cons, List.append_assoc, List.append_cancel_left_eq]
    rw [List.range_add, List.map_append, List.map_map]
    congr 1
    apply List.map_congr_left
    intro a _
    simp only [Function.comp]
    omega

theorem hashLoop_get (locs : List Int) (i sum : Int) (acc : List Int × List (Int × Int)) (x : Int)
    (hpos : ∀ l ∈ locs, 0 ≤ l) :
    mapGet (hashLoop locs i sum acc).2 x =
      if sum ≤ x ∧ x < sum + totalTables locs then some (i + groupOf locs (x - sum).toNat) else mapGet acc.2 x := by
  induction locs generalizing i sum acc with
  | nil =>
    simp only [hashLoop, totalTables, List.map_nil, List.sum_nil]
    split
    · omega
    · rfl
  | cons l ls ih =>
    have hl : 0 ≤ l := hpos l (by simp)
    simp only [hashLoop]
    rw [ih _ _ _ (fun y hy => hpos y (by simp [hy])), addTables_get]
    have hT : (totalTables (l :: ls) : Int) = l + totalTables ls := by
      simp only [totalTables, List.map_cons, List.sum_cons]; omega
    rw [hT]
    have hl' : (l.toNat : Int) = l := by omega
    rw [hl']
    by_cases h1 : sum + l ≤ x ∧ x < sum + l + totalTables ls
    · rw [if_pos h1, if_pos (by omega)]
      have hg : groupOf (l :: ls) (x - sum).toNat = 1 + groupOf ls (x - (sum + l)).toNat := by
        simp only [groupOf]
        rw [if_neg (by omega)]
        congr 2
        omega
      rw [hg]
      congr 1
      omega
    · rw [if_neg h1]
      by_cases h5 : sum ≤ x ∧ x < sum + l
      · rw [if_pos h5, if_pos (by omega)]
        have hg : groupOf (l :: ls) (x - sum).toNat = 0 := by
          simp only [groupOf]
          rw [if_pos (by omega)]
        rw [hg]
        simp
      · rw [if_neg h5, if_neg (by omega)]

theorem groupOf_lt (locs : List Int) (d : Nat) (hd : d < totalTables locs) : groupOf locs d < locs.length := by
  induction locs generalizing d with
  | nil => simp [totalTables] at hd
  | cons l ls ih =>
    simp only [groupOf, List.length_cons]
    split
    · omega
    · have : d - l.toNat < totalTables ls := by
        simp only [totalTables, List.map_cons, List.sum_cons] at hd ⊢
        omega
      have := ih _ this
      omega

theorem copySlices_length (locs : List Int) (slices : List String) (h : locs.length = slices.length) :
    (copySlices locs slices).length = totalTables locs := by
  induction locs generalizing slices with
  | nil => simp [copySlices, totalTables]
  | cons l ls ih =>
    cases slices with
    | nil => simp at h
    | cons s ss =>
      simp only [List.length_cons, Nat.add_right_cancel_iff] at h
      simp [copySlices, totalTables, ih ss h]

theorem copySlices_get (locs : List Int) (slices : List String) (h : locs.length = slices.length)
    (d : Nat) (hd : d < totalTables locs) : (copySlices locs slices)[d]? = slices[groupOf locs d]? := by
  induction locs generalizing slices d with
  | nil => simp [totalTables] at hd
  | cons l ls ih =>
    cases slices with
    | nil => simp at h
    | cons s ss =>
      simp only [List.length_cons, Nat.add_right_cancel_iff] at h
      simp only [copySlices, groupOf]
      split
      · rename_i hlt
        rw [List.getElem?_append_left (by simpa using hlt)]
        simp [hlt]
      · rename_i hge
        rw [List.getElem?_append_right (by simpa using Nat.le_of_not_lt hge)]
        simp only [List.length_replicate]
        have : d - l.toNat < totalTables ls := by
          simp only [totalTables, List.map_cons, List.sum_cons] at hd ⊢
          omega
        rw [ih ss h _ this, Nat.add_comm, List.getElem?_cons_succ]

/-- a global-table configuration the theorems of C04 talk about: one slice per
    `locations` entry, no negative count, and a physical database per copy
    when databases are listed (what `models.Shard.verify` and `NewRouter` check,
    C10) -/
structure ValidCfg (cfg : GlobalCfg) : Prop where
  len : cfg.locations.length = cfg.slices.length
  pos : ∀ l ∈ cfg.locations, 0 ≤ l
  dbs : cfg.databases.length = 0 ∨ cfg.databases.length = totalTables cfg.locations

/-- the physical database of every copy, in table-index order -/
def globalDbs (cfg : GlobalCfg) : List String :=
  if cfg.databases.length ≠ 0 then cfg.databases else List.replicate (totalTables cfg.locations) cfg.db

theorem globalDbs_length (cfg : GlobalCfg) (hv : ValidCfg cfg) : (globalDbs cfg).length = totalTables cfg.locations := by
  unfold globalDbs
  split
  · rcases hv.dbs with h | h <;> omega
  · simp

theorem copies_eq (cfg : GlobalCfg) (hv : ValidCfg cfg) :
    copies cfg = (copySlices cfg.locations cfg.slices).zip (globalDbs cfg) := by
  simp only [copies, globalDbs, copySlices_length _ _ hv.len]

theorem copies_length (cfg : GlobalCfg) (hv : ValidCfg cfg) : (copies cfg).length = totalTables cfg.locations := by
  rw [copies_eq cfg hv, List.length_zip, copySlices_length _ _ hv.len, globalDbs_length cfg hv]
  simp

/-- an accepted `locations` list yields what the loop computes -/
theorem parseHashRuleSliceInfos_some (locs : List Int) (slices : List String) (p : List Int × List (Int × Int))
    (h : parseHashRuleSliceInfos locs slices = some p) : p = hashLoop locs 0 0 ([], []) := by
  unfold parseHashRuleSliceInfos at h
  split at h
  · simp at h
  split at h
  · simp at h
  split at h
  · simp at h
  · simp only [Option.some.injEq] at h; exact h.symm

/-- the fields of the rule `NewRouter` builds from a global-table configuration -/
theorem parseGlobalRule_fields (ns : List String) (cfg : GlobalCfg) (r : Rule) (hv : ValidCfg cfg)
    (h : parseGlobalRule false ns cfg = some r) :
    r.kind = .global ∧ r.slices = cfg.slices ∧
    r.idxs = (List.range (totalTables cfg.locations)).map (fun (j : Nat) => (j : Int)) ∧
    r.dbs = globalDbs cfg ∧
    (∀ x : Int, mapGet r.t2s x =
      if 0 ≤ x ∧ x < (totalTables cfg.locations : Int) then some ((groupOf cfg.locations x.toNat : Nat) : Int) else none) := by
  unfold parseGlobalRule at h
  cases hp : parseHashRuleSliceInfos cfg.locations cfg.slices with
  | none => simp [hp] at h
  | some p =>
    have hpe : p = hashLoop cfg.locations 0 0 ([], []) := parseHashRuleSliceInfos_some _ _ _ hp
    obtain ⟨idxs, t2s⟩ := p
    simp only [hp] at h
    split at h
    · simp at h
    simp only [Option.some.injEq] at h
    have hi : idxs = (hashLoop cfg.locations 0 0 ([], [])).1 := by rw [← hpe]
    have ht : t2s = (hashLoop cfg.locations 0 0 ([], [])).2 := by rw [← hpe]
    subst hi; subst ht
    have hidx := hashLoop_fst cfg.locations 0 0 ([], []) hv.pos
    have hget := fun x => hashLoop_get cfg.locations 0 0 ([], []) x hv.pos
    have hidx' : (hashLoop cfg.locations 0 0 ([], [])).1 =
        (List.range (totalTables cfg.locations)).map (fun (j : Nat) => (j : Int)) := by
      rw [hidx]; simp
    subst h
    refine ⟨rfl, by simp, hidx', ?_, ?_⟩
    · simp only [globalDbs, hidx', List.length_map, List.length_range, ne_eq]
    · intro x
      rw [hget x]
      simp only [Int.zero_add, Int.sub_zero]
      split <;> simp [mapGet]

/-- the layout `NewRouter` builds for a valid global-table configuration files
    table `j` under the slice and database of the `j`-th configured copy -/
theorem targetOf_copy (ns : List String) (cfg : GlobalCfg) (r : Rule) (hv : ValidCfg cfg)
    (h : parseGlobalRule false ns cfg = some r) {α : Type} (sql : α) (j : Nat) (hj : j < totalTables cfg.locations) :
    ∃ c, (copies cfg)[j]? = some c ∧ targetOf r j sql = .ok { slice := c.1, db := c.2, sql := sql } ∧
      getDatabaseNameByTableIndex r j = .ok c.2 := by
  obtain ⟨hk, hsl, hidx, hdbs, hget⟩ := parseGlobalRule_fields ns cfg r hv h
  have hcs := copySlices_length cfg.locations cfg.slices hv.len
  have hdl := globalDbs_length cfg hv
  have hg := groupOf_lt cfg.locations j hj
  have hgs : groupOf cfg.locations j < cfg.slices.length := by rw [← hv.len]; exact hg
  have hjs : j < (copySlices cfg.locations cfg.slices).length := by omega
  have hjd : j < (globalDbs cfg).length := by omega
  refine ⟨((copySlices cfg.locations cfg.slices)[j], (globalDbs cfg)[j]), ?_, ?_, ?_⟩
  · rw [copies_eq cfg hv, List.getElem?_zip_eq_some]
    simp [hjs, hjd]
  · have hs : (copySlices cfg.locations cfg.slices)[j] = cfg.slices[groupOf cfg.locations j] := by
      have := copySlices_get cfg.locations cfg.slices hv.len j hj
      rw [List.getElem?_eq_getElem hjs, List.getElem?_eq_getElem hgs] at this
      exact Option.some.inj this
    have hcond : (0 : Int) ≤ (j : Int) ∧ (j : Int) < (totalTables cfg.locations : Int) := by omega
    have h1 : getSlice r (getSliceIndexFromTableIndex r j) = .ok ((copySlices cfg.locations cfg.slices)[j]) := by
      simp only [getSliceIndexFromTableIndex, getSlice, hget, if_pos hcond, Int.toNat_natCast, hsl]
      simp [strIdx, hgs, hs]
    have h2 : getDatabaseNameByTableIndex r j = .ok ((globalDbs cfg)[j]) := by
      simp only [getDatabaseNameByTableIndex, hk, hidx, hdbs, List.length_map, List.length_range]
      have hnot : ¬ ((j : Int) > (totalTables cfg.locations : Int)) := by omega
      simp [hnot, strIdx, hjd]
    simp only [targetOf, h1, h2]
  · simp only [getDatabaseNameByTableIndex, hk, hidx, hdbs, List.length_map, List.length_range]
    have hnot : ¬ ((j : Int) > (totalTables cfg.locations : Int)) := by omega
    simp [hnot, strIdx, hjd]

/-- index-wise reading of `Forall₂` -/
theorem Forall₂.get {α β : Type} {P : α → β → Prop} {as : List α} {bs : List β} (h : Forall₂ P as bs)
    (j : Nat) (a : α) (ha : as[j]? = some a) : ∃ b, bs[j]? = some b ∧ P a b := by
  induction h generalizing j with
  | nil => simp at ha
  | cons hab _ ih =>
    cases j with
    | zero => simp at ha; subst ha; exact ⟨_, by simp, hab⟩
    | succ j => simp at ha; simpa using ih j ha

/-- what an accepted `generateShardingSQLs` produced, index by index -/
theorem generateShardingSQLs_spec {α : Type} (r : Rule) (restore : Int → R α) (idxs : List Int)
    (out : List (Target α)) (h : generateShardingSQLs r restore idxs = .ok out) :
    Forall₂ (fun i t => ∃ sql, restore i = .ok sql ∧ targetOf r i sql = .ok t) idxs out := by
  induction idxs generalizing out with
  | nil => simp [generateShardingSQLs] at h; subst h; exact .nil
  | cons i rest ih =>
    simp only [generateShardingSQLs] at h
    split at h
    · rename_i sql hs
      split at h
      · rename_i t ht
        split at h
        · rename_i ts hts
          simp only [R.ok.injEq] at h
          subst h
          exact .cons ⟨sql, hs, ht⟩ (ih ts hts)
        all_goals simp at h
      all_goals simp at h
    all_goals simp at h

end GaeaVerif.Layout
