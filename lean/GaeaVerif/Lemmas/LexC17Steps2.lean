import GaeaVerif.Lemmas.LexC17Steps
/-
  Helper lemmas for C17: one dispatch of the scanner on comments.
-/
namespace GaeaVerif.LexC17
open GaeaVerif

/-! ### comments -/

theorem plainStep_cblock (body more : Bytes) (hok : (Item.cblock body).ok = true) :
    plainStep (cSlash :: cStar :: body ++ cStar :: cSlash :: more) = .skip (body.length + 4) := by
  simp only [Item.ok, Bool.and_eq_true, blockBodyOK, Bool.not_eq_true'] at hok
  obtain ⟨hb, hfirst⟩ := hok
  have hv : cSlash.toNat = 0x2F := by decide
  have hsv : cStar.toNat = 0x2A := by decide
  rw [List.cons_append, plainStep_ascii cSlash _ (by decide)]
  simp only [hv]
  rw [if_neg (by omega), if_neg (by omega), if_neg (by omega), if_pos trivial]
  simp only [startWithSlash, List.cons_append, hsv, if_true]
  have hcl := commentLoop_body body.length body false (Nat.le_refl _) (by simpa [cStar] using hb) more
    (body ++ cStar :: cSlash :: more).length (by simp)
  rw [hcl]
  simp only
  cases body with
  | nil =>
    simp only [List.nil_append, hsv]
    rw [if_neg (by omega), if_neg (by omega)]
    rfl
  | cons x t =>
    simp only [Bool.and_eq_true, ne_eq, decide_eq_true_eq] at hfirst
    simp only [List.cons_append]
    rw [if_neg hfirst.2, if_neg hfirst.1]
    simp only [List.length_cons]
    congr 1; omega

/-- What follows a line comment without its newline: nothing. -/
theorem lineComment_tail (nl : Bool) (more : Bytes) (h : more = [] ∨ nl = true) :
    ((if nl then [0x0A] else []) ++ more = [] ∨
      ∃ s t, (if nl then [(0x0A : UInt8)] else []) ++ more = s :: t ∧ s.toNat < 0x80 ∧ (fun r => decide (r ≠ 0x0A)) s.toNat = false) := by
  cases nl with
  | true => right; exact ⟨0x0A, more, by simp, by decide, by decide⟩
  | false =>
    rcases h with rfl | h
    · left; rfl
    · exact absurd h (by simp)

theorem plainStep_chash (body more : Bytes) (nl : Bool) (hok : (Item.chash body nl).ok = true)
    (hm : more = [] ∨ nl = true) :
    plainStep (0x23 :: body ++ (if nl then [0x0A] else []) ++ more) = .skip (body.length + 1) := by
  simp only [Item.ok, List.all_eq_true, decide_eq_true_eq] at hok
  rw [List.cons_append, List.cons_append, plainStep_ascii 0x23 _ (by decide)]
  simp only
  rw [if_neg (by decide), if_pos (by decide)]
  have := incAsLongAs_body (fun r => decide (r ≠ 0x0A)) (by intro r hr; simp; omega) (body.length + 1) (0x23 :: body)
    (by simp) (by
      intro b hb _
      simp only [List.mem_cons] at hb
      rcases hb with rfl | hb
      · decide
      · simpa using hok b hb)
    ((if nl then [0x0A] else []) ++ more) (lineComment_tail nl more hm)
  simp only [List.cons_append, List.length_cons, List.append_assoc] at this ⊢
  rw [this]

theorem plainStep_cdash (body more : Bytes) (nl : Bool) (hok : (Item.cdash body nl).ok = true)
    (hm : more = [] ∨ nl = true) :
    plainStep (0x2D :: 0x2D :: body ++ (if nl then [0x0A] else []) ++ more) = .skip (body.length + 2) := by
  simp only [Item.ok, Bool.and_eq_true, List.all_eq_true, decide_eq_true_eq] at hok
  obtain ⟨hfirst, hall⟩ := hok
  rw [List.cons_append, List.cons_append, plainStep_ascii 0x2D _ (by decide)]
  simp only
  rw [if_neg (by decide), if_neg (by decide), if_pos (by decide)]
  have hrun := incAsLongAs_body (fun r => decide (r ≠ 0x0A)) (by intro r hr; simp; omega) (body.length + 2) (0x2D :: 0x2D :: body)
    (by simp) (by
      intro b hb _
      simp only [List.mem_cons] at hb
      rcases hb with rfl | rfl | hb
      · decide
      · decide
      · simpa using hall b hb)
    ((if nl then [0x0A] else []) ++ more) (lineComment_tail nl more hm)
  simp only [List.cons_append, List.length_cons] at hrun
  -- the comment condition of startWithDash: "--" at the end, or followed by white space
  have hcond : ((match body ++ ((if nl then [0x0A] else []) ++ more) with | s :: _ => isSpaceB s | [] => true) = true) := by
    cases body with
    | nil =>
      cases nl with
      | true => simp [isSpaceB, isSpace]
      | false =>
        rcases hm with rfl | h
        · simp
        · exact absurd h (by simp)
    | cons b t =>
      simp only [Bool.and_eq_true] at hfirst
      simp [hfirst.1]
  simp only [startWithDash, List.cons_append, List.append_assoc]
  rw [if_pos ⟨by decide, hcond⟩, hrun]

end GaeaVerif.LexC17
