import GaeaVerif.Lemmas.MergeSort
import GaeaVerif.Lemmas.MergeGroup
import GaeaVerif.Lemmas.MergeTopK
/-
  C02 helper lemmas: what the proofs need to know about a plan (`PlanInv`, with
  a decision procedure `planOK`), and the steps of `MergeSelectResult` under it.
-/
namespace GaeaVerif.Merge

/-- What `HandleSelectStmt` must establish between the statement (`cq`), the
    per-table statement (`cq'`) and the plan: the per-table select list is the
    original one followed by extra columns; ORDER BY and GROUP BY are unchanged;
    the recorded column indexes point at the ORDER BY / GROUP BY expressions;
    trimming leaves the original columns; there is a merger for exactly the
    aggregate columns; the per-table LIMIT is `offset+count` or absent. -/
structure PlanInv (schema : List Ty) (p : Plan) (cq cq' : CQ) : Prop where
  width : cq.items.length ≤ cq'.items.length
  items : cq'.items.take cq.items.length = cq.items
  keys : cq'.keys = cq.keys
  group : cq'.group = cq.group
  cdistinct : cq'.distinct = cq.distinct
  pdistinct : p.distinct = cq.distinct
  pgroup : p.hasGroupBy = cq.group.isSome
  dirs : p.orderByDirections = cq.dirs
  order : (sortCols p cq').map (itemAt cq'.items) = cq.keys.map fun k => some k.1
  grp : ∀ g, cq.group = some g → (groupCols' p cq').map (itemAt cq'.items) = g.map fun c => some (.col c)
  trim : (p.originColumnCount : Int) + planDelta p cq' = cq.items.length
  aggs : p.aggs = aggPositions cq'.items
  aggOK : ∀ it ∈ cq'.items, it.aggOK schema = true
  limit : match cq.limit with
    | none => p.count = -1 ∧ cq'.limit = none
    | some (o, c) => p.offset = o ∧ p.count = c ∧ (cq'.limit = some (0, o + c) ∨ cq'.limit = none)

theorem planOK_sound {schema : List Ty} {p : Plan} {cq cq' : CQ} (h : planOK schema p cq cq' = true) :
    PlanInv schema p cq cq' := by
  simp only [planOK, Bool.and_eq_true, decide_eq_true_eq] at h
  obtain ⟨⟨⟨⟨⟨⟨⟨⟨⟨⟨⟨⟨⟨h1, h2⟩, h3⟩, h4⟩, h5⟩, h6⟩, h7⟩, h8⟩, h9⟩, h10⟩, h11⟩, h12⟩, h13⟩, h14⟩ := h
  refine ⟨h1, h2, h3, h4, h5, h6, h7, h8, h9, ?_, h11, h12, ?_, ?_⟩
  · intro g hg
    rw [hg] at h10
    simpa using h10
  · intro it hit
    exact List.all_eq_true.mp h13 it hit
  · cases hl : cq.limit with
    | none => rw [hl] at h14; simpa using h14
    | some oc =>
      obtain ⟨o, c⟩ := oc
      rw [hl] at h14
      simp only [Bool.and_eq_true, Bool.or_eq_true, decide_eq_true_eq] at h14
      exact ⟨h14.1.1, h14.1.2, h14.2⟩

/-! ### reading the shard rows -/

theorem fullRow_length (items : List Item) (grp : List Row) : (fullRow items grp).length = items.length := by
  simp [fullRow]

/-- values at columns that point at known items -/
theorem keyAt_of_itemAt (items : List Item) (grp : List Row) : ∀ (cols : List Int) (its : List Item),
    cols.map (itemAt items) = its.map some → keyAt cols (fullRow items grp) = its.map (evalItem grp)
  | [], [], _ => rfl
  | [], _ :: _, h => by simp at h
  | _ :: _, [], h => by simp at h
  | c :: cols, it :: its, h => by
    simp only [List.map_cons, List.cons.injEq] at h
    have ih := keyAt_of_itemAt items grp cols its h.2
    simp only [keyAt, List.map_cons] at ih ⊢
    rw [ih]
    congr 1
    have h1 := h.1
    simp only [itemAt] at h1
    split at h1
    · simp [fullRow, List.getD, h1]
    · cases h1

theorem inRange_of_itemAt (items : List Item) (row : Row) (hlen : row.length = items.length) :
    ∀ (cols : List Int) (its : List Item), cols.map (itemAt items) = its.map some → InRange cols row
  | [], _, _ => by intro c hc; simp at hc
  | _ :: _, [], h => by simp at h
  | c :: cols, it :: its, h => by
    simp only [List.map_cons, List.cons.injEq] at h
    have ih := inRange_of_itemAt items row hlen cols its h.2
    intro x hx
    rcases List.mem_cons.mp hx with rfl | hx
    · have h1 := h.1
      simp only [itemAt] at h1
      split at h1
      · rename_i h0
        have := (List.getElem?_eq_some_iff.mp h1).1
        exact ⟨h0, by omega⟩
      · cases h1
    · exact ih x hx

section Inv
variable {schema : List Ty} {p : Plan} {cq cq' : CQ} (inv : PlanInv schema p cq cq')
include inv

theorem inv_keyAt (grp : List Row) :
    keyAt (sortCols p cq') (fullRow cq'.items grp) = cq.keys.map fun k => evalItem grp k.1 := by
  have := keyAt_of_itemAt cq'.items grp (sortCols p cq') (cq.keys.map (·.1)) (by
    rw [inv.order]; simp)
  rw [this]; simp

theorem inv_take (grp : List Row) :
    (fullRow cq'.items grp).take cq.items.length = cq.items.map (evalItem grp) := by
  simp only [fullRow, ← List.map_take, inv.items]

theorem inv_inRange (row : Row) (hlen : row.length = cq'.items.length) : InRange (sortCols p cq') row :=
  inRange_of_itemAt cq'.items row hlen (sortCols p cq') (cq.keys.map (·.1)) (by rw [inv.order]; simp)

theorem inv_sortCols_length : (sortCols p cq').length = cq.dirs.length := by
  have := congrArg List.length inv.order
  simpa [CQ.dirs] using this

/-- reading a merged row as an answer row -/
def toOut (W : Nat) (cols : List Int) (row : Row) : OutRow := { vis := row.take W, key := keyAt cols row }

theorem inv_toOut (grp : List Row) :
    toOut cq.items.length (sortCols p cq') (fullRow cq'.items grp) = outOf cq grp := by
  simp only [toOut, outOf, inv_keyAt inv, inv_take inv]

end Inv

/-- the order the merged rows are sorted in -/
def leFull (dirs : List Bool) (cols : List Int) (a b : Row) : Bool := leKey dirs (keyAt cols a) (keyAt cols b)

theorem leFull_trans (dirs : List Bool) (cols : List Int) (a b c : Row) :
    leFull dirs cols a b = true → leFull dirs cols b c = true → leFull dirs cols a c = true :=
  leKey_trans dirs _ _ _

theorem leFull_total (dirs : List Bool) (cols : List Int) (a b : Row) :
    (leFull dirs cols a b || leFull dirs cols b a) = true := by
  simp only [leFull, Bool.or_eq_true]; exact leKey_total dirs _ _

/-! ### steps of MergeSelectResult -/

theorem mergeMulti_uniform (N : Nat) : ∀ (r : Result) (rs : List Result),
    r.nfields = N → (∀ x ∈ rs, x.nfields = N) →
    mergeMultiResultSet (r :: rs) = .ok { nfields := N, rows := ((r :: rs).map (·.rows)).flatten } := by
  intro r rs hr hrs
  simp only [mergeMultiResultSet]
  congr 1
  induction rs generalizing r with
  | nil => cases r; simp_all
  | cons x xs ih =>
    simp only [List.foldl_cons]
    have hx := hrs x (by simp)
    rw [ih { nfields := if x.nfields < r.nfields then x.nfields else r.nfields, rows := r.rows ++ x.rows }
      (by simp [hx, hr]) (fun y hy => hrs y (by simp [hy]))]
    simp

theorem limit_rows (rows : List Row) (o c : Nat) :
    (let rowLen : Int := rows.length
     let e : Int := if (o : Int) + c < rowLen then (o : Int) + c else rowLen
     if (o : Int) ≥ rowLen then ([] : List Row)
     else (rows.drop (o : Int).toNat).take (e - o).toNat) = (rows.drop o).take c := by
  simp only
  by_cases h : (o : Int) ≥ rows.length
  · have : rows.length ≤ o := by omega
    simp [h, List.drop_of_length_le this]
  · rw [if_neg h]
    have ho : o < rows.length := by omega
    simp only [Int.toNat_natCast]
    by_cases h2 : (o : Int) + c < rows.length
    · rw [if_pos h2]
      congr 1; omega
    · rw [if_neg h2]
      have : ((rows.length : Int) - o).toNat = rows.length - o := by omega
      rw [this]
      have hl : (rows.drop o).length = rows.length - o := by simp
      rw [List.take_of_length_le (by omega), List.take_of_length_le (by omega)]

theorem limitSelectResult_spec {schema : List Ty} {p : Plan} {cq cq' : CQ} (inv : PlanInv schema p cq cq') (r : Result) :
    limitSelectResult p r = .ok { r with rows := window cq.limit r.rows } := by
  have hl := inv.limit
  cases hlim : cq.limit with
  | none =>
    rw [hlim] at hl
    simp [limitSelectResult, hl.1, window]
  | some oc =>
    obtain ⟨o, c⟩ := oc
    rw [hlim] at hl
    simp only at hl
    have hc : ¬ ((c : Int) = -1) := by omega
    simp only [limitSelectResult, hl.1, hl.2.1, window, if_neg hc]
    have := limit_rows r.rows o c
    simp only at this
    by_cases h : (o : Int) ≥ r.rows.length
    · simp only [h, if_true] at this ⊢
      rw [this]
    · simp only [h, if_false] at this ⊢
      have hcond : (0 : Int) ≤ o ∧ (o : Int) ≤ (if (o : Int) + c < r.rows.length then (o : Int) + c else r.rows.length) := by
        constructor
        · omega
        · split <;> omega
      rw [if_pos hcond, this]

theorem trimRows_spec (W : Nat) : ∀ (rows : List Row), (∀ r ∈ rows, W ≤ r.length) →
    trimRows (W : Int) rows = .ok (rows.map (List.take W))
  | [], _ => rfl
  | r :: rows, h => by
    have hr := h r (by simp)
    simp only [trimRows, rowPrefix]
    have : (0 : Int) ≤ W ∧ (W : Int) ≤ r.length := by omega
    rw [if_pos this, trimRows_spec W rows (fun x hx => h x (by simp [hx]))]
    simp

theorem trim_generate_spec {schema : List Ty} {p : Plan} {cq cq' : CQ} (inv : PlanInv schema p cq cq')
    (rows : List Row) (hrows : ∀ r ∈ rows, r.length = cq'.items.length) :
    (trimExtraFields p { nfields := cq'.items.length, rows := rows } >>= generateRowData) =
      .ok { nfields := cq.items.length, rows := rows.map (List.take cq.items.length) } := by
  have ht := inv.trim
  have hw := inv.width
  have e : delta p { nfields := cq'.items.length, rows := rows } + (p.originColumnCount : Int) = (cq.items.length : Int) := by
    simp only [delta, planDelta] at ht ⊢; omega
  have h1 : ¬ ((cq.items.length : Int) = -1) := by omega
  have h2 : ¬ ((cq.items.length : Int) < 0 ∨ (cq.items.length : Int) > (cq'.items.length : Nat)) := by omega
  unfold trimExtraFields
  simp only [e, if_neg h1, if_neg h2]
  rw [trimRows_spec cq.items.length rows (fun r hr => by rw [hrows r hr]; exact hw)]
  simp only [R.bind_ok, generateRowData, Int.toNat_natCast]
  rw [if_pos]
  simp only [List.all_eq_true, List.mem_map, beq_iff_eq]
  rintro _ ⟨r, hr, rfl⟩
  rw [List.length_take, hrows r hr]; omega

theorem window_map {α β : Type} (f : α → β) (lim : Option (Nat × Nat)) (l : List α) :
    window lim (l.map f) = (window lim l).map f := by
  cases lim with
  | none => rfl
  | some oc => obtain ⟨o, c⟩ := oc; simp [window, List.map_take, List.map_drop]

theorem leFull_nil (cols : List Int) (a b : Row) : leFull [] cols a b = true := by simp [leFull, leKey]

theorem mergeSort_true {α : Type} (l : List α) (le : α → α → Bool) (h : ∀ a b, le a b = true) : l.mergeSort le = l := by
  apply List.mergeSort_of_pairwise
  exact List.pairwise_of_forall (fun a b => h a b)

theorem zip_map_add (cols : List Int) (dirs : List Bool) (d : Int) :
    ((cols.zip dirs).map fun (x : Int × Bool) => (x.1 + d, x.2)) = (cols.map (· + d)).zip dirs := by
  induction cols generalizing dirs with
  | nil => simp
  | cons c cs ih => cases dirs <;> simp [ih]

theorem sortSelect_spec {schema : List Ty} {p : Plan} {cq cq' : CQ} (inv : PlanInv schema p cq cq')
    (r r' : Result) (hn : r.nfields = cq'.items.length) (hrows : ∀ x ∈ r.rows, x.length = cq'.items.length)
    (h : sortSelectResult p r = .ok r') :
    r' = { r with rows := r.rows.mergeSort (leFull cq.dirs (sortCols p cq')) } := by
  simp only [sortSelectResult] at h
  split at h
  · rename_i he
    rw [R.ok.injEq] at h; subst h
    have : cq.dirs = [] := by rw [← inv.dirs]; exact List.isEmpty_iff.mp he
    rw [this, mergeSort_true _ _ (leFull_nil _)]
  · have hlen := inv_sortCols_length inv
    have hl2 : p.orderByColumn.length = p.orderByDirections.length := by
      rw [inv.dirs]; simpa [sortCols] using hlen
    have hnot : ¬ p.orderByColumn.length < p.orderByDirections.length := by omega
    rw [if_neg hnot] at h
    have hd : delta p r = planDelta p cq' := by simp [delta, planDelta, hn]
    have hks : ((p.orderByColumn.zip p.orderByDirections).map fun (x : Int × Bool) => (x.1 + delta p r, x.2))
        = (sortCols p cq').zip cq.dirs := by
      rw [zip_map_add, hd, inv.dirs]; rfl
    have hks' : (List.map (fun x => match x with | (c, desc) => (c + delta p r, desc)) (p.orderByColumn.zip p.orderByDirections))
        = (sortCols p cq').zip cq.dirs := by
      rw [← hks]
    rw [hks'] at h
    cases hs : sortRows ((sortCols p cq').zip cq.dirs) r.rows with
    | fail => rw [hs] at h; cases h
    | panic => rw [hs] at h; cases h
    | ok out =>
      rw [hs] at h
      simp only [R.ok.injEq] at h
      subst h
      have := sortRows_spec (sortCols p cq') cq.dirs r.rows out hlen
        (fun x hx => inv_inRange inv x (hrows x hx)) hs
      rw [this]; rfl

theorem mem_window {α : Type} (lim : Option (Nat × Nat)) (l : List α) (x : α) (h : x ∈ window lim l) : x ∈ l := by
  cases lim with
  | none => exact h
  | some oc => obtain ⟨o, c⟩ := oc; exact List.mem_of_mem_drop (List.mem_of_mem_take h)

/-- the last four steps of `MergeSelectResult` -/
def mergeTail (p : Plan) (r : Result) : R Result := do
  let ret ← sortSelectResult p r
  let ret ← limitSelectResult p ret
  let ret ← trimExtraFields p ret
  generateRowData ret

theorem mergeSelectResult_eq (p : Plan) (rs : List Result) :
    mergeSelectResult p rs = (do
      let ret ← mergeMultiResultSet rs
      let ret ← if p.hasGroupBy then buildSelectGroupByResult p ret else buildSelectOnlyResult p ret
      let ret ← if p.distinct then removeDistinctRowInResult p ret else pure ret
      mergeTail p ret) := rfl

/-- sort, limit, trim: the window of the rows sorted by their ORDER BY keys, extra columns removed -/
theorem mergeTail_spec {schema : List Ty} {p : Plan} {cq cq' : CQ} (inv : PlanInv schema p cq cq')
    (r res : Result) (hn : r.nfields = cq'.items.length) (hrows : ∀ x ∈ r.rows, x.length = cq'.items.length)
    (h : mergeTail p r = .ok res) :
    res = { nfields := cq.items.length,
            rows := (window cq.limit (r.rows.mergeSort (leFull cq.dirs (sortCols p cq')))).map (List.take cq.items.length) } := by
  simp only [mergeTail] at h
  cases hs : sortSelectResult p r with
  | fail => rw [hs] at h; cases h
  | panic => rw [hs] at h; cases h
  | ok a =>
    rw [hs] at h
    have ha := sortSelect_spec inv r a hn hrows hs
    subst ha
    simp only [R.bind_ok] at h
    rw [limitSelectResult_spec inv] at h
    simp only [R.bind_ok, hn] at h
    have := trim_generate_spec inv (window cq.limit (r.rows.mergeSort (leFull cq.dirs (sortCols p cq')))) (by
      intro x hx
      have := mem_window _ _ _ hx
      rw [List.mem_mergeSort] at this
      exact hrows x this)
    rw [this] at h
    exact (R.ok.inj h).symm

theorem aggPositions_nil_of_no_agg : ∀ (items : List Item) (i : Nat), (∀ it ∈ items, it.isAgg = false) →
    aggPosFrom i items = []
  | [], _, _ => rfl
  | it :: r, i, h => by
    have h0 := h it (by simp)
    cases it with
    | agg k a d => simp [Item.isAgg] at h0
    | col c => exact aggPositions_nil_of_no_agg r (i + 1) (fun x hx => h x (by simp [hx]))
    | const c => exact aggPositions_nil_of_no_agg r (i + 1) (fun x hx => h x (by simp [hx]))

end GaeaVerif.Merge
