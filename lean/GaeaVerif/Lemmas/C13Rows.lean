import GaeaVerif.Lemmas.C13Cols
/-
  C13 helper lemmas: whole rows — `ParseText` on a text-protocol row, the loop
  of `BuildBinaryResultset` (payload and null bitmap), the spec decoder on the
  payload.
-/
namespace GaeaVerif.C13
open GaeaVerif GaeaVerif.BinRow GaeaVerif.BinProto GaeaVerif.LenEnc

/-! ### `ParseText` on a text-protocol row -/

/-- What `ParseText` returns for the cells of a row. -/
def convertCells (ops : FloatOps) : List Field → List (Option Bytes) → Res (List GoVal)
  | [], _ => .ok []
  | _ :: _, [] => .err .textRow
  | f :: fs, c :: cs =>
    match (match c with | none => Res.ok GoVal.nil | some v => parseTextValue ops f v) with
    | .err e => .err e
    | .ok x =>
      match convertCells ops fs cs with
      | .err e => .err e
      | .ok xs => .ok (x :: xs)

theorem null_cell_read (pre suf : Bytes) :
    readLenEncStringAsBytes (pre ++ 0xfb :: suf) pre.length = .ok ([], (pre.length : Int) + 1, true) := by
  have hi := GaeaVerif.C12.goIdx_append pre [0xfb] suf 0 (by simp)
  simp only [Int.natCast_zero, Int.add_zero, List.append_assoc, List.singleton_append] at hi
  unfold readLenEncStringAsBytes readLenEncInt
  have hpos : ¬ ((pre.length : Int) < 0 ∨ (pre.length : Int) ≥ ((pre ++ 0xfb :: suf).length : Int)) := by
    simp only [List.length_append, List.length_cons]; omega
  rw [if_neg hpos, hi]
  simp only [R.bind_ok, List.getD_cons_zero, if_true]
  have hu : u64ToInt 0 = 0 := by decide
  rw [hu]
  have hc : ¬ ((0 : Int) < 0 ∨ (0 : Int) > ((pre ++ 0xfb :: suf).length : Int) - ((pre.length : Int) + 1)) := by
    simp only [List.length_append, List.length_cons]; omega
  rw [if_neg hc]
  have hs : goSlice (pre ++ 0xfb :: suf) ((pre.length : Int) + 1) ((pre.length : Int) + 1 + 0) = .ok [] := by
    unfold goSlice
    rw [if_pos (by simp only [List.length_append, List.length_cons]; omega)]
    simp
  rw [hs]; rfl

theorem encodeTextRow_cons_len (c : Option Bytes) (cs : List (Option Bytes)) :
    (encodeTextRow cs).length ≤ (encodeTextRow (c :: cs)).length := by
  cases c <;> simp [encodeTextRow]

theorem parseTextLoop_encode (ops : FloatOps) (fields : List Field) (cells : List (Option Bytes)) (pre : Bytes)
    (hcnt : cells.length = fields.length) (hlen : (pre ++ encodeTextRow cells).length < 2 ^ 63) :
    parseTextLoop ops (pre ++ encodeTextRow cells) fields pre.length = convertCells ops fields cells := by
  induction fields generalizing cells pre with
  | nil => simp [parseTextLoop, convertCells]
  | cons f fs ih =>
    cases cells with
    | nil => simp at hcnt
    | cons c cs =>
      simp only [List.length_cons, Nat.add_right_cancel_iff] at hcnt
      cases c with
      | none =>
        simp only [encodeTextRow, parseTextLoop, convertCells]
        rw [null_cell_read]
        simp only [if_true]
        have e : pre ++ 0xfb :: encodeTextRow cs = (pre ++ [0xfb]) ++ encodeTextRow cs := by simp
        have hp : ((pre.length : Int) + 1) = (((pre ++ [0xfb]).length : Nat) : Int) := by simp
        rw [e, hp, ih cs (pre ++ [0xfb]) hcnt (by rw [← e]; simpa [encodeTextRow] using hlen)]
        cases convertCells ops fs cs <;> rfl
      | some v =>
        simp only [encodeTextRow, parseTextLoop, convertCells]
        have hv : v.length < 2 ^ 63 := by
          simp only [encodeTextRow, appendLenEncStringBytes, List.length_append] at hlen; omega
        have e : pre ++ (appendLenEncStringBytes v ++ encodeTextRow cs)
            = pre ++ appendLenEncStringBytes v ++ encodeTextRow cs := by simp
        rw [e, GaeaVerif.C12.lenenc_str_roundtrip pre (encodeTextRow cs) v hv]
        simp only [Bool.false_eq_true, if_false]
        have hp : ((pre.length : Int) + lenEncIntSize v.length + v.length)
            = (((pre ++ appendLenEncStringBytes v).length : Nat) : Int) := by
          simp only [appendLenEncStringBytes, List.length_append, GaeaVerif.C12.appendLenEncInt_length]; omega
        rw [hp, ih cs (pre ++ appendLenEncStringBytes v) hcnt (by rw [← e]; simpa [encodeTextRow] using hlen)]
        cases parseTextValue ops f v with
        | err e => rfl
        | ok x => cases convertCells ops fs cs <;> rfl

theorem parseText_encode (ops : FloatOps) (fields : List Field) (cells : List (Option Bytes))
    (hcnt : cells.length = fields.length) (hlen : (encodeTextRow cells).length < 2 ^ 63) :
    parseText ops (encodeTextRow cells) fields = convertCells ops fields cells := by
  have := parseTextLoop_encode ops fields cells [] hcnt (by simpa using hlen)
  simpa [parseText] using this

/-! ### `BuildBinaryResultset`: payload and null bitmap -/

/-- The encodings of the non-NULL values of a row, in column order. -/
def encodeVals (ops : FloatOps) : List Field → List GoVal → Res Bytes
  | _, [] => .ok []
  | [], _ :: _ => .err .panic
  | f :: fs, v :: vs =>
    if v = GoVal.nil then encodeVals ops fs vs
    else if !integerFitsColumn f v then .err .intRange
    else
      match appendBinaryValue ops f.typ v with
      | .err e => .err e
      | .ok b =>
        match encodeVals ops fs vs with
        | .err e => .err e
        | .ok bs => .ok (b ++ bs)

/-- Bit `k` of a bitmap held as a list of byte values. -/
def bitAt (bm : List Nat) (k : Nat) : Bool := (bm.getD (k / 8) 0).testBit (k % 8)

theorem setNullBit_spec (bm bm' : List Nat) (j : Nat) (h : setNullBit bm j = some bm')
    (hb : ∀ x ∈ bm, x < 256) :
    bm'.length = bm.length ∧ (∀ x ∈ bm', x < 256) ∧ ∀ k, bitAt bm' k = (bitAt bm k || decide (k = j + 2)) := by
  unfold setNullBit at h
  simp only at h
  split at h
  · rename_i hpos
    simp only [Option.some.injEq] at h
    subst h
    refine ⟨by simp, ?_, ?_⟩
    · intro x hx
      rcases List.mem_or_eq_of_mem_set hx with h | h
      · exact hb x h
      · subst h
        have h1 : bm.getD ((j + 2) / 8) 0 < 2 ^ 8 := by
          rw [List.getD_eq_getElem?_getD, List.getElem?_eq_getElem hpos]
          exact hb _ (List.getElem_mem hpos)
        have h2 : 1 <<< ((j + 2) % 8) < 2 ^ 8 := by
          rw [Nat.one_shiftLeft]; exact Nat.pow_lt_pow_right (by decide) (by omega)
        exact Nat.or_lt_two_pow h1 h2
    · intro k
      unfold bitAt
      by_cases hk : k / 8 = (j + 2) / 8
      · rw [hk, List.getD_eq_getElem?_getD (l := List.set _ _ _), List.getElem?_set_self (by simpa using hpos)]
        simp only [Option.getD_some, Nat.testBit_or, Nat.one_shiftLeft, Nat.testBit_two_pow]
        congr 1
        by_cases hm : (j + 2) % 8 = k % 8
        · have : k = j + 2 := by omega
          simp [hm, this]
        · have : k ≠ j + 2 := by intro e; subst e; exact hm rfl
          simp [hm, this]
      · rw [List.getD_eq_getElem?_getD (l := List.set _ _ _), List.getElem?_set_ne (by omega)]
        have : k ≠ j + 2 := by intro e; subst e; exact hk rfl
        simp [this, List.getD_eq_getElem?_getD]
  · simp at h

theorem buildRowLoop_spec (ops : FloatOps) (fields : List Field) (vals : List GoVal) (j : Nat)
    (payload : Bytes) (bm : List Nat) (p' : Bytes) (bm' : List Nat)
    (h : buildRowLoop ops fields vals j payload bm = .ok (p', bm'))
    (hb : ∀ x ∈ bm, x < 256) :
    (∃ enc, encodeVals ops fields vals = .ok enc ∧ p' = payload ++ enc)
    ∧ bm'.length = bm.length ∧ (∀ x ∈ bm', x < 256)
    ∧ ∀ k, bitAt bm' k = (bitAt bm k || decide (j + 2 ≤ k ∧ vals[k - (j + 2)]? = some GoVal.nil)) := by
  induction vals generalizing fields j payload bm with
  | nil =>
    simp only [buildRowLoop, Res.ok.injEq, Prod.mk.injEq] at h
    obtain ⟨h1, h2⟩ := h; subst h1; subst h2
    refine ⟨⟨[], by simp [encodeVals], by simp⟩, rfl, hb, ?_⟩
    intro k; simp
  | cons v vs ih =>
    cases fields with
    | nil => simp [buildRowLoop] at h
    | cons f fs =>
      simp only [buildRowLoop] at h
      by_cases hv : v = GoVal.nil
      · simp only [hv, if_true] at h
        cases hs : setNullBit bm j with
        | none => simp [hs] at h
        | some bm1 =>
          simp only [hs] at h
          obtain ⟨hl1, hb1, hbit1⟩ := setNullBit_spec bm bm1 j hs hb
          obtain ⟨⟨enc, henc, hp⟩, hl, hb', hbit⟩ := ih fs (j + 1) payload bm1 h hb1
          refine ⟨⟨enc, by simp [encodeVals, hv, henc], hp⟩, by omega, hb', ?_⟩
          intro k
          rw [hbit k, hbit1 k, Bool.or_assoc]
          congr 1
          by_cases hk : k = j + 2
          · subst hk; simp [hv]
          · by_cases hk2 : j + 2 ≤ k
            · have e : k - (j + 2) = (k - (j + 1 + 2)) + 1 := by omega
              rw [e, List.getElem?_cons_succ]
              simp [hk, hk2]; omega
            · simp [hk, hk2]; omega
      · simp only [hv, if_false] at h
        cases hfit : integerFitsColumn f v with
        | false => simp [hfit] at h
        | true =>
        simp only [hfit, Bool.not_true, Bool.false_eq_true, if_false] at h
        cases ha : appendBinaryValue ops f.typ v with
        | err e => simp [ha] at h
        | ok b =>
          simp only [ha] at h
          obtain ⟨⟨enc, henc, hp⟩, hl, hb', hbit⟩ := ih fs (j + 1) (payload ++ b) bm h hb
          refine ⟨⟨b ++ enc, by simp [encodeVals, hv, hfit, ha, henc], by rw [hp]; simp⟩, hl, hb', ?_⟩
          intro k
          rw [hbit k]
          congr 1
          by_cases hk : k = j + 2
          · subst hk; simp [hv]
          · by_cases hk2 : j + 2 ≤ k
            · have e : k - (j + 2) = (k - (j + 1 + 2)) + 1 := by omega
              rw [e, List.getElem?_cons_succ]
              simp [hk2]; omega
            · simp [hk2]; omega

theorem parseTextValue_ne_nil (ops : FloatOps) (f : Field) (c : Bytes) (x : GoVal)
    (h : parseTextValue ops f c = .ok x) : x ≠ GoVal.nil := by
  unfold parseTextValue at h
  intro e; subst e
  repeat' split at h
  all_goals simp at h

/-- Which values of a row are NULL. -/
def nullFlags (vals : List GoVal) : List Bool := vals.map fun v => decide (v = GoVal.nil)

theorem decodeCols_correct (ops : FloatOps) (hops : FloatOpsOk ops) (fields : List Field)
    (cells : List (Option Bytes)) (vals : List GoVal) (enc : Bytes) (ds : List Val) (rest : Bytes)
    (hconv : convertCells ops fields cells = .ok vals) (henc : encodeVals ops fields vals = .ok enc)
    (hden : denoteRow ops fields cells = some ds)
    (hlen : ∀ v, some v ∈ cells → v.length < 2 ^ 62) :
    ∃ vs, decodeCols fields (nullFlags vals) (enc ++ rest) = some (vs, rest) ∧ sameRow vs ds = true := by
  induction fields generalizing cells vals enc ds with
  | nil =>
    cases cells with
    | cons c cs => simp [denoteRow] at hden
    | nil =>
      simp [convertCells] at hconv; subst hconv
      simp [encodeVals] at henc; subst henc
      simp [denoteRow] at hden; subst hden
      exact ⟨[], by simp [decodeCols], rfl⟩
  | cons f fs ih =>
    cases cells with
    | nil => simp [denoteRow] at hden
    | cons c cs =>
      simp only [denoteRow] at hden
      cases hd : denoteText ops f c with
      | none => simp [hd] at hden
      | some d =>
        cases hds : denoteRow ops fs cs with
        | none => simp [hd, hds] at hden
        | some ds' =>
          simp only [hd, hds, Option.some.injEq] at hden
          subst hden
          have hlen' : ∀ v, some v ∈ cs → v.length < 2 ^ 62 := fun v hv => hlen v (by simp [hv])
          simp only [convertCells] at hconv
          cases c with
          | none =>
            simp only at hconv
            cases hc : convertCells ops fs cs with
            | err e => simp [hc] at hconv
            | ok xs =>
              simp only [hc, Res.ok.injEq] at hconv
              subst hconv
              simp only [encodeVals, if_true] at henc
              obtain ⟨vs, hdec, hsame⟩ := ih cs xs enc ds' hc henc hds hlen'
              simp only [denoteText, Option.some.injEq] at hd
              subst hd
              refine ⟨Val.null :: vs, ?_, ?_⟩
              · simp [nullFlags, decodeCols] at hdec ⊢
                rw [hdec]
              · simp [sameRow, hsame, Val.same]
          | some cell =>
            simp only at hconv
            cases hp : parseTextValue ops f cell with
            | err e => simp [hp] at hconv
            | ok x =>
              cases hc : convertCells ops fs cs with
              | err e => simp [hp, hc] at hconv
              | ok xs =>
                simp only [hp, hc, Res.ok.injEq] at hconv
                subst hconv
                have hx := parseTextValue_ne_nil ops f cell x hp
                simp only [encodeVals, hx, if_false] at henc
                cases hfit : integerFitsColumn f x with
                | false => simp [hfit] at henc
                | true =>
                simp only [hfit, Bool.not_true, Bool.false_eq_true, if_false] at henc
                cases ha : appendBinaryValue ops f.typ x with
                | err e => simp [ha] at henc
                | ok b =>
                  cases he : encodeVals ops fs xs with
                  | err e => simp [ha, he] at henc
                  | ok bs =>
                    simp only [ha, he, Res.ok.injEq] at henc
                    subst henc
                    obtain ⟨vs, hdec, hsame⟩ := ih cs xs bs ds' hc he hds hlen'
                    obtain ⟨v', hv', hs'⟩ := col_correct ops hops f cell d x b (bs ++ rest)
                      (hlen cell (by simp)) hd hp ha
                    refine ⟨v' :: vs, ?_, ?_⟩
                    · simp only [nullFlags, List.map_cons, hx, decide_false, decodeCols, Bool.false_eq_true,
                        if_false, List.append_assoc, hv']
                      simp only [nullFlags] at hdec
                      rw [hdec]; rfl
                    · simp [sameRow, hsame, hs']

theorem bitAt_replicate (L k : Nat) : bitAt (List.replicate L 0) k = false := by
  unfold bitAt
  have : (List.replicate L 0).getD (k / 8) 0 = 0 := by
    rw [List.getD_eq_getElem?_getD]
    by_cases h : k / 8 < L
    · simp [h]
    · simp [h]
  rw [this]; simp

theorem nullBit_map (bm : List Nat) (hb : ∀ x ∈ bm, x < 256) (i : Nat) :
    nullBit (bm.map UInt8.ofNat) i = bitAt bm (i + 2) := by
  unfold nullBit bitAt
  congr 1
  rw [List.getD_eq_getElem?_getD, List.getD_eq_getElem?_getD, List.getElem?_map]
  cases h : bm[(i + 2) / 8]? with
  | none => simp
  | some x =>
    simp only [Option.map_some, Option.getD_some]
    exact GaeaVerif.C12.ofNat_toNat x (hb x (List.mem_of_getElem? h))

theorem range_nullFlags (vals : List GoVal) :
    (List.range vals.length).map (fun i => decide (vals[i]? = some GoVal.nil)) = nullFlags vals := by
  apply List.ext_getElem
  · simp [nullFlags]
  · intro i h1 h2
    simp [nullFlags] at h1 h2 ⊢
    simp [List.getElem?_eq_getElem h2]

/-- The binary row built from `vals`: header, bitmap, payload — and what the
    spec decoder makes of it. -/
theorem buildBinaryRow_shape (ops : FloatOps) (fields : List Field) (vals : List GoVal) (out : Bytes)
    (h : buildBinaryRow ops fields vals = .ok out) :
    ∃ (bm : Bytes) (enc : Bytes), out = 0 :: (bm ++ enc) ∧ bm.length = (fields.length + 7 + 2) / 8
      ∧ vals.length = fields.length ∧ encodeVals ops fields vals = .ok enc
      ∧ ∀ i, nullBit bm i = decide (vals[i]? = some GoVal.nil) := by
  unfold buildBinaryRow at h
  split at h
  · simp at h
  · rename_i hlen
    simp only [ne_eq, Decidable.not_not] at hlen
    cases hl : buildRowLoop ops fields vals 0 [] (List.replicate ((fields.length + 7 + 2) / 8) 0) with
    | err e => simp [hl] at h
    | ok r =>
      obtain ⟨payload, bm⟩ := r
      simp only [hl, Res.ok.injEq] at h
      obtain ⟨⟨enc, henc, hp⟩, hbl, hb, hbit⟩ := buildRowLoop_spec ops fields vals 0 [] _ payload bm hl
        (by intro x hx; rw [List.mem_replicate] at hx; omega)
      refine ⟨bm.map UInt8.ofNat, enc, ?_, by simp [hbl], hlen, henc, ?_⟩
      · rw [← h, hp]; simp
      · intro i
        rw [nullBit_map bm hb i, hbit (i + 2), bitAt_replicate]
        simp

theorem denoteRow_len (ops : FloatOps) (fields : List Field) (cells : List (Option Bytes)) (ds : List Val)
    (h : denoteRow ops fields cells = some ds) : cells.length = fields.length := by
  induction fields generalizing cells ds with
  | nil => cases cells <;> simp [denoteRow] at h ⊢
  | cons f fs ih =>
    cases cells with
    | nil => simp [denoteRow] at h
    | cons c cs =>
      simp only [denoteRow] at h
      cases hd : denoteText ops f c with
      | none => simp [hd] at h
      | some d =>
        cases hds : denoteRow ops fs cs with
        | none => simp [hd, hds] at h
        | some ds' => simp [ih cs ds' hds]

theorem cell_len_le (cells : List (Option Bytes)) (v : Bytes) (h : some v ∈ cells) :
    v.length ≤ (encodeTextRow cells).length := by
  induction cells with
  | nil => simp at h
  | cons c cs ih =>
    rcases List.mem_cons.1 h with e | e
    · subst e; simp [encodeTextRow, appendLenEncStringBytes]; omega
    · have := ih e
      have := encodeTextRow_cons_len c cs
      omega

/-! ### no run-time panic -/

theorem binaryValueBytes_no_panic (ops : FloatOps) (ty : Nat) (v : GoVal) :
    binaryValueBytes ops ty v ≠ .err .panic := by
  cases v <;> simp only [binaryValueBytes, datetimeBytes, durationBytes] <;> (repeat' split) <;> simp

theorem appendBinaryValue_no_panic (ops : FloatOps) (ty : Nat) (v : GoVal) :
    appendBinaryValue ops ty v ≠ .err .panic := by
  unfold appendBinaryValue
  have := binaryValueBytes_no_panic ops ty v
  cases h : binaryValueBytes ops ty v with
  | err e => rw [h] at this; simpa using this
  | ok t => simp only; (repeat' split) <;> simp

theorem parseTextValue_no_panic (ops : FloatOps) (f : Field) (c : Bytes) :
    parseTextValue ops f c ≠ .err .panic := by
  unfold parseTextValue
  (repeat' split) <;> simp

theorem parseTextLoop_no_panic (ops : FloatOps) (p : Bytes) (fields : List Field) (pos : Int) :
    parseTextLoop ops p fields pos ≠ .err .panic := by
  induction fields generalizing pos with
  | nil => simp [parseTextLoop]
  | cons f fs ih =>
    unfold parseTextLoop
    have hb := GaeaVerif.C12.readLenEncStringAsBytes_in_bounds p pos
    cases hr : readLenEncStringAsBytes p pos with
    | fail => simp
    | panic => rw [hr] at hb; exact hb.elim
    | ok a =>
      obtain ⟨v, pos', isNull⟩ := a
      simp only
      have h1 := parseTextValue_no_panic ops f v
      have h2 := ih pos'
      cases isNull
      · simp only [Bool.false_eq_true, if_false]
        cases hv : parseTextValue ops f v with
        | err e => rw [hv] at h1; simpa using h1
        | ok x =>
          simp only
          cases hl : parseTextLoop ops p fs pos' with
          | err e => rw [hl] at h2; simpa using h2
          | ok xs => simp
      · simp only [if_true]
        cases hl : parseTextLoop ops p fs pos' with
        | err e => rw [hl] at h2; simpa using h2
        | ok xs => simp

theorem buildRowLoop_no_panic (ops : FloatOps) (fields : List Field) (vals : List GoVal) (j : Nat)
    (payload : Bytes) (bm : List Nat) (hlen : vals.length = fields.length)
    (hbm : (j + vals.length + 1) / 8 < bm.length) :
    buildRowLoop ops fields vals j payload bm ≠ .err .panic := by
  induction vals generalizing fields j payload bm with
  | nil => simp [buildRowLoop]
  | cons v vs ih =>
    cases fields with
    | nil => simp at hlen
    | cons f fs =>
      simp only [List.length_cons, Nat.add_right_cancel_iff] at hlen
      simp only [List.length_cons] at hbm
      simp only [buildRowLoop]
      split
      · have hpos : (j + 2) / 8 < bm.length := by
          have : (j + 2) / 8 ≤ (j + (vs.length + 1) + 1) / 8 := Nat.div_le_div_right (by omega)
          omega
        simp only [setNullBit, hpos, if_true]
        apply ih fs (j + 1) payload _ hlen
        simp; rw [show j + 1 + vs.length + 1 = j + (vs.length + 1) + 1 by omega]; exact hbm
      · split
        · simp
        have h1 := appendBinaryValue_no_panic ops f.typ v
        cases ha : appendBinaryValue ops f.typ v with
        | err e => rw [ha] at h1; simpa using h1
        | ok b =>
          simp only
          apply ih fs (j + 1) (payload ++ b) bm hlen
          rw [show j + 1 + vs.length + 1 = j + (vs.length + 1) + 1 by omega]; exact hbm

end GaeaVerif.C13
