import GaeaVerif.Model.BinRow
import GaeaVerif.Spec.BinProto
import GaeaVerif.Props.C12
import Mathlib.Tactic.Ring
import Mathlib.Tactic.Linarith
/-
  C13 helper lemmas: decimal digit strings (`decVal`, `natToDec`), little-endian
  bytes, the spec's length-encoded reader against the model's writer, trailing
  zero trimming, splitting at the decimal point.
-/
namespace GaeaVerif.C13
open GaeaVerif GaeaVerif.BinRow GaeaVerif.BinProto GaeaVerif.LenEnc

theorem decFold_eq (acc : Nat) (s : Bytes) :
    s.foldl (fun n c => n * 10 + digVal c) acc = acc * 10 ^ s.length + decVal s := by
  induction s generalizing acc with
  | nil => simp [decVal]
  | cons c cs ih =>
    simp only [decVal, List.foldl_cons, List.length_cons]
    rw [ih, ih (0 * 10 + digVal c)]
    ring

theorem decVal_nil : decVal [] = 0 := rfl

theorem decVal_cons (c : UInt8) (s : Bytes) : decVal (c :: s) = digVal c * 10 ^ s.length + decVal s := by
  simp only [decVal, List.foldl_cons]
  rw [decFold_eq]; simp [decVal]

theorem decVal_append (a b : Bytes) : decVal (a ++ b) = decVal a * 10 ^ b.length + decVal b := by
  induction a with
  | nil => simp [decVal_nil]
  | cons c cs ih =>
    simp only [List.cons_append, decVal_cons, ih, List.length_append]
    ring

theorem digVal_lt (c : UInt8) (h : isDigit c = true) : digVal c < 10 := by
  simp [isDigit, digVal] at *
  have h1 := h.1; have h2 := h.2
  rw [UInt8.le_iff_toNat_le] at h1 h2
  simp at h1 h2; omega

theorem decVal_lt (s : Bytes) (h : s.all isDigit = true) : decVal s < 10 ^ s.length := by
  induction s with
  | nil => simp [decVal_nil]
  | cons c cs ih =>
    simp only [List.all_cons, Bool.and_eq_true] at h
    have := digVal_lt c h.1
    have := ih h.2
    rw [decVal_cons, List.length_cons, Nat.pow_succ]
    nlinarith

theorem decVal_replicate_zero (k : Nat) : decVal (List.replicate k 48) = 0 := by
  induction k with
  | zero => rfl
  | succ k ih => simp [List.replicate_succ, decVal_cons, ih, digVal]

theorem ofNat48_digit (n : Nat) (h : n < 10) : isDigit (UInt8.ofNat (48 + n)) = true ∧ digVal (UInt8.ofNat (48 + n)) = n := by
  have : n = 0 ∨ n = 1 ∨ n = 2 ∨ n = 3 ∨ n = 4 ∨ n = 5 ∨ n = 6 ∨ n = 7 ∨ n = 8 ∨ n = 9 := by omega
  rcases this with h | h | h | h | h | h | h | h | h | h <;> subst h <;> decide

theorem natToDecAux_val (fuel n : Nat) (acc : Bytes) (h : n < fuel) :
    decVal (natToDecAux fuel n acc) = n * 10 ^ acc.length + decVal acc := by
  induction fuel generalizing n acc with
  | zero => omega
  | succ fuel ih =>
    unfold natToDecAux
    split
    · rename_i h10
      rw [decVal_cons, (ofNat48_digit n h10).2]
    · rename_i h10
      rw [ih (n / 10) _ (by omega), decVal_cons, (ofNat48_digit (n % 10) (by omega)).2, List.length_cons, Nat.pow_succ]
      have : n = 10 * (n / 10) + n % 10 := by omega
      generalize n / 10 = q at *
      generalize n % 10 = r at *
      subst this
      ring

theorem natToDecAux_digits (fuel n : Nat) (acc : Bytes) (hacc : acc.all isDigit = true) :
    (natToDecAux fuel n acc).all isDigit = true := by
  induction fuel generalizing n acc with
  | zero => simpa [natToDecAux] using hacc
  | succ fuel ih =>
    unfold natToDecAux
    split
    · rename_i h10
      rw [List.all_cons, (ofNat48_digit n h10).1, hacc]; rfl
    · apply ih
      rw [List.all_cons, (ofNat48_digit (n % 10) (by omega)).1, hacc]; rfl

theorem natToDecAux_len (fuel n : Nat) (acc : Bytes) (h : 0 < fuel) :
    acc.length < (natToDecAux fuel n acc).length := by
  induction fuel generalizing n acc with
  | zero => omega
  | succ fuel ih =>
    unfold natToDecAux
    split
    · simp
    · rename_i h10
      by_cases hf : fuel = 0
      · subst hf; simp [natToDecAux]
      · have := ih (n / 10) (UInt8.ofNat (48 + n % 10) :: acc) (by omega)
        rw [List.length_cons] at this; omega

theorem decVal_natToDec (n : Nat) : decVal (natToDec n) = n := by
  unfold natToDec; rw [natToDecAux_val _ _ _ (by omega)]; simp [decVal]

theorem natToDec_digits (n : Nat) : (natToDec n).all isDigit = true :=
  natToDecAux_digits _ _ _ (by simp)

theorem natToDec_ne_nil (n : Nat) : natToDec n ≠ [] := by
  have := natToDecAux_len (n + 1) n [] (by omega)
  intro h; unfold natToDec at h; rw [h] at this; simp at this

theorem leBytes_take (n m w : Nat) (h : w ≤ m) : (leBytes n m).take w = leBytes n w := by
  induction w generalizing n m with
  | zero => simp [leBytes]
  | succ w ih =>
    cases m with
    | zero => omega
    | succ m => simp [leBytes, ih _ m (by omega)]

theorem leNat_leBytes_mod (w n : Nat) : leNat (leBytes n w) = n % 256 ^ w := by
  induction w generalizing n with
  | zero => simp [leBytes, leNat, Nat.mod_one]
  | succ w ih =>
    simp only [leBytes, leNat, ih]
    have : (UInt8.ofNat (n % 256)).toNat = n % 256 := by simp [UInt8.toNat_ofNat']
    rw [this, Nat.pow_succ, Nat.mul_comm (256 ^ w) 256, Nat.mod_mul]

theorem takeN_append (a rest : Bytes) : takeN a.length (a ++ rest) = some (a, rest) := by
  simp [takeN]

theorem takeN_append' (a rest : Bytes) (n : Nat) (h : n = a.length) : takeN n (a ++ rest) = some (a, rest) := by
  subst h; exact takeN_append a rest

theorem takeLenEnc_append (b rest : Bytes) (h : b.length < 2 ^ 64) :
    takeLenEnc (appendLenEncStringBytes b ++ rest) = some (b, rest) := by
  unfold appendLenEncStringBytes appendLenEncInt
  split
  · rename_i h1
    simp only [List.cons_append, List.nil_append, takeLenEnc]
    have : (UInt8.ofNat b.length).toNat = b.length := GaeaVerif.C12.ofNat_toNat _ (by omega)
    rw [this, if_pos (by omega)]
    exact takeN_append b rest
  · split
    · rename_i h1 h2
      have hl := GaeaVerif.C12.leNat_leBytes 2 b.length (by omega)
      simp only [List.cons_append, List.append_assoc, takeLenEnc]
      rw [if_neg (by decide)]
      simp only [if_true]
      rw [takeN_append' (leBytes b.length 2) (b ++ rest) 2 (by simp [GaeaVerif.C12.leBytes_length])]
      simp only [if_neg (show ¬ (2 = 0) by decide)]
      rw [hl]; exact takeN_append b rest
    · split
      · rename_i h1 h2 h3
        have hl := GaeaVerif.C12.leNat_leBytes 3 b.length (by omega)
        simp only [List.cons_append, List.append_assoc, takeLenEnc]
        rw [if_neg (by decide)]
        simp only [show ((0xfd : UInt8) = 0xfc) = False from by simp, if_false, if_true]
        rw [takeN_append' (leBytes b.length 3) (b ++ rest) 3 (by simp [GaeaVerif.C12.leBytes_length])]
        simp only [if_neg (show ¬ (3 = 0) by decide)]
        rw [hl]; exact takeN_append b rest
      · rename_i h1 h2 h3
        have hl := GaeaVerif.C12.leNat_leBytes 8 b.length (by omega)
        simp only [List.cons_append, List.append_assoc, takeLenEnc]
        rw [if_neg (by decide)]
        simp only [show ((0xfe : UInt8) = 0xfc) = False from by simp, show ((0xfe : UInt8) = 0xfd) = False from by simp, if_false, if_true]
        rw [takeN_append' (leBytes b.length 8) (b ++ rest) 8 (by simp [GaeaVerif.C12.leBytes_length])]
        simp only [if_neg (show ¬ (8 = 0) by decide)]
        rw [hl]; exact takeN_append b rest

theorem dropWhile_zero_spec (l : Bytes) :
    ∃ k, l = List.replicate k 48 ++ l.dropWhile (· == 48) := by
  induction l with
  | nil => exact ⟨0, rfl⟩
  | cons c cs ih =>
    by_cases hc : c = 48
    · subst hc
      obtain ⟨k, hk⟩ := ih
      refine ⟨k + 1, ?_⟩
      simp only [List.dropWhile_cons, beq_self_eq_true, if_true, List.replicate_succ, List.cons_append]
      rw [← hk]
    · refine ⟨0, ?_⟩
      simp [hc]

theorem trim_spec (s : Bytes) : ∃ k, s = trimTrailingZeros s ++ List.replicate k 48 := by
  obtain ⟨k, hk⟩ := dropWhile_zero_spec s.reverse
  refine ⟨k, ?_⟩
  unfold trimTrailingZeros
  have := congrArg List.reverse hk
  simp only [List.reverse_reverse, List.reverse_append, List.reverse_replicate] at this
  exact this

theorem all_of_append_left {p : UInt8 → Bool} {a b : Bytes} (h : (a ++ b).all p = true) : a.all p = true := by
  simp only [List.all_append, Bool.and_eq_true] at h; exact h.1

theorem trim_digits (s : Bytes) (h : s.all isDigit = true) : (trimTrailingZeros s).all isDigit = true := by
  obtain ⟨k, hk⟩ := trim_spec s
  rw [hk] at h
  exact all_of_append_left h

theorem isDigit_ne_dot (c : UInt8) (h : isDigit c = true) : c ≠ 46 := by
  intro e; subst e; simp [isDigit] at h

theorem splitDot_digits (a : Bytes) (h : a.all isDigit = true) : splitDot a = none := by
  induction a with
  | nil => rfl
  | cons c cs ih =>
    simp only [List.all_cons, Bool.and_eq_true] at h
    simp [splitDot, isDigit_ne_dot c h.1, ih h.2]

theorem splitDot_append (a b : Bytes) (h : a.all isDigit = true) : splitDot (a ++ 46 :: b) = some (a, b) := by
  induction a with
  | nil => simp [splitDot]
  | cons c cs ih =>
    simp only [List.all_cons, Bool.and_eq_true] at h
    simp [splitDot, isDigit_ne_dot c h.1, ih h.2]

end GaeaVerif.C13
