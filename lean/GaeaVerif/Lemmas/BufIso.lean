import GaeaVerif.Lemmas.BufOwn
/-
  Isolation of the sessions that share the packet buffer pool (Model/BufOwn.lean):
  what a session observes in any interleaving is what it observes alone.
  Used by Props/C38.lean.
-/
namespace GaeaVerif.BufOwn
open GaeaVerif

/-! ### a session's state up to the names of its buffers -/

def Rd.norm : Rd → Rd
  | .data _ len => .data 0 len
  | r => r

theorem Rd.ok_of_norm {a b : Rd} (h : a.norm = b.norm) : a.ok = b.ok := by
  cases a <;> cases b <;> simp_all [Rd.norm, Rd.ok]

/-- the number of body bytes received never exceeds the packet's length -/
def FillOk (s : Sess) : Prop := s.filled ≤ s.conn.len

/-- Session `t` over memory `m'` is session `s` over memory `m` with other
    names for its buffers, and what has arrived of the packet `s` is reading
    has arrived for `t` as well. -/
def Rel (m : Mem) (s : Sess) (m' : Mem) (t : Sess) : Prop :=
  ∃ (cur' : Option Nat) (rd' : Rd),
    t = { s with conn := { s.conn with cur := cur' }, rd := rd' } ∧
    s.conn.cur.isSome = cur'.isSome ∧ s.rd.norm = rd'.norm ∧
    (∀ (a a' : Nat) (b b' : Buf), s.conn.cur = some a → cur' = some a' → m.bufs[a]? = some b → m'.bufs[a']? = some b' →
      b.data.take s.filled = b'.data.take s.filled)

theorem rel_init : Rel Mem.init Sess.init Mem.init Sess.init :=
  ⟨none, .none, rfl, rfl, rfl, fun _ _ _ _ h => by simp [Sess.init, Conn.init] at h⟩

theorem contCore_filled (cfg : Cfg) (pkt : Bytes) (res : AuthRef → Bytes) (s : Sess) (c : Cont) (rest : List Instr) :
    (contCore cfg pkt res s c rest).1.filled = s.filled ∧ (contCore cfg pkt res s c rest).1.rd = s.rd := by
  unfold contCore
  simp only [died]
  repeat' split
  all_goals exact ⟨rfl, rfl⟩

/-- a continuation that does not look at the packet does not depend on it -/
theorem contCore_pkt (cfg : Cfg) (pkt pkt' : Bytes) (res : AuthRef → Bytes) (s : Sess) (c : Cont) (rest : List Instr)
    (h : c.reads = false) : contCore cfg pkt res s c rest = contCore cfg pkt' res s c rest := by
  cases c <;> first | rfl | (simp [Cont.reads] at h)

/-- with no slice kept, a continuation does not depend on how slices are read -/
theorem contCore_res (cfg : Cfg) (pkt : Bytes) (res res' : AuthRef → Bytes) (s : Sess) (c : Cont) (rest : List Instr)
    (hno : s.hs.buf = Option.none) (h : ∀ b, res (.own b) = res' (.own b)) :
    contCore cfg pkt res s c rest = contCore cfg pkt res' s c rest := by
  have hv : s.hs.view res = s.hs.view res' := by
    cases hs : s.hs with
    | info i a =>
      cases a with
      | own b => simp [HsRes.view, h]
      | alias id off len => simp [hs, HsRes.buf] at hno
    | _ => rfl
  cases c <;> simp only [contCore, hv]
  · -- check
    cases hs : s.hs with
    | info i a =>
      cases a with
      | own b => simp only [h]
      | alias id off len => simp [hs, HsRes.buf] at hno
    | _ => rfl
  · -- hsTail
    cases hs : s.hs with
    | info i a =>
      cases a with
      | own b => simp only [h]
      | alias id off len => simp [hs, HsRes.buf] at hno
    | _ => rfl


/-- `s` with other names for its buffers -/
def Sess.rename (s : Sess) (cur' : Option Nat) (rd' : Rd) : Sess :=
  { s with conn := { s.conn with cur := cur' }, rd := rd' }

/-- With the copies of the repaired source, a continuation does the same to a
    session whatever the names of its buffers are. -/
theorem contCore_rename (cfg : Cfg) (hsw : cfg.v.copySwitch = true) (hnl : cfg.v.copyNull = true) (pkt : Bytes)
    (res : AuthRef → Bytes) (s : Sess) (cur' : Option Nat) (rd' : Rd) (c : Cont) (rest : List Instr)
    (hrd : s.rd.norm = rd'.norm) :
    contCore cfg pkt res (s.rename cur' rd') c rest =
      ((contCore cfg pkt res s c rest).1.rename cur' rd', (contCore cfg pkt res s c rest).2) := by
  have hok : rd'.ok = s.rd.ok := (Rd.ok_of_norm hrd).symm
  cases c with
  | doneGreet => rfl
  | doneResp => rfl
  | doneHs => rfl
  | loop => rfl
  | closed => rfl
  | check =>
    cases hu : s.hsUnused
    · simp [contCore, Sess.rename, hu]
    · cases hh : s.hs with
      | none => simp [contCore, Sess.rename, hu, hh]
      | io => simp [contCore, Sess.rename, hu, hh]
      | err e => simp [contCore, Sess.rename, hu, hh]
      | info i a =>
        simp only [contCore, Sess.rename, hu, hh, died, Bool.not_true, Bool.false_eq_true, if_false]
        generalize Crash.handleHandshakeAuth cfg.cv cfg.known cfg.hashed _ = q
        cases q <;> rfl
  | hsTail =>
    cases hh : s.hs with
    | none => simp [contCore, Sess.rename, hh]
    | io => simp [contCore, Sess.rename, hh]
    | err e => simp [contCore, Sess.rename, hh]
    | info i a =>
      simp only [contCore, Sess.rename, hh, died]
      generalize Crash.handleHandshakeAuth cfg.cv cfg.known cfg.hashed _ = q
      cases q <;> rfl
  | hs1 =>
    cases hk : s.rd.ok
    · simp [contCore, Sess.rename, hk, hok]
    · simp only [contCore, Sess.rename, hk, hok, died, hnl, Bool.or_true, if_true]
      generalize Crash.readHandshakeResponse cfg.plugin pkt none = q
      cases q with
      | err e => cases e <;> rfl
      | info i => rfl
      | panic => rfl
  | hs2 =>
    cases hk : s.rd.ok
    · simp [contCore, Sess.rename, hk, hok]
    · simp only [contCore, Sess.rename, hk, hok, died, hsw, if_true]
      generalize Crash.readHandshakeResponse cfg.plugin s.first (some pkt) = q
      cases q with
      | err e => rfl
      | info i => rfl
      | panic => rfl
  | cmd =>
    cases hk : s.rd.ok
    · simp [contCore, Sess.rename, hk, hok]
    · cases pkt with
      | nil => simp [contCore, Sess.rename, hk, hok]
      | cons c d =>
        simp only [contCore, Sess.rename, hk, hok, if_true]
        generalize Crash.executeCommand cfg.cv cfg.allowed s.st c d = q
        obtain ⟨st', r⟩ := q
        cases r <;> rfl


/-! ### one step of a session and of its copy -/

/-- the packet a continuation looks at is the same for a session and its copy -/
theorem rel_view {m m' : Mem} {s : Sess} {cur' : Option Nat} {rd' : Rd} (hh : Held m s.conn)
    (hh' : Held m' { s.conn with cur := cur' }) (hv : ViewOk s) (hv' : ViewOk (s.rename cur' rd'))
    (hr : s.rd.norm = rd'.norm)
    (hd : ∀ (a a' : Nat) (b b' : Buf), s.conn.cur = some a → cur' = some a' → m.bufs[a]? = some b → m'.bufs[a']? = some b' →
      b.data.take s.filled = b'.data.take s.filled) :
    s.rd.view m = rd'.view m' := by
  cases hrd : s.rd with
  | data id len =>
    cases hrd' : rd' with
    | data id' len' =>
      rw [hrd, hrd'] at hr
      simp only [Rd.norm, Rd.data.injEq, true_and] at hr
      subst hr
      obtain ⟨hc, _, hf⟩ := hv id len hrd
      obtain ⟨hc', _, _⟩ := hv' id' len (by simp [Sess.rename, hrd'])
      simp only [Sess.rename] at hc'
      obtain ⟨_, b, hb, _⟩ := hh.cur id hc
      obtain ⟨_, b', hb', _⟩ := hh'.cur id' hc'
      simp only [Rd.view, hb, hb']
      have := hd id id' b b' hc hc' hb hb'
      rw [hf] at this
      exact this
    | none => rw [hrd, hrd'] at hr; simp [Rd.norm] at hr
    | err => rw [hrd, hrd'] at hr; simp [Rd.norm] at hr
    | empty => rw [hrd, hrd'] at hr; simp [Rd.norm] at hr
  | none => cases hrd' : rd' <;> rw [hrd, hrd'] at hr <;> simp [Rd.norm] at hr <;> rfl
  | err => cases hrd' : rd' <;> rw [hrd, hrd'] at hr <;> simp [Rd.norm] at hr <;> rfl
  | empty => cases hrd' : rd' <;> rw [hrd, hrd'] at hr <;> simp [Rd.norm] at hr <;> rfl

/-- outcomes of a step of a session and of the same step of its copy -/
def TickRel : TickR → TickR → Prop
  | .ok m1 s1 o1, .ok m1' t1 o1' => o1 = o1' ∧ Rel m1 s1 m1' t1
  | .blocked, .blocked => True
  | .idle, .idle => True
  | _, _ => False

theorem isSome_none_of_eq {a : Option Nat} {b : Option Nat} (h : a.isSome = b.isSome) (ha : a = none) : b = none := by
  subst ha; cases b <;> simp_all

theorem isSome_some_of_eq {a : Option Nat} {b : Option Nat} {x : Nat} (h : a.isSome = b.isSome) (ha : a = some x) :
    ∃ y, b = some y := by
  subst ha; cases b with
  | none => simp at h
  | some y => exact ⟨y, rfl⟩

theorem tick_rel (cfg : Cfg) (hv : cfg.v = Variant.fixed) {m m' : Mem} {s t : Sess} (hp : PoolOk m) (hh : Held m s.conn)
    (hp' : PoolOk m') (hh' : Held m' t.conn) (hg : Good s) (hg' : Good t) (h : Rel m s m' t) :
    TickRel (tick cfg m s) (tick cfg m' t) := by
  obtain ⟨cur', rd', ht, hc, hr, hd⟩ := h
  have hsw : cfg.v.copySwitch = true := by rw [hv]; rfl
  have hnl : cfg.v.copyNull = true := by rw [hv]; rfl
  unfold tick
  have htt : t.todo = s.todo := by rw [ht]
  rw [htt]
  cases htodo : s.todo with
  | nil => simp [TickRel]
  | cons i rest =>
    subst ht
    cases i with
    | readHdr => simp [TickRel]
    | readBody => simp [TickRel]
    | enter =>
      by_cases hpol : s.conn.policy = .unused
      · have hT : (¬ s.conn.policy = Policy.unused) = False := by simp [hpol]
        simp only [readEnter, hT, if_false, TickRel]
        exact ⟨trivial, cur', rd', rfl, hc, hr, hd⟩
      · have hF : (¬ s.conn.policy = Policy.unused) = True := by simp [hpol]
        simp only [readEnter, hF, if_true, diedT, TickRel]
        exact ⟨trivial, cur', rd', rfl, hc, hr, hd⟩
    | recycle =>
      by_cases hpol : s.conn.policy = .read
      · have hT : (¬ s.conn.policy = Policy.read) = False := by simp [hpol]
        cases hcur : s.conn.cur with
        | none =>
          have hc' := isSome_none_of_eq hc hcur
          subst hc'
          simp only [recycleRead, hT, if_false, hcur, TickRel]
          exact ⟨trivial, none, rd', rfl, by simp [hcur], hr, fun _ _ _ _ _ h => by cases h⟩
        | some a =>
          obtain ⟨a', hc'⟩ := isSome_some_of_eq hc hcur
          subst hc'
          obtain ⟨_, b, hb, _⟩ := hh.cur a hcur
          obtain ⟨_, b', hb', _⟩ := hh'.cur a' rfl
          obtain ⟨m1, hm1⟩ := poolPut_some hp (List.getElem?_eq_some_iff.mp hb).1
          obtain ⟨m1', hm1'⟩ := poolPut_some hp' (List.getElem?_eq_some_iff.mp hb').1
          simp only [recycleRead, hT, if_false, hcur, hm1, hm1', hv, Variant.fixed, if_true, TickRel]
          exact ⟨trivial, none, rd', rfl, rfl, hr, fun _ _ _ _ h => by cases h⟩
      · have hF : (¬ s.conn.policy = Policy.read) = True := by simp [hpol]
        simp only [recycleRead, hF, if_true, diedT, TickRel]
        exact ⟨trivial, cur', rd', rfl, hc, hr, hd⟩
    | start n =>
      by_cases hpol : s.conn.policy = .unused
      · have hT : (¬ s.conn.policy = Policy.unused) = False := by simp [hpol]
        obtain ⟨⟨id, m1⟩, hm1⟩ := poolGet_some hp n
        obtain ⟨⟨id', m1'⟩, hm1'⟩ := poolGet_some hp' n
        simp only [startEphemeral, hT, if_false, hm1, hm1', TickRel]
        exact ⟨trivial, some id', rd', rfl, rfl, hr, fun _ _ _ _ _ _ _ _ => by simp⟩
      · have hF : (¬ s.conn.policy = Policy.unused) = True := by simp [hpol]
        simp only [startEphemeral, hF, if_true, diedT, TickRel]
        exact ⟨trivial, cur', rd', rfl, hc, hr, hd⟩
    | flush =>
      by_cases hpol : s.conn.policy = .write
      · have hT : (¬ s.conn.policy = Policy.write) = False := by simp [hpol]
        cases hcur : s.conn.cur with
        | none =>
          have hc' := isSome_none_of_eq hc hcur
          subst hc'
          simp only [writeEphemeral, hT, if_false, hcur, diedT, TickRel]
          exact ⟨trivial, none, rd', rfl, by simp [hcur], hr, fun _ _ _ _ _ h => by cases h⟩
        | some a =>
          obtain ⟨a', hc'⟩ := isSome_some_of_eq hc hcur
          subst hc'
          obtain ⟨_, b, hb, _⟩ := hh.cur a hcur
          obtain ⟨_, b', hb', _⟩ := hh'.cur a' rfl
          obtain ⟨m1, hm1⟩ := poolPut_some hp (List.getElem?_eq_some_iff.mp hb).1
          obtain ⟨m1', hm1'⟩ := poolPut_some hp' (List.getElem?_eq_some_iff.mp hb').1
          simp only [writeEphemeral, hT, if_false, hcur, hm1, hm1', TickRel]
          exact ⟨trivial, none, rd', rfl, rfl, hr, fun _ _ _ _ h => by cases h⟩
      · have hF : (¬ s.conn.policy = Policy.write) = True := by simp [hpol]
        simp only [writeEphemeral, hF, if_true, diedT, TickRel]
        exact ⟨trivial, cur', rd', rfl, hc, hr, hd⟩
    | k c =>
      simp only [cont]
      have hno := hg.noAlias
      -- the packet, as each of the two sees it
      have hpkt : contCore cfg (rd'.view m') (AuthRef.resolve m') (s.rename cur' rd') c rest
          = contCore cfg (s.rd.view m) (AuthRef.resolve m) (s.rename cur' rd') c rest := by
        rw [contCore_res cfg _ (AuthRef.resolve m') (AuthRef.resolve m) _ c rest (by simpa [Sess.rename] using hno)
          (fun b => rfl)]
        cases hreads : c.reads
        · exact contCore_pkt cfg _ _ _ _ c rest hreads
        · have hs1 := hg.shape
          rw [htodo] at hs1
          have hs2 := hg'.shape
          have ht' : (s.rename cur' rd').todo = .k c :: rest := by simp [Sess.rename, htodo]
          have hs2 : Shape (s.rename cur' rd') (.k c :: rest) := by rw [← ht']; exact hs2
          rw [rel_view hh hh' (hs1.1 hreads) (hs2.1 hreads) hr hd]
      have hren := contCore_rename cfg hsw hnl (s.rd.view m) (AuthRef.resolve m) s cur' rd' c rest hr
      show TickRel (TickR.ok m _ _) (TickR.ok m' (contCore cfg (rd'.view m') (AuthRef.resolve m') (s.rename cur' rd') c rest).1
        (contCore cfg (rd'.view m') (AuthRef.resolve m') (s.rename cur' rd') c rest).2)
      rw [hpkt, hren]
      simp only [TickRel]
      obtain ⟨hf, hrd⟩ := contCore_filled cfg (s.rd.view m) (AuthRef.resolve m) s c rest
      have hcn := contCore_conn cfg (s.rd.view m) (AuthRef.resolve m) s c rest
      refine ⟨trivial, cur', rd', rfl, by rw [hcn]; exact hc, by rw [hrd]; exact hr, ?_⟩
      intro a a' b b' h1 h2 h3 h4
      rw [hcn] at h1
      rw [hf]
      exact hd a a' b b' h1 h2 h3 h4


/-- outcomes of the arrival of client bytes at a session and at its copy -/
def OptRel : Option (Mem × Sess) → Option (Mem × Sess) → Prop
  | some (m1, s1), some (m1', t1) => Rel m1 s1 m1' t1
  | none, none => True
  | _, _ => False

theorem take_writeAt (d : Bytes) (off : Nat) (b : Bytes) (h : off + b.length ≤ d.length) :
    (writeAt d off b).take (off + b.length) = d.take off ++ b := by
  unfold writeAt
  have h1 : (d.take off ++ b).length = off + b.length := by
    simp only [List.length_append, List.length_take]; omega
  rw [List.take_append_of_le_length (by omega), List.take_of_length_le (by omega)]

theorem feedHdr_rel {m m' : Mem} {s t : Sess} (n : Nat) (hp : PoolOk m) (hp' : PoolOk m') (h : Rel m s m' t) :
    OptRel (feedHdr m s n) (feedHdr m' t n) := by
  obtain ⟨cur', rd', ht, hc, hr, hd⟩ := h
  unfold feedHdr
  have htt : t.todo = s.todo := by rw [ht]
  rw [htt]
  cases htodo : s.todo with
  | nil => simp [OptRel]
  | cons i rest =>
    subst ht
    cases i with
    | readHdr =>
      simp only [readBegin]
      by_cases h0 : n = 0
      · simp only [h0, if_true, OptRel]
        exact ⟨cur', .empty, rfl, hc, rfl, fun _ _ _ _ _ _ _ _ => by simp⟩
      · by_cases hlt : n < maxSize
        · obtain ⟨⟨id, m1⟩, hm1⟩ := poolGet_some hp n
          obtain ⟨⟨id', m1'⟩, hm1'⟩ := poolGet_some hp' n
          simp only [h0, if_false, hlt, if_true, hm1, hm1', OptRel]
          exact ⟨some id', .none, rfl, rfl, rfl, fun _ _ _ _ _ _ _ _ => by simp⟩
        · simp only [h0, if_false, hlt, OptRel]
          exact ⟨cur', rd', rfl, hc, hr, hd⟩
    | readBody => simp [OptRel]
    | enter => simp [OptRel]
    | recycle => simp [OptRel]
    | start n => simp [OptRel]
    | flush => simp [OptRel]
    | k c => simp [OptRel]

theorem feedEof_rel {m m' : Mem} {s t : Sess} (h : Rel m s m' t) : OptRel (feedEof m s) (feedEof m' t) := by
  obtain ⟨cur', rd', ht, hc, hr, hd⟩ := h
  unfold feedEof
  have htt : t.todo = s.todo := by rw [ht]
  rw [htt]
  cases htodo : s.todo with
  | nil => simp [OptRel]
  | cons i rest =>
    subst ht
    cases i with
    | readHdr =>
      simp only [readBegin, OptRel]
      exact ⟨cur', .err, rfl, hc, rfl, hd⟩
    | readBody =>
      simp only [OptRel]
      exact ⟨cur', .err, rfl, hc, rfl, hd⟩
    | enter => simp [OptRel]
    | recycle => simp [OptRel]
    | start n => simp [OptRel]
    | flush => simp [OptRel]
    | k c => simp [OptRel]

theorem feedBody_rel {m m' : Mem} {s t : Sess} (bs : Bytes) (hp : PoolOk m) (hh : Held m s.conn) (hp' : PoolOk m')
    (hh' : Held m' t.conn) (hf : FillOk s) (h : Rel m s m' t) : OptRel (feedBody m s bs) (feedBody m' t bs) := by
  obtain ⟨cur', rd', ht, hc, hr, hd⟩ := h
  unfold feedBody
  have htt : t.todo = s.todo := by rw [ht]
  rw [htt]
  cases htodo : s.todo with
  | nil => simp [OptRel]
  | cons i rest =>
    subst ht
    cases i with
    | readBody =>
      simp only [BufOwn.fill]
      cases hcur : s.conn.cur with
      | none =>
        have hc' := isSome_none_of_eq hc hcur
        subst hc'
        simp only [OptRel]
        exact ⟨none, rd', rfl, by simp [hcur], hr, fun _ _ _ _ _ h => by cases h⟩
      | some a =>
        obtain ⟨a', hc'⟩ := isSome_some_of_eq hc hcur
        subst hc'
        obtain ⟨_, b, hb, hlen⟩ := hh.cur a hcur
        obtain ⟨_, b', hb', hlen'⟩ := hh'.cur a' rfl
        have hcap := (hp.caps a b hb).1
        have hcap' := (hp'.caps a' b' hb').1
        have hfl : s.filled ≤ s.conn.len := hf
        have hbnd : s.filled + (bs.take (s.conn.len - s.filled)).length ≤ b.data.length := by
          simp only [List.length_take]; omega
        have hbnd' : s.filled + (bs.take (s.conn.len - s.filled)).length ≤ b'.data.length := by
          simp only [List.length_take]; simp only at hlen'; omega
        simp only [hb, hb', if_pos hbnd, if_pos hbnd']
        have hlt : a < m.bufs.length := (List.getElem?_eq_some_iff.mp hb).1
        have hlt' : a' < m'.bufs.length := (List.getElem?_eq_some_iff.mp hb').1
        have hdata : ∀ (x x' : Nat) (c c' : Buf), s.conn.cur = some x → some a' = some x' →
            (m.bufs.set a { b with data := writeAt b.data s.filled (bs.take (s.conn.len - s.filled)) })[x]? = some c →
            (m'.bufs.set a' { b' with data := writeAt b'.data s.filled (bs.take (s.conn.len - s.filled)) })[x']? = some c' →
            c.data.take (s.filled + (bs.take (s.conn.len - s.filled)).length)
              = c'.data.take (s.filled + (bs.take (s.conn.len - s.filled)).length) := by
          intro x x' c c' hx hx' hcx hcx'
          rw [hcur] at hx
          cases hx; cases hx'
          simp only [List.getElem?_set, if_true, hlt, hlt', Option.some.injEq] at hcx hcx'
          subst hcx; subst hcx'
          simp only
          rw [take_writeAt _ _ _ hbnd, take_writeAt _ _ _ hbnd', hd a a' b b' hcur rfl hb hb']
        split
        · simp only [OptRel]
          exact ⟨some a', .data a' s.conn.len, rfl, by simp [hcur], rfl, hdata⟩
        · simp only [OptRel]
          exact ⟨some a', rd', rfl, by simp [hcur], hr, hdata⟩
    | readHdr => simp [OptRel]
    | enter => simp [OptRel]
    | recycle => simp [OptRel]
    | start n => simp [OptRel]
    | flush => simp [OptRel]
    | k c => simp [OptRel]


/-! ### the effect of one event on the session it concerns -/

/-- what the event `e` does to the shared memory and to the session it
    concerns (`none`: the event is not enabled) -/
def stepSess (cfg : Cfg) (m : Mem) (s : Sess) : Ev → Option (Mem × Sess × List Obs)
  | .tick =>
    match tick cfg m s with
    | .ok m1 s1 obs => some (m1, s1, obs)
    | _ => none
  | .start p => if s.todo.isEmpty && !s.dead then some (m, { s with todo := p }, []) else none
  | .hdr n => (feedHdr m s n).map (fun r => (r.1, r.2, []))
  | .body b => (feedBody m s b).map (fun r => (r.1, r.2, []))
  | .eof => (feedEof m s).map (fun r => (r.1, r.2, []))

theorem step_eq (cfg : Cfg) (w : Sys) (i : Nat) (e : Ev) :
    Sys.step cfg w i e =
      match w.sess[i]? with
      | none => (w, [])
      | some s =>
        match stepSess cfg w.mem s e with
        | none => (w, [])
        | some (m1, s1, obs) => (⟨m1, w.sess.set i s1⟩, obs) := by
  unfold Sys.step
  cases hs : w.sess[i]? with
  | none => rfl
  | some s =>
    cases e with
    | tick => simp only [stepSess]; cases tick cfg w.mem s <;> rfl
    | start p => simp only [stepSess]; split <;> rfl
    | hdr n => simp only [stepSess]; cases feedHdr w.mem s n <;> rfl
    | body b => simp only [stepSess]; cases feedBody w.mem s b <;> rfl
    | eof => simp only [stepSess]; cases feedEof w.mem s <;> rfl

theorem stepSess_trans {cfg : Cfg} (hv : cfg.v.recycleClears = true) {m m1 : Mem} {s s1 : Sess} {e : Ev} {obs : List Obs}
    (hp : PoolOk m) (hh : Held m s.conn) (h : stepSess cfg m s e = some (m1, s1, obs)) : Trans m s.conn m1 s1.conn := by
  cases e with
  | tick =>
    simp only [stepSess] at h
    cases ht : tick cfg m s with
    | ok m2 s2 o2 => rw [ht] at h; cases h; exact tick_trans hv hp hh ht
    | blocked => rw [ht] at h; cases h
    | idle => rw [ht] at h; cases h
  | start p =>
    simp only [stepSess] at h
    split at h
    · cases h; exact Trans.refl hp hh
    · cases h
  | hdr n =>
    simp only [stepSess] at h
    cases hf : feedHdr m s n with
    | none => rw [hf] at h; cases h
    | some r => obtain ⟨m2, s2⟩ := r; rw [hf] at h; cases h; exact feedHdr_trans hp hh hf
  | body b =>
    simp only [stepSess] at h
    cases hf : feedBody m s b with
    | none => rw [hf] at h; cases h
    | some r => obtain ⟨m2, s2⟩ := r; rw [hf] at h; cases h; exact feedBody_trans hp hh hf
  | eof =>
    simp only [stepSess] at h
    cases hf : feedEof m s with
    | none => rw [hf] at h; cases h
    | some r => obtain ⟨m2, s2⟩ := r; rw [hf] at h; cases h; exact feedEof_trans hp hh hf

theorem stepSess_fillOk {cfg : Cfg} {m m1 : Mem} {s s1 : Sess} {e : Ev} {obs : List Obs} (hf : FillOk s)
    (h : stepSess cfg m s e = some (m1, s1, obs)) : FillOk s1 := by
  unfold FillOk at *
  cases e with
  | tick =>
    simp only [stepSess] at h
    cases ht : tick cfg m s with
    | blocked => rw [ht] at h; cases h
    | idle => rw [ht] at h; cases h
    | ok m2 s2 o2 =>
      rw [ht] at h; cases h
      unfold tick at ht
      split at ht
      · cases ht
      · cases ht
      · cases ht
      · -- enter
        split at ht
        · simp only [diedT, TickR.ok.injEq] at ht; obtain ⟨_, rfl, _⟩ := ht; exact hf
        · rename_i c3 hc
          simp only [TickR.ok.injEq] at ht; obtain ⟨_, rfl, _⟩ := ht
          unfold readEnter at hc
          split at hc
          · cases hc
          · cases hc; exact hf
      · -- recycle
        split at ht
        · simp only [diedT, TickR.ok.injEq] at ht; obtain ⟨_, rfl, _⟩ := ht; exact hf
        · rename_i m3 c3 hc
          simp only [TickR.ok.injEq] at ht; obtain ⟨_, rfl, _⟩ := ht
          unfold recycleRead at hc
          split at hc
          · cases hc
          · split at hc
            · cases hc; exact hf
            · split at hc
              · cases hc
              · cases hc; exact hf
      · -- start
        split at ht
        · simp only [diedT, TickR.ok.injEq] at ht; obtain ⟨_, rfl, _⟩ := ht; exact hf
        · simp only [TickR.ok.injEq] at ht; obtain ⟨_, rfl, _⟩ := ht; exact Nat.zero_le _
      · -- flush
        split at ht
        · simp only [diedT, TickR.ok.injEq] at ht; obtain ⟨_, rfl, _⟩ := ht; exact hf
        · rename_i m3 c3 hc
          simp only [TickR.ok.injEq] at ht; obtain ⟨_, rfl, _⟩ := ht
          unfold writeEphemeral at hc
          split at hc
          · cases hc
          · split at hc
            · cases hc
            · split at hc
              · cases hc
              · cases hc; exact hf
      · -- continuation
        simp only [cont, TickR.ok.injEq] at ht; obtain ⟨_, rfl, _⟩ := ht
        rw [(contCore_filled _ _ _ _ _ _).1, contCore_conn]; exact hf
  | start p =>
    simp only [stepSess] at h
    split at h
    · cases h; exact hf
    · cases h
  | hdr n =>
    simp only [stepSess] at h
    cases hfd : feedHdr m s n with
    | none => rw [hfd] at h; cases h
    | some r =>
      obtain ⟨m2, s2⟩ := r; rw [hfd] at h; cases h
      unfold feedHdr at hfd
      split at hfd
      · cases hb : readBegin m s.conn (some n) with
        | none => simp only [hb, Option.some.injEq, Prod.mk.injEq] at hfd; obtain ⟨_, rfl⟩ := hfd; exact hf
        | some r =>
          obtain ⟨m3, c3, k⟩ := r
          simp only [hb] at hfd
          cases k <;> simp only [Option.some.injEq, Prod.mk.injEq] at hfd <;> obtain ⟨_, rfl⟩ := hfd <;>
            first | exact Nat.zero_le _ | skip
          -- big: the connection as `readBegin` left it
          simp only [readBegin] at hb
          split at hb
          · cases hb
          · split at hb
            · split at hb <;> cases hb
            · cases hb; exact hf
      · cases hfd
  | body b =>
    simp only [stepSess] at h
    cases hfd : feedBody m s b with
    | none => rw [hfd] at h; cases h
    | some r =>
      obtain ⟨m2, s2⟩ := r; rw [hfd] at h; cases h
      unfold feedBody at hfd
      split at hfd
      · simp only at hfd
        split at hfd
        · simp only [Option.some.injEq, Prod.mk.injEq] at hfd; obtain ⟨_, rfl⟩ := hfd; exact hf
        · split at hfd <;> simp only [Option.some.injEq, Prod.mk.injEq] at hfd <;> obtain ⟨_, rfl⟩ := hfd <;>
            (simp only [List.length_take]; omega)
      · cases hfd
  | eof =>
    simp only [stepSess] at h
    cases hfd : feedEof m s with
    | none => rw [hfd] at h; cases h
    | some r =>
      obtain ⟨m2, s2⟩ := r; rw [hfd] at h; cases h
      unfold feedEof at hfd
      split at hfd
      · simp only [readBegin, Option.some.injEq, Prod.mk.injEq] at hfd; obtain ⟨_, rfl⟩ := hfd; exact hf
      · simp only [Option.some.injEq, Prod.mk.injEq] at hfd; obtain ⟨_, rfl⟩ := hfd; exact hf
      · cases hfd


theorem stepSess_good {cfg : Cfg} (hsw : cfg.v.copySwitch = true) (hnl : cfg.v.copyNull = true) {m m1 : Mem} {s s1 : Sess}
    {e : Ev} {obs : List Obs} (hg : Good s) (he : RealEv cfg e) (h : stepSess cfg m s e = some (m1, s1, obs)) : Good s1 := by
  cases e with
  | tick =>
    simp only [stepSess] at h
    cases ht : tick cfg m s with
    | ok m2 s2 o2 => rw [ht] at h; cases h; exact tick_good hsw hnl hg ht
    | blocked => rw [ht] at h; cases h
    | idle => rw [ht] at h; cases h
  | start p =>
    simp only [stepSess] at h
    split at h
    · cases h; exact good_of_okTail _ hg.noAlias (realProg_okTail he)
    · cases h
  | hdr n =>
    simp only [stepSess] at h
    cases hf : feedHdr m s n with
    | none => rw [hf] at h; cases h
    | some r => obtain ⟨m2, s2⟩ := r; rw [hf] at h; cases h; exact feedHdr_good hg hf
  | body b =>
    simp only [stepSess] at h
    cases hf : feedBody m s b with
    | none => rw [hf] at h; cases h
    | some r => obtain ⟨m2, s2⟩ := r; rw [hf] at h; cases h; exact feedBody_good hg hf
  | eof =>
    simp only [stepSess] at h
    cases hf : feedEof m s with
    | none => rw [hf] at h; cases h
    | some r => obtain ⟨m2, s2⟩ := r; rw [hf] at h; cases h; exact feedEof_good hg hf

/-- outcomes of an event at a session and at its copy -/
def StepRel : Option (Mem × Sess × List Obs) → Option (Mem × Sess × List Obs) → Prop
  | some (m1, s1, o1), some (m1', t1, o1') => o1 = o1' ∧ Rel m1 s1 m1' t1
  | none, none => True
  | _, _ => False

theorem stepSess_rel (cfg : Cfg) (hv : cfg.v = Variant.fixed) {m m' : Mem} {s t : Sess} (e : Ev) (hp : PoolOk m)
    (hh : Held m s.conn) (hp' : PoolOk m') (hh' : Held m' t.conn) (hg : Good s) (hg' : Good t) (hf : FillOk s)
    (h : Rel m s m' t) : StepRel (stepSess cfg m s e) (stepSess cfg m' t e) := by
  cases e with
  | tick =>
    have := tick_rel cfg hv hp hh hp' hh' hg hg' h
    simp only [stepSess]
    cases h1 : tick cfg m s <;> cases h2 : tick cfg m' t <;> rw [h1, h2] at this <;> simp only [TickRel] at this <;>
      first | exact this | trivial
  | start p =>
    obtain ⟨cur', rd', rfl, hc, hr, hd⟩ := h
    simp only [stepSess]
    split
    · simp only [StepRel]
      exact ⟨trivial, cur', rd', rfl, hc, hr, hd⟩
    · trivial
  | hdr n =>
    have := feedHdr_rel n hp hp' h
    simp only [stepSess]
    cases h1 : feedHdr m s n <;> cases h2 : feedHdr m' t n <;> rw [h1, h2] at this <;> simp only [OptRel] at this <;>
      first | exact ⟨rfl, this⟩ | trivial | exact this
  | body b =>
    have := feedBody_rel b hp hh hp' hh' hf h
    simp only [stepSess]
    cases h1 : feedBody m s b <;> cases h2 : feedBody m' t b <;> rw [h1, h2] at this <;> simp only [OptRel] at this <;>
      first | exact ⟨rfl, this⟩ | trivial | exact this
  | eof =>
    have := feedEof_rel h
    simp only [stepSess]
    cases h1 : feedEof m s <;> cases h2 : feedEof m' t <;> rw [h1, h2] at this <;> simp only [OptRel] at this <;>
      first | exact ⟨rfl, this⟩ | trivial | exact this


/-! ### the whole run -/

/-- the events of session `j`, as events of the only session of a system of its own -/
def projEvs (j : Nat) (evs : List (Nat × Ev)) : List (Nat × Ev) :=
  evs.filterMap (fun p => if p.1 = j then some (0, p.2) else none)

/-- what session `j` lets the outside see in a run -/
def obsFor (j : Nat) (l : List (Nat × Obs)) : List Obs :=
  l.filterMap (fun p => if p.1 = j then some p.2 else none)

theorem obsFor_append (j : Nat) (a b : List (Nat × Obs)) : obsFor j (a ++ b) = obsFor j a ++ obsFor j b := by
  simp [obsFor, List.filterMap_append]

theorem obsFor_tag_self (j : Nat) (obs : List Obs) : obsFor j (obs.map (fun o => (j, o))) = obs := by
  induction obs with
  | nil => rfl
  | cons o r ih => simp only [obsFor, List.map_cons, List.filterMap_cons, if_true] at ih ⊢; rw [ih]

theorem obsFor_tag_other (j i : Nat) (h : i ≠ j) (obs : List Obs) : obsFor j (obs.map (fun o => (i, o))) = [] := by
  induction obs with
  | nil => rfl
  | cons o r ih => simp only [obsFor, List.map_cons, List.filterMap_cons, h, if_false] at ih ⊢; exact ih

/-- session `j` of `w` and the only session of `u` are copies of each other -/
structure Sim (j : Nat) (w u : Sys) : Prop where
  ownW : Own w
  ownU : Own u
  goodW : GoodSys w
  goodU : GoodSys u
  fill : ∀ (i : Nat) (s : Sess), w.sess[i]? = some s → FillOk s
  rel : ∃ s t, w.sess[j]? = some s ∧ u.sess[0]? = some t ∧ Rel w.mem s u.mem t

theorem sim_init (n j : Nat) (hj : j < n) : Sim j (Sys.init n) (Sys.init 1) := by
  refine ⟨own_init n, own_init 1, goodSys_init n, goodSys_init 1, ?_, Sess.init, Sess.init, ?_, ?_, rel_init⟩
  · intro i s hs
    have : s = Sess.init := by
      simp [Sys.init, List.getElem?_replicate] at hs; exact hs.2.symm
    subst this; exact Nat.le_refl _
  · simp [Sys.init, List.getElem?_replicate, hj]
  · simp [Sys.init]

theorem fill_set {w : Sys} {i : Nat} {s1 : Sess} {m1 : Mem} (h : ∀ (k : Nat) (s : Sess), w.sess[k]? = some s → FillOk s)
    (h1 : FillOk s1) : ∀ (k : Nat) (s : Sess), (⟨m1, w.sess.set i s1⟩ : Sys).sess[k]? = some s → FillOk s := by
  intro k s hk
  simp only at hk
  rw [List.getElem?_set] at hk
  split at hk
  · split at hk
    · cases hk; exact h1
    · cases hk
  · exact h k s hk

theorem sim_run (cfg : Cfg) (hv : cfg.v = Variant.fixed) (j : Nat) (evs : List (Nat × Ev)) :
    ∀ (w u : Sys), Sim j w u → (∀ e ∈ evs, RealEv cfg e.2) →
      obsFor j (Sys.run cfg w evs).2 = obsFor 0 (Sys.run cfg u (projEvs j evs)).2 := by
  have hsw : cfg.v.copySwitch = true := by rw [hv]; rfl
  have hnl : cfg.v.copyNull = true := by rw [hv]; rfl
  have hrc : cfg.v.recycleClears = true := by rw [hv]; rfl
  induction evs with
  | nil => intro w u _ _; rfl
  | cons ev rest ih =>
    intro w u sim hreal
    obtain ⟨i, e⟩ := ev
    have he : RealEv cfg e := hreal (i, e) (by simp)
    have hrest : ∀ e' ∈ rest, RealEv cfg e'.2 := fun e' h' => hreal e' (by simp [h'])
    obtain ⟨s, t, hs, ht, hrel⟩ := sim.rel
    have hjlt : j < w.sess.length := (List.getElem?_eq_some_iff.mp hs).1
    have h0lt : 0 < u.sess.length := (List.getElem?_eq_some_iff.mp ht).1
    by_cases hij : i = j
    · -- the session itself moves, in both systems
      subst hij
      have hproj : projEvs i ((i, e) :: rest) = (0, e) :: projEvs i rest := by simp [projEvs]
      rw [hproj]
      simp only [Sys.run]
      have hwO := step_own cfg hrc w sim.ownW i e
      have hwG := step_good cfg hsw hnl w sim.goodW i e he
      have huO := step_own cfg hrc u sim.ownU 0 e
      have huG := step_good cfg hsw hnl u sim.goodU 0 e he
      have hr := stepSess_rel cfg hv e sim.ownW.pool (sim.ownW.held i s hs) sim.ownU.pool (sim.ownU.held 0 t ht)
        (sim.goodW i s hs) (sim.goodU 0 t ht) (sim.fill i s hs) hrel
      rw [step_eq cfg w i e] at hwO hwG ⊢
      rw [step_eq cfg u 0 e] at huO huG ⊢
      simp only [hs, ht] at hwO hwG huO huG ⊢
      cases h1 : stepSess cfg w.mem s e with
      | none =>
        cases h2 : stepSess cfg u.mem t e with
        | none =>
          simp only [h1, h2]
          simp only [List.map_nil, List.nil_append]
          exact ih w u sim hrest
        | some r2 => rw [h1, h2] at hr; simp [StepRel] at hr
      | some r1 =>
        obtain ⟨m1, s1, o1⟩ := r1
        cases h2 : stepSess cfg u.mem t e with
        | none => rw [h1, h2] at hr; simp [StepRel] at hr
        | some r2 =>
          obtain ⟨m1', t1, o1'⟩ := r2
          rw [h1, h2] at hr
          simp only [StepRel] at hr
          obtain ⟨ho, hrel1⟩ := hr
          subst ho
          simp only [h1, h2] at hwO hwG huO huG ⊢
          rw [obsFor_append, obsFor_append, obsFor_tag_self, obsFor_tag_self]
          congr 1
          refine ih _ _ ⟨hwO, huO, hwG, huG, fill_set sim.fill (stepSess_fillOk (sim.fill i s hs) h1), s1, t1, ?_, ?_, hrel1⟩ hrest
          · simp [hjlt]
          · simp [h0lt]
    · -- another session moves: `u` stands still
      have hproj : projEvs j ((i, e) :: rest) = projEvs j rest := by simp [projEvs, hij]
      rw [hproj]
      simp only [Sys.run]
      have hwO := step_own cfg hrc w sim.ownW i e
      have hwG := step_good cfg hsw hnl w sim.goodW i e he
      rw [obsFor_append, obsFor_tag_other j i hij, List.nil_append]
      rw [step_eq cfg w i e] at hwO hwG ⊢
      cases hsi : w.sess[i]? with
      | none =>
        simp only [hsi]
        exact ih w u sim hrest
      | some si =>
        simp only [hsi] at hwO hwG ⊢
        cases h1 : stepSess cfg w.mem si e with
        | none =>
          simp only [h1]
          exact ih w u sim hrest
        | some r1 =>
          obtain ⟨m1, s1, o1⟩ := r1
          simp only [h1] at hwO hwG ⊢
          have htr := stepSess_trans hrc sim.ownW.pool (sim.ownW.held i si hsi) h1
          refine ih _ u ⟨hwO, sim.ownU, hwG, sim.goodU, fill_set sim.fill (stepSess_fillOk (sim.fill i si hsi) h1), s, t, ?_, ht, ?_⟩ hrest
          · simp only
            rw [List.getElem?_set]
            simp [hij, hs]
          · obtain ⟨cur', rd', heq, hc, hrd, hd⟩ := hrel
            refine ⟨cur', rd', heq, hc, hrd, ?_⟩
            intro a a' b b' ha ha' hb hb'
            obtain ⟨_, b0, hb0, _⟩ := (sim.ownW.held j s hs).cur a ha
            have hne : si.conn.cur ≠ some a := fun hsa => sim.ownW.distinct i j si s a hij hsi hs hsa ha
            have := htr.frame a b0 hb0 hne
            simp only at hb
            rw [this] at hb
            cases hb
            exact hd a a' _ b' ha ha' hb0 hb'

end GaeaVerif.BufOwn
