import GaeaVerif.Lemmas.C13Digits
/-
  C13 helper lemmas: decimals — `Decimal.String` of the model read back by the
  spec's `decimalText`, and `decimal.NewFromString` on the spellings of the spec.
-/
namespace GaeaVerif.C13
open GaeaVerif GaeaVerif.BinRow GaeaVerif.BinProto GaeaVerif.LenEnc

theorem decimalText_neg (b : Bytes) :
    decimalText (45 :: b) = (decimalBody b).map fun (u, sc) => (-(u : Int), sc) := by
  unfold decimalText
  simp

theorem decimalText_pos (b : Bytes) (h : b.head? ≠ some 45) :
    decimalText b = (decimalBody b).map fun (u, sc) => ((u : Int), sc) := by
  unfold decimalText
  have : (b.head? == some 45) = false := by simpa using h
  simp [this]

theorem head_digit_ne_minus (s : Bytes) (hne : s ≠ []) (h : s.all isDigit = true) : s.head? ≠ some 45 := by
  cases s with
  | nil => exact absurd rfl hne
  | cons c cs =>
    simp only [List.all_cons, Bool.and_eq_true] at h
    simp only [List.head?_cons, ne_eq, Option.some.injEq]
    intro e; subst e; simp [isDigit] at h

theorem allDigits_iff (s : Bytes) : allDigits s = true ↔ s ≠ [] ∧ s.all isDigit = true := by
  unfold allDigits; cases s <;> simp

theorem head?_append_ne_nil (a b : Bytes) (h : a ≠ []) : (a ++ b).head? = a.head? := by
  cases a with
  | nil => exact absurd rfl h
  | cons c cs => rfl

/-- intPart ++ fullfrac are the digits of `N` padded to at least `sc + 1` digits. -/
theorem number_value (intPart fullfrac : Bytes) (N : Nat)
    (hi : intPart ≠ []) (hdi : intPart.all isDigit = true) (hdf : fullfrac.all isDigit = true)
    (hN : decVal (intPart ++ fullfrac) = N) :
    ∃ M sc', decimalBody (if (trimTrailingZeros fullfrac).length > 0 then intPart ++ [46] ++ trimTrailingZeros fullfrac else intPart) = some (M, sc')
      ∧ M * 10 ^ fullfrac.length = N * 10 ^ sc'
      ∧ (if (trimTrailingZeros fullfrac).length > 0 then intPart ++ [46] ++ trimTrailingZeros fullfrac else intPart).head? ≠ some 45 := by
  obtain ⟨k, hk⟩ := trim_spec fullfrac
  have hfd := trim_digits fullfrac hdf
  generalize trimTrailingZeros fullfrac = frac at *
  have h1 : allDigits intPart = true := (allDigits_iff _).2 ⟨hi, hdi⟩
  by_cases hf : frac.length > 0
  · rw [if_pos hf]
    refine ⟨decVal (intPart ++ frac), frac.length, ?_, ?_, ?_⟩
    · unfold decimalBody
      rw [List.append_assoc, List.singleton_append, splitDot_append _ _ hdi]
      have h2 : allDigits frac = true := (allDigits_iff _).2 ⟨by intro e; rw [e] at hf; simp at hf, hfd⟩
      simp [h1, h2]
    · rw [← hN, hk, ← List.append_assoc, decVal_append (intPart ++ frac), decVal_replicate_zero]
      simp only [List.length_append, List.length_replicate, Nat.add_zero, Nat.pow_add]
      ring
    · rw [List.append_assoc, head?_append_ne_nil _ _ hi]; exact head_digit_ne_minus _ hi hdi
  · rw [if_neg hf]
    have hfn : frac = [] := by cases frac with
      | nil => rfl
      | cons c cs => simp at hf
    subst hfn
    refine ⟨decVal intPart, 0, ?_, ?_, head_digit_ne_minus _ hi hdi⟩
    · unfold decimalBody; rw [splitDot_digits _ hdi]; simp [h1]
    · rw [← hN, hk, List.nil_append, decVal_append, decVal_replicate_zero]
      simp

theorem sign_transfer (u : Int) (M sc sc' : Nat) (h : M * 10 ^ sc = u.natAbs * 10 ^ sc') :
    (if u < 0 then -(M : Int) else (M : Int)) * 10 ^ sc = u * 10 ^ sc' := by
  have h' : ((M : Int) * 10 ^ sc) = (u.natAbs : Int) * 10 ^ sc' := by exact_mod_cast h
  split
  · rename_i hu
    have : (u.natAbs : Int) = -u := by omega
    rw [this] at h'; linarith
  · rename_i hu
    have : (u.natAbs : Int) = u := by omega
    rw [this] at h'; exact h'

theorem decimalString_roundtrip (u : Int) (sc : Nat) :
    ∃ u' sc', decimalText (decimalString u (-(sc : Int))) = some (u', sc') ∧ u' * 10 ^ sc = u * 10 ^ sc' := by
  have hstr := natToDec_digits u.natAbs
  have hne := natToDec_ne_nil u.natAbs
  have hval := decVal_natToDec u.natAbs
  by_cases hsc : sc = 0
  · subst hsc
    have hb : decimalBody (natToDec u.natAbs) = some (u.natAbs, 0) := by
      unfold decimalBody; rw [splitDot_digits _ hstr, (allDigits_iff _).2 ⟨hne, hstr⟩, hval]; rfl
    have hds : decimalString u (-((0 : Nat) : Int)) = intToDec u := by
      unfold decimalString; simp
    rw [hds]; unfold intToDec
    by_cases hu : u < 0
    · rw [if_pos hu, decimalText_neg, hb]
      refine ⟨-(u.natAbs : Int), 0, rfl, ?_⟩
      have : (u.natAbs : Int) = -u := by omega
      rw [this]; ring
    · rw [if_neg hu, decimalText_pos _ (head_digit_ne_minus _ hne hstr), hb]
      refine ⟨(u.natAbs : Int), 0, rfl, ?_⟩
      have : (u.natAbs : Int) = u := by omega
      rw [this]
  · have hexp : ¬ (-(sc : Int) ≥ 0) := by omega
    have he : (- -(sc : Int)).toNat = sc := by omega
    unfold decimalString
    rw [if_neg hexp]
    simp only [he]
    generalize hs : natToDec u.natAbs = str at *
    -- the two ways of cutting the digit string
    have key : ∃ intPart fullfrac : Bytes,
        (if str.length > sc then (str.take (str.length - sc), str.drop (str.length - sc))
          else ([48], List.replicate (sc - str.length) 48 ++ str)) = (intPart, fullfrac)
        ∧ intPart ≠ [] ∧ intPart.all isDigit = true ∧ fullfrac.all isDigit = true
        ∧ decVal (intPart ++ fullfrac) = u.natAbs ∧ fullfrac.length = sc := by
      by_cases hl : str.length > sc
      · refine ⟨str.take (str.length - sc), str.drop (str.length - sc), by rw [if_pos hl], ?_, ?_, ?_, ?_, ?_⟩
        · intro e
          have := congrArg List.length e
          simp at this; omega
        · have : str = str.take (str.length - sc) ++ str.drop (str.length - sc) := (List.take_append_drop _ _).symm
          rw [this] at hstr; exact all_of_append_left hstr
        · have : str = str.take (str.length - sc) ++ str.drop (str.length - sc) := (List.take_append_drop _ _).symm
          rw [this, List.all_append, Bool.and_eq_true] at hstr; exact hstr.2
        · rw [List.take_append_drop]; exact hval
        · simp; omega
      · refine ⟨[48], List.replicate (sc - str.length) 48 ++ str, by rw [if_neg hl], by simp, by decide, ?_, ?_, ?_⟩
        · rw [List.all_append, hstr]; simp; right; decide
        · rw [show [48] ++ (List.replicate (sc - str.length) 48 ++ str) = List.replicate (sc - str.length + 1) 48 ++ str from by
            simp [List.replicate_succ]]
          rw [decVal_append, decVal_replicate_zero, hval]; simp
        · simp; omega
    obtain ⟨intPart, fullfrac, hparts, hi, hdi, hdf, hN, hlen⟩ := key
    rw [hparts]
    simp only
    obtain ⟨M, sc', hb, hmul, hhead⟩ := number_value intPart fullfrac u.natAbs hi hdi hdf hN
    rw [hlen] at hmul
    by_cases hu : u < 0
    · rw [if_pos hu, decimalText_neg, hb]
      refine ⟨-(M : Int), sc', rfl, ?_⟩
      have := sign_transfer u M sc sc' hmul
      rw [if_pos hu] at this; exact this
    · rw [if_neg hu, decimalText_pos _ hhead, hb]
      refine ⟨(M : Int), sc', rfl, ?_⟩
      have := sign_transfer u M sc sc' hmul
      rw [if_neg hu] at this; exact this

theorem findIdx_none (p : UInt8 → Bool) (s : Bytes) (h : ∀ c ∈ s, p c = false) : findIdx p s = none := by
  induction s with
  | nil => rfl
  | cons c cs ih =>
    simp only [findIdx, h c (by simp)]
    rw [ih (fun x hx => h x (by simp [hx]))]; rfl

theorem findIdx_append_not (p : UInt8 → Bool) (a b : Bytes) (h : ∀ c ∈ a, p c = false) :
    findIdx p (a ++ b) = (findIdx p b).map (· + a.length) := by
  induction a with
  | nil => simp
  | cons c cs ih =>
    simp only [List.cons_append, findIdx, h c (by simp)]
    rw [ih (fun x hx => h x (by simp [hx]))]
    cases findIdx p b <;> simp; omega

theorem splitDot_some (s i f : Bytes) (h : splitDot s = some (i, f)) : s = i ++ 46 :: f := by
  induction s generalizing i with
  | nil => simp [splitDot] at h
  | cons c cs ih =>
    simp only [splitDot] at h
    split at h
    · rename_i hc; subst hc; simp at h; obtain ⟨h1, h2⟩ := h; subst h1; subst h2; rfl
    · cases hs : splitDot cs with
      | none => simp [hs] at h
      | some p =>
        obtain ⟨a, b⟩ := p
        simp [hs] at h
        obtain ⟨h1, h2⟩ := h; subst h1; subst h2
        rw [ih a hs]; rfl

/-- Shape of the texts in the domain of `decimalText`. -/
theorem decimalText_shape (cell : Bytes) (u : Int) (sc : Nat) (h : decimalText cell = some (u, sc)) :
    ∃ (neg : Bool) (i f : Bytes),
      cell = (if neg then [45] else []) ++ (i ++ (if f = [] then [] else 46 :: f))
      ∧ i ≠ [] ∧ i.all isDigit = true ∧ f.all isDigit = true ∧ f.length = sc
      ∧ u = (if neg then -(decVal (i ++ f) : Int) else (decVal (i ++ f) : Int)) := by
  have hdef : decimalText cell = (decimalBody (if (cell.head? == some 45) = true then cell.drop 1 else cell)).map
      (fun p => (if (cell.head? == some 45) = true then -(p.1 : Int) else (p.1 : Int), p.2)) := rfl
  rw [hdef] at h
  generalize hneg : (cell.head? == some 45) = neg at h
  have hcell : cell = (if neg then [45] else []) ++ (if neg then cell.drop 1 else cell) := by
    cases neg with
    | false => simp
    | true =>
      cases cell with
      | nil => simp at hneg
      | cons c cs => simp at hneg; subst hneg; simp
  generalize hbody : (if neg = true then cell.drop 1 else cell) = body at h hcell
  cases hb : decimalBody body with
  | none => simp [hb] at h
  | some p =>
    obtain ⟨M, sc0⟩ := p
    simp only [hb, Option.map_some, Option.some.injEq, Prod.mk.injEq] at h
    obtain ⟨hu, hsc⟩ := h
    subst hsc
    unfold decimalBody at hb
    cases hsd : splitDot body with
    | none =>
      rw [hsd] at hb
      simp only at hb
      split at hb
      · rename_i had
        simp only [Option.some.injEq, Prod.mk.injEq] at hb
        obtain ⟨hM, h0⟩ := hb
        have := (allDigits_iff _).1 had
        refine ⟨neg, body, [], ?_, this.1, this.2, by simp, h0, ?_⟩
        · simpa using hcell
        · rw [← hu, ← hM]; simp
      · simp at hb
    | some q =>
      obtain ⟨i, f⟩ := q
      rw [hsd] at hb
      simp only at hb
      split at hb
      · rename_i had
        simp only [Bool.and_eq_true] at had
        simp only [Option.some.injEq, Prod.mk.injEq] at hb
        obtain ⟨hM, h0⟩ := hb
        have hi := (allDigits_iff _).1 had.1
        have hf := (allDigits_iff _).1 had.2
        refine ⟨neg, i, f, ?_, hi.1, hi.2, hf.2, h0, ?_⟩
        · rw [if_neg hf.1, ← splitDot_some _ _ _ hsd]; exact hcell
        · rw [← hu, ← hM]
      · simp at hb

theorem parseUint_digits (ds : Bytes) (b : Nat) (hne : ds ≠ []) (hd : ds.all isDigit = true)
    (hlt : decVal ds < 2 ^ b) : parseUint ds b = some (decVal ds) := by
  unfold parseUint
  have : ds.isEmpty = false := by cases ds <;> simp at hne ⊢
  simp [this, hd, hlt]

theorem digit_not_sign (c : UInt8) (h : isDigit c = true) : (c == 43) = false ∧ (c == 45) = false := by
  constructor <;> (simp only [beq_eq_false_iff_ne, ne_eq]; intro e; subst e; simp [isDigit] at h)

theorem parseInt_shape (neg : Bool) (ds : Bytes) (hne : ds ≠ []) (hd : ds.all isDigit = true)
    (hlt : decVal ds < 2 ^ 63) :
    parseInt ((if neg then [45] else []) ++ ds) 64
      = some (if neg then -(decVal ds : Int) else (decVal ds : Int)) := by
  have hu := parseUint_digits ds 64 hne hd (by omega)
  cases neg with
  | true =>
    simp only [if_true, List.singleton_append, parseInt]
    simp only [show ((45 : UInt8) == 45) = true from rfl, Bool.or_true, if_true, hu]
    simp; omega
  | false =>
    cases ds with
    | nil => exact absurd rfl hne
    | cons c cs =>
      simp only [List.all_cons, Bool.and_eq_true] at hd
      obtain ⟨h43, h45⟩ := digit_not_sign c hd.1
      simp only [Bool.false_eq_true, if_false, List.nil_append, parseInt, h43, h45, Bool.or_false, hu]
      simp; omega

theorem parseBigInt_shape (neg : Bool) (ds : Bytes) (hne : ds ≠ []) (hd : ds.all isDigit = true) :
    parseBigInt ((if neg then [45] else []) ++ ds)
      = some (if neg then -(decVal ds : Int) else (decVal ds : Int)) := by
  have he : ds.isEmpty = false := by cases ds <;> simp at hne ⊢
  cases neg with
  | true =>
    simp only [if_true, List.singleton_append, parseBigInt]
    simp [he, hd]
  | false =>
    cases ds with
    | nil => exact absurd rfl hne
    | cons c cs =>
      have hd' := hd
      simp only [List.all_cons, Bool.and_eq_true] at hd
      obtain ⟨h43, h45⟩ := digit_not_sign c hd.1
      simp only [Bool.false_eq_true, if_false, List.nil_append, parseBigInt, h43, h45, Bool.or_false]
      simp [hd']

theorem digit_props (c : UInt8) (h : isDigit c = true) :
    (c == 69 || c == 101) = false ∧ (c == 46) = false := by
  constructor
  · simp only [Bool.or_eq_false_iff, beq_eq_false_iff_ne, ne_eq]
    constructor <;> (intro e; subst e; simp [isDigit] at h)
  · simp only [beq_eq_false_iff_ne, ne_eq]; intro e; subst e; simp [isDigit] at h

theorem filter_dot_digits (s : Bytes) (h : s.all isDigit = true) : s.filter (· == 46) = [] := by
  rw [List.filter_eq_nil_iff]
  intro c hc
  have := (List.all_eq_true.1 h) c hc
  simp [(digit_props c this).2]

theorem decVal_lt_2_63 (ds : Bytes) (hd : ds.all isDigit = true) (hl : ds.length ≤ 18) : decVal ds < 2 ^ 63 := by
  have h1 := decVal_lt ds hd
  have h2 : 10 ^ ds.length ≤ 10 ^ 18 := Nat.pow_le_pow_right (by decide) hl
  have : (10 : Nat) ^ 18 < 2 ^ 63 := by decide
  omega

/-- `decimal.NewFromString` on the spellings of the spec: the value and the scale. -/
theorem newFromString_shape (neg : Bool) (i f : Bytes) (hi : i ≠ []) (hdi : i.all isDigit = true)
    (hdf : f.all isDigit = true) (v e : Int)
    (h : newFromString ((if neg then [45] else []) ++ (i ++ (if f = [] then [] else 46 :: f))) = some (v, e)) :
    v = (if neg then -(decVal (i ++ f) : Int) else (decVal (i ++ f) : Int)) ∧ e = -(f.length : Int) := by
  have hsgnE : ∀ c ∈ (if neg then [45] else [] : Bytes), (c == 69 || c == 101) = false := by
    cases neg <;> simp
  have hsgnD : ∀ c ∈ (if neg then [45] else [] : Bytes), (c == 46) = false := by
    cases neg <;> simp
  have hiE : ∀ c ∈ i, (c == 69 || c == 101) = false := fun c hc => (digit_props c ((List.all_eq_true.1 hdi) c hc)).1
  have hfE : ∀ c ∈ f, (c == 69 || c == 101) = false := fun c hc => (digit_props c ((List.all_eq_true.1 hdf) c hc)).1
  have hiD : ∀ c ∈ i, (c == 46) = false := fun c hc => (digit_props c ((List.all_eq_true.1 hdi) c hc)).2
  have hfiltsgn : (if neg then [45] else [] : Bytes).filter (· == 46) = [] := by cases neg <;> simp
  have hdif : (i ++ f).all isDigit = true := by rw [List.all_append, hdi, hdf]; rfl
  have hneif : i ++ f ≠ [] := by simp [hi]
  have hp1 := parseInt_shape neg (i ++ f) hneif hdif
  have hp2 := parseBigInt_shape neg (i ++ f) hneif hdif
  generalize hres : (if neg then -(decVal (i ++ f) : Int) else (decVal (i ++ f) : Int)) = res at hp1 hp2 ⊢
  generalize hs : (if neg = true then [45] else [] : Bytes) = sgn at *
  -- the number parsers on the sign followed by all digits
  have hparse : (if (sgn ++ (i ++ f)).length ≤ 18 then parseInt (sgn ++ (i ++ f)) 64
        else parseBigInt (sgn ++ (i ++ f))) = some res := by
    by_cases hl : (sgn ++ (i ++ f)).length ≤ 18
    · rw [if_pos hl]
      apply hp1
      apply decVal_lt_2_63 _ hdif
      simp only [List.length_append] at hl ⊢; omega
    · rw [if_neg hl]; exact hp2
  by_cases hf : f = []
  · subst hf
    simp only [if_true, List.append_nil] at h hparse ⊢
    have hE : findIdx (fun c => c == 69 || c == 101) (sgn ++ i) = none :=
      findIdx_none _ _ (by intro c hc; rw [List.mem_append] at hc; cases hc with
        | inl h => exact hsgnE c h
        | inr h => exact hiE c h)
    have hD : findIdx (· == 46) (sgn ++ i) = none :=
      findIdx_none _ _ (by intro c hc; rw [List.mem_append] at hc; cases hc with
        | inl h => exact hsgnD c h
        | inr h => exact hiD c h)
    have hfilt : ((sgn ++ i).filter (· == 46)).length = 0 := by
      rw [List.filter_append, hfiltsgn, filter_dot_digits i hdi]; rfl
    unfold newFromString at h
    simp only [hE, hD, hfilt, hparse] at h
    simp at h
    exact ⟨h.1.symm, by simp [← h.2]⟩
  · rw [if_neg hf] at h
    have hE : findIdx (fun c => c == 69 || c == 101) (sgn ++ (i ++ 46 :: f)) = none :=
      findIdx_none _ _ (by
        intro c hc
        simp only [List.mem_append, List.mem_cons] at hc
        rcases hc with h | h | h | h
        · exact hsgnE c h
        · exact hiE c h
        · subst h; rfl
        · exact hfE c h)
    have hD : findIdx (· == 46) (sgn ++ (i ++ 46 :: f)) = some (sgn.length + i.length) := by
      rw [findIdx_append_not _ _ _ hsgnD, findIdx_append_not _ _ _ hiD]
      simp [findIdx]; omega
    have hfilt : ((sgn ++ (i ++ 46 :: f)).filter (· == 46)).length = 1 := by
      rw [List.filter_append, hfiltsgn, List.filter_append, filter_dot_digits i hdi, List.filter_cons]
      simp [filter_dot_digits f hdf]
    have htake : (sgn ++ (i ++ 46 :: f)).take (sgn.length + i.length) = sgn ++ i := by
      rw [← List.append_assoc, List.take_left' (by simp)]
    have hdrop : (sgn ++ (i ++ 46 :: f)).drop (sgn.length + i.length + 1) = f := by
      rw [← List.append_assoc, show sgn ++ i ++ 46 :: f = (sgn ++ i ++ [46]) ++ f from by simp]
      rw [List.drop_left' (by simp; omega)]
    unfold newFromString at h
    simp only [hE, hD, hfilt, htake, hdrop] at h
    rw [List.append_assoc] at h
    simp only [hparse] at h
    simp at h
    exact ⟨h.2.1.symm, h.2.2.symm⟩

theorem natToDecAux_len_le (fuel n k : Nat) (acc : Bytes) (hk : 1 ≤ k) (hn : n < 10 ^ k) :
    (natToDecAux fuel n acc).length ≤ k + acc.length := by
  induction fuel generalizing n k acc with
  | zero => simp [natToDecAux]
  | succ fuel ih =>
    unfold natToDecAux
    split
    · simp; omega
    · rename_i h10
      have hk2 : 2 ≤ k := by
        by_contra hc
        have : k = 1 := by omega
        subst this; simp at hn; omega
      have : n / 10 < 10 ^ (k - 1) := by
        have : 10 ^ k = 10 ^ (k - 1) * 10 := by rw [← Nat.pow_succ]; congr 1; omega
        rw [this] at hn
        exact Nat.div_lt_of_lt_mul (by omega)
      have := ih (n / 10) (k - 1) (UInt8.ofNat (48 + n % 10) :: acc) (by omega) this
      rw [List.length_cons] at this; omega

theorem natToDec_len_le (n k : Nat) (hk : 1 ≤ k) (hn : n < 10 ^ k) : (natToDec n).length ≤ k := by
  have := natToDecAux_len_le (n + 1) n k [] hk hn
  unfold natToDec; simpa using this

theorem trim_len_le (s : Bytes) : (trimTrailingZeros s).length ≤ s.length := by
  obtain ⟨k, hk⟩ := trim_spec s
  have := congrArg List.length hk
  simp at this; omega

theorem decimalString_len (u : Int) (sc : Nat) :
    (decimalString u (-(sc : Int))).length ≤ (natToDec u.natAbs).length + sc + 3 := by
  by_cases hsc : sc = 0
  · subst hsc
    have hds : decimalString u (-((0 : Nat) : Int)) = intToDec u := by
      unfold decimalString; simp
    rw [hds]; unfold intToDec
    split <;> simp
  · have hexp : ¬ (-(sc : Int) ≥ 0) := by omega
    have he : (- -(sc : Int)).toNat = sc := by omega
    unfold decimalString
    rw [if_neg hexp]
    simp only [he]
    generalize natToDec u.natAbs = str
    have h1 : ∀ p : Bytes × Bytes, p = (if str.length > sc then (str.take (str.length - sc), str.drop (str.length - sc))
          else ([48], List.replicate (sc - str.length) 48 ++ str)) → p.1.length ≤ str.length + 1 ∧ p.2.length ≤ sc := by
      intro p hp
      split at hp <;> subst hp <;> simp <;> omega
    obtain ⟨ha, hb⟩ := h1 _ rfl
    generalize (if str.length > sc then (str.take (str.length - sc), str.drop (str.length - sc))
          else ([48], List.replicate (sc - str.length) 48 ++ str)) = p at ha hb
    have ht := trim_len_le p.2
    split <;> split <;> simp <;> omega

/-- A decimal cell: what `NewFromString` + `String()` produce reads back (by the
    spec's reader) as the same number; and it is not much longer than the cell. -/
theorem decimal_cell_roundtrip (cell : Bytes) (u : Int) (sc : Nat) (v e : Int)
    (hd : decimalText cell = some (u, sc)) (hn : newFromString cell = some (v, e)) :
    (∃ u' sc', decimalText (decimalString v e) = some (u', sc') ∧ u' * 10 ^ sc = u * 10 ^ sc')
    ∧ (decimalString v e).length ≤ 2 * cell.length + 3 := by
  obtain ⟨neg, i, f, hcell, hi, hdi, hdf, hlen, hu⟩ := decimalText_shape cell u sc hd
  rw [hcell] at hn
  obtain ⟨hv, he⟩ := newFromString_shape neg i f hi hdi hdf v e hn
  rw [hv, he, ← hu, hlen]
  refine ⟨decimalString_roundtrip u sc, ?_⟩
  have hdif : (i ++ f).all isDigit = true := by rw [List.all_append, hdi, hdf]; rfl
  have hlt := decVal_lt (i ++ f) hdif
  have habs : u.natAbs = decVal (i ++ f) := by rw [hu]; cases neg <;> simp
  have hil : 1 ≤ (i ++ f).length := by
    cases i with
    | nil => exact absurd rfl hi
    | cons c cs => simp
  have h1 := natToDec_len_le u.natAbs (i ++ f).length hil (by rw [habs]; exact hlt)
  have h2 := decimalString_len u sc
  have h3 : (i ++ f).length ≤ cell.length := by
    rw [hcell]; cases neg <;> by_cases hf : f = [] <;> (simp [hf]; try omega)
  have h4 : sc ≤ cell.length := by
    rw [← hlen]; simp only [List.length_append] at h3; omega
  omega

end GaeaVerif.C13
