import GaeaVerif.Lemmas.LexC17Basic
/-
  Helper lemmas for C17: every dispatch of the scanner makes progress, so the
  loop of `SplitStatementToPieces` ends for every text.
-/
namespace GaeaVerif.LexC17
open GaeaVerif

theorem scanIdentifier_pos (rest : Bytes) (h : rest ≠ []) : 1 ≤ scanIdentifier rest := by
  have := peek_width_pos rest h
  simp only [scanIdentifier]; omega

theorem startWithAt_pos (rest : Bytes) : 1 ≤ (startWithAt rest).2 := by
  simp only [startWithAt]; split <;> simp only <;> omega

theorem opLen_pos (rest : Bytes) : 1 ≤ opLen rest := by
  unfold opLen; split <;> omega

theorem startWithXxBb_pos (p : UInt8 → Bool) (rest : Bytes) : 1 ≤ startWithXxBb p rest := by
  unfold startWithXxBb
  simp only []
  repeat' split
  all_goals omega

theorem scanFloat_ge (rest0 : Bytes) : spanLen isDigitB rest0 ≤ scanFloat rest0 := by
  unfold scanFloat
  simp only []
  repeat' split
  all_goals omega

theorem scanFloat_dot (t : Bytes) : 1 ≤ scanFloat (0x2E :: t) := by
  unfold scanFloat
  have hd : spanLen isDigitB ((0x2E : UInt8) :: t) = 0 := by
    simp [spanLen, List.takeWhile, isDigitB, isDigit]
  have : (0x2E : UInt8).toNat = 0x2E := by decide
  simp only [hd, List.drop_zero, this, if_true]
  repeat' split
  all_goals omega

theorem startWithDot_pos (t : Bytes) : 1 ≤ startWithDot (0x2E :: t) := by
  have := scanFloat_dot t
  unfold startWithDot
  simp only []
  repeat' split
  all_goals omega

theorem numberPrefix_pos (b : UInt8) (t : Bytes) (hf : 1 ≤ scanFloat (b :: t)) :
    (∀ n, numberPrefix (b :: t) = .inr n → 1 ≤ n) ∧ (∀ k, numberPrefix (b :: t) = .inl k → 1 ≤ k) := by
  unfold numberPrefix
  simp only [List.drop_succ_cons, List.drop_zero]
  repeat' split
  all_goals (constructor <;> intro x hx <;> simp only [Sum.inr.injEq, Sum.inl.injEq, reduceCtorEq] at hx <;> omega)

theorem numberTail_pos (rest0 : Bytes) (k : Nat) (hk : 1 ≤ k) (hf : 1 ≤ scanFloat rest0) : 1 ≤ numberTail rest0 k := by
  unfold numberTail
  simp only []
  repeat' split
  all_goals omega

theorem startWithNumber_pos (b : UInt8) (t : Bytes) (hb : isDigit b.toNat = true) : 1 ≤ startWithNumber (b :: t) := by
  have hd1 : 1 ≤ spanLen isDigitB (b :: t) := by
    simp [spanLen, List.takeWhile, isDigitB, hb]
  have hf : 1 ≤ scanFloat (b :: t) := Nat.le_trans hd1 (scanFloat_ge (b :: t))
  have hp := numberPrefix_pos b t hf
  unfold startWithNumber
  cases hpre : numberPrefix (b :: t) with
  | inr n => exact hp.1 n hpre
  | inl k => exact numberTail_pos _ k (hp.2 k hpre) hf

theorem incLine_pos (b : UInt8) (t : Bytes) (hb : b.toNat < 0x80) (hn : b.toNat ≠ 0x0A) :
    1 ≤ incAsLongAs (· ≠ 0x0A) (b :: t) := by
  rw [incAsLongAs_step _ _ (by simp) (by rw [peek_ascii b t hb]; simpa using hn), peek_ascii b t hb]
  omega

/-! ### comments -/

theorem commentLoop_le : ∀ (fuel : Nat) (star : Bool) (l : Bytes) (k : Nat),
    commentLoop fuel star l = some k → 1 ≤ k ∧ k ≤ l.length := by
  intro fuel
  induction fuel with
  | zero => intro star l k h; simp [commentLoop] at h
  | succ n ih =>
    intro star l k h
    cases l with
    | nil => simp [commentLoop] at h
    | cons b t =>
      have hw := peek_width_pos (b :: t) (by simp)
      have hwl := peek_width_le (b :: t)
      simp only [commentLoop] at h
      split at h
      · simp only [Option.some.injEq] at h; omega
      · simp only [Option.map_eq_some_iff] at h
        obtain ⟨k', hk', rfl⟩ := h
        have := ih _ _ _ hk'
        simp only [List.length_drop] at this
        omega

theorem sqlOffsetInComment_pos (c : Bytes) (hc : 2 ≤ c.length) (b : Nat) (h : sqlOffsetInComment c = some b) :
    1 ≤ b ∧ b < c.length := by
  unfold sqlOffsetInComment at h
  simp only [] at h
  cases hfi : c.findIdx? isSpaceB with
  | none =>
    simp only [hfi] at h
    rw [if_pos (by omega)] at h
    split at h
    · simp only [Option.some.injEq] at h; omega
    · simp at h
  | some i =>
    have hlt : i < c.length := (List.findIdx?_eq_some_iff_getElem.mp hfi).1
    simp only [hfi] at h
    rw [if_pos hlt] at h
    split at h
    · simp only [Option.some.injEq] at h; omega
    · simp at h

theorem length_dropWhile_le' (p : UInt8 → Bool) : ∀ l : Bytes, (l.dropWhile p).length ≤ l.length := by
  intro l
  induction l with
  | nil => simp
  | cons a t ih =>
    simp only [List.dropWhile]
    split
    · simp only [List.length_cons]; omega
    · exact Nat.le_refl _

theorem trimComment_le (c : Bytes) : (trimComment c).length + 3 ≤ c.length ∨ (trimComment c) = [] := by
  unfold trimComment
  simp only []
  have h3 : 3 ≤ specCodeStartLen c := by unfold specCodeStartLen; simp only []; omega
  by_cases hl : c.length ≤ specCodeStartLen c
  · right
    have : c.drop (specCodeStartLen c) = [] := List.drop_eq_nil_of_le hl
    simp [this]
  · left
    have h1 : ((List.take ((c.drop (specCodeStartLen c)).length - 2) (c.drop (specCodeStartLen c))).reverse.dropWhile isBlankB).reverse.length
        ≤ (c.drop (specCodeStartLen c)).length - 2 := by
      rw [List.length_reverse]
      refine Nat.le_trans (length_dropWhile_le' _ _) ?_
      rw [List.length_reverse, List.length_take]
      omega
    simp only [List.length_drop] at h1 ⊢
    omega


/-! ### one dispatch -/

/-- Progress made by one dispatch on the unread input `rest`. -/
def StepOK (rest : Bytes) : Step → Prop
  | .tok _ n => 1 ≤ n
  | .skip n => 1 ≤ n
  | .special _ n inner _ => inner.length + 3 ≤ n ∧ n ≤ rest.length
  | .unclosed => True
  | .panic => True

theorem startWithDash_ok (b : UInt8) (t : Bytes) (hb : b.toNat = 0x2D) : StepOK (b :: t) (startWithDash (b :: t)) := by
  have hi : ∀ t', 1 ≤ incAsLongAs (· ≠ 0x0A) (b :: t') := fun t' => incLine_pos b t' (by omega) (by omega)
  unfold startWithDash
  repeat' split
  all_goals (simp only [StepOK]; first | omega | exact hi _)

theorem startWithDot_pos' (b : UInt8) (t : Bytes) (hb : b.toNat = 0x2E) : 1 ≤ startWithDot (b :: t) := by
  have : b = 0x2E := UInt8.toNat_inj.mp (by rw [hb]; decide)
  rw [this]; exact startWithDot_pos t

theorem startWithSlash_ok (b : UInt8) (t : Bytes) : StepOK (b :: t) (startWithSlash (b :: t)) := by
  unfold startWithSlash
  cases t with
  | nil => simp [StepOK]
  | cons a t' =>
    simp only
    split
    · cases hcl : commentLoop t'.length false t' with
      | none => simp [StepOK]
      | some k =>
        obtain ⟨hk1, hk2⟩ := commentLoop_le _ _ _ _ hcl
        have hlen : (List.take (2 + k) (b :: a :: t')).length = 2 + k := by
          simp only [List.length_take, List.length_cons]; omega
        simp only
        cases t' with
        | nil => simp at hk2; omega
        | cons x t'' =>
          simp only
          split
          · -- hint
            cases hso : sqlOffsetInComment (List.take (2 + k) (b :: a :: x :: t'')) with
            | none => simp [StepOK]
            | some begin =>
              obtain ⟨hb1, hb2⟩ := sqlOffsetInComment_pos _ (by rw [hlen]; omega) _ hso
              simp only [StepOK, List.length_drop, List.length_take, List.length_cons] at *
              omega
          · split
            · cases hso : sqlOffsetInComment (List.take (2 + k) (b :: a :: x :: t'')) with
              | none => simp [StepOK]
              | some begin =>
                simp only [StepOK]
                rcases trimComment_le (List.take (2 + k) (b :: a :: x :: t'')) with h | h
                · rw [hlen] at h
                  simp only [List.length_cons] at *
                  omega
                · rw [h]
                  simp only [List.length_nil, List.length_cons] at *
                  omega
            · simp only [StepOK]; omega
    · simp [StepOK]

theorem stepOK_ite (r : Bytes) (c : Prop) [Decidable c] (a b : Step) (ha : c → StepOK r a) (hb : ¬ c → StepOK r b) :
    StepOK r (if c then a else b) := by
  split
  · exact ha ‹_›
  · exact hb ‹_›

theorem plainStep_progress (rest : Bytes) (h : rest ≠ []) : StepOK rest (plainStep rest) := by
  cases rest with
  | nil => exact absurd rfl h
  | cons b t =>
    have hw := peek_width_pos (b :: t) (by simp)
    have hq : 1 ≤ scanQuotedIdent (b :: t) := by simp only [scanQuotedIdent]; omega
    have hs : 1 ≤ startString (b :: t) := by simp only [startString]; omega
    unfold plainStep
    dsimp only
    repeat' (refine stepOK_ite _ _ _ _ (fun _ => ?_) (fun _ => ?_))
    all_goals first
      | exact startWithDash_ok b t (by assumption)
      | exact startWithSlash_ok b t
      | (simp only [StepOK]
         first
           | exact hw
           | exact hq
           | exact hs
           | exact scanIdentifier_pos _ (by simp)
           | exact startWithAt_pos _
           | exact startWithXxBb_pos _ _
           | exact opLen_pos _
           | exact startWithDot_pos' b t (by assumption)
           | exact startWithNumber_pos b t (by assumption)
           | exact incLine_pos b t (by omega) (by omega))

end GaeaVerif.LexC17
