import GaeaVerif.Model.HealthSpec
import Mathlib.Tactic.SplitIfs
/-
  Helper lemmas shared by Props/C27 and Props/C28: how the replication
  classification of the spec (`syncSpec`) relates to checkSlaveSyncStatus.
-/
namespace GaeaVerif.Health

theorem rawRunning_eq (v : RawVal) : rawRunning v = threadRunning v := by
  cases v <;> rfl

theorem threadStopped_not_running (v : RawVal) (h : threadStopped v = true) : threadRunning v = false := by
  cases v <;> simp_all [threadRunning, threadStopped]

theorem toUint64_of_range (i : Int) (h0 : 0 ≤ i) (h1 : i < 18446744073709551616) : ((toUint64 i : Nat) : Int) = i := by
  unfold toUint64
  omega

theorem checkSlaveSyncStatus_noconn (sbm : Int) (q : SlaveQ) : checkSlaveSyncStatus false sbm q = true := by
  unfold checkSlaveSyncStatus; split <;> simp

theorem rowSpec_good (sbm : Int) (lag io sql : RawVal) (h : rowSpec sbm lag io sql = .good) :
    (rawLag lag : Int) ≤ sbm ∧ threadRunning io = true ∧ threadRunning sql = true := by
  unfold rowSpec at h
  split at h
  · simp at h
  · split at h
    · split at h
      · simp at h
      · split at h
        · rename_i n h2 h3
          simp only [Bool.and_eq_true] at h3
          exact ⟨by simp only [rawLag]; omega, h3.1, h3.2⟩
        · simp at h
    · simp at h

theorem rowSpec_bad (sbm : Int) (lag io sql : RawVal) (h : rowSpec sbm lag io sql = .bad) :
    (rawLag lag : Int) > sbm ∨ threadRunning io = false ∨ threadRunning sql = false := by
  unfold rowSpec at h
  split at h
  · rename_i h1
    simp only [Bool.or_eq_true] at h1
    rcases h1 with h1 | h1
    · exact .inr (.inl (threadStopped_not_running _ h1))
    · exact .inr (.inr (threadStopped_not_running _ h1))
  · split at h
    · split at h
      · rename_i n h2
        exact .inl (by simp only [rawLag]; omega)
      · split at h <;> simp at h
    · simp at h

theorem syncSpec_good_alive (sbm : Int) (q : SlaveQ) (conn : Bool) (hs : sbm < 9223372036854775808)
    (h : syncSpec sbm q = .good) : checkSlaveSyncStatus conn sbm q = true := by
  unfold syncSpec at h
  unfold checkSlaveSyncStatus
  by_cases h0 : sbm = 0
  · simp [h0]
  · simp only [beq_iff_eq, h0, if_false] at h ⊢
    by_cases hn : sbm < 0
    · simp [hn] at h
    · simp only [hn, if_false] at h
      cases conn
      · simp
      · cases q with
        | noPriv => simp [getSlaveStatus]
        | empty => simp [getSlaveStatus]
        | err => simp at h
        | nilRes => simp at h
        | row lag io sql =>
          have hu := toUint64_of_range sbm (by omega) (by omega)
          obtain ⟨a, b, c⟩ := rowSpec_good _ _ _ _ h
          simp only [getSlaveStatus, rawRunning_eq, b, c]
          simp
          omega

theorem syncSpec_bad_dead (sbm : Int) (q : SlaveQ) (hs : sbm < 9223372036854775808)
    (h : syncSpec sbm q = .bad) : checkSlaveSyncStatus true sbm q = false := by
  unfold syncSpec at h
  unfold checkSlaveSyncStatus
  by_cases h0 : sbm = 0
  · simp [h0] at h
  · simp only [beq_iff_eq, h0, if_false] at h ⊢
    by_cases hn : sbm < 0
    · simp [hn] at h
    · simp only [hn, if_false] at h
      cases q with
      | noPriv => simp at h
      | empty => simp at h
      | err => simp at h
      | nilRes => simp at h
      | row lag io sql =>
        have hu := toUint64_of_range sbm (by omega) (by omega)
        simp only [getSlaveStatus, rawRunning_eq]
        rcases rowSpec_bad _ _ _ _ h with a | b | c
        · simp; intro; omega
        · simp [b]
        · simp [c]

/-! ### the rounds as explicit status functions -/

/-- The time of the node's last successful probe after a round at `now`. -/
def lastOkAfter (ok : Bool) (now : Int) (n : Node) : Int := if ok then now else n.lastChecked

theorem master_round (c : Cfg) (s : St) (now : Int) (p : Probe) :
    checkBackendMasterStatus c s now p =
      if !c.hasMaster then s else
      { s with master :=
          { lastChecked := lastOkAfter (probeOk c p) now s.master,
            up := if now - lastOkAfter (probeOk c p) now s.master ≥ c.downAfter then false
                  else (s.master.up || probeOk c p) } } := by
  obtain ⟨⟨mu, ml⟩, r, lf, erc, cscc, lr⟩ := s
  cases hok : checkInstanceStatus c.healthSql p <;> cases hm : c.hasMaster <;> cases mu <;>
    simp [checkBackendMasterStatus, probeNode, probeOk, shouldDownAfterNoAlive, setMaster, lastOkAfter, hok, hm] <;>
    split_ifs <;> simp_all

/-- The replication check as the replica rounds apply it: skipped while the
    master is down (or the slice has no master node). -/
def syncAlive (c : Cfg) (s : St) (conn : Bool) (q : SlaveQ) : Bool :=
  masterDown c s || checkSlaveSyncStatus conn c.sbm q

theorem syncAlive_noconn (c : Cfg) (s : St) (q : SlaveQ) : syncAlive c s false q = true := by
  simp [syncAlive, checkSlaveSyncStatus_noconn]

theorem noRecovery_round (c : Cfg) (s : St) (now : Int) (p : Probe) (q : SlaveQ) :
    checkWithNoRecovery c s now p q =
      { s with rep :=
          { lastChecked := lastOkAfter (probeOk c p) now s.rep,
            up := if now - lastOkAfter (probeOk c p) now s.rep ≥ c.downAfter then false
                  else if !syncAlive c s (probeOk c p) q then false
                  else (s.rep.up || probeOk c p) } } := by
  obtain ⟨m, ⟨ru, rl⟩, lf, erc, cscc, lr⟩ := s
  cases hok : checkInstanceStatus c.healthSql p <;> cases ru <;>
    simp [checkWithNoRecovery, probeNode, probeOk, shouldDownAfterNoAlive, setRep, lastOkAfter, hok, masterDown, syncAlive] <;>
    split_ifs <;> simp_all

theorem hardRecovery_round (c : Cfg) (s : St) (now : Int) (p : Probe) (q : SlaveQ) :
    checkWithHardRecovery c s now p q =
      { s with rep :=
          { lastChecked := lastOkAfter (probeOk c p) now s.rep,
            up := if now - lastOkAfter (probeOk c p) now s.rep ≥ c.downAfter then false
                  else if !syncAlive c s (probeOk c p) q then false
                  else if probeOk c p && !s.rep.up then decide (now ≥ s.lastFuse + c.cooling)
                  else s.rep.up } } := by
  obtain ⟨m, ⟨ru, rl⟩, lf, erc, cscc, lr⟩ := s
  cases hok : checkInstanceStatus c.healthSql p <;> cases ru <;>
    simp [checkWithHardRecovery, probeNode, probeOk, shouldDownAfterNoAlive, setRep, lastOkAfter, hok, masterDown, hardAllowRecovery, syncAlive] <;>
    split_ifs <;> simp_all

/-- Does a gradual round reach `AllowRecovery`? -/
def gradualAsks (c : Cfg) (s : St) (p : Probe) (q : SlaveQ) : Bool :=
  probeOk c p && !s.rep.up && decide (0 < c.downAfter) && syncAlive c s true q

theorem gradualRecovery_round (c : Cfg) (s : St) (now : Int) (p : Probe) (q : SlaveQ) :
    checkWithGradualRecovery c s now p q =
      { s with
        rep :=
          { lastChecked := lastOkAfter (probeOk c p) now s.rep,
            up := if now - lastOkAfter (probeOk c p) now s.rep ≥ c.downAfter then false
                  else if !syncAlive c s (probeOk c p) q then false
                  else if probeOk c p && !s.rep.up then decide (s.cscc ≤ 0)
                  else s.rep.up },
        cscc := if !probeOk c p && !s.rep.up then penalty s.erc
                else if gradualAsks c s p q && decide (s.cscc > 0) then s.cscc - 1 else s.cscc,
        lastRec := if gradualAsks c s p q && decide (s.cscc ≤ 0) then now else s.lastRec } := by
  obtain ⟨m, ⟨ru, rl⟩, lf, erc, cscc, lr⟩ := s
  cases hok : checkInstanceStatus c.healthSql p <;> cases ru <;>
    simp [checkWithGradualRecovery, probeNode, probeOk, shouldDownAfterNoAlive, setRep, lastOkAfter, hok, masterDown,
      gradualAllowRecovery, refreshCoolDownCount, gradualAsks, syncAlive] <;>
    split_ifs <;> simp_all <;> omega

/-- TryFuse gets past its guards: strategies installed, connection error, breaker fired. -/
def fuseFires (c : Cfg) (ce tr : Bool) : Bool := c.policy != .none && ce && tr

theorem tryFuse_eq (c : Cfg) (s : St) (now : Int) (ce tr : Bool) :
    tryFuse c s now ce tr =
      if !fuseFires c ce tr then s else
      { s with
        rep := { s.rep with up := false },
        lastFuse := if c.policy == .hard || s.rep.up then now else s.lastFuse,
        erc := if c.policy == .gradual && s.rep.up then
                 (if now - s.lastRec ≤ pingPeriod * 2 then s.erc + 1 else initErrorRecoveryCount)
               else s.erc,
        cscc := if c.policy == .gradual && s.rep.up && decide (now - s.lastRec ≤ pingPeriod * 2)
                then penalty (s.erc + 1) else s.cscc } := by
  obtain ⟨m, ⟨ru, rl⟩, lf, erc, cscc, lr⟩ := s
  unfold tryFuse
  cases hp : c.policy <;> cases ce <;> cases tr <;> cases ru <;>
    simp [fuseFires, hp, setRep, updateCoolDownCount, resetBadRecovery, isBadRecovery] <;>
    split_ifs <;> simp_all <;>
    (rename_i hd; first
      | (have hd' := of_decide_eq_true hd; exact ⟨fun h => absurd hd' (by omega), fun h => absurd hd' (by omega)⟩)
      | (have hd' := of_decide_eq_false hd; exact ⟨fun h => absurd h hd', fun h => absurd h hd'⟩))

theorem tryFuse_frame (c : Cfg) (s : St) (now : Int) (ce tr : Bool) :
    (tryFuse c s now ce tr).master = s.master ∧
    (tryFuse c s now ce tr).rep.lastChecked = s.rep.lastChecked := by
  rw [tryFuse_eq]; split <;> simp

end GaeaVerif.Health
