import GaeaVerif.Lemmas.PreviewC21Lemmas
/-
  Helper lemmas for C21: `StripLeadingComments` on leading trivia.
-/
namespace GaeaVerif.PreviewC21
open GaeaVerif GaeaVerif.LexC17

def Trivia.isXopen : Trivia → Bool
  | .xopen _ _ => true
  | _ => false

theorem solid_of (c y z : Bytes) (b : UInt8) (t : Bytes) (hc : c = b :: t) (hb : b.toNat < 0x80)
    (hsb : isLeadBlank b.toNat = false) (hz : Solid z) : Solid (c ++ (y ++ z)) := by
  obtain ⟨s, x, e2, hx, hsx⟩ := hz.last
  exact ⟨⟨b, t ++ (y ++ z), by rw [hc]; rfl, hb, hsb⟩, ⟨c ++ (y ++ s), x, by rw [e2]; simp, hx, hsx⟩⟩

theorem stripLoop_solid_nocomment (fuel : Nat) (z : Bytes) (h : hasCommentPrefix z = false) : stripLoop fuel z = z := by
  cases fuel with
  | zero => rfl
  | succ n => simp [stripLoop, h]

/-- `StripLeadingComments` removes leading white space, `/* */`, `-- ` and `#`
    comments in front of a text `z` that the loop leaves alone (it opens no
    comment, or it opens `/*!`), and trailing ASCII white space. -/
theorem stripLoop_trivia : ∀ (ts : List Trivia) (z tail : Bytes) (fuel : Nat),
    (∀ t ∈ ts, t.ok = true ∧ t.isXopen = false) → Solid z → (∀ n, stripLoop n z = z) → AsciiWs tail →
    ts.length ≤ fuel →
    stripLoop fuel (trimLeadingBlanks (renderTrivia ts ++ z ++ tail)) = z := by
  intro ts
  induction ts with
  | nil =>
    intro z tail fuel _ hz hc ht _
    simp only [renderTrivia, List.map_nil, List.flatten_nil, List.nil_append]
    rw [trimFunc_solid z tail hz ht]
    exact hc fuel
  | cons t rest ih =>
    intro z tail fuel hts hz hc ht hf
    have hrest : ∀ t' ∈ rest, t'.ok = true ∧ t'.isXopen = false := fun t' h' => hts t' (by simp [h'])
    obtain ⟨hok, hnx⟩ := hts t (by simp)
    simp only [List.length_cons] at hf
    have hrender : renderTrivia (t :: rest) = t.render ++ renderTrivia rest := by simp [renderTrivia]
    rw [hrender]
    cases t with
    | ws bs =>
      simp only [Trivia.ok, Bool.and_eq_true, List.all_eq_true] at hok
      simp only [Trivia.render, List.append_assoc]
      rw [trimFunc_ws_prefix bs _ (fun b hb => lead_byte b (hok.2 b hb))]
      have := ih z tail fuel hrest hz hc ht (by omega)
      simpa [List.append_assoc] using this
    | cblock body =>
      simp only [Trivia.ok, Bool.and_eq_true] at hok
      obtain ⟨hfree, hfirst⟩ := hok
      obtain ⟨fuel, rfl⟩ : ∃ f, fuel = f + 1 := ⟨fuel - 1, by omega⟩
      -- the text from the comment on is solid
      have hsol : Solid ((0x2F :: 0x2A :: body ++ [0x2A, 0x2F]) ++ (renderTrivia rest ++ z)) :=
        solid_of _ _ z 0x2F _ rfl (by decide) (by decide) hz
      have e : (Trivia.cblock body).render ++ renderTrivia rest ++ z ++ tail
          = ((0x2F :: 0x2A :: body ++ [0x2A, 0x2F]) ++ (renderTrivia rest ++ z)) ++ tail := by
        simp [Trivia.render, List.append_assoc]
      rw [e, trimFunc_solid _ tail hsol ht]
      have hidx : indexSub cStarSlash ((((0x2F : UInt8) :: 0x2A :: body ++ [0x2A, 0x2F]) ++ (renderTrivia rest ++ z)).drop 2)
          = some body.length := by
        have : (((0x2F : UInt8) :: 0x2A :: body ++ [0x2A, 0x2F]) ++ (renderTrivia rest ++ z)).drop 2
            = body ++ 0x2A :: 0x2F :: (renderTrivia rest ++ z) := by simp
        rw [this]
        exact indexSub_starslash body _ (by simpa [Trivia.ok.blockFree] using hfree)
      have hbang : thirdIsBang (((0x2F : UInt8) :: 0x2A :: body ++ [0x2A, 0x2F]) ++ (renderTrivia rest ++ z)) = false := by
        cases body with
        | nil => simp [thirdIsBang]
        | cons b t =>
          simp only [ne_eq, decide_eq_true_eq] at hfirst
          simp [thirdIsBang, hfirst]
      simp only [stripLoop]
      rw [if_pos (by simp [hasCommentPrefix])]
      simp only [List.cons_append]
      rw [if_pos (by decide)]
      simp only [List.cons_append] at hidx hbang
      rw [hidx]
      simp only [hbang, Bool.false_eq_true, if_false]
      have hdrop : (((0x2F : UInt8) :: 0x2A :: (body ++ [0x2A, 0x2F] ++ (renderTrivia rest ++ z)))).drop (body.length + 4)
          = renderTrivia rest ++ z := by
        have : ((0x2F : UInt8) :: 0x2A :: (body ++ [0x2A, 0x2F] ++ (renderTrivia rest ++ z)))
            = (0x2F :: 0x2A :: body ++ [0x2A, 0x2F]) ++ (renderTrivia rest ++ z) := by simp
        rw [this, List.drop_left' (by simp)]
      rw [hdrop]
      have := ih z [] fuel hrest hz hc (by intro b hb; simp at hb) (by omega)
      simpa using this
    | cdash body =>
      simp only [Trivia.ok, Bool.and_eq_true, List.all_eq_true, decide_eq_true_eq] at hok
      obtain ⟨fuel, rfl⟩ : ∃ f, fuel = f + 1 := ⟨fuel - 1, by omega⟩
      have hsol : Solid ((0x2D :: 0x2D :: body ++ [0x0A]) ++ (renderTrivia rest ++ z)) :=
        solid_of _ _ z 0x2D _ rfl (by decide) (by decide) hz
      have e : (Trivia.cdash body).render ++ renderTrivia rest ++ z ++ tail
          = ((0x2D :: 0x2D :: body ++ [0x0A]) ++ (renderTrivia rest ++ z)) ++ tail := by
        simp [Trivia.render, List.append_assoc]
      rw [e, trimFunc_solid _ tail hsol ht]
      have hidx : indexSub [0x0A] (((0x2D : UInt8) :: 0x2D :: body ++ [0x0A]) ++ (renderTrivia rest ++ z))
          = some (body.length + 2) := by
        have : (((0x2D : UInt8) :: 0x2D :: body ++ [0x0A]) ++ (renderTrivia rest ++ z))
            = (0x2D :: 0x2D :: body) ++ 0x0A :: (renderTrivia rest ++ z) := by simp
        rw [this, indexSub_nl _ _ (by
          intro b hb
          simp only [List.mem_cons] at hb
          rcases hb with rfl | rfl | hb
          · decide
          · decide
          · simpa using hok.2 b hb)]
        simp
      simp only [stripLoop]
      rw [if_pos (by simp [hasCommentPrefix])]
      simp only [List.cons_append]
      rw [if_neg (by decide)]
      simp only [List.cons_append] at hidx
      rw [hidx]
      simp only
      have hdrop : (((0x2D : UInt8) :: 0x2D :: (body ++ [0x0A] ++ (renderTrivia rest ++ z)))).drop (body.length + 2 + 1)
          = renderTrivia rest ++ z := by
        have : ((0x2D : UInt8) :: 0x2D :: (body ++ [0x0A] ++ (renderTrivia rest ++ z)))
            = (0x2D :: 0x2D :: body ++ [0x0A]) ++ (renderTrivia rest ++ z) := by simp
        rw [this, List.drop_left' (by simp)]
      rw [hdrop]
      have := ih z [] fuel hrest hz hc (by intro b hb; simp at hb) (by omega)
      simpa using this
    | chash body =>
      simp only [Trivia.ok, List.all_eq_true, decide_eq_true_eq] at hok
      obtain ⟨fuel, rfl⟩ : ∃ f, fuel = f + 1 := ⟨fuel - 1, by omega⟩
      have hsol : Solid ((0x23 :: body ++ [0x0A]) ++ (renderTrivia rest ++ z)) :=
        solid_of _ _ z 0x23 _ rfl (by decide) (by decide) hz
      have e : (Trivia.chash body).render ++ renderTrivia rest ++ z ++ tail
          = ((0x23 :: body ++ [0x0A]) ++ (renderTrivia rest ++ z)) ++ tail := by
        simp [Trivia.render, List.append_assoc]
      rw [e, trimFunc_solid _ tail hsol ht]
      have hidx : indexSub [0x0A] (((0x23 : UInt8) :: body ++ [0x0A]) ++ (renderTrivia rest ++ z))
          = some (body.length + 1) := by
        have : (((0x23 : UInt8) :: body ++ [0x0A]) ++ (renderTrivia rest ++ z))
            = (0x23 :: body) ++ 0x0A :: (renderTrivia rest ++ z) := by simp
        rw [this, indexSub_nl _ _ (by
          intro b hb
          simp only [List.mem_cons] at hb
          rcases hb with rfl | hb
          · decide
          · simpa using hok b hb)]
        simp
      -- a `#` comment needs a second byte to count as a comment prefix: it has one (at least the newline)
      simp only [stripLoop]
      rw [if_pos (by
        cases body <;> simp [hasCommentPrefix])]
      simp only [List.cons_append]
      rw [if_neg (by decide)]
      simp only [List.cons_append] at hidx
      rw [hidx]
      simp only
      have hdrop : (((0x23 : UInt8) :: (body ++ [0x0A] ++ (renderTrivia rest ++ z)))).drop (body.length + 1 + 1)
          = renderTrivia rest ++ z := by
        have : ((0x23 : UInt8) :: (body ++ [0x0A] ++ (renderTrivia rest ++ z)))
            = (0x23 :: body ++ [0x0A]) ++ (renderTrivia rest ++ z) := by simp
        rw [this, List.drop_left' (by simp)]
      rw [hdrop]
      have := ih z [] fuel hrest hz hc (by intro b hb; simp at hb) (by omega)
      simpa using this
    | xopen v bl => simp [Trivia.isXopen] at hnx


theorem renderTrivia_length_ge : ∀ ts : List Trivia, (∀ t ∈ ts, t.ok = true) → ts.length ≤ (renderTrivia ts).length := by
  intro ts
  induction ts with
  | nil => intro _; simp
  | cons t rest ih =>
    intro h
    have := ih (fun t' h' => h t' (by simp [h']))
    have h1 : 1 ≤ t.render.length := by
      have hok := h t (by simp)
      cases t with
      | ws bs => cases bs <;> simp_all [Trivia.ok, Trivia.render]
      | _ => simp [Trivia.render]
    simp only [renderTrivia, List.map_cons, List.flatten_cons, List.length_append, List.length_cons] at *
    omega

/-- `StripLeadingComments` on trivia followed by a text the loop leaves alone. -/
theorem stripLeadingComments_trivia (ts : List Trivia) (z tail : Bytes)
    (hts : ∀ t ∈ ts, t.ok = true ∧ t.isXopen = false) (hz : Solid z) (hst : ∀ n, stripLoop n z = z) (ht : AsciiWs tail) :
    stripLeadingComments (renderTrivia ts ++ z ++ tail) = z := by
  simp only [stripLeadingComments]
  apply stripLoop_trivia ts z tail _ hts hz hst ht
  have := renderTrivia_length_ge ts (fun t h => (hts t h).1)
  simp only [List.length_append]
  omega

end GaeaVerif.PreviewC21
