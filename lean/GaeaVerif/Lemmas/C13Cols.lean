import GaeaVerif.Lemmas.C13Temporal
/-
  C13 helper lemmas: one column — integers, and then every column type
  (`col_correct`).
-/
namespace GaeaVerif.C13
open GaeaVerif GaeaVerif.BinRow GaeaVerif.BinProto GaeaVerif.LenEnc

theorem parseUint_some (s : Bytes) (b n : Nat) (h : parseUint s b = some n) : n = decVal s := by
  unfold parseUint at h
  split at h
  · simp at h
  · split at h
    · simp at h
    · split at h
      · simp at h; exact h.symm
      · simp at h

theorem intText_some (cell : Bytes) (x : Int) (h : intText cell = some x) :
    (∃ ds, cell = 45 :: ds ∧ ds ≠ [] ∧ ds.all isDigit = true ∧ x = -(decVal ds : Int))
    ∨ (cell ≠ [] ∧ cell.all isDigit = true ∧ x = (decVal cell : Int)) := by
  unfold intText at h
  split at h
  · rename_i ds
    left
    split at h
    · rename_i had
      have := (allDigits_iff _).1 had
      simp at h
      exact ⟨ds, rfl, this.1, this.2, h.symm⟩
    · simp at h
  · right
    split at h
    · rename_i had
      have := (allDigits_iff _).1 had
      simp at h
      exact ⟨this.1, this.2, h.symm⟩
    · simp at h

theorem intText_parseInt (cell : Bytes) (x x' : Int) (h : intText cell = some x)
    (hp : parseInt cell 64 = some x') : x' = x := by
  rcases intText_some cell x h with ⟨ds, hc, hne, hd, hx⟩ | ⟨hne, hd, hx⟩
  · subst hc
    simp only [parseInt, show ((45 : UInt8) == 45) = true from rfl, Bool.or_true, if_true] at hp
    cases hu : parseUint ds 64 with
    | none => simp [hu] at hp
    | some un =>
      have := parseUint_some _ _ _ hu
      simp only [hu] at hp
      split at hp
      · simp at hp
      · split at hp
        · simp at hp
        · simp at hp; rw [← hp, this, hx]
  · cases cell with
    | nil => exact absurd rfl hne
    | cons c cs =>
      have hd' := hd
      simp only [List.all_cons, Bool.and_eq_true] at hd
      obtain ⟨h43, h45⟩ := digit_not_sign c hd.1
      simp only [parseInt, h43, h45, Bool.or_false, Bool.false_eq_true, if_false] at hp
      cases hu : parseUint (c :: cs) 64 with
      | none => simp [hu] at hp
      | some un =>
        have := parseUint_some _ _ _ hu
        simp only [hu] at hp
        split at hp
        · simp at hp
        · simp at hp; rw [← hp, this, hx]

theorem intText_parseUint (cell : Bytes) (x : Int) (n : Nat) (h : intText cell = some x)
    (hp : parseUint cell 64 = some n) : (n : Int) = x := by
  have hn := parseUint_some _ _ _ hp
  rcases intText_some cell x h with ⟨ds, hc, hne, hd, hx⟩ | ⟨hne, hd, hx⟩
  · subst hc
    unfold parseUint at hp
    simp [isDigit] at hp
  · rw [hn, hx]

theorem intWidth_some (ty w : Nat) (h : intWidth ty = some w) :
    (ty = 1 ∧ w = 1) ∨ (ty = 2 ∧ w = 2) ∨ (ty = 13 ∧ w = 2) ∨ (ty = 3 ∧ w = 4) ∨ (ty = 9 ∧ w = 4) ∨ (ty = 8 ∧ w = 8) := by
  simp only [intWidth, TypeTiny, TypeShort, TypeYear, TypeLong, TypeInt24, TypeLonglong] at h
  split at h
  · simp at h; omega
  · split at h
    · simp at h; omega
    · split at h
      · simp at h; omega
      · split at h
        · simp at h; omega
        · simp at h

theorem takeN_leBytes (n w : Nat) (rest : Bytes) (hw : w ≤ 8) :
    takeN w ((leBytes n 8).take w ++ rest) = some (leBytes n w, rest) := by
  rw [leBytes_take n 8 w hw]
  exact takeN_append' _ _ _ (by simp [GaeaVerif.C12.leBytes_length])

/-- The bytes `AppendBinaryValue` emits for an integer value and what the spec
    decoder reads from them. -/
theorem int_value_roundtrip (w : Nat) (hw : w = 1 ∨ w = 2 ∨ w = 4 ∨ w = 8) (unsigned : Bool) (x : Int)
    (hr : inIntRange w unsigned x = true) :
    (if unsigned then ((leNat (leBytes ((x % 18446744073709551616).toNat) w) : Nat) : Int)
      else toSigned w (leNat (leBytes ((x % 18446744073709551616).toNat) w))) = x
    ∧ (unsigned = true → leNat (leBytes x.toNat w) = x.toNat ∧ 0 ≤ x) := by
  unfold inIntRange at hr
  rw [leNat_leBytes_mod, leNat_leBytes_mod]
  unfold toSigned
  rcases hw with e | e | e | e <;> subst e <;> cases unsigned <;> simp at hr ⊢ <;> (try constructor) <;> (try split) <;> omega

theorem abv_i64 (ops : FloatOps) (ty w : Nat) (x : Int) (hwid : intWidth ty = some w) :
    appendBinaryValue ops ty (.i64 x) = .ok ((leBytes ((x % 18446744073709551616).toNat) 8).take w)
      ∧ isIntFieldType ty = true ∧ (w = 1 ∨ w = 2 ∨ w = 4 ∨ w = 8) := by
  rcases intWidth_some ty w hwid with ⟨e1, e2⟩ | ⟨e1, e2⟩ | ⟨e1, e2⟩ | ⟨e1, e2⟩ | ⟨e1, e2⟩ | ⟨e1, e2⟩ <;>
    subst e1 <;> subst e2 <;>
    simp [appendBinaryValue, binaryValueBytes, GaeaVerif.C12.leBytes_length, isIntFieldType]

theorem abv_u64 (ops : FloatOps) (ty w : Nat) (n : Nat) (hwid : intWidth ty = some w) :
    appendBinaryValue ops ty (.u64 n) = .ok ((leBytes n 8).take w) := by
  rcases intWidth_some ty w hwid with ⟨e1, e2⟩ | ⟨e1, e2⟩ | ⟨e1, e2⟩ | ⟨e1, e2⟩ | ⟨e1, e2⟩ | ⟨e1, e2⟩ <;>
    subst e1 <;> subst e2 <;>
    simp [appendBinaryValue, binaryValueBytes, GaeaVerif.C12.leBytes_length]

theorem int_col (ops : FloatOps) (ty flag w : Nat) (cell : Bytes) (x : Int) (v : GoVal) (b rest : Bytes)
    (hwid : intWidth ty = some w) (hx : intText cell = some x)
    (hr : inIntRange w (Field.isUnsigned ⟨ty, flag⟩) x = true)
    (hpt : parseTextValue ops ⟨ty, flag⟩ cell = .ok v)
    (habv : appendBinaryValue ops ty v = .ok b) :
    decodeValue ⟨ty, flag⟩ (b ++ rest) = some (.int x, rest) := by
  obtain ⟨hi64, hint, hw⟩ := abv_i64 ops ty w x hwid
  have hw8 : w ≤ 8 := by omega
  obtain ⟨hrt, hrtu⟩ := int_value_roundtrip w hw (Field.isUnsigned ⟨ty, flag⟩) x hr
  unfold parseTextValue at hpt
  simp only [hint, if_true] at hpt
  unfold decodeValue
  simp only [hwid]
  cases hu : Field.isUnsigned ⟨ty, flag⟩ with
  | true =>
    rw [hu] at hrt hrtu
    simp only [hu, if_true] at hpt
    cases hp : parseUint cell 64 with
    | none => simp [hp] at hpt
    | some n =>
      simp only [hp, Res.ok.injEq] at hpt
      subst hpt
      rw [abv_u64 ops ty w n hwid] at habv
      simp only [Res.ok.injEq] at habv
      subst habv
      have hnx := intText_parseUint cell x n hx hp
      have hn : n = x.toNat := by omega
      rw [takeN_leBytes n w rest hw8]
      simp only [Option.map_some, if_true]
      rw [hn, (hrtu rfl).1]
      have := (hrtu rfl).2
      congr 3; omega
  | false =>
    rw [hu] at hrt
    simp only [hu, Bool.false_eq_true, if_false] at hpt hrt
    cases hp : parseInt cell 64 with
    | none => simp [hp] at hpt
    | some x' =>
      simp only [hp, Res.ok.injEq] at hpt
      subst hpt
      have := intText_parseInt cell x x' hx hp
      subst this
      rw [hi64] at habv
      simp only [Res.ok.injEq] at habv
      subst habv
      rw [takeN_leBytes _ w rest hw8]
      simp only [Option.map_some, Bool.false_eq_true, if_false, hrt]

/-- What is assumed of the opaque float functions: they return bit patterns of
    the right width. -/
def FloatOpsOk (ops : FloatOps) : Prop :=
  (∀ b, ops.toF32 b < 2 ^ 32) ∧ (∀ s b, ops.parseFloat s = some b → b < 2 ^ 64)

theorem same_refl (v : Val) : Val.same v v = true := by
  cases v <;> simp [Val.same]

/-- Columns whose cells are byte strings: the value is sent as a
    length-encoded string, or refused. -/
theorem bytes_col (ops : FloatOps) (ty flag : Nat) (cell : Bytes) (v : GoVal) (b rest : Bytes)
    (hty : isBytesType ty = true) (hlen : cell.length < 2 ^ 64)
    (hpt : parseTextValue ops ⟨ty, flag⟩ cell = .ok v)
    (habv : appendBinaryValue ops ty v = .ok b) :
    decodeValue ⟨ty, flag⟩ (b ++ rest) = some (.bytes cell, rest) := by
  have hl := takeLenEnc_append cell rest hlen
  simp only [isBytesType, Bool.or_eq_true, beq_iff_eq] at hty
  rcases hty with ((((((((((h | h) | h) | h) | h) | h) | h) | h) | h) | h) | h) | h <;> subst h <;>
    simp [parseTextValue, isIntFieldType, isStringFieldType] at hpt <;> subst hpt <;>
    simp [appendBinaryValue, binaryValueBytes, isLenEncFieldType, isRawFieldType] at habv <;>
    (try subst habv) <;>
    simp [decodeValue, intWidth, isBytesType, hl]

theorem float_col (ops : FloatOps) (hops : FloatOpsOk ops) (flag : Nat) (cell : Bytes) (d : Val) (v : GoVal)
    (b rest : Bytes)
    (hden : (ops.parseFloat cell).map (fun b => Val.f32 (ops.toF32 b)) = some d)
    (hpt : parseTextValue ops ⟨4, flag⟩ cell = .ok v)
    (habv : appendBinaryValue ops 4 v = .ok b) :
    decodeValue ⟨4, flag⟩ (b ++ rest) = some (d, rest) := by
  cases hp : ops.parseFloat cell with
  | none => simp [hp] at hden
  | some bits =>
    simp [hp] at hden; subst hden
    simp [parseTextValue, isIntFieldType, hp] at hpt; subst hpt
    simp [appendBinaryValue, binaryValueBytes, GaeaVerif.C12.leBytes_length] at habv; subst habv
    have hl := GaeaVerif.C12.leNat_leBytes 4 (ops.toF32 bits) (by have := hops.1 bits; omega)
    have ht := takeN_append' (leBytes (ops.toF32 bits) 4) rest 4 (by simp [GaeaVerif.C12.leBytes_length])
    have htk : (leBytes (ops.toF32 bits) 4).take 4 = leBytes (ops.toF32 bits) 4 := leBytes_take _ 4 4 (by omega)
    simp only [decodeValue, intWidth, htk]
    simp [ht, hl]

theorem double_col (ops : FloatOps) (hops : FloatOpsOk ops) (flag : Nat) (cell : Bytes) (d : Val) (v : GoVal)
    (b rest : Bytes)
    (hden : (ops.parseFloat cell).map Val.f64 = some d)
    (hpt : parseTextValue ops ⟨5, flag⟩ cell = .ok v)
    (habv : appendBinaryValue ops 5 v = .ok b) :
    decodeValue ⟨5, flag⟩ (b ++ rest) = some (d, rest) := by
  cases hp : ops.parseFloat cell with
  | none => simp [hp] at hden
  | some bits =>
    simp [hp] at hden; subst hden
    simp [parseTextValue, isIntFieldType, hp] at hpt; subst hpt
    simp [appendBinaryValue, binaryValueBytes, GaeaVerif.C12.leBytes_length] at habv; subst habv
    have hl := GaeaVerif.C12.leNat_leBytes 8 bits (by have := hops.2 cell bits hp; omega)
    have ht := takeN_append' (leBytes bits 8) rest 8 (by simp [GaeaVerif.C12.leBytes_length])
    have htk : (leBytes bits 8).take 8 = leBytes bits 8 := leBytes_take _ 8 8 (by omega)
    simp only [decodeValue, intWidth, htk]
    simp [ht, hl]

theorem decimal_col (ops : FloatOps) (flag : Nat) (cell : Bytes) (u : Int) (sc : Nat) (v : GoVal)
    (b rest : Bytes) (hlen : cell.length < 2 ^ 62)
    (hden : decimalText cell = some (u, sc))
    (hpt : parseTextValue ops ⟨0xf6, flag⟩ cell = .ok v)
    (habv : appendBinaryValue ops 0xf6 v = .ok b) :
    ∃ v', decodeValue ⟨0xf6, flag⟩ (b ++ rest) = some (v', rest) ∧ Val.same v' (.dec u sc) = true := by
  cases hn : newFromString cell with
  | none => simp [parseTextValue, isIntFieldType, hn] at hpt
  | some p =>
    obtain ⟨val, e⟩ := p
    simp [parseTextValue, isIntFieldType, hn] at hpt; subst hpt
    simp [appendBinaryValue, binaryValueBytes, isLenEncFieldType] at habv; subst habv
    obtain ⟨⟨u', sc', hdt, hmul⟩, hl⟩ := decimal_cell_roundtrip cell u sc val e hden hn
    have ht := takeLenEnc_append (decimalString val e) rest (by omega)
    refine ⟨.dec u' sc', ?_, ?_⟩
    · simp [decodeValue, intWidth, ht, hdt]
    · simp [Val.same, hmul]

set_option linter.unusedSimpArgs false in
/-- **One column.** A non-NULL text cell that is a value of its column type,
    converted by `ParseText` and encoded by `AppendBinaryValue`, is read back by
    the binary-protocol decoder as the same value, and the decoder stops exactly
    at the end of the encoding. -/
theorem col_correct (ops : FloatOps) (hops : FloatOpsOk ops) (f : Field) (cell : Bytes) (d : Val) (v : GoVal)
    (b rest : Bytes) (hlen : cell.length < 2 ^ 62)
    (hden : denoteText ops f (some cell) = some d)
    (hpt : parseTextValue ops f cell = .ok v)
    (habv : appendBinaryValue ops f.typ v = .ok b) :
    ∃ v', decodeValue f (b ++ rest) = some (v', rest) ∧ Val.same v' d = true := by
  obtain ⟨ty, flag⟩ := f
  simp only at habv
  unfold denoteText at hden
  simp only at hden
  cases hw : intWidth ty with
  | some w =>
    simp only [hw] at hden
    cases hx : intText cell with
    | none => simp [hx] at hden
    | some x =>
      simp only [hx] at hden
      split at hden
      · rename_i hr
        simp at hden; subst hden
        exact ⟨.int x, int_col ops ty flag w cell x v b rest hw hx hr hpt habv, same_refl _⟩
      · simp at hden
  | none =>
    simp only [hw] at hden
    by_cases h4 : ty = TypeFloat
    · subst h4
      simp only [if_true] at hden
      exact ⟨d, float_col ops hops flag cell d v b rest hden hpt habv, same_refl _⟩
    by_cases h5 : ty = TypeDouble
    · subst h5
      simp only [show ¬ (TypeDouble = TypeFloat) by decide, if_false, if_true] at hden
      exact ⟨d, double_col ops hops flag cell d v b rest hden hpt habv, same_refl _⟩
    by_cases hdec : ty = TypeNewDecimal ∨ ty = TypeDecimal
    · simp only [h4, h5, hdec, if_false, if_true] at hden
      cases hdt : decimalText cell with
      | none => simp [hdt] at hden
      | some p =>
        obtain ⟨u, sc⟩ := p
        simp [hdt] at hden; subst hden
        rcases hdec with e | e
        · subst e
          exact decimal_col ops flag cell u sc v b rest hlen hdt hpt habv
        · subst e
          simp [parseTextValue, isIntFieldType, isStringFieldType] at hpt; subst hpt
          simp [appendBinaryValue, binaryValueBytes, isLenEncFieldType, isRawFieldType] at habv
          subst habv
          have ht := takeLenEnc_append cell rest (by omega)
          refine ⟨.dec u sc, ?_, ?_⟩
          · simp [decodeValue, intWidth, ht, hdt]
          · simp [Val.same]
    by_cases hdate : ty = TypeDate ∨ ty = TypeNewDate
    · simp only [h4, h5, hdec, hdate, if_false, if_true] at hden
      refine ⟨d, ?_, same_refl _⟩
      rcases hdate with e | e <;> subst e <;>
        simp [parseTextValue, isIntFieldType, isStringFieldType] at hpt <;> subst hpt <;>
        simp [appendBinaryValue, binaryValueBytes, isLenEncFieldType, isRawFieldType] at habv <;> subst habv <;>
        simp [decodeValue, intWidth, date_enc_dec cell rest d hden]
    by_cases hdtm : ty = TypeDatetime ∨ ty = TypeTimestamp
    · simp only [h4, h5, hdec, hdate, hdtm, if_false, if_true] at hden
      refine ⟨d, ?_, same_refl _⟩
      rcases hdtm with e | e <;> subst e <;>
        simp [parseTextValue, isIntFieldType, isStringFieldType] at hpt <;> subst hpt <;>
        simp [appendBinaryValue, binaryValueBytes, isLenEncFieldType, isRawFieldType] at habv <;>
        (cases hb : datetimeBytes cell with
          | err e => simp [hb] at habv
          | ok t =>
            simp [hb] at habv; subst habv
            simp [decodeValue, intWidth, datetime_enc_dec cell rest t d hden hb])
    by_cases hdur : ty = TypeDuration
    · simp only [h4, h5, hdec, hdate, hdtm, hdur, if_false, if_true] at hden
      refine ⟨d, ?_, same_refl _⟩
      subst hdur
      simp [parseTextValue, isIntFieldType, isStringFieldType] at hpt; subst hpt
      simp [appendBinaryValue, binaryValueBytes, isLenEncFieldType, isRawFieldType] at habv
      cases hb : durationBytes cell with
      | err e => simp [hb] at habv
      | ok t =>
        simp [hb] at habv; subst habv
        simp [decodeValue, intWidth, time_enc_dec cell rest t d hden hb]
    · simp only [h4, h5, hdec, hdate, hdtm, hdur, if_false] at hden
      split at hden
      · rename_i hbt
        simp at hden; subst hden
        exact ⟨.bytes cell, bytes_col ops ty flag cell v b rest hbt (by omega) hpt habv, same_refl _⟩
      · simp at hden

end GaeaVerif.C13
