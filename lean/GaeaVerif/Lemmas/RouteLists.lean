import GaeaVerif.Model.Route
/-
  Set semantics of the list routines of proxy/plan/util.go on ascending
  duplicate-free lists (helper lemmas for C01/C05).
-/
namespace GaeaVerif.Route
open GaeaVerif.Route

abbrev Sorted (l : List Int) : Prop := l.Pairwise (· < ·)

theorem makeList_mem (s e a : Int) : a ∈ makeList s e ↔ s ≤ a ∧ a < e := by
  unfold makeList
  split
  · simp; omega
  · simp only [List.mem_map, List.mem_range]
    constructor
    · rintro ⟨i, hi, rfl⟩; omega
    · intro h; exact ⟨(a - s).toNat, by omega, by omega⟩

theorem makeList_sorted (s e : Int) : Sorted (makeList s e) := by
  unfold makeList
  split
  · exact List.Pairwise.nil
  · rw [Sorted, List.pairwise_map]
    have : (List.range (e - s).toNat).Pairwise (· < ·) := List.pairwise_lt_range
    exact this.imp (by intro a b h; omega)

theorem interList_mem_left (l1 l2 : List Int) (a : Int) (h : a ∈ interList l1 l2) : a ∈ l1 ∧ a ∈ l2 := by
  fun_induction interList l1 l2 with
  | case1 => simp at h
  | case2 => simp at h
  | case3 x xs ys ih =>
    simp at h
    rcases h with h | h
    · subst h; simp
    · have := ih h; simp [this.1, this.2]
  | case4 x xs y ys hne hlt ih =>
    have := ih h; simp [this.1]; simpa using this.2
  | case5 x xs y ys hne hlt ih =>
    have := ih h; simp [this.2]; simpa using this.1

theorem interList_mem (l1 l2 : List Int) (h1 : Sorted l1) (h2 : Sorted l2) (a : Int) :
    a ∈ interList l1 l2 ↔ a ∈ l1 ∧ a ∈ l2 := by
  constructor
  · exact interList_mem_left l1 l2 a
  · fun_induction interList l1 l2 with
    | case1 => simp
    | case2 => simp
    | case3 x xs ys ih =>
      rw [Sorted, List.pairwise_cons] at h1 h2
      intro ⟨ha, hb⟩
      simp at ha hb ⊢
      rcases ha with ha | ha
      · exact Or.inl ha
      · rcases hb with hb | hb
        · exact Or.inl hb
        · exact Or.inr (ih h1.2 h2.2 ⟨ha, hb⟩)
    | case4 x xs y ys hne hlt ih =>
      rw [Sorted, List.pairwise_cons] at h1
      intro ⟨ha, hb⟩
      apply ih h1.2 h2
      simp at ha
      rcases ha with ha | ha
      · subst ha
        rw [Sorted, List.pairwise_cons] at h2
        simp at hb
        rcases hb with hb | hb
        · omega
        · have := h2.1 a hb; omega
      · exact ⟨ha, hb⟩
    | case5 x xs y ys hne hlt ih =>
      rw [Sorted, List.pairwise_cons] at h2
      intro ⟨ha, hb⟩
      apply ih h1 h2.2
      simp at hb
      rcases hb with hb | hb
      · subst hb
        rw [Sorted, List.pairwise_cons] at h1
        simp at ha
        rcases ha with ha | ha
        · omega
        · have := h1.1 a ha; omega
      · exact ⟨ha, hb⟩


theorem interList_sorted (l1 l2 : List Int) (h1 : Sorted l1) (h2 : Sorted l2) : Sorted (interList l1 l2) := by
  fun_induction interList l1 l2 with
  | case1 => exact List.Pairwise.nil
  | case2 => exact List.Pairwise.nil
  | case3 xs x ys ih =>
    rw [Sorted, List.pairwise_cons] at h1 h2 ⊢
    refine ⟨?_, ih h1.2 h2.2⟩
    intro a ha
    exact h1.1 a (interList_mem_left xs ys a ha).1
  | case4 x xs y ys hne hlt ih =>
    rw [Sorted, List.pairwise_cons] at h1
    exact ih h1.2 h2
  | case5 x xs y ys hne hlt ih =>
    rw [Sorted, List.pairwise_cons] at h2
    exact ih h1 h2.2

theorem unionList_mem (l1 l2 : List Int) (a : Int) : a ∈ unionList l1 l2 ↔ a ∈ l1 ∨ a ∈ l2 := by
  fun_induction unionList l1 l2 with
  | case1 => simp
  | case2 => simp
  | case3 x xs y ys hlt ih => simp [ih]; grind
  | case4 x xs y ys hnlt hgt ih => simp [ih]; grind
  | case5 x xs y ys hnlt hngt ih =>
    have : x = y := by omega
    subst this; simp [ih]; grind

theorem unionList_sorted (l1 l2 : List Int) (h1 : Sorted l1) (h2 : Sorted l2) : Sorted (unionList l1 l2) := by
  fun_induction unionList l1 l2 with
  | case1 => exact h2
  | case2 => exact h1
  | case3 x xs y ys hlt ih =>
    have h2' := h2
    rw [Sorted, List.pairwise_cons] at h1 h2 ⊢
    refine ⟨?_, ih h1.2 h2'⟩
    intro a ha
    rw [unionList_mem] at ha
    rcases ha with ha | ha
    · exact h1.1 a ha
    · simp at ha; rcases ha with ha | ha
      · omega
      · have := h2.1 a ha; omega
  | case4 x xs y ys hnlt hgt ih =>
    have h1' := h1
    rw [Sorted, List.pairwise_cons] at h1 h2 ⊢
    refine ⟨?_, ih h1' h2.2⟩
    intro a ha
    rw [unionList_mem] at ha
    rcases ha with ha | ha
    · simp at ha; rcases ha with ha | ha
      · omega
      · have := h1.1 a ha; omega
    · exact h2.1 a ha
  | case5 x xs y ys hnlt hngt ih =>
    have : x = y := by omega
    subst this
    rw [Sorted, List.pairwise_cons] at h1 h2 ⊢
    refine ⟨?_, ih h1.2 h2.2⟩
    intro a ha
    rw [unionList_mem] at ha
    rcases ha with ha | ha
    · exact h1.1 a ha
    · exact h2.1 a ha

theorem insertUniq_mem (a x : Int) (l : List Int) : x ∈ insertUniq a l ↔ x = a ∨ x ∈ l := by
  induction l with
  | nil => simp [insertUniq]
  | cons b bs ih =>
    simp only [insertUniq]
    split
    · simp
    · split
      · rename_i h; subst h; simp
      · simp [ih]; grind

theorem insertUniq_sorted (a : Int) (l : List Int) (h : Sorted l) : Sorted (insertUniq a l) := by
  induction l with
  | nil => simp [insertUniq, Sorted]
  | cons b bs ih =>
    simp only [insertUniq]
    split
    · rename_i hlt
      have h' := h
      rw [Sorted, List.pairwise_cons] at h ⊢
      refine ⟨?_, h'⟩
      intro c hc; simp at hc
      rcases hc with hc | hc
      · omega
      · have := h.1 c hc; omega
    · split
      · exact h
      · rename_i h1 h2
        rw [Sorted, List.pairwise_cons] at h ⊢
        refine ⟨?_, ih h.2⟩
        intro c hc
        rw [insertUniq_mem] at hc
        rcases hc with hc | hc
        · omega
        · exact h.1 c hc

theorem sortDedup_mem (l : List Int) (x : Int) : x ∈ sortDedup l ↔ x ∈ l := by
  induction l with
  | nil => simp [sortDedup]
  | cons a as ih =>
    have : sortDedup (a :: as) = insertUniq a (sortDedup as) := rfl
    rw [this, insertUniq_mem, ih]; simp

theorem sortDedup_sorted (l : List Int) : Sorted (sortDedup l) := by
  induction l with
  | nil => simp [sortDedup, Sorted]
  | cons a as ih =>
    have : sortDedup (a :: as) = insertUniq a (sortDedup as) := rfl
    rw [this]; exact insertUniq_sorted a _ ih

end GaeaVerif.Route
