import GaeaVerif.Lemmas.TokenizeC06
import GaeaVerif.Model.TabRefC06
/-
  Lemmas about the words of a text (`identWords`, the word scan of
  `MentionsShardTable`) and the grammar of table references of
  `Model/TabRefC06.lean`, used by Props/C06.
-/
namespace GaeaVerif.FastPath
open GaeaVerif GaeaVerif.Tok

/-! ### `fieldsFunc`, generally -/

theorem fieldsFunc_sep (f : Char → Bool) (s : Char) (hs : f s = true) (a b : Str) :
    fieldsFunc f (a ++ s :: b) = fieldsFunc f a ++ fieldsFunc f b :=
  fieldsAux_sep f s hs a b []

theorem fieldsAux_map (f : Char → Bool) (g : Char → Char) (hg : ∀ c, f (g c) = f c) (cur s : Str) :
    fieldsAux f (cur.map g) (s.map g) = (fieldsAux f cur s).map (List.map g) := by
  induction s generalizing cur with
  | nil =>
    simp only [List.map_nil, fieldsAux, List.isEmpty_iff, List.map_eq_nil_iff]
    split <;> simp
  | cons c s ih =>
    simp only [List.map_cons, fieldsAux, hg, List.isEmpty_iff, List.map_eq_nil_iff]
    by_cases hc : f c = true
    · simp only [hc, if_true]
      have := ih []
      simp only [List.map_nil] at this
      split
      · exact this
      · simp [this]
    · simp only [hc]
      have := ih (c :: cur)
      simpa using this

/-- A separator written twice is as good as written once. -/
theorem fieldsAux_double_sep (f : Char → Bool) (s : Char) (hs : f s = true) (cur rest : Str) :
    fieldsAux f cur (s :: s :: rest) = fieldsAux f cur (s :: rest) := by
  simp only [fieldsAux, hs, if_true, List.isEmpty_nil]

/-! ### identifier characters and letter case -/

theorem upper_is_ident : ∀ n < 91, 65 ≤ n → isIdentChar (Char.ofNat n) = true ∧ isIdentChar (Char.ofNat (n + 32)) = true := by
  decide

theorem upper_range (c : Char) (hu : 'A' ≤ c ∧ c ≤ 'Z') : 65 ≤ c.toNat ∧ c.toNat < 91 := by
  have h1 : 65 ≤ c.toNat := by
    have := Char.le_def.1 hu.1
    exact UInt32.le_iff_toNat_le.1 this
  have h2 : c.toNat < 91 := by
    have := Char.le_def.1 hu.2
    have := UInt32.le_iff_toNat_le.1 this
    have e : ('Z' : Char).val.toNat = 90 := by decide
    simp only [Char.toNat]
    omega
  exact ⟨h1, h2⟩

/-- `strings.ToLower` maps identifier characters to identifier characters and
    the others to themselves (for the characters whose case mapping is modelled). -/
theorem isIdentChar_lowerChar (c : Char) : isIdentChar (lowerChar c) = isIdentChar c := by
  unfold lowerChar
  split
  · rename_i hu
    obtain ⟨h1, h2⟩ := upper_range c hu
    have := upper_is_ident c.toNat h2 h1
    rw [this.2]
    have e : Char.ofNat c.toNat = c := Char.ofNat_toNat c
    rw [e] at this
    exact this.1.symm
  · split
    · rename_i h
      have hv : c.val = 0x130 := by simpa using h
      have : c = Char.ofNat 0x130 := by
        apply Char.ext; rw [hv]; decide
      subst this; decide
    · split
      · rename_i h
        have hv : c.val = 0x212A := by simpa using h
        have : c = Char.ofNat 0x212A := by
          apply Char.ext; rw [hv]; decide
        subst this; decide
      · rfl

/-- The words of the lower-cased text are the lower-cased words of the text. -/
theorem identWords_toLower (s : Str) : identWords (toLower s) = (identWords s).map toLower := by
  unfold identWords fieldsFunc toLower
  have := fieldsAux_map (fun c => !isIdentChar c) lowerChar (by intro c; simp [isIdentChar_lowerChar]) [] s
  simpa using this

/-! ### the words of a text -/

theorem identWords_sep (s : Char) (hs : isIdentChar s = false) (a b : Str) :
    identWords (a ++ s :: b) = identWords a ++ identWords b := by
  unfold identWords
  exact fieldsFunc_sep _ s (by simp [hs]) a b

/-- Separators at the start of a text produce no word. -/
theorem identWords_leading_seps (seps x : Str) (h : ∀ c ∈ seps, isIdentChar c = false) :
    identWords (seps ++ x) = identWords x := by
  unfold identWords fieldsFunc
  exact fieldsAux_seps _ seps (by intro c hc; simp [h c hc]) x

/-- Separators at the end of a text produce no word. -/
theorem identWords_trailing_seps (x seps : Str) (h : ∀ c ∈ seps, isIdentChar c = false) :
    identWords (x ++ seps) = identWords x := by
  cases seps with
  | nil => simp
  | cons s t =>
    rw [identWords_sep s (h s (by simp))]
    have : identWords t = [] := by
      have := identWords_leading_seps t [] (fun c hc => h c (by simp [hc]))
      simpa [identWords, fieldsFunc, fieldsAux] using this
    simp [this]

/-- A non-empty run of identifier characters is its own only word. -/
theorem identWords_word (w : Str) (hne : w ≠ []) (hw : ∀ c ∈ w, isIdentChar c = true) :
    identWords w = [w] := by
  unfold identWords fieldsFunc
  exact fieldsAux_word_end _ w hne (by intro c hc; simp [hw c hc])

theorem mem_takeWhile_pos (p : Char → Bool) (l : Str) (x : Char) (h : x ∈ l.takeWhile p) : p x = true := by
  induction l with
  | nil => simp at h
  | cons c cs ih =>
    simp only [List.takeWhile] at h
    split at h
    · rename_i hc
      simp only [List.mem_cons] at h
      rcases h with h | h
      · subst h; exact hc
      · exact ih h
    · simp at h

/-- `strings.Trim(s, "`")` removes separators only. -/
theorem identWords_trimBackquote (s : Str) : identWords (trimBackquote s) = identWords s := by
  have hbq : ∀ c : Char, (c == '`') = true → isIdentChar c = false := by
    intro c hc
    have : c = '`' := by simpa using hc
    subst this; decide
  -- s = leading back-quotes ++ t,  t = trimmed ++ trailing back-quotes
  have e1 : s = s.takeWhile (· == '`') ++ s.dropWhile (· == '`') := (List.takeWhile_append_dropWhile).symm
  generalize ht : s.dropWhile (· == '`') = t at e1
  have e2 : t = (t.reverse.dropWhile (· == '`')).reverse ++ (t.reverse.takeWhile (· == '`')).reverse := by
    have := (List.takeWhile_append_dropWhile (p := (· == '`')) (l := t.reverse))
    have h2 := congrArg List.reverse this
    simp only [List.reverse_append, List.reverse_reverse] at h2
    exact h2.symm
  have htrim : trimBackquote s = (t.reverse.dropWhile (· == '`')).reverse := by
    unfold trimBackquote; rw [ht]
  rw [htrim]
  conv => rhs; rw [e1, e2]
  rw [identWords_leading_seps _ _ (fun c hc => hbq c (mem_takeWhile_pos _ _ c hc)),
    identWords_trailing_seps _ _ (fun c hc => hbq c (mem_takeWhile_pos _ _ c (by simpa using hc)))]

/-- Writing the back-quotes of a name twice does not change its words. -/
theorem fieldsAux_escapeBackquote (cur s rest : Str) :
    fieldsAux (fun c => !isIdentChar c) cur (escapeBackquote s ++ rest) =
      fieldsAux (fun c => !isIdentChar c) cur (s ++ rest) := by
  induction s generalizing cur with
  | nil => rfl
  | cons c s ih =>
    simp only [escapeBackquote]
    split
    · rename_i hc
      have : c = '`' := by simpa using hc
      subst this
      have hs : (fun c => !isIdentChar c) '`' = true := by decide
      simp only [List.cons_append]
      rw [fieldsAux_double_sep _ '`' hs]
      simp only [fieldsAux, hs, if_true]
      split <;> simp [ih]
    · simp only [List.cons_append, fieldsAux]
      split
      · split <;> simp [ih]
      · exact ih _

/-- The words of a text that holds a back-quoted identifier: those before it,
    those of the name, those after it. -/
theorem identWords_backquoted (pre n post : Str) :
    identWords (pre ++ ('`' :: (escapeBackquote n ++ ['`'])) ++ post) =
      identWords pre ++ identWords n ++ identWords post := by
  have hbq : isIdentChar '`' = false := by decide
  have e : pre ++ ('`' :: (escapeBackquote n ++ ['`'])) ++ post = pre ++ '`' :: (escapeBackquote n ++ '`' :: post) := by simp
  rw [e, identWords_sep '`' hbq]
  have : identWords (escapeBackquote n ++ '`' :: post) = identWords (n ++ '`' :: post) := by
    unfold identWords fieldsFunc
    exact fieldsAux_escapeBackquote [] n _
  rw [this, identWords_sep '`' hbq, List.append_assoc]

/-! ### `strings.Split(table, ".")` -/

theorem splitAll_ne_nil (sep : Char) (s : Str) : splitAll sep s ≠ [] := by
  cases s with
  | nil => simp [splitAll]
  | cons c cs =>
    simp only [splitAll]
    split
    · simp
    · split <;> simp

theorem splitAll_one (sep : Char) (s b : Str) (h : splitAll sep s = [b]) : s = b := by
  induction s generalizing b with
  | nil => simpa [splitAll] using h
  | cons c cs ih =>
    simp only [splitAll] at h
    split at h
    · simp only [List.cons.injEq] at h
      exact absurd h.2 (splitAll_ne_nil sep cs)
    · split at h
      · rename_i l ls hl
        simp only [List.cons.injEq] at h
        obtain ⟨h1, h2⟩ := h
        subst h2
        rw [← h1, ih l hl]
      · rename_i hl
        exact absurd hl (splitAll_ne_nil sep cs)

theorem splitAll_two (sep : Char) (s a b : Str) (h : splitAll sep s = [a, b]) : s = a ++ sep :: b := by
  induction s generalizing a with
  | nil => simp [splitAll] at h
  | cons c cs ih =>
    simp only [splitAll] at h
    split at h
    · rename_i hc
      have : c = sep := by simpa using hc
      simp only [List.cons.injEq] at h
      obtain ⟨h1, h2⟩ := h
      rw [← h1, this, splitAll_one sep cs b h2]
      rfl
    · split at h
      · rename_i l ls hl
        simp only [List.cons.injEq] at h
        obtain ⟨h1, h2⟩ := h
        subst h2
        rw [← h1, ih l hl]
        rfl
      · rename_i hl
        exact absurd hl (splitAll_ne_nil sep cs)

/-! ### the word set of the guard -/

/-- Every word of the statement is, lower-cased, in the guard's word set. -/
theorem lower_word_mem_statementWords (sql w : Str) (h : w ∈ identWords sql) : toLower w ∈ statementWords sql := by
  unfold statementWords
  split
  · simp only [List.mem_flatMap]
    exact ⟨w, h, by simp⟩
  · exact List.mem_map_of_mem h

/-- In a statement that contains `/*!`, so is every word without its version number. -/
theorem versionless_mem_statementWords (sql w n : Str) (hv : containsSub versionMark sql = true)
    (h : w ∈ identWords sql) (hn : n ∈ withoutVersionNumber w) : toLower n ∈ statementWords sql := by
  unfold statementWords
  simp only [hv, if_true, List.mem_flatMap]
  exact ⟨w, h, by simp only [List.mem_cons, List.mem_map]; exact Or.inr ⟨n, hn, rfl⟩⟩

theorem containsSub_prefix (sub post : Str) : containsSub sub (sub ++ post) = true := by
  cases h : sub ++ post with
  | nil =>
    have hs : sub = [] := by
      cases sub with
      | nil => rfl
      | cons _ _ => simp at h
    subst hs
    rfl
  | cons c cs =>
    have hp : sub.isPrefixOf (c :: cs) = true := by
      rw [← h, List.isPrefixOf_iff_prefix]; exact List.prefix_append _ _
    simp [containsSub, hp]

theorem containsSub_mid (sub pre post : Str) : containsSub sub (pre ++ sub ++ post) = true := by
  induction pre with
  | nil => simpa using containsSub_prefix sub post
  | cons c pre ih =>
    simp only [List.cons_append, containsSub, Bool.or_eq_true]
    exact Or.inr (by simpa using ih)

end GaeaVerif.FastPath
