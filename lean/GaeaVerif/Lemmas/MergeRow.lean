import GaeaVerif.Lemmas.MergeAgg
import GaeaVerif.Model.MergeClass
/-
  C02 helper lemmas: typed tables, and the row-level homomorphism: merging the
  partial row of the next shard's group into the accumulated partial row gives
  the row of the concatenated group.
-/
namespace GaeaVerif.Merge

def Ty.vty : Ty → VTy
  | .int => .int
  | .dec s => .dec s
  | .str => .str

/-- a stored value conforms to its column type: NULL or a value of that type
    (decimals with the column's scale) -/
def conforms (t : Ty) (v : Val) : Bool := v == .null || hasTy t.vty v

structure TypedRow (schema : List Ty) (r : Row) : Prop where
  len : r.length = schema.length
  ok : ∀ (i : Nat) (t : Ty), schema[i]? = some t → conforms t (r.getD i .null) = true

def TypedRows (schema : List Ty) (rows : List Row) : Prop := ∀ r ∈ rows, TypedRow schema r

theorem TypedRows.append {schema : List Ty} {a b : List Row} (ha : TypedRows schema a) (hb : TypedRows schema b) :
    TypedRows schema (a ++ b) := by
  intro r hr
  rcases List.mem_append.mp hr with h | h
  · exact ha r h
  · exact hb r h

/-- the type of the argument values of an aggregate -/
def argTy (schema : List Ty) : Option Nat → VTy
  | none => .int
  | some c => match schema[c]? with
    | some t => t.vty
    | none => .int

theorem aggArgs_typed {schema : List Ty} {grp : List Row} (hg : TypedRows schema grp) (arg : Option Nat)
    (harg : ∀ c, arg = some c → c < schema.length) :
    ∀ v ∈ aggArgs arg false grp, hasTy (argTy schema arg) v = true := by
  intro v hv
  cases arg with
  | none =>
    simp only [aggArgs, List.mem_map] at hv
    obtain ⟨_, _, rfl⟩ := hv
    rfl
  | some c =>
    have hc := harg c rfl
    simp only [aggArgs, Bool.false_eq_true, if_false, List.mem_filter, List.mem_map, decide_eq_true_eq] at hv
    obtain ⟨⟨r, hr, rfl⟩, hne⟩ := hv
    have ht : schema[c]? = some schema[c] := List.getElem?_eq_getElem hc
    have := (hg r hr).ok c _ ht
    simp only [argTy, ht]
    simp only [conforms, Bool.or_eq_true, beq_iff_eq] at this
    rcases this with h | h
    · exact absurd h hne
    · exact h

theorem aggArgs_append (arg : Option Nat) (g1 g2 : List Row) :
    aggArgs arg false (g1 ++ g2) = aggArgs arg false g1 ++ aggArgs arg false g2 := by
  cases arg <;> simp [aggArgs]

/-- the value the merger of an aggregate item computes from the values of the two partial rows -/
theorem mergeVal_item_plain {schema : List Ty} (k : AggKind) (arg : Option Nat) (g1 g2 : List Row)
    (h1 : TypedRows schema g1) (h2 : TypedRows schema g2) (hok : (Item.agg k arg false).aggOK schema = true) :
    mergeVal k (evalItem g2 (.agg k arg false)) (evalItem g1 (.agg k arg false)) =
      .ok (evalItem (g1 ++ g2) (.agg k arg false)) := by
  simp only [evalItem, aggArgs_append]
  have harg : ∀ c, arg = some c → c < schema.length := by
    intro c hc; subst hc
    simp only [Item.aggOK, Bool.not_false, Bool.true_or, Bool.true_and] at hok
    cases h : schema[c]? with
    | none => simp [h] at hok
    | some t =>
      have := List.getElem?_eq_some_iff.mp h
      exact this.1
  apply agg_homomorphism (argTy schema arg) k _ _ (aggArgs_typed h1 arg harg) (aggArgs_typed h2 arg harg)
  intro hk; subst hk
  cases arg with
  | none => simp [argTy]
  | some c =>
    simp only [Item.aggOK, Bool.not_false, Bool.true_or, Bool.true_and] at hok
    cases h : schema[c]? with
    | none => simp [h] at hok
    | some t =>
      simp only [h, beq_self_eq_true, Bool.true_and, Bool.not_eq_true', beq_eq_false_iff_ne] at hok
      simp only [argTy, h]
      cases t <;> simp_all [Ty.vty]

/-- the same for every covered aggregate item, MAX / MIN(DISTINCT) included -/
theorem mergeVal_item {schema : List Ty} (k : AggKind) (arg : Option Nat) (d : Bool) (g1 g2 : List Row)
    (h1 : TypedRows schema g1) (h2 : TypedRows schema g2) (hok : (Item.agg k arg d).aggOK schema = true) :
    mergeVal k (evalItem g2 (.agg k arg d)) (evalItem g1 (.agg k arg d)) =
      .ok (evalItem (g1 ++ g2) (.agg k arg d)) := by
  cases d with
  | false => exact mergeVal_item_plain k arg g1 g2 h1 h2 hok
  | true =>
    cases arg with
    | none => simp [Item.aggOK] at hok
    | some c =>
      have hok' : (Item.agg k (some c) false).aggOK schema = true := by
        simp only [Item.aggOK, Bool.and_eq_true] at hok ⊢
        exact ⟨by simp, hok.2⟩
      have hk : k = .max ∨ k = .min := by
        simp only [Item.aggOK, Bool.and_eq_true, Bool.or_eq_true, Bool.not_true, Bool.false_eq_true,
          false_or, beq_iff_eq] at hok
        exact hok.1
      rcases hk with rfl | rfl
      · simp only [evalItem_distinct_max]
        exact mergeVal_item_plain .max (some c) g1 g2 h1 h2 hok'
      · simp only [evalItem_distinct_min]
        exact mergeVal_item_plain .min (some c) g1 g2 h1 h2 hok'

/-! ### the merger positions -/

theorem mem_aggPosFrom : ∀ (items : List Item) (i j : Nat) (k : AggKind),
    (j, k) ∈ aggPosFrom i items ↔ ∃ n a d, j = i + n ∧ items[n]? = some (.agg k a d)
  | [], i, j, k => by simp [aggPosFrom]
  | it :: r, i, j, k => by
    have ih := mem_aggPosFrom r (i + 1) j k
    cases it with
    | agg k' a' d' =>
      simp only [aggPosFrom, List.mem_cons, Prod.mk.injEq, ih]
      constructor
      · rintro (⟨rfl, rfl⟩ | ⟨n, a, d, rfl, h⟩)
        · exact ⟨0, a', d', by simp, by simp⟩
        · exact ⟨n + 1, a, d, by omega, by simpa using h⟩
      · rintro ⟨n, a, d, rfl, h⟩
        cases n with
        | zero => left; simp at h; exact ⟨by simp, h.1.symm⟩
        | succ n => right; exact ⟨n, a, d, by omega, by simpa using h⟩
    | col c =>
      simp only [aggPosFrom, ih]
      constructor
      · rintro ⟨n, a, d, rfl, h⟩; exact ⟨n + 1, a, d, by omega, by simpa using h⟩
      · rintro ⟨n, a, d, rfl, h⟩
        cases n with
        | zero => simp at h
        | succ n => exact ⟨n, a, d, by omega, by simpa using h⟩
    | const c =>
      simp only [aggPosFrom, ih]
      constructor
      · rintro ⟨n, a, d, rfl, h⟩; exact ⟨n + 1, a, d, by omega, by simpa using h⟩
      · rintro ⟨n, a, d, rfl, h⟩
        cases n with
        | zero => simp at h
        | succ n => exact ⟨n, a, d, by omega, by simpa using h⟩

theorem aggPosFrom_ge : ∀ (items : List Item) (i : Nat), ∀ p ∈ aggPosFrom i items, i ≤ p.1
  | [], _, p, h => by simp [aggPosFrom] at h
  | it :: r, i, p, h => by
    cases it with
    | agg k a d =>
      simp only [aggPosFrom, List.mem_cons] at h
      rcases h with rfl | h
      · simp
      · have := aggPosFrom_ge r (i + 1) p h; omega
    | col c => have := aggPosFrom_ge r (i + 1) p h; omega
    | const c => have := aggPosFrom_ge r (i + 1) p h; omega

theorem aggPosFrom_nodup : ∀ (items : List Item) (i : Nat), ((aggPosFrom i items).map (·.1)).Nodup
  | [], _ => by simp [aggPosFrom]
  | it :: r, i => by
    have ih := aggPosFrom_nodup r (i + 1)
    cases it with
    | agg k a d =>
      simp only [aggPosFrom, List.map_cons, List.nodup_cons]
      refine ⟨?_, ih⟩
      intro hm
      obtain ⟨p, hp, hpi⟩ := List.mem_map.mp hm
      have := aggPosFrom_ge r (i + 1) p hp
      omega
    | col c => exact ih
    | const c => exact ih

/-! ### mergeAll -/

theorem mergeAll_spec (f : Nat → Val) (fromRow : Row) : ∀ (aggs : List (Nat × AggKind)) (toRow : Row),
    (aggs.map (·.1)).Nodup →
    (∀ p ∈ aggs, ∃ a b, fromRow[p.1]? = some a ∧ toRow[p.1]? = some b ∧ mergeVal p.2 a b = .ok (f p.1)) →
    ∃ out, mergeAll aggs fromRow toRow = .ok out ∧ out.length = toRow.length ∧
      ∀ j, out[j]? = if j ∈ aggs.map (·.1) then (if j < toRow.length then some (f j) else none) else toRow[j]?
  | [], toRow, _, _ => ⟨toRow, rfl, rfl, by simp⟩
  | (idx, k) :: as, toRow, hnd, h => by
    obtain ⟨a, b, ha, hb, hm⟩ := h (idx, k) (by simp)
    simp only [List.map_cons, List.nodup_cons] at hnd
    have hstep : mergeTo k idx fromRow toRow = .ok (toRow.set idx (f idx)) := by
      simp only [mergeTo, ha, hb]
      simp only at hm
      rw [hm]; rfl
    have hidx : idx < toRow.length := by
      have := List.getElem?_eq_some_iff.mp hb; exact this.1
    obtain ⟨out, ho, hl, hj⟩ := mergeAll_spec f fromRow as (toRow.set idx (f idx)) hnd.2 (by
      intro p hp
      obtain ⟨a', b', ha', hb', hm'⟩ := h p (by simp [hp])
      have hne : idx ≠ p.1 := by
        intro e; apply hnd.1; rw [e]; exact List.mem_map.mpr ⟨p, hp, rfl⟩
      exact ⟨a', b', ha', by rw [List.getElem?_set_ne hne]; exact hb', hm'⟩)
    refine ⟨out, by simp only [mergeAll, hstep]; exact ho, by simpa using hl, ?_⟩
    intro j
    rw [hj j]
    simp only [List.length_set, List.map_cons, List.mem_cons]
    by_cases hjas : j ∈ as.map (·.1)
    · simp [hjas]
    · by_cases hji : j = idx
      · subst hji
        simp [hjas, hidx]
      · have : ¬ idx = j := fun e => hji e.symm
        simp [hjas, hji, List.getElem?_set_ne this]

/-- the shard row of a group -/
def fullRow (items : List Item) (grp : List Row) : Row := items.map (evalItem grp)

theorem evalItem_append_of_not_agg (g1 g2 : List Row) (it : Item) (hne : g1 ≠ [] ∨ ∀ c, it ≠ .col c)
    (h : it.isAgg = false) : evalItem (g1 ++ g2) it = evalItem g1 it := by
  cases it with
  | agg k a d => simp [Item.isAgg] at h
  | const c => rfl
  | col c =>
    rcases hne with hne | hne
    · cases g1 with
      | nil => exact absurd rfl hne
      | cons r rs => rfl
    · exact absurd rfl (hne c)

/-- **Row homomorphism.**  `g1` is the (non-empty) part of a group seen so far,
    `g2` the part held by the next shard: merging the next shard's row into the
    accumulated row gives the row of `g1 ++ g2`. -/
theorem row_homomorphism {schema : List Ty} (items : List Item) (g1 g2 : List Row)
    (h1 : TypedRows schema g1) (h2 : TypedRows schema g2) (hne : g1 ≠ [] ∨ ∀ it ∈ items, ∀ c, it ≠ .col c)
    (hok : ∀ it ∈ items, it.aggOK schema = true) :
    mergeAll (aggPositions items) (fullRow items g2) (fullRow items g1) = .ok (fullRow items (g1 ++ g2)) := by
  obtain ⟨out, ho, hl, hj⟩ := mergeAll_spec
    (fun j => evalItem (g1 ++ g2) (items.getD j (.const 0))) (fullRow items g2)
    (aggPositions items) (fullRow items g1) (aggPosFrom_nodup items 0) (by
      intro p hp
      obtain ⟨n, a, d, hn, hit⟩ := (mem_aggPosFrom items 0 p.1 p.2).mp hp
      simp only [Nat.zero_add] at hn
      refine ⟨evalItem g2 (.agg p.2 a d), evalItem g1 (.agg p.2 a d), ?_, ?_, ?_⟩
      · simp [fullRow, hn, hit]
      · simp [fullRow, hn, hit]
      · have := mergeVal_item (schema := schema) p.2 a d g1 g2 h1 h2 (hok _ (List.mem_of_getElem? hit))
        rw [this]
        simp [hn, List.getD, hit])
  rw [ho]
  congr 1
  apply List.ext_getElem?
  intro j
  rw [hj j]
  simp only [fullRow, List.length_map, List.getElem?_map]
  cases hit : items[j]? with
  | none =>
    have hge : items.length ≤ j := by
      rcases Nat.lt_or_ge j items.length with h | h
      · rw [List.getElem?_eq_getElem h] at hit; cases hit
      · exact h
    have : ¬ j < items.length := by omega
    simp [this]
  | some it =>
    have hlt : j < items.length := (List.getElem?_eq_some_iff.mp hit).1
    by_cases hm : j ∈ (aggPositions items).map (·.1)
    · have e : items[j] = it := by
        have := List.getElem?_eq_getElem hlt
        rw [this] at hit; exact Option.some.inj hit
      simp [hm, hlt, List.getD, e]
    · simp only [hm, if_false, Option.map_some]
      congr 1
      symm
      apply evalItem_append_of_not_agg g1 g2 it
        (hne.imp id (fun h => h it (List.mem_of_getElem? hit)))
      cases it with
      | agg k a d =>
        exfalso; apply hm
        exact List.mem_map.mpr ⟨(j, k), (mem_aggPosFrom items 0 j k).mpr ⟨j, a, d, by simp, hit⟩, rfl⟩
      | col c => rfl
      | const c => rfl

end GaeaVerif.Merge
