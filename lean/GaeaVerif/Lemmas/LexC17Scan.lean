import GaeaVerif.Lemmas.LexC17Steps2
/-
  Helper lemmas for C17: `scan` on the outermost scanner alone.
-/
namespace GaeaVerif.LexC17
open GaeaVerif

/-- The outermost scanner with unread input `r` at offset `o`, no error so far. -/
def fr (r : Bytes) (o : Nat) : Frame :=
  { rest := r, off := o, base := 0, hint := false, ended := false, errs := false }

theorem scan_single (fuel : Nat) (r : Bytes) (o : Nat) :
    scan (fuel + 1) [fr r o] =
      (let ws := incAsLongAs isSpace r
       let r' := r.drop ws
       let o' := o + ws
       match r' with
       | [] => ⟨.eof, o', [fr [] o']⟩
       | _ :: _ =>
         match plainStep r' with
         | .tok .eof n => ⟨.eof, o', [fr (r'.drop n) (o' + n)]⟩
         | .tok t n => ⟨t, o', [fr (r'.drop n) (o' + n)]⟩
         | .skip n => scan fuel [fr (r'.drop n) (o' + n)]
         | .unclosed => ⟨.eof, o', [{ fr [] (o' + r'.length) with errs := true }]⟩
         | .special true n inner begin =>
           ⟨.other, o', [{ rest := inner, off := 0, base := o' + begin, hint := true, ended := false, errs := false },
                         fr (r'.drop n) (o' + n)]⟩
         | .special false n inner begin =>
           scan fuel [{ rest := inner, off := 0, base := o' + begin, hint := false, ended := false, errs := false },
                      fr (r'.drop n) (o' + n)]
         | .panic => ⟨.panic, 0, []⟩) := by
  simp only [scan, fr, sumBases, List.map, List.sum_cons, List.sum_nil, Nat.add_zero]
  generalize List.drop (incAsLongAs isSpace r) r = r'
  cases r' with
  | nil => rfl
  | cons b t =>
    simp only
    cases plainStep (b :: t) with
    | tok t n => cases t <;> rfl
    | skip n => rfl
    | unclosed => rfl
    | special hint n inner begin => cases hint <;> rfl
    | panic => rfl


theorem isWsB_space (b : UInt8) (h : isWsB b = true) : b.toNat < 0x80 ∧ isSpace b.toNat = true := by
  simp only [isWsB, Bool.or_eq_true, Bool.and_eq_true, decide_eq_true_eq] at h
  refine ⟨by omega, ?_⟩
  simp only [isSpace, Bool.or_eq_true, Bool.and_eq_true, decide_eq_true_eq]
  omega

theorem drop_len_add (bs r : Bytes) (k : Nat) : (bs ++ r).drop (bs.length + k) = r.drop k := by
  induction bs with
  | nil => simp
  | cons b t ih =>
    have : (b :: t).length + k = (t.length + k) + 1 := by simp only [List.length_cons]; omega
    rw [this, List.cons_append, List.drop_succ_cons]
    exact ih

/-- Leading white space is absorbed by the scan that follows. -/
theorem scan_ws (fuel : Nat) (bs r : Bytes) (o : Nat) (hbs : ∀ b ∈ bs, isWsB b = true) :
    scan (fuel + 1) [fr (bs ++ r) o] = scan (fuel + 1) [fr r (o + bs.length)] := by
  rw [scan_single, scan_single]
  rw [incAsLongAs_ascii_run isSpace bs r (fun b hb => isWsB_space b (hbs b hb))]
  simp only [drop_len_add, Nat.add_assoc]

/-- A first byte that is not white space: nothing is skipped. -/
theorem noSkip (b : UInt8) (t : Bytes) (h : b.toNat < 0x80) (hs : isSpace b.toNat = false) :
    incAsLongAs isSpace (b :: t) = 0 :=
  incAsLongAs_stop isSpace _ (by rw [peek_ascii b t h]; exact hs)

theorem scan_tok (fuel : Nat) (b : UInt8) (t : Bytes) (o : Nat) (h : b.toNat < 0x80) (hs : isSpace b.toNat = false)
    (tk : Tok) (n : Nat) (hp : plainStep (b :: t) = .tok tk n) (hne : tk ≠ .eof) :
    scan (fuel + 1) [fr (b :: t) o] = ⟨tk, o, [fr ((b :: t).drop n) (o + n)]⟩ := by
  rw [scan_single, noSkip b t h hs]
  simp only [List.drop_zero, Nat.add_zero, hp]

theorem scan_skip (fuel : Nat) (b : UInt8) (t : Bytes) (o : Nat) (h : b.toNat < 0x80) (hs : isSpace b.toNat = false)
    (n : Nat) (hp : plainStep (b :: t) = .skip n) :
    scan (fuel + 1) [fr (b :: t) o] = scan fuel [fr ((b :: t).drop n) (o + n)] := by
  rw [scan_single, noSkip b t h hs]
  simp only [List.drop_zero, Nat.add_zero, hp]

theorem scan_nil (fuel : Nat) (o : Nat) : scan (fuel + 1) [fr [] o] = ⟨.eof, o, [fr [] o]⟩ := by
  rw [scan_single]; simp [incAsLongAs_nil]

/-! ### the next token of an item sequence -/

def Item.isTrivia : Item → Bool
  | .ws _ | .cblock _ | .cdash _ _ | .chash _ _ => true
  | _ => false

def Item.isX : Item → Bool
  | .xcomment _ => true
  | _ => false

/-- Items without `/*! */` and `/*+ */` comments. -/
def noX (items : List Item) : Bool := items.all (fun it => !it.isX)

/-- What `scan` returns on the rendering of an item sequence: the class and
    offset of the first token after the leading white space and comments, and
    the items left. -/
def nextTok : List Item → Nat → Tok × Nat × List Item × Nat
  | [], o => (.eof, o, [], o)
  | it :: rest, o =>
    if it.isTrivia then nextTok rest (o + it.render.length)
    else if it = .semi then (.semi, o, rest, o + 1)
    else (.other, o, rest, o + it.render.length)

theorem render_cons (it : Item) (rest : List Item) : render (it :: rest) = it.render ++ render rest := by
  simp [render]

theorem scan_items : ∀ (items : List Item) (o fuel : Nat), Safe items = true → noX items = true →
    items.length + 1 ≤ fuel →
    scan fuel [fr (render items) o] =
      ⟨(nextTok items o).1, (nextTok items o).2.1, [fr (render (nextTok items o).2.2.1) (nextTok items o).2.2.2]⟩ := by
  intro items
  induction items with
  | nil =>
    intro o fuel _ _ hf
    obtain ⟨fuel, rfl⟩ : ∃ f, fuel = f + 1 := ⟨fuel - 1, by simp at hf; omega⟩
    simp only [render, List.map_nil, List.flatten_nil, nextTok]
    exact scan_nil fuel o
  | cons it rest ih =>
    intro o fuel hsafe hnox hf
    simp only [List.length_cons] at hf
    obtain ⟨fuel, rfl⟩ : ∃ f, fuel = f + 1 := ⟨fuel - 1, by omega⟩
    simp only [Safe, Bool.and_eq_true] at hsafe
    obtain ⟨⟨hok, hsb0⟩, hrest⟩ := hsafe
    -- for every item but a `-` the condition is the one-byte condition
    have hsb : it.safeBefore (render rest).head? = true ∨ ∃ c, it = .sym c := by
      cases it with
      | sym c => right; exact ⟨c, rfl⟩
      | _ => left; simpa [Item.dashOK] using hsb0
    simp only [noX, List.all_cons, Bool.and_eq_true] at hnox
    have hnox' : noX rest = true := hnox.2
    rw [render_cons]
    cases it with
    | ws bs =>
      simp only [Item.ok, Bool.and_eq_true, List.all_eq_true] at hok
      simp only [nextTok, Item.isTrivia, if_true, Item.render]
      rw [scan_ws fuel bs (render rest) o hok.2]
      exact ih (o + bs.length) (fuel + 1) hrest hnox' (by omega)
    | semi =>
      simp only [nextTok, Item.isTrivia, Bool.false_eq_true, if_false, if_true, Item.render, List.cons_append, List.nil_append]
      rw [scan_tok fuel 0x3B (render rest) o (by decide) (by decide) .semi 1 (plainStep_semi _) (by simp)]
      simp
    | word bs =>
      have hsb : (Item.word bs).safeBefore (render rest).head? = true := by rcases hsb with h | ⟨c, h⟩; exact h; simp at h
      have hp := plainStep_word bs (render rest) hok hsb
      cases bs with
      | nil => simp [Item.ok] at hok
      | cons b w =>
        simp only [Item.ok, Bool.and_eq_true, List.all_eq_true] at hok
        have hb := isWordB_ident b (hok.2 b (by simp))
        have hsp : isSpace b.toNat = false := by
          have := hok.1
          simp only [isWordStartB, isLetter, Bool.or_eq_true, Bool.and_eq_true, decide_eq_true_eq] at this
          simp only [isSpace, Bool.or_eq_false_iff, Bool.and_eq_false_iff, decide_eq_false_iff_not]
          omega
        simp only [nextTok, Item.isTrivia, Bool.false_eq_true, if_false, Item.render, reduceCtorEq]
        rw [List.cons_append] at hp ⊢
        rw [scan_tok fuel b _ o hb.1 hsp .other _ hp (by simp)]
        simp only [List.length_cons]
        congr 3
        have : b :: (w ++ render rest) = (b :: w) ++ render rest := by simp
        rw [this, List.drop_left' (by simp)]
    | num bs =>
      have hsb : (Item.num bs).safeBefore (render rest).head? = true := by rcases hsb with h | ⟨c, h⟩; exact h; simp at h
      have hp := plainStep_num bs (render rest) hok hsb
      cases bs with
      | nil => simp [Item.ok] at hok
      | cons b w =>
        simp only [Item.ok, Bool.and_eq_true, List.all_eq_true] at hok
        have hb := hok.2 b (by simp)
        simp only [isDigitB, isDigit, Bool.and_eq_true, decide_eq_true_eq] at hb
        have hsp : isSpace b.toNat = false := by
          simp only [isSpace, Bool.or_eq_false_iff, Bool.and_eq_false_iff, decide_eq_false_iff_not]
          omega
        simp only [nextTok, Item.isTrivia, Bool.false_eq_true, if_false, Item.render, reduceCtorEq]
        rw [List.cons_append] at hp ⊢
        rw [scan_tok fuel b _ o (by omega) hsp .other _ hp (by simp)]
        simp only [List.length_cons]
        congr 3
        have : b :: (w ++ render rest) = (b :: w) ++ render rest := by simp
        rw [this, List.drop_left' (by simp)]
    | sym c =>
      have hp := plainStep_sym c (render rest) hok hsb0
      have hc := hok
      simp only [Item.ok, isSymB, Bool.or_eq_true, decide_eq_true_eq] at hc
      have hsp : isSpace c.toNat = false := by
        simp only [isSpace, Bool.or_eq_false_iff, Bool.and_eq_false_iff, decide_eq_false_iff_not]
        omega
      simp only [nextTok, Item.isTrivia, Bool.false_eq_true, if_false, Item.render, reduceCtorEq]
      rw [List.cons_append, List.nil_append]
      rw [scan_tok fuel c _ o (by omega) hsp .other _ hp (by simp)]
      simp
    | str q body =>
      have hsb : (Item.str q body).safeBefore (render rest).head? = true := by rcases hsb with h | ⟨c, h⟩; exact h; simp at h
      have hp := plainStep_str q body (render rest) hok hsb
      simp only [Item.ok, Bool.and_eq_true, Bool.or_eq_true, decide_eq_true_eq] at hok
      have hsp : isSpace q.toNat = false := by
        simp only [isSpace, Bool.or_eq_false_iff, Bool.and_eq_false_iff, decide_eq_false_iff_not]
        omega
      simp only [nextTok, Item.isTrivia, Bool.false_eq_true, if_false, Item.render, reduceCtorEq]
      have e : (q :: body ++ [q]) ++ render rest = q :: body ++ q :: render rest := by simp
      rw [e]
      rw [List.cons_append] at hp ⊢
      rw [scan_tok fuel q _ o (by omega) hsp .other _ hp (by simp)]
      simp only [List.length_cons, List.length_append, List.length_nil]
      congr 3
      · have : q :: (body ++ q :: render rest) = (q :: body ++ [q]) ++ render rest := by simp
        rw [this, List.drop_left' (by simp)]
    | bq body =>
      have hsb : (Item.bq body).safeBefore (render rest).head? = true := by rcases hsb with h | ⟨c, h⟩; exact h; simp at h
      have hp := plainStep_bq body (render rest) hok hsb
      simp only [nextTok, Item.isTrivia, Bool.false_eq_true, if_false, Item.render, reduceCtorEq]
      have e : ((0x60 : UInt8) :: body ++ [0x60]) ++ render rest = cBq :: body ++ cBq :: render rest := by simp [cBq]
      rw [e]
      rw [List.cons_append] at hp ⊢
      rw [scan_tok fuel cBq _ o (by decide) (by decide) .other _ hp (by simp)]
      simp only [List.length_cons, List.length_append, List.length_nil]
      congr 3
      · have : cBq :: (body ++ cBq :: render rest) = (cBq :: body ++ [cBq]) ++ render rest := by simp
        rw [this, List.drop_left' (by simp)]
    | cblock body =>
      have hp := plainStep_cblock body (render rest) hok
      simp only [nextTok, Item.isTrivia, if_true, Item.render]
      have e : ((0x2F : UInt8) :: 0x2A :: body ++ [0x2A, 0x2F]) ++ render rest
          = cSlash :: cStar :: body ++ cStar :: cSlash :: render rest := by simp [cSlash, cStar]
      rw [e]
      rw [List.cons_append] at hp ⊢
      rw [scan_skip fuel cSlash _ o (by decide) (by decide) _ hp]
      have hd : (cSlash :: (cStar :: body ++ cStar :: cSlash :: render rest)).drop (body.length + 4) = render rest := by
        have : cSlash :: (cStar :: body ++ cStar :: cSlash :: render rest)
            = (cSlash :: cStar :: body ++ [cStar, cSlash]) ++ render rest := by simp
        rw [this, List.drop_left' (by simp)]
      rw [hd]
      have := ih (o + (body.length + 4)) fuel hrest hnox' (by omega)
      simp only [List.length_cons, List.length_append, List.length_nil] at this ⊢
      exact this
    | cdash body nl =>
      have hsb : (Item.cdash body nl).safeBefore (render rest).head? = true := by rcases hsb with h | ⟨c, h⟩; exact h; simp at h
      have hm : render rest = [] ∨ nl = true := by
        cases hr : render rest with
        | nil => left; rfl
        | cons n t => right; simpa [Item.safeBefore, hr] using hsb
      have hp := plainStep_cdash body (render rest) nl hok hm
      have hlen : (Item.cdash body nl).render.length = body.length + 2 + (if nl = true then [(0x0A : UInt8)] else []).length := by
        simp only [Item.render, List.length_cons, List.length_append] <;> omega
      simp only [nextTok, Item.isTrivia, if_true]
      rw [hlen]
      simp only [Item.render, List.cons_append, List.append_assoc] at hp ⊢
      rw [scan_skip fuel 0x2D _ o (by decide) (by decide) _ hp]
      have hd : ((0x2D : UInt8) :: 0x2D :: (body ++ ((if nl = true then [0x0A] else []) ++ render rest))).drop (body.length + 2)
          = (if nl = true then [(0x0A : UInt8)] else []) ++ render rest := by
        have : (0x2D : UInt8) :: 0x2D :: (body ++ ((if nl = true then [0x0A] else []) ++ render rest))
            = (0x2D :: 0x2D :: body) ++ ((if nl = true then [(0x0A : UInt8)] else []) ++ render rest) := by simp
        rw [this, List.drop_left' (by simp)]
      rw [hd]
      obtain ⟨fuel, rfl⟩ : ∃ f, fuel = f + 1 := ⟨fuel - 1, by omega⟩
      rw [scan_ws fuel _ (render rest) _ (by intro b hb; cases nl <;> simp_all [isWsB])]
      rw [Nat.add_assoc o _ _]
      exact ih _ (fuel + 1) hrest hnox' (by omega)
    | chash body nl =>
      have hsb : (Item.chash body nl).safeBefore (render rest).head? = true := by rcases hsb with h | ⟨c, h⟩; exact h; simp at h
      have hm : render rest = [] ∨ nl = true := by
        cases hr : render rest with
        | nil => left; rfl
        | cons n t => right; simpa [Item.safeBefore, hr] using hsb
      have hp := plainStep_chash body (render rest) nl hok hm
      have hlen : (Item.chash body nl).render.length = body.length + 1 + (if nl = true then [(0x0A : UInt8)] else []).length := by
        simp only [Item.render, List.length_cons, List.length_append] <;> omega
      simp only [nextTok, Item.isTrivia, if_true]
      rw [hlen]
      simp only [Item.render, List.cons_append, List.append_assoc] at hp ⊢
      rw [scan_skip fuel 0x23 _ o (by decide) (by decide) _ hp]
      have hd : ((0x23 : UInt8) :: (body ++ ((if nl = true then [0x0A] else []) ++ render rest))).drop (body.length + 1)
          = (if nl = true then [(0x0A : UInt8)] else []) ++ render rest := by
        have : (0x23 : UInt8) :: (body ++ ((if nl = true then [0x0A] else []) ++ render rest))
            = (0x23 :: body) ++ ((if nl = true then [(0x0A : UInt8)] else []) ++ render rest) := by simp
        rw [this, List.drop_left' (by simp)]
      rw [hd]
      obtain ⟨fuel, rfl⟩ : ∃ f, fuel = f + 1 := ⟨fuel - 1, by omega⟩
      rw [scan_ws fuel _ (render rest) _ (by intro b hb; cases nl <;> simp_all [isWsB])]
      rw [Nat.add_assoc o _ _]
      exact ih _ (fuel + 1) hrest hnox' (by omega)
    | xcomment body => simp [Item.isX] at hnox

end GaeaVerif.LexC17
