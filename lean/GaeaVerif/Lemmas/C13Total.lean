import GaeaVerif.Lemmas.C13Exact
/-
  C13 helper lemmas: delivery.  For a value of the column type in the spelling
  a MySQL server sends (`serverCell`), `ParseText`, the integer range check and
  `AppendBinaryValue` all succeed — the proxy does not answer with an error
  where it could have sent the value.
-/
namespace GaeaVerif.C13
open GaeaVerif GaeaVerif.BinRow GaeaVerif.BinProto GaeaVerif.LenEnc

/-! ### integers -/

theorem parseInt_neg_shape (ds : Bytes) (hne : ds ≠ []) (hd : ds.all isDigit = true)
    (hle : decVal ds ≤ 2 ^ 63) : parseInt (45 :: ds) 64 = some (-(decVal ds : Int)) := by
  have hu := parseUint_digits ds 64 hne hd (by omega)
  simp only [parseInt, show ((45 : UInt8) == 45) = true from rfl, Bool.or_true, if_true, hu]
  simp; omega

theorem int_cell_total (ops : FloatOps) (ty flag w : Nat) (cell : Bytes) (x : Int)
    (hwid : intWidth ty = some w) (hx : intText cell = some x)
    (hr : inIntRange w (Field.isUnsigned ⟨ty, flag⟩) x = true)
    (hsp : Field.isUnsigned ⟨ty, flag⟩ = true → cell.head? ≠ some 45) :
    ∃ v b, parseTextValue ops ⟨ty, flag⟩ cell = .ok v ∧ integerFitsColumn ⟨ty, flag⟩ v = true
      ∧ appendBinaryValue ops ty v = .ok b := by
  obtain ⟨hi64, hint, hw⟩ := abv_i64 ops ty w x hwid
  unfold inIntRange at hr
  cases hu : Field.isUnsigned ⟨ty, flag⟩ with
  | true =>
    rw [hu] at hr
    simp only [if_true, decide_eq_true_eq] at hr
    rcases intText_some cell x hx with ⟨ds, hc, _, _, _⟩ | ⟨hne, hd, hxv⟩
    · subst hc; exact absurd rfl (hsp hu)
    · have hlt : decVal cell < 2 ^ 64 := by
        have : (2 : Int) ^ (8 * w) ≤ 2 ^ 64 := by
          rcases hw with e | e | e | e <;> subst e <;> decide
        omega
      have hp := parseUint_digits cell 64 hne hd hlt
      refine ⟨.u64 (decVal cell), _, ?_, ?_, abv_u64 ops ty w (decVal cell) hwid⟩
      · simp [parseTextValue, hint, hu, hp]
      · rcases intWidth_some ty w hwid with ⟨e1, e2⟩ | ⟨e1, e2⟩ | ⟨e1, e2⟩ | ⟨e1, e2⟩ | ⟨e1, e2⟩ | ⟨e1, e2⟩ <;>
          subst e1 <;> subst e2 <;> simp [integerFitsColumn, hu] at hr ⊢ <;> omega
  | false =>
    rw [hu] at hr
    simp only [Bool.false_eq_true, if_false, decide_eq_true_eq] at hr
    have hpow : (2 : Int) ^ (8 * w - 1) ≤ 2 ^ 63 := by
      rcases hw with e | e | e | e <;> subst e <;> decide
    have hp : parseInt cell 64 = some x := by
      rcases intText_some cell x hx with ⟨ds, hc, hne, hd, hxv⟩ | ⟨hne, hd, hxv⟩
      · subst hc
        rw [parseInt_neg_shape ds hne hd (by omega), hxv]
      · have := parseInt_shape false cell hne hd (by omega)
        simpa [hxv] using this
    refine ⟨.i64 x, _, ?_, ?_, hi64⟩
    · simp [parseTextValue, hint, hu, hp]
    · rcases intWidth_some ty w hwid with ⟨e1, e2⟩ | ⟨e1, e2⟩ | ⟨e1, e2⟩ | ⟨e1, e2⟩ | ⟨e1, e2⟩ | ⟨e1, e2⟩ <;>
        subst e1 <;> subst e2 <;> simp [integerFitsColumn, hu] at hr ⊢ <;>
        (by_cases hneg : x < 0 <;> simp [hneg] <;> omega)

/-! ### decimals -/

/-- `decimal.NewFromString` accepts every `[-]digits[.digits]` text (shorter
    than 2^31 bytes: the scale is an `int32`). -/
theorem newFromString_total (neg : Bool) (i f : Bytes) (hi : i ≠ []) (hdi : i.all isDigit = true)
    (hdf : f.all isDigit = true) (hfl : f.length < 2 ^ 31) :
    ∃ v e, newFromString ((if neg then [45] else []) ++ (i ++ (if f = [] then [] else 46 :: f))) = some (v, e) := by
  have hsgnE : ∀ c ∈ (if neg then [45] else [] : Bytes), (c == 69 || c == 101) = false := by
    cases neg <;> simp
  have hsgnD : ∀ c ∈ (if neg then [45] else [] : Bytes), (c == 46) = false := by
    cases neg <;> simp
  have hiE : ∀ c ∈ i, (c == 69 || c == 101) = false := fun c hc => (digit_props c ((List.all_eq_true.1 hdi) c hc)).1
  have hfE : ∀ c ∈ f, (c == 69 || c == 101) = false := fun c hc => (digit_props c ((List.all_eq_true.1 hdf) c hc)).1
  have hiD : ∀ c ∈ i, (c == 46) = false := fun c hc => (digit_props c ((List.all_eq_true.1 hdi) c hc)).2
  have hfiltsgn : (if neg then [45] else [] : Bytes).filter (· == 46) = [] := by cases neg <;> simp
  have hdif : (i ++ f).all isDigit = true := by rw [List.all_append, hdi, hdf]; rfl
  have hneif : i ++ f ≠ [] := by simp [hi]
  have hp1 := parseInt_shape neg (i ++ f) hneif hdif
  have hp2 := parseBigInt_shape neg (i ++ f) hneif hdif
  generalize hres : (if neg then -(decVal (i ++ f) : Int) else (decVal (i ++ f) : Int)) = res at hp1 hp2 ⊢
  generalize hs : (if neg = true then [45] else [] : Bytes) = sgn at *
  have hparse : (if (sgn ++ (i ++ f)).length ≤ 18 then parseInt (sgn ++ (i ++ f)) 64
        else parseBigInt (sgn ++ (i ++ f))) = some res := by
    by_cases hl : (sgn ++ (i ++ f)).length ≤ 18
    · rw [if_pos hl]
      apply hp1
      apply decVal_lt_2_63 _ hdif
      simp only [List.length_append] at hl ⊢; omega
    · rw [if_neg hl]; exact hp2
  by_cases hf : f = []
  · subst hf
    simp only [if_true, List.append_nil] at hparse ⊢
    have hE : findIdx (fun c => c == 69 || c == 101) (sgn ++ i) = none :=
      findIdx_none _ _ (by intro c hc; rw [List.mem_append] at hc; cases hc with
        | inl h => exact hsgnE c h
        | inr h => exact hiE c h)
    have hD : findIdx (· == 46) (sgn ++ i) = none :=
      findIdx_none _ _ (by intro c hc; rw [List.mem_append] at hc; cases hc with
        | inl h => exact hsgnD c h
        | inr h => exact hiD c h)
    have hfilt : ((sgn ++ i).filter (· == 46)).length = 0 := by
      rw [List.filter_append, hfiltsgn, filter_dot_digits i hdi]; rfl
    unfold newFromString
    simp only [hE, hD, hfilt, hparse]
    simp
  · rw [if_neg hf]
    have hE : findIdx (fun c => c == 69 || c == 101) (sgn ++ (i ++ 46 :: f)) = none :=
      findIdx_none _ _ (by
        intro c hc
        simp only [List.mem_append, List.mem_cons] at hc
        rcases hc with h | h | h | h
        · exact hsgnE c h
        · exact hiE c h
        · subst h; rfl
        · exact hfE c h)
    have hD : findIdx (· == 46) (sgn ++ (i ++ 46 :: f)) = some (sgn.length + i.length) := by
      rw [findIdx_append_not _ _ _ hsgnD, findIdx_append_not _ _ _ hiD]
      simp [findIdx]; omega
    have hfilt : ((sgn ++ (i ++ 46 :: f)).filter (· == 46)).length = 1 := by
      rw [List.filter_append, hfiltsgn, List.filter_append, filter_dot_digits i hdi, List.filter_cons]
      simp [filter_dot_digits f hdf]
    have htake : (sgn ++ (i ++ 46 :: f)).take (sgn.length + i.length) = sgn ++ i := by
      rw [← List.append_assoc, List.take_left' (by simp)]
    have hdrop : (sgn ++ (i ++ 46 :: f)).drop (sgn.length + i.length + 1) = f := by
      rw [← List.append_assoc, show sgn ++ i ++ 46 :: f = (sgn ++ i ++ [46]) ++ f from by simp]
      rw [List.drop_left' (by simp; omega)]
    unfold newFromString
    simp only [hE, hD, hfilt, htake, hdrop]
    rw [List.append_assoc]
    simp only [hparse]
    simp
    omega

theorem decimalText_total (cell : Bytes) (u : Int) (sc : Nat) (h : decimalText cell = some (u, sc))
    (hlen : cell.length < 2 ^ 31) : ∃ v e, newFromString cell = some (v, e) := by
  obtain ⟨neg, i, f, hcell, hi, hdi, hdf, hfl, _⟩ := decimalText_shape cell u sc h
  rw [hcell]
  apply newFromString_total neg i f hi hdi hdf
  have : f.length ≤ cell.length := by
    rw [hcell]; cases neg <;> by_cases hf : f = [] <;> (simp [hf]; try omega)
  omega

/-! ### one column -/

theorem col_mk (ops : FloatOps) (f : Field) (cell : Bytes) (v : GoVal)
    (hp : parseTextValue ops f cell = .ok v) (hfit : integerFitsColumn f v = true)
    (ha : ∃ b, appendBinaryValue ops f.typ v = .ok b) :
    ∃ v b, parseTextValue ops f cell = .ok v ∧ integerFitsColumn f v = true
      ∧ appendBinaryValue ops f.typ v = .ok b := by
  obtain ⟨b, hb⟩ := ha
  exact ⟨v, b, hp, hfit, hb⟩

set_option linter.unusedSimpArgs false in
/-- **One column is delivered.** -/
theorem col_total (ops : FloatOps) (f : Field) (cell : Bytes) (hlen : cell.length < 2 ^ 31)
    (hs : serverCell ops f (some cell) = true) :
    ∃ v b, parseTextValue ops f cell = .ok v ∧ integerFitsColumn f v = true
      ∧ appendBinaryValue ops f.typ v = .ok b := by
  obtain ⟨ty, flag⟩ := f
  unfold serverCell at hs
  simp only [Bool.and_eq_true, Bool.or_eq_true, Bool.not_eq_true', bne_iff_ne, ne_eq] at hs
  obtain ⟨hden, hsp⟩ := hs
  cases hd : denoteText ops ⟨ty, flag⟩ (some cell) with
  | none => simp [hd] at hden
  | some d =>
  clear hden
  unfold denoteText at hd
  simp only at hd
  cases hw : intWidth ty with
  | some w =>
    simp only [hw] at hd
    cases hx : intText cell with
    | none => simp [hx] at hd
    | some x =>
      simp only [hx] at hd
      split at hd
      · rename_i hr
        apply int_cell_total ops ty flag w cell x hw hx hr
        intro hu
        rcases hsp with h | h
        · simp [hw, hu] at h
        · exact h
      · simp at hd
  | none =>
    simp only [hw] at hd
    have hnofit : ∀ v, integerFitsColumn ⟨ty, flag⟩ v = true := by
      intro v
      unfold intWidth at hw
      unfold integerFitsColumn
      simp only
      repeat' split at hw
      all_goals first | (simp at hw) | skip
      rename_i h1 h2 h3 h4
      simp [h1, h2, h3, h4]
    by_cases h4 : ty = TypeFloat
    · subst h4
      simp only [if_true] at hd
      cases hp : ops.parseFloat cell with
      | none => simp [hp] at hd
      | some bits =>
        refine col_mk ops _ cell (.f64 bits) (by simp [parseTextValue, isIntFieldType, hp]) (hnofit _) ?_
        simp [appendBinaryValue, binaryValueBytes, GaeaVerif.C12.leBytes_length]
    by_cases h5 : ty = TypeDouble
    · subst h5
      simp only [show ¬ (TypeDouble = TypeFloat) by decide, if_false, if_true] at hd
      cases hp : ops.parseFloat cell with
      | none => simp [hp] at hd
      | some bits =>
        refine col_mk ops _ cell (.f64 bits) (by simp [parseTextValue, isIntFieldType, hp]) (hnofit _) ?_
        simp [appendBinaryValue, binaryValueBytes, GaeaVerif.C12.leBytes_length]
    by_cases hdec : ty = TypeNewDecimal ∨ ty = TypeDecimal
    · simp only [h4, h5, hdec, if_false, if_true] at hd
      cases hdt : decimalText cell with
      | none => simp [hdt] at hd
      | some p =>
        obtain ⟨u, sc⟩ := p
        rcases hdec with e | e
        · subst e
          obtain ⟨val, ex, hn⟩ := decimalText_total cell u sc hdt hlen
          refine col_mk ops _ cell (.dec val ex) (by simp [parseTextValue, isIntFieldType, hn]) (hnofit _) ?_
          simp [appendBinaryValue, binaryValueBytes, isLenEncFieldType]
        · subst e
          refine col_mk ops _ cell (.bytes cell) (by simp [parseTextValue, isIntFieldType, isStringFieldType]) (hnofit _) ?_
          simp [appendBinaryValue, binaryValueBytes, isLenEncFieldType, isRawFieldType]
    by_cases hdate : ty = TypeDate ∨ ty = TypeNewDate
    · rcases hdate with e | e <;> subst e <;>
        refine col_mk ops _ cell (.str cell) (by simp [parseTextValue, isIntFieldType, isStringFieldType]) (hnofit _) ?_ <;>
        simp [appendBinaryValue, binaryValueBytes, isLenEncFieldType, isRawFieldType]
    by_cases hdtm : ty = TypeDatetime ∨ ty = TypeTimestamp
    · simp only [h4, h5, hdec, hdate, hdtm, if_false, if_true] at hd
      obtain ⟨t, ht, _⟩ := datetime_read_bytes cell d (datetimeText_sub cell d hd)
      rcases hdtm with e | e <;> subst e <;>
        refine col_mk ops _ cell (.str cell) (by simp [parseTextValue, isIntFieldType, isStringFieldType]) (hnofit _) ?_ <;>
        simp [appendBinaryValue, binaryValueBytes, isLenEncFieldType, isRawFieldType, ht]
    by_cases hdur : ty = TypeDuration
    · simp only [h4, h5, hdec, hdate, hdtm, hdur, if_false, if_true] at hd
      subst hdur
      obtain ⟨neg, hs, i0, i1, s0, s1, frac, mi, sec, us, hc, hne, hdg, hH, hmi, hsec, hus, hmi60, hs60, _⟩ :=
        timeText_some cell d hd
      have hst := stringToMysqlTime_shape neg hs i0 i1 s0 s1 frac mi sec us hne hdg hH hmi hsec hus hmi60 hs60
      rw [← hc] at hst
      refine col_mk ops _ cell (.str cell) (by simp [parseTextValue, isIntFieldType, isStringFieldType]) (hnofit _) ?_
      simp [appendBinaryValue, binaryValueBytes, isLenEncFieldType, isRawFieldType, durationBytes, hst]
    · simp only [h4, h5, hdec, hdate, hdtm, hdur, if_false] at hd
      split at hd
      · rename_i hbt
        simp only [isBytesType, Bool.or_eq_true, beq_iff_eq] at hbt
        rcases hbt with ((((((((((h | h) | h) | h) | h) | h) | h) | h) | h) | h) | h) | h <;> subst h <;>
          first
          | (refine col_mk ops _ cell (.str cell) ?_ (hnofit _) ?_
             · simp [parseTextValue, isIntFieldType, isStringFieldType]
             · simp [appendBinaryValue, binaryValueBytes, isLenEncFieldType, isRawFieldType])
          | (refine col_mk ops _ cell (.bytes cell) ?_ (hnofit _) ?_
             · simp [parseTextValue, isIntFieldType, isStringFieldType]
             · simp [appendBinaryValue, binaryValueBytes, isLenEncFieldType, isRawFieldType])
      · simp at hd

/-! ### the row -/

theorem serverRow_len (ops : FloatOps) (fields : List Field) (cells : List (Option Bytes))
    (h : serverRow ops fields cells = true) : cells.length = fields.length := by
  induction fields generalizing cells with
  | nil => cases cells <;> simp [serverRow] at h ⊢
  | cons f fs ih =>
    cases cells with
    | nil => simp [serverRow] at h
    | cons c cs =>
      simp only [serverRow, Bool.and_eq_true] at h
      simp [ih cs h.2]

theorem cells_total (ops : FloatOps) (fields : List Field) (cells : List (Option Bytes))
    (hs : serverRow ops fields cells = true) (hlen : ∀ v, some v ∈ cells → v.length < 2 ^ 31) :
    ∃ vals enc, convertCells ops fields cells = .ok vals ∧ encodeVals ops fields vals = .ok enc
      ∧ vals.length = fields.length := by
  induction fields generalizing cells with
  | nil =>
    cases cells with
    | nil => exact ⟨[], [], by simp [convertCells], by simp [encodeVals], rfl⟩
    | cons c cs => simp [serverRow] at hs
  | cons f fs ih =>
    cases cells with
    | nil => simp [serverRow] at hs
    | cons c cs =>
      simp only [serverRow, Bool.and_eq_true] at hs
      obtain ⟨vals, enc, hc, he, hl⟩ := ih cs hs.2 (fun v hv => hlen v (by simp [hv]))
      cases c with
      | none =>
        exact ⟨GoVal.nil :: vals, enc, by simp [convertCells, hc], by simp [encodeVals, he], by simp [hl]⟩
      | some cell =>
        obtain ⟨v, b, hp, hfit, ha⟩ := col_total ops f cell (hlen cell (by simp)) hs.1
        have hv := parseTextValue_ne_nil ops f cell v hp
        exact ⟨v :: vals, b ++ enc, by simp [convertCells, hp, hc], by simp [encodeVals, hv, hfit, ha, he],
          by simp [hl]⟩

theorem buildRowLoop_total (ops : FloatOps) (fields : List Field) (vals : List GoVal) (enc : Bytes) (j : Nat)
    (payload : Bytes) (bm : List Nat) (henc : encodeVals ops fields vals = .ok enc)
    (hbm : (j + vals.length + 1) / 8 < bm.length) :
    ∃ bm', buildRowLoop ops fields vals j payload bm = .ok (payload ++ enc, bm') := by
  induction vals generalizing fields enc j payload bm with
  | nil =>
    simp [encodeVals] at henc; subst henc
    exact ⟨bm, by simp [buildRowLoop]⟩
  | cons v vs ih =>
    cases fields with
    | nil => simp [encodeVals] at henc
    | cons f fs =>
      simp only [List.length_cons] at hbm
      simp only [encodeVals] at henc
      simp only [buildRowLoop]
      by_cases hv : v = GoVal.nil
      · simp only [hv, if_true] at henc ⊢
        have hpos : (j + 2) / 8 < bm.length := by
          have : (j + 2) / 8 ≤ (j + (vs.length + 1) + 1) / 8 := Nat.div_le_div_right (by omega)
          omega
        simp only [setNullBit, hpos, if_true]
        apply ih fs enc (j + 1) payload _ henc
        simp; rw [show j + 1 + vs.length + 1 = j + (vs.length + 1) + 1 by omega]; exact hbm
      · simp only [hv, if_false] at henc ⊢
        cases hfit : integerFitsColumn f v with
        | false => simp [hfit] at henc
        | true =>
          simp only [hfit, Bool.not_true, Bool.false_eq_true, if_false] at henc ⊢
          cases ha : appendBinaryValue ops f.typ v with
          | err e => simp [ha] at henc
          | ok b =>
            cases he : encodeVals ops fs vs with
            | err e => simp [ha, he] at henc
            | ok bs =>
              simp only [ha, he, Res.ok.injEq] at henc
              subst henc
              simp only
              obtain ⟨bm', h⟩ := ih fs bs (j + 1) (payload ++ b) bm he
                (by rw [show j + 1 + vs.length + 1 = j + (vs.length + 1) + 1 by omega]; exact hbm)
              exact ⟨bm', by rw [h]; simp⟩

theorem buildBinaryRow_total (ops : FloatOps) (fields : List Field) (vals : List GoVal) (enc : Bytes)
    (henc : encodeVals ops fields vals = .ok enc) (hl : vals.length = fields.length) :
    ∃ out, buildBinaryRow ops fields vals = .ok out := by
  unfold buildBinaryRow
  rw [if_neg (by simp [hl])]
  obtain ⟨bm', h⟩ := buildRowLoop_total ops fields vals enc 0 [] (List.replicate ((fields.length + 7 + 2) / 8) 0) henc
    (by simp only [List.length_replicate]; omega)
  simp only [h]
  exact ⟨_, rfl⟩

theorem serverRow_denote (ops : FloatOps) (fields : List Field) (cells : List (Option Bytes))
    (h : serverRow ops fields cells = true) : ∃ ds, denoteRow ops fields cells = some ds := by
  induction fields generalizing cells with
  | nil =>
    cases cells with
    | nil => exact ⟨[], rfl⟩
    | cons c cs => simp [serverRow] at h
  | cons f fs ih =>
    cases cells with
    | nil => simp [serverRow] at h
    | cons c cs =>
      simp only [serverRow, Bool.and_eq_true] at h
      obtain ⟨ds, hds⟩ := ih cs h.2
      cases c with
      | none => exact ⟨.null :: ds, by simp [denoteRow, denoteText, hds]⟩
      | some cell =>
        have h1 := h.1
        unfold serverCell at h1
        simp only [Bool.and_eq_true] at h1
        cases hd : denoteText ops f (some cell) with
        | none => simp [hd] at h1
        | some d => exact ⟨d :: ds, by simp [denoteRow, hd, hds]⟩

/-- **A row of server values is converted.** -/
theorem row_total (ops : FloatOps) (fields : List Field) (cells : List (Option Bytes))
    (hs : serverRow ops fields cells = true) (hcell : ∀ v, some v ∈ cells → v.length < 2 ^ 31)
    (hlen : (encodeTextRow cells).length < 2 ^ 63) :
    ∃ out, rowToBinary ops fields (encodeTextRow cells) = .ok out := by
  obtain ⟨vals, enc, hc, he, hl⟩ := cells_total ops fields cells hs hcell
  obtain ⟨out, ho⟩ := buildBinaryRow_total ops fields vals enc he hl
  refine ⟨out, ?_⟩
  unfold rowToBinary
  rw [parseText_encode ops fields cells (serverRow_len ops fields cells hs) hlen, hc]
  exact ho

end GaeaVerif.C13
