import GaeaVerif.Lemmas.MergeOrder
/-
  C02 helper lemmas: `cmpValue` / `ResultsetSorter.Less` against the SQL order;
  `SortWithoutColumnName` as a stable sort by the ORDER BY key.
-/
namespace GaeaVerif.Merge

theorem cmpValue_int (a b : Int) (v : Int) (h : cmpValue (.int a) (.int b) = .ok v) :
    (v < 0 ↔ ltVal (.int a) (.int b) = true) ∧ (v > 0 ↔ ltVal (.int b) (.int a) = true) := by
  simp only [cmpValue, R.ok.injEq] at h
  subst h
  simp only [ltVal, leVal]
  by_cases h1 : a < b
  · simp [h1]; omega
  · by_cases h2 : a > b
    · simp [h1, h2] <;> omega
    · simp [h1, h2] <;> omega

theorem cmpValue_str (a b : List UInt8) (v : Int) (h : cmpValue (.str a) (.str b) = .ok v) :
    (v < 0 ↔ ltVal (.str a) (.str b) = true) ∧ (v > 0 ↔ ltVal (.str b) (.str a) = true) := by
  simp only [cmpValue, R.ok.injEq] at h
  subst h
  simp only [ltVal, leVal]
  by_cases e : a = b
  · subst e; simp [bytesLe_refl]
  · by_cases h1 : bytesLe a b = true
    · have h2 : bytesLe b a = false := by
        cases hb : bytesLe b a
        · rfl
        · exact absurd (bytesLe_antisymm a b h1 hb) e
      simp [e, h1, h2]
    · have h2 : bytesLe b a = true := by
        rcases bytesLe_total a b with h | h
        · exact absurd h h1
        · exact h
      simp [e, h1, h2]

theorem cmpValue_spec (x y : Val) (v : Int) (h : cmpValue x y = .ok v) :
    (v < 0 ↔ ltVal x y = true) ∧ (v > 0 ↔ ltVal y x = true) := by
  cases x <;> cases y <;>
    first
      | exact cmpValue_int _ _ v h
      | exact cmpValue_str _ _ v h
      | (simp only [cmpValue, R.ok.injEq, reduceCtorEq] at h; subst h; simp [ltVal, leVal, Val.rank])
      | (simp only [cmpValue, reduceCtorEq] at h)

/-- the ORDER BY key of a merged row: the values at the sort columns -/
def keyAt (cols : List Int) (r : Row) : Row := cols.map fun c => r.getD c.toNat .null

def InRange (cols : List Int) (r : Row) : Prop := ∀ c ∈ cols, 0 ≤ c ∧ c < r.length

theorem cmpValue_ne_fail (x y : Val) : cmpValue x y ≠ .fail := by
  cases x <;> cases y <;> simp [cmpValue]

/-- one step of `Less`, uniform in the direction -/
theorem lessStep_spec (w : Int) (X Y : Val) (rest : R Bool) (restKey : Bool)
    (hw : (w < 0 ↔ ltVal X Y = true) ∧ (w > 0 ↔ ltVal Y X = true))
    (hrest : rest.isPanic = false → rest = .ok (!restKey))
    (hp : (if w < 0 then R.ok true else if w > 0 then R.ok false else rest).isPanic = false) :
    (if w < 0 then R.ok true else if w > 0 then R.ok false else rest) =
      .ok (!(if ltVal Y X then true else if ltVal X Y then false else restKey)) := by
  by_cases h1 : w < 0
  · have hx : ltVal X Y = true := hw.1.mp h1
    have hy : ltVal Y X = false := ltVal_asymm _ _ hx
    simp [h1, hx, hy]
  · by_cases h2 : w > 0
    · have hy : ltVal Y X = true := hw.2.mp h2
      simp [h1, h2, hy]
    · have hx : ltVal X Y = false := by
        cases hh : ltVal X Y
        · rfl
        · exact absurd (hw.1.mpr hh) h1
      have hy : ltVal Y X = false := by
        cases hh : ltVal Y X
        · rfl
        · exact absurd (hw.2.mpr hh) h2
      simp only [h1, h2, if_false, hx, hy, Bool.false_eq_true] at hp ⊢
      exact hrest hp

theorem less_spec : ∀ (cols : List Int) (dirs : List Bool) (a b : Row), cols.length = dirs.length →
    InRange cols a → InRange cols b → (less (cols.zip dirs) a b).isPanic = false →
    less (cols.zip dirs) a b = .ok (!leKey dirs (keyAt cols b) (keyAt cols a))
  | [], [], _, _, _, _, _, _ => by simp [less, leKey]
  | [], _ :: _, _, _, h, _, _, _ => by simp at h
  | _ :: _, [], _, _, h, _, _, _ => by simp at h
  | c :: cols, d :: dirs, a, b, hl, ha, hb, hp => by
    have hca := ha c (by simp)
    have hcb := hb c (by simp)
    have ih := less_spec cols dirs a b (by simpa using hl) (fun x hx => ha x (by simp [hx]))
      (fun x hx => hb x (by simp [hx]))
    simp only [List.zip_cons_cons, less] at hp ⊢
    have hr : ¬ (c < 0 ∨ c ≥ a.length ∨ c ≥ b.length) := by omega
    rw [if_neg hr] at hp ⊢
    rw [leKey_cons]
    simp only [keyAt, List.map_cons, List.headD_cons, List.tail_cons]
    generalize a.getD c.toNat .null = x at hp ⊢
    generalize b.getD c.toNat .null = y at hp ⊢
    cases hc : cmpValue x y with
    | fail => exact absurd hc (cmpValue_ne_fail x y)
    | panic => simp [hc, R.isPanic] at hp
    | ok v =>
      simp only [hc] at hp ⊢
      have hs := cmpValue_spec x y v hc
      cases d
      · simp only [Bool.false_eq_true, if_false] at hp ⊢
        exact lessStep_spec v x y _ _ hs ih hp
      · simp only [if_true] at hp ⊢
        exact lessStep_spec (-v) y x _ _ ⟨by rw [← hs.2]; omega, by rw [← hs.1]; omega⟩ ih hp

theorem leKey_refl (ds : List Bool) (a : List Val) : leKey ds a a = true := by
  rcases leKey_total ds a a with h | h <;> exact h

theorem less_never_fails : ∀ (ks : List (Int × Bool)) (a b : Row), less ks a b ≠ .fail
  | [], _, _ => by simp [less]
  | (c, d) :: ks, a, b => by
    simp only [less]
    split
    · simp
    · generalize a.getD c.toNat .null = x
      generalize b.getD c.toNat .null = y
      cases hc : cmpValue x y with
      | fail => exact absurd hc (cmpValue_ne_fail x y)
      | panic => simp
      | ok v =>
        simp only
        generalize (if d = true then -v else v) = w
        by_cases h1 : w < 0
        · simp [h1]
        · by_cases h2 : w > 0
          · simp [h1, h2]
          · simp only [h1, h2, if_false]; exact less_never_fails ks a b

/-- the comparison the model sorts with, against the ORDER BY key order -/
theorem sortCmp_spec (cols : List Int) (dirs : List Bool) (a b : Row) (hl : cols.length = dirs.length)
    (ha : InRange cols a) (hb : InRange cols b)
    (hp : a ≠ b → (less (cols.zip dirs) b a).isPanic = false) :
    (!lessB (cols.zip dirs) b a) = leKey dirs (keyAt cols a) (keyAt cols b) := by
  by_cases hpan : (less (cols.zip dirs) b a).isPanic = true
  · have e : a = b := by
      cases hab : decide (a = b)
      · have := hp (by simpa using hab); simp [this] at hpan
      · simpa using hab
    subst e
    have : lessB (cols.zip dirs) a a = false := by
      simp only [lessB]
      cases hh : less (cols.zip dirs) a a <;> simp_all [R.isPanic]
    simp [this, leKey_refl]
  · have hs := less_spec cols dirs b a hl hb ha (by simpa using hpan)
    simp only [lessB, hs]
    cases leKey dirs (keyAt cols a) (keyAt cols b) <;> rfl

theorem badPairs_false : ∀ (ks : List (Int × Bool)) (rows : List Row), badPairs ks rows = false →
    ∀ a ∈ rows, ∀ b ∈ rows, a ≠ b → (less ks a b).isPanic = false
  | _, [], _, _, h, _, _, _ => by simp at h
  | ks, r :: rows, hb, a, ha, b, hb', hne => by
    simp only [badPairs, Bool.or_eq_false_iff, List.any_eq_false, Bool.or_eq_true, not_or,
      Bool.not_eq_true] at hb
    rcases List.mem_cons.mp ha with e1 | ha2
    · rcases List.mem_cons.mp hb' with e2 | hb2
      · exact absurd (e1.trans e2.symm) hne
      · rw [e1]; exact (hb.1 b hb2).1
    · rcases List.mem_cons.mp hb' with e2 | hb2
      · rw [e2]; exact (hb.1 a ha2).2
      · exact badPairs_false ks rows hb.2 a ha2 b hb2 hne

/-- **`SortWithoutColumnName`** returns (when no comparison panics) the rows
    stably sorted by their ORDER BY keys. -/
theorem sortRows_spec (cols : List Int) (dirs : List Bool) (rows out : List Row) (hl : cols.length = dirs.length)
    (hr : ∀ r ∈ rows, InRange cols r) (h : sortRows (cols.zip dirs) rows = .ok out) :
    out = rows.mergeSort fun a b => leKey dirs (keyAt cols a) (keyAt cols b) := by
  simp only [sortRows] at h
  split at h
  · cases h
  · rename_i hbad
    rw [R.ok.injEq] at h
    subst h
    have := List.map_mergeSort (f := id) (r := fun a b => !lessB (cols.zip dirs) b a)
      (s := fun a b => leKey dirs (keyAt cols a) (keyAt cols b)) (l := rows) (by
        intro a ha b hb
        exact sortCmp_spec cols dirs a b hl (hr a ha) (hr b hb)
          (fun hne => badPairs_false _ rows (by simpa using hbad) b hb a ha (fun e => hne e.symm)))
    simpa using this

end GaeaVerif.Merge
