import GaeaVerif.Model.Merge
/-
  C02 helper lemmas: the ascending order of SQL values and of ORDER BY keys is a
  total preorder; `ResultsetSorter.Less` is its strict part wherever it returns.
-/
namespace GaeaVerif.Merge

theorem bytesLe_total : ∀ a b : List UInt8, bytesLe a b = true ∨ bytesLe b a = true
  | [], _ => by simp [bytesLe]
  | _ :: _, [] => by simp [bytesLe]
  | a :: as, b :: bs => by
    simp only [bytesLe]
    by_cases h1 : a.toNat < b.toNat
    · simp [h1]
    · by_cases h2 : b.toNat < a.toNat
      · simp [h2]
      · simp [h1, h2]; exact bytesLe_total as bs

theorem bytesLe_refl : ∀ a : List UInt8, bytesLe a a = true
  | [] => by simp [bytesLe]
  | a :: as => by simp [bytesLe, bytesLe_refl as]

theorem bytesLe_trans : ∀ a b c : List UInt8, bytesLe a b = true → bytesLe b c = true → bytesLe a c = true
  | [], _, _ => by simp [bytesLe]
  | _ :: _, [], _ => by simp [bytesLe]
  | _ :: _, _ :: _, [] => by simp [bytesLe]
  | a :: as, b :: bs, c :: cs => by
    simp only [bytesLe]
    intro h1 h2
    by_cases hab : a.toNat < b.toNat
    · by_cases hbc : b.toNat < c.toNat
      · have : a.toNat < c.toNat := by omega
        simp [this]
      · by_cases hcb : c.toNat < b.toNat
        · simp [hbc, hcb] at h2
        · have : a.toNat < c.toNat := by omega
          simp [this]
    · by_cases hba : b.toNat < a.toNat
      · simp [hab, hba] at h1
      · simp [hab, hba] at h1
        by_cases hbc : b.toNat < c.toNat
        · have : a.toNat < c.toNat := by omega
          simp [this]
        · by_cases hcb : c.toNat < b.toNat
          · simp [hbc, hcb] at h2
          · simp [hbc, hcb] at h2
            have e1 : ¬ a.toNat < c.toNat := by omega
            have e2 : ¬ c.toNat < a.toNat := by omega
            simp [e1, e2]
            exact bytesLe_trans as bs cs h1 h2

theorem bytesLe_antisymm : ∀ a b : List UInt8, bytesLe a b = true → bytesLe b a = true → a = b
  | [], [] => by simp
  | [], _ :: _ => by simp [bytesLe]
  | _ :: _, [] => by simp [bytesLe]
  | a :: as, b :: bs => by
    simp only [bytesLe]
    intro h1 h2
    by_cases hab : a.toNat < b.toNat
    · have : ¬ b.toNat < a.toNat := by omega
      simp [hab, this] at h2
    · by_cases hba : b.toNat < a.toNat
      · simp [hab, hba] at h1
      · simp [hab, hba] at h1 h2
        have : a = b := by
          apply UInt8.toNat_inj.mp; omega
        rw [this, bytesLe_antisymm as bs h1 h2]

theorem leVal_total (a b : Val) : leVal a b = true ∨ leVal b a = true := by
  cases a <;> cases b <;> simp [leVal, Val.rank]
  · omega
  · rename_i u s u' s'
    by_cases h : s = s'
    · subst h; simp; omega
    · have h' : ¬ s' = s := fun e => h e.symm
      simp [h, h']; omega
  · exact bytesLe_total _ _

theorem leVal_refl (a : Val) : leVal a a = true := by
  cases a <;> simp [leVal, Val.rank, bytesLe_refl]

theorem leVal_dec_trans (u1 u2 u3 : Int) (s1 s2 s3 : Nat) :
    leVal (.dec u1 s1) (.dec u2 s2) = true → leVal (.dec u2 s2) (.dec u3 s3) = true →
    leVal (.dec u1 s1) (.dec u3 s3) = true := by
  simp only [leVal]
  intro h1 h2
  split at h1 <;> split at h2 <;> split <;> simp only [decide_eq_true_eq] at h1 h2 ⊢ <;> omega

theorem leVal_str_trans (a b c : List UInt8) :
    leVal (.str a) (.str b) = true → leVal (.str b) (.str c) = true → leVal (.str a) (.str c) = true := by
  simp only [leVal]; exact bytesLe_trans a b c

theorem leVal_trans (a b c : Val) : leVal a b = true → leVal b c = true → leVal a c = true := by
  cases a <;> cases b <;> cases c <;>
    first
      | exact leVal_dec_trans _ _ _ _ _ _
      | exact leVal_str_trans _ _ _
      | (simp [leVal, Val.rank]; try omega)

theorem ltVal_iff (a b : Val) : ltVal a b = true ↔ leVal b a = false := by
  simp [ltVal]

/-- one step of the lexicographic comparison -/
theorem leKey_cons (d : Bool) (ds : List Bool) (a b : List Val) :
    leKey (d :: ds) a b =
      (if ltVal (if d then b.headD .null else a.headD .null) (if d then a.headD .null else b.headD .null) then true
       else if ltVal (if d then a.headD .null else b.headD .null) (if d then b.headD .null else a.headD .null) then false
       else leKey ds a.tail b.tail) := by
  simp only [leKey]

theorem leKey_total : ∀ (ds : List Bool) (a b : List Val), leKey ds a b = true ∨ leKey ds b a = true
  | [], _, _ => by simp [leKey]
  | d :: ds, a, b => by
    rw [leKey_cons, leKey_cons]
    generalize a.headD .null = x
    generalize b.headD .null = y
    have ih := leKey_total ds a.tail b.tail
    cases d <;> simp only [if_true, if_false, Bool.false_eq_true]
    · by_cases h1 : ltVal x y = true
      · simp [h1]
      · by_cases h2 : ltVal y x = true
        · simp [h2]
        · simp only [h1, h2, if_false]; exact ih
    · by_cases h1 : ltVal y x = true
      · simp [h1]
      · by_cases h2 : ltVal x y = true
        · simp [h2]
        · simp only [h1, h2, if_false]; exact ih

theorem ltVal_asymm (a b : Val) : ltVal a b = true → ltVal b a = false := by
  simp only [ltVal]
  intro h
  rcases leVal_total a b with h1 | h1
  · simp [h1]
  · simp [h1] at h

theorem ltVal_trans (a b c : Val) : ltVal a b = true → ltVal b c = true → ltVal a c = true := by
  simp only [ltVal, Bool.not_eq_true', Bool.not_eq_eq_eq_not, Bool.not_true]
  intro h1 h2
  cases h : leVal c a
  · rfl
  · -- c ≤ a, and b ≤ c (since ¬ c ≤ b), so b ≤ a: contradiction
    have hbc : leVal b c = true := by
      rcases leVal_total b c with x | x
      · exact x
      · simp [x] at h2
    have := leVal_trans b c a hbc h
    simp [this] at h1

/-- `a` and `b` are equivalent in the order and `b < c`, then `a < c` (and symmetric forms) -/
theorem ltVal_of_eqv_left (a b c : Val) (h1 : ltVal a b = false) (h2 : ltVal b a = false)
    (h : ltVal b c = true) : ltVal a c = true := by
  simp only [ltVal, Bool.not_eq_true', Bool.not_eq_eq_eq_not, Bool.not_true, Bool.not_false] at *
  cases hca : leVal c a
  · rfl
  · have := leVal_trans c a b hca (by simpa using h2)
    simp [this] at h

theorem ltVal_of_eqv_right (a b c : Val) (h1 : ltVal b c = false) (h2 : ltVal c b = false)
    (h : ltVal a b = true) : ltVal a c = true := by
  simp only [ltVal, Bool.not_eq_true', Bool.not_eq_eq_eq_not, Bool.not_true, Bool.not_false] at *
  cases hca : leVal c a
  · rfl
  · have := leVal_trans b c a (by simpa using h2) hca
    simp [this] at h

theorem ltVal_eqv_trans (a b c : Val) (h1 : ltVal a b = false) (h2 : ltVal b a = false)
    (h3 : ltVal b c = false) (h4 : ltVal c b = false) : ltVal a c = false ∧ ltVal c a = false := by
  simp only [ltVal, Bool.not_eq_true', Bool.not_eq_eq_eq_not, Bool.not_true, Bool.not_false] at *
  exact ⟨by simpa using leVal_trans c b a h3 h1, by simpa using leVal_trans a b c h2 h4⟩

/-- transitivity of one lexicographic step -/
theorem lexStep_trans (x y z : Val) (r1 r2 r3 : Bool) (hr : r1 = true → r2 = true → r3 = true)
    (h1 : (if ltVal x y then true else if ltVal y x then false else r1) = true)
    (h2 : (if ltVal y z then true else if ltVal z y then false else r2) = true) :
    (if ltVal x z then true else if ltVal z x then false else r3) = true := by
  by_cases p1 : ltVal x y = true
  · by_cases p2 : ltVal y z = true
    · simp [ltVal_trans _ _ _ p1 p2]
    · by_cases p3 : ltVal z y = true
      · simp [p2, p3] at h2
      · simp [ltVal_of_eqv_right _ _ _ (by simpa using p2) (by simpa using p3) p1]
  · by_cases p1' : ltVal y x = true
    · simp [p1, p1'] at h1
    · simp only [p1, p1', if_false] at h1
      by_cases p2 : ltVal y z = true
      · simp [ltVal_of_eqv_left _ _ _ (by simpa using p1) (by simpa using p1') p2]
      · by_cases p3 : ltVal z y = true
        · simp [p2, p3] at h2
        · simp only [p2, p3, if_false] at h2
          have := ltVal_eqv_trans _ _ _ (by simpa using p1) (by simpa using p1') (by simpa using p2) (by simpa using p3)
          simp only [this.1, this.2, if_false, Bool.false_eq_true]
          exact hr h1 h2

theorem leKey_trans : ∀ (ds : List Bool) (a b c : List Val),
    leKey ds a b = true → leKey ds b c = true → leKey ds a c = true
  | [], _, _, _ => by simp [leKey]
  | d :: ds, a, b, c => by
    rw [leKey_cons, leKey_cons, leKey_cons]
    generalize a.headD .null = x
    generalize b.headD .null = y
    generalize c.headD .null = z
    have ih := leKey_trans ds a.tail b.tail c.tail
    cases d <;> simp only [if_true, if_false, Bool.false_eq_true]
    · exact lexStep_trans x y z _ _ _ ih
    · intro h1 h2
      exact lexStep_trans z y x _ _ _ (fun a b => ih b a) (by
        by_cases q1 : ltVal z y = true
        · simp [q1]
        · by_cases q2 : ltVal y z = true
          · simp [q1, q2] at h2
          · simp only [q1, q2, if_false] at h2 ⊢; exact h2) (by
        by_cases q1 : ltVal y x = true
        · simp [q1]
        · by_cases q2 : ltVal x y = true
          · simp [q1, q2] at h1
          · simp only [q1, q2, if_false] at h1 ⊢; exact h1) |> fun h => by
        by_cases q1 : ltVal z x = true
        · simp [q1]
        · by_cases q2 : ltVal x z = true
          · simp [q1, q2] at h
          · simp only [q1, q2, if_false] at h ⊢; exact h

theorem leOut_total (ds : List Bool) (a b : OutRow) : (leOut ds a b || leOut ds b a) = true := by
  simp only [leOut, Bool.or_eq_true]; exact leKey_total ds _ _

theorem leOut_trans (ds : List Bool) (a b c : OutRow) : leOut ds a b = true → leOut ds b c = true → leOut ds a c = true :=
  leKey_trans ds _ _ _

end GaeaVerif.Merge
