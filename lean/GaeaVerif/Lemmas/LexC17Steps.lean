import GaeaVerif.Lemmas.LexC17Tokens
/-
  Helper lemmas for C17: one dispatch of the scanner (`plainStep`) on the
  rendering of each kind of lexical item.
-/
namespace GaeaVerif.LexC17
open GaeaVerif

/-- What may follow a word or a number: nothing, or an ASCII byte that cannot continue an identifier. -/
def WordStop (more : Bytes) : Prop :=
  more = [] ∨ ∃ n t, more = n :: t ∧ n.toNat < 0x80 ∧ isWordB n = false

theorem isWordB_ident (b : UInt8) (h : isWordB b = true) : b.toNat < 0x80 ∧ isIdentChar b.toNat = true := by
  simp only [isWordB, isWordStartB, isLetter, isDigit, Bool.or_eq_true, Bool.and_eq_true, decide_eq_true_eq] at h
  refine ⟨by omega, ?_⟩
  simp only [isIdentChar, isLetter, isDigit, isIdentExtend, Bool.or_eq_true, Bool.and_eq_true, decide_eq_true_eq]
  omega

theorem not_isWordB_ident (n : UInt8) (h80 : n.toNat < 0x80) (h : isWordB n = false) : isIdentChar n.toNat = false := by
  simp only [isWordB, isWordStartB, isLetter, isDigit, Bool.or_eq_false_iff, Bool.and_eq_false_iff, decide_eq_false_iff_not] at h
  simp only [isIdentChar, isLetter, isDigit, isIdentExtend, Bool.or_eq_false_iff, Bool.and_eq_false_iff, decide_eq_false_iff_not]
  omega

theorem ident_run (w more : Bytes) (hw : ∀ b ∈ w, isWordB b = true) (hm : WordStop more) :
    incAsLongAs isIdentChar (w ++ more) = w.length := by
  rw [incAsLongAs_ascii_run isIdentChar w more (fun b hb => isWordB_ident b (hw b hb))]
  rcases hm with rfl | ⟨n, t, rfl, h1, h2⟩
  · simp [incAsLongAs_nil]
  · rw [incAsLongAs_stop isIdentChar _ (by rw [peek_ascii n t h1]; exact not_isWordB_ident n h1 h2)]
    omega

theorem spanLen_stop (p : UInt8 → Bool) (w more : Bytes) (hm : more = [] ∨ ∃ n t, more = n :: t ∧ p n = false) :
    spanLen p (w ++ more) = spanLen p w := by
  induction w with
  | nil =>
    rcases hm with rfl | ⟨n, t, rfl, h⟩
    · rfl
    · simp [spanLen, List.takeWhile, h]
  | cons b t ih =>
    simp only [spanLen, List.cons_append, List.takeWhile]
    cases hp : p b with
    | true => simp only [List.length_cons]; congr 1
    | false => rfl

theorem spanLen_all (p : UInt8 → Bool) (w : Bytes) (hw : ∀ b ∈ w, p b = true) : spanLen p w = w.length := by
  induction w with
  | nil => rfl
  | cons b t ih =>
    simp only [spanLen, List.takeWhile, hw b (by simp), List.length_cons]
    congr 1
    exact ih (fun b' hb' => hw b' (by simp [hb']))

theorem spanLen_le (p : UInt8 → Bool) (w : Bytes) : spanLen p w ≤ w.length := by
  induction w with
  | nil => simp [spanLen]
  | cons b t ih =>
    simp only [spanLen, List.takeWhile] at ih ⊢
    cases p b <;> simp only [List.length_cons, List.length_nil] <;> omega

theorem spanLen_run (p : UInt8 → Bool) (w more : Bytes) (hw : ∀ b ∈ w, p b = true)
    (hm : more = [] ∨ ∃ n t, more = n :: t ∧ p n = false) : spanLen p (w ++ more) = w.length := by
  rw [spanLen_stop p w more hm, spanLen_all p w hw]

/-- The dispatch of `plainStep` on an ASCII first byte. -/
theorem plainStep_ascii (b : UInt8) (t : Bytes) (h : b.toNat < 0x80) :
    plainStep (b :: t) =
      (let rest := b :: t
       let c := b.toNat
       if c = 0x40 then .tok (startWithAt rest).1 (startWithAt rest).2
       else if c = 0x23 then .skip (incAsLongAs (· ≠ 0x0A) rest)
       else if c = 0x2D then startWithDash rest
       else if c = 0x2F then startWithSlash rest
       else if c = 0x58 ∨ c = 0x78 then .tok .other (startWithXxBb isHexB rest)
       else if c = 0x42 ∨ c = 0x62 then .tok .other (startWithXxBb isBitB rest)
       else if c = 0x2E then .tok .other (startWithDot rest)
       else if isLetter c ∨ c = 0x5F ∨ c = 0x24 then .tok .other (scanIdentifier rest)
       else if c = 0x60 then .tok .other (scanQuotedIdent rest)
       else if isDigit c then .tok .other (startWithNumber rest)
       else if c = 0x27 ∨ c = 0x22 then .tok .other (startString rest)
       else if isOpChar c then .tok (if c = 0x3B then .semi else .other) (opLen rest)
       else .tok .other 1) := by
  have h1 : isIdentExtend b.toNat = false := by
    simp only [isIdentExtend, Bool.and_eq_false_iff, decide_eq_false_iff_not]; omega
  have h2 : ¬ b.toNat > 255 := by omega
  simp only [plainStep, peek_ascii b t h, h1, Bool.false_eq_true, if_false, h2]

/-! ### words -/

theorem plainStep_word (bs more : Bytes) (hok : (Item.word bs).ok = true)
    (hs : (Item.word bs).safeBefore more.head? = true) :
    plainStep (bs ++ more) = .tok .other bs.length := by
  cases bs with
  | nil => simp [Item.ok] at hok
  | cons b w =>
    simp only [Item.ok, Bool.and_eq_true, List.all_eq_true] at hok
    obtain ⟨hb, hall⟩ := hok
    have hw : ∀ b' ∈ w, isWordB b' = true := fun b' hb' => hall b' (by simp [hb'])
    have hb80 := (isWordB_ident b (hall b (by simp))).1
    -- what follows stops an identifier
    have hstop : WordStop more := by
      cases more with
      | nil => left; rfl
      | cons n t =>
        right
        simp only [Item.safeBefore, List.head?_cons, Bool.and_eq_true, Bool.not_eq_true', Bool.or_eq_false_iff,
          decide_eq_false_iff_not] at hs
        exact ⟨n, t, rfl, by omega, hs.1.1⟩
    have hrun : incAsLongAs isIdentChar (w ++ more) = w.length := ident_run w more hw hstop
    have hscan : scanIdentifier (b :: (w ++ more)) = (b :: w).length := by
      simp only [scanIdentifier, peek_ascii b _ hb80, List.drop_succ_cons, List.drop_zero, hrun, List.length_cons]
      omega
    have hxb : ∀ digits, (b.toNat = 0x58 ∨ b.toNat = 0x78 ∨ b.toNat = 0x42 ∨ b.toNat = 0x62) →
        startWithXxBb digits (b :: (w ++ more)) = (b :: w).length := by
      intro digits hbx
      simp only [startWithXxBb, List.drop_succ_cons, List.drop_zero]
      cases hwm : w ++ more with
      | nil =>
        have : w = [] := by cases w <;> simp_all
        subst this; rfl
      | cons q r2 =>
        have hq : ¬ q.toNat = 0x27 := by
          cases w with
          | nil =>
            simp only [List.nil_append] at hwm
            subst hwm
            simp only [Item.safeBefore, List.head?_cons, Bool.and_eq_true, Bool.not_eq_true', Bool.and_eq_false_iff,
              Bool.or_eq_false_iff, decide_eq_false_iff_not, List.map_cons, List.map_nil, List.cons.injEq, and_true] at hs
            rcases hs.2 with h | h
            · omega
            · exact h
          | cons b' w' =>
            simp only [List.cons_append, List.cons.injEq] at hwm
            rw [← hwm.1]
            have := hw b' (by simp)
            simp only [isWordB, isWordStartB, isLetter, isDigit, Bool.or_eq_true, Bool.and_eq_true, decide_eq_true_eq] at this
            omega
        simp only [hq, if_false]
        rw [← hwm, hrun, List.length_cons]
        omega
    rw [List.cons_append, plainStep_ascii b _ hb80]
    simp only [isWordStartB, isLetter, Bool.or_eq_true, Bool.and_eq_true, decide_eq_true_eq] at hb
    simp only
    rw [if_neg (by omega), if_neg (by omega), if_neg (by omega), if_neg (by omega)]
    by_cases hx : b.toNat = 0x58 ∨ b.toNat = 0x78
    · rw [if_pos hx, hxb isHexB (by omega)]
    · rw [if_neg hx]
      by_cases hbb : b.toNat = 0x42 ∨ b.toNat = 0x62
      · rw [if_pos hbb, hxb isBitB (by omega)]
      · rw [if_neg hbb, if_neg (by omega), if_pos (by simp only [isLetter, Bool.or_eq_true, Bool.and_eq_true, decide_eq_true_eq]; omega), hscan]


/-! ### numbers -/

/-- What may follow a number item. -/
def NumStop (more : Bytes) : Prop :=
  more = [] ∨ ∃ n t, more = n :: t ∧ n.toNat < 0x80 ∧ isWordB n = false ∧ n.toNat ≠ 0x2E

theorem numStop_digit (more : Bytes) (h : NumStop more) (p : UInt8 → Bool) (hp : ∀ n, p n = true → isWordB n = true) :
    more = [] ∨ ∃ n t, more = n :: t ∧ p n = false := by
  rcases h with rfl | ⟨n, t, rfl, _, h2, _⟩
  · left; rfl
  · right; refine ⟨n, t, rfl, ?_⟩
    cases hpn : p n with
    | false => rfl
    | true => rw [hp n hpn] at h2; exact absurd h2 (by simp)

theorem isDigitB_word (n : UInt8) (h : isDigitB n = true) : isWordB n = true := by
  simp only [isDigitB] at h; simp [isWordB, h]

theorem isOctB_word (n : UInt8) (h : isOctB n = true) : isWordB n = true := by
  simp only [isOctB, Bool.and_eq_true, decide_eq_true_eq] at h
  simp only [isWordB, isDigit, Bool.or_eq_true, Bool.and_eq_true, decide_eq_true_eq]; omega

/-- The common tail of `startWithNumber`: after `k` bytes, the remaining digits `L` are consumed. -/
theorem number_tail (L more : Bytes) (hL : ∀ b ∈ L, isDigitB b = true) (hm : NumStop more) (k : Nat) (rest0 : Bytes)
    (hcur : rest0.drop k = L ++ more) : numberTail rest0 k = k + L.length := by
  have hd : spanLen isDigitB (L ++ more) = L.length :=
    spanLen_run isDigitB L more hL (numStop_digit more hm isDigitB isDigitB_word)
  simp only [numberTail, hcur, hd, List.drop_left]
  rcases hm with rfl | ⟨n, t, rfl, h1, h2, h3⟩
  · simp
  · rw [peek_ascii n t h1]
    have hid := not_isWordB_ident n h1 h2
    simp only [isWordB, isWordStartB, isLetter, isDigit, Bool.or_eq_false_iff, Bool.and_eq_false_iff, decide_eq_false_iff_not] at h2
    rw [if_neg (by intro ⟨_, h⟩; omega), if_neg (by intro ⟨_, h⟩; rw [hid] at h; exact absurd h (by simp))]

theorem startWithNumber_item (ds more : Bytes) (hne : ds ≠ []) (hds : ∀ b ∈ ds, isDigitB b = true) (hm : NumStop more) :
    startWithNumber (ds ++ more) = ds.length := by
  cases ds with
  | nil => exact absurd rfl hne
  | cons d0 L =>
    have hL : ∀ b ∈ L, isDigitB b = true := fun b hb => hds b (by simp [hb])
    have hd0 := hds d0 (by simp)
    simp only [isDigitB, isDigit, Bool.and_eq_true, decide_eq_true_eq] at hd0
    simp only [List.cons_append, startWithNumber, numberPrefix, List.drop_succ_cons, List.drop_zero]
    by_cases h0 : d0.toNat = 0x30
    · simp only [h0, if_true]
      cases L with
      | nil =>
        simp only [List.nil_append]
        rcases hm with rfl | ⟨n, t, rfl, h1, h2, h3⟩
        · simp only
          have := number_tail [] [] (by simp) (Or.inl rfl) 1 [d0] (by simp)
          simpa using this
        · have hn := h2
          simp only [isWordB, isWordStartB, isLetter, isDigit, Bool.or_eq_false_iff, Bool.and_eq_false_iff, decide_eq_false_iff_not] at hn
          simp only
          rw [if_neg (by omega), if_neg (by omega), if_neg (by omega), if_neg (by omega), if_neg (by omega)]
          have := number_tail [] (n :: t) (by simp) (Or.inr ⟨n, t, rfl, h1, h2, h3⟩) 1 (d0 :: n :: t) (by simp)
          simp only at this ⊢
          simpa using this
      | cons d1 L' =>
        have hL' : ∀ b ∈ L', isDigitB b = true := fun b hb => hL b (by simp [hb])
        have hd1 := hL d1 (by simp)
        simp only [isDigitB, isDigit, Bool.and_eq_true, decide_eq_true_eq] at hd1
        simp only [List.cons_append]
        by_cases ho : 0x30 ≤ d1.toNat ∧ d1.toNat ≤ 0x37
        · simp only [ho, and_self, if_true]
          have hso : spanLen isOctB (L' ++ more) = spanLen isOctB L' :=
            spanLen_stop isOctB L' more (numStop_digit more hm isOctB isOctB_word)
          have hle := spanLen_le isOctB L'
          have hcur : (d0 :: d1 :: (L' ++ more)).drop (2 + spanLen isOctB (L' ++ more)) = L'.drop (spanLen isOctB L') ++ more := by
            rw [hso, show 2 + spanLen isOctB L' = spanLen isOctB L' + 2 by omega]
            simp only [List.drop_succ_cons]
            exact List.drop_append_of_le_length hle
          rw [number_tail (L'.drop (spanLen isOctB L')) more (fun b hb => hL' b (List.mem_of_mem_drop hb)) hm
            (2 + spanLen isOctB (L' ++ more)) (d0 :: d1 :: (L' ++ more)) hcur, hso]
          simp only [List.length_drop, List.length_cons]; omega
        · rw [if_neg ho, if_neg (by omega), if_neg (by omega), if_neg (by omega), if_neg (by omega)]
          simp only
          rw [number_tail (d1 :: L') more hL hm 1 (d0 :: d1 :: (L' ++ more)) (by simp)]
          simp only [List.length_cons]; omega
    · simp only [h0, if_false]
      rw [number_tail L more hL hm 1 (d0 :: (L ++ more)) (by simp)]
      simp only [List.length_cons]; omega

theorem plainStep_num (bs more : Bytes) (hok : (Item.num bs).ok = true)
    (hs : (Item.num bs).safeBefore more.head? = true) :
    plainStep (bs ++ more) = .tok .other bs.length := by
  simp only [Item.ok, Bool.and_eq_true, List.all_eq_true, ne_eq, decide_eq_true_eq] at hok
  obtain ⟨hne, hall⟩ := hok
  have hstop : NumStop more := by
    cases more with
    | nil => left; rfl
    | cons n t =>
      right
      simp only [Item.safeBefore, List.head?_cons, Bool.not_eq_true', Bool.or_eq_false_iff, decide_eq_false_iff_not] at hs
      exact ⟨n, t, rfl, by omega, hs.1.1, hs.2⟩
  cases bs with
  | nil => exact absurd rfl hne
  | cons b w =>
    have hb := hall b (by simp)
    simp only [isDigitB, isDigit, Bool.and_eq_true, decide_eq_true_eq] at hb
    rw [List.cons_append, plainStep_ascii b _ (by omega)]
    simp only
    rw [if_neg (by omega), if_neg (by omega), if_neg (by omega), if_neg (by omega), if_neg (by omega), if_neg (by omega),
      if_neg (by omega), if_neg (by simp only [isLetter, Bool.or_eq_true, Bool.and_eq_true, decide_eq_true_eq]; omega),
      if_neg (by omega), if_pos (by simp only [isDigit, Bool.and_eq_true, decide_eq_true_eq]; omega)]
    have := startWithNumber_item (b :: w) more (by simp) hall hstop
    rw [List.cons_append] at this
    rw [this]


/-! ### punctuation -/

theorem opLen_one (c : UInt8) (more : Bytes) (hs : ∀ n, more.head? = some n → symExt c n = false) (hN : c.toNat ≠ 0x5C) :
    opLen (c :: more) = 1 := by
  cases more with
  | nil => simp only [opLen, List.map]; split <;> simp_all
  | cons n t =>
    have h := hs n rfl
    cases t with
    | nil =>
      simp only [opLen, List.map]
      split <;> simp_all [symExt]
    | cons m t' =>
      simp only [opLen, List.map]
      split <;> simp_all [symExt]

theorem plainStep_sym (c : UInt8) (more : Bytes) (hok : (Item.sym c).ok = true)
    (hs : ((Item.sym c).safeBefore more.head? || (Item.sym c).dashOK more) = true) :
    plainStep (c :: more) = .tok .other 1 := by
  simp only [Item.ok, isSymB, Bool.or_eq_true, decide_eq_true_eq] at hok
  have h80 : c.toNat < 0x80 := by omega
  rw [plainStep_ascii c more h80]
  by_cases hd : c.toNat = 0x2D
  · -- '-'
    simp only [hd]
    simp only [startWithDash]
    cases more with
    | nil => rfl
    | cons d t =>
      simp only [Bool.or_eq_true] at hs
      rcases hs with hs | hs
      · simp only [Item.safeBefore, List.head?_cons, Bool.not_eq_true', symExt, hd, Bool.or_eq_false_iff,
          decide_eq_false_iff_not] at hs
        simp [hs.1, hs.2]
      · simp only [Item.dashOK, Bool.and_eq_true, decide_eq_true_eq] at hs
        obtain ⟨⟨_, hd2⟩, ht⟩ := hs
        cases t with
        | nil => simp at ht
        | cons s t' =>
          simp only [Bool.not_eq_true'] at ht
          simp [hd2, ht]
  · -- for every other character the one-byte condition holds
    have hext : ∀ n, more.head? = some n → symExt c n = false := by
      intro n hn
      have hdash : (Item.sym c).dashOK more = false := by
        cases more with
        | nil => rfl
        | cons x y => simp [Item.dashOK, hd]
      rw [hdash, Bool.or_false] at hs
      simp only [Item.safeBefore, hn, Bool.not_eq_true'] at hs
      exact hs
    by_cases hsl : c.toNat = 0x2F
    · simp only [hsl]
      simp only [startWithSlash]
      cases more with
      | nil => rfl
      | cons a t =>
        have := hext a rfl
        simp only [symExt, hsl, decide_eq_false_iff_not] at this
        simp [this]
    · by_cases hdot : c.toNat = 0x2E
      · simp only [hdot]
        simp only [startWithDot, List.drop_succ_cons, List.drop_zero]
        cases more with
        | nil => simp
        | cons n t =>
          have := hext n rfl
          simp only [symExt, hdot] at this
          have hnd : isDigit (peek (n :: t)).1 = false := by
            rcases peek_span n t with ⟨h1, h2⟩ | ⟨h1, h2, _⟩
            · rw [h2]; exact this
            · simp only [isDigit, Bool.and_eq_false_iff, decide_eq_false_iff_not]; omega
          simp [hnd]
      · have hop : opLen (c :: more) = 1 := opLen_one c more hext (by omega)
        simp only [hop]
        rw [if_neg (by omega), if_neg (by omega), if_neg hd, if_neg hsl, if_neg (by omega), if_neg (by omega), if_neg hdot,
          if_neg (by simp only [isLetter, Bool.or_eq_true, Bool.and_eq_true, decide_eq_true_eq]; omega),
          if_neg (by omega), if_neg (by simp only [isDigit, Bool.and_eq_true, decide_eq_true_eq]; omega),
          if_neg (by omega),
          if_pos (by simp only [isOpChar, Bool.or_eq_true, decide_eq_true_eq]; omega), if_neg (by omega)]

/-! ### `;`, strings, back-quoted identifiers -/

theorem plainStep_semi (more : Bytes) : plainStep (0x3B :: more) = .tok .semi 1 := by
  rw [plainStep_ascii 0x3B more (by decide)]
  have : opLen (0x3B :: more) = 1 := by
    cases more with
    | nil => rfl
    | cons n t => cases t <;> simp only [opLen, List.map] <;> split <;> simp_all
  simp [this, isLetter, isDigit, isOpChar]

theorem plainStep_str (q : UInt8) (body more : Bytes) (hok : (Item.str q body).ok = true)
    (hs : (Item.str q body).safeBefore more.head? = true) :
    plainStep (q :: body ++ q :: more) = .tok .other (body.length + 2) := by
  simp only [Item.ok, Bool.and_eq_true, Bool.or_eq_true, decide_eq_true_eq] at hok
  obtain ⟨hq, hbody⟩ := hok
  have hr : more.head? ≠ some q := by
    cases more with
    | nil => simp
    | cons n t =>
      simp only [Item.safeBefore, List.head?_cons, decide_eq_true_eq] at hs
      simpa using hs
  rw [List.cons_append, plainStep_ascii q _ (by omega)]
  simp only
  rw [if_neg (by omega), if_neg (by omega), if_neg (by omega), if_neg (by omega), if_neg (by omega), if_neg (by omega),
    if_neg (by omega), if_neg (by simp only [isLetter, Bool.or_eq_true, Bool.and_eq_true, decide_eq_true_eq]; omega),
    if_neg (by omega), if_neg (by simp only [isDigit, Bool.and_eq_true, decide_eq_true_eq]; omega), if_pos hq]
  have := startString_item q hq body more hbody hr
  rw [List.cons_append] at this
  rw [this]

theorem plainStep_bq (body more : Bytes) (hok : (Item.bq body).ok = true)
    (hs : (Item.bq body).safeBefore more.head? = true) :
    plainStep (cBq :: body ++ cBq :: more) = .tok .other (body.length + 2) := by
  simp only [Item.ok] at hok
  have hr : more.head? ≠ some cBq := by
    cases more with
    | nil => simp
    | cons n t =>
      simp only [Item.safeBefore, List.head?_cons, decide_eq_true_eq] at hs
      simp only [List.head?_cons, ne_eq, Option.some.injEq]
      intro e; apply hs; rw [e]; decide
  have hv : cBq.toNat = 0x60 := by decide
  rw [List.cons_append, plainStep_ascii cBq _ (by decide)]
  simp only [hv]
  have := scanQuotedIdent_item body more hok hr
  rw [List.cons_append] at this
  simp [this, isLetter]

end GaeaVerif.LexC17
