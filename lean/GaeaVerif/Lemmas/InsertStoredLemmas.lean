import GaeaVerif.Model.InsertStored
import GaeaVerif.Lemmas.ShardStr
/-
  Lemmas for the "stored value" theorems of C03 (Props/C03.lean): Go's
  `strconv.ParseInt` / `ParseUint` / `big.Int.SetString` accept only strings
  MySQL reads as the same integer, and such strings look like numbers to
  `looksLikeNumber`.
-/
namespace GaeaVerif.InsertStored
open GaeaVerif GaeaVerif.ShardGo GaeaVerif.ShardPlace GaeaVerif.Insert GaeaVerif.ShardLemmas

theorem digit_not_space (b : Nat) (h : isDigit b = true) : isAsciiSpace b = false := by
  simp only [isDigit, Bool.and_eq_true, decide_eq_true_eq] at h
  simp only [isAsciiSpace, Bool.or_eq_false_iff, decide_eq_false_iff_not, Bool.and_eq_false_iff]
  omega

theorem dropWhile_eq_self {α : Type} (p : α → Bool) (l : List α) (h : ∀ a, l.head? = some a → p a = false) :
    l.dropWhile p = l := by
  cases l with
  | nil => rfl
  | cons a r => simp [List.dropWhile, h a (by simp)]

/-- a string that neither starts nor ends with white space is left alone by `TrimSpace` -/
theorem trimSpace_eq_self (s : GoStr) (h1 : ∀ b, s.head? = some b → isAsciiSpace b = false)
    (h2 : ∀ b, s.getLast? = some b → isAsciiSpace b = false) : trimSpace s = s := by
  unfold trimSpace
  rw [dropWhile_eq_self _ s h1, dropWhile_eq_self _ s.reverse (by simpa using h2)]
  simp

theorem parseUDec_some (s : GoStr) (n : Nat) (h : parseUDec s = some n) :
    s ≠ [] ∧ (∀ b ∈ s, isDigit b = true) ∧ n = digitsVal s 0 := by
  unfold parseUDec at h
  split at h
  · rename_i hc
    simp only [Option.some.injEq] at h
    exact ⟨hc.1, by simpa [List.all_eq_true] using hc.2, h.symm⟩
  · simp at h

/-- what `big.Int.SetString(s, 10)` accepts: an optional sign and digits -/
theorem parseBigDec_shape (s : GoStr) (n : Int) (h : parseBigDec s = some n) :
    ∃ d, d ≠ [] ∧ (∀ b ∈ d, isDigit b = true) ∧ (s = d ∨ s = 43 :: d ∨ s = 45 :: d) := by
  unfold parseBigDec at h
  split at h
  · rename_i r
    cases hr : parseUDec r with
    | none => simp [hr] at h
    | some m => obtain ⟨a, b, _⟩ := parseUDec_some r m hr; exact ⟨r, a, b, Or.inr (Or.inl rfl)⟩
  · rename_i r
    cases hr : parseUDec r with
    | none => simp [hr] at h
    | some m => obtain ⟨a, b, _⟩ := parseUDec_some r m hr; exact ⟨r, a, b, Or.inr (Or.inr rfl)⟩
  · cases hr : parseUDec s with
    | none => simp [hr] at h
    | some m => obtain ⟨a, b, _⟩ := parseUDec_some s m hr; exact ⟨s, a, b, Or.inl rfl⟩

theorem getLast?_mem {α : Type} (l : List α) (a : α) (h : l.getLast? = some a) : a ∈ l := by
  exact List.mem_of_getLast? h

/-- **`ParseInt`/`SetString` accept no white space**: trimming changes nothing -/
theorem parseBigDec_trim (s : GoStr) (n : Int) (h : parseBigDec s = some n) : trimSpace s = s := by
  obtain ⟨d, hd, hdig, hs⟩ := parseBigDec_shape s n h
  have hlast : ∀ b, s.getLast? = some b → isAsciiSpace b = false := by
    intro b hb
    have hbd : b ∈ d := by
      rcases hs with hs | hs | hs
      · rw [hs] at hb; exact List.mem_of_getLast? hb
      · rw [hs, List.getLast?_cons_of_ne_nil hd] at hb
        exact List.mem_of_getLast? hb
      · rw [hs, List.getLast?_cons_of_ne_nil hd] at hb
        exact List.mem_of_getLast? hb
    exact digit_not_space b (hdig b hbd)
  have hhead : ∀ b, s.head? = some b → isAsciiSpace b = false := by
    intro b hb
    rcases hs with hs | hs | hs
    · rw [hs] at hb
      cases d with
      | nil => exact absurd rfl hd
      | cons x r => simp at hb; subst hb; exact digit_not_space _ (hdig _ (by simp))
    · rw [hs] at hb; simp at hb; subst hb; decide
    · rw [hs] at hb; simp at hb; subst hb; decide
  exact trimSpace_eq_self s hhead hlast

/-- a string `ParseInt` reads as `n` is read as `n` by MySQL -/
theorem mysqlInt_of_parseBigDec (s : GoStr) (n : Int) (h : parseBigDec s = some n) : mysqlInt s = some n := by
  unfold mysqlInt; rw [parseBigDec_trim s n h]; exact h

theorem mysqlInt_of_parseInt64 (s : GoStr) (n : Int) (h : parseInt64 s = some n) : mysqlInt s = some n := by
  unfold parseInt64 at h
  cases hb : parseBigDec s with
  | none => simp [hb] at h
  | some v =>
    simp only [hb] at h
    split at h <;> simp at h
    subst h
    exact mysqlInt_of_parseBigDec s v hb

theorem takeWhile_all {α : Type} (p : α → Bool) (l : List α) (h : ∀ a ∈ l, p a = true) : l.takeWhile p = l := by
  induction l with
  | nil => rfl
  | cons a r ih => simp [List.takeWhile, h a (by simp), ih (fun b hb => h b (by simp [hb]))]

theorem dropWhile_all {α : Type} (p : α → Bool) (l : List α) (h : ∀ a ∈ l, p a = true) : l.dropWhile p = [] := by
  induction l with
  | nil => rfl
  | cons a r ih => simp [List.dropWhile, h a (by simp), ih (fun b hb => h b (by simp [hb]))]

theorem dropSign_digits (d : GoStr) (hd : d ≠ []) (hdig : ∀ b ∈ d, isDigit b = true) : dropSign d = d := by
  cases d with
  | nil => exact absurd rfl hd
  | cons x r =>
    have hx := hdig x (by simp)
    unfold dropSign
    split
    · rename_i heq; simp at heq; rw [heq.1] at hx; simp [isDigit] at hx
    · rename_i heq; simp at heq; rw [heq.1] at hx; simp [isDigit] at hx
    · rfl

/-- a run of digits looks like a number -/
theorem looksLikeNumber_digits (s d : GoStr) (hd : d ≠ []) (hdig : ∀ b ∈ d, isDigit b = true)
    (ht : dropSign (trimSpace s) = d) : looksLikeNumber s = true := by
  unfold looksLikeNumber
  simp only [ht, takeWhile_all _ d hdig, dropWhile_all _ d hdig]
  have : d.length ≠ 0 := by simpa using hd
  simp [this]

/-- **every string MySQL reads as an integer looks like a number to `looksLikeNumber`** -/
theorem looksLikeNumber_of_mysqlInt (s : GoStr) (n : Int) (h : mysqlInt s = some n) : looksLikeNumber s = true := by
  unfold mysqlInt at h
  obtain ⟨d, hd, hdig, hs⟩ := parseBigDec_shape _ n h
  refine looksLikeNumber_digits s d hd hdig ?_
  rcases hs with hs | hs | hs
  · rw [hs]; exact dropSign_digits d hd hdig
  · rw [hs]; rfl
  · rw [hs]; rfl

theorem parseUint64_some (s : GoStr) (m : Nat) (h : parseUint64 s = some m) : parseUDec s = some m ∧ m < 2 ^ 64 := by
  unfold parseUint64 at h
  cases hp : parseUDec s with
  | none => simp [hp] at h
  | some v =>
    simp only [hp] at h
    split at h <;> simp at h
    subst h
    exact ⟨rfl, by assumption⟩

/-- a string `ParseUint` reads as `m` is read as `m` by MySQL -/
theorem mysqlInt_of_parseUDec (s : GoStr) (m : Nat) (h : parseUDec s = some m) : mysqlInt s = some (m : Int) := by
  apply mysqlInt_of_parseBigDec
  obtain ⟨hne, hdig, _⟩ := parseUDec_some s m h
  cases s with
  | nil => exact absurd rfl hne
  | cons x r =>
    have hx := hdig x (by simp)
    unfold parseBigDec
    split
    · rename_i heq; simp at heq; rw [heq.1] at hx; simp [isDigit] at hx
    · rename_i heq; simp at heq; rw [heq.1] at hx; simp [isDigit] at hx
    · simp [h]

/-! ### placement functions that read the key through `NumValue` or `GetString` -/

/-- a placement function that looks at the key through `NumValue` only -/
def viaNum (f : Int → Out Int) (key : Key) : Out Int :=
  match NumValue key with
  | .ok v => f v
  | .err k => .err k
  | .panic => .panic

/-- a placement function that looks at the key through `GetString` only -/
def viaStr (f : GoStr → Out Int) (key : Key) : Out Int :=
  match GetString key with
  | .ok s => f s
  | .err k => .err k
  | .panic => .panic

theorem fmtInt_natCast (v : Nat) : fmtInt (v : Int) = fmtNat v := by
  unfold fmtInt
  have : ¬ ((v : Int) < 0) := by omega
  simp [this]

theorem fmtInt_nonneg (v : Int) (h : 0 ≤ v) : fmtInt v = fmtNat v.toNat := by
  unfold fmtInt
  have : ¬ (v < 0) := by omega
  simp [this]

theorem parseBigDec_fmtNat (v : Nat) : parseBigDec (fmtNat v) = some (v : Int) := by
  rw [← fmtInt_natCast]; exact parseBigDec_fmtInt _

theorem parseInt64_fmtNat (v : Nat) : parseInt64 (fmtNat v) = if v < 2 ^ 63 then some (v : Int) else none := by
  unfold parseInt64
  rw [parseBigDec_fmtNat]
  by_cases h : v < 2 ^ 63
  · have : -2 ^ 63 ≤ (v : Int) ∧ (v : Int) < 2 ^ 63 := by omega
    rw [if_pos h]; simp only [this, and_self, ↓reduceIte]
  · have : ¬ (-2 ^ 63 ≤ (v : Int) ∧ (v : Int) < 2 ^ 63) := by omega
    rw [if_neg h]; simp only [this, ↓reduceIte]

theorem parseUint64_fmtNat (v : Nat) (h : v < 2 ^ 64) : parseUint64 (fmtNat v) = some v := by
  unfold parseUint64; rw [parseUDec_fmtNat]; simp [h]

theorem wrap64_id (v : Int) (h : -2 ^ 63 ≤ v ∧ v < 2 ^ 63) : wrap64 v = v := by
  unfold wrap64; omega

end GaeaVerif.InsertStored
