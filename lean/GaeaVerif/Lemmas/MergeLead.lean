import GaeaVerif.Lemmas.MergeOrderAnti
import GaeaVerif.Lemmas.MergeRow
import GaeaVerif.Model.MergeLead
/-
  C02 helper lemmas: GROUP BY statements whose ORDER BY starts with the GROUP BY
  columns.  The leading ORDER BY keys induce an order on the group keys
  (`leG`) that is total, transitive and antisymmetric on the keys present; the
  comparison of two groups by the whole ORDER BY key is decided by it.
-/
namespace GaeaVerif.Merge

theorem leadCols_mem (g : List Nat) : ∀ (keys : List (Item × Bool)), ∀ c ∈ leadCols g keys, c ∈ g
  | [], c, h => by simp [leadCols] at h
  | (.col x, d) :: ks, c, h => by
    simp only [leadCols] at h
    split at h
    · rename_i hx
      rcases List.mem_cons.mp h with rfl | h
      · simpa using hx
      · exact leadCols_mem g ks c h
    · simp at h
  | (.agg _ _ _, _) :: _, c, h => by simp [leadCols] at h
  | (.const _, _) :: _, c, h => by simp [leadCols] at h

theorem leadCols_take (g : List Nat) : ∀ (keys : List (Item × Bool)),
    (keys.take (leadCols g keys).length).map (·.1) = (leadCols g keys).map Item.col
  | [] => by simp [leadCols]
  | (.col x, d) :: ks => by
    simp only [leadCols]
    split
    · simp [leadCols_take g ks]
    · simp
  | (.agg _ _ _, _) :: _ => by simp [leadCols]
  | (.const _, _) :: _ => by simp [leadCols]

theorem leadCols_length_le (g : List Nat) (keys : List (Item × Bool)) : (leadCols g keys).length ≤ keys.length := by
  have := congrArg List.length (leadCols_take g keys)
  simp at this
  omega

/-- the value of GROUP BY column `c` in a group key -/
def keyCol : List Nat → List Val → Nat → Val
  | x :: gs, v :: vs, c => if x = c then v else keyCol gs vs c
  | _, _, _ => .null

theorem keyCol_groupKey (r : Row) (c : Nat) : ∀ (g : List Nat), c ∈ g → keyCol g (groupKey g r) c = r.getD c .null
  | [], h => by simp at h
  | x :: gs, h => by
    simp only [groupKey, List.map_cons, keyCol]
    by_cases e : x = c
    · simp [e]
    · rw [if_neg e]
      have : c ∈ gs := by
        rcases List.mem_cons.mp h with h | h
        · exact absurd h.symm e
        · exact h
      exact keyCol_groupKey r c gs this

/-- the leading ORDER BY values of a group, read from its key -/
def projKey (g lead : List Nat) (κ : List Val) : List Val := lead.map (keyCol g κ)

/-- the order of the groups: the leading ORDER BY keys on the GROUP BY key -/
def leG (g lead : List Nat) (dirs : List Bool) (κ κ' : List Val) : Bool :=
  leKey (dirs.take lead.length) (projKey g lead κ) (projKey g lead κ')

theorem leG_total (g lead : List Nat) (dirs : List Bool) (a b : List Val) :
    (leG g lead dirs a b || leG g lead dirs b a) = true := by
  simp only [leG, Bool.or_eq_true]; exact leKey_total _ _ _

theorem leG_trans (g lead : List Nat) (dirs : List Bool) (a b c : List Val) :
    leG g lead dirs a b = true → leG g lead dirs b c = true → leG g lead dirs a c = true :=
  leKey_trans _ _ _ _

theorem projKey_groupKey (g lead : List Nat) (hl : ∀ c ∈ lead, c ∈ g) (r : Row) :
    projKey g lead (groupKey g r) = lead.map fun c => r.getD c .null := by
  simp only [projKey]
  apply List.map_congr_left
  intro c hc
  exact keyCol_groupKey r c g (hl c hc)

/-- groups that compare both ways have the same key (ORDER BY names every GROUP BY column) -/
theorem leG_antisymm (g lead : List Nat) (dirs : List Bool) (hl : ∀ c ∈ lead, c ∈ g) (hc : ∀ c ∈ g, c ∈ lead)
    (hlen : lead.length ≤ dirs.length) (r r' : Row)
    (h1 : leG g lead dirs (groupKey g r) (groupKey g r') = true)
    (h2 : leG g lead dirs (groupKey g r') (groupKey g r) = true) : groupKey g r = groupKey g r' := by
  simp only [leG, projKey_groupKey g lead hl] at h1 h2
  have hget := leKey_eqv_getD _ _ _ h1 h2
  have hcols : ∀ c ∈ lead, r.getD c .null = r'.getD c .null := by
    intro c hcl
    obtain ⟨i, hi, rfl⟩ := List.getElem_of_mem hcl
    have := hget i (by simp; omega)
    simpa [List.getD, hi] using this
  simp only [groupKey]
  apply List.map_congr_left
  intro c hcg
  exact hcols c (hc c hcg)

/-- the ORDER BY key of a group starts with its leading GROUP BY columns -/
theorem keys_lead (g : List Nat) (keys : List (Item × Bool)) (r : Row) (rs : List Row) :
    (keys.map fun k => evalItem (r :: rs) k.1) =
      ((leadCols g keys).map fun c => r.getD c .null) ++
        ((keys.drop (leadCols g keys).length).map fun k => evalItem (r :: rs) k.1) := by
  conv => lhs; rw [← List.take_append_drop (leadCols g keys).length keys]
  rw [List.map_append]
  congr 1
  have := leadCols_take g keys
  have h2 : ((keys.take (leadCols g keys).length).map fun k => evalItem (r :: rs) k.1)
      = ((keys.take (leadCols g keys).length).map (·.1)).map (evalItem (r :: rs)) := by
    rw [List.map_map]; rfl
  rw [h2, this]
  simp [List.map_map, evalItem]

/-- comparing two groups by the whole ORDER BY key: by the leading keys unless they are equivalent -/
theorem leKey_groups (g : List Nat) (keys : List (Item × Bool)) (r r' : Row) (rs rs' : List Row) :
    leKey (keys.map (·.2)) (keys.map fun k => evalItem (r :: rs) k.1) (keys.map fun k => evalItem (r' :: rs') k.1) =
      if leG g (leadCols g keys) (keys.map (·.2)) (groupKey g r) (groupKey g r') &&
         leG g (leadCols g keys) (keys.map (·.2)) (groupKey g r') (groupKey g r)
      then leKey ((keys.map (·.2)).drop (leadCols g keys).length)
        ((keys.drop (leadCols g keys).length).map fun k => evalItem (r :: rs) k.1)
        ((keys.drop (leadCols g keys).length).map fun k => evalItem (r' :: rs') k.1)
      else leG g (leadCols g keys) (keys.map (·.2)) (groupKey g r) (groupKey g r') := by
  have hl := leadCols_mem g keys
  have hlen := leadCols_length_le g keys
  rw [keys_lead g keys r rs, keys_lead g keys r' rs']
  conv => lhs; rw [← List.take_append_drop (leadCols g keys).length (keys.map (·.2))]
  rw [leKey_append]
  have hlt : ((keys.map (·.2)).take (leadCols g keys).length).length = (leadCols g keys).length := by
    simp; omega
  simp only [hlt, leG, projKey_groupKey g _ hl]
  rw [leKey_append_left _ _ _ _ _ (by simp [hlt]) (by simp [hlt]),
    leKey_append_left _ _ _ _ _ (by simp [hlt]) (by simp [hlt])]
  simp

/-- a group that sorts before or with another one by the whole key does so by the leading keys -/
theorem leKey_groups_le (g : List Nat) (keys : List (Item × Bool)) (r r' : Row) (rs rs' : List Row)
    (h : leKey (keys.map (·.2)) (keys.map fun k => evalItem (r :: rs) k.1)
      (keys.map fun k => evalItem (r' :: rs') k.1) = true) :
    leG g (leadCols g keys) (keys.map (·.2)) (groupKey g r) (groupKey g r') = true := by
  rw [leKey_groups g keys r r' rs rs'] at h
  split at h
  · rename_i hb
    simp only [Bool.and_eq_true] at hb
    exact hb.1
  · exact h

/-- groups with different keys are ordered by the leading keys alone -/
theorem leKey_groups_ne (g : List Nat) (keys : List (Item × Bool)) (r r' : Row) (rs rs' : List Row)
    (hne : groupKey g r ≠ groupKey g r') (hcov : leadCovers g keys = true) :
    leKey (keys.map (·.2)) (keys.map fun k => evalItem (r :: rs) k.1) (keys.map fun k => evalItem (r' :: rs') k.1) =
      leG g (leadCols g keys) (keys.map (·.2)) (groupKey g r) (groupKey g r') := by
  rw [leKey_groups g keys r r' rs rs', if_neg]
  intro hboth
  simp only [Bool.and_eq_true] at hboth
  apply hne
  refine leG_antisymm g _ _ (leadCols_mem g keys) ?_ ?_ r r' hboth.1 hboth.2
  · intro c hc
    have := List.all_eq_true.mp hcov c hc
    simpa using this
  · have := leadCols_length_le g keys
    simpa using this

end GaeaVerif.Merge
