import GaeaVerif.Lemmas.C10Basics
/-
  C10: what `parseRuleSliceInfos` guarantees of a rule it accepts.
-/
namespace GaeaVerif.C10
open GaeaVerif

/-- the sub-table list, the slice map and the slice list of one parsed rule:
    ascending (hence duplicate-free) indexes, the map written exactly on them,
    slice indexes inside the configured slice list -/
structure SliceInfosOK (idx : List Int) (t : IntMap) (nslices : Nat) : Prop where
  ascending : idx.Pairwise (· < ·)
  keys : t.map (·.1) = idx
  range : ∀ kv ∈ t, 0 ≤ kv.2 ∧ kv.2 < (nslices : Int)

theorem parseHash_spec (locs : List Int) (slices : List Str) (idx : List Int) (t : IntMap)
    (h : parseHashRuleSliceInfos locs slices = .ok (idx, t)) :
    SliceInfosOK idx t slices.length ∧ IsConsec idx 0 ∧ (idx.length : Int) = locs.sum ∧ 0 < locs.sum
      ∧ mapLen t = locs.sum := by
  unfold parseHashRuleSliceInfos at h
  split at h
  · cases h
  · next hlen =>
    split at h
    · next t' ht =>
      split at h
      · cases h
      · next hsum =>
        simp only [R.ok.injEq, Prod.mk.injEq] at h
        obtain ⟨h1, h2⟩ := h
        subst h2; subst h1
        have sp := hashTables_spec locs 0 0 t' ht
        have hpw := isConsec_pairwise _ _ sp.1
        have hlen' : ((t'.map (·.1)).length : Int) = locs.sum := by simpa using sp.2.1
        refine ⟨⟨hpw, rfl, ?_⟩, sp.1, hlen', ?_, ?_⟩
        · intro kv hkv
          have := sp.2.2 kv hkv
          have hl : locs.length = slices.length := by omega
          omega
        · have : (0 : Int) ≤ (t'.length : Int) := by omega
          omega
        · unfold mapLen
          rw [distinctCount_of_nodup _ (pairwise_lt_nodup hpw)]
          exact hlen'
    · cases h
    · cases h

theorem verifyHash_iff_parseHash (locs : List Int) (slices : List Str) (t : IntMap) :
    verifyHashRuleSliceInfos locs slices = .ok t ↔ parseHashRuleSliceInfos locs slices = .ok (t.map (·.1), t) := by
  unfold verifyHashRuleSliceInfos parseHashRuleSliceInfos
  split
  · simp
  · split
    · split
      · simp
      · simp only [R.ok.injEq, Prod.mk.injEq]
        constructor
        · intro h; subst h; exact ⟨rfl, rfl⟩
        · intro h; exact h.2
    · simp
    · simp

/-! ### calendar rules -/

theorem pairwise_lt_append_of_last {acc nums : List Int} {last n0 : Int} {rest : List Int}
    (hacc : acc.Pairwise (· < ·)) (hnums : nums.Pairwise (· < ·)) (hl : acc.getLast? = some last)
    (hn : nums = n0 :: rest) (hlt : last < n0) : (acc ++ nums).Pairwise (· < ·) := by
  rw [List.pairwise_append]
  refine ⟨hacc, hnums, ?_⟩
  intro a ha b hb
  obtain ⟨ys, hys⟩ := List.getLast?_eq_some_iff.mp hl
  subst hys
  have ha_le : a ≤ last := by
    rcases List.mem_append.mp ha with h | h
    · have := (List.pairwise_append.mp hacc).2.2 a h last (by simp)
      omega
    · simp at h; omega
  have hb_ge : n0 ≤ b := by
    subst hn
    rcases List.mem_cons.mp hb with h | h
    · omega
    · have := (List.pairwise_cons.mp hnums).1 b h
      omega
  omega

theorem dateLoop_spec (parse : Str → R (List Int))
    (hparse : ∀ dr nums, parse dr = .ok nums → nums.Pairwise (· < ·)) :
    ∀ (drs : List Str) (i : Int) (acc : List Int) (m : IntMap) (idx : List Int) (t : IntMap),
      0 ≤ i → acc.Pairwise (· < ·) → m.map (·.1) = acc → (∀ kv ∈ m, 0 ≤ kv.2 ∧ kv.2 < i) →
      dateLoop parse drs i acc m = .ok (idx, t) →
      idx.Pairwise (· < ·) ∧ t.map (·.1) = idx ∧ (∀ kv ∈ t, 0 ≤ kv.2 ∧ kv.2 < i + drs.length)
  | [], i, acc, m, idx, t, _, hacc, hm, hr, h => by
    simp [dateLoop] at h
    obtain ⟨h1, h2⟩ := h
    subst h1; subst h2
    refine ⟨hacc, hm, ?_⟩
    intro kv hkv; have := hr kv hkv; simp; omega
  | dr :: rest, i, acc, m, idx, t, hi, hacc, hm, hr, h => by
    unfold dateLoop at h
    split at h
    · cases h
    · cases h
    · next nums hnums =>
      have hpw := hparse dr nums hnums
      have step : ∀ (hacc' : (acc ++ nums).Pairwise (· < ·)),
          dateLoop parse rest (i + 1) (acc ++ nums) (m ++ nums.map (fun v => (v, i))) = .ok (idx, t) →
          idx.Pairwise (· < ·) ∧ t.map (·.1) = idx ∧ (∀ kv ∈ t, 0 ≤ kv.2 ∧ kv.2 < i + ((dr :: rest).length : Int)) := by
        intro hacc' h'
        have := dateLoop_spec parse hparse rest (i + 1) (acc ++ nums) (m ++ nums.map (fun v => (v, i))) idx t
          (by omega) hacc' (by simp [hm, List.map_map, Function.comp_def]) (by
            intro kv hkv
            rcases List.mem_append.mp hkv with h1 | h1
            · have := hr kv h1; omega
            · simp only [List.mem_map] at h1
              obtain ⟨v, _, hv⟩ := h1
              subst hv; simp; omega) h'
        refine ⟨this.1, this.2.1, ?_⟩
        intro kv hkv
        have := this.2.2 kv hkv
        simp only [List.length_cons]
        omega
      split at h
      · cases h
      · next last n0 tl hlast =>
        split at h
        · cases h
        · next hlt =>
          exact step (pairwise_lt_append_of_last hacc hpw hlast rfl (by omega)) h
      · next hnone =>
        have : acc = [] := by
          cases acc with
          | nil => rfl
          | cons a l => simp [List.getLast?_cons] at hnone
        subst this
        exact step (by simpa using hpw) h

theorem parseDate_spec (parse : Str → R (List Int))
    (hparse : ∀ dr nums, parse dr = .ok nums → nums.Pairwise (· < ·))
    (drs slices : List Str) (idx : List Int) (t : IntMap)
    (h : parseDateRuleSliceInfos parse drs slices = .ok (idx, t)) : SliceInfosOK idx t slices.length := by
  unfold parseDateRuleSliceInfos at h
  split at h
  · cases h
  · next hlen =>
    have := dateLoop_spec parse hparse drs 0 [] [] idx t (by omega) List.Pairwise.nil rfl (by simp) h
    refine ⟨this.1, this.2.1, ?_⟩
    intro kv hkv
    have h2 := this.2.2 kv hkv
    have : drs.length = slices.length := by
      omega
    omega

end GaeaVerif.C10
