import GaeaVerif.Lemmas.StmtLex
import GaeaVerif.Model.StmtSession
/-
  Helper lemmas for C15: the lexer of Model/StmtLex.lean re-run on a statement
  in which the placeholders were replaced by rendered arguments (`relex`), and
  `GetRewriteSQL` expressed on token streams (`cutItems_pieces`,
  `rewrite_pieces`).  The property theorems are in Props/C15.lean.
-/
namespace GaeaVerif.C15
open GaeaVerif GaeaVerif.StmtLex GaeaVerif.StmtBind

/-! ### strings -/

theorem sq_ne_bs : cSQuote ≠ cBackslash := by decide

theorem escapeSQL_cons (nbe : Bool) (c : UInt8) (b : Bytes) :
    escapeSQL nbe (c :: b) =
      if c = cSQuote then cSQuote :: c :: escapeSQL nbe b
      else if c = cBackslash ∧ ¬ nbe then cBackslash :: c :: escapeSQL nbe b
      else c :: escapeSQL nbe b := by
  simp only [escapeSQL]

/-- What follows the opening quote of a rendered value, up to and including the
    closing quote, is never empty. -/
theorem esc_tail_ne_nil (nbe : Bool) (b rest : Bytes) : escapeSQL nbe b ++ cSQuote :: rest ≠ [] := by
  cases b <;> simp [escapeSQL_cons] ; repeat' split <;> simp

/-- **A rendered string is one literal, whatever follows it.**  For every byte
    string `b`, in both sql_modes, and every continuation `rest` that does not
    begin with a quote: scanning after the opening quote of `'escapeSQL(b)'`
    ends exactly at its closing quote (no byte of `b` can close the literal
    early or swallow what follows). -/
theorem scanStr_escape (nbe : Bool) (b rest : Bytes) (hrest : rest.head? ≠ some cSQuote) :
    scanStr nbe cSQuote (escapeSQL nbe b ++ cSQuote :: rest) = some (escapeSQL nbe b, rest) := by
  induction b with
  | nil =>
    cases rest with
    | nil => simp [escapeSQL, scanStr, sq_ne_bs]
    | cons d r =>
      have hd : d ≠ cSQuote := by simpa using hrest
      simp [escapeSQL, scanStr, sq_ne_bs, hd]
  | cons c b ih =>
    rw [escapeSQL_cons]
    by_cases h1 : c = cSQuote
    · subst h1
      simp only [if_true, List.cons_append]
      rw [scanStr]
      simp [sq_ne_bs, ih]
    · rw [if_neg h1]
      by_cases h2 : c = cBackslash ∧ ¬ nbe
      · rw [if_pos h2]
        obtain ⟨rfl, hn⟩ := h2
        have hn' : nbe = false := by simpa using hn
        subst hn'
        simp only [List.cons_append]
        rw [scanStr]
        simp [ih]
      · rw [if_neg h2]
        simp only [List.cons_append]
        obtain ⟨d, r', hdr⟩ : ∃ d r', escapeSQL nbe b ++ cSQuote :: rest = d :: r' := by
          cases h : escapeSQL nbe b ++ cSQuote :: rest with
          | nil => exact absurd h (esc_tail_ne_nil nbe b rest)
          | cons d r' => exact ⟨d, r', rfl⟩
        rw [hdr] at ih ⊢
        rw [scanStr]
        have h2' : ¬ (c = cBackslash ∧ ¬ nbe = true) := h2
        simp only [h2', if_false, h1]
        rw [ih]; rfl

/-- **… and it denotes exactly the bound bytes.** -/
theorem strValue_escape (nbe : Bool) (b : Bytes) : strValue nbe cSQuote (escapeSQL nbe b) = b := by
  induction b with
  | nil => rfl
  | cons c b ih =>
    rw [escapeSQL_cons]
    by_cases h1 : c = cSQuote
    · subst h1
      simp only [if_true]
      rw [strValue]
      simp [sq_ne_bs, ih]
    · rw [if_neg h1]
      by_cases h2 : c = cBackslash ∧ ¬ nbe
      · rw [if_pos h2]
        obtain ⟨rfl, hn⟩ := h2
        have hn' : nbe = false := by simpa using hn
        subst hn'
        rw [strValue]
        have e1 : escapeChar cBackslash = cBackslash := by decide
        have e2 : ¬ (cBackslash = 0x25 ∨ cBackslash = 0x5f) := by decide
        simp [ih, e1, e2]
      · rw [if_neg h2]
        cases hb : escapeSQL nbe b with
        | nil =>
          rw [hb] at ih
          rw [strValue]; rw [← ih]; rfl
        | cons d r' =>
          rw [hb] at ih
          rw [strValue]
          have h2' : ¬ (c = cBackslash ∧ ¬ nbe = true) := h2
          simp only [h2', if_false]
          have : ¬ (c = cSQuote ∧ d = cSQuote) := fun h => h1 h.1
          simp only [this, if_false, ih]


/-- **string_param_roundtrip.**  Wherever the lexer stands in SQL (inside or
    outside `/*! */`), with either sql_mode: the rendering of a byte-string
    parameter is read as exactly one string literal, which denotes exactly the
    bound bytes, and lexing goes on right behind it as if nothing had
    happened — for every value, whatever follows (that is not a quote glued to
    it). -/
theorem lex_rendered_string (nbe : Bool) (b rest : Bytes) (hrest : rest.head? ≠ some cSQuote)
    (n : Nat) (v : Bool) :
    lexF nbe (n + 1) v (renderArg nbe (.bytes b) ++ rest) =
        (lexF nbe n v rest).map (Tok.str cSQuote (escapeSQL nbe b) :: ·)
      ∧ strValue nbe cSQuote (escapeSQL nbe b) = b := by
  refine ⟨?_, strValue_escape nbe b⟩
  simp only [renderArg, itoString, if_true, List.cons_append, List.append_assoc, List.singleton_append]
  rw [lexF]
  simp [scanStr_escape nbe b rest hrest]

/-! ### re-scanning a literal / comment body in front of a different continuation -/

theorem scanStr_resuffix (nbe : Bool) (q : UInt8) (t body r : Bytes) (h : scanStr nbe q t = some (body, r))
    (X : Bytes) (hX : X.head? ≠ some q) : scanStr nbe q (body ++ q :: X) = some (body, X) := by
  fun_induction scanStr nbe q t generalizing body r
  · simp at h
  · rename_i c hc
    simp at h; obtain ⟨rfl, rfl⟩ := h
    obtain ⟨rfl, hb⟩ := hc
    cases X with
    | nil => simp [scanStr, hb]
    | cons d X' =>
      have hd : d ≠ c := by simpa using hX
      rw [List.nil_append, scanStr]
      have : ¬ (c = cBackslash ∧ ¬ nbe = true) := by
        intro ⟨e, hn⟩; rcases hb with hb | hb
        · exact hn hb
        · exact hb e
      simp only [this, if_false, if_true, hd]
  · simp at h
  · rename_i c d r' hc ih
    simp only [Option.map_eq_some_iff] at h
    obtain ⟨⟨b, r''⟩, hb, heq⟩ := h
    simp at heq; obtain ⟨rfl, rfl⟩ := heq
    simp only [List.cons_append]
    rw [scanStr]
    rw [if_pos hc, ih b r'' hb]; rfl
  · rename_i r' hc ih
    simp only [Option.map_eq_some_iff] at h
    obtain ⟨⟨b, r''⟩, hb, heq⟩ := h
    simp at heq; obtain ⟨rfl, rfl⟩ := heq
    simp only [List.cons_append]
    rw [scanStr]
    simp only [hc, if_false, if_true, ih b r'' hb]; rfl
  · rename_i d r' hd hc
    simp at h; obtain ⟨rfl, rfl⟩ := h
    cases X with
    | nil =>
      simp only [List.nil_append]
      rw [scanStr]
      have : ¬ (q = cBackslash ∧ ¬ nbe = true) := hc
      simp only [true_and]
      by_cases hn : nbe = true
      · simp [hn]
      · have : q ≠ cBackslash := fun e => hc ⟨e, hn⟩
        simp [this]
    | cons e X' =>
      have he : e ≠ q := by simpa using hX
      simp only [List.nil_append]
      rw [scanStr]
      rw [if_neg hc]
      simp [he]
  · rename_i c d r' hc hcq ih
    simp only [Option.map_eq_some_iff] at h
    obtain ⟨⟨b, r''⟩, hb, heq⟩ := h
    simp at heq; obtain ⟨rfl, rfl⟩ := heq
    simp only [List.cons_append]
    -- the rest is not empty: it contains the closing quote
    cases hb' : b ++ q :: X with
    | nil => simp at hb'
    | cons d' r3 =>
      rw [scanStr]
      simp only [hc, if_false, hcq]
      rw [← hb', ih b r'' hb]; rfl


theorem scanQIdent_resuffix (t body r : Bytes) (h : scanQIdent t = some (body, r))
    (X : Bytes) (hX : X.head? ≠ some cBQuote) : scanQIdent (body ++ cBQuote :: X) = some (body, X) := by
  fun_induction scanQIdent t generalizing body r
  · simp at h
  · simp at h; obtain ⟨rfl, rfl⟩ := h
    cases X with
    | nil => simp [scanQIdent]
    | cons d X' =>
      have hd : d ≠ cBQuote := by simpa using hX
      simp [scanQIdent, hd]
  · simp at h
  · rename_i r' ih
    simp only [Option.map_eq_some_iff] at h
    obtain ⟨⟨b, r''⟩, hb, heq⟩ := h
    simp at heq; obtain ⟨rfl, rfl⟩ := heq
    simp only [List.cons_append]
    rw [scanQIdent]
    simp only [if_true, ih b r'' hb]; rfl
  · rename_i d r' hd
    simp at h; obtain ⟨rfl, rfl⟩ := h
    cases X with
    | nil => simp [scanQIdent]
    | cons e X' =>
      have he : e ≠ cBQuote := by simpa using hX
      simp [scanQIdent, he]
  · rename_i c d r' hc ih
    simp only [Option.map_eq_some_iff] at h
    obtain ⟨⟨b, r''⟩, hb, heq⟩ := h
    simp at heq; obtain ⟨rfl, rfl⟩ := heq
    simp only [List.cons_append]
    cases hb' : b ++ cBQuote :: X with
    | nil => simp at hb'
    | cons d' r3 =>
      rw [scanQIdent]
      simp only [hc, if_false]
      rw [← hb', ih b r'' hb]; rfl

theorem scanBlock_resuffix (t body r : Bytes) (h : scanBlock t = some (body, r)) (X : Bytes) :
    scanBlock (body ++ cStar :: cSlash :: X) = some (body, X) := by
  fun_induction scanBlock t generalizing body r
  · simp at h
  · simp at h
  · simp at h; obtain ⟨rfl, rfl⟩ := h
    simp [scanBlock]
  · rename_i c d r' hc ih
    simp only [Option.map_eq_some_iff] at h
    obtain ⟨⟨b, r''⟩, hb, heq⟩ := h
    simp at heq; obtain ⟨rfl, rfl⟩ := heq
    have hsplit := scanBlock_split _ _ _ hb
    -- d :: r' = b ++ * :: / :: r''
    cases b with
    | nil =>
      simp at hsplit
      obtain ⟨rfl, hr⟩ := hsplit
      simp only [List.cons_append, List.nil_append]
      rw [scanBlock]
      have : ¬ (c = cStar ∧ cStar = cSlash) := by intro h; exact absurd h.2 (by decide)
      simp only [this, if_false]
      have := ih [] r'' hb
      simp only [List.nil_append] at this
      rw [this]; rfl
    | cons b0 b' =>
      simp at hsplit
      obtain ⟨rfl, hr⟩ := hsplit
      simp only [List.cons_append]
      rw [scanBlock]
      simp only [hc, if_false]
      have := ih (d :: b') r'' hb
      simp only [List.cons_append] at this
      rw [this]; rfl

theorem scanLine_append_of_newline (t X : Bytes) (h : cNewline ∈ t) :
    scanLine (t ++ X) = ((scanLine t).1, (scanLine t).2 ++ X) := by
  induction t with
  | nil => simp at h
  | cons c r ih =>
    simp only [List.cons_append]
    rw [scanLine_cons, scanLine_cons]
    by_cases hc : c = cNewline
    · simp [hc]
    · have hr : cNewline ∈ r := by
        simp only [List.mem_cons] at h
        rcases h with h | h
        · exact absurd h.symm hc
        · exact h
      simp [hc, ih hr]

theorem scanLine_fst_newline (t : Bytes) (h : cNewline ∈ t) : cNewline ∈ (scanLine t).1 := by
  induction t with
  | nil => simp at h
  | cons c r ih =>
    rw [scanLine_cons]
    by_cases hc : c = cNewline
    · simp [hc]
    · have hr : cNewline ∈ r := by
        simp only [List.mem_cons] at h
        rcases h with h | h
        · exact absurd h.symm hc
        · exact h
      simp [hc, ih hr]

theorem scanLine_of_no_newline (t : Bytes) (h : cNewline ∉ t) : scanLine t = (t, []) := by
  induction t with
  | nil => rfl
  | cons c r ih =>
    have hc : c ≠ cNewline := fun e => h (by simp [e])
    have hr : cNewline ∉ r := fun e => h (by simp [e])
    rw [scanLine_cons, if_neg hc, ih hr]


theorem scanStr_rest_head (nbe : Bool) (q : UInt8) (t body r : Bytes) (h : scanStr nbe q t = some (body, r)) :
    r.head? ≠ some q := by
  fun_induction scanStr nbe q t generalizing body r
  · simp at h
  · simp at h; obtain ⟨_, rfl⟩ := h; simp
  · simp at h
  all_goals first
    | (rename_i ih
       simp only [Option.map_eq_some_iff] at h
       obtain ⟨⟨b, r''⟩, hb, heq⟩ := h
       simp at heq; obtain ⟨_, rfl⟩ := heq
       exact ih b _ hb)
    | (rename_i d r' hd hc
       simp at h; obtain ⟨_, rfl⟩ := h
       simpa using hd)

theorem scanQIdent_rest_head (t body r : Bytes) (h : scanQIdent t = some (body, r)) :
    r.head? ≠ some cBQuote := by
  fun_induction scanQIdent t generalizing body r
  · simp at h
  · simp at h; obtain ⟨_, rfl⟩ := h; simp
  · simp at h
  all_goals first
    | (rename_i ih
       simp only [Option.map_eq_some_iff] at h
       obtain ⟨⟨b, r''⟩, hb, heq⟩ := h
       simp at heq; obtain ⟨_, rfl⟩ := heq
       exact ih b _ hb)
    | (rename_i d r' hd
       simp at h; obtain ⟨_, rfl⟩ := h
       simpa using hd)

/-! ### bare-word renderings (NULL, integers, floats) -/

def wordByte (c : UInt8) : Bool :=
  (0x30 ≤ c && c ≤ 0x39) || (0x41 ≤ c && c ≤ 0x5a) || (0x61 ≤ c && c ≤ 0x7a) || c == 0x2e || c == 0x2b

/-- Letters, digits, `.`, `+`, and `-` only directly in front of one of those. -/
def WordAux : Bytes → Prop
  | [] => True
  | c :: r => (wordByte c = true ∨ (c = cDash ∧ ∃ e r', r = e :: r' ∧ wordByte e = true)) ∧ WordAux r

def Word (R : Bytes) : Prop := R ≠ [] ∧ WordAux R

set_option maxRecDepth 100000 in
theorem wordByte_facts_nat : ∀ n, n < 256 → wordByte (UInt8.ofNat n) = true →
    UInt8.ofNat n ≠ cSQuote ∧ UInt8.ofNat n ≠ cDQuote ∧ UInt8.ofNat n ≠ cBQuote ∧ UInt8.ofNat n ≠ cHash ∧
    UInt8.ofNat n ≠ cDash ∧ UInt8.ofNat n ≠ cSlash ∧ UInt8.ofNat n ≠ cStar ∧ UInt8.ofNat n ≠ cQMark ∧
    isSpaceOrControl (UInt8.ofNat n) = false := by decide

theorem wordByte_facts (c : UInt8) (h : wordByte c = true) :
    c ≠ cSQuote ∧ c ≠ cDQuote ∧ c ≠ cBQuote ∧ c ≠ cHash ∧ c ≠ cDash ∧ c ≠ cSlash ∧ c ≠ cStar ∧ c ≠ cQMark ∧
    isSpaceOrControl c = false := by
  have := wordByte_facts_nat c.toNat (UInt8.toNat_lt c)
  simp only [UInt8.ofNat_toNat] at this
  exact this h


theorem dash_ne : cDash ≠ cSQuote ∧ cDash ≠ cDQuote ∧ cDash ≠ cBQuote ∧ cDash ≠ cHash ∧ cDash ≠ cSlash ∧
    cDash ≠ cStar ∧ cDash ≠ cQMark ∧ isSpaceOrControl cDash = false := by decide

/-- One byte that is lexed as itself whatever follows. -/
theorem lexF_other (nbe : Bool) (n : Nat) (v : Bool) (c : UInt8) (rest : Bytes)
    (h1 : c ≠ cSQuote) (h2 : c ≠ cDQuote) (h3 : c ≠ cBQuote) (h4 : c ≠ cHash)
    (h5 : ¬ (c = cDash ∧ dashComment rest = true)) (h6 : ¬ (c = cSlash ∧ rest.head? = some cStar))
    (h7 : ¬ (c = cStar ∧ v = true ∧ rest.head? = some cSlash)) (h8 : c ≠ cQMark) :
    lexF nbe (n + 1) v (c :: rest) = (lexF nbe n v rest).map (Tok.other c :: ·) := by
  rw [lexF]
  have g1 : ¬ (c = cSQuote ∨ c = cDQuote) := by intro h; rcases h with h | h; exact h1 h; exact h2 h
  have g3 : ¬ (c = cHash ∨ c = cDash ∧ dashComment rest = true) := by
    intro h; rcases h with h | h; exact h4 h; exact h5 h
  rw [if_neg g1, if_neg h3, if_neg g3, if_neg h6, if_neg h7, if_neg h8]

/-- A bare word is lexed byte by byte as ordinary bytes, whatever follows it. -/
theorem lex_word (nbe : Bool) (R : Bytes) (hR : WordAux R) (n : Nat) (v : Bool) (X : Bytes) :
    lexF nbe (n + R.length) v (R ++ X) = (lexF nbe n v X).map (R.map Tok.other ++ ·) := by
  induction R with
  | nil => simp
  | cons c r ih =>
    obtain ⟨hc, hr⟩ := hR
    have e : n + (c :: r).length = (n + r.length) + 1 := by simp; omega
    rw [e, List.cons_append]
    rcases hc with hc | ⟨rfl, e', r', rfl, he⟩
    · obtain ⟨f1, f2, f3, f4, f5, f6, f7, f8, _⟩ := wordByte_facts c hc
      rw [lexF_other nbe _ v c _ f1 f2 f3 f4 (fun h => f5 h.1) (fun h => f6 h.1) (fun h => f7 h.1) f8, ih hr]
      cases lexF nbe n v X <;> simp
    · obtain ⟨f1, f2, f3, f4, f6, f7, f8, _⟩ := dash_ne
      have hd : dashComment (e' :: r' ++ X) = false := by
        have := (wordByte_facts e' he).2.2.2.2.1
        show dashComment (e' :: (r' ++ X)) = false
        cases r' ++ X with
        | nil => rfl
        | cons x y => simp [dashComment, this]
      rw [lexF_other nbe _ v cDash _ f1 f2 f3 f4 (fun h => by rw [hd] at h; exact absurd h.2 (by simp))
        (fun h => f6 h.1) (fun h => f7 h.1) f8, ih hr]
      cases lexF nbe n v X <;> simp

/-! ### substituting renderings for the placeholders -/

/-- The tokens a rendered argument is read as. -/
def litToks (nbe : Bool) : Arg → List Tok
  | .bytes b => [Tok.str cSQuote (escapeSQL nbe b)]
  | a => (renderArg nbe a).map Tok.other

theorem rawOf_map_other (R : Bytes) : rawOf (R.map Tok.other) = R := by
  induction R with
  | nil => rfl
  | cons c r ih => simp [rawOf_cons, Tok.raw, ih]

theorem rawOf_litToks (nbe : Bool) (a : Arg) : rawOf (litToks nbe a) = renderArg nbe a := by
  cases a <;> simp [litToks, rawOf_map_other]
  simp [rawOf, Tok.raw, renderArg, itoString]

/-- The template's tokens with each placeholder replaced by the literal of the
    next argument. -/
def substToks (nbe : Bool) : List Tok → List Arg → List Tok
  | [], _ => []
  | t :: ts, as =>
    match t, as with
    | .param, a :: as' => litToks nbe a ++ substToks nbe ts as'
    | _, _ => t :: substToks nbe ts as

/-- What an argument must be like: a byte string, or something rendered as a bare word. -/
def ArgFits (nbe : Bool) : Arg → Prop
  | .bytes _ => True
  | a => Word (renderArg nbe a)

/-- Placeholder or `'…'` literal: two of them glued together would be read as one literal. -/
def isQ : Tok → Bool
  | .param => true
  | .str q _ => q == cSQuote
  | _ => false

/-- The template and the arguments fit: one argument per placeholder, each a
    byte string or rendered as a bare word, and no placeholder glued to a `'…'`
    literal or to another placeholder. -/
def Fits (nbe : Bool) : List Tok → List Arg → Prop
  | [], _ => True
  | t :: ts, as =>
    match t, as with
    | .param, [] => False
    | .param, a :: as' => ArgFits nbe a ∧ ts.head?.map isQ ≠ some true ∧ Fits nbe ts as'
    | .str q _, _ => (q = cSQuote → ts.head? ≠ some .param) ∧ Fits nbe ts as
    | _, _ => Fits nbe ts as


/-! ### what follows a token, before and after the substitution -/

def spaceHead : Bytes → Bool
  | e :: _ => isSpaceOrControl e
  | [] => false

theorem dashComment_cons (d : UInt8) (Y : Bytes) : dashComment (d :: Y) = (d == cDash && spaceHead Y) := by
  cases Y <;> simp [dashComment, spaceHead]

/-- How a rendering starts. -/
theorem render_head (nbe : Bool) (a : Arg) (h : ArgFits nbe a) :
    ∃ c r, renderArg nbe a = c :: r ∧
      ((c = cSQuote ∧ ∃ b, a = .bytes b) ∨ wordByte c = true ∨
       (c = cDash ∧ ∃ e r', r = e :: r' ∧ wordByte e = true)) := by
  cases a with
  | bytes b => exact ⟨cSQuote, _, rfl, Or.inl ⟨rfl, b, rfl⟩⟩
  | null => exact ⟨0x4e, _, rfl, Or.inr (Or.inl (by decide))⟩
  | int v =>
    obtain ⟨hne, hw⟩ := h
    cases hr : renderArg nbe (.int v) with
    | nil => exact absurd hr hne
    | cons c r => rw [hr] at hw; exact ⟨c, r, rfl, Or.inr hw.1⟩
  | float d bits =>
    obtain ⟨hne, hw⟩ := h
    cases hr : renderArg nbe (.float d bits) with
    | nil => exact absurd hr hne
    | cons c r => rw [hr] at hw; exact ⟨c, r, rfl, Or.inr hw.1⟩

theorem fits_tail (nbe : Bool) (t : Tok) (ts : List Tok) (as : List Arg) (ht : t ≠ .param)
    (h : Fits nbe (t :: ts) as) : Fits nbe ts as := by
  cases t <;> simp [Fits] at h ⊢
  all_goals first | exact h.2 | exact h | exact absurd rfl ht

theorem subst_cons_nonparam (nbe : Bool) (t : Tok) (ts : List Tok) (as : List Arg) (ht : t ≠ .param) :
    substToks nbe (t :: ts) as = t :: substToks nbe ts as := by
  cases t <;> simp [substToks] at ht ⊢

/-- First byte: the same, unless a placeholder was first. -/
theorem head_subst (nbe : Bool) (ts : List Tok) (as : List Arg) (hne : ∀ t ∈ ts, t.raw ≠ [])
    (hfit : Fits nbe ts as) (x : UInt8) (hx : wordByte x = false) (hxd : x ≠ cDash) :
    (rawOf (substToks nbe ts as)).head? = some x →
      ((rawOf ts).head? = some x ∨ (x = cSQuote ∧ ts.head? = some .param)) := by
  cases ts with
  | nil => simp [substToks, rawOf]
  | cons t ts' =>
    by_cases ht : t = .param
    · subst ht
      cases as with
      | nil => simp [Fits] at hfit
      | cons a as' =>
        simp only [Fits] at hfit
        obtain ⟨c, r, hr, hc⟩ := render_head nbe a hfit.1
        simp only [substToks, rawOf_append, rawOf_litToks, hr, List.cons_append, List.head?_cons]
        intro h; cases h
        rcases hc with ⟨rfl, _⟩ | hc | ⟨rfl, _⟩
        · right; simp
        · rw [hx] at hc; exact absurd hc (by simp)
        · exact absurd rfl hxd
    · rw [subst_cons_nonparam nbe t ts' as ht, rawOf_cons, rawOf_cons]
      have := hne t (by simp)
      cases hr : t.raw with
      | nil => exact absurd hr this
      | cons c m => simp only [List.cons_append, List.head?_cons]; exact fun h => Or.inl h

theorem head_subst_rev (nbe : Bool) (ts : List Tok) (as : List Arg) (hne : ∀ t ∈ ts, t.raw ≠ [])
    (x : UInt8) (hq : x ≠ cQMark) :
    (rawOf ts).head? = some x → (rawOf (substToks nbe ts as)).head? = some x := by
  cases ts with
  | nil => simp [substToks, rawOf]
  | cons t ts' =>
    by_cases ht : t = .param
    · subst ht
      simp only [rawOf_cons, Tok.raw, List.cons_append, List.head?_cons]
      intro h; simp at h; exact absurd h.symm hq
    · rw [subst_cons_nonparam nbe t ts' as ht, rawOf_cons, rawOf_cons]
      have := hne t (by simp)
      cases hr : t.raw with
      | nil => exact absurd hr this
      | cons c m => simp only [List.cons_append, List.head?_cons]; exact fun h => h

theorem spaceHead_subst (nbe : Bool) (ts : List Tok) (as : List Arg) (hne : ∀ t ∈ ts, t.raw ≠ [])
    (hfit : Fits nbe ts as) : spaceHead (rawOf (substToks nbe ts as)) = spaceHead (rawOf ts) := by
  cases ts with
  | nil => rfl
  | cons t ts' =>
    by_cases ht : t = .param
    · subst ht
      cases as with
      | nil => simp [Fits] at hfit
      | cons a as' =>
        simp only [Fits] at hfit
        obtain ⟨c, r, hr, hc⟩ := render_head nbe a hfit.1
        simp only [substToks, rawOf_append, rawOf_litToks, hr, List.cons_append, rawOf_cons, Tok.raw, spaceHead]
        have : isSpaceOrControl cQMark = false := by decide
        rw [this]
        rcases hc with ⟨rfl, _⟩ | hc | ⟨rfl, _⟩
        · decide
        · exact (wordByte_facts c hc).2.2.2.2.2.2.2.2
        · decide
    · rw [subst_cons_nonparam nbe t ts' as ht, rawOf_cons, rawOf_cons]
      have := hne t (by simp)
      cases hr : t.raw with
      | nil => exact absurd hr this
      | cons c m => rfl

theorem dashComment_subst (nbe : Bool) (ts : List Tok) (as : List Arg) (hne : ∀ t ∈ ts, t.raw ≠ [])
    (hfit : Fits nbe ts as) :
    dashComment (rawOf (substToks nbe ts as)) = dashComment (rawOf ts) := by
  cases ts with
  | nil => rfl
  | cons t ts' =>
    by_cases ht : t = .param
    · subst ht
      cases as with
      | nil => simp [Fits] at hfit
      | cons a as' =>
        simp only [Fits] at hfit
        obtain ⟨c, r, hr, hc⟩ := render_head nbe a hfit.1
        simp only [substToks, rawOf_append, rawOf_litToks, hr, List.cons_append, rawOf_cons, Tok.raw]
        rw [dashComment_cons, dashComment_cons]
        have e1 : (cQMark == cDash) = false := by decide
        rw [e1]
        rcases hc with ⟨rfl, _⟩ | hc | ⟨rfl, e', r', rfl, he⟩
        · have : (cSQuote == cDash) = false := by decide
          simp [this]
        · have := (wordByte_facts c hc).2.2.2.2.1
          simp [this]
        · have := (wordByte_facts e' he).2.2.2.2.2.2.2.2
          simp [spaceHead, this]
    · rw [subst_cons_nonparam nbe t ts' as ht, rawOf_cons, rawOf_cons]
      have := hne t (by simp)
      cases hr : t.raw with
      | nil => exact absurd hr this
      | cons c m =>
        cases m with
        | nil =>
          simp only [List.cons_append, List.nil_append]
          rw [dashComment_cons, dashComment_cons,
            spaceHead_subst nbe ts' as (fun t h => hne t (List.mem_cons_of_mem _ h)) (fits_tail nbe t ts' as ht hfit)]
        | cons d m' => simp [dashComment]


theorem lexF_raw_ne_nil (nbe : Bool) (fuel : Nat) (v : Bool) (text : Bytes) (toks : List Tok)
    (h : lexF nbe fuel v text = some toks) : ∀ t ∈ toks, t.raw ≠ [] := by
  fun_induction lexF nbe fuel v text generalizing toks
  all_goals try (simp at h; done)
  all_goals try (simp at h; subst h; simp; done)
  all_goals
    simp only [Option.map_eq_some_iff] at h
    obtain ⟨ts, hts, rfl⟩ := h
    rename_i ih
    intro t ht
    simp only [List.mem_cons] at ht
    rcases ht with rfl | ht
    · simp [Tok.raw]
    · exact ih ts hts t ht

theorem scanLine_idem (t : Bytes) : scanLine (scanLine t).1 = ((scanLine t).1, []) := by
  induction t with
  | nil => rfl
  | cons c r ih =>
    rw [scanLine_cons]
    by_cases hc : c = cNewline
    · simp [hc, scanLine]
    · simp only [hc, if_false]
      rw [scanLine_cons, if_neg hc, ih]

theorem dashComment_scanLine (rest X : Bytes) (h : dashComment rest = true) :
    dashComment ((scanLine rest).1 ++ X) = true := by
  match rest, h with
  | d :: e :: r, h =>
    simp only [dashComment, Bool.and_eq_true, beq_iff_eq] at h
    obtain ⟨rfl, he⟩ := h
    rw [scanLine_cons, if_neg (by decide), scanLine_cons]
    split <;> simp [dashComment, he]

theorem lexF_nil_of_raw (nbe : Bool) (n : Nat) (v : Bool) (ts : List Tok)
    (h : lexF nbe n v [] = some ts) : ts = [] := by
  cases n with
  | zero => simp [lexF] at h
  | succ n => simp only [lexF] at h; split at h <;> simp at h; exact h

theorem lexF_head_quote (nbe : Bool) (n : Nat) (v : Bool) (rest : Bytes) (t : Tok) (ts : List Tok)
    (h : lexF nbe n v (cSQuote :: rest) = some (t :: ts)) : ∃ b, t = Tok.str cSQuote b := by
  cases n with
  | zero => simp [lexF] at h
  | succ n =>
    rw [lexF] at h
    simp only [true_or, if_true] at h
    split at h
    · rename_i body rest' _
      simp only [Option.map_eq_some_iff] at h
      obtain ⟨ts', _, heq⟩ := h
      simp at heq; exact ⟨body, heq.1.symm⟩
    · simp at h

theorem relex (nbe : Bool) (fuel : Nat) (v : Bool) (text : Bytes) (toks : List Tok)
    (h : lexF nbe fuel v text = some toks) :
    ∀ as, Fits nbe toks as →
      ∃ f, lexF nbe f v (rawOf (substToks nbe toks as)) = some (substToks nbe toks as) := by
  fun_induction lexF nbe fuel v text generalizing toks
  all_goals try (simp at h; done)
  case case3 => simp at h; subst h; intro as _; exact ⟨1, by simp [substToks, rawOf, lexF, *]⟩
  case case4 n v c rest hq body rest' hs ih =>
    simp only [Option.map_eq_some_iff] at h; obtain ⟨ts, hts, rfl⟩ := h
    intro as hfit
    have hraw := lexF_raw _ _ _ _ _ hts
    have hne := lexF_raw_ne_nil _ _ _ _ _ hts
    obtain ⟨f, hf⟩ := ih ts hts as (fits_tail nbe _ ts as (by simp) hfit)
    refine ⟨f + 1, ?_⟩
    rw [subst_cons_nonparam nbe _ ts as (by simp), rawOf_cons]
    simp only [Tok.raw, List.cons_append, List.append_assoc, List.singleton_append, List.nil_append]
    have hS : (rawOf (substToks nbe ts as)).head? ≠ some c := by
      intro hh
      have hw : wordByte c = false ∧ c ≠ cDash := by rcases hq with rfl | rfl <;> decide
      rcases head_subst nbe ts as hne (fits_tail nbe _ ts as (by simp) hfit) c hw.1 hw.2 hh with h1 | ⟨rfl, h2⟩
      · rw [hraw] at h1; exact scanStr_rest_head nbe c rest body rest' hs h1
      · simp only [Fits] at hfit; exact hfit.1 trivial h2
    rw [lexF, if_pos hq, scanStr_resuffix nbe c rest body rest' hs _ hS]
    simp [hf]
  case case6 n v rest body rest' hs hq ih =>
    simp only [Option.map_eq_some_iff] at h; obtain ⟨ts, hts, rfl⟩ := h
    intro as hfit
    have hraw := lexF_raw _ _ _ _ _ hts
    have hne := lexF_raw_ne_nil _ _ _ _ _ hts
    obtain ⟨f, hf⟩ := ih ts hts as (fits_tail nbe _ ts as (by simp) hfit)
    refine ⟨f + 1, ?_⟩
    rw [subst_cons_nonparam nbe _ ts as (by simp), rawOf_cons]
    simp only [Tok.raw, List.cons_append, List.append_assoc, List.singleton_append, List.nil_append]
    have hS : (rawOf (substToks nbe ts as)).head? ≠ some cBQuote := by
      intro hh
      rcases head_subst nbe ts as hne (fits_tail nbe _ ts as (by simp) hfit) cBQuote (by decide) (by decide) hh
        with h1 | ⟨h1, _⟩
      · rw [hraw] at h1; exact scanQIdent_rest_head rest body rest' hs h1
      · exact absurd h1 (by decide)
    rw [lexF, if_neg hq, if_pos rfl, scanQIdent_resuffix rest body rest' hs _ hS]
    simp [hf]
  case case8 n v c rest h1 h2 h3 ih =>
    simp only [Option.map_eq_some_iff] at h; obtain ⟨ts, hts, rfl⟩ := h
    intro as hfit
    have hraw := lexF_raw _ _ _ _ _ hts
    have hne := lexF_raw_ne_nil _ _ _ _ _ hts
    obtain ⟨f, hf⟩ := ih ts hts as (fits_tail nbe _ ts as (by simp) hfit)
    refine ⟨f + 1, ?_⟩
    rw [subst_cons_nonparam nbe _ ts as (by simp), rawOf_cons]
    simp only [Tok.raw, List.cons_append]
    have hguard : c = cHash ∨ c = cDash ∧ dashComment ((scanLine rest).1 ++ rawOf (substToks nbe ts as)) = true := by
      rcases h3 with h3 | ⟨h3, h4⟩
      · exact Or.inl h3
      · exact Or.inr ⟨h3, dashComment_scanLine rest _ h4⟩
    rw [lexF, if_neg h1, if_neg h2, if_pos hguard]
    by_cases hnl : cNewline ∈ rest
    · have hnl' := scanLine_fst_newline rest hnl
      rw [scanLine_append_of_newline _ _ hnl', scanLine_idem]
      simp [hf]
    · -- the comment runs to the end of the text: nothing follows, before or after
      have e := scanLine_of_no_newline rest hnl
      rw [e] at hts
      have : ts = [] := lexF_nil_of_raw nbe n v ts hts
      subst this
      simp only [substToks, rawOf, List.flatMap_nil, List.append_nil] at hf ⊢
      rw [e]; simp [hf, e]
  case case9 n v c rest h1 h2 h3 h4 h5 ih =>
    simp only [Option.map_eq_some_iff] at h; obtain ⟨ts, hts, rfl⟩ := h
    intro as hfit
    obtain ⟨f, hf⟩ := ih ts hts as (fits_tail nbe _ ts as (by simp) hfit)
    refine ⟨f + 1, ?_⟩
    rw [subst_cons_nonparam nbe _ ts as (by simp), rawOf_cons]
    simp only [Tok.raw, List.cons_append, List.nil_append]
    rw [lexF]
    simp [cSlash, cSQuote, cDQuote, cBQuote, cHash, cDash, cStar, cBang, hf]
  case case10 n v c rest h1 h2 h3 h4 h5 body rest' hs ih =>
    simp only [Option.map_eq_some_iff] at h; obtain ⟨ts, hts, rfl⟩ := h
    intro as hfit
    obtain ⟨f, hf⟩ := ih ts hts as (fits_tail nbe _ ts as (by simp) hfit)
    refine ⟨f + 1, ?_⟩
    rw [subst_cons_nonparam nbe _ ts as (by simp), rawOf_cons]
    simp only [Tok.raw, List.cons_append, List.append_assoc, List.nil_append]
    -- the original text after "/*" is body ++ "*/" ++ rest', so its first byte is that of body ++ "*/…"
    have hsplit := scanBlock_split _ _ _ hs
    have hb : ¬ (body ++ cStar :: cSlash :: rawOf (substToks nbe ts as)).head? = some cBang := by
      intro hh; apply h5; rw [hsplit]
      cases body with
      | nil => simp at hh; exact absurd hh (by decide)
      | cons b0 b' => simpa using hh
    rw [lexF]
    have g1 : ¬ (cSlash = cSQuote ∨ cSlash = cDQuote) := by decide
    have g2 : ¬ cSlash = cBQuote := by decide
    have g3 : ¬ (cSlash = cHash ∨ cSlash = cDash ∧
        dashComment (cStar :: (body ++ cStar :: cSlash :: rawOf (substToks nbe ts as))) = true) := by
      intro h; rcases h with h | h
      · exact absurd h (by decide)
      · exact absurd h.1 (by decide)
    rw [if_neg g1, if_neg g2, if_neg g3]
    simp only [List.head?_cons, true_and, if_true, List.tail_cons]
    simp only [hb, if_false]
    rw [scanBlock_resuffix _ _ _ hs]
    simp [hf]
  case case12 n v c rest h1 h2 h3 h4 h5 ih =>
    simp only [Option.map_eq_some_iff] at h; obtain ⟨ts, hts, rfl⟩ := h
    intro as hfit
    obtain ⟨f, hf⟩ := ih ts hts as (fits_tail nbe _ ts as (by simp) hfit)
    refine ⟨f + 1, ?_⟩
    rw [subst_cons_nonparam nbe _ ts as (by simp), rawOf_cons]
    simp only [Tok.raw, List.cons_append, List.nil_append]
    obtain ⟨_, rfl, _⟩ := h5
    rw [lexF]
    simp [cSlash, cSQuote, cDQuote, cBQuote, cHash, cDash, cStar, hf]
  case case13 n v rest h1 h2 h3 h4 h5 ih =>
    simp only [Option.map_eq_some_iff] at h; obtain ⟨ts, hts, rfl⟩ := h
    intro as hfit
    have hraw := lexF_raw _ _ _ _ _ hts
    have hne := lexF_raw_ne_nil _ _ _ _ _ hts
    cases as with
    | nil => simp [Fits] at hfit
    | cons a as' =>
      simp only [Fits] at hfit
      obtain ⟨ha, hglue, hfit'⟩ := hfit
      obtain ⟨f, hf⟩ := ih ts hts as' hfit'
      simp only [substToks, rawOf_append, rawOf_litToks]
      cases a with
      | bytes b =>
        refine ⟨f + 1, ?_⟩
        have hS : (rawOf (substToks nbe ts as')).head? ≠ some cSQuote := by
          intro hh
          rcases head_subst nbe ts as' hne hfit' cSQuote (by decide) (by decide) hh with h1 | ⟨_, h2⟩
          · -- a '…' literal right behind the placeholder
            cases ts with
            | nil => simp [rawOf] at h1
            | cons t ts' =>
              rw [hraw] at h1
              obtain ⟨r0, hr0⟩ : ∃ r0, rest = cSQuote :: r0 := by
                cases rest with
                | nil => simp at h1
                | cons x r0 => simp at h1; exact ⟨r0, by rw [h1]⟩
              rw [hr0] at hts
              obtain ⟨b', rfl⟩ := lexF_head_quote nbe n v r0 t ts' hts
              simp [isQ] at hglue
          · rw [h2] at hglue; simp [isQ] at hglue
        have := (lex_rendered_string nbe b _ hS f v).1
        rw [this, hf]; rfl
      | null =>
        refine ⟨f + (renderArg nbe Arg.null).length, ?_⟩
        rw [lex_word nbe _ ha.2, hf]; rfl
      | int x =>
        refine ⟨f + (renderArg nbe (Arg.int x)).length, ?_⟩
        rw [lex_word nbe _ ha.2, hf]; rfl
      | float d bits =>
        refine ⟨f + (renderArg nbe (Arg.float d bits)).length, ?_⟩
        rw [lex_word nbe _ ha.2, hf]; rfl
  case case14 n v c rest h1 h2 h3 h4 h5 h6 ih =>
    simp only [Option.map_eq_some_iff] at h; obtain ⟨ts, hts, rfl⟩ := h
    intro as hfit
    have hraw := lexF_raw _ _ _ _ _ hts
    have hne := lexF_raw_ne_nil _ _ _ _ _ hts
    have hfit' := fits_tail nbe _ ts as (by simp) hfit
    obtain ⟨f, hf⟩ := ih ts hts as hfit'
    refine ⟨f + 1, ?_⟩
    rw [subst_cons_nonparam nbe _ ts as (by simp), rawOf_cons]
    simp only [Tok.raw, List.cons_append, List.nil_append]
    rw [lexF_other nbe f v c _ (fun e => h1 (Or.inl e)) (fun e => h1 (Or.inr e)) h2 (fun e => h3 (Or.inl e))
      ?_ ?_ ?_ h6, hf]
    · rfl
    · intro ⟨e1, e2⟩
      rw [dashComment_subst nbe ts as hne hfit', hraw] at e2
      exact h3 (Or.inr ⟨e1, e2⟩)
    · intro ⟨e1, e2⟩
      rcases head_subst nbe ts as hne hfit' cStar (by decide) (by decide) e2 with h | ⟨h, _⟩
      · rw [hraw] at h; exact h4 ⟨e1, h⟩
      · exact absurd h (by decide)
    · intro ⟨e1, e2, e3⟩
      rcases head_subst nbe ts as hne hfit' cSlash (by decide) (by decide) e3 with h | ⟨h, _⟩
      · rw [hraw] at h; exact h5 ⟨e1, e2, h⟩
      · exact absurd h (by decide)

/-- The fuel of the lexer only has to exceed the number of tokens. -/
theorem lexF_any_fuel (nbe : Bool) (n : Nat) (v : Bool) (t : Bytes) (r : List Tok)
    (h : lexF nbe n v t = some r) : ∀ m, r.length < m → lexF nbe m v t = some r := by
  fun_induction lexF nbe n v t generalizing r
  all_goals try (simp at h; done)
  case case3 => simp at h; subst h; intro m hm; cases m with
    | zero => simp at hm
    | succ m => simp [lexF, *]
  all_goals
    simp only [Option.map_eq_some_iff] at h
    obtain ⟨ts, hts, rfl⟩ := h
    rename_i ih
    intro m hm
    cases m with
    | zero => simp at hm
    | succ m =>
      have := ih ts hts m (by simpa using hm)
      rw [lexF]
      repeat (first | rw [if_pos (by assumption)] | rw [if_neg (by assumption)])
      first
        | (rw [this]; rfl)
        | (rename_i hs _; rw [hs]; simp only []; rw [this]; rfl)
        | (rename_i hs _ _; rw [hs]; simp only []; rw [this]; rfl)
        | (rename_i hs; rw [hs]; simp only []; rw [this]; rfl)


theorem toks_length_le (ts : List Tok) (hne : ∀ t ∈ ts, t.raw ≠ []) : ts.length ≤ (rawOf ts).length := by
  induction ts with
  | nil => simp
  | cons t ts ih =>
    have h1 := hne t (by simp)
    have h2 := ih (fun t h => hne t (List.mem_cons_of_mem _ h))
    rw [rawOf_cons, List.length_append, List.length_cons]
    have : t.raw.length ≥ 1 := by cases h : t.raw with
      | nil => exact absurd h h1
      | cons a b => simp
    omega

/-! ### the rewritten statement, token by token -/

/-- The items `CalcParams` cuts a token stream into, the bytes of the current
    piece so far being `cur`. -/
def pieces (cur : Bytes) : List Tok → List Bytes
  | [] => if cur ≠ [] then [cur] else []
  | t :: ts =>
    match t with
    | .param => cur :: [cQMark] :: pieces [] ts
    | t => pieces (cur ++ t.raw) ts

theorem pieces_nonparam (cur : Bytes) (t : Tok) (ts : List Tok) (ht : t ≠ .param) :
    pieces cur (t :: ts) = pieces (cur ++ t.raw) ts := by
  cases t <;> simp [pieces] at ht ⊢

theorem cutItems_pieces (toks : List Tok) : ∀ (pre cur : Bytes),
    cutItems (pre ++ cur ++ rawOf toks) pre.length (paramOffsets (pre.length + cur.length) toks) = pieces cur toks := by
  induction toks with
  | nil =>
    intro pre cur
    simp only [rawOf, List.flatMap_nil, List.append_nil, paramOffsets, cutItems, pieces]
    cases cur <;> simp
  | cons t ts ih =>
    intro pre cur
    by_cases ht : t = .param
    · subst ht
      rw [paramOffsets_param]
      simp only [cutItems, pieces]
      have e1 : List.take (pre.length + cur.length - pre.length)
          (List.drop pre.length (pre ++ cur ++ rawOf (Tok.param :: ts))) = cur := by
        simp [List.append_assoc]
      rw [e1]
      have := ih (pre ++ cur ++ [cQMark]) []
      simp only [List.length_append, List.length_cons, List.length_nil, List.append_nil, Nat.add_zero,
        Nat.zero_add] at this
      have e2 : pre ++ cur ++ rawOf (Tok.param :: ts) = pre ++ cur ++ [cQMark] ++ rawOf ts := by
        simp [rawOf_cons, Tok.raw, List.append_assoc]
      rw [e2, this]
    · rw [paramOffsets_nonparam _ t ts ht, pieces_nonparam cur t ts ht]
      have := ih pre (cur ++ t.raw)
      simp only [List.length_append, Tok.len] at this ⊢
      have e2 : pre ++ cur ++ rawOf (t :: ts) = pre ++ (cur ++ t.raw) ++ rawOf ts := by
        simp [rawOf_cons, List.append_assoc]
      rw [e2, ← this]
      congr 2; omega

/-- `GetRewriteSQL` over the items of a token stream writes the stream with each
    placeholder replaced by the rendering of the next argument. -/
theorem rewrite_pieces (nbe : Bool) (args : List Arg) (toks : List Tok) :
    ∀ (cur : Bytes) (idx : Nat), Fits nbe toks (args.drop idx) →
      (∀ t ∈ toks, t.raw ≠ []) → (∀ t ∈ toks, t ≠ .param → t.raw ≠ [cQMark]) →
      cur ≠ [cQMark] → (cur ≠ [] → ∀ r : Bytes, r ≠ [] → cur ++ r ≠ [cQMark]) →
      rewriteLoop nbe args (pieces cur toks) idx = .ok (cur ++ rawOf (substToks nbe toks (args.drop idx))) := by
  induction toks with
  | nil =>
    intro cur idx _ _ _ hc _
    simp only [pieces, substToks, rawOf, List.flatMap_nil, List.append_nil]
    split
    · simp [rewriteLoop, hc, bind, O.bind]
    · rename_i h; simp at h; subst h; simp [rewriteLoop]
  | cons t ts ih =>
    intro cur idx hfit hne hq hc hc2
    by_cases ht : t = .param
    · subst ht
      simp only [pieces]
      cases hd : args.drop idx with
      | nil => rw [hd] at hfit; simp [Fits] at hfit
      | cons a as' =>
        rw [hd] at hfit
        simp only [Fits] at hfit
        have hget : args[idx]? = some a := by
          have := congrArg (fun l => l[0]?) hd
          simpa using this
        have hd' : args.drop (idx + 1) = as' := by
          have := congrArg (List.drop 1) hd
          simpa [List.drop_drop, Nat.add_comm] using this
        rw [rewriteLoop, if_neg hc, rewriteLoop, if_pos rfl]
        simp only [argIdx, hget, bind, O.bind]
        rw [ih [] (idx + 1) (by rw [hd']; exact hfit.2.2) (fun t h => hne t (List.mem_cons_of_mem _ h))
          (fun t h => hq t (List.mem_cons_of_mem _ h)) (by decide) (fun h => absurd rfl h)]
        simp [substToks, rawOf_append, rawOf_litToks, hd']
    · rw [pieces_nonparam cur t ts ht, subst_cons_nonparam nbe t ts _ ht, rawOf_cons]
      have h1 := hne t (by simp)
      have h2 := hq t (by simp) ht
      rw [ih (cur ++ t.raw) idx (fits_tail nbe t ts _ ht hfit) (fun t h => hne t (List.mem_cons_of_mem _ h))
        (fun t h => hq t (List.mem_cons_of_mem _ h))]
      · simp [List.append_assoc]
      · by_cases hce : cur = []
        · subst hce; simpa using h2
        · exact hc2 hce _ h1
      · intro _ r hr
        have : (cur ++ t.raw ++ r).length ≥ 2 := by
          have a1 : t.raw.length ≥ 1 := by cases h : t.raw with
            | nil => exact absurd h h1
            | cons a b => simp
          have a2 : r.length ≥ 1 := by cases h : r with
            | nil => exact absurd h hr
            | cons a b => simp
          simp only [List.length_append]; omega
        intro e; rw [e] at this; simp at this


theorem lexF_raw_ne_qmark (nbe : Bool) (fuel : Nat) (v : Bool) (text : Bytes) (toks : List Tok)
    (h : lexF nbe fuel v text = some toks) : ∀ t ∈ toks, t ≠ .param → t.raw ≠ [cQMark] := by
  fun_induction lexF nbe fuel v text generalizing toks
  all_goals try (simp at h; done)
  all_goals try (simp at h; subst h; simp; done)
  all_goals
    simp only [Option.map_eq_some_iff] at h
    obtain ⟨ts, hts, rfl⟩ := h
    rename_i ih
    intro t ht hp
    simp only [List.mem_cons] at ht
    rcases ht with rfl | ht
    case inr => exact ih ts hts t ht hp
    try (exact absurd rfl hp)
    try (simp [Tok.raw, cStar, cSlash, cQMark, cBang]; done)
  case case8.inl n v c rest h1 h2 h3 =>
    simp only [Tok.raw]; intro e; simp at e
    obtain ⟨rfl, _⟩ := e
    rcases h3 with h3 | h3
    · exact absurd h3 (by decide)
    · exact absurd h3.1 (by decide)
  case case14.inl n v c rest h1 h2 h3 h4 h5 h6 =>
    simp only [Tok.raw]; intro e; simp at e; exact h6 e

end GaeaVerif.C15
