import GaeaVerif.Lemmas.C10Dates
import GaeaVerif.Lemmas.C10Mycat
/-
  C10: `Namespace.Verify` never panics.  The only indexing it does on data it
  has not bounded is `dayNumbers[0]` / `monthNumbers[0]` / `yearNumbers[0]` on
  the list a calendar range parses to; the models copies of the parsers return
  a non-empty list whenever they succeed, because the bounds of a range are
  ordered as strings first and, being digit strings of equal length, are then
  ordered as numbers.
-/
namespace GaeaVerif.C10
open GaeaVerif

/-! ### digit strings -/

theorem foldl_digits (cs : Str) (acc : Nat) :
    cs.foldl (fun a c => a * 10 + digitVal c) acc = acc * 10 ^ cs.length + digitsVal cs := by
  induction cs generalizing acc with
  | nil => simp [digitsVal]
  | cons c cs ih =>
    simp only [List.foldl_cons, List.length_cons, digitsVal]
    rw [ih, ih (0 * 10 + digitVal c)]
    rw [Nat.pow_succ]
    have : (acc * 10 + digitVal c) * 10 ^ cs.length = acc * (10 ^ cs.length * 10) + (0 * 10 + digitVal c) * 10 ^ cs.length := by
      rw [Nat.add_mul, Nat.zero_mul, Nat.zero_add, Nat.mul_assoc, Nat.mul_comm 10]
    omega

theorem digitsVal_cons (c : Char) (cs : Str) :
    digitsVal (c :: cs) = digitVal c * 10 ^ cs.length + digitsVal cs := by
  have := foldl_digits cs (0 * 10 + digitVal c)
  simp only [digitsVal, List.foldl_cons] at this ⊢
  rw [this]; simp

theorem digitsVal_append (a b : Str) : digitsVal (a ++ b) = digitsVal a * 10 ^ b.length + digitsVal b := by
  unfold digitsVal
  rw [List.foldl_append, foldl_digits b]
  rfl

theorem digitVal_lt (c : Char) (h : isDigit c = true) : digitVal c < 10 := by
  unfold isDigit at h; unfold digitVal
  simp only [Bool.and_eq_true, decide_eq_true_eq] at h
  omega

theorem digitsVal_lt : ∀ (cs : Str), allDigits cs = true → digitsVal cs < 10 ^ cs.length
  | [], _ => by simp [digitsVal]
  | c :: cs, h => by
    unfold allDigits at h
    simp only [List.all_cons, Bool.and_eq_true] at h
    have h1 := digitVal_lt c h.1
    have h2 := digitsVal_lt cs h.2
    rw [digitsVal_cons, List.length_cons, Nat.pow_succ]
    have : digitVal c * 10 ^ cs.length ≤ 9 * 10 ^ cs.length := Nat.mul_le_mul_right _ (by omega)
    omega

/-- equal-length digit strings ordered as strings are ordered as numbers -/
theorem digitsVal_le_of_not_strLt : ∀ (a b : Str), a.length = b.length → allDigits a = true → allDigits b = true →
    strLt b a = false → digitsVal a ≤ digitsVal b
  | [], [], _, _, _, _ => by simp [digitsVal]
  | [], _ :: _, h, _, _, _ => by simp at h
  | _ :: _, [], h, _, _, _ => by simp at h
  | x :: as, y :: bs, hl, ha, hb, hlt => by
    unfold allDigits at ha hb
    simp only [List.all_cons, Bool.and_eq_true] at ha hb
    have hlen : as.length = bs.length := by simpa using hl
    rw [digitsVal_cons, digitsVal_cons, hlen]
    have hxa := digitsVal_lt as ha.2
    have hxb := digitsVal_lt bs hb.2
    rw [hlen] at hxa
    unfold strLt at hlt
    have hdx : digitVal x = x.toNat - 48 := rfl
    have hdy : digitVal y = y.toNat - 48 := rfl
    have hx48 : 48 ≤ x.toNat := by
      have := ha.1; unfold isDigit at this; simp only [Bool.and_eq_true, decide_eq_true_eq] at this; exact this.1
    have hy48 : 48 ≤ y.toNat := by
      have := hb.1; unfold isDigit at this; simp only [Bool.and_eq_true, decide_eq_true_eq] at this; exact this.1
    split at hlt
    · cases hlt
    · split at hlt
      · next h1 h2 =>
        -- x < y
        have : digitVal x + 1 ≤ digitVal y := by omega
        have : (digitVal x + 1) * 10 ^ bs.length ≤ digitVal y * 10 ^ bs.length := Nat.mul_le_mul_right _ this
        rw [Nat.add_mul] at this
        omega
      · next h1 h2 =>
        have heq : digitVal x = digitVal y := by omega
        have ih := digitsVal_le_of_not_strLt as bs hlen ha.2 hb.2 hlt
        rw [heq]; omega

theorem orderPair_ordered (a0 b0 : Str) : strLt (orderPair a0 b0).2 (orderPair a0 b0).1 = false ∨
    ((orderPair a0 b0).1 = b0 ∧ (orderPair a0 b0).2 = a0 ∧ strLt b0 a0 = true) := by
  unfold orderPair
  cases h : strLt b0 a0 with
  | true => right; simp
  | false => left; simp [h]

/-- `strLt` is asymmetric -/
theorem strLt_asymm : ∀ (a b : Str), strLt a b = true → strLt b a = false
  | [], [], h => by simp [strLt] at h
  | [], _ :: _, _ => by simp [strLt]
  | _ :: _, [], h => by simp [strLt] at h
  | x :: as, y :: bs, h => by
    unfold strLt at h ⊢
    split at h
    · next h1 =>
      rw [if_neg (by omega), if_pos h1]
    · split at h
      · cases h
      · next h1 h2 =>
        rw [if_neg h2, if_neg h1]
        exact strLt_asymm as bs h

theorem orderPair_not_lt (a0 b0 : Str) : strLt (orderPair a0 b0).2 (orderPair a0 b0).1 = false := by
  rcases orderPair_ordered a0 b0 with h | ⟨h1, h2, h3⟩
  · exact h
  · rw [h1, h2]; exact strLt_asymm _ _ h3

theorem atoi_digits (s : Str) (hne : s ≠ []) (hd : allDigits s = true) (hlt : digitsVal s < 2 ^ 63) :
    atoi s = some (digitsVal s : Int) := by
  cases s with
  | nil => exact absurd rfl hne
  | cons c cs =>
    have hc : isDigit c = true := by
      unfold allDigits at hd; simp only [List.all_cons, Bool.and_eq_true] at hd; exact hd.1
    have hbody : atoiBody false (c :: cs) = some (digitsVal (c :: cs) : Int) := by
      unfold atoiBody
      simp [hd, hlt]
    unfold atoi
    split
    · next r heq =>
      simp only [List.cons.injEq] at heq
      rw [heq.1] at hc
      exact absurd hc (by decide)
    · next r heq =>
      simp only [List.cons.injEq] at heq
      rw [heq.1] at hc
      exact absurd hc (by decide)
    · exact hbody

theorem pow10_lt (n : Nat) (h : n ≤ 8) : 10 ^ n < 2 ^ 63 := by
  have : 10 ^ n ≤ 10 ^ 8 := Nat.pow_le_pow_right (by omega) h
  omega

theorem allDigits_take (s : Str) (n : Nat) (h : allDigits s = true) : allDigits (s.take n) = true := by
  unfold allDigits at *
  rw [List.all_eq_true] at *
  intro x hx; exact h x (List.mem_of_mem_take hx)

theorem allDigits_drop (s : Str) (n : Nat) (h : allDigits s = true) : allDigits (s.drop n) = true := by
  unfold allDigits at *
  rw [List.all_eq_true] at *
  intro x hx; exact h x (List.mem_of_mem_drop hx)

theorem digitsVal_split (s : Str) (n : Nat) :
    digitsVal s = digitsVal (s.take n) * 10 ^ (s.drop n).length + digitsVal (s.drop n) := by
  have := digitsVal_append (s.take n) (s.drop n)
  rw [List.take_append_drop] at this
  exact this

/-- `Atoi` of a short digit string is its value -/
theorem atoi_short (s : Str) (hd : allDigits s = true) (h0 : 0 < s.length) (h8 : s.length ≤ 8) :
    atoi s = some (digitsVal s : Int) := by
  apply atoi_digits s (by intro h; rw [h] at h0; simp at h0) hd
  have := digitsVal_lt s hd
  have := pow10_lt s.length h8
  omega

/-! ### the models copies of the calendar parsers return non-empty lists -/

theorem intRange_ne_nil (lo hi : Int) (h : lo ≤ hi) : intRange lo hi ≠ [] := by
  unfold intRange
  have : (hi - lo + 1).toNat = (hi - lo).toNat + 1 := by omega
  rw [this, List.range_succ]
  simp

theorem monthLoop_ne_nil (n : Nat) (y m : Int) (h : 0 < n) : monthLoop n y m ≠ [] := by
  cases n with
  | zero => omega
  | succ n => unfold monthLoop; split <;> simp

theorem dayLoop_ne_nil (n : Nat) (dt : Nat × Nat × Nat) (h : 0 < n) : dayLoop n dt ≠ [] := by
  cases n with
  | zero => omega
  | succ n => simp [dayLoop]

theorem countDays_ge : ∀ (fuel : Nat) (cur t : Nat × Nat × Nat) (acc : Int), acc ≤ countDays fuel cur t acc
  | 0, _, _, acc => by simp [countDays]
  | fuel + 1, cur, t, acc => by
    unfold countDays
    split
    · omega
    · have := countDays_ge fuel (nextDay cur) t (acc + 1); omega

theorem timeParseYear_spec (s : Str) (h : timeParseYear s = true) : s.length = 4 ∧ allDigits s = true := by
  unfold timeParseYear at h
  simp only [Bool.and_eq_true, beq_iff_eq] at h
  exact h

theorem parseYearRange_strict_ne_nil (dr : Str) (nums : List Int) (h : parseYearRange true dr = .ok nums) :
    nums ≠ [] := by
  unfold parseYearRange at h
  split at h
  · repeat' split at h
    all_goals cases h
    simp
  · next a0 b0 _ =>
    split at h
    · cases h
    · next hA =>
      have hA' : timeParseYear (orderPair a0 b0).1 = true := by
        cases hx : timeParseYear (orderPair a0 b0).1 with
        | true => rfl
        | false => simp [hx] at hA
      obtain ⟨hla, hda⟩ := timeParseYear_spec _ hA'
      rw [atoi_short _ hda (by omega) (by omega)] at h
      simp only at h
      split at h
      · cases h
      · next hB =>
        have hB' : timeParseYear (orderPair a0 b0).2 = true := by
          cases hx : timeParseYear (orderPair a0 b0).2 with
          | true => rfl
          | false => simp [hx] at hB
        obtain ⟨hlb, hdb⟩ := timeParseYear_spec _ hB'
        rw [atoi_short _ hdb (by omega) (by omega)] at h
        simp only [R.ok.injEq] at h
        rw [← h]
        apply intRange_ne_nil
        have := digitsVal_le_of_not_strLt _ _ (by omega) hda hdb (orderPair_not_lt a0 b0)
        omega
  · cases h

theorem timeParseMonth_spec (s : Str) (h : timeParseMonth s = true) :
    s.length = 6 ∧ allDigits s = true ∧ 1 ≤ digitsVal (s.drop 4) ∧ digitsVal (s.drop 4) ≤ 12 := by
  unfold timeParseMonth at h
  simp only [Bool.and_eq_true, beq_iff_eq, decide_eq_true_eq] at h
  exact ⟨h.1.1.1, h.1.1.2, h.1.2, h.2⟩

theorem parseMonthRange_strict_ne_nil (dr : Str) (nums : List Int) (h : parseMonthRange true dr = .ok nums) :
    nums ≠ [] := by
  unfold parseMonthRange at h
  split at h
  · repeat' split at h
    all_goals cases h
    simp
  · next a0 b0 _ =>
    split at h
    · cases h
    · split at h
      · cases h
      · next hA =>
        have hA' : timeParseMonth (orderPair a0 b0).1 = true := by
          cases hx : timeParseMonth (orderPair a0 b0).1 with
          | true => rfl
          | false => simp [hx] at hA
        obtain ⟨hla, hda, ha1, ha2⟩ := timeParseMonth_spec _ hA'
        have e1 := atoi_short _ (allDigits_take _ 4 hda) (by simp; omega) (by simp; omega)
        have e2 := atoi_short _ (allDigits_drop _ 4 hda) (by simp; omega) (by simp; omega)
        rw [e1, e2] at h
        simp only at h
        split at h
        · cases h
        · next hB =>
          have hB' : timeParseMonth (orderPair a0 b0).2 = true := by
            cases hx : timeParseMonth (orderPair a0 b0).2 with
            | true => rfl
            | false => simp [hx] at hB
          obtain ⟨hlb, hdb, hb1, hb2⟩ := timeParseMonth_spec _ hB'
          have e3 := atoi_short _ (allDigits_take _ 4 hdb) (by simp; omega) (by simp; omega)
          have e4 := atoi_short _ (allDigits_drop _ 4 hdb) (by simp; omega) (by simp; omega)
          rw [e3, e4] at h
          simp only [R.ok.injEq] at h
          rw [← h]
          apply monthLoop_ne_nil
          have hle := digitsVal_le_of_not_strLt _ _ (by omega) hda hdb (orderPair_not_lt a0 b0)
          rw [digitsVal_split (orderPair a0 b0).1 4, digitsVal_split (orderPair a0 b0).2 4] at hle
          have l1 : ((orderPair a0 b0).1.drop 4).length = 2 := by simp; omega
          have l2 : ((orderPair a0 b0).2.drop 4).length = 2 := by simp; omega
          rw [l1, l2] at hle
          omega
  · cases h

theorem timeParseDay_spec (s : Str) (dt : Nat × Nat × Nat) (h : timeParseDay s = some dt) :
    s.length = 8 ∧ allDigits s = true ∧ dayNum dt = (digitsVal s : Int) := by
  unfold timeParseDay at h
  split at h
  · next hc =>
    simp only [Bool.and_eq_true, beq_iff_eq] at hc
    simp only at h
    split at h
    · cases h
      refine ⟨hc.1, hc.2, ?_⟩
      unfold dayNum
      simp only
      have h1 := digitsVal_split s 4
      have h2 := digitsVal_split (s.drop 4) 2
      have l1 : (s.drop 4).length = 4 := by simp; omega
      have l2 : ((s.drop 4).drop 2).length = 2 := by simp; omega
      rw [l1] at h1
      rw [l2] at h2
      have h3 : (s.drop 4).drop 2 = s.drop 6 := by rw [List.drop_drop]
      rw [h3] at h2
      rw [h1, h2]
      omega
    · cases h
  · cases h

theorem parseDayRange_strict_ne_nil (dr : Str) (nums : List Int) (h : parseDayRange true dr = .ok nums) :
    nums ≠ [] := by
  unfold parseDayRange at h
  split at h
  · repeat' split at h
    all_goals cases h
    simp
  · next a0 b0 _ =>
    split at h
    · cases h
    · split at h
      · cases h
      · next b hb =>
        split at h
        · cases h
        · next e he =>
          simp only [R.ok.injEq] at h
          rw [← h]
          apply dayLoop_ne_nil
          obtain ⟨hla, hda, hna⟩ := timeParseDay_spec _ b hb
          obtain ⟨hlb, hdb, hnb⟩ := timeParseDay_spec _ e he
          have hle := digitsVal_le_of_not_strLt _ _ (by omega) hda hdb (orderPair_not_lt a0 b0)
          have hcount : 0 ≤ daysCount b e := by
            unfold daysCount
            rw [if_neg (by omega)]
            exact countDays_ge _ _ _ 0
          omega
  · cases h

/-! ### no step of `Shard.verify` panics -/

theorem hashTables_ne_panic : ∀ (l : List Int) (i s : Int), hashTables l i s ≠ .panic
  | [], _, _ => by simp [hashTables]
  | loc :: rest, i, s => by
    unfold hashTables
    have ih := hashTables_ne_panic rest (i + 1) (s + loc)
    split
    · simp
    · split
      · simp
      · simp
      · next h => exact absurd h ih

theorem verifyHash_ne_panic (l : List Int) (s : List Str) : verifyHashRuleSliceInfos l s ≠ .panic := by
  unfold verifyHashRuleSliceInfos
  have := hashTables_ne_panic l 0 0
  repeat' split
  all_goals simp_all

theorem getRealDatabases_ne_panic : ∀ (dbs : List Str), getRealDatabases dbs ≠ .panic
  | [] => by simp [getRealDatabases]
  | db :: rest => by
    unfold getRealDatabases
    have ih := getRealDatabases_ne_panic rest
    repeat' split
    all_goals simp_all

theorem verifyMycatHash_ne_panic (l : List Int) (s d : List Str) : verifyMycatHashRuleSliceInfos l s d ≠ .panic := by
  unfold verifyMycatHashRuleSliceInfos
  have h1 := verifyHash_ne_panic l s
  have h2 := getRealDatabases_ne_panic d
  repeat' split
  all_goals simp_all

theorem verifyGlobal_ne_panic (l : List Int) (s d : List Str) : verifyGlobalTableRuleSliceInfos l s d ≠ .panic := by
  unfold verifyGlobalTableRuleSliceInfos
  have h1 := verifyHash_ne_panic l s
  have h2 := getRealDatabases_ne_panic d
  repeat' split
  all_goals simp_all

theorem verifyHash_sum_nonneg (l : List Int) (s : List Str) (t : IntMap) (h : verifyHashRuleSliceInfos l s = .ok t) :
    0 ≤ l.sum := by
  have := (parseHash_spec l s _ t ((verifyHash_iff_parseHash l s t).mp h)).2.2.2.1
  omega

theorem parseNumSharding_ne_panic (l : List Int) (limit : Int) (h : 0 ≤ l.sum) : parseNumSharding l limit ≠ .panic := by
  unfold parseNumSharding
  split
  · simp
  · rw [if_neg (by omega)]; simp

theorem partitionLongInit_ne_panic (n : Int) (pc pl : Str) : partitionLongInit n pc pl ≠ .panic := by
  unfold partitionLongInit
  repeat' split
  all_goals simp

theorem parseHashSliceStartEnd_ne_panic (s : Str) : parseHashSliceStartEnd s ≠ .panic := by
  unfold parseHashSliceStartEnd
  repeat' split
  all_goals simp

theorem parseMurmur_ne_panic (a b : Str) : parseMurmur a b ≠ .panic := by
  unfold parseMurmur
  repeat' split
  all_goals simp

theorem parsePaddingMod_ne_panic (a b c d : Str) (m : Int) : parsePaddingMod a b c d m ≠ .panic := by
  unfold parsePaddingMod
  repeat' split
  all_goals simp

theorem parseYearRange_ne_panic (st : Bool) (dr : Str) : parseYearRange st dr ≠ .panic := by
  unfold parseYearRange
  repeat' split
  all_goals simp

theorem parseMonthRange_ne_panic (st : Bool) (dr : Str) : parseMonthRange st dr ≠ .panic := by
  unfold parseMonthRange
  repeat' split
  all_goals simp

theorem parseDayRange_ne_panic (st : Bool) (dr : Str) : parseDayRange st dr ≠ .panic := by
  unfold parseDayRange
  repeat' split
  all_goals simp

theorem dateLoop_ne_panic (parse : Str → R (List Int)) (hp : ∀ dr, parse dr ≠ .panic)
    (hne : ∀ dr nums, parse dr = .ok nums → nums ≠ []) :
    ∀ (drs : List Str) (i : Int) (acc : List Int) (m : IntMap), dateLoop parse drs i acc m ≠ .panic
  | [], _, _, _ => by simp [dateLoop]
  | dr :: rest, i, acc, m => by
    unfold dateLoop
    split
    · simp
    · next h => exact absurd h (hp dr)
    · next nums hn =>
      split
      · exact absurd rfl (hne dr [] hn)
      · split
        · simp
        · exact dateLoop_ne_panic parse hp hne rest _ _ _
      · exact dateLoop_ne_panic parse hp hne rest _ _ _

theorem verifyDate_ne_panic (parse : Str → R (List Int)) (hp : ∀ dr, parse dr ≠ .panic)
    (hne : ∀ dr nums, parse dr = .ok nums → nums ≠ []) (drs sl : List Str) :
    verifyDateRuleSliceInfos parse drs sl ≠ .panic := by
  unfold verifyDateRuleSliceInfos
  have := dateLoop_ne_panic parse hp hne drs 0 [] []
  repeat' split
  all_goals simp_all

theorem shardVerify_ne_panic (s : Shard) : shardVerify s ≠ .panic := by
  unfold shardVerify
  have h1 := verifyHash_ne_panic s.locations s.slices
  have h2 := verifyMycatHash_ne_panic s.locations s.slices s.databases
  have h3 := verifyGlobal_ne_panic s.locations s.slices s.databases
  have h4 := fun n => partitionLongInit_ne_panic n s.partitionCount s.partitionLength
  have h5 := parseHashSliceStartEnd_ne_panic s.hashSlice
  have h6 := parseMurmur_ne_panic s.seed s.virtualBucketTimes
  have h7 := fun n => parsePaddingMod_ne_panic s.padFrom s.padLength s.modBegin s.modEnd n
  have h8 := verifyDate_ne_panic (parseDayRange true) (parseDayRange_ne_panic true) parseDayRange_strict_ne_nil s.dateRange s.slices
  have h9 := verifyDate_ne_panic (parseMonthRange true) (parseMonthRange_ne_panic true) parseMonthRange_strict_ne_nil s.dateRange s.slices
  have h10 := verifyDate_ne_panic (parseYearRange true) (parseYearRange_ne_panic true) parseYearRange_strict_ne_nil s.dateRange s.slices
  split
  · -- hash
    split <;> simp_all
  · -- mod
    split <;> simp_all
  · -- range
    split
    · next t ht =>
      have := parseNumSharding_ne_panic s.locations s.tableRowLimit (verifyHash_sum_nonneg _ _ t ht)
      split
      · split <;> simp
      · simp
      · next hp => exact absurd hp this
    · simp
    · next hp => exact absurd hp h1
  · exact h8
  · exact h9
  · exact h10
  · split <;> simp_all
  · -- mycat long
    split
    · next t _ => have := h4 (mapLen t); split <;> simp_all
    · simp
    · simp_all
  · -- mycat string
    split
    · next t _ =>
      have := h4 (mapLen t)
      split
      · split <;> simp_all
      · simp
      · simp_all
    · simp
    · simp_all
  · -- murmur
    split
    · split <;> simp_all
    · simp
    · simp_all
  · -- padding
    split
    · next t _ => have := h7 (mapLen t); split <;> simp_all
    · simp
    · simp_all
  · exact h3
  all_goals simp

theorem verifyRulesLoop_ne_panic (names : List Str) :
    ∀ (shards lv : List Shard) (rv : TypeMap), verifyRulesLoop names shards lv rv ≠ .panic
  | [], _, _ => by simp [verifyRulesLoop]
  | s :: rest, lv, rv => by
    unfold verifyRulesLoop
    have hs := shardVerify_ne_panic s
    split
    · simp
    · split
      · simp
      · split
        · simp
        · exact verifyRulesLoop_ne_panic names rest _ _
      · split
        · split
          · simp
          · exact verifyRulesLoop_ne_panic names rest _ _
        · simp
        · next hp => exact absurd hp hs

theorem verifyLinkedLoop_ne_panic (rv : TypeMap) : ∀ (linked : List Shard), verifyLinkedLoop rv linked ≠ .panic
  | [] => by simp [verifyLinkedLoop]
  | s :: rest => by
    unfold verifyLinkedLoop
    split
    · simp
    · split
      · simp
      · exact verifyLinkedLoop_ne_panic rv rest

end GaeaVerif.C10
