import GaeaVerif.Lemmas.LexC17Basic
/-
  Helper lemmas for C17: what each token function of the scanner consumes on
  the rendering of a lexical item.
-/
namespace GaeaVerif.LexC17
open GaeaVerif

/-- All of the first `k` bytes are ≥ 0x80. -/
def HighPrefix (l : Bytes) (k : Nat) : Prop := ∀ i, i < k → 0x80 ≤ (l.getD i 0).toNat

theorem highPrefix_le (body rest : Bytes) (q : UInt8) (hq : q.toNat < 0x80) (k : Nat)
    (h : HighPrefix (body ++ q :: rest) k) : k ≤ body.length := by
  apply Nat.le_of_not_lt
  intro hlt
  have := h body.length hlt
  simp [List.getD_eq_getElem?_getD] at this
  omega

theorem highPrefix_tail (b : UInt8) (t : Bytes) (k : Nat) (h : HighPrefix (b :: t) (k + 1)) :
    0x80 ≤ b.toNat ∧ HighPrefix t k := by
  refine ⟨by have := h 0 (by omega); simpa using this, ?_⟩
  intro i hi
  have := h (i + 1) (by omega)
  simpa [List.getD_eq_getElem?_getD] using this

theorem highPrefix_append (l r : Bytes) (k : Nat) (hk : k ≤ l.length) (h : HighPrefix (l ++ r) k) : HighPrefix l k := by
  intro i hi
  have := h i hi
  simp only [List.getD_eq_getElem?_getD] at this ⊢
  rw [List.getElem?_append_left (by omega)] at this
  exact this

/-- The shape of `peek` on a non-empty input. -/
theorem peek_span (b : UInt8) (t : Bytes) :
    (b.toNat < 0x80 ∧ peek (b :: t) = (b.toNat, 1)) ∨
    (0x80 ≤ b.toNat ∧ 0x80 ≤ (peek (b :: t)).1 ∧ 1 ≤ (peek (b :: t)).2 ∧
      (peek (b :: t)).2 ≤ (b :: t).length ∧ HighPrefix (b :: t) (peek (b :: t)).2) := by
  by_cases hb : b.toNat < 0x80
  · left; exact ⟨hb, peek_ascii b t hb⟩
  · right
    obtain ⟨h1, h2, h3, h4⟩ := peek_high b t hb
    exact ⟨by omega, h1, h2, h3, h4⟩

theorem peek_ne_of_head (rest : Bytes) (q : UInt8) (hq : q.toNat < 0x80) (h : rest.head? ≠ some q) :
    (peek rest).1 ≠ q.toNat := by
  cases rest with
  | nil => intro e; simp [peek, runeError] at e; omega
  | cons r t =>
    rcases peek_span r t with ⟨h1, h2⟩ | ⟨h1, h2, _⟩
    · rw [h2]
      simp only [List.head?_cons, ne_eq, Option.some.injEq] at h
      intro e
      exact h (UInt8.toNat_inj.mp e)
    · intro e; rw [e] at h2; omega

/-- Dropping a rune's width from `l ++ q :: rest` when the rune lies inside `l`. -/
theorem drop_in_body (l rest : Bytes) (q : UInt8) (w : Nat) (hle : w ≤ l.length) :
    (l ++ q :: rest).drop w = l.drop w ++ q :: rest := List.drop_append_of_le_length hle

/-! ### quoted strings -/

theorem ssl_end (e fuel : Nat) (l : Bytes) (hl : l ≠ []) (h1 : (peek l).1 = e)
    (h2 : (peek (l.drop (peek l).2)).1 ≠ e) : scanStringLoop e (fuel + 1) l = (peek l).2 := by
  cases l with
  | nil => exact absurd rfl hl
  | cons b t => simp only [scanStringLoop, h1, if_true, h2, ne_eq, not_false_eq_true]

theorem ssl_doubled (e fuel : Nat) (l : Bytes) (hl : l ≠ []) (h1 : (peek l).1 = e)
    (h2 : (peek (l.drop (peek l).2)).1 = e) :
    scanStringLoop e (fuel + 1) l = (peek l).2 + (peek (l.drop (peek l).2)).2 +
      scanStringLoop e fuel ((l.drop (peek l).2).drop (peek (l.drop (peek l).2)).2) := by
  cases l with
  | nil => exact absurd rfl hl
  | cons b t => simp only [scanStringLoop, h1, if_true, h2, ne_eq, not_true_eq_false, if_false]

theorem ssl_escape (e fuel : Nat) (l : Bytes) (hl : l ≠ []) (h1 : (peek l).1 ≠ e) (h2 : (peek l).1 = 0x5C)
    (h3 : l.drop (peek l).2 ≠ []) :
    scanStringLoop e (fuel + 1) l = (peek l).2 + (peek (l.drop (peek l).2)).2 +
      scanStringLoop e fuel ((l.drop (peek l).2).drop (peek (l.drop (peek l).2)).2) := by
  cases l with
  | nil => exact absurd rfl hl
  | cons b t =>
    have h1' : ¬ (0x5C : Nat) = e := by rw [← h2]; exact h1
    simp only [scanStringLoop, h2, h1', if_false, if_true]
    generalize hr : List.drop (peek (b :: t)).2 (b :: t) = r at *
    cases r with
    | nil => exact absurd rfl h3
    | cons _ _ => rfl

theorem ssl_plain (e fuel : Nat) (l : Bytes) (hl : l ≠ []) (h1 : (peek l).1 ≠ e) (h2 : (peek l).1 ≠ 0x5C) :
    scanStringLoop e (fuel + 1) l = (peek l).2 + scanStringLoop e fuel (l.drop (peek l).2) := by
  cases l with
  | nil => exact absurd rfl hl
  | cons b t => simp only [scanStringLoop, h1, if_false, h2]

theorem strBodyOK_plain (q b : UInt8) (t : Bytes) (hbq : b ≠ q) (hbs : ¬ b.toNat = 0x5C) :
    strBodyOK q (b :: t) = strBodyOK q t := by
  cases t <;> simp [strBodyOK, hbq, hbs]
theorem strBodyOK_dq (q : UInt8) (t : Bytes) (h : strBodyOK q (q :: t) = true) :
    ∃ t', t = q :: t' ∧ strBodyOK q t' = true := by
  cases t with
  | nil => simp [strBodyOK] at h
  | cons b' t' =>
    simp only [strBodyOK, if_true, Bool.and_eq_true, decide_eq_true_eq] at h
    exact ⟨t', by rw [h.1], h.2⟩
theorem strBodyOK_esc (q b : UInt8) (t : Bytes) (hbq : b ≠ q) (hbs : b.toNat = 0x5C) (h : strBodyOK q (b :: t) = true) :
    ∃ c t', t = c :: t' ∧ strBodyOK q t' = true := by
  cases t with
  | nil => simp [strBodyOK, hbq, hbs] at h
  | cons c t' =>
    simp only [strBodyOK, hbq, if_false, hbs, if_true] at h
    exact ⟨c, t', rfl, h⟩

theorem strBodyOK_drop_high (q : UInt8) (hq : q.toNat < 0x80) : ∀ (k : Nat) (l : Bytes),
    strBodyOK q l = true → k ≤ l.length → HighPrefix l k → strBodyOK q (l.drop k) = true := by
  intro k
  induction k with
  | zero => intro l h _ _; simpa using h
  | succ k ih =>
    intro l h hk hp
    cases l with
    | nil => simp at hk
    | cons b t =>
      obtain ⟨hb, ht⟩ := highPrefix_tail b t k hp
      have hbq : b ≠ q := by intro e; rw [e] at hb; omega
      have hbs : ¬ b.toNat = 0x5C := by omega
      rw [strBodyOK_plain q b t hbq hbs] at h
      simp only [List.drop_succ_cons]
      exact ih t h (by simpa using hk) ht

/-- A rune that starts inside `body` (followed by the ASCII byte `q`) and whose
    first byte is not ASCII lies inside `body`; what is left is again a body. -/
theorem high_rune_in_body (q : UInt8) (hq : q.toNat < 0x80) (b : UInt8) (t rest : Bytes)
    (hb : 0x80 ≤ b.toNat) (hok : strBodyOK q t = true) :
    let w := (peek (b :: (t ++ q :: rest))).2
    1 ≤ w ∧ w ≤ (b :: t).length ∧ (b :: (t ++ q :: rest)).drop w = (b :: t).drop w ++ q :: rest ∧
      strBodyOK q ((b :: t).drop w) = true ∧ 0x80 ≤ (peek (b :: (t ++ q :: rest))).1 := by
  intro w
  rcases peek_span b (t ++ q :: rest) with ⟨h1, _⟩ | ⟨_, h2, h3, _, h5⟩
  · omega
  · have e : b :: (t ++ q :: rest) = (b :: t) ++ q :: rest := by simp
    have hle : w ≤ (b :: t).length := highPrefix_le (b :: t) rest q hq w (by rw [← e]; exact h5)
    have hp' : HighPrefix (b :: t) w := highPrefix_append _ _ _ hle (by rw [← e]; exact h5)
    refine ⟨h3, hle, by rw [e]; exact drop_in_body _ _ _ _ hle, ?_, h2⟩
    have hw1 : 1 ≤ w := h3
    obtain ⟨w', hw'⟩ : ∃ w', w = w' + 1 := ⟨w - 1, by omega⟩
    rw [hw'] at hp' hle ⊢
    simp only [List.drop_succ_cons]
    obtain ⟨_, ht⟩ := highPrefix_tail b t w' hp'
    exact strBodyOK_drop_high q hq w' t hok (by simpa using hle) ht

theorem scanStringLoop_body (q : UInt8) (hq : q.toNat = 0x27 ∨ q.toNat = 0x22) :
    ∀ (n : Nat) (body : Bytes), body.length ≤ n → strBodyOK q body = true →
      ∀ (rest : Bytes) (fuel : Nat), rest.head? ≠ some q → body.length + 1 ≤ fuel →
      scanStringLoop q.toNat fuel (body ++ q :: rest) = body.length + 1 := by
  have hq80 : q.toNat < 0x80 := by omega
  intro n
  induction n with
  | zero =>
    intro body hn _ rest fuel hr hf
    have : body = [] := List.length_eq_zero_iff.mp (by omega)
    subst this
    obtain ⟨fuel, rfl⟩ : ∃ f, fuel = f + 1 := ⟨fuel - 1, by simp at hf; omega⟩
    simp only [List.nil_append, List.length_nil, Nat.zero_add]
    rw [ssl_end _ _ _ (by simp) (by rw [peek_ascii q rest hq80])
      (by rw [peek_ascii q rest hq80]; exact peek_ne_of_head rest q hq80 hr)]
    rw [peek_ascii q rest hq80]
  | succ n ih =>
    intro body hn hok rest fuel hr hf
    cases body with
    | nil => exact ih [] (by simp) hok rest fuel hr hf
    | cons b t =>
      obtain ⟨fuel, rfl⟩ : ∃ f, fuel = f + 1 := ⟨fuel - 1, by simp at hf; omega⟩
      simp only [List.length_cons] at hn hf
      simp only [List.cons_append, List.length_cons]
      by_cases hbq : b = q
      · -- doubled quote
        rw [hbq] at hok ⊢
        obtain ⟨t', e, hok'⟩ := strBodyOK_dq q t hok
        subst e
        · simp only [List.cons_append]
          rw [ssl_doubled _ _ _ (by simp) (by rw [peek_ascii q _ hq80])
            (by rw [peek_ascii q _ hq80]; simp only [List.drop_succ_cons, List.drop_zero]; rw [peek_ascii q _ hq80])]
          rw [peek_ascii q _ hq80]
          simp only [List.drop_succ_cons, List.drop_zero]
          rw [peek_ascii q _ hq80]
          simp only [List.drop_succ_cons, List.drop_zero]
          simp only [List.length_cons] at hn hf
          rw [ih t' (by omega) hok' rest fuel hr (by omega)]
          simp only [List.length_cons]; omega
      · by_cases hbs : b.toNat = 0x5C
        · -- backslash escape
          have hb80 : b.toNat < 0x80 := by omega
          obtain ⟨c, t', e, hok2⟩ := strBodyOK_esc q b t hbq hbs hok
          subst e
          · simp only [List.length_cons] at hn hf
            simp only [List.cons_append]
            rw [ssl_escape _ _ _ (by simp) (by rw [peek_ascii b _ hb80]; omega) (by rw [peek_ascii b _ hb80]; exact hbs)
              (by rw [peek_ascii b _ hb80]; simp)]
            rw [peek_ascii b _ hb80]
            simp only [List.drop_succ_cons, List.drop_zero]
            by_cases hc : c.toNat < 0x80
            · rw [peek_ascii c _ hc]
              simp only [List.drop_succ_cons, List.drop_zero]
              rw [ih t' (by omega) hok2 rest fuel hr (by omega)]
              simp only [List.length_cons]; omega
            · obtain ⟨w1, w2, w3, w4, _⟩ := high_rune_in_body q hq80 c t' rest (by omega) hok2
              rw [w3]
              rw [ih _ (by simp only [List.length_drop, List.length_cons] at *; omega) w4 rest fuel hr
                (by simp only [List.length_drop, List.length_cons] at *; omega)]
              simp only [List.length_drop, List.length_cons] at *
              omega
        · -- plain byte
          rw [strBodyOK_plain q b t hbq hbs] at hok
          by_cases hb : b.toNat < 0x80
          · have hne : b.toNat ≠ q.toNat := fun e => hbq (UInt8.toNat_inj.mp e)
            rw [ssl_plain _ _ _ (by simp) (by rw [peek_ascii b _ hb]; exact hne) (by rw [peek_ascii b _ hb]; exact hbs)]
            rw [peek_ascii b _ hb]
            simp only [List.drop_succ_cons, List.drop_zero]
            rw [ih t (by omega) hok rest fuel hr (by omega)]
            omega
          · obtain ⟨w1, w2, w3, w4, w5⟩ := high_rune_in_body q hq80 b t rest (by omega) hok
            rw [ssl_plain _ _ _ (by simp) (by omega) (by omega)]
            rw [w3]
            rw [ih _ (by simp only [List.length_drop, List.length_cons] at *; omega) w4 rest fuel hr
              (by simp only [List.length_drop, List.length_cons] at *; omega)]
            simp only [List.length_drop, List.length_cons] at *
            omega


theorem startString_item (q : UInt8) (hq : q.toNat = 0x27 ∨ q.toNat = 0x22) (body rest : Bytes)
    (hok : strBodyOK q body = true) (hr : rest.head? ≠ some q) :
    startString (q :: body ++ q :: rest) = body.length + 2 := by
  have hq80 : q.toNat < 0x80 := by omega
  simp only [startString, List.cons_append, peek_ascii q _ hq80, List.drop_succ_cons, List.drop_zero]
  rw [scanStringLoop_body q hq body.length body (Nat.le_refl _) hok rest _ hr (by simp)]
  omega

/-! ### a tail that stops a rune walk: end of input or an ASCII byte -/

/-- `tail` is empty or starts with an ASCII byte. -/
def AsciiStop (tail : Bytes) : Prop := tail = [] ∨ ∃ s t, tail = s :: t ∧ s.toNat < 0x80

/-- A rune starting with a non-ASCII byte inside `l`, followed by an `AsciiStop` tail, lies inside `l`. -/
theorem high_rune_in (b : UInt8) (t tail : Bytes) (hb : 0x80 ≤ b.toNat) (ht : AsciiStop tail) :
    let w := (peek (b :: (t ++ tail))).2
    1 ≤ w ∧ w ≤ (b :: t).length ∧ (b :: (t ++ tail)).drop w = (b :: t).drop w ++ tail ∧
      HighPrefix (b :: t) w ∧ 0x80 ≤ (peek (b :: (t ++ tail))).1 := by
  intro w
  have e : b :: (t ++ tail) = (b :: t) ++ tail := by simp
  rcases peek_span b (t ++ tail) with ⟨h1, _⟩ | ⟨_, h2, h3, h4, h5⟩
  · omega
  · have hle : w ≤ (b :: t).length := by
      rcases ht with rfl | ⟨s, t', rfl, hs⟩
      · show (peek (b :: (t ++ []))).2 ≤ (b :: t).length
        simp only [List.append_nil] at h4 ⊢; exact h4
      · exact highPrefix_le (b :: t) t' s hs w (by rw [← e]; exact h5)
    exact ⟨h3, hle, by rw [e]; exact List.drop_append_of_le_length hle,
      highPrefix_append _ _ _ hle (by rw [← e]; exact h5), h2⟩

/-- A rune walk over a body whose ASCII bytes all satisfy `fn`, where `fn`
    accepts every rune ≥ 0x80, up to a tail that stops it. -/
theorem incAsLongAs_body (fn : Nat → Bool) (hhigh : ∀ r, 0x80 ≤ r → fn r = true) :
    ∀ (n : Nat) (body : Bytes), body.length ≤ n → (∀ b ∈ body, b.toNat < 0x80 → fn b.toNat = true) →
      ∀ tail : Bytes, (tail = [] ∨ ∃ s t, tail = s :: t ∧ s.toNat < 0x80 ∧ fn s.toNat = false) →
      incAsLongAs fn (body ++ tail) = body.length := by
  intro n
  induction n with
  | zero =>
    intro body hn _ tail ht
    have : body = [] := List.length_eq_zero_iff.mp (by omega)
    subst this
    rcases ht with rfl | ⟨s, t, rfl, hs, hf⟩
    · simp [incAsLongAs_nil]
    · simp only [List.nil_append, List.length_nil]
      exact incAsLongAs_stop fn _ (by rw [peek_ascii s t hs]; exact hf)
  | succ n ih =>
    intro body hn hb tail ht
    cases body with
    | nil => exact ih [] (by simp) hb tail ht
    | cons b t =>
      have hstop : AsciiStop tail := by
        rcases ht with rfl | ⟨s, t', rfl, hs, _⟩
        · left; rfl
        · right; exact ⟨s, t', rfl, hs⟩
      simp only [List.length_cons] at hn
      by_cases hb80 : b.toNat < 0x80
      · rw [List.cons_append, incAsLongAs_step fn _ (by simp) (by rw [peek_ascii b _ hb80]; exact hb b (by simp) hb80)]
        rw [peek_ascii b _ hb80]
        simp only [List.drop_succ_cons, List.drop_zero]
        rw [ih t (by omega) (fun b' hb' => hb b' (by simp [hb'])) tail ht]
        simp only [List.length_cons]; omega
      · obtain ⟨w1, w2, w3, w4, w5⟩ := high_rune_in b t tail (by omega) hstop
        rw [List.cons_append, incAsLongAs_step fn _ (by simp) (hhigh _ w5), w3]
        rw [ih _ (by simp only [List.length_drop, List.length_cons] at *; omega)
          (fun b' hb' => hb b' (List.mem_of_mem_drop hb')) tail ht]
        simp only [List.length_drop, List.length_cons] at *
        omega

/-! ### back-quoted identifiers -/

theorem bqBodyOK_plain (b : UInt8) (t : Bytes) (hb : ¬ b.toNat = 0x60) : bqBodyOK (b :: t) = bqBodyOK t := by
  cases t <;> simp [bqBodyOK, hb]

theorem bqBodyOK_dq (b : UInt8) (t : Bytes) (hb : b.toNat = 0x60) (h : bqBodyOK (b :: t) = true) :
    ∃ b' t', t = b' :: t' ∧ b'.toNat = 0x60 ∧ bqBodyOK t' = true := by
  cases t with
  | nil => simp [bqBodyOK, hb] at h
  | cons b' t' =>
    simp only [bqBodyOK, hb, if_true, Bool.and_eq_true, decide_eq_true_eq] at h
    exact ⟨b', t', rfl, h.1, h.2⟩

theorem bqBodyOK_drop_high : ∀ (k : Nat) (l : Bytes),
    bqBodyOK l = true → k ≤ l.length → HighPrefix l k → bqBodyOK (l.drop k) = true := by
  intro k
  induction k with
  | zero => intro l h _ _; simpa using h
  | succ k ih =>
    intro l h hk hp
    cases l with
    | nil => simp at hk
    | cons b t =>
      obtain ⟨hb, ht⟩ := highPrefix_tail b t k hp
      rw [bqBodyOK_plain b t (by omega)] at h
      simp only [List.drop_succ_cons]
      exact ih t h (by simpa using hk) ht

theorem ql_end (fuel : Nat) (l : Bytes) (hl : l ≠ []) (h1 : (peek l).1 = 0x60)
    (h2 : (peek (l.drop (peek l).2)).1 ≠ 0x60) : quotedLoop (fuel + 1) l = (peek l).2 := by
  cases l with
  | nil => exact absurd rfl hl
  | cons b t => simp only [quotedLoop, h1, if_true, h2, ne_eq, not_false_eq_true]

theorem ql_doubled (fuel : Nat) (l : Bytes) (hl : l ≠ []) (h1 : (peek l).1 = 0x60)
    (h2 : (peek (l.drop (peek l).2)).1 = 0x60) :
    quotedLoop (fuel + 1) l = (peek l).2 + (peek (l.drop (peek l).2)).2 +
      quotedLoop fuel ((l.drop (peek l).2).drop (peek (l.drop (peek l).2)).2) := by
  cases l with
  | nil => exact absurd rfl hl
  | cons b t => simp only [quotedLoop, h1, if_true, h2, ne_eq, not_true_eq_false, if_false]

theorem ql_plain (fuel : Nat) (l : Bytes) (hl : l ≠ []) (h1 : (peek l).1 ≠ 0x60) :
    quotedLoop (fuel + 1) l = (peek l).2 + quotedLoop fuel (l.drop (peek l).2) := by
  cases l with
  | nil => exact absurd rfl hl
  | cons b t => simp only [quotedLoop, h1, if_false]

def cBq : UInt8 := 0x60

theorem quotedLoop_body : ∀ (n : Nat) (body : Bytes), body.length ≤ n → bqBodyOK body = true →
    ∀ (rest : Bytes) (fuel : Nat), rest.head? ≠ some cBq → body.length + 1 ≤ fuel →
    quotedLoop fuel (body ++ cBq :: rest) = body.length + 1 := by
  have hq80 : cBq.toNat < 0x80 := by decide
  have hqv : cBq.toNat = 0x60 := by decide
  intro n
  induction n with
  | zero =>
    intro body hn _ rest fuel hr hf
    have : body = [] := List.length_eq_zero_iff.mp (by omega)
    subst this
    obtain ⟨fuel, rfl⟩ : ∃ f, fuel = f + 1 := ⟨fuel - 1, by simp at hf; omega⟩
    simp only [List.nil_append, List.length_nil, Nat.zero_add]
    rw [ql_end _ _ (by simp) (by rw [peek_ascii cBq rest hq80]; exact hqv)
      (by rw [peek_ascii cBq rest hq80]; simp only [List.drop_succ_cons, List.drop_zero]
          have := peek_ne_of_head rest cBq hq80 hr; rwa [hqv] at this)]
    rw [peek_ascii cBq rest hq80]
  | succ n ih =>
    intro body hn hok rest fuel hr hf
    cases body with
    | nil => exact ih [] (by simp) hok rest fuel hr hf
    | cons b t =>
      obtain ⟨fuel, rfl⟩ : ∃ f, fuel = f + 1 := ⟨fuel - 1, by simp at hf; omega⟩
      simp only [List.length_cons] at hn hf
      simp only [List.cons_append, List.length_cons]
      by_cases hbq : b.toNat = 0x60
      · have hb80 : b.toNat < 0x80 := by omega
        obtain ⟨b', t', e, hb', hok'⟩ := bqBodyOK_dq b t hbq hok
        subst e
        have hb'80 : b'.toNat < 0x80 := by omega
        simp only [List.cons_append]
        rw [ql_doubled _ _ (by simp) (by rw [peek_ascii b _ hb80]; exact hbq)
          (by rw [peek_ascii b _ hb80]; simp only [List.drop_succ_cons, List.drop_zero]; rw [peek_ascii b' _ hb'80]; exact hb')]
        rw [peek_ascii b _ hb80]
        simp only [List.drop_succ_cons, List.drop_zero]
        rw [peek_ascii b' _ hb'80]
        simp only [List.drop_succ_cons, List.drop_zero]
        simp only [List.length_cons] at hn hf
        rw [ih t' (by omega) hok' rest fuel hr (by omega)]
        simp only [List.length_cons]; omega
      · rw [bqBodyOK_plain b t hbq] at hok
        by_cases hb : b.toNat < 0x80
        · rw [ql_plain _ _ (by simp) (by rw [peek_ascii b _ hb]; exact hbq)]
          rw [peek_ascii b _ hb]
          simp only [List.drop_succ_cons, List.drop_zero]
          rw [ih t (by omega) hok rest fuel hr (by omega)]
          omega
        · obtain ⟨w1, w2, w3, w4, w5⟩ := high_rune_in b t (cBq :: rest) (by omega) (Or.inr ⟨cBq, rest, rfl, hq80⟩)
          rw [ql_plain _ _ (by simp) (by omega), w3]
          have hok2 : bqBodyOK ((b :: t).drop (peek (b :: (t ++ cBq :: rest))).2) = true := by
            obtain ⟨w', hw'⟩ : ∃ w', (peek (b :: (t ++ cBq :: rest))).2 = w' + 1 :=
              ⟨(peek (b :: (t ++ cBq :: rest))).2 - 1, by omega⟩
            rw [hw'] at w4 w2 ⊢
            simp only [List.drop_succ_cons]
            obtain ⟨_, ht⟩ := highPrefix_tail b t w' w4
            exact bqBodyOK_drop_high w' t hok (by simpa using w2) ht
          rw [ih _ (by simp only [List.length_drop, List.length_cons] at *; omega) hok2 rest fuel hr
            (by simp only [List.length_drop, List.length_cons] at *; omega)]
          simp only [List.length_drop, List.length_cons] at *
          omega

theorem scanQuotedIdent_item (body rest : Bytes) (hok : bqBodyOK body = true) (hr : rest.head? ≠ some cBq) :
    scanQuotedIdent (cBq :: body ++ cBq :: rest) = body.length + 2 := by
  simp only [scanQuotedIdent, List.cons_append, List.drop_succ_cons, List.drop_zero]
  rw [quotedLoop_body body.length body (Nat.le_refl _) hok rest _ hr (by simp)]
  omega


/-! ### block comments -/

theorem hasStarSlash_cons2 (a b : UInt8) (t : Bytes) :
    hasStarSlash (a :: b :: t) = ((a.toNat = 0x2A && b.toNat = 0x2F) || hasStarSlash (b :: t)) := rfl

theorem hasStarSlash_tail (a : UInt8) (l : Bytes) (h : hasStarSlash (a :: l) = false) : hasStarSlash l = false := by
  cases l with
  | nil => rfl
  | cons b t => rw [hasStarSlash_cons2] at h; simp only [Bool.or_eq_false_iff] at h; exact h.2

theorem hasStarSlash_drop (k : Nat) : ∀ l : Bytes, hasStarSlash l = false → hasStarSlash (l.drop k) = false := by
  induction k with
  | zero => intro l h; simpa using h
  | succ k ih =>
    intro l h
    cases l with
    | nil => simpa using h
    | cons a t => simp only [List.drop_succ_cons]; exact ih t (hasStarSlash_tail a t h)

theorem cl_end (fuel : Nat) (l : Bytes) (hl : l ≠ []) (h : (peek l).1 = 0x2F) :
    commentLoop (fuel + 1) true l = some (peek l).2 := by
  cases l with
  | nil => exact absurd rfl hl
  | cons b t => simp [commentLoop, h]

theorem cl_step (fuel : Nat) (star : Bool) (l : Bytes) (hl : l ≠ []) (h : ¬ (star = true ∧ (peek l).1 = 0x2F)) :
    commentLoop (fuel + 1) star l =
      (commentLoop fuel (decide ((peek l).1 = 0x2A)) (l.drop (peek l).2)).map ((peek l).2 + ·) := by
  cases l with
  | nil => exact absurd rfl hl
  | cons b t =>
    simp only [commentLoop]
    rw [if_neg]
    simpa using h

def cStar : UInt8 := 0x2A
def cSlash : UInt8 := 0x2F

/-- The comment loop over a body that does not contain `*/` (also not across
    its borders) ends right after the closing `*/`. -/
theorem commentLoop_body : ∀ (n : Nat) (body : Bytes) (star : Bool), body.length ≤ n →
    hasStarSlash ((if star then [cStar] else []) ++ body ++ [cStar]) = false →
    ∀ (rest : Bytes) (fuel : Nat), body.length + 2 ≤ fuel →
    commentLoop fuel star (body ++ cStar :: cSlash :: rest) = some (body.length + 2) := by
  have hs80 : cStar.toNat < 0x80 := by decide
  have hl80 : cSlash.toNat < 0x80 := by decide
  intro n
  induction n with
  | zero =>
    intro body star hn _ rest fuel hf
    have : body = [] := List.length_eq_zero_iff.mp (by omega)
    subst this
    obtain ⟨fuel, rfl⟩ : ∃ f, fuel = f + 2 := ⟨fuel - 2, by simp at hf; omega⟩
    simp only [List.nil_append, List.length_nil, Nat.zero_add]
    rw [cl_step _ _ _ (by simp) (by rw [peek_ascii cStar _ hs80]; intro ⟨_, h⟩; exact absurd h (by decide))]
    rw [peek_ascii cStar _ hs80]
    simp only [List.drop_succ_cons, List.drop_zero]
    have : decide (cStar.toNat = 0x2A) = true := by decide
    rw [this, cl_end _ _ (by simp) (by rw [peek_ascii cSlash _ hl80]; decide), peek_ascii cSlash _ hl80]
    rfl
  | succ n ih =>
    intro body star hn hok rest fuel hf
    cases body with
    | nil => exact ih [] star (by simp) hok rest fuel hf
    | cons b t =>
      obtain ⟨fuel, rfl⟩ : ∃ f, fuel = f + 1 := ⟨fuel - 1, by simp at hf; omega⟩
      simp only [List.length_cons] at hn hf
      simp only [List.cons_append, List.length_cons]
      -- the body itself (with the closing star) holds no `*/`
      have hbody : hasStarSlash (b :: (t ++ [cStar])) = false := by
        cases star with
        | true => simp only [if_true, List.cons_append, List.nil_append] at hok; exact hasStarSlash_tail _ _ hok
        | false => simpa using hok
      by_cases hb : b.toNat < 0x80
      · have hno : ¬ (star = true ∧ (peek (b :: (t ++ cStar :: cSlash :: rest))).1 = 0x2F) := by
          rw [peek_ascii b _ hb]
          intro ⟨h1, h2⟩
          subst h1
          simp only [if_true, List.cons_append, List.nil_append] at hok
          rw [hasStarSlash_cons2] at hok
          simp only [Bool.or_eq_false_iff, Bool.and_eq_false_iff, decide_eq_false_iff_not] at hok
          have : cStar.toNat = 0x2A := by decide
          rcases hok.1 with h | h
          · exact h this
          · exact h h2
        rw [cl_step _ _ _ (by simp) hno, peek_ascii b _ hb]
        simp only [List.drop_succ_cons, List.drop_zero]
        have hok' : hasStarSlash ((if decide (b.toNat = 0x2A) = true then [cStar] else []) ++ t ++ [cStar]) = false := by
          by_cases hbs : b.toNat = 0x2A
          · have : b = cStar := UInt8.toNat_inj.mp (by rw [hbs]; decide)
            subst this
            have e : decide (cStar.toNat = 0x2A) = true := by decide
            rw [e]
            simpa using hbody
          · simp only [hbs, decide_false, Bool.false_eq_true, if_false, List.nil_append]
            exact hasStarSlash_tail _ _ hbody
        rw [ih t _ (by omega) hok' rest fuel (by omega)]
        simp only [Option.map_some]; congr 1; omega
      · obtain ⟨w1, w2, w3, w4, w5⟩ := high_rune_in b t (cStar :: cSlash :: rest) (by omega)
          (Or.inr ⟨cStar, cSlash :: rest, rfl, hs80⟩)
        rw [cl_step _ _ _ (by simp) (by intro ⟨_, h⟩; omega), w3]
        have hd : decide ((peek (b :: (t ++ cStar :: cSlash :: rest))).1 = 0x2A) = false := by
          simp only [decide_eq_false_iff_not]; omega
        rw [hd]
        have hok' : hasStarSlash ((if false = true then [cStar] else []) ++ (b :: t).drop (peek (b :: (t ++ cStar :: cSlash :: rest))).2 ++ [cStar]) = false := by
          simp only [Bool.false_eq_true, if_false, List.nil_append]
          have := hasStarSlash_drop (peek (b :: (t ++ cStar :: cSlash :: rest))).2 _ hbody
          have e : b :: (t ++ [cStar]) = (b :: t) ++ [cStar] := by simp
          rw [e, List.drop_append_of_le_length w2] at this
          exact this
        rw [ih _ false (by simp only [List.length_drop, List.length_cons] at *; omega) hok' rest fuel
          (by simp only [List.length_drop, List.length_cons] at *; omega)]
        simp only [Option.map_some, List.length_drop, List.length_cons] at *
        congr 1; omega

end GaeaVerif.LexC17
