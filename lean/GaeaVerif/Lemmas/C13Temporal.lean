import GaeaVerif.Lemmas.C13Decimal
/-
  C13 helper lemmas: dates, datetimes and times — the model's `time.Parse`
  transliterations on the spellings of the spec, and the spec's binary readers on
  the model's temporal encodings.
-/
namespace GaeaVerif.C13
open GaeaVerif GaeaVerif.BinRow GaeaVerif.BinProto GaeaVerif.LenEnc

theorem allDigits_iff' (s : Bytes) : allDigits s = true ↔ s ≠ [] ∧ s.all isDigit = true := by
  unfold allDigits; cases s <;> simp

theorem two_some (a b : UInt8) (n : Nat) (h : two a b = some n) :
    isDigit a = true ∧ isDigit b = true ∧ n = digVal a * 10 + digVal b ∧ n < 100 := by
  unfold two at h
  split at h
  · rename_i hd
    simp only [Bool.and_eq_true] at hd
    simp only [Option.some.injEq] at h
    have := digVal_lt a hd.1; have := digVal_lt b hd.2
    exact ⟨hd.1, hd.2, h.symm, by omega⟩
  · simp at h

theorem four_some (a b c d : UInt8) (n : Nat) (h : four a b c d = some n) :
    isDigit a = true ∧ isDigit b = true ∧ isDigit c = true ∧ isDigit d = true
      ∧ n = digVal a * 1000 + digVal b * 100 + digVal c * 10 + digVal d ∧ n < 10000 := by
  unfold four at h
  split at h
  · rename_i hd
    simp only [Bool.and_eq_true] at hd
    simp only [Option.some.injEq] at h
    have := digVal_lt a hd.1.1.1; have := digVal_lt b hd.1.1.2; have := digVal_lt c hd.1.2; have := digVal_lt d hd.2
    exact ⟨hd.1.1.1, hd.1.1.2, hd.1.2, hd.2, h.symm, by omega⟩
  · simp at h

theorem getnum_two (a b : UInt8) (rest : Bytes) (fixed : Bool) (ha : isDigit a = true) (hb : isDigit b = true) :
    getnum (a :: b :: rest) fixed = some (digVal a * 10 + digVal b, rest) := by
  simp [getnum, ha, hb]

theorem parseYear4_four (a b c d : UInt8) (rest : Bytes) (y : Nat) (h : four a b c d = some y) :
    parseYear4 (a :: b :: c :: d :: rest) = some (y, rest) := by
  obtain ⟨ha, hb, hc, hd, hy, _⟩ := four_some a b c d y h
  unfold parseYear4
  simp [ha, hb, hc, hd, decVal, hy]
  omega

theorem skipChar_same (c : UInt8) (rest : Bytes) (hc : c ≠ 32) : skipChar (c :: rest) c = some rest := by
  have : (c == 32) = false := by simpa using hc
  simp [skipChar, this]

theorem isDigit_ne_space (c : UInt8) (h : isDigit c = true) : c ≠ 32 := by
  intro e; subst e; simp [isDigit] at h

theorem skipChar_space_digit (c : UInt8) (rest : Bytes) (h : isDigit c = true) :
    skipChar (32 :: c :: rest) 32 = some (c :: rest) := by
  have : (c == 32) = false := by simpa using isDigit_ne_space c h
  simp [skipChar, cutspace, this]

theorem parseYMD_shape (y0 y1 y2 y3 m0 m1 d0 d1 : UInt8) (rest : Bytes) (y m d : Nat)
    (hy : four y0 y1 y2 y3 = some y) (hm : two m0 m1 = some m) (hd : two d0 d1 = some d) :
    parseYMD (y0 :: y1 :: y2 :: y3 :: 45 :: m0 :: m1 :: 45 :: d0 :: d1 :: rest)
      = if m = 0 ∨ m > 12 then none else some (y, m, d, rest) := by
  obtain ⟨hm0, hm1, hmv, _⟩ := two_some _ _ _ hm
  obtain ⟨hd0, hd1, hdv, _⟩ := two_some _ _ _ hd
  unfold parseYMD
  rw [parseYear4_four _ _ _ _ _ _ hy]
  simp only [skipChar_same 45 _ (by decide), getnum_two _ _ _ _ hm0 hm1, getnum_two _ _ _ _ hd0 hd1, ← hmv, ← hdv]

theorem fracText_some (frac : Bytes) (us : Nat) (h : fracText frac = some us) :
    (frac = [] ∧ us = 0) ∨ (∃ ds, frac = 46 :: ds ∧ ds ≠ [] ∧ ds.all isDigit = true ∧ ds.length ≤ 6
      ∧ us = decVal ds * 10 ^ (6 - ds.length)) := by
  unfold fracText at h
  split at h
  · left; simp at h; exact ⟨rfl, h.symm⟩
  · right
    rename_i ds
    split at h
    · rename_i hc
      simp only [Bool.and_eq_true, decide_eq_true_eq] at hc
      have := (allDigits_iff' ds).1 hc.1
      simp only [Option.some.injEq] at h
      exact ⟨ds, rfl, this.1, this.2, hc.2, h.symm⟩
    · simp at h
  · simp at h

theorem takeWhile_all (p : UInt8 → Bool) (s : Bytes) (h : s.all p = true) : s.takeWhile p = s := by
  induction s with
  | nil => rfl
  | cons c cs ih =>
    simp only [List.all_cons, Bool.and_eq_true] at h
    simp [h.1, ih h.2]

theorem parseSecFrac_shape (s0 s1 : UInt8) (frac : Bytes) (sec us : Nat)
    (hs : two s0 s1 = some sec) (hlt : sec < 60) (hf : fracText frac = some us) :
    parseSecFrac (s0 :: s1 :: frac) = some (sec, us * 1000, []) ∧ us < 1000000 := by
  obtain ⟨h0, h1, hv, _⟩ := two_some _ _ _ hs
  unfold parseSecFrac
  rw [getnum_two _ _ _ _ h0 h1, ← hv]
  simp only [if_neg (show ¬ sec ≥ 60 by omega)]
  rcases fracText_some frac us hf with ⟨hnil, hus⟩ | ⟨ds, hfr, hne, hd, hlen, hus⟩
  · subst hnil; subst hus; simp
  · subst hfr
    cases ds with
    | nil => exact absurd rfl hne
    | cons d ds' =>
      have hd' := hd
      simp only [List.all_cons, Bool.and_eq_true] at hd
      have htw : ((46 : UInt8) :: d :: ds').drop 1 = d :: ds' := rfl
      simp only [show ((46 : UInt8) == 46) = true from rfl, Bool.true_or, hd.1, Bool.and_self, if_true, htw,
        takeWhile_all _ _ hd']
      have hlen' : (d :: ds').length ≤ 9 := by omega
      rw [List.take_of_length_le hlen']
      have hdl : ((46 : UInt8) :: d :: ds').drop (1 + (d :: ds').length) = [] := by
        apply List.drop_of_length_le; simp; omega
      rw [hdl]
      have hval := decVal_lt (d :: ds') hd'
      generalize hL : (d :: ds').length = L at *
      generalize decVal (d :: ds') = V at *
      subst hus
      have hp : (10 : Nat) ^ (9 - L) = 10 ^ (6 - L) * 1000 := by
        have : 9 - L = (6 - L) + 3 := by omega
        rw [this, Nat.pow_add]
      refine ⟨by rw [hp, Nat.mul_assoc], ?_⟩
      have : V * 10 ^ (6 - L) < 10 ^ L * 10 ^ (6 - L) := Nat.mul_lt_mul_of_pos_right hval (Nat.pow_pos (by decide))
      rw [← Nat.pow_add, show L + (6 - L) = 6 by omega] at this
      exact this

theorem parseClock_shape (hs : Bytes) (h : Nat) (i0 i1 s0 s1 : UInt8) (frac : Bytes) (mi sec us : Nat)
    (hget : ∀ X, getnum (hs ++ 58 :: X) false = some (h, 58 :: X)) (hh : h < 24)
    (hi : two i0 i1 = some mi) (hmi : mi < 60) (hsec : two s0 s1 = some sec) (hs60 : sec < 60)
    (hf : fracText frac = some us) :
    parseClock (hs ++ 58 :: i0 :: i1 :: 58 :: s0 :: s1 :: frac) = some (h, mi, sec, us * 1000) := by
  obtain ⟨hi0, hi1, hiv, _⟩ := two_some _ _ _ hi
  unfold parseClock
  rw [hget]
  simp only [if_neg (show ¬ h ≥ 24 by omega), skipChar_same 58 _ (by decide), getnum_two _ _ _ _ hi0 hi1, ← hiv,
    if_neg (show ¬ mi ≥ 60 by omega), (parseSecFrac_shape s0 s1 frac sec us hsec hs60 hf).1]
  rfl

theorem getnum_itoa (h : Nat) (hh : h < 24) (X : Bytes) :
    getnum (intToDec (h : Int) ++ 58 :: X) false = some (h, 58 :: X) := by
  have : h = 0 ∨ h = 1 ∨ h = 2 ∨ h = 3 ∨ h = 4 ∨ h = 5 ∨ h = 6 ∨ h = 7 ∨ h = 8 ∨ h = 9 ∨ h = 10 ∨ h = 11
      ∨ h = 12 ∨ h = 13 ∨ h = 14 ∨ h = 15 ∨ h = 16 ∨ h = 17 ∨ h = 18 ∨ h = 19 ∨ h = 20 ∨ h = 21 ∨ h = 22 ∨ h = 23 := by omega
  rcases this with e | e | e | e | e | e | e | e | e | e | e | e | e | e | e | e | e | e | e | e | e | e | e | e <;>
    subst e <;> rfl

theorem dateText_some (cell : Bytes) (dv : Val) (h : dateText cell = some dv) :
    ∃ y0 y1 y2 y3 m0 m1 d0 d1 y m d, cell = [y0, y1, y2, y3, 45, m0, m1, 45, d0, d1]
      ∧ four y0 y1 y2 y3 = some y ∧ two m0 m1 = some m ∧ two d0 d1 = some d ∧ m ≤ 12 ∧ d ≤ 31
      ∧ dv = .dt y m d 0 0 0 0 := by
  unfold dateText at h
  split at h
  · rename_i y0 y1 y2 y3 m0 m1 d0 d1
    split at h
    · rename_i y m d hy hm hd
      split at h
      · rename_i hr
        simp only [Option.some.injEq] at h
        exact ⟨y0, y1, y2, y3, m0, m1, d0, d1, y, m, d, rfl, hy, hm, hd, hr.1, hr.2, h.symm⟩
      · simp at h
    · simp at h
  · simp at h

theorem splitTextDate_shape (y0 y1 y2 y3 m0 m1 d0 d1 : UInt8) (y m d : Nat)
    (hy : four y0 y1 y2 y3 = some y) (hm : two m0 m1 = some m) (hd : two d0 d1 = some d) :
    splitTextDate [y0, y1, y2, y3, 45, m0, m1, 45, d0, d1] = some (y, m, d) := by
  obtain ⟨a, b, c, e, hyv, _⟩ := four_some _ _ _ _ _ hy
  obtain ⟨hm0, hm1, hmv, _⟩ := two_some _ _ _ hm
  obtain ⟨hd0, hd1, hdv, _⟩ := two_some _ _ _ hd
  simp [splitTextDate, a, b, c, e, hm0, hm1, hd0, hd1, hyv, hmv, hdv]

theorem decodeDate4 (y m d : Nat) (rest : Bytes) (hy : y < 65536) (hm : m < 256) (hd : d < 256) :
    decodeDate ([4] ++ leBytes y 2 ++ [UInt8.ofNat m, UInt8.ofNat d] ++ rest) = some (.dt y m d 0 0 0 0, rest) := by
  have hl := GaeaVerif.C12.leNat_leBytes 2 y (by omega)
  simp only [leBytes] at hl ⊢
  simp only [List.cons_append, List.nil_append, decodeDate, hl,
    GaeaVerif.C12.ofNat_toNat m hm, GaeaVerif.C12.ofNat_toNat d hd]

theorem date_enc_dec (cell rest : Bytes) (dv : Val) (h : dateText cell = some dv) :
    decodeDate (dateBytes cell ++ rest) = some (dv, rest) := by
  obtain ⟨y0, y1, y2, y3, m0, m1, d0, d1, y, m, d, hc, hy, hm, hd, hm12, hd31, hdv⟩ := dateText_some cell dv h
  subst hc; subst hdv
  have hylt := (four_some _ _ _ _ _ hy).2.2.2.2.2
  have hpy := parseYMD_shape y0 y1 y2 y3 m0 m1 d0 d1 [] y m d hy hm hd
  have hsp := splitTextDate_shape y0 y1 y2 y3 m0 m1 d0 d1 y m d hy hm hd
  have h4 := decodeDate4 y m d rest (by omega) (by omega) (by omega)
  unfold dateBytes parseDate
  rw [hpy, hsp]
  by_cases hmr : m = 0 ∨ m > 12
  · simp only [if_pos hmr]
    by_cases hz : y ≠ 0 ∨ m ≠ 0 ∨ d ≠ 0
    · simp only [if_pos hz]; exact h4
    · simp only [if_neg hz]
      have : y = 0 ∧ m = 0 ∧ d = 0 := by omega
      obtain ⟨e1, e2, e3⟩ := this; subst e1; subst e2; subst e3
      rfl
  · simp only [if_neg hmr, List.isEmpty_nil, Bool.not_true, Bool.false_eq_true, if_false]
    by_cases hdr : d < 1 ∨ d > daysIn m y
    · simp only [if_pos hdr]
      by_cases hz : y ≠ 0 ∨ m ≠ 0 ∨ d ≠ 0
      · simp only [if_pos hz]; exact h4
      · omega
    · simp only [if_neg hdr]; exact h4

theorem datetimeText_some (cell : Bytes) (dv : Val) (h : datetimeText cell = some dv) :
    ∃ y0 y1 y2 y3 m0 m1 d0 d1 h0 h1 i0 i1 s0 s1 frac y m d hh mi sec us,
      cell = y0 :: y1 :: y2 :: y3 :: 45 :: m0 :: m1 :: 45 :: d0 :: d1 :: 32 :: h0 :: h1 :: 58 :: i0 :: i1 :: 58 :: s0 :: s1 :: frac
      ∧ four y0 y1 y2 y3 = some y ∧ two m0 m1 = some m ∧ two d0 d1 = some d ∧ two h0 h1 = some hh
      ∧ two i0 i1 = some mi ∧ two s0 s1 = some sec ∧ fracText frac = some us
      ∧ m ≤ 12 ∧ d ≤ 31 ∧ hh < 24 ∧ mi < 60 ∧ sec < 60 ∧ dv = .dt y m d hh mi sec us := by
  unfold datetimeText at h
  split at h
  · rename_i y0 y1 y2 y3 m0 m1 d0 d1 h0 h1 i0 i1 s0 s1 frac
    split at h
    · rename_i y m d hh mi sec us hy hm hd hhh hmi hsec hus
      split at h
      · rename_i hr
        simp only [Option.some.injEq] at h
        exact ⟨y0, y1, y2, y3, m0, m1, d0, d1, h0, h1, i0, i1, s0, s1, frac, y, m, d, hh, mi, sec, us, rfl,
          hy, hm, hd, hhh, hmi, hsec, hus, hr.1, hr.2.1, hr.2.2.1, hr.2.2.2.1, hr.2.2.2.2, h.symm⟩
      · simp at h
    · simp at h
  · simp at h

theorem decodeDate11 (y m d h mi s us : Nat) (rest : Bytes) (hy : y < 65536) (hm : m < 256) (hd : d < 256)
    (hh : h < 256) (hmi : mi < 256) (hs : s < 256) (hus : us < 4294967296) :
    decodeDate ([11] ++ leBytes y 2 ++ [UInt8.ofNat m, UInt8.ofNat d, UInt8.ofNat h, UInt8.ofNat mi, UInt8.ofNat s]
        ++ leBytes us 4 ++ rest) = some (.dt y m d h mi s us, rest) := by
  have hl := GaeaVerif.C12.leNat_leBytes 2 y (by omega)
  have hl4 := GaeaVerif.C12.leNat_leBytes 4 us (by omega)
  simp only [leBytes] at hl hl4 ⊢
  simp only [List.cons_append, List.nil_append, decodeDate, hl, hl4,
    GaeaVerif.C12.ofNat_toNat m hm, GaeaVerif.C12.ofNat_toNat d hd, GaeaVerif.C12.ofNat_toNat h hh,
    GaeaVerif.C12.ofNat_toNat mi hmi, GaeaVerif.C12.ofNat_toNat s hs]

theorem splitTextDatetime_shape (y0 y1 y2 y3 m0 m1 d0 d1 h0 h1 i0 i1 s0 s1 : UInt8) (frac : Bytes)
    (y m d hh mi sec us : Nat)
    (hy : four y0 y1 y2 y3 = some y) (hm : two m0 m1 = some m) (hd : two d0 d1 = some d)
    (hhh : two h0 h1 = some hh) (hmi : two i0 i1 = some mi) (hsec : two s0 s1 = some sec)
    (hus : fracText frac = some us) (hh24 : hh < 24) (hmi60 : mi < 60) (hs60 : sec < 60) :
    splitTextDatetime (y0 :: y1 :: y2 :: y3 :: 45 :: m0 :: m1 :: 45 :: d0 :: d1 :: 32 :: h0 :: h1 :: 58 :: i0 :: i1 :: 58 :: s0 :: s1 :: frac)
      = some (y, m, d, hh, mi, sec, us) := by
  obtain ⟨hh0, hh1, hhv, _⟩ := two_some _ _ _ hhh
  obtain ⟨hi0, hi1, hiv, _⟩ := two_some _ _ _ hmi
  obtain ⟨hs0, hs1, hsv, _⟩ := two_some _ _ _ hsec
  have hsp := splitTextDate_shape y0 y1 y2 y3 m0 m1 d0 d1 y m d hy hm hd
  unfold splitTextDatetime
  simp only [hsp, bne_self_eq_false, Bool.or_self, Bool.false_eq_true, if_false, hh0, hh1, hi0, hi1, hs0, hs1,
    Bool.and_self, Bool.not_true, ← hhv, ← hiv, ← hsv]
  rw [if_neg (by omega)]
  rcases fracText_some frac us hus with ⟨hnil, hus0⟩ | ⟨ds, hfr, hne, hdg, hlen, husv⟩
  · subst hnil; subst hus0; rfl
  · subst hfr
    have hl1 : ¬ ds.length < 1 := by
      cases ds with
      | nil => exact absurd rfl hne
      | cons _ _ => simp
    simp only [bne_self_eq_false, Bool.false_or, Bool.or_eq_true, decide_eq_true_eq, hdg, Bool.not_true,
      Bool.false_eq_true, if_false, husv]
    rw [if_neg (by omega)]

/-- What `AppendBinaryValue` builds for a DATETIME / TIMESTAMP text made of
    digits in the right places and a time of day: never an error. -/
theorem datetimeBytes_digits (y0 y1 y2 y3 m0 m1 d0 d1 h0 h1 i0 i1 s0 s1 : UInt8) (frac : Bytes)
    (y m d hh mi sec us : Nat)
    (hy : four y0 y1 y2 y3 = some y) (hm : two m0 m1 = some m) (hd : two d0 d1 = some d)
    (hhh : two h0 h1 = some hh) (hmi : two i0 i1 = some mi) (hsec : two s0 s1 = some sec)
    (hus : fracText frac = some us) (hh24 : hh < 24) (hmi60 : mi < 60) (hs60 : sec < 60) :
    datetimeBytes (y0 :: y1 :: y2 :: y3 :: 45 :: m0 :: m1 :: 45 :: d0 :: d1 :: 32 :: h0 :: h1 :: 58 :: i0 :: i1 :: 58 :: s0 :: s1 :: frac)
      = .ok (if y = 0 ∧ m = 0 ∧ d = 0 ∧ hh = 0 ∧ mi = 0 ∧ sec = 0 ∧ us = 0 then [0]
      else [11] ++ leBytes y 2 ++ [UInt8.ofNat m, UInt8.ofNat d, UInt8.ofNat hh, UInt8.ofNat mi, UInt8.ofNat sec]
            ++ leBytes us 4) := by
  have hsplit := splitTextDatetime_shape y0 y1 y2 y3 m0 m1 d0 d1 h0 h1 i0 i1 s0 s1 frac y m d hh mi sec us
    hy hm hd hhh hmi hsec hus hh24 hmi60 hs60
  unfold datetimeBytes
  split
  · rename_i hz
    -- the text is "0000-00-00 00:00:00": all numbers are zero
    have hz' := hz
    unfold zeroDatetimeText at hz'
    simp only [List.cons.injEq] at hz'
    obtain ⟨e0, e1, e2, e3, -, e4, e5, -, e6, e7, -, e8, e9, -, e10, e11, -, e12, e13, e14⟩ := hz'
    subst e0 e1 e2 e3 e4 e5 e6 e7 e8 e9 e10 e11 e12 e13 e14
    simp only [four, two, fracText, isDigit, digVal] at hy hm hd hhh hmi hsec hus
    simp at hy hm hd hhh hmi hsec hus
    subst hy hm hd hhh hmi hsec hus
    rfl
  · obtain ⟨hh0, hh1, hhv, _⟩ := two_some _ _ _ hhh
    have hpy := parseYMD_shape y0 y1 y2 y3 m0 m1 d0 d1
      (32 :: h0 :: h1 :: 58 :: i0 :: i1 :: 58 :: s0 :: s1 :: frac) y m d hy hm hd
    have hclk := parseClock_shape [h0, h1] hh i0 i1 s0 s1 frac mi sec us
      (by intro X; rw [hhv]; exact getnum_two _ _ _ _ hh0 hh1) hh24 hmi hmi60 hsec hs60 hus
    simp only [List.cons_append, List.nil_append] at hclk
    unfold parseDateTime
    rw [hpy, hsplit]
    by_cases hmr : m = 0 ∨ m > 12
    · simp only [if_pos hmr, Option.filter_none]
      split <;> rfl
    · simp only [if_neg hmr, skipChar_space_digit _ _ hh0, hclk]
      by_cases hdr : d < 1 ∨ d > daysIn m y
      · simp only [if_pos hdr, Option.filter_none]
        split <;> rfl
      · simp only [if_neg hdr]
        rw [Option.filter_eq_some_iff.2 ⟨rfl, by simp [Nat.mul_mod_left]⟩]
        simp only
        rw [Nat.mul_div_cancel _ (by decide : 0 < 1000), if_neg (by omega)]

/-- What `AppendBinaryValue` builds for a DATETIME / TIMESTAMP text of the
    spec's shape: never an error. -/
theorem datetimeBytes_shape (cell : Bytes) (y m d hh mi sec us : Nat)
    (h : datetimeText cell = some (.dt y m d hh mi sec us)) :
    datetimeBytes cell = .ok (if y = 0 ∧ m = 0 ∧ d = 0 ∧ hh = 0 ∧ mi = 0 ∧ sec = 0 ∧ us = 0 then [0]
      else [11] ++ leBytes y 2 ++ [UInt8.ofNat m, UInt8.ofNat d, UInt8.ofNat hh, UInt8.ofNat mi, UInt8.ofNat sec]
            ++ leBytes us 4) := by
  obtain ⟨y0, y1, y2, y3, m0, m1, d0, d1, h0, h1, i0, i1, s0, s1, frac, y', m', d', hh', mi', sec', us', hc,
    hy, hm, hd, hhh, hmi, hsec, hus, hm12, hd31, hh24, hmi60, hs60, hdv⟩ := datetimeText_some cell _ h
  cases hdv
  subst hc
  exact datetimeBytes_digits y0 y1 y2 y3 m0 m1 d0 d1 h0 h1 i0 i1 s0 s1 frac y m d hh mi sec us
    hy hm hd hhh hmi hsec hus hh24 hmi60 hs60

theorem datetime_enc_dec (cell rest b : Bytes) (dv : Val) (h : datetimeText cell = some dv)
    (hb : datetimeBytes cell = .ok b) : decodeDate (b ++ rest) = some (dv, rest) := by
  obtain ⟨y0, y1, y2, y3, m0, m1, d0, d1, h0, h1, i0, i1, s0, s1, frac, y, m, d, hh, mi, sec, us, hc,
    hy, hm, hd, hhh, hmi, hsec, hus, hm12, hd31, hh24, hmi60, hs60, hdv⟩ := datetimeText_some cell dv h
  subst hdv
  have hylt := (four_some _ _ _ _ _ hy).2.2.2.2.2
  have huslt := (parseSecFrac_shape s0 s1 frac sec us hsec hs60 hus).2
  rw [datetimeBytes_shape cell y m d hh mi sec us h] at hb
  simp only [Res.ok.injEq] at hb
  subst hb
  by_cases hz : y = 0 ∧ m = 0 ∧ d = 0 ∧ hh = 0 ∧ mi = 0 ∧ sec = 0 ∧ us = 0
  · rw [if_pos hz]
    obtain ⟨e1, e2, e3, e4, e5, e6, e7⟩ := hz
    subst e1; subst e2; subst e3; subst e4; subst e5; subst e6; subst e7
    rfl
  · rw [if_neg hz]
    exact decodeDate11 y m d hh mi sec us rest (by omega) (by omega) (by omega) (by omega) (by omega) (by omega) (by omega)

theorem splitColon_some (s i f : Bytes) (h : splitColon s = some (i, f)) :
    s = i ++ 58 :: f := by
  induction s generalizing i with
  | nil => simp [splitColon] at h
  | cons c cs ih =>
    simp only [splitColon] at h
    split at h
    · rename_i hc; subst hc; simp at h; obtain ⟨h1, h2⟩ := h; subst h1; subst h2; rfl
    · cases hs : splitColon cs with
      | none => simp [hs] at h
      | some p =>
        obtain ⟨a, b⟩ := p
        simp [hs] at h
        obtain ⟨h1, h2⟩ := h; subst h1; subst h2
        rw [ih a hs]; rfl

theorem timeText_some (cell : Bytes) (dv : Val) (h : timeText cell = some dv) :
    ∃ (neg : Bool) (hs : Bytes) (i0 i1 s0 s1 : UInt8) (frac : Bytes) (mi sec us : Nat),
      cell = (if neg then [45] else []) ++ (hs ++ 58 :: i0 :: i1 :: 58 :: s0 :: s1 :: frac)
      ∧ hs ≠ [] ∧ hs.all isDigit = true ∧ decVal hs ≤ 838
      ∧ two i0 i1 = some mi ∧ two s0 s1 = some sec ∧ fracText frac = some us ∧ mi < 60 ∧ sec < 60
      ∧ dv = .time (if neg then -((((decVal hs * 60 + mi) * 60 + sec) * 1000000 + us : Nat) : Int)
                    else ((((decVal hs * 60 + mi) * 60 + sec) * 1000000 + us : Nat) : Int)) := by
  have hdef : timeText cell =
      (match splitColon (if (cell.head? == some 45) = true then cell.drop 1 else cell) with
      | some (hs, i0 :: i1 :: 58 :: s0 :: s1 :: frac) =>
        match two i0 i1, two s0 s1, fracText frac with
        | some mi, some sec, some us =>
          if allDigits hs ∧ decVal hs ≤ 838 ∧ mi < 60 ∧ sec < 60 then
            some (.time (if (cell.head? == some 45) = true then -((((decVal hs * 60 + mi) * 60 + sec) * 1000000 + us : Nat) : Int)
              else ((((decVal hs * 60 + mi) * 60 + sec) * 1000000 + us : Nat) : Int)))
          else none
        | _, _, _ => none
      | _ => none) := rfl
  rw [hdef] at h
  generalize hneg : (cell.head? == some 45) = neg at h
  have hcell : cell = (if neg then [45] else []) ++ (if neg then cell.drop 1 else cell) := by
    cases neg with
    | false => simp
    | true =>
      cases cell with
      | nil => simp at hneg
      | cons c cs => simp at hneg; subst hneg; simp
  generalize hbody : (if neg = true then cell.drop 1 else cell) = body at h hcell
  split at h
  · rename_i hs i0 i1 s0 s1 frac hsc
    split at h
    · rename_i mi sec us hmi hsec hus
      split at h
      · rename_i hr
        simp only [Option.some.injEq] at h
        have had := (allDigits_iff _).1 hr.1
        refine ⟨neg, hs, i0, i1, s0, s1, frac, mi, sec, us, ?_, had.1, had.2, hr.2.1, hmi, hsec, hus, hr.2.2.1, hr.2.2.2, h.symm⟩
        rw [← splitColon_some _ _ _ hsc]; exact hcell
      · simp at h
    · simp at h
  · simp at h

theorem digit_ne_colon (c : UInt8) (h : isDigit c = true) : (c == 58) = false := by
  simp only [beq_eq_false_iff_ne, ne_eq]; intro e; subst e; simp [isDigit] at h

theorem stringToMysqlTime_shape (neg : Bool) (hs : Bytes) (i0 i1 s0 s1 : UInt8) (frac : Bytes) (mi sec us : Nat)
    (hne : hs ≠ []) (hd : hs.all isDigit = true) (hH : decVal hs ≤ 838)
    (hmi : two i0 i1 = some mi) (hsec : two s0 s1 = some sec) (hus : fracText frac = some us)
    (hmi60 : mi < 60) (hs60 : sec < 60) :
    stringToMysqlTime ((if neg then [45] else []) ++ (hs ++ 58 :: i0 :: i1 :: 58 :: s0 :: s1 :: frac))
      = some { isNegative := neg, day := ((decVal hs / 24 : Nat) : Int), hour := ((decVal hs % 24 : Nat) : Int),
               minute := (mi : Int), second := (sec : Int), microsecond := (us : Int) } := by
  have hsgn : ∀ c ∈ (if neg then [45] else [] : Bytes), (c == 58) = false := by cases neg <;> simp
  have hhs : ∀ c ∈ hs, (c == 58) = false := fun c hc => digit_ne_colon c ((List.all_eq_true.1 hd) c hc)
  have hpi := parseInt_shape neg hs hne hd (by omega)
  have hhead : (((if neg then [45] else [] : Bytes) ++ hs).head? == some 45) = neg := by
    cases neg with
    | true => rfl
    | false =>
      have := head_digit_ne_minus hs hne hd
      simpa using this
  generalize hsg : (if neg = true then [45] else [] : Bytes) = sgn at *
  have hidx : findIdx (· == 58) (sgn ++ (hs ++ 58 :: i0 :: i1 :: 58 :: s0 :: s1 :: frac)) = some (sgn.length + hs.length) := by
    rw [findIdx_append_not _ _ _ hsgn, findIdx_append_not _ _ _ hhs]
    simp [findIdx]; omega
  have htake : (sgn ++ (hs ++ 58 :: i0 :: i1 :: 58 :: s0 :: s1 :: frac)).take (sgn.length + hs.length) = sgn ++ hs := by
    rw [← List.append_assoc, List.take_left' (by simp)]
  have hdrop : (sgn ++ (hs ++ 58 :: i0 :: i1 :: 58 :: s0 :: s1 :: frac)).drop (sgn.length + hs.length + 1)
      = i0 :: i1 :: 58 :: s0 :: s1 :: frac := by
    rw [← List.append_assoc, show sgn ++ hs ++ 58 :: i0 :: i1 :: 58 :: s0 :: s1 :: frac
      = (sgn ++ hs ++ [58]) ++ (i0 :: i1 :: 58 :: s0 :: s1 :: frac) from by simp]
    rw [List.drop_left' (by simp; omega)]
  generalize hHd : decVal hs = H at *
  have hhour : (if neg = true then hackAbs (if neg = true then -(H : Int) else (H : Int)) else (if neg = true then -(H : Int) else (H : Int))) = (H : Int) := by
    cases neg with
    | false => rfl
    | true =>
      simp only [if_true]
      unfold hackAbs
      rw [if_neg (by omega)]
      omega
  have hclk := parseClock_shape (intToDec ((H % 24 : Nat) : Int)) (H % 24) i0 i1 s0 s1 frac mi sec us
    (getnum_itoa (H % 24) (by omega)) (by omega) hmi hmi60 hsec hs60 hus
  unfold stringToMysqlTime
  simp only [hidx, htake, hdrop, hpi, hhead, hhour]
  have htm : Int.tmod (H : Int) 24 = ((H % 24 : Nat) : Int) := by
    rw [Int.tmod_eq_emod_of_nonneg (by omega)]; omega
  have htd : Int.tdiv (H : Int) 24 = ((H / 24 : Nat) : Int) := by
    rw [Int.tdiv_eq_ediv_of_nonneg (by omega)]; omega
  rw [htm, htd]
  rw [show intToDec ((H % 24 : Nat) : Int) ++ [58] ++ (i0 :: i1 :: 58 :: s0 :: s1 :: frac)
      = intToDec ((H % 24 : Nat) : Int) ++ 58 :: i0 :: i1 :: 58 :: s0 :: s1 :: frac from by simp]
  rw [hclk]
  simp

theorem toU32_nat (n : Nat) (h : n < 4294967296) : toU32 (n : Int) = n := by
  unfold toU32; omega

theorem toU8_nat (n : Nat) (h : n < 256) : (toU8 (n : Int)).toNat = n := by
  unfold toU8
  have : ((n : Int) % 256).toNat = n := by omega
  rw [this]; exact GaeaVerif.C12.ofNat_toNat n h

theorem time_bin (neg : Bool) (H mi sec us : Nat) (rest : Bytes) (hH : H ≤ 838) (hmi : mi < 60) (hsec : sec < 60)
    (hus : us < 1000000) :
    decodeTime (mysqlTimeToBinaryResult
        { isNegative := neg, day := ((H / 24 : Nat) : Int), hour := ((H % 24 : Nat) : Int),
          minute := (mi : Int), second := (sec : Int), microsecond := (us : Int) } ++ rest)
      = some (.time (if neg then -((((H * 60 + mi) * 60 + sec) * 1000000 + us : Nat) : Int)
                    else ((((H * 60 + mi) * 60 + sec) * 1000000 + us : Nat) : Int)), rest) := by
  unfold mysqlTimeToBinaryResult
  simp only
  by_cases hz : ((H / 24 : Nat) : Int) = 0 ∧ ((H % 24 : Nat) : Int) = 0 ∧ (mi : Int) = 0 ∧ (sec : Int) = 0 ∧ (us : Int) = 0
  · rw [if_pos hz]
    have : H = 0 ∧ mi = 0 ∧ sec = 0 ∧ us = 0 := by omega
    obtain ⟨e1, e2, e3, e4⟩ := this; subst e1; subst e2; subst e3; subst e4
    cases neg <;> rfl
  · rw [if_neg hz]
    have hd := GaeaVerif.C12.leNat_leBytes 4 (H / 24) (by omega)
    have hu := GaeaVerif.C12.leNat_leBytes 4 us (by omega)
    have hHeq : H / 24 * 24 + H % 24 = H := by omega
    have hnb : ((if neg = true then (1 : UInt8) else 0).toNat ≤ 1) := by cases neg <;> decide
    rw [toU32_nat _ (by omega), toU32_nat _ (by omega)]
    simp only [leBytes] at hd hu ⊢
    by_cases hu0 : (us : Int) = 0
    · have hus0 : us = 0 := by omega
      subst hus0
      simp only [hu0, if_true, ne_eq, not_true_eq_false, if_false, List.cons_append, List.nil_append, List.append_nil,
        decodeTime, hd, mkTime, toU8_nat _ (show H % 24 < 256 by omega), toU8_nat _ (show mi < 256 by omega),
        toU8_nat _ (show sec < 256 by omega)]
      rw [if_pos ⟨hnb, by omega, hmi, hsec, by omega⟩, hHeq]
      cases neg <;> rfl
    · simp only [hu0, if_false, ne_eq, not_false_eq_true, if_true, List.cons_append, List.nil_append,
        decodeTime, hd, hu, mkTime, toU8_nat _ (show H % 24 < 256 by omega), toU8_nat _ (show mi < 256 by omega),
        toU8_nat _ (show sec < 256 by omega)]
      rw [if_pos ⟨hnb, by omega, hmi, hsec, hus⟩, hHeq]
      cases neg <;> rfl

theorem time_enc_dec (cell rest b : Bytes) (dv : Val) (h : timeText cell = some dv)
    (hb : durationBytes cell = .ok b) : decodeTime (b ++ rest) = some (dv, rest) := by
  obtain ⟨neg, hs, i0, i1, s0, s1, frac, mi, sec, us, hc, hne, hd, hH, hmi, hsec, hus, hmi60, hs60, hdv⟩ :=
    timeText_some cell dv h
  subst hc; subst hdv
  have huslt := (parseSecFrac_shape s0 s1 frac sec us hsec hs60 hus).2
  unfold durationBytes at hb
  rw [stringToMysqlTime_shape neg hs i0 i1 s0 s1 frac mi sec us hne hd hH hmi hsec hus hmi60 hs60] at hb
  simp only [Res.ok.injEq] at hb
  subst hb
  exact time_bin neg (decVal hs) mi sec us rest hH hmi60 hs60 huslt

end GaeaVerif.C13
