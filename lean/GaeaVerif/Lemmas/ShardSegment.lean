import GaeaVerif.Model.ShardPlace
import GaeaVerif.Spec.Mycat
/-
  The loops of `MycatPartitionLongShard.Init` (shard_mycat.go): for valid
  parameters they run without a panic and fill `segment` so that every slot
  holds the index of the partition whose interval of slots contains it
  (`MycatSpec.segmentOf`).
-/
namespace GaeaVerif.ShardLemmas
open GaeaVerif.ShardGo GaeaVerif.ShardPlace

/-- A list of naturals as Go ints. -/
def ints (l : List Nat) : List Int := l.map fun (n : Nat) => (n : Int)

/-! ### sums -/

def total (l : List Nat) : Nat := l.foldl (· + ·) 0

theorem foldl_add (l : List Nat) (a : Nat) : l.foldl (· + ·) a = a + l.foldl (· + ·) 0 := by
  induction l generalizing a with
  | nil => simp
  | cons b bs ih => simp only [List.foldl_cons]; rw [ih (a + b), ih (0 + b)]; omega

theorem total_nil : total [] = 0 := rfl
theorem total_cons (a : Nat) (l : List Nat) : total (a :: l) = a + total l := by
  unfold total; simp only [List.foldl_cons]; rw [foldl_add]; omega
theorem total_append (a b : List Nat) : total (a ++ b) = total a + total b := by
  induction a with
  | nil => simp [total_nil]
  | cons x xs ih => simp only [List.cons_append, total_cons, ih]; omega
theorem total_replicate (c l : Nat) : total (List.replicate c l) = c * l := by
  induction c with
  | zero => simp [total_nil]
  | succ c ih => rw [List.replicate_succ, total_cons, ih]; rw [Nat.succ_mul]; omega

theorem foldl_addInt (l : List Int) (a : Int) : l.foldl (· + ·) a = a + l.foldl (· + ·) 0 := by
  induction l generalizing a with
  | nil => simp
  | cons b bs ih => simp only [List.foldl_cons]; rw [ih (a + b), ih (0 + b)]; omega

theorem sumInts_map (l : List Nat) : sumInts (ints l) = (total l : Int) := by
  unfold ints
  induction l with
  | nil => rfl
  | cons a as ih =>
    unfold sumInts at ih ⊢
    simp only [List.map_cons, List.foldl_cons]
    rw [foldl_addInt, ih, total_cons]; omega

/-! ### prefix sums: the array `ai` -/

def psums (s : Int) : List Nat → List Int
  | [] => [s]
  | l :: ls => s :: psums (s + l) ls

theorem psums_length (s : Int) (l : List Nat) : (psums s l).length = l.length + 1 := by
  induction l generalizing s with
  | nil => rfl
  | cons a as ih => simp [psums, ih]

theorem psums_snoc (s : Int) (l : List Nat) (x : Nat) :
    psums s (l ++ [x]) = psums s l ++ [s + total l + x] := by
  induction l generalizing s with
  | nil => simp [psums, total_nil]
  | cons a as ih => simp only [List.cons_append, psums, ih, total_cons]; congr 2; simp; omega

/-- `ai[len(done)]` when `ai` starts with the prefix sums of `done ++ rest`. -/
theorem psums_get (s : Int) (done rest : List Nat) (tail : List Int) :
    (psums s (done ++ rest) ++ tail).getD done.length 0 = s + total done := by
  induction done generalizing s with
  | nil => cases rest <;> simp [psums, total_nil]
  | cons a as ih =>
    simp only [List.cons_append, psums, List.length_cons, List.getD_cons_succ, total_cons]
    rw [ih]; omega

theorem getD_append_len (A : List Int) (v : Int) (Z : List Int) : (A ++ v :: Z).getD A.length 0 = v := by
  induction A with
  | nil => rfl
  | cons a as ih => simpa using ih

theorem set_append_len (A : List Int) (x v : Int) (Z : List Int) :
    (A ++ x :: Z).set A.length v = A ++ v :: Z := by
  induction A with
  | nil => rfl
  | cons a as ih => simp [ih]

/-! ### the loop that fills `ai` -/

/-- Body of the inner loop of `initAi` for partition group `i`. -/
def aiStep (lengthList : List Int) (i : Nat) (st : List Int × Int) : Out (List Int × Int) :=
  match arrGet st.1 st.2, arrGet lengthList i with
  | .ok prev, .ok l =>
    match arrSet st.1 (st.2 + 1) (prev + l) with
    | .ok ai' => .ok (ai', st.2 + 1)
    | _ => .panic
  | _, _ => .panic

theorem initAi_unfold (countList lengthList ai0 : List Int) :
    initAi countList lengthList ai0 =
      forRange 0 countList.length (fun i st =>
        forRange 0 (countList.getD i 0).toNat (fun _ st => aiStep lengthList i st) st) (ai0, 0) := rfl

theorem aiStep_ok (lengthList : List Int) (i : Nat) (l : Nat) (hl : arrGet lengthList i = .ok (l : Int))
    (done : List Nat) (z : Nat) :
    aiStep lengthList i (psums 0 done ++ List.replicate (z + 1) 0, (done.length : Int)) =
      .ok (psums 0 (done ++ [l]) ++ List.replicate z 0, ((done ++ [l]).length : Int)) := by
  unfold aiStep
  have hlen : (psums 0 done ++ List.replicate (z + 1) 0).length = done.length + 1 + (z + 1) := by
    simp [psums_length]
  have h1 : arrGet (psums 0 done ++ List.replicate (z + 1) 0) (done.length : Int) = .ok (total done : Int) := by
    unfold arrGet
    rw [if_pos ⟨by omega, by rw [hlen]; omega⟩]
    have := psums_get 0 done [] (List.replicate (z + 1) 0)
    simp only [List.append_nil] at this
    simp only [Int.toNat_natCast]; rw [this]; simp
  rw [h1, hl]
  simp only
  have h2 : arrSet (psums 0 done ++ List.replicate (z + 1) 0) ((done.length : Int) + 1) ((total done : Int) + l) =
      .ok (psums 0 (done ++ [l]) ++ List.replicate z 0) := by
    unfold arrSet
    rw [if_pos ⟨by omega, by rw [hlen]; omega⟩]
    have e : ((done.length : Int) + 1).toNat = (psums 0 done).length := by rw [psums_length]; omega
    rw [e, List.replicate_succ, set_append_len, psums_snoc]
    simp
  rw [h2]
  simp

theorem aiInner (lengthList : List Int) (i : Nat) (l : Nat) (hl : arrGet lengthList i = .ok (l : Int))
    (c : Nat) (k0 : Nat) (done : List Nat) (z : Nat) :
    forRange k0 c (fun _ st => aiStep lengthList i st)
        (psums 0 done ++ List.replicate (z + c) 0, (done.length : Int)) =
      .ok (psums 0 (done ++ List.replicate c l) ++ List.replicate z 0,
           ((done ++ List.replicate c l).length : Int)) := by
  induction c generalizing k0 done with
  | zero => simp [forRange]
  | succ c ih =>
    rw [forRange]
    have e : z + (c + 1) = (z + c) + 1 := by omega
    try dsimp only
    rw [e, aiStep_ok lengthList i l hl done (z + c)]
    try dsimp only
    rw [ih (k0 + 1) (done ++ [l])]
    simp [List.replicate_succ]

/-- Segment lengths contributed by the groups from index `lo` on. -/
def segFrom (count length : List Nat) (lo : Nat) : List Nat :=
  MycatSpec.segmentLengths (count.drop lo) (length.drop lo)

theorem segFrom_step (count length : List Nat) (lo : Nat) (h1 : lo < count.length) (h2 : lo < length.length) :
    segFrom count length lo = List.replicate count[lo] length[lo] ++ segFrom count length (lo + 1) := by
  unfold segFrom MycatSpec.segmentLengths
  rw [List.drop_eq_getElem_cons h1, List.drop_eq_getElem_cons h2]
  simp only [List.zip_cons_cons, List.flatMap_cons]

theorem segFrom_end (count length : List Nat) (lo : Nat) (h1 : count.length ≤ lo) :
    segFrom count length lo = [] := by
  unfold segFrom MycatSpec.segmentLengths
  rw [List.drop_eq_nil_of_le h1]; simp

theorem aiOuter (count length : List Nat) (hlen : count.length = length.length)
    (n lo : Nat) (hn : lo + n = count.length) (done : List Nat) (z : Nat) :
    forRange lo n (fun i st =>
        forRange 0 ((ints count).getD i 0).toNat
          (fun _ st => aiStep (ints length) i st) st)
        (psums 0 done ++ List.replicate (z + (segFrom count length lo).length) 0, (done.length : Int)) =
      .ok (psums 0 (done ++ segFrom count length lo) ++ List.replicate z 0,
           ((done ++ segFrom count length lo).length : Int)) := by
  induction n generalizing lo done with
  | zero =>
    rw [segFrom_end count length lo (by omega)]
    simp [forRange]
  | succ n ih =>
    have h1 : lo < count.length := by omega
    have h2 : lo < length.length := by omega
    rw [forRange]
    try dsimp only
    have hc : ((ints count).getD lo 0).toNat = count[lo] := by
      simp [ints, List.getD_eq_getElem?_getD, h1]
    have hl : arrGet (ints length) lo = .ok (length[lo] : Int) := by
      unfold arrGet
      rw [if_pos ⟨by omega, by simp [ints]; omega⟩]
      simp [ints, List.getD_eq_getElem?_getD, h2]
    rw [hc, segFrom_step count length lo h1 h2]
    have e : z + (List.replicate count[lo] length[lo] ++ segFrom count length (lo + 1)).length =
        (z + (segFrom count length (lo + 1)).length) + count[lo] := by simp; omega
    rw [e, aiInner _ lo length[lo] hl count[lo] 0 done]
    try dsimp only
    rw [ih (lo + 1) (by omega)]
    simp [List.append_assoc]

theorem segmentLengths_length (count length : List Nat) (hlen : count.length = length.length) :
    (MycatSpec.segmentLengths count length).length = total count := by
  induction count generalizing length with
  | nil => simp [MycatSpec.segmentLengths, total_nil]
  | cons c cs ih =>
    cases length with
    | nil => simp at hlen
    | cons l ls =>
      simp only [MycatSpec.segmentLengths, List.zip_cons_cons, List.flatMap_cons, List.length_append,
        List.length_replicate, total_cons]
      have := ih ls (by simpa using hlen)
      simp only [MycatSpec.segmentLengths] at this
      rw [this]

/-- The first pair of loops of `Init` computes the prefix sums of the segment lengths. -/
theorem initAi_eq (count length : List Nat) (hlen : count.length = length.length) :
    initAi (ints count) (ints length)
        (List.replicate (total count + 1) 0) =
      .ok (psums 0 (MycatSpec.segmentLengths count length), (total count : Int)) := by
  rw [initAi_unfold]
  have h := aiOuter count length hlen count.length 0 (by simp) [] 0
  have e0 : segFrom count length 0 = MycatSpec.segmentLengths count length := by simp [segFrom]
  rw [e0] at h
  simp only [segmentLengths_length count length hlen, List.length_nil, List.nil_append, Nat.zero_add] at h
  have e1 : List.replicate (total count + 1) (0 : Int) = psums 0 [] ++ List.replicate (total count) 0 := by
    simp [psums, List.replicate_succ]
  have e2 : (ints count).length = count.length := by simp [ints]
  rw [e1, e2]
  simpa using h

/-! ### the loop that fills `segment` -/

/-- The finished table: `l` slots holding `j0`, then the next partition, … -/
def segTable (j0 : Nat) : List Nat → List Int
  | [] => []
  | l :: ls => List.replicate l (j0 : Int) ++ segTable (j0 + 1) ls

theorem segTable_length (j0 : Nat) (lens : List Nat) : (segTable j0 lens).length = total lens := by
  induction lens generalizing j0 with
  | nil => rfl
  | cons l ls ih => simp [segTable, ih, total_cons]

theorem segTable_snoc (j0 : Nat) (done : List Nat) (l : Nat) :
    segTable j0 (done ++ [l]) = segTable j0 done ++ List.replicate l ((j0 + done.length : Nat) : Int) := by
  induction done generalizing j0 with
  | nil => simp [segTable]
  | cons a as ih =>
    simp only [List.cons_append, segTable, ih, List.append_assoc, List.length_cons]
    congr 3; omega

theorem psums_get' (s : Int) (done rest : List Nat) :
    (psums s (done ++ rest)).getD done.length 0 = s + total done := by
  simpa using psums_get s done rest []

theorem fill (lo v : Int) (n k0 : Nat) (A : List Int) (hA : (A.length : Int) = lo + k0) (z : Nat) :
    forRange k0 n (fun k seg => arrSet seg (lo + k) v) (A ++ List.replicate (z + n) 0) =
      .ok (A ++ List.replicate n v ++ List.replicate z 0) := by
  induction n generalizing k0 A with
  | zero => simp [forRange]
  | succ n ih =>
    rw [forRange]
    have e : z + (n + 1) = (z + n) + 1 := by omega
    have hs : arrSet (A ++ List.replicate (z + n + 1) 0) (lo + k0) v =
        .ok ((A ++ [v]) ++ List.replicate (z + n) 0) := by
      unfold arrSet
      rw [if_pos ⟨by omega, by simp; omega⟩]
      have : (lo + (k0 : Int)).toNat = A.length := by omega
      rw [this, List.replicate_succ, set_append_len]; simp
    try dsimp only
    rw [e, hs]
    try dsimp only
    rw [ih (k0 + 1) (A ++ [v]) (by simp; omega)]
    simp [List.replicate_succ]

theorem initSegment_unfold (ai seg0 : List Int) :
    initSegment ai seg0 =
      forRange 1 (ai.length - 1) (fun i seg =>
        match arrGet ai ((i : Int) - 1), arrGet ai i with
        | .ok lo, .ok hi =>
          forRange 0 (hi - lo).toNat (fun k seg => arrSet seg (lo + k) ((i : Int) - 1)) seg
        | _, _ => .panic) seg0 := rfl

theorem segOuter (rest done : List Nat) (z : Nat) :
    forRange (done.length + 1) rest.length (fun i seg =>
        match arrGet (psums 0 (done ++ rest)) ((i : Int) - 1), arrGet (psums 0 (done ++ rest)) i with
        | .ok lo, .ok hi =>
          forRange 0 (hi - lo).toNat (fun k seg => arrSet seg (lo + k) ((i : Int) - 1)) seg
        | _, _ => .panic) (segTable 0 done ++ List.replicate (z + total rest) 0) =
      .ok (segTable 0 (done ++ rest) ++ List.replicate z 0) := by
  induction rest generalizing done with
  | nil => simp [forRange, total_nil]
  | cons l rest ih =>
    rw [List.length_cons, forRange]
    have hlen : (psums 0 (done ++ l :: rest)).length = done.length + rest.length + 2 := by
      rw [psums_length]; simp; omega
    have g1 : arrGet (psums 0 (done ++ l :: rest)) (((done.length + 1 : Nat) : Int) - 1) = .ok (total done : Int) := by
      unfold arrGet
      rw [if_pos ⟨by omega, by rw [hlen]; omega⟩]
      have : (((done.length + 1 : Nat) : Int) - 1).toNat = done.length := by omega
      rw [this, psums_get']; simp
    have g2 : arrGet (psums 0 (done ++ l :: rest)) ((done.length + 1 : Nat) : Int) = .ok ((total done : Int) + l) := by
      unfold arrGet
      rw [if_pos ⟨by omega, by rw [hlen]; omega⟩]
      have e : done ++ l :: rest = (done ++ [l]) ++ rest := by simp
      have : ((done.length + 1 : Nat) : Int).toNat = (done ++ [l]).length := by simp
      rw [this, e, psums_get', total_append, total_cons, total_nil]; simp
    try dsimp only
    rw [g1, g2]
    try dsimp only
    have hn : ((total done : Int) + l - total done).toNat = l := by omega
    have hz : z + total (l :: rest) = (z + total rest) + l := by rw [total_cons]; omega
    rw [hn, hz, fill (total done : Int) _ l 0 (segTable 0 done) (by simp [segTable_length]) (z + total rest)]
    try dsimp only
    have hv : (((done.length + 1 : Nat) : Int) - 1) = ((0 + done.length : Nat) : Int) := by omega
    rw [hv, ← segTable_snoc]
    have e : done ++ l :: rest = (done ++ [l]) ++ rest := by simp
    have hi := ih (done ++ [l])
    rw [← e] at hi
    have hl2 : (done ++ [l]).length + 1 = done.length + 1 + 1 := by simp
    rw [hl2] at hi
    exact hi

/-- **`segment_total`: for valid parameters `Init` succeeds and `segment` is the
    table of partition indexes.** -/
theorem initLists_ok (count length : List Nat) (hv : MycatSpec.validPartition count length = true) :
    MycatPartitionLongShard.initLists (total count) (ints count) (ints length) =
      .ok (segTable 0 (MycatSpec.segmentLengths count length)) := by
  unfold MycatSpec.validPartition at hv
  simp only [Bool.and_eq_true, beq_iff_eq] at hv
  obtain ⟨hlen, htot⟩ := hv
  have htot' : total (MycatSpec.segmentLengths count length) = 1024 := htot
  unfold MycatPartitionLongShard.initLists
  have e1 : (ints count).length = (ints length).length := by simp [ints, hlen]
  rw [if_neg (by simp [e1]), sumInts_map]
  simp only [ne_eq, not_true_eq_false, if_false]
  rw [if_neg (by omega)]
  have e2 : ((total count : Int) + 1).toNat = total count + 1 := by omega
  rw [e2, initAi_eq count length hlen]
  simp only
  have hl : (psums 0 (MycatSpec.segmentLengths count length)).length =
      (MycatSpec.segmentLengths count length).length + 1 := psums_length _ _
  have g : arrGet (psums 0 (MycatSpec.segmentLengths count length))
      (((psums 0 (MycatSpec.segmentLengths count length)).length : Int) - 1) = .ok 1024 := by
    unfold arrGet
    rw [if_pos ⟨by omega, by omega⟩]
    have : (((psums 0 (MycatSpec.segmentLengths count length)).length : Int) - 1).toNat =
        (MycatSpec.segmentLengths count length).length := by omega
    rw [this]
    have := psums_get' 0 (MycatSpec.segmentLengths count length) []
    simp only [List.append_nil] at this
    rw [this, htot']; simp
  rw [g]
  simp only [PartitionLength, ne_eq, not_true_eq_false, if_false]
  rw [initSegment_unfold, hl, Nat.add_sub_cancel]
  have h := segOuter (MycatSpec.segmentLengths count length) [] 0
  have e3 : segTable 0 [] = [] := rfl
  simp only [List.nil_append, List.length_nil, Nat.zero_add, htot', e3, List.replicate_zero,
    List.append_nil] at h
  exact h

theorem segTable_get (lens : List Nat) (j0 slot i : Nat) (h : MycatSpec.segmentOf lens slot = some i) :
    (segTable j0 lens).getD slot 0 = ((j0 + i : Nat) : Int) := by
  induction lens generalizing j0 slot i with
  | nil => simp [MycatSpec.segmentOf] at h
  | cons l ls ih =>
    unfold MycatSpec.segmentOf at h
    unfold segTable
    by_cases hs : slot < l
    · simp only [hs, if_true, Option.some.injEq] at h
      subst h
      rw [List.getD_eq_getElem?_getD, List.getElem?_append_left (by simpa using hs)]
      simp [hs]
    · simp only [hs, if_false] at h
      cases hr : MycatSpec.segmentOf ls (slot - l) with
      | none => rw [hr] at h; simp at h
      | some i' =>
        rw [hr] at h; simp at h; subst h
        rw [List.getD_eq_getElem?_getD, List.getElem?_append_right (by simp; omega)]
        have := ih (j0 + 1) (slot - l) i' hr
        rw [List.getD_eq_getElem?_getD] at this
        simp only [List.length_replicate]
        rw [this]; congr 1; omega

theorem segmentOf_isSome (lens : List Nat) (slot : Nat) (h : slot < total lens) :
    ∃ i, MycatSpec.segmentOf lens slot = some i ∧ i < lens.length := by
  induction lens generalizing slot with
  | nil => simp [total_nil] at h
  | cons l ls ih =>
    unfold MycatSpec.segmentOf
    by_cases hs : slot < l
    · exact ⟨0, by simp [hs], by simp⟩
    · rw [total_cons] at h
      obtain ⟨i, hi, hlt⟩ := ih (slot - l) (by omega)
      exact ⟨i + 1, by simp [hs, hi], by simp; omega⟩

end GaeaVerif.ShardLemmas
