import GaeaVerif.Model.ShardPlace
import GaeaVerif.Spec.Mycat
/-
  The key-sorted association list with `tmPut` / `tmCeiling` / `tmMin` (the
  model of the gods tree map in shard_mycat.go) against Java's `TreeMap` as the
  reference describes it: after a sequence of puts, `get` returns the last value
  put under a key, `tailMap(h).firstKey()` is the least key `≥ h`.
-/
namespace GaeaVerif.ShardLemmas
open GaeaVerif.ShardGo GaeaVerif.ShardPlace

def KeysSorted (m : List (Int × Int)) : Prop := m.Pairwise (fun a b => a.1 < b.1)

theorem mem_tmPut (m : List (Int × Int)) (hs : KeysSorted m) (k v : Int) (e : Int × Int) :
    e ∈ tmPut m k v ↔ e = (k, v) ∨ (e ∈ m ∧ e.1 ≠ k) := by
  induction m with
  | nil => simp [tmPut]
  | cons a rest ih =>
    obtain ⟨k', v'⟩ := a
    have hs' : KeysSorted rest := (List.pairwise_cons.mp hs).2
    have hlt : ∀ b ∈ rest, k' < b.1 := (List.pairwise_cons.mp hs).1
    unfold tmPut
    by_cases h1 : k < k'
    · simp only [h1, if_true, List.mem_cons]
      constructor
      · rintro (h | h | h)
        · exact Or.inl h
        · right; subst h; exact ⟨Or.inl rfl, by simp; omega⟩
        · right; exact ⟨Or.inr h, by have := hlt e h; omega⟩
      · rintro (h | ⟨h | h, _⟩)
        · exact Or.inl h
        · exact Or.inr (Or.inl h)
        · exact Or.inr (Or.inr h)
    · by_cases h2 : k = k'
      · subst h2
        simp only [Int.lt_irrefl, if_false, if_true, List.mem_cons]
        constructor
        · rintro (h | h)
          · exact Or.inl h
          · right; exact ⟨Or.inr h, by have := hlt e h; omega⟩
        · rintro (h | ⟨h | h, hne⟩)
          · exact Or.inl h
          · subst h; simp at hne
          · exact Or.inr h
      · simp only [h1, h2, if_false, List.mem_cons, ih hs']
        constructor
        · rintro (h | h | ⟨h, hne⟩)
          · right; subst h; exact ⟨Or.inl rfl, by simp; omega⟩
          · exact Or.inl h
          · exact Or.inr ⟨Or.inr h, hne⟩
        · rintro (h | ⟨h | h, hne⟩)
          · exact Or.inr (Or.inl h)
          · exact Or.inl h
          · exact Or.inr (Or.inr ⟨h, hne⟩)

theorem sorted_tmPut (m : List (Int × Int)) (hs : KeysSorted m) (k v : Int) : KeysSorted (tmPut m k v) := by
  induction m with
  | nil => simp [tmPut, KeysSorted]
  | cons a rest ih =>
    obtain ⟨k', v'⟩ := a
    have hs' : KeysSorted rest := (List.pairwise_cons.mp hs).2
    have hlt : ∀ b ∈ rest, k' < b.1 := (List.pairwise_cons.mp hs).1
    unfold tmPut
    by_cases h1 : k < k'
    · simp only [h1, if_true]
      refine List.pairwise_cons.mpr ⟨?_, hs⟩
      intro b hb
      rcases List.mem_cons.mp hb with h | h
      · subst h; exact h1
      · have := hlt b h; simp only; omega
    · by_cases h2 : k = k'
      · subst h2
        simp only [Int.lt_irrefl, if_false, if_true]
        exact List.pairwise_cons.mpr ⟨hlt, hs'⟩
      · simp only [h1, h2, if_false]
        refine List.pairwise_cons.mpr ⟨?_, ih hs'⟩
        intro b hb
        rcases (mem_tmPut rest hs' k v b).mp hb with h | ⟨h, _⟩
        · subst h; simp only; omega
        · exact hlt b h

/-- Keys are unique in a sorted map. -/
theorem sorted_unique (m : List (Int × Int)) (hs : KeysSorted m) (a b : Int × Int)
    (ha : a ∈ m) (hb : b ∈ m) (hk : a.1 = b.1) : a = b := by
  induction m with
  | nil => simp at ha
  | cons c rest ih =>
    have hs' : KeysSorted rest := (List.pairwise_cons.mp hs).2
    have hlt : ∀ x ∈ rest, c.1 < x.1 := (List.pairwise_cons.mp hs).1
    rcases List.mem_cons.mp ha with h | h <;> rcases List.mem_cons.mp hb with h' | h'
    · rw [h, h']
    · subst h; have := hlt b h'; omega
    · subst h'; have := hlt a h; omega
    · exact ih hs' h h'

theorem tmCeiling_none (m : List (Int × Int)) (h : Int) :
    tmCeiling m h = none ↔ ∀ e ∈ m, e.1 < h := by
  induction m with
  | nil => simp [tmCeiling]
  | cons a rest ih =>
    unfold tmCeiling
    by_cases hk : h ≤ a.1
    · simp only [hk, if_true, List.mem_cons]
      constructor
      · intro hc; cases hc
      · intro hall; have := hall a (Or.inl rfl); omega
    · simp only [hk, if_false, ih, List.mem_cons]
      constructor
      · intro hall e he
        rcases he with he | he
        · subst he; omega
        · exact hall e he
      · intro hall e he; exact hall e (Or.inr he)

theorem tmCeiling_some (m : List (Int × Int)) (hs : KeysSorted m) (h : Int) (e : Int × Int)
    (hc : tmCeiling m h = some e) : e ∈ m ∧ h ≤ e.1 ∧ ∀ e' ∈ m, h ≤ e'.1 → e.1 ≤ e'.1 := by
  induction m with
  | nil => simp [tmCeiling] at hc
  | cons a rest ih =>
    have hs' : KeysSorted rest := (List.pairwise_cons.mp hs).2
    have hlt : ∀ x ∈ rest, a.1 < x.1 := (List.pairwise_cons.mp hs).1
    unfold tmCeiling at hc
    by_cases hk : h ≤ a.1
    · simp only [hk, if_true, Option.some.injEq] at hc
      subst hc
      refine ⟨List.mem_cons_self, hk, ?_⟩
      intro e' he' _
      rcases List.mem_cons.mp he' with h' | h'
      · subst h'; omega
      · have := hlt e' h'; omega
    · simp only [hk, if_false] at hc
      obtain ⟨h1, h2, h3⟩ := ih hs' hc
      refine ⟨List.mem_cons_of_mem _ h1, h2, ?_⟩
      intro e' he' hle
      rcases List.mem_cons.mp he' with h' | h'
      · subst h'; omega
      · exact h3 e' h' hle

theorem tmMin_some (m : List (Int × Int)) (hs : KeysSorted m) (e : Int × Int) (hm : tmMin m = some e) :
    e ∈ m ∧ ∀ e' ∈ m, e.1 ≤ e'.1 := by
  cases m with
  | nil => simp [tmMin] at hm
  | cons a rest =>
    simp [tmMin] at hm; subst hm
    have hlt : ∀ x ∈ rest, a.1 < x.1 := (List.pairwise_cons.mp hs).1
    refine ⟨List.mem_cons_self, ?_⟩
    intro e' he'
    rcases List.mem_cons.mp he' with h' | h'
    · subst h'; omega
    · have := hlt e' h'; omega

/-! ### a sequence of puts -/

/-- The map after a sequence of puts. -/
def tmBuild (m0 : List (Int × Int)) (puts : List (Int × Int)) : List (Int × Int) :=
  puts.foldl (fun m p => tmPut m p.1 p.2) m0

/-- Last value put under a key. -/
def lastPutInt (puts : List (Int × Int)) (k : Int) : Option Int :=
  (puts.reverse.find? (·.1 = k)).map (·.2)

theorem lastPutInt_nil (k : Int) : lastPutInt [] k = none := rfl

theorem lastPutInt_cons (p : Int × Int) (ps : List (Int × Int)) (k : Int) :
    lastPutInt (p :: ps) k = match lastPutInt ps k with
      | some v => some v
      | none => if p.1 = k then some p.2 else none := by
  unfold lastPutInt
  rw [List.reverse_cons, List.find?_append]
  cases h : ps.reverse.find? (·.1 = k) with
  | some x => simp
  | none =>
    by_cases hp : p.1 = k <;> simp [hp]

theorem sorted_tmBuild (m0 : List (Int × Int)) (hs : KeysSorted m0) (puts : List (Int × Int)) :
    KeysSorted (tmBuild m0 puts) := by
  induction puts generalizing m0 with
  | nil => exact hs
  | cons p ps ih => exact ih _ (sorted_tmPut m0 hs p.1 p.2)

theorem mem_tmBuild (m0 : List (Int × Int)) (hs : KeysSorted m0) (puts : List (Int × Int)) (e : Int × Int) :
    e ∈ tmBuild m0 puts ↔
      (lastPutInt puts e.1 = some e.2 ∨ (lastPutInt puts e.1 = none ∧ e ∈ m0)) := by
  induction puts generalizing m0 with
  | nil => simp [tmBuild, lastPutInt_nil]
  | cons p ps ih =>
    have : tmBuild m0 (p :: ps) = tmBuild (tmPut m0 p.1 p.2) ps := rfl
    rw [this, ih _ (sorted_tmPut m0 hs p.1 p.2), lastPutInt_cons, mem_tmPut m0 hs]
    cases hl : lastPutInt ps e.1 with
    | some v => simp
    | none =>
      by_cases hp : p.1 = e.1
      · simp only [hp, if_true]
        constructor
        · rintro (h | ⟨_, h | ⟨_, hne⟩⟩)
          · cases h
          · left; rw [h]
          · exact absurd rfl hne
        · rintro (h | ⟨h, _⟩)
          · right; refine ⟨trivial, Or.inl ?_⟩
            have h' : p.2 = e.2 := by simpa using h
            apply Prod.ext <;> simp [hp, h']
          · cases h
      · simp only [hp, if_false]
        constructor
        · rintro (h | ⟨_, h | ⟨h, _⟩⟩)
          · cases h
          · exact absurd (by rw [h]) hp
          · exact Or.inr ⟨trivial, h⟩
        · rintro (h | ⟨_, h⟩)
          · cases h
          · exact Or.inr ⟨trivial, Or.inr ⟨h, fun hk => hp hk.symm⟩⟩

/-! ### reference lookups -/

theorem minKey_none (l : List Int) : MycatSpec.minKey l = none ↔ l = [] := by
  cases l with
  | nil => simp [MycatSpec.minKey]
  | cons k ks =>
    simp only [MycatSpec.minKey]
    cases MycatSpec.minKey ks <;> simp

theorem minKey_some (l : List Int) (k : Int) (h : MycatSpec.minKey l = some k) :
    k ∈ l ∧ ∀ k' ∈ l, k ≤ k' := by
  induction l generalizing k with
  | nil => simp [MycatSpec.minKey] at h
  | cons a as ih =>
    simp only [MycatSpec.minKey] at h
    cases hm : MycatSpec.minKey as with
    | none =>
      rw [hm] at h; simp at h; subst h
      have : as = [] := (minKey_none as).mp hm
      subst this; simp
    | some m =>
      rw [hm] at h; simp at h
      obtain ⟨h1, h2⟩ := ih m hm
      by_cases hle : a ≤ m
      · simp [hle] at h; subst h
        refine ⟨List.mem_cons_self, ?_⟩
        intro k' hk'
        rcases List.mem_cons.mp hk' with e | e
        · subst e; omega
        · have := h2 k' e; omega
      · simp [hle] at h; subst h
        refine ⟨List.mem_cons_of_mem _ h1, ?_⟩
        intro k' hk'
        rcases List.mem_cons.mp hk' with e | e
        · subst e; omega
        · exact h2 k' e

/-- The reference's puts, with the shard numbers as Go ints. -/
def putsInt (puts : List (Int × Nat)) : List (Int × Int) := puts.map fun p => (p.1, (p.2 : Int))

theorem find_putsInt (l : List (Int × Nat)) (k : Int) :
    Option.map (fun (x : Int × Int) => x.2)
        ((l.map fun (p : Int × Nat) => (p.1, (p.2 : Int))).find? (fun x => decide (x.1 = k))) =
      Option.map (fun (n : Nat) => (n : Int))
        (Option.map (fun (x : Int × Nat) => x.2) (l.find? (fun x => decide (x.1 = k)))) := by
  induction l with
  | nil => rfl
  | cons a as ih =>
    simp only [List.map_cons, List.find?_cons]
    by_cases h : a.1 = k
    · simp [h]
    · simp only [h, decide_false]; exact ih

theorem lastPutInt_putsInt (puts : List (Int × Nat)) (k : Int) :
    lastPutInt (putsInt puts) k = Option.map (fun (n : Nat) => (n : Int)) (MycatSpec.lastPut puts k) := by
  unfold lastPutInt MycatSpec.lastPut putsInt
  rw [← List.map_reverse]
  exact find_putsInt _ _

theorem lastPut_isSome (puts : List (Int × Nat)) (k : Int) :
    (∃ v, MycatSpec.lastPut puts k = some v) ↔ k ∈ puts.map (·.1) := by
  unfold MycatSpec.lastPut
  constructor
  · rintro ⟨v, hv⟩
    cases hf : puts.reverse.find? (fun x => decide (x.1 = k)) with
    | none => rw [hf] at hv; simp at hv
    | some x =>
      have h1 := List.find?_some hf
      have h2 := List.mem_of_find?_eq_some hf
      simp at h1
      simp only [List.mem_map]
      exact ⟨x, by simpa using h2, h1⟩
  · intro hk
    simp only [List.mem_map] at hk
    obtain ⟨x, hx, hxk⟩ := hk
    cases hf : puts.reverse.find? (fun x => decide (x.1 = k)) with
    | none =>
      rw [List.find?_eq_none] at hf
      have := hf x (by simpa using hx)
      simp [hxk] at this
    | some y => exact ⟨y.2, by simp⟩

/-- The lookup of `MycatPartitionMurmurHashShard.FindForKey` on a map. -/
def ringFind (m : List (Int × Int)) (h : Int) : Option Int :=
  match tmCeiling m h with
  | some (_, v) => some v
  | none =>
    match tmMin m with
    | some (_, v) => some v
    | none => none

/-- **`ring_ceiling`: `Ceiling`/`Min` on the sorted list built by the puts is
    Java's `tailMap(h)` first entry / `firstKey()` lookup on the `TreeMap` after
    the same puts.** -/
theorem ring_ceiling (puts : List (Int × Nat)) (h : Int) :
    ringFind (tmBuild [] (putsInt puts)) h =
      Option.map (fun (n : Nat) => (n : Int)) (MycatSpec.ringLookup puts h) := by
  have hsorted : KeysSorted (tmBuild [] (putsInt puts)) := sorted_tmBuild [] List.Pairwise.nil _
  have hmem : ∀ e : Int × Int, e ∈ tmBuild [] (putsInt puts) ↔
      Option.map (fun (n : Nat) => (n : Int)) (MycatSpec.lastPut puts e.1) = some e.2 := by
    intro e
    rw [mem_tmBuild [] List.Pairwise.nil, lastPutInt_putsInt]; simp
  -- every key that was put is in the map
  have hkey : ∀ k, k ∈ puts.map (·.1) → ∃ v, (k, v) ∈ tmBuild [] (putsInt puts) := by
    intro k hk
    obtain ⟨v, hv⟩ := (lastPut_isSome puts k).mpr hk
    exact ⟨(v : Int), (hmem (k, v)).mpr (by simp [hv])⟩
  have hkey' : ∀ e, e ∈ tmBuild [] (putsInt puts) → e.1 ∈ puts.map (·.1) := by
    intro e he
    have := (hmem e).mp he
    cases hl : MycatSpec.lastPut puts e.1 with
    | none => rw [hl] at this; simp at this
    | some v => exact (lastPut_isSome puts e.1).mp ⟨v, hl⟩
  unfold ringFind MycatSpec.ringLookup
  simp only
  cases hc : tmCeiling (tmBuild [] (putsInt puts)) h with
  | some e =>
    obtain ⟨he, hge, hmin⟩ := tmCeiling_some _ hsorted h e hc
    have hin : e.1 ∈ (puts.map (·.1)).filter (fun x => decide (h ≤ x)) := by
      simp only [List.mem_filter, decide_eq_true_eq]; exact ⟨hkey' e he, hge⟩
    cases hm : MycatSpec.minKey ((puts.map (·.1)).filter (fun x => decide (h ≤ x))) with
    | none => rw [(minKey_none _).mp hm] at hin; simp at hin
    | some k =>
      obtain ⟨hk1, hk2⟩ := minKey_some _ k hm
      simp only [List.mem_filter, decide_eq_true_eq] at hk1
      obtain ⟨v, hv⟩ := hkey k hk1.1
      have h1 : e.1 ≤ k := hmin (k, v) hv hk1.2
      have h2 : k ≤ e.1 := hk2 e.1 hin
      have hek : e.1 = k := by omega
      simp only
      rw [← hek]
      exact ((hmem e).mp he).symm
  | none =>
    have hall := (tmCeiling_none _ h).mp hc
    have hempty : (puts.map (·.1)).filter (fun x => decide (h ≤ x)) = [] := by
      rw [List.filter_eq_nil_iff]
      intro k hk
      obtain ⟨v, hv⟩ := hkey k hk
      have := hall (k, v) hv
      simp only [decide_eq_true_eq]; simp only at this; omega
    rw [hempty]
    simp only [MycatSpec.minKey]
    cases hmn : tmMin (tmBuild [] (putsInt puts)) with
    | none =>
      have hnil : tmBuild [] (putsInt puts) = [] := by
        cases hb : tmBuild [] (putsInt puts) with
        | nil => rfl
        | cons a r => rw [hb] at hmn; simp [tmMin] at hmn
      cases hm : MycatSpec.minKey (puts.map (·.1)) with
      | none => simp
      | some k =>
        obtain ⟨hk1, _⟩ := minKey_some _ k hm
        obtain ⟨v, hv⟩ := hkey k hk1
        rw [hnil] at hv; simp at hv
    | some e =>
      obtain ⟨he, hmin⟩ := tmMin_some _ hsorted e hmn
      cases hm : MycatSpec.minKey (puts.map (·.1)) with
      | none =>
        have := (minKey_none _).mp hm
        have hk := hkey' e he
        rw [this] at hk; simp at hk
      | some k =>
        obtain ⟨hk1, hk2⟩ := minKey_some _ k hm
        obtain ⟨v, hv⟩ := hkey k hk1
        have h1 : e.1 ≤ k := hmin (k, v) hv
        have h2 : k ≤ e.1 := hk2 e.1 (hkey' e he)
        have hek : e.1 = k := by omega
        simp only [Option.bind_some]
        rw [← hek]
        exact ((hmem e).mp he).symm

end GaeaVerif.ShardLemmas
