import GaeaVerif.Model.ShardGo
import GaeaVerif.Spec.Mycat
/-
  Lemmas about the Go-string layer of the placement model (Model/ShardGo.lean)
  and its counterpart in the Java reference (Spec/Mycat.lean): decimal
  formatting and parsing, UTF-8 decoding of well-formed text, UTF-16 encoding.
-/
namespace GaeaVerif.ShardLemmas
open GaeaVerif.ShardGo

/-! ### decimal formatting -/

theorem digitChar_toNat (n : Nat) (h : n < 10) : (Nat.digitChar n).toNat = 48 + n := by
  have : n = 0 ∨ n = 1 ∨ n = 2 ∨ n = 3 ∨ n = 4 ∨ n = 5 ∨ n = 6 ∨ n = 7 ∨ n = 8 ∨ n = 9 := by omega
  rcases this with h | h | h | h | h | h | h | h | h | h <;> subst h <;> rfl

theorem fmtNatAux_eq (fuel n : Nat) (acc : GoStr) (h : n < fuel) :
    fmtNatAux fuel n acc = (Nat.toDigits 10 n).map Char.toNat ++ acc := by
  induction fuel generalizing n acc with
  | zero => omega
  | succ fuel ih =>
    unfold fmtNatAux
    split
    · rename_i hn
      rw [Nat.toDigits_of_lt_base hn]
      simp [digitChar_toNat n hn]
    · rename_i hn
      have h1 : n / 10 < fuel := by omega
      rw [ih (n / 10) _ h1]
      have e : n = 10 * (n / 10) + n % 10 := by omega
      have hd : n % 10 < 10 := by omega
      conv => rhs; rw [e, ← Nat.toDigits_append_toDigits (by decide) (by omega) hd,
        Nat.toDigits_of_lt_base hd]
      simp [digitChar_toNat _ hd]

/-- The model's `strconv.FormatUint` and the reference's decimal spelling agree. -/
theorem fmtNat_eq (n : Nat) : fmtNat n = MycatSpec.natToString n := by
  unfold fmtNat MycatSpec.natToString
  rw [fmtNatAux_eq _ _ _ (by omega)]; simp

theorem fmtNat_lt10 (n : Nat) (h : n < 10) : fmtNat n = [48 + n] := by
  rw [fmtNat_eq]; unfold MycatSpec.natToString
  rw [Nat.toDigits_of_lt_base h]; simp [digitChar_toNat n h]

theorem fmtNat_ge10 (n : Nat) (h : 10 ≤ n) : fmtNat n = fmtNat (n / 10) ++ [48 + n % 10] := by
  have hd : n % 10 < 10 := by omega
  rw [fmtNat_eq, fmtNat_eq]; unfold MycatSpec.natToString
  have e : n = 10 * (n / 10) + n % 10 := by omega
  conv => lhs; rw [e, ← Nat.toDigits_append_toDigits (by decide) (by omega) hd,
    Nat.toDigits_of_lt_base hd]
  simp [digitChar_toNat _ hd]

theorem fmtInt_eq (v : Int) : fmtInt v = MycatSpec.intToString v := by
  unfold fmtInt MycatSpec.intToString
  split
  · rw [fmtNat_eq]; congr 2; omega
  · rw [fmtNat_eq]; congr 1; omega

/-- Every byte of a formatted number is an ASCII digit. -/
theorem fmtNat_digits (n : Nat) : ∀ b ∈ fmtNat n, isDigit b = true := by
  induction n using Nat.strongRecOn with
  | _ n ih =>
    by_cases h : n < 10
    · rw [fmtNat_lt10 n h]; intro b hb; simp at hb; subst hb; simp [isDigit]; omega
    · rw [fmtNat_ge10 n (by omega)]
      intro b hb
      simp at hb
      rcases hb with hb | hb
      · exact ih (n / 10) (by omega) b hb
      · subst hb; simp [isDigit]; omega

theorem fmtNat_ne_nil (n : Nat) : fmtNat n ≠ [] := by
  by_cases h : n < 10
  · rw [fmtNat_lt10 n h]; simp
  · rw [fmtNat_ge10 n (by omega)]; simp

theorem digitsVal_append (l : List Nat) (d acc : Nat) :
    digitsVal (l ++ [d]) acc = digitsVal l acc * 10 + (d - 48) := by
  induction l generalizing acc with
  | nil => rfl
  | cons b bs ih => simp [digitsVal, ih]

theorem digitsVal_fmtNat (n : Nat) : digitsVal (fmtNat n) 0 = n := by
  induction n using Nat.strongRecOn with
  | _ n ih =>
    by_cases h : n < 10
    · rw [fmtNat_lt10 n h]; simp [digitsVal]
    · rw [fmtNat_ge10 n (by omega), digitsVal_append, ih (n / 10) (by omega)]; omega

/-- Parsing a formatted number gives the number back. -/
theorem parseUDec_fmtNat (n : Nat) : parseUDec (fmtNat n) = some n := by
  unfold parseUDec
  have h1 : fmtNat n ≠ [] := fmtNat_ne_nil n
  have h2 : (fmtNat n).all isDigit = true := by
    rw [List.all_eq_true]; exact fmtNat_digits n
  simp [h1, h2, digitsVal_fmtNat]

theorem fmtNat_head_digit (n : Nat) : ∃ b r, fmtNat n = b :: r ∧ isDigit b = true := by
  have h := fmtNat_ne_nil n
  match hm : fmtNat n with
  | [] => exact absurd hm h
  | b :: r => exact ⟨b, r, rfl, fmtNat_digits n b (by rw [hm]; simp)⟩

theorem parseBigDec_fmtInt (v : Int) : parseBigDec (fmtInt v) = some v := by
  unfold fmtInt
  split
  · rename_i hv
    simp only [parseBigDec]
    rw [parseUDec_fmtNat]; simp; omega
  · rename_i hv
    obtain ⟨b, r, hbr, hb⟩ := fmtNat_head_digit v.toNat
    have h43 : b ≠ 43 := by intro e; subst e; simp [isDigit] at hb
    have h45 : b ≠ 45 := by intro e; subst e; simp [isDigit] at hb
    have : parseBigDec (fmtNat v.toNat) = (parseUDec (fmtNat v.toNat)).map fun n => (n : Int) := by
      rw [hbr]; unfold parseBigDec; split
      · rename_i heq; simp at heq; exact absurd heq.1 h43
      · rename_i heq; simp at heq; exact absurd heq.1 h45
      · rfl
    rw [this, parseUDec_fmtNat]; simp; omega

theorem parseInt64_fmtInt (v : Int) (h : -2 ^ 63 ≤ v ∧ v < 2 ^ 63) : parseInt64 (fmtInt v) = some v := by
  unfold parseInt64; rw [parseBigDec_fmtInt]; simp; omega

/-! ### parsers of the model and of the reference agree -/

theorem magStep_none (l : List Nat) : l.foldl MycatSpec.magStep none = none := by
  induction l with
  | nil => rfl
  | cons c cs ih => simp [List.foldl_cons, MycatSpec.magStep, ih]

theorem magnitude_fold (s : List Nat) (a : Nat) :
    s.foldl MycatSpec.magStep (some a) = if s.all isDigit then some (digitsVal s a) else none := by
  induction s generalizing a with
  | nil => simp [digitsVal]
  | cons b bs ih =>
    simp only [List.foldl_cons, List.all_cons, digitsVal]
    by_cases hb : isDigit b = true
    · have : MycatSpec.digitOf b = some (b - 48) := by
        unfold MycatSpec.digitOf; simp [isDigit] at hb; simp [hb]
      simp only [MycatSpec.magStep, this, ih, hb, Bool.true_and]
    · have : MycatSpec.digitOf b = none := by
        unfold MycatSpec.digitOf; simp [isDigit] at hb; split
        · omega
        · rfl
      simp only [MycatSpec.magStep, this]
      simp [magStep_none, hb]

theorem magnitude_eq (s : List Nat) : MycatSpec.magnitude s = parseUDec s := by
  unfold parseUDec
  cases s with
  | nil => simp [MycatSpec.magnitude]
  | cons u us => simp only [MycatSpec.magnitude]; rw [magnitude_fold]; simp

/-- `new BigInteger(s)` (reference) and `big.Int.SetString(s, 10)` (model) accept
    the same strings with the same value. -/
theorem bigInteger_eq (s : List Nat) : MycatSpec.bigInteger s = parseBigDec s := by
  unfold MycatSpec.bigInteger parseBigDec
  split <;> split <;> simp_all [magnitude_eq]

/-- `Long.parseLong` and `strconv.ParseInt(s, 10, 64)`. -/
theorem parseLong_eq (s : List Nat) : MycatSpec.parseLong s = parseInt64 s := by
  unfold MycatSpec.parseLong parseInt64; rw [bigInteger_eq]
  cases parseBigDec s <;> simp

/-! ### UTF-8 decoding of well-formed text, UTF-16 encoding -/

theorem decodeRune_utf8 (c : Nat) (hc : isScalar c) (rest : GoStr) :
    decodeRune (utf8OfScalar c ++ rest) = (c, (utf8OfScalar c).length) := by
  unfold isScalar at hc
  have d1 : c / 64 / 64 = c / 4096 := by rw [Nat.div_div_eq_div_mul]
  have d2 : c / 4096 / 64 = c / 262144 := by rw [Nat.div_div_eq_div_mul]
  by_cases h1 : c < 0x80
  · simp [utf8OfScalar, h1, decodeRune]
  by_cases h2 : c < 0x800
  · have hb0 : ¬ (0xC0 + c / 64 < 0x80) := by omega
    simp only [utf8OfScalar, h1, h2, if_false, if_true, List.cons_append, List.nil_append, decodeRune, hb0, isCont]
    have e1 : (0xC2 ≤ 0xC0 + c / 64) := by omega
    have e2 : (0xC0 + c / 64 ≤ 0xDF) := by omega
    have e3 : (0x80 ≤ 0x80 + c % 64) := by omega
    have e4 : (0x80 + c % 64 ≤ 0xBF) := by omega
    simp [e1, e2, e3, e4]
    omega
  by_cases h3 : c < 0x10000
  · have hb0 : ¬ (0xE0 + c / 4096 < 0x80) := by omega
    simp only [utf8OfScalar, h1, h2, h3, if_false, if_true, List.cons_append, List.nil_append, decodeRune, hb0, isCont, ok3]
    have e2 : ¬ (0xE0 + c / 4096 ≤ 0xDF) := by omega
    have e3 : (0x80 ≤ 0x80 + c / 64 % 64) := by omega
    have e4 : (0x80 + c / 64 % 64 ≤ 0xBF) := by omega
    have e5 : (0x80 ≤ 0x80 + c % 64) := by omega
    have e6 : (0x80 + c % 64 ≤ 0xBF) := by omega
    have e7 : (0xE1 ≤ 0xE0 + c / 4096) ↔ 0x1000 ≤ c := by omega
    have e8 : (0xE0 + c / 4096 ≤ 0xEF) := by omega
    have e9 : (0xE0 + c / 4096 = 0xE0) ↔ c < 0x1000 := by omega
    have e10 : (0xE0 + c / 4096 = 0xED) ↔ (0xD000 ≤ c ∧ c < 0xE000) := by omega
    have e11 : c < 0x1000 → 0xA0 ≤ 0x80 + c / 64 % 64 := by omega
    have e12 : (0xD000 ≤ c ∧ c < 0xE000) → 0x80 + c / 64 % 64 ≤ 0x9F := by omega
    simp only [e2, e3, e4, e5, e6, e8, e9, e10, decide_true, decide_false, Bool.and_true, Bool.and_false, Bool.false_eq_true, if_false, Bool.true_and]
    by_cases ha : c < 0x1000
    · simp [ha, e11 ha]; omega
    · by_cases hb : (0xD000 ≤ c ∧ c < 0xE000)
      · simp [ha, hb, e12 hb]; omega
      · have hge : 4096 ≤ c := by omega
        simp [ha, hb, e7, hge]; omega
  · have hb0 : ¬ (0xF0 + c / 262144 < 0x80) := by omega
    simp only [utf8OfScalar, h1, h2, h3, if_false, if_true, List.cons_append, List.nil_append, decodeRune, hb0, isCont, ok3, ok4]
    have e2 : ¬ (0xF0 + c / 262144 ≤ 0xDF) := by omega
    have e3 : (0x80 ≤ 0x80 + c / 4096 % 64) := by omega
    have e4 : (0x80 + c / 4096 % 64 ≤ 0xBF) := by omega
    have e5 : (0x80 ≤ 0x80 + c / 64 % 64) := by omega
    have e6 : (0x80 + c / 64 % 64 ≤ 0xBF) := by omega
    have e5' : (0x80 ≤ 0x80 + c % 64) := by omega
    have e6' : (0x80 + c % 64 ≤ 0xBF) := by omega
    have e7 : ¬ (0xF0 + c / 262144 = 0xE0) := by omega
    have e8 : ¬ (0xF0 + c / 262144 = 0xED) := by omega
    have e9 : ¬ (0xF0 + c / 262144 ≤ 0xEF) := by omega
    have e10 : (0xF0 + c / 262144 = 0xF0) ↔ c < 0x40000 := by omega
    have e11 : (0xF0 + c / 262144 = 0xF4) ↔ 0x100000 ≤ c := by omega
    have e12 : c < 0x40000 → 0x90 ≤ 0x80 + c / 4096 % 64 := by omega
    have e13 : 0x100000 ≤ c → 0x80 + c / 4096 % 64 ≤ 0x8F := by omega
    have e14 : (0xF1 ≤ 0xF0 + c / 262144) ↔ 0x40000 ≤ c := by omega
    have e15 : (0xF0 + c / 262144 ≤ 0xF3) ↔ c < 0x100000 := by omega
    simp only [e2, e3, e4, e5, e6, e5', e6', e7, e8, e9, e10, e11, decide_true, decide_false, Bool.and_true, Bool.and_false, Bool.false_eq_true, if_false, Bool.true_and]
    by_cases ha : c < 0x40000
    · simp [ha, e12 ha]; omega
    · by_cases hb : 0x100000 ≤ c
      · simp [ha, hb, e13 hb]; omega
      · have hge : 0x40000 ≤ c := by omega
        have hlt : c < 0x100000 := by omega
        simp [ha, hb, e14, e15, hge, hlt]; omega

theorem utf8OfScalar_length_pos (c : Nat) : 0 < (utf8OfScalar c).length := by
  unfold utf8OfScalar; split
  · simp
  · split
    · simp
    · split <;> simp

theorem goRunesAux_utf8 (cs : List Nat) (hcs : ∀ c ∈ cs, isScalar c) (fuel : Nat)
    (hf : (utf8 cs).length ≤ fuel) : goRunesAux fuel (utf8 cs) = cs := by
  induction cs generalizing fuel with
  | nil => cases fuel <;> simp [utf8, goRunesAux]
  | cons c cs ih =>
    have hc : isScalar c := hcs c (by simp)
    have hlen := utf8OfScalar_length_pos c
    have e : utf8 (c :: cs) = utf8OfScalar c ++ utf8 cs := by simp [utf8]
    rw [e] at hf ⊢
    simp only [List.length_append] at hf
    cases fuel with
    | zero => omega
    | succ f =>
      unfold goRunesAux
      match hm : utf8OfScalar c ++ utf8 cs with
      | [] =>
        have : (utf8OfScalar c ++ utf8 cs).length = 0 := by rw [hm]; rfl
        simp only [List.length_append] at this; omega
      | b :: r =>
        simp only
        rw [← hm, decodeRune_utf8 c hc]
        simp only [List.drop_left]
        rw [ih (fun c hc => hcs c (by simp [hc])) f (by omega)]

/-- **`[]rune` of well-formed UTF-8 is the text.** -/
theorem goRunes_utf8 (cs : List Nat) (hcs : ∀ c ∈ cs, isScalar c) : goRunes (utf8 cs) = cs :=
  goRunesAux_utf8 cs hcs _ (Nat.le_refl _)

theorem utf16OfRune_scalar (c : Nat) (hc : isScalar c) : utf16OfRune c = MycatSpec.charsOfScalar c := by
  unfold isScalar at hc
  unfold utf16OfRune MycatSpec.charsOfScalar
  by_cases h : c < 0x10000
  · have : c < 0xD800 ∨ (0xE000 ≤ c ∧ c < 0x10000) := by omega
    rw [if_pos this, if_pos h]
  · have h1 : ¬ (c < 0xD800 ∨ (0xE000 ≤ c ∧ c < 0x10000)) := by omega
    have h2 : 0x10000 ≤ c ∧ c ≤ 0x10FFFF := by omega
    have : (c - 0x10000) / 1024 % 1024 = (c - 0x10000) / 0x400 := by omega
    rw [if_neg h1, if_pos h2, if_neg h, this]

/-- **The code units the repaired Go code hashes are the `char`s of the Java String.** -/
theorem utf16Units_utf8 (cs : List Nat) (hcs : ∀ c ∈ cs, isScalar c) :
    utf16Units (utf8 cs) = MycatSpec.javaString cs := by
  unfold utf16Units
  rw [goRunes_utf8 cs hcs]
  unfold utf16Encode MycatSpec.javaString
  induction cs with
  | nil => rfl
  | cons c cs ih =>
    simp only [List.flatMap_cons]
    rw [utf16OfRune_scalar c (hcs c (by simp)), ih (fun c hc => hcs c (by simp [hc]))]

/-- ASCII text is its own UTF-8 and its own Java String. -/
theorem utf8_ascii (s : List Nat) (h : ∀ b ∈ s, b < 128) : utf8 s = s := by
  induction s with
  | nil => rfl
  | cons b bs ih =>
    have hb : b < 128 := h b (by simp)
    simp only [utf8, List.flatMap_cons] at ih ⊢
    rw [ih (fun c hc => h c (by simp [hc]))]
    simp [utf8OfScalar, hb]

theorem javaString_bmp (s : List Nat) (h : ∀ b ∈ s, b < 0x10000) : MycatSpec.javaString s = s := by
  induction s with
  | nil => rfl
  | cons b bs ih =>
    have hb : b < 0x10000 := h b (by simp)
    simp only [MycatSpec.javaString, List.flatMap_cons] at ih ⊢
    rw [ih (fun c hc => h c (by simp [hc]))]
    simp [MycatSpec.charsOfScalar, hb]

theorem isScalar_of_lt128 (b : Nat) (h : b < 128) : isScalar b := by unfold isScalar; omega

/-- The code units of ASCII text are its bytes. -/
theorem utf16Units_ascii (s : List Nat) (h : ∀ b ∈ s, b < 128) : utf16Units s = s := by
  have := utf16Units_utf8 s (fun c hc => isScalar_of_lt128 c (h c hc))
  rw [utf8_ascii s h, javaString_bmp s (fun b hb => by have := h b hb; omega)] at this
  exact this

end GaeaVerif.ShardLemmas
