import GaeaVerif.Lemmas.LexC17Scan
/-
  Helper lemmas for C17: the loop of `SplitStatementToPieces` over an item sequence.
-/
namespace GaeaVerif.LexC17
open GaeaVerif

theorem splitLoop_congr (blob : Bytes) (fuel : Nat) (fs fs' : List Frame) (sb : Nat) (e : Bool) (ps : List Bytes)
    (h : scan (scanFuel fs) fs = scan (scanFuel fs') fs') :
    splitLoop blob fuel fs sb e ps = splitLoop blob fuel fs' sb e ps := by
  cases fuel with
  | zero => rfl
  | succ n => simp only [splitLoop, h]

theorem slice_mid (pre cur r : Bytes) : slice (pre ++ cur ++ r) pre.length (pre.length + cur.length) = some cur := by
  simp only [slice, List.length_append]
  rw [if_pos ⟨by omega, by omega⟩]
  simp [List.append_assoc]

theorem item_render_ne (it : Item) (h : it.ok = true) : it.render ≠ [] := by
  cases it with
  | word bs => cases bs <;> simp_all [Item.ok, Item.render]
  | _ => simp_all [Item.ok, Item.render]

theorem render_length_ge : ∀ items : List Item, Safe items = true → items.length ≤ (render items).length := by
  intro items
  induction items with
  | nil => intro _; simp
  | cons it rest ih =>
    intro h
    simp only [Safe, Bool.and_eq_true] at h
    have := ih h.2
    have hne := item_render_ne it h.1.1
    have : 1 ≤ it.render.length := by
      cases hr : it.render with
      | nil => exact absurd hr hne
      | cons _ _ => simp
    rw [render_cons]
    simp only [List.length_cons, List.length_append]
    omega

theorem scanFuel_fr (r : Bytes) (o : Nat) : scanFuel [fr r o] = r.length + 3 := by
  simp [scanFuel, fr]

/-- `scan` with the fuel the splitter gives it, on an item sequence. -/
theorem scan_items' (items : List Item) (o : Nat) (hs : Safe items = true) (hx : noX items = true) :
    scan (scanFuel [fr (render items) o]) [fr (render items) o] =
      ⟨(nextTok items o).1, (nextTok items o).2.1, [fr (render (nextTok items o).2.2.1) (nextTok items o).2.2.2]⟩ :=
  scan_items items o _ hs hx (by rw [scanFuel_fr]; have := render_length_ge items hs; omega)

theorem splitLoop_items : ∀ (items : List Item) (pre cur : Bytes) (empty : Bool) (pieces : List Bytes) (fuel : Nat),
    Safe items = true → noX items = true → items.length + 1 ≤ fuel →
    splitLoop (pre ++ cur ++ render items) fuel [fr (render items) (pre.length + cur.length)] pre.length empty pieces
      = .ok (specLoop items cur empty pieces) false := by
  intro items
  induction items with
  | nil =>
    intro pre cur empty pieces fuel _ _ hf
    obtain ⟨fuel, rfl⟩ : ∃ f, fuel = f + 1 := ⟨fuel - 1, by simp at hf; omega⟩
    simp only [render, List.map_nil, List.flatten_nil, List.append_nil, splitLoop, List.length_append]
    cases cur with
    | nil => simp [specLoop]
    | cons c t =>
      rw [if_pos (by simp)]
      have hs := scan_items' [] (pre.length + (c :: t).length) (by simp [Safe]) (by simp [noX])
      simp only [render, List.map_nil, List.flatten_nil, nextTok] at hs
      rw [hs]
      simp only [List.getLast?_singleton, fr]
      rw [if_pos (by simp only [List.length_cons]; omega)]
      have := slice_mid pre (c :: t) []
      simp only [List.append_nil] at this
      rw [this]
      simp [specLoop]
  | cons it rest ih =>
    intro pre cur empty pieces fuel hsafe hnox hf
    simp only [List.length_cons] at hf
    obtain ⟨fuel, rfl⟩ : ∃ f, fuel = f + 1 := ⟨fuel - 1, by omega⟩
    have hsafe' := hsafe
    simp only [Safe, Bool.and_eq_true] at hsafe'
    obtain ⟨⟨hok, hsb⟩, hrest⟩ := hsafe'
    have hnox' : noX rest = true := by
      simp only [noX, List.all_cons, Bool.and_eq_true] at hnox; exact hnox.2
    have hne := item_render_ne it hok
    have hlen : 1 ≤ it.render.length := by
      cases hr : it.render with
      | nil => exact absurd hr hne
      | cons _ _ => simp
    by_cases htriv : it.isTrivia = true
    · -- white space or a comment: the same scan result as without it
      have hcongr := splitLoop_congr (pre ++ cur ++ render (it :: rest)) (fuel + 1)
        [fr (render (it :: rest)) (pre.length + cur.length)]
        [fr (render rest) (pre.length + (cur ++ it.render).length)] pre.length empty pieces
        (by
          rw [scan_items' (it :: rest) _ hsafe hnox, scan_items' rest _ hrest hnox']
          simp only [nextTok, htriv, if_true, List.length_append, Nat.add_assoc])
      rw [hcongr]
      have e : pre ++ cur ++ render (it :: rest) = pre ++ (cur ++ it.render) ++ render rest := by
        rw [render_cons]; simp [List.append_assoc]
      rw [e, ih pre (cur ++ it.render) empty pieces (fuel + 1) hrest hnox' (by omega)]
      have hnt : it.isToken = false := by cases it <;> simp_all [Item.isTrivia, Item.isToken]
      cases it <;> simp_all [specLoop, Item.isTrivia]
    · have hguard : pre.length < (pre ++ cur ++ render (it :: rest)).length := by
        rw [render_cons]; simp only [List.length_append]; omega
      simp only [splitLoop]
      rw [if_pos hguard, scan_items' (it :: rest) _ hsafe hnox]
      by_cases hsemi : it = .semi
      · subst hsemi
        simp only [nextTok, Item.isTrivia, Bool.false_eq_true, if_false, if_true, List.length_singleton]
        rw [if_neg (by omega)]
        have hsl : slice (pre ++ cur ++ render (Item.semi :: rest)) pre.length (pre.length + cur.length) = some cur :=
          slice_mid pre cur _
        rw [hsl]
        simp only
        have e : pre ++ cur ++ render (Item.semi :: rest) = (pre ++ cur ++ [0x3B]) ++ [] ++ render rest := by
          rw [render_cons]; simp [Item.render, List.append_assoc]
        have hl : (pre ++ cur ++ [(0x3B : UInt8)]).length = pre.length + cur.length + 1 := by simp; omega
        rw [e]
        have := ih (pre ++ cur ++ [0x3B]) [] true (if empty = true then pieces else pieces ++ [cur]) fuel hrest hnox' (by omega)
        rw [hl] at this
        simp only [List.length_nil, Nat.add_zero] at this
        simp only [List.append_nil] at this ⊢
        rw [this]
        simp [specLoop]
      · have hnx : it.isX = false := by
          simp only [noX, List.all_cons, Bool.and_eq_true, Bool.not_eq_true'] at hnox; exact hnox.1
        have htok : it.isToken = true := by cases it <;> simp_all [Item.isTrivia, Item.isToken, Item.isX]
        simp only [nextTok, htriv, Bool.false_eq_true, if_false, hsemi]
        have e : pre ++ cur ++ render (it :: rest) = pre ++ (cur ++ it.render) ++ render rest := by
          rw [render_cons]; simp [List.append_assoc]
        rw [e]
        have := ih pre (cur ++ it.render) false pieces fuel hrest hnox' (by omega)
        simp only [List.length_append, ← Nat.add_assoc] at this
        rw [this]
        cases it <;> simp_all [specLoop, Item.isToken, Item.isX]

end GaeaVerif.LexC17
