import GaeaVerif.Lemmas.SessConnsExt
/-
  Helper lemmas for C18 / C23: when do the two maps of the session keep their
  entries (the "pins")?  The maps only grow through the functions that take
  connections; the functions that recycle a connection leave the maps alone
  unless the connection is closed or the namespace was reloaded.
-/
namespace GaeaVerif.SessionConns

variable {q : Q} {cfg : Cfg} {L : CMap} {s s' : St} {ctx : Ctx}

/-! ## Taking connections: the maps only grow (no hypothesis) -/

theorem grow_getTransactionConn (sl : Nat) : MapsGrow s (getTransactionConn ctx sl s).1 := by
  unfold getTransactionConn
  split
  · exact MapsGrow.refl _
  · rename_i hget
    generalize poolGet ctx true sl s.w = p
    obtain ⟨w1, r⟩ := p
    cases r with
    | none => exact MapsGrow.refl _
    | some c =>
      simp only
      generalize call ctx .Y c w1 = pY
      obtain ⟨wY, rY⟩ := pY
      simp only
      split
      · exact MapsGrow.refl _
      · generalize (if s.autocommit then call ctx .B c wY else call ctx .A0 c wY) = pB
        obtain ⟨wB, rB⟩ := pB
        simp only
        split
        · exact MapsGrow.refl _
        · exact ⟨⟨[(sl, c)], put_of_not_mem (get?_none_iff.1 hget)⟩, ⟨[], by simp⟩⟩

theorem grow_getBackendKsConn (sl : Nat) : MapsGrow s (getBackendKsConn ctx sl s).1 := by
  unfold getBackendKsConn
  split
  · exact MapsGrow.refl _
  · rename_i hget
    generalize sliceGetConn ctx (ctx.cfg.user == .r) sl s.w = p
    obtain ⟨w1, r⟩ := p
    cases r with
    | none => exact MapsGrow.refl _
    | some c =>
      simp only
      generalize (if !s.autocommit then call ctx .A0 c w1 else (w1, Res.ok)) = pA
      obtain ⟨wA, rA⟩ := pA
      simp only
      split
      · exact MapsGrow.refl _
      · generalize (if s.isInTransaction then call ctx .B c wA else (wA, Res.ok)) = pB
        obtain ⟨wB, rB⟩ := pB
        simp only
        split
        · exact MapsGrow.refl _
        · exact ⟨⟨[], by simp⟩, ⟨[(sl, c)], put_of_not_mem (get?_none_iff.1 hget)⟩⟩

theorem grow_getBackendConn (fs : Bool) (sl : Nat) : MapsGrow s (getBackendConn ctx fs sl s).1 := by
  unfold getBackendConn
  split
  · exact grow_getBackendKsConn sl
  · unfold getBackendNoKsConn
    split
    · generalize sliceGetConn ctx fs sl s.w = p
      obtain ⟨w1, r⟩ := p
      cases r <;> exact MapsGrow.refl _
    · exact grow_getTransactionConn sl

theorem grow_getBackendConns (fs : Bool) : ∀ (sls : List Nat) (s : St) (pcs : CMap),
    MapsGrow s (getBackendConns ctx fs sls s pcs).1 := by
  intro sls
  induction sls with
  | nil => intro s pcs; exact MapsGrow.refl _
  | cons sl rest ih =>
    intro s pcs
    simp only [getBackendConns]
    have hg := grow_getBackendConn (ctx := ctx) (s := s) fs sl
    generalize getBackendConn ctx fs sl s = g at hg
    obtain ⟨s1, pc, err⟩ := g
    cases err with
    | true => exact hg
    | false =>
      cases pc with
      | none => exact hg
      | some c =>
        simp only
        split
        · exact hg
        · exact hg.trans (ih _ _)

theorem maps_recycleBackendConns (pcs : CMap) :
    (recycleBackendConns ctx pcs s).txConns = s.txConns ∧ (recycleBackendConns ctx pcs s).ksConns = s.ksConns := by
  unfold recycleBackendConns; split <;> exact ⟨rfl, rfl⟩

theorem MapsGrow.of_eq {a b : St} (h1 : b.txConns = a.txConns) (h2 : b.ksConns = a.ksConns) : MapsGrow a b :=
  ⟨⟨[], by simp [h1]⟩, ⟨[], by simp [h2]⟩⟩

theorem grow_executeSQLs (fs : Bool) (slices : List Nat) : MapsGrow s (executeSQLs ctx fs slices s).1 := by
  unfold executeSQLs
  split
  · exact MapsGrow.refl _
  · dsimp only
    generalize (iterOrder ctx.ord ((dedup slices).map fun k => (k, 0))).map (·.1) = keys
    have hg := grow_getBackendConns (ctx := ctx) fs keys s []
    generalize getBackendConns ctx fs keys s [] = g at hg
    obtain ⟨s1, pcs, got⟩ := g
    cases got with
    | panic => exact hg
    | err => exact hg.trans (MapsGrow.of_eq (maps_recycleBackendConns pcs).1 (maps_recycleBackendConns pcs).2)
    | ok =>
      simp only
      generalize execShard ctx (bySlice pcs).vals s1.w = x
      obtain ⟨w2, ok⟩ := x
      exact hg.trans (MapsGrow.of_eq (maps_recycleBackendConns (s := { s1 with w := w2 }) pcs).1
        (maps_recycleBackendConns (s := { s1 with w := w2 }) pcs).2)

/-! ## Recycling an open connection leaves the maps alone unless the namespace was reloaded -/

/-- the session does not drop its pinned connections now: it is not a
    keep-session one, or no reload happened since its last command -/
def NoClear (ctx : Ctx) (s : St) : Prop := ctx.cfg.ks = false ∨ s.nsCur ≤ s.nsOld

theorem clearKsConns_noReload (h : NoClear ctx s) : clearKsConns ctx s = s := by
  unfold clearKsConns
  rcases h with h | h
  · simp [h]
  · have : decide (s.nsCur > s.nsOld) = false := by simp; omega
    simp [this]

theorem maps_recycleBackendConn (pc : Option Nat) (hcl : ∀ c, pc = some c → isClosed c s.w = false)
    (hnr : NoClear ctx s) :
    (recycleBackendConn ctx pc s).txConns = s.txConns ∧ (recycleBackendConn ctx pc s).ksConns = s.ksConns := by
  unfold recycleBackendConn
  split
  · exact ⟨rfl, rfl⟩
  · rename_i c
    simp only [hcl c rfl, Bool.false_eq_true, if_false]
    split
    · exact ⟨rfl, rfl⟩
    · split
      · rw [clearKsConns_noReload hnr]; exact ⟨rfl, rfl⟩
      · split <;> exact ⟨rfl, rfl⟩

theorem maps_recycleContinueConn (pc : Option Nat) (hcl : ∀ c, pc = some c → isClosed c s.w = false)
    (hnr : NoClear ctx s) :
    (recycleContinueConn ctx pc s).txConns = s.txConns ∧ (recycleContinueConn ctx pc s).ksConns = s.ksConns := by
  unfold recycleContinueConn
  split
  · exact ⟨rfl, rfl⟩
  · rename_i c
    simp only [hcl c rfl, Bool.false_eq_true, if_false]
    split
    · rw [clearKsConns_noReload hnr]; exact ⟨rfl, rfl⟩
    · split <;> exact ⟨rfl, rfl⟩

theorem isClosed_executeUnshard_calm (ctx : Ctx) (hT : Calm ctx) (c d : Nat) (w : World) :
    isClosed d (executeUnshardSQLInSlice ctx c w).1 = isClosed d w := by
  unfold executeUnshardSQLInSlice executeSingleSQLInSlice
  have h1 := isClosed_call ctx .U c d w (call_ne_z_of_calm ctx hT _ _ _)
  have hnt1 : (call ctx .U c w).2 ≠ .t := by
    unfold call; split
    · simp
    · exact callRes_ne_t ctx hT.noT _ _
  generalize call ctx .U c w = p at h1 hnt1
  obtain ⟨w1, r1⟩ := p
  simp only at h1 hnt1 ⊢
  split
  · simp only [reduceCtorEq, if_false]; exact h1
  · have h2 := isClosed_call ctx .X c d w1 (call_ne_z_of_calm ctx hT _ _ _)
    have hnt2 : (call ctx .X c w1).2 ≠ .t := by
      unfold call; split
      · simp
      · exact callRes_ne_t ctx hT.noT _ _
    generalize call ctx .X c w1 = p2 at h2 hnt2
    obtain ⟨w2, r2⟩ := p2
    simp only at h2 hnt2 ⊢
    rw [if_neg hnt2]
    exact h2.trans h1

/-- a connection the session owns is open (histories without timeouts and ping failures) -/
theorem owned_open (hp : q.p = true) (h : Inv q cfg L s) {c : Nat} (hc : c ∈ (held s ++ L).vals) :
    isClosed c s.w = false := by
  obtain ⟨sl, hsl⟩ := mem_vals.1 hc
  obtain ⟨cn, hcn, h0, _⟩ := h.wi.out _ hsl
  simp only [isClosed, hcn]
  exact h.wi.open_of_out hp hcn h0

/-- what `getBackendConn` hands out is open -/
theorem got_open {sl : Nat} {pc : Option Nat} {err : Bool} {s1 : St} (hp : q.p = true)
    (hG : GotConn q cfg L sl s s1 pc err) : ∀ c, pc = some c → isClosed c s1.w = false := by
  intro c hc
  cases hG with
  | none hpc _ _ => rw [hpc] at hc; cases hc
  | held c' hpc _ hm hI =>
    rw [hpc] at hc; cases hc
    exact owned_open hp hI (by rw [vals_append]; exact List.mem_append_left _ (mem_vals.2 ⟨sl, hm⟩))
  | loc c' hpc _ _ _ _ _ _ hcl _ => rw [hpc] at hc; cases hc; exact hcl

theorem grow_executeSQL {sl : Nat} {fs : Bool} (hcfg : ctx.cfg = cfg) (hT : QH q ctx) (hp : q.p = true)
    (h : Inv q cfg [] s) (hnr : NoClear ctx s) :
    MapsGrow s (executeSQL ctx fs sl s).1 := by
  unfold executeSQL
  generalize hg : getBackendConn ctx fs sl s = g
  obtain ⟨s1, pc, err⟩ := g
  obtain ⟨hF, hMG, hG⟩ := inv_getBackendConn hcfg hT h (by simp [CMap.keys]) hg
  have hopen := got_open hp hG
  have hnr1 : NoClear ctx s1 := hnr.imp id (fun h => by rw [hF.nsCur, hF.nsOld]; exact h)
  simp only
  split
  · exact hMG.trans (MapsGrow.of_eq (maps_recycleBackendConn pc hopen hnr1).1 (maps_recycleBackendConn pc hopen hnr1).2)
  · cases pc with
    | none => exact hMG
    | some c =>
      simp only
      have hc1 := hopen c rfl
      simp only [hc1, Bool.false_eq_true, if_false]
      have hx := isClosed_executeUnshard_calm ctx (hT.p hp) c c s1.w
      generalize executeUnshardSQLInSlice ctx c s1.w = x at hx
      obtain ⟨w2, r⟩ := x
      simp only at hx ⊢
      have hc2 : isClosed c w2 = false := by rw [hx]; exact hc1
      have key : ∀ s2 : St, s2.w = w2 → s2.txConns = s1.txConns → s2.ksConns = s1.ksConns → s2.nsCur = s1.nsCur →
          s2.nsOld = s1.nsOld → MapsGrow s (recycleBackendConn ctx (some c) s2) := by
        intro s2 hw htx hks hn1 hn2
        have := maps_recycleBackendConn (ctx := ctx) (s := s2) (some c) (fun d hd => by cases hd; rw [hw]; exact hc2)
          (hnr1.imp id (fun h => by rw [hn1, hn2]; exact h))
        exact hMG.trans (MapsGrow.of_eq (this.1.trans htx) (this.2.trans hks))
      split
      · exact key _ rfl rfl rfl rfl rfl
      · split
        · exact key _ rfl rfl rfl rfl rfl
        · exact key _ rfl rfl rfl rfl rfl

theorem grow_handleFieldList (hcfg : ctx.cfg = cfg) (hT : QH q ctx) (hp : q.p = true)
    (h : Inv q cfg [] s) (hnr : NoClear ctx s) :
    MapsGrow s (handleFieldList ctx s).1 := by
  unfold handleFieldList
  generalize hg : getBackendConn ctx (ctx.cfg.user != .w) 0 s = g
  obtain ⟨s1, pc, err⟩ := g
  obtain ⟨hF, hMG, hG⟩ := inv_getBackendConn hcfg hT h (by simp [CMap.keys]) hg
  have hopen := got_open hp hG
  have hnr1 : NoClear ctx s1 := hnr.imp id (fun h => by rw [hF.nsCur, hF.nsOld]; exact h)
  cases err with
  | true => exact hMG
  | false =>
    cases pc with
    | none => exact hMG
    | some c =>
      simp only
      have hc1 := hopen c rfl
      have key : ∀ s2 : St, isClosed c s2.w = false → s2.txConns = s1.txConns → s2.ksConns = s1.ksConns →
          s2.nsCur = s1.nsCur → s2.nsOld = s1.nsOld → MapsGrow s (recycleBackendConn ctx (some c) s2) := by
        intro s2 hw htx hks hn1 hn2
        have := maps_recycleBackendConn (ctx := ctx) (s := s2) (some c) (fun d hd => by cases hd; exact hw)
          (hnr1.imp id (fun h => by rw [hn1, hn2]; exact h))
        exact hMG.trans (MapsGrow.of_eq (this.1.trans htx) (this.2.trans hks))
      have hU := isClosed_call ctx .U c c s1.w (call_ne_z_of_calm ctx (hT.p hp) _ _ _)
      generalize call ctx .U c s1.w = pU at hU
      obtain ⟨wU, rU⟩ := pU
      simp only at hU ⊢
      split
      · exact key _ (by simp only; rw [hU]; exact hc1) rfl rfl rfl rfl
      · have hFc := isClosed_call ctx .F c c wU (call_ne_z_of_calm ctx (hT.p hp) _ _ _)
        generalize call ctx .F c wU = pF at hFc
        obtain ⟨wF, rF⟩ := pF
        simp only at hFc ⊢
        exact key _ (by simp only; rw [hFc, hU]; exact hc1) rfl rfl rfl rfl

/-! ## Commands -/

theorem pingAll_ok {O : CMap} {M : List Nat} (ctx : Ctx) (hT : QH q ctx) (hp : q.p = true) :
    ∀ (cs : List Nat) (w : World), (∀ c ∈ cs, c ∈ O.vals) → WInv q O M w → (pingAll ctx cs w).2 = true := by
  intro cs
  induction cs with
  | nil => intro w _ _; rfl
  | cons c cs ih =>
    intro w hsub h
    have hok := call_ping_ok ctx hp hT h (hsub c (by simp))
    have h2 := wi_call ctx .P hT h (hsub c (by simp))
    simp only [pingAll]
    generalize call ctx .P c w = p at hok h2
    obtain ⟨w1, r⟩ := p
    simp only at hok h2 ⊢
    subst hok
    simp only [Res.isOk, if_true]
    exact ih w1 (fun d hd => hsub d (by simp [hd])) h2

theorem maps_handleKeepSessionPing (hT : QH q ctx) (hp : q.p = true) (h : Inv q cfg [] s) :
    (handleKeepSessionPing ctx s).1.txConns = s.txConns ∧ (handleKeepSessionPing ctx s).1.ksConns = s.ksConns ∧
    (handleKeepSessionPing ctx s).2 = true := by
  unfold handleKeepSessionPing
  have hok := pingAll_ok ctx hT hp (iterOrder ctx.ord s.ksConns).vals s.w
    (fun c hc => by simpa using ks_sub_held s c (iter_vals_sub _ _ c hc)) h.wi
  generalize pingAll ctx (iterOrder ctx.ord s.ksConns).vals s.w = p at hok
  obtain ⟨w1, ok⟩ := p
  simp only at hok
  subst hok
  exact ⟨rfl, rfl, rfl⟩

/-- commands after which the transaction connections must still be there -/
def Body.keepsTx : Body → Bool
  | .commit | .rollback | .ac true | .quit | .disc => false
  | _ => true

/-- the flags that commands do not touch -/
structure SameNs (s s' : St) : Prop where
  closed : s'.closed = s.closed
  nsOld : s'.nsOld = s.nsOld
  nsCtx : s'.nsCtx = s.nsCtx
  nsCur : s'.nsCur = s.nsCur

theorem SameFlagsC.toNs {a b : St} (h : SameFlagsC a b) : SameNs a b := ⟨h.closed, h.nsOld, h.nsCtx, h.nsCur⟩
theorem SameFlags.toNs {a b : St} (h : SameFlags a b) : SameNs a b := ⟨h.closed, h.nsOld, h.nsCtx, h.nsCur⟩

theorem ns_executeCommand (hcfg : ctx.cfg = cfg) (hT : QH q ctx) (b : Body) (h : Idle q cfg s) :
    SameNs s (executeCommand ctx b s).1 := by
  have hI := h.inv
  have hc := h.cont
  unfold executeCommand
  dsimp only
  cases b with
  | qu k =>
    dsimp only
    split
    · exact ⟨rfl, rfl, rfl, rfl⟩
    · exact (inv_executeSQL hcfg hT hI hc).2.toNs
  | qs k slices =>
    dsimp only
    split
    · exact ⟨rfl, rfl, rfl, rfl⟩
    · exact (inv_executeSQLs (fromSlave := checkExecuteFromSlave ctx.cfg.user k) (slices := slices) hcfg hT hI).2.toNs
  | «show» => exact (inv_executeSQL hcfg hT hI hc).2.toNs
  | fl => exact (inv_handleFieldList hcfg hT hI hc).2.toNs
  | begin =>
    show SameNs s (handleBegin ctx s).1
    unfold handleBegin; dsimp only; split
    · exact ⟨rfl, rfl, rfl, rfl⟩
    · split <;> exact ⟨rfl, rfl, rfl, rfl⟩
  | commit => exact ⟨rfl, rfl, rfl, rfl⟩
  | rollback => exact ⟨rfl, rfl, rfl, rfl⟩
  | ac v =>
    show SameNs s (handleSetAutoCommit ctx v s).1
    unfold handleSetAutoCommit; split <;> exact ⟨rfl, rfl, rfl, rfl⟩
  | sp n =>
    show SameNs s (handleSavepoint ctx false n s).1
    unfold handleSavepoint; dsimp only
    split
    · split
      · split <;> exact ⟨rfl, rfl, rfl, rfl⟩
      · exact ⟨rfl, rfl, rfl, rfl⟩
    · exact ⟨rfl, rfl, rfl, rfl⟩
  | rel n =>
    show SameNs s (handleSavepoint ctx true n s).1
    unfold handleSavepoint; dsimp only
    split
    · split
      · split <;> exact ⟨rfl, rfl, rfl, rfl⟩
      · exact ⟨rfl, rfl, rfl, rfl⟩
    · exact ⟨rfl, rfl, rfl, rfl⟩
  | rbt n =>
    show SameNs s (rollbackSavepoint ctx n s).1
    unfold rollbackSavepoint; dsimp only; split <;> exact ⟨rfl, rfl, rfl, rfl⟩
  | ping =>
    dsimp only
    split
    · show SameNs s (handleKeepSessionPing ctx s).1
      unfold handleKeepSessionPing; dsimp only; split <;> exact ⟨rfl, rfl, rfl, rfl⟩
    · exact ⟨rfl, rfl, rfl, rfl⟩
  | quit => exact ⟨rfl, rfl, rfl, rfl⟩
  | disc => exact ⟨rfl, rfl, rfl, rfl⟩
  | nsc => exact ⟨rfl, rfl, rfl, rfl⟩

/-- the pinned connections survive every command; the transaction connections
    survive the commands that do not end the transaction (histories without
    timeouts and ping failures, no reload pending) -/
theorem grow_executeCommand (hcfg : ctx.cfg = cfg) (hT : QH q ctx) (hp : q.p = true) (b : Body)
    (h : Idle q cfg s) (hnr : NoClear ctx s) :
    (∃ B, (executeCommand ctx b s).1.ksConns = s.ksConns ++ B) ∧
    (b.keepsTx = true → ∃ A, (executeCommand ctx b s).1.txConns = s.txConns ++ A) ∧
    (executeCommand ctx b s).2 ≠ .badconn := by
  have hI := h.inv
  have grow : ∀ {s1 : St}, MapsGrow s s1 → (∃ B, s1.ksConns = s.ksConns ++ B) ∧ (b.keepsTx = true → ∃ A, s1.txConns = s.txConns ++ A) :=
    fun hm => ⟨hm.2, fun _ => hm.1⟩
  have yes_ne : ∀ (r : Resp) (p : St × Bool), r ≠ .badconn → (if p.2 then r else Resp.err) ≠ .badconn := by
    intro r p hr; split
    · exact hr
    · simp
  unfold executeCommand
  dsimp only
  cases b with
  | qu k =>
    dsimp only
    split
    · exact ⟨⟨[], by simp⟩, fun _ => ⟨[], by simp⟩, by simp⟩
    · have := grow (grow_executeSQL (fs := checkExecuteFromSlave ctx.cfg.user k) (sl := 0) hcfg hT hp hI hnr)
      exact ⟨this.1, this.2, yes_ne _ _ (by split <;> simp)⟩
  | qs k slices =>
    dsimp only
    split
    · exact ⟨⟨[], by simp⟩, fun _ => ⟨[], by simp⟩, by simp⟩
    · have := grow (grow_executeSQLs (ctx := ctx) (s := s) (checkExecuteFromSlave ctx.cfg.user k) slices)
      exact ⟨this.1, this.2, yes_ne _ _ (by split <;> simp)⟩
  | «show» =>
    have := grow (grow_executeSQL (fs := (ctx.cfg.user != .w)) (sl := 0) hcfg hT hp hI hnr)
    exact ⟨this.1, this.2, yes_ne _ _ (by simp)⟩
  | fl =>
    have := grow (grow_handleFieldList hcfg hT hp hI hnr)
    exact ⟨this.1, this.2, yes_ne _ _ (by simp)⟩
  | begin =>
    have e : (handleBegin ctx s).1.ksConns = s.ksConns ∧ (handleBegin ctx s).1.txConns = s.txConns := by
      unfold handleBegin; dsimp only; split
      · exact ⟨rfl, rfl⟩
      · split <;> exact ⟨rfl, rfl⟩
    exact ⟨⟨[], by simpa using e.1⟩, fun _ => ⟨[], by simpa using e.2⟩, yes_ne _ _ (by simp)⟩
  | commit => exact ⟨⟨[], by simp [commit]⟩, fun hk => by simp [Body.keepsTx] at hk, yes_ne _ _ (by simp)⟩
  | rollback => exact ⟨⟨[], by simp [rollback]⟩, fun hk => by simp [Body.keepsTx] at hk, yes_ne _ _ (by simp)⟩
  | ac v =>
    have e : (handleSetAutoCommit ctx v s).1.ksConns = s.ksConns ∧
        (v = false → (handleSetAutoCommit ctx v s).1.txConns = s.txConns) := by
      unfold handleSetAutoCommit; split
      · rename_i hv; exact ⟨rfl, fun h => by rw [h] at hv; cases hv⟩
      · exact ⟨rfl, fun _ => rfl⟩
    refine ⟨⟨[], by simpa using e.1⟩, fun hk => ⟨[], ?_⟩, yes_ne _ _ (by simp)⟩
    cases v with
    | true => simp [Body.keepsTx] at hk
    | false => simpa using e.2 rfl
  | sp n =>
    have e : (handleSavepoint ctx false n s).1.ksConns = s.ksConns ∧ (handleSavepoint ctx false n s).1.txConns = s.txConns := by
      unfold handleSavepoint; dsimp only
      split
      · split
        · split <;> exact ⟨rfl, rfl⟩
        · exact ⟨rfl, rfl⟩
      · exact ⟨rfl, rfl⟩
    exact ⟨⟨[], by simpa using e.1⟩, fun _ => ⟨[], by simpa using e.2⟩, yes_ne _ _ (by simp)⟩
  | rel n =>
    have e : (handleSavepoint ctx true n s).1.ksConns = s.ksConns ∧ (handleSavepoint ctx true n s).1.txConns = s.txConns := by
      unfold handleSavepoint; dsimp only
      split
      · split
        · split <;> exact ⟨rfl, rfl⟩
        · exact ⟨rfl, rfl⟩
      · exact ⟨rfl, rfl⟩
    exact ⟨⟨[], by simpa using e.1⟩, fun _ => ⟨[], by simpa using e.2⟩, yes_ne _ _ (by simp)⟩
  | rbt n =>
    have e : (rollbackSavepoint ctx n s).1.ksConns = s.ksConns ∧ (rollbackSavepoint ctx n s).1.txConns = s.txConns := by
      unfold rollbackSavepoint; dsimp only; split <;> exact ⟨rfl, rfl⟩
    exact ⟨⟨[], by simpa using e.1⟩, fun _ => ⟨[], by simpa using e.2⟩, yes_ne _ _ (by simp)⟩
  | ping =>
    dsimp only
    split
    · obtain ⟨h1, h2, h3⟩ := maps_handleKeepSessionPing hT hp hI
      generalize handleKeepSessionPing ctx s = pp at h1 h2 h3
      obtain ⟨s1, ok⟩ := pp
      simp only at h1 h2 h3 ⊢
      subst h3
      exact ⟨⟨[], by simp [h2]⟩, fun _ => ⟨[], by simp [h1]⟩, by simp⟩
    · exact ⟨⟨[], by simp⟩, fun _ => ⟨[], by simp⟩, by simp⟩
  | quit => exact ⟨⟨[], by simp [rollback]⟩, fun hk => by simp [Body.keepsTx] at hk, by simp⟩
  | disc => exact ⟨⟨[], by simp⟩, fun hk => by simp [Body.keepsTx] at hk, by simp⟩
  | nsc => exact ⟨⟨[], by simp⟩, fun _ => ⟨[], by simp⟩, by simp⟩

theorem ns_recycleContinueConn (pc : Option Nat) : SameNs s (recycleContinueConn ctx pc s) := by
  unfold recycleContinueConn
  split
  · exact ⟨rfl, rfl, rfl, rfl⟩
  · dsimp only
    split
    · have := (flags_recycleTx (s := s) (ctx := ctx) ‹Nat›).toNs
      exact ⟨this.closed, this.nsOld, this.nsCtx, this.nsCur⟩
    · split
      · exact flags_clearKsConns.toNs
      · split <;> exact ⟨rfl, rfl, rfl, rfl⟩

/-- `writeResponse` leaves the maps alone -/
theorem maps_writeResponse (hT : QH q ctx) (hp : q.p = true) (r : Resp) (h : Mid q cfg s) (hnr : NoClear ctx s) :
    (writeResponse ctx r s).1.txConns = s.txConns ∧ (writeResponse ctx r s).1.ksConns = s.ksConns ∧
    SameNs s (writeResponse ctx r s).1 := by
  have e : (writeResponse ctx r s).1 =
      (fun s1 : St => ({ (recycleContinueConn ctx s1.continueConn s1) with continueConn := none } : St))
      (match s.continueConn with
       | some c => if (r == .res || r == .ok) && moreRows c s.w then { s with w := (call ctx .M c s.w).1 } else s
       | none => s) := rfl
  rw [e]
  generalize hs1 : (match s.continueConn with
       | some c => if (r == Resp.res || r == Resp.ok) && moreRows c s.w then { s with w := (call ctx .M c s.w).1 } else s
       | none => s) = s1
  have hsame : s1.txConns = s.txConns ∧ s1.ksConns = s.ksConns ∧ s1.nsCur = s.nsCur ∧ s1.nsOld = s.nsOld ∧
      s1.nsCtx = s.nsCtx ∧ s1.closed = s.closed ∧ s1.continueConn = s.continueConn := by
    rw [← hs1]; split
    · split <;> exact ⟨rfl, rfl, rfl, rfl, rfl, rfl, rfl⟩
    · exact ⟨rfl, rfl, rfl, rfl, rfl, rfl, rfl⟩
  have hopen : ∀ c, s1.continueConn = some c → isClosed c s1.w = false := by
    intro c hc
    rw [hsame.2.2.2.2.2.2] at hc
    have hcs : isClosed c s.w = false := by
      simp only [Mid, hc] at h
      rcases h with ⟨hm, hI⟩ | ⟨sl, _, _, hI⟩
      · exact owned_open hp hI (by simpa using hm)
      · exact owned_open hp hI (by simp [CMap.vals])
    rw [← hs1]; simp only [hc]
    split
    · simp only; rw [isClosed_call _ _ _ _ _ (call_ne_z_of_calm ctx (hT.p hp) _ _ _)]; exact hcs
    · exact hcs
  have hm := maps_recycleContinueConn (ctx := ctx) (s := s1) s1.continueConn hopen
    (hnr.imp id (fun h => by rw [hsame.2.2.1, hsame.2.2.2.1]; exact h))
  have hn := ns_recycleContinueConn (ctx := ctx) (s := s1) s1.continueConn
  simp only
  refine ⟨hm.1.trans hsame.1, hm.2.trans hsame.2.1, ?_⟩
  exact ⟨hn.closed.trans hsame.2.2.2.2.2.1, hn.nsOld.trans hsame.2.2.2.1, hn.nsCtx.trans hsame.2.2.2.2.1,
    hn.nsCur.trans hsame.2.2.1⟩

theorem shouldClear_false (h : ctx.cfg.ks = false ∨ s.nsCtx ≤ s.nsOld) : shouldClear ctx s = false := by
  unfold shouldClear
  rcases h with h | h
  · simp [h]
  · have : decide (s.nsCtx > s.nsOld) = false := by simp; omega
    simp [this]

/-- one command, no reload pending, no timeout and no ping failure: the session
    stays open, its pinned connections stay, and its transaction connections
    stay unless the command ends the transaction -/
theorem grow_runCommand (hcfg : ctx.cfg = cfg) (hT : QH q ctx) (hp : q.p = true) (b : Body) (hb : b ≠ .quit)
    (h : Idle q cfg s) (hncl : s.closed = false) (hnr : NoClear ctx s) :
    (∃ B, (runCommand ctx b s).1.ksConns = s.ksConns ++ B) ∧
    (b.keepsTx = true → ∃ A, (runCommand ctx b s).1.txConns = s.txConns ++ A) ∧
    (runCommand ctx b s).1.closed = false ∧ (runCommand ctx b s).1.nsCur ≤ (runCommand ctx b s).1.nsOld := by
  unfold runCommand
  dsimp only
  have e1 : clearKsConns ctx { s with nsCtx := s.nsCur } = { s with nsCtx := s.nsCur } :=
    clearKsConns_noReload (s := { s with nsCtx := s.nsCur }) hnr
  rw [e1]
  have h0 : Idle q cfg { s with nsCtx := s.nsCur } := idle_of_eq_fields h rfl rfl rfl rfl rfl rfl rfl
  generalize hs2 : (if !({ s with nsCtx := s.nsCur } : St).isInTransaction then
      { ({ s with nsCtx := s.nsCur } : St) with nsOld := ({ s with nsCtx := s.nsCur } : St).nsCtx }
      else ({ s with nsCtx := s.nsCur } : St)) = s2
  have f2 : s2.txConns = s.txConns ∧ s2.ksConns = s.ksConns ∧ s2.closed = false ∧ NoClear ctx s2 ∧
      s2.nsCtx = s2.nsCur ∧ Idle q cfg s2 := by
    rw [← hs2]; split
    · exact ⟨rfl, rfl, hncl, Or.inr (Nat.le_refl _), rfl, idle_of_eq_fields h0 rfl rfl rfl rfl rfl rfl rfl⟩
    · exact ⟨rfl, rfl, hncl, hnr, rfl, h0⟩
  obtain ⟨htx2, hks2, hcl2, hnr2, hctx2, hI2⟩ := f2
  have hsc2 : shouldClear ctx s2 = false := shouldClear_false (hnr2.imp id (fun h => by rw [hctx2]; exact h))
  simp only [hsc2, Bool.false_eq_true, if_false]
  obtain ⟨hgk, hgt, hresp⟩ := grow_executeCommand hcfg hT hp b hI2 hnr2
  have hns3 := ns_executeCommand hcfg hT b hI2
  have hmid := mid_executeCommand hcfg hT b hI2
  generalize executeCommand ctx b s2 = p3 at hgk hgt hresp hns3 hmid
  obtain ⟨s3, r⟩ := p3
  simp only at hgk hgt hresp hns3 hmid ⊢
  have hnr3 : NoClear ctx s3 := hnr2.imp id (fun h => by rw [hns3.nsCur, hns3.nsOld]; exact h)
  obtain ⟨hwt, hwk, hns4⟩ := maps_writeResponse (ctx := ctx) hT hp r hmid hnr3
  have hdel : (writeResponse ctx r s3).2 = true := by
    unfold writeResponse; simp only [bne_iff_ne, ne_eq, decide_eq_true_eq]; exact hresp
  generalize writeResponse ctx r s3 = p4 at hwt hwk hns4 hdel
  obtain ⟨s4, delivered⟩ := p4
  simp only at hwt hwk hns4 hdel ⊢
  subst hdel
  have hsc4 : shouldClear ctx s4 = false :=
    shouldClear_false (hnr2.imp id (fun h => by rw [hns4.nsCtx, hns4.nsOld, hns3.nsCtx, hns3.nsOld, hctx2]; exact h))
  have hbq : (b == Body.quit) = false := by simpa using hb
  simp only [Bool.not_true, Bool.false_eq_true, if_false, hbq, hsc4, Bool.or_self]
  refine ⟨?_, ?_, ?_, ?_⟩
  · obtain ⟨B, hB⟩ := hgk
    exact ⟨B, by rw [hwk, hB, hks2]⟩
  · intro hk
    obtain ⟨A, hA⟩ := hgt hk
    exact ⟨A, by rw [hwt, hA, htx2]⟩
  · rw [hns4.closed, hns3.closed]; exact hcl2
  · show s4.nsCur ≤ s4.nsCtx
    rw [hns4.nsCur, hns4.nsCtx, hns3.nsCur, hns3.nsCtx, hctx2]; exact Nat.le_refl _

theorem writeResponse_none (r : Resp) (hc : s.continueConn = none) :
    (writeResponse ctx r s).1 = { s with continueConn := none } := by
  unfold writeResponse
  simp only [hc, recycleContinueConn]

/-- COMMIT, ROLLBACK and autocommit=1 outside keep-session mode leave no transaction connection -/
theorem endTx_runCommand (hks : ctx.cfg.ks = false) (b : Body)
    (hb : b = .commit ∨ b = .rollback ∨ b = .ac true) (hcont : s.continueConn = none) :
    (runCommand ctx b s).1.txConns = [] := by
  unfold runCommand
  dsimp only
  rw [clearKsConns_noReload (s := { s with nsCtx := s.nsCur }) (Or.inl hks)]
  generalize hs2 : (if !({ s with nsCtx := s.nsCur } : St).isInTransaction then
      { ({ s with nsCtx := s.nsCur } : St) with nsOld := ({ s with nsCtx := s.nsCur } : St).nsCtx }
      else ({ s with nsCtx := s.nsCur } : St)) = s2
  have hc2 : s2.continueConn = none := by rw [← hs2]; split <;> exact hcont
  simp only [shouldClear_false (ctx := ctx) (s := s2) (Or.inl hks), Bool.false_eq_true, if_false]
  have hex : (executeCommand ctx b s2).1.txConns = [] ∧ (executeCommand ctx b s2).1.continueConn = none ∧
      (executeCommand ctx b s2).2 ≠ .badconn := by
    rcases hb with hb | hb | hb <;> subst hb
    · exact ⟨rfl, hc2, by simp only [executeCommand]; split <;> simp⟩
    · exact ⟨rfl, hc2, by simp only [executeCommand]; split <;> simp⟩
    · refine ⟨?_, ?_, by simp only [executeCommand]; split <;> simp⟩
      · show (handleSetAutoCommit ctx true s2).1.txConns = []
        simp [handleSetAutoCommit]
      · show (handleSetAutoCommit ctx true s2).1.continueConn = none
        simp [handleSetAutoCommit, hc2]
  generalize executeCommand ctx b s2 = p3 at hex
  obtain ⟨s3, r⟩ := p3
  obtain ⟨h3t, h3c, h3r⟩ := hex
  simp only at h3t h3c h3r ⊢
  have hdel : (writeResponse ctx r s3).2 = true := by
    unfold writeResponse; simp only [bne_iff_ne, ne_eq, decide_eq_true_eq]; exact h3r
  have hw := writeResponse_none (ctx := ctx) r h3c
  generalize writeResponse ctx r s3 = p4 at hw hdel
  obtain ⟨s4, d⟩ := p4
  simp only at hw hdel ⊢
  subst hdel; subst hw
  have hbq : (b == Body.quit) = false := by rcases hb with hb | hb | hb <;> subst hb <;> rfl
  simp only [Bool.not_true, Bool.false_eq_true, if_false, hbq, Bool.false_or,
    shouldClear_false (ctx := ctx) (s := { s3 with continueConn := none }) (Or.inl hks)]
  exact h3t

/-! ## The connections COMMIT is sent to -/

/-- connections that received the backend call `k`, newest first -/
def callsOn (k : CK) (tr : List Event) : List Nat :=
  tr.filterMap fun e =>
    match e with
    | .call k' c _ => if k' = k then some c else none
    | _ => none

theorem callsOn_recycle (k : CK) (c : Nat) (w : World) : callsOn k (recycle c w).trace = callsOn k w.trace := by
  unfold recycle
  split
  · rfl
  · simp [callsOn, World.emit]

theorem callsOn_call_same (ctx : Ctx) (k : CK) {c : Nat} {w : World} {cn : Conn} (hcn : w.conns[c]? = some cn) :
    callsOn k (call ctx k c w).1.trace = c :: callsOn k w.trace := by
  simp [call, hcn, callsOn, World.emit]

theorem callsOn_commitTx (ctx : Ctx) {c : Nat} {w : World} {cn : Conn} (hcn : w.conns[c]? = some cn) :
    callsOn .C (commitTx ctx c w).1.trace = c :: callsOn .C w.trace := by
  unfold commitTx
  have h := callsOn_call_same ctx .C hcn
  generalize call ctx .C c w = p at h
  obtain ⟨w1, r⟩ := p
  simp only at h ⊢
  rw [callsOn_recycle]; exact h

theorem callsOn_eachCommitTx (ctx : Ctx) (m : Bool → Bool → Bool) :
    ∀ (cs : List Nat) (w : World) (b : Bool), (∀ c ∈ cs, ∃ cn : Conn, w.conns[c]? = some cn) →
      callsOn .C (eachConn (commitTx ctx) m cs (w, b)).1.trace = cs.reverse ++ callsOn .C w.trace := by
  intro cs
  induction cs with
  | nil => intro w b _; simp [eachConn]
  | cons c cs ih =>
    intro w b hv
    obtain ⟨cn, hcn⟩ := hv c (by simp)
    have h1 := callsOn_commitTx ctx hcn
    have hext : Ext w (commitTx ctx c w).1 := ext_commitTx ctx c w
    have hv' : ∀ d ∈ cs, ∃ dn : Conn, (commitTx ctx c w).1.conns[d]? = some dn := by
      intro d hd
      obtain ⟨dn, hdn⟩ := hv d (by simp [hd])
      obtain ⟨dn', hdn', _⟩ := hext d dn hdn
      exact ⟨dn', hdn'⟩
    simp only [eachConn]
    split
    · rename_i w1 r heq
      rw [heq] at h1 hv'
      rw [ih w1 _ hv', h1]; simp
    · rename_i w1 heq
      rw [heq] at h1 hv'
      rw [ih w1 _ hv', h1]; simp

/-- outside keep-session mode, with no streamed result pending: the world after
    one command is the world `executeCommand` leaves -/
theorem runCommand_w_noks (hks : ctx.cfg.ks = false) (b : Body) (hb : b = .commit ∨ b = .rollback ∨ b = .ac true)
    (hcont : s.continueConn = none) :
    ∃ s2 : St, s2.w = s.w ∧ s2.txConns = s.txConns ∧ s2.ksConns = s.ksConns ∧
      (runCommand ctx b s).1.w = (executeCommand ctx b s2).1.w := by
  unfold runCommand
  dsimp only
  rw [clearKsConns_noReload (s := { s with nsCtx := s.nsCur }) (Or.inl hks)]
  generalize hs2 : (if !({ s with nsCtx := s.nsCur } : St).isInTransaction then
      { ({ s with nsCtx := s.nsCur } : St) with nsOld := ({ s with nsCtx := s.nsCur } : St).nsCtx }
      else ({ s with nsCtx := s.nsCur } : St)) = s2
  have hc2 : s2.continueConn = none ∧ s2.w = s.w ∧ s2.txConns = s.txConns ∧ s2.ksConns = s.ksConns := by
    rw [← hs2]; split <;> exact ⟨hcont, rfl, rfl, rfl⟩
  refine ⟨s2, hc2.2.1, hc2.2.2.1, hc2.2.2.2, ?_⟩
  simp only [shouldClear_false (ctx := ctx) (s := s2) (Or.inl hks), Bool.false_eq_true, if_false]
  have hex : (executeCommand ctx b s2).1.continueConn = none ∧ (executeCommand ctx b s2).2 ≠ .badconn := by
    rcases hb with hb | hb | hb <;> subst hb
    · exact ⟨hc2.1, by simp only [executeCommand]; split <;> simp⟩
    · exact ⟨hc2.1, by simp only [executeCommand]; split <;> simp⟩
    · refine ⟨?_, by simp only [executeCommand]; split <;> simp⟩
      show (handleSetAutoCommit ctx true s2).1.continueConn = none
      simp [handleSetAutoCommit, hc2.1]
  generalize executeCommand ctx b s2 = p3 at hex
  obtain ⟨s3, r⟩ := p3
  obtain ⟨h3c, h3r⟩ := hex
  simp only at h3c h3r ⊢
  have hdel : (writeResponse ctx r s3).2 = true := by
    unfold writeResponse; simp only [bne_iff_ne, ne_eq, decide_eq_true_eq]; exact h3r
  have hw := writeResponse_none (ctx := ctx) r h3c
  generalize writeResponse ctx r s3 = p4 at hw hdel
  obtain ⟨s4, d⟩ := p4
  simp only at hw hdel ⊢
  subst hdel; subst hw
  have hbq : (b == Body.quit) = false := by rcases hb with hb | hb | hb <;> subst hb <;> rfl
  simp only [Bool.not_true, Bool.false_eq_true, if_false, hbq, Bool.false_or,
    shouldClear_false (ctx := ctx) (s := { s3 with continueConn := none }) (Or.inl hks)]

/-- the command operations -/
def Body.isCommand : Body → Bool
  | .nsc | .disc => false
  | _ => true

theorem grow_step (cfg : Cfg) (op : Op) (hT : QHOp q op) (hp : q.p = true)
    (hcmd : op.body.isCommand = true) (hq : op.body ≠ .quit)
    (h : Idle q cfg s) (hncl : s.closed = false) (hnr : cfg.ks = false ∨ s.nsCur ≤ s.nsOld) :
    (∃ B, (step cfg s op).1.ksConns = s.ksConns ++ B) ∧
    (op.body.keepsTx = true → ∃ A, (step cfg s op).1.txConns = s.txConns ++ A) ∧
    (step cfg s op).1.closed = false ∧ (step cfg s op).1.nsCur ≤ (step cfg s op).1.nsOld := by
  have h0 : Idle q cfg { s with w := { s.w with trace := [] } } := idle_of_eq_fields h rfl rfl rfl rfl rfl rfl rfl
  have key := grow_runCommand (ctx := { cfg := cfg, ord := op.ord, faults := op.faults }) rfl (hT.toCtx cfg) hp
    op.body hq h0 hncl hnr
  have e : (step cfg s op).1 = (runCommand { cfg := cfg, ord := op.ord, faults := op.faults } op.body
      { s with w := { s.w with trace := [] } }).1 := by
    unfold step
    dsimp only
    simp only [hncl, Bool.false_eq_true, if_false]
    split
    · rename_i hb; rw [hb] at hcmd; simp [Body.isCommand] at hcmd
    · rename_i hb; rw [hb] at hcmd; simp [Body.isCommand] at hcmd
    · rfl
  rw [e]
  exact key

end GaeaVerif.SessionConns
