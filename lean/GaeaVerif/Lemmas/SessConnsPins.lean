import GaeaVerif.Lemmas.SessConnsExt
/-
  Helper lemmas for C18 / C23: when do the two maps of the session keep their
  entries (the "pins")?  The maps only grow through the functions that take
  connections; the functions that recycle a connection leave the maps alone
  unless the connection is closed or the namespace was reloaded.
-/
namespace GaeaVerif.SessionConns

variable {q : Q} {cfg : Cfg} {L : CMap} {s s' : St} {ctx : Ctx}

/-! ## Taking connections: the maps only grow (no hypothesis) -/

theorem grow_getTransactionConn (sl : Nat) : MapsGrow s (getTransactionConn ctx sl s).1 := by
  unfold getTransactionConn
  split
  · exact MapsGrow.refl _
  · rename_i hget
    generalize poolGet ctx true sl s.w = p
    obtain ⟨w1, r⟩ := p
    cases r with
    | none => exact MapsGrow.refl _
    | some c =>
      simp only
      generalize call ctx .Y c w1 = pY
      obtain ⟨wY, rY⟩ := pY
      simp only
      split
      · exact MapsGrow.refl _
      · generalize (if s.autocommit then call ctx .B c wY else call ctx .A0 c wY) = pB
        obtain ⟨wB, rB⟩ := pB
        simp only
        split
        · exact MapsGrow.refl _
        · exact ⟨⟨[(sl, c)], put_of_not_mem (get?_none_iff.1 hget)⟩, ⟨[], by simp⟩⟩

theorem grow_getBackendKsConn (sl : Nat) : MapsGrow s (getBackendKsConn ctx sl s).1 := by
  unfold getBackendKsConn
  split
  · exact MapsGrow.refl _
  · rename_i hget
    generalize sliceGetConn ctx false sl s.w = p
    obtain ⟨w1, r⟩ := p
    cases r with
    | none => exact MapsGrow.refl _
    | some c =>
      simp only
      generalize (if !s.autocommit then call ctx .A0 c w1 else (w1, Res.ok)) = pA
      obtain ⟨wA, rA⟩ := pA
      simp only
      split
      · exact MapsGrow.refl _
      · generalize (if s.isInTransaction then call ctx .B c wA else (wA, Res.ok)) = pB
        obtain ⟨wB, rB⟩ := pB
        simp only
        split
        · exact MapsGrow.refl _
        · exact ⟨⟨[], by simp⟩, ⟨[(sl, c)], put_of_not_mem (get?_none_iff.1 hget)⟩⟩

theorem grow_getBackendConn (fs : Bool) (sl : Nat) : MapsGrow s (getBackendConn ctx fs sl s).1 := by
  unfold getBackendConn
  split
  · exact grow_getBackendKsConn sl
  · unfold getBackendNoKsConn
    split
    · generalize sliceGetConn ctx fs sl s.w = p
      obtain ⟨w1, r⟩ := p
      cases r <;> exact MapsGrow.refl _
    · exact grow_getTransactionConn sl

theorem grow_getBackendConns (fs : Bool) : ∀ (sls : List Nat) (s : St) (pcs : CMap),
    MapsGrow s (getBackendConns ctx fs sls s pcs).1 := by
  intro sls
  induction sls with
  | nil => intro s pcs; exact MapsGrow.refl _
  | cons sl rest ih =>
    intro s pcs
    simp only [getBackendConns]
    have hg := grow_getBackendConn (ctx := ctx) (s := s) fs sl
    generalize getBackendConn ctx fs sl s = g at hg
    obtain ⟨s1, pc, err⟩ := g
    cases err with
    | true => exact hg
    | false =>
      cases pc with
      | none => exact hg
      | some c =>
        simp only
        split
        · exact hg
        · exact hg.trans (ih _ _)

theorem maps_recycleBackendConns (pcs : CMap) :
    (recycleBackendConns ctx pcs s).txConns = s.txConns ∧ (recycleBackendConns ctx pcs s).ksConns = s.ksConns := by
  unfold recycleBackendConns; split <;> exact ⟨rfl, rfl⟩

theorem MapsGrow.of_eq {a b : St} (h1 : b.txConns = a.txConns) (h2 : b.ksConns = a.ksConns) : MapsGrow a b :=
  ⟨⟨[], by simp [h1]⟩, ⟨[], by simp [h2]⟩⟩

theorem grow_executeSQLs (fs rs : Bool) (slices : List Nat) : MapsGrow s (executeSQLs ctx fs rs slices s).1 := by
  unfold executeSQLs
  split
  · exact MapsGrow.refl _
  · dsimp only
    generalize (iterOrder ctx.ord ((dedup slices).map fun k => (k, 0))).map (·.1) = keys
    have hg := grow_getBackendConns (ctx := ctx) fs keys s []
    generalize getBackendConns ctx fs keys s [] = g at hg
    obtain ⟨s1, pcs, got⟩ := g
    cases got with
    | panic => exact hg
    | err => exact hg.trans (MapsGrow.of_eq (maps_recycleBackendConns pcs).1 (maps_recycleBackendConns pcs).2)
    | ok =>
      simp only
      generalize execShard ctx rs (bySlice pcs).vals s1.w = x
      obtain ⟨w2, ok⟩ := x
      exact hg.trans (MapsGrow.of_eq (maps_recycleBackendConns (s := { s1 with w := w2 }) pcs).1
        (maps_recycleBackendConns (s := { s1 with w := w2 }) pcs).2)

/-! ## Recycling an open connection leaves the maps alone unless the namespace was reloaded -/

/-- the session does not drop its pinned connections now: it is not a
    keep-session one, or no reload happened since its last command -/
def NoClear (ctx : Ctx) (s : St) : Prop := ctx.cfg.ks = false ∨ s.nsCur ≤ s.nsOld

theorem clearKsConns_noReload (h : NoClear ctx s) : clearKsConns ctx s = s := by
  unfold clearKsConns
  rcases h with h | h
  · simp [h]
  · have : decide (s.nsCur > s.nsOld) = false := by simp; omega
    simp [this]

/-! ## What the functions that recycle keep of the two maps (every history)

  `Keep s s'`: the transaction's connections all stay (the map only grows); a
  pinned connection stays too, unless it is closed and the session is outside a
  transaction (a lost connection of a transaction stays where it is: the
  session is then closed at the end of the command, `txConnLost`). -/

theorem isClosed_ext {w w' : World} (h : Ext w w') {c : Nat} (hc : isClosed c w = true) : isClosed c w' = true := by
  unfold isClosed at hc ⊢
  cases hcn : w.conns[c]? with
  | none => simp [hcn] at hc
  | some cn =>
    simp only [hcn] at hc
    obtain ⟨cn', hcn', _, _, _, hcl⟩ := h c cn hcn
    simp only [hcn']; exact hcl hc

def TxGrow (s s' : St) : Prop := ∃ A, s'.txConns = s.txConns ++ A

def KeepKs (s s' : St) : Prop :=
  ∀ e ∈ s.ksConns, e ∈ s'.ksConns ∨ (isClosed e.2 s'.w = true ∧ s.isInTransaction = false)

def Keep (s s' : St) : Prop := TxGrow s s' ∧ KeepKs s s'

theorem KeepKs.of_eq {a b : St} (h : b.ksConns = a.ksConns) : KeepKs a b :=
  fun e he => Or.inl (by rw [h]; exact he)

theorem Keep.refl (s : St) : Keep s s := ⟨⟨[], by simp⟩, fun _ he => Or.inl he⟩

theorem Keep.of_grow {a b : St} (h : MapsGrow a b) : Keep a b := by
  obtain ⟨hA, ⟨B, hB⟩⟩ := h
  exact ⟨hA, fun e he => Or.inl (by rw [hB]; exact List.mem_append_left _ he)⟩

theorem Keep.of_eq {a b : St} (h1 : b.txConns = a.txConns) (h2 : b.ksConns = a.ksConns) : Keep a b :=
  Keep.of_grow (MapsGrow.of_eq h1 h2)

/-- a step that only takes connections, then one that keeps them -/
theorem Keep.after_grow {a b c : St} (hg : MapsGrow a b) (hin : b.isInTransaction = a.isInTransaction)
    (hk : Keep b c) : Keep a c := by
  obtain ⟨⟨A, hA⟩, ⟨B, hB⟩⟩ := hg
  obtain ⟨⟨A', hA'⟩, hks⟩ := hk
  refine ⟨⟨A ++ A', by rw [hA', hA, List.append_assoc]⟩, ?_⟩
  intro e he
  rcases hks e (by rw [hB]; exact List.mem_append_left _ he) with h | ⟨h1, h2⟩
  · exact Or.inl h
  · exact Or.inr ⟨h1, by rw [← hin]; exact h2⟩

theorem Keep.congr_left {a b c : St} (htx : b.txConns = a.txConns) (hks : b.ksConns = a.ksConns)
    (hin : b.isInTransaction = a.isInTransaction) (hk : Keep b c) : Keep a c := by
  obtain ⟨⟨A, hA⟩, hk2⟩ := hk
  refine ⟨⟨A, by rw [hA, htx]⟩, ?_⟩
  intro e he
  rcases hk2 e (by rw [hks]; exact he) with h | ⟨h1, h2⟩
  · exact Or.inl h
  · exact Or.inr ⟨h1, by rw [← hin]; exact h2⟩

theorem keep_recycleBackendConn (pc : Option Nat) (hnr : NoClear ctx s) : Keep s (recycleBackendConn ctx pc s) := by
  unfold recycleBackendConn
  split
  · exact Keep.refl _
  · rename_i c
    dsimp only
    split
    · rename_i hcl
      by_cases hin : s.isInTransaction = true
      · rw [if_pos hin]; exact Keep.refl _
      · rw [if_neg hin]
        refine ⟨⟨[], by simp [forgetKsConn]⟩, ?_⟩
        intro e he
        by_cases hec : e.2 = c
        · right
          refine ⟨?_, by simpa using hin⟩
          rw [hec]
          exact isClosed_ext (ext_recycle c s.w) hcl
        · left
          simp only [forgetKsConn, List.mem_filter, bne_iff_ne, ne_eq]
          exact ⟨he, hec⟩
    · split
      · exact Keep.refl _
      · split
        · rw [clearKsConns_noReload hnr]; exact Keep.refl _
        · split
          · exact Keep.refl _
          · exact Keep.of_eq rfl rfl

theorem keep_recycleContinueConn (pc : Option Nat) (hnr : NoClear ctx s) : Keep s (recycleContinueConn ctx pc s) := by
  unfold recycleContinueConn
  split
  · exact Keep.refl _
  · rename_i c
    dsimp only
    split
    · rename_i hcl
      by_cases hin : s.isInTransaction = true
      · rw [if_pos hin]; exact Keep.refl _
      · rw [if_neg hin]
        refine ⟨⟨[], by simp [forgetKsConn]⟩, ?_⟩
        intro e he
        by_cases hec : e.2 = c
        · right
          refine ⟨?_, by simpa using hin⟩
          rw [hec]
          exact isClosed_ext (ext_recycle c s.w) hcl
        · left
          simp only [forgetKsConn, List.mem_filter, bne_iff_ne, ne_eq]
          exact ⟨he, hec⟩
    · split
      · rw [clearKsConns_noReload hnr]; exact Keep.refl _
      · split
        · exact Keep.refl _
        · exact Keep.of_eq rfl rfl

theorem keep_executeSQL {sl : Nat} {fs : Bool} (hcfg : ctx.cfg = cfg) (hT : QH q ctx)
    (h : Inv q cfg [] s) (hnr : NoClear ctx s) :
    Keep s (executeSQL ctx fs sl s).1 := by
  unfold executeSQL
  generalize hg : getBackendConn ctx fs sl s = g
  obtain ⟨s1, pc, err⟩ := g
  obtain ⟨hF, hMG, _⟩ := inv_getBackendConn hcfg hT h (by simp [CMap.keys]) hg
  have hnr1 : NoClear ctx s1 := hnr.imp id (fun h => by rw [hF.nsCur, hF.nsOld]; exact h)
  have key : ∀ (pc' : Option Nat) (s2 : St), s2.txConns = s1.txConns → s2.ksConns = s1.ksConns →
      s2.nsCur = s1.nsCur → s2.nsOld = s1.nsOld → s2.isInTransaction = s1.isInTransaction →
      Keep s (recycleBackendConn ctx pc' s2) := by
    intro pc' s2 htx hks hn1 hn2 hin
    have hk := keep_recycleBackendConn (ctx := ctx) (s := s2) pc' (hnr1.imp id (fun h => by rw [hn1, hn2]; exact h))
    exact Keep.after_grow hMG hF.inTx (Keep.congr_left htx hks hin hk)
  simp only
  split
  · exact key pc s1 rfl rfl rfl rfl rfl
  · cases pc with
    | none => exact Keep.of_grow hMG
    | some c =>
      simp only
      split
      · exact key _ s1 rfl rfl rfl rfl rfl
      · generalize executeUnshardSQLInSlice ctx c s1.w = x
        obtain ⟨w2, r⟩ := x
        simp only
        split
        · exact key _ _ rfl rfl rfl rfl rfl
        · split
          · exact key _ _ rfl rfl rfl rfl rfl
          · exact key _ _ rfl rfl rfl rfl rfl

theorem keep_handleFieldList (hcfg : ctx.cfg = cfg) (hT : QH q ctx)
    (h : Inv q cfg [] s) (hnr : NoClear ctx s) :
    Keep s (handleFieldList ctx s).1 := by
  unfold handleFieldList
  generalize hg : getBackendConn ctx (ctx.cfg.user != .w) 0 s = g
  obtain ⟨s1, pc, err⟩ := g
  obtain ⟨hF, hMG, _⟩ := inv_getBackendConn hcfg hT h (by simp [CMap.keys]) hg
  have hnr1 : NoClear ctx s1 := hnr.imp id (fun h => by rw [hF.nsCur, hF.nsOld]; exact h)
  have key : ∀ (pc' : Option Nat) (s2 : St), s2.txConns = s1.txConns → s2.ksConns = s1.ksConns →
      s2.nsCur = s1.nsCur → s2.nsOld = s1.nsOld → s2.isInTransaction = s1.isInTransaction →
      Keep s (recycleBackendConn ctx pc' s2) := by
    intro pc' s2 htx hks hn1 hn2 hin
    have hk := keep_recycleBackendConn (ctx := ctx) (s := s2) pc' (hnr1.imp id (fun h => by rw [hn1, hn2]; exact h))
    exact Keep.after_grow hMG hF.inTx (Keep.congr_left htx hks hin hk)
  cases err with
  | true => exact Keep.of_grow hMG
  | false =>
    cases pc with
    | none => exact Keep.of_grow hMG
    | some c =>
      simp only
      generalize call ctx .U c s1.w = pU
      obtain ⟨wU, rU⟩ := pU
      simp only
      split
      · exact key _ _ rfl rfl rfl rfl rfl
      · generalize call ctx .F c wU = pF
        obtain ⟨wF, rF⟩ := pF
        exact key _ _ rfl rfl rfl rfl rfl

/-! ## Commands -/

theorem maps_handleKeepSessionPing_ok (hok : (handleKeepSessionPing ctx s).2 = true) :
    (handleKeepSessionPing ctx s).1.txConns = s.txConns ∧ (handleKeepSessionPing ctx s).1.ksConns = s.ksConns := by
  unfold handleKeepSessionPing at hok ⊢
  generalize pingAll ctx (iterOrder ctx.ord s.ksConns).vals s.w = p at hok ⊢
  obtain ⟨w1, ok⟩ := p
  cases ok with
  | true => exact ⟨rfl, rfl⟩
  | false => simp at hok

/-- commands after which the transaction connections must still be there -/
def Body.keepsTx : Body → Bool
  | .commit | .rollback | .ac true | .quit | .disc => false
  | _ => true

/-- the flags that commands do not touch -/
structure SameNs (s s' : St) : Prop where
  closed : s'.closed = s.closed
  nsOld : s'.nsOld = s.nsOld
  nsCtx : s'.nsCtx = s.nsCtx
  nsCur : s'.nsCur = s.nsCur

theorem SameFlagsC.toNs {a b : St} (h : SameFlagsC a b) : SameNs a b := ⟨h.closed, h.nsOld, h.nsCtx, h.nsCur⟩
theorem SameFlags.toNs {a b : St} (h : SameFlags a b) : SameNs a b := ⟨h.closed, h.nsOld, h.nsCtx, h.nsCur⟩

theorem ns_executeCommand (hcfg : ctx.cfg = cfg) (hT : QH q ctx) (b : Body) (h : Idle q cfg s) :
    SameNs s (executeCommand ctx b s).1 := by
  have hI := h.inv
  have hc := h.cont
  unfold executeCommand
  dsimp only
  cases b with
  | qu k =>
    dsimp only
    split
    · exact ⟨rfl, rfl, rfl, rfl⟩
    · exact (inv_executeSQL hcfg hT hI hc).2.toNs
  | qs k slices =>
    dsimp only
    split
    · exact ⟨rfl, rfl, rfl, rfl⟩
    · exact (inv_executeSQLs (fromSlave := checkExecuteFromSlave ctx.cfg.user k) (rs := k != .w) (slices := slices) hcfg hT hI).2.toNs
  | «show» => exact (inv_executeSQL hcfg hT hI hc).2.toNs
  | fl => exact (inv_handleFieldList hcfg hT hI hc).2.toNs
  | begin =>
    show SameNs s (handleBegin ctx s).1
    unfold handleBegin; dsimp only; split
    · exact ⟨rfl, rfl, rfl, rfl⟩
    · split <;> exact ⟨rfl, rfl, rfl, rfl⟩
  | commit => exact ⟨rfl, rfl, rfl, rfl⟩
  | rollback => exact ⟨rfl, rfl, rfl, rfl⟩
  | ac v =>
    show SameNs s (handleSetAutoCommit ctx v s).1
    unfold handleSetAutoCommit; split <;> exact ⟨rfl, rfl, rfl, rfl⟩
  | sp n =>
    show SameNs s (handleSavepoint ctx false n s).1
    unfold handleSavepoint; dsimp only
    split
    · split
      · split <;> exact ⟨rfl, rfl, rfl, rfl⟩
      · exact ⟨rfl, rfl, rfl, rfl⟩
    · exact ⟨rfl, rfl, rfl, rfl⟩
  | rel n =>
    show SameNs s (handleSavepoint ctx true n s).1
    unfold handleSavepoint; dsimp only
    split
    · split
      · split <;> exact ⟨rfl, rfl, rfl, rfl⟩
      · exact ⟨rfl, rfl, rfl, rfl⟩
    · exact ⟨rfl, rfl, rfl, rfl⟩
  | rbt n =>
    show SameNs s (rollbackSavepoint ctx n s).1
    unfold rollbackSavepoint; dsimp only; split <;> exact ⟨rfl, rfl, rfl, rfl⟩
  | ping =>
    dsimp only
    split
    · show SameNs s (handleKeepSessionPing ctx s).1
      unfold handleKeepSessionPing; dsimp only; split <;> exact ⟨rfl, rfl, rfl, rfl⟩
    · exact ⟨rfl, rfl, rfl, rfl⟩
  | quit => exact ⟨rfl, rfl, rfl, rfl⟩
  | disc => exact ⟨rfl, rfl, rfl, rfl⟩
  | nsc => exact ⟨rfl, rfl, rfl, rfl⟩

/-- what `executeCommand` keeps: the transaction's connections unless the command
    ends the transaction; the pinned connections (`KeepKs`) unless the answer is
    `badconn` (a failed keep-session ping, after which the session is closed);
    and what the later steps need to know about the flags -/
def CmdKeeps (b : Body) (s : St) (p : St × Resp) : Prop :=
  (b.keepsTx = true → TxGrow s p.1) ∧ (p.2 = .badconn ∨ KeepKs s p.1) ∧
  (p.1.continueConn = none ∨ p.1.isInTransaction = s.isInTransaction) ∧
  (b.keepsTx = true → s.isInTransaction = true → p.1.isInTransaction = true)

theorem cmdKeeps_of_keep {b : Body} {p : St × Resp} (hk : Keep s p.1)
    (hin : p.1.isInTransaction = s.isInTransaction) : CmdKeeps b s p :=
  ⟨fun _ => hk.1, Or.inr hk.2, Or.inr hin, fun _ h => by rw [hin]; exact h⟩

theorem cmdKeeps_same {b : Body} {p : St × Resp} (htx : p.1.txConns = s.txConns) (hks : p.1.ksConns = s.ksConns)
    (hc : p.1.continueConn = none) (hin : s.isInTransaction = true → p.1.isInTransaction = true) : CmdKeeps b s p :=
  ⟨fun _ => ⟨[], by simp [htx]⟩, Or.inr (KeepKs.of_eq hks), Or.inl hc, fun _ h => hin h⟩

theorem cmdKeeps_endTx {b : Body} {p : St × Resp} (hb : b.keepsTx = false) (hks : p.1.ksConns = s.ksConns)
    (hc : p.1.continueConn = none) : CmdKeeps b s p := by
  refine ⟨?_, Or.inr (KeepKs.of_eq hks), Or.inl hc, ?_⟩
  · intro h; rw [hb] at h; cases h
  · intro h; rw [hb] at h; cases h

theorem keep_executeCommand (hcfg : ctx.cfg = cfg) (hT : QH q ctx) (b : Body)
    (h : Idle q cfg s) (hnr : NoClear ctx s) :
    CmdKeeps b s (executeCommand ctx b s) := by
  have hI := h.inv
  have hc := h.cont
  unfold executeCommand
  dsimp only
  cases b with
  | qu k =>
    dsimp only
    split
    · exact cmdKeeps_same rfl rfl hc id
    · exact cmdKeeps_of_keep (p := (_, _)) (keep_executeSQL hcfg hT hI hnr) (inv_executeSQL hcfg hT hI hc).2.inTx
  | qs k slices =>
    dsimp only
    split
    · exact cmdKeeps_same rfl rfl hc id
    · exact cmdKeeps_of_keep (p := (_, _))
        (Keep.of_grow (grow_executeSQLs (ctx := ctx) (s := s) (checkExecuteFromSlave ctx.cfg.user k) (k != .w) slices))
        (inv_executeSQLs (fromSlave := checkExecuteFromSlave ctx.cfg.user k) (rs := k != .w) (slices := slices) hcfg hT hI).2.inTx
  | «show» =>
    exact cmdKeeps_of_keep (p := (_, _)) (keep_executeSQL hcfg hT hI hnr) (inv_executeSQL hcfg hT hI hc).2.inTx
  | fl =>
    exact cmdKeeps_of_keep (p := (_, _)) (keep_handleFieldList hcfg hT hI hnr) (inv_handleFieldList hcfg hT hI hc).2.inTx
  | begin =>
    have e : (handleBegin ctx s).1.ksConns = s.ksConns ∧ (handleBegin ctx s).1.txConns = s.txConns ∧
        (s.isInTransaction = true → (handleBegin ctx s).1.isInTransaction = true) := by
      unfold handleBegin; dsimp only; split
      · exact ⟨rfl, rfl, id⟩
      · split
        · exact ⟨rfl, rfl, id⟩
        · exact ⟨rfl, rfl, fun _ => by simp [St.isInTransaction]⟩
    exact cmdKeeps_same (p := (_, _)) e.2.1 e.1 (by rw [cont_handleBegin]; exact hc) e.2.2
  | commit => exact cmdKeeps_endTx (p := (_, _)) rfl rfl hc
  | rollback => exact cmdKeeps_endTx (p := (_, _)) rfl rfl hc
  | ac v =>
    cases v with
    | true =>
      refine cmdKeeps_endTx (p := (_, _)) rfl ?_ (by rw [cont_handleSetAutoCommit]; exact hc)
      simp [handleSetAutoCommit]
    | false =>
      refine cmdKeeps_same (p := (_, _)) ?_ ?_ (by rw [cont_handleSetAutoCommit]; exact hc) ?_
      · simp [handleSetAutoCommit]
      · simp [handleSetAutoCommit]
      · intro _; simp [handleSetAutoCommit, St.isInTransaction]
  | sp n =>
    have e : (handleSavepoint ctx false n s).1.ksConns = s.ksConns ∧ (handleSavepoint ctx false n s).1.txConns = s.txConns ∧
        (handleSavepoint ctx false n s).1.isInTransaction = s.isInTransaction := by
      unfold handleSavepoint; dsimp only
      split
      · split
        · split <;> exact ⟨rfl, rfl, rfl⟩
        · exact ⟨rfl, rfl, rfl⟩
      · exact ⟨rfl, rfl, rfl⟩
    exact cmdKeeps_same (p := (_, _)) e.2.1 e.1 (by rw [cont_handleSavepoint]; exact hc) (fun h => by rw [e.2.2]; exact h)
  | rel n =>
    have e : (handleSavepoint ctx true n s).1.ksConns = s.ksConns ∧ (handleSavepoint ctx true n s).1.txConns = s.txConns ∧
        (handleSavepoint ctx true n s).1.isInTransaction = s.isInTransaction := by
      unfold handleSavepoint; dsimp only
      split
      · split
        · split <;> exact ⟨rfl, rfl, rfl⟩
        · exact ⟨rfl, rfl, rfl⟩
      · exact ⟨rfl, rfl, rfl⟩
    exact cmdKeeps_same (p := (_, _)) e.2.1 e.1 (by rw [cont_handleSavepoint]; exact hc) (fun h => by rw [e.2.2]; exact h)
  | rbt n =>
    have e : (rollbackSavepoint ctx n s).1.ksConns = s.ksConns ∧ (rollbackSavepoint ctx n s).1.txConns = s.txConns ∧
        (rollbackSavepoint ctx n s).1.isInTransaction = s.isInTransaction := by
      unfold rollbackSavepoint; dsimp only; split <;> exact ⟨rfl, rfl, rfl⟩
    exact cmdKeeps_same (p := (_, _)) e.2.1 e.1 (by rw [cont_rollbackSavepoint]; exact hc) (fun h => by rw [e.2.2]; exact h)
  | ping =>
    dsimp only
    split
    · have hcp := cont_handleKeepSessionPing (ctx := ctx) (s := s)
      have hfl : (handleKeepSessionPing ctx s).1.isInTransaction = s.isInTransaction ∧
          (handleKeepSessionPing ctx s).1.txConns = s.txConns := by
        unfold handleKeepSessionPing; dsimp only; split <;> exact ⟨rfl, rfl⟩
      have hok := maps_handleKeepSessionPing_ok (ctx := ctx) (s := s)
      generalize handleKeepSessionPing ctx s = pp at hcp hfl hok
      obtain ⟨s1, ok⟩ := pp
      simp only at hcp hfl hok ⊢
      cases ok with
      | true =>
        exact cmdKeeps_same (p := (_, _)) hfl.2 (hok rfl).2 (by rw [hcp]; exact hc) (fun h => by rw [hfl.1]; exact h)
      | false =>
        exact ⟨fun _ => ⟨[], by simp [hfl.2]⟩, Or.inl rfl, Or.inl (by rw [hcp]; exact hc), fun _ h => by rw [hfl.1]; exact h⟩
    · exact cmdKeeps_same rfl rfl hc id
  | quit => exact cmdKeeps_endTx (p := (_, _)) rfl rfl hc
  | disc => exact cmdKeeps_endTx rfl rfl hc
  | nsc => exact cmdKeeps_same rfl rfl hc id

theorem ns_recycleContinueConn (pc : Option Nat) : SameNs s (recycleContinueConn ctx pc s) := by
  unfold recycleContinueConn
  split
  · exact ⟨rfl, rfl, rfl, rfl⟩
  · dsimp only
    split
    · split <;> exact ⟨rfl, rfl, rfl, rfl⟩
    · split
      · exact flags_clearKsConns.toNs
      · split <;> exact ⟨rfl, rfl, rfl, rfl⟩

theorem intx_recycleContinueConn (pc : Option Nat) :
    (recycleContinueConn ctx pc s).isInTransaction = s.isInTransaction := by
  unfold recycleContinueConn
  split
  · rfl
  · dsimp only
    split
    · split <;> rfl
    · split
      · exact flags_clearKsConns.inTx
      · split <;> rfl

theorem Keep.congr_right {a b c : St} (htx : c.txConns = b.txConns) (hks : c.ksConns = b.ksConns)
    (hw : c.w = b.w) (hk : Keep a b) : Keep a c := by
  obtain ⟨⟨A, hA⟩, hk2⟩ := hk
  refine ⟨⟨A, by rw [htx, hA]⟩, ?_⟩
  intro e he
  rcases hk2 e he with h | ⟨h1, h2⟩
  · exact Or.inl (by rw [hks]; exact h)
  · exact Or.inr ⟨by rw [hw]; exact h1, h2⟩

/-- `writeResponse` keeps the maps (`Keep`) and the flags -/
theorem keep_writeResponse (r : Resp) (hnr : NoClear ctx s) :
    Keep s (writeResponse ctx r s).1 ∧ SameNs s (writeResponse ctx r s).1 ∧
    (writeResponse ctx r s).1.isInTransaction = s.isInTransaction := by
  have e : (writeResponse ctx r s).1 =
      (fun s1 : St => ({ (recycleContinueConn ctx s1.continueConn s1) with continueConn := none } : St))
      (match s.continueConn with
       | some c => if r == .res || r == .ok then { s with w := closeGivenUp c (streamRest ctx c s.w) } else s
       | none => s) := rfl
  rw [e]
  generalize hs1 : (match s.continueConn with
       | some c => if r == Resp.res || r == Resp.ok then { s with w := closeGivenUp c (streamRest ctx c s.w) } else s
       | none => s) = s1
  have hsame : s1.txConns = s.txConns ∧ s1.ksConns = s.ksConns ∧ s1.nsCur = s.nsCur ∧ s1.nsOld = s.nsOld ∧
      s1.nsCtx = s.nsCtx ∧ s1.closed = s.closed ∧ s1.isInTransaction = s.isInTransaction := by
    rw [← hs1]; split
    · split <;> exact ⟨rfl, rfl, rfl, rfl, rfl, rfl, rfl⟩
    · exact ⟨rfl, rfl, rfl, rfl, rfl, rfl, rfl⟩
  have hk := keep_recycleContinueConn (ctx := ctx) (s := s1) s1.continueConn
    (hnr.imp id (fun h => by rw [hsame.2.2.1, hsame.2.2.2.1]; exact h))
  have hn := ns_recycleContinueConn (ctx := ctx) (s := s1) s1.continueConn
  have hi := intx_recycleContinueConn (ctx := ctx) (s := s1) s1.continueConn
  simp only
  refine ⟨?_, ?_, ?_⟩
  · exact Keep.congr_left hsame.1 hsame.2.1 hsame.2.2.2.2.2.2 (Keep.congr_right rfl rfl rfl hk)
  · exact ⟨hn.closed.trans hsame.2.2.2.2.2.1, hn.nsOld.trans hsame.2.2.2.1, hn.nsCtx.trans hsame.2.2.2.2.1,
      hn.nsCur.trans hsame.2.2.1⟩
  · exact hi.trans hsame.2.2.2.2.2.2

theorem shouldClear_false (h : ctx.cfg.ks = false ∨ s.nsCtx ≤ s.nsOld) : shouldClear ctx s = false := by
  unfold shouldClear
  rcases h with h | h
  · simp [h]
  · have : decide (s.nsCtx > s.nsOld) = false := by simp; omega
    simp [this]

theorem writeResponse_none (r : Resp) (hc : s.continueConn = none) :
    (writeResponse ctx r s).1 = { s with continueConn := none } := by
  unfold writeResponse
  simp only [hc, recycleContinueConn]

theorem closed_sessionClose : (sessionClose ctx s).closed = true := by
  unfold sessionClose
  split
  · assumption
  · rfl

/-- what one command leaves of the state it found (`s`), for every history: the
    transaction's connections stay unless the command ends the transaction or
    the session is closed; a pinned connection stays unless the session is
    closed, or the connection is closed and the session was not in a transaction;
    no reload is pending afterwards; the session is still in its transaction -/
structure CmdResult (b : Body) (s s' : St) : Prop where
  tx : b.keepsTx = true → ∀ e ∈ s.txConns, e ∈ s'.txConns ∨ s'.closed = true
  ks : ∀ e ∈ s.ksConns, e ∈ s'.ksConns ∨ s'.closed = true ∨ (isClosed e.2 s'.w = true ∧ s.isInTransaction = false)
  ns : s'.closed = true ∨ s'.nsCur ≤ s'.nsOld
  intx : b.keepsTx = true → s.isInTransaction = true → s'.closed = true ∨ s'.isInTransaction = true

theorem CmdResult.of_closed {b : Body} {s s' : St} (h : s'.closed = true) : CmdResult b s s' :=
  ⟨fun _ _ _ => Or.inr h, fun _ _ => Or.inr (Or.inl h), Or.inl h, fun _ _ => Or.inl h⟩

/-- one command, no reload pending; every fault, timeout and iteration order -/
theorem keep_runCommand (hcfg : ctx.cfg = cfg) (hT : QH q ctx) (b : Body)
    (h : Idle q cfg s) (hncl : s.closed = false) (hnr : NoClear ctx s) :
    CmdResult b s (runCommand ctx b s).1 := by
  unfold runCommand
  dsimp only
  have e1 : clearKsConns ctx { s with nsCtx := s.nsCur } = { s with nsCtx := s.nsCur } :=
    clearKsConns_noReload (s := { s with nsCtx := s.nsCur }) hnr
  rw [e1]
  have h0 : Idle q cfg { s with nsCtx := s.nsCur } := idle_of_eq_fields h rfl rfl rfl rfl rfl rfl rfl
  generalize hs2 : (if !({ s with nsCtx := s.nsCur } : St).isInTransaction then
      { ({ s with nsCtx := s.nsCur } : St) with nsOld := ({ s with nsCtx := s.nsCur } : St).nsCtx }
      else ({ s with nsCtx := s.nsCur } : St)) = s2
  have f2 : s2.txConns = s.txConns ∧ s2.ksConns = s.ksConns ∧ s2.isInTransaction = s.isInTransaction ∧ NoClear ctx s2 ∧
      s2.nsCtx = s2.nsCur ∧ Idle q cfg s2 := by
    rw [← hs2]; split
    · exact ⟨rfl, rfl, rfl, Or.inr (Nat.le_refl _), rfl, idle_of_eq_fields h0 rfl rfl rfl rfl rfl rfl rfl⟩
    · exact ⟨rfl, rfl, rfl, hnr, rfl, h0⟩
  obtain ⟨htx2, hks2, hin2, hnr2, hctx2, hI2⟩ := f2
  have hsc2 : shouldClear ctx s2 = false := shouldClear_false (hnr2.imp id (fun h => by rw [hctx2]; exact h))
  simp only [hsc2, Bool.false_eq_true, if_false]
  have hk := keep_executeCommand hcfg hT b hI2 hnr2
  have hns3 := ns_executeCommand hcfg hT b hI2
  generalize executeCommand ctx b s2 = p3 at hk hns3
  obtain ⟨s3, r⟩ := p3
  obtain ⟨hk1, hk2, hk3, hk4⟩ := hk
  simp only at hk1 hk2 hk3 hk4 hns3 ⊢
  have hnr3 : NoClear ctx s3 := hnr2.imp id (fun h => by rw [hns3.nsCur, hns3.nsOld]; exact h)
  obtain ⟨hw, hns4, hin4⟩ := keep_writeResponse (ctx := ctx) (s := s3) r hnr3
  have hx4 := ext_writeResponse (ctx := ctx) (s := s3) r
  have hdel : (writeResponse ctx r s3).2 = (r != .badconn) := by unfold writeResponse; rfl
  have hwn : s3.continueConn = none → (writeResponse ctx r s3).1.ksConns = s3.ksConns := by
    intro hc; rw [writeResponse_none r hc]
  generalize writeResponse ctx r s3 = p4 at hw hns4 hin4 hx4 hdel hwn
  obtain ⟨s4, delivered⟩ := p4
  simp only at hw hns4 hin4 hx4 hdel hwn ⊢
  subst hdel
  by_cases hbad : r = .badconn
  · -- the response was not delivered: the session is closed
    subst hbad
    simp only [bne_self_eq_false, Bool.not_false, if_true]
    exact CmdResult.of_closed closed_sessionClose
  · have hd : (r != Resp.badconn) = true := by simpa using hbad
    simp only [hd, Bool.not_true, Bool.false_eq_true, if_false]
    generalize hfin : (if (b == Body.quit || shouldClear ctx s4 || txConnLost s4) = true then sessionClose ctx s4 else s4) = s5
    have h5 : s5.closed = true ∨ s5 = s4 := by
      rw [← hfin]; split
      · exact Or.inl closed_sessionClose
      · exact Or.inr rfl
    rcases h5 with h5 | h5
    · exact CmdResult.of_closed h5
    · subst h5
      refine ⟨?_, ?_, ?_, ?_⟩
      · intro hkt e he
        left
        obtain ⟨A, hA⟩ := hk1 hkt
        obtain ⟨A', hA'⟩ := hw.1
        show e ∈ s5.txConns
        rw [hA', hA, htx2]
        exact List.mem_append_left _ (List.mem_append_left _ he)
      · intro e he
        rcases hk2 with hk2 | hk2
        · exact absurd hk2 hbad
        · rcases hk2 e (by rw [hks2]; exact he) with h3 | ⟨h3, h3'⟩
          · rcases hk3 with hk3 | hk3
            · exact Or.inl (by show e ∈ s5.ksConns; rw [hwn hk3]; exact h3)
            · rcases hw.2 e h3 with h4 | ⟨h4, h4'⟩
              · exact Or.inl h4
              · exact Or.inr (Or.inr ⟨h4, by rw [← hin2, ← hk3]; exact h4'⟩)
          · exact Or.inr (Or.inr ⟨isClosed_ext hx4 h3, by rw [← hin2]; exact h3'⟩)
      · right
        show s5.nsCur ≤ s5.nsCtx
        rw [hns4.nsCur, hns4.nsCtx, hns3.nsCur, hns3.nsCtx, hctx2]; exact Nat.le_refl _
      · intro hkt hin
        right
        show s5.isInTransaction = true
        rw [hin4]; exact hk4 hkt (by rw [hin2]; exact hin)

theorem tx_sessionClose_nil (h : s.txConns = []) : (sessionClose ctx s).txConns = [] := by
  unfold sessionClose
  split
  · exact h
  · rfl

theorem txConnLost_of_nil (htx : s.txConns = []) (hks : s.ksConns = []) : txConnLost s = false := by
  simp [txConnLost, htx, hks, CMap.vals]

/-- COMMIT, ROLLBACK and autocommit=1 outside keep-session mode leave no transaction connection -/
theorem endTx_runCommand (hks : ctx.cfg.ks = false) (b : Body)
    (hb : b = .commit ∨ b = .rollback ∨ b = .ac true) (hcont : s.continueConn = none) :
    (runCommand ctx b s).1.txConns = [] := by
  unfold runCommand
  dsimp only
  rw [clearKsConns_noReload (s := { s with nsCtx := s.nsCur }) (Or.inl hks)]
  generalize hs2 : (if !({ s with nsCtx := s.nsCur } : St).isInTransaction then
      { ({ s with nsCtx := s.nsCur } : St) with nsOld := ({ s with nsCtx := s.nsCur } : St).nsCtx }
      else ({ s with nsCtx := s.nsCur } : St)) = s2
  have hc2 : s2.continueConn = none := by rw [← hs2]; split <;> exact hcont
  simp only [shouldClear_false (ctx := ctx) (s := s2) (Or.inl hks), Bool.false_eq_true, if_false]
  have hex : (executeCommand ctx b s2).1.txConns = [] ∧ (executeCommand ctx b s2).1.continueConn = none ∧
      (executeCommand ctx b s2).2 ≠ .badconn := by
    rcases hb with hb | hb | hb <;> subst hb
    · exact ⟨rfl, hc2, by simp only [executeCommand]; split <;> simp⟩
    · exact ⟨rfl, hc2, by simp only [executeCommand]; split <;> simp⟩
    · refine ⟨?_, ?_, by simp only [executeCommand]; split <;> simp⟩
      · show (handleSetAutoCommit ctx true s2).1.txConns = []
        simp [handleSetAutoCommit]
      · show (handleSetAutoCommit ctx true s2).1.continueConn = none
        simp [handleSetAutoCommit, hc2]
  generalize executeCommand ctx b s2 = p3 at hex
  obtain ⟨s3, r⟩ := p3
  obtain ⟨h3t, h3c, h3r⟩ := hex
  simp only at h3t h3c h3r ⊢
  have hdel : (writeResponse ctx r s3).2 = true := by
    unfold writeResponse; simp only [bne_iff_ne, ne_eq, decide_eq_true_eq]; exact h3r
  have hw := writeResponse_none (ctx := ctx) r h3c
  generalize writeResponse ctx r s3 = p4 at hw hdel
  obtain ⟨s4, d⟩ := p4
  simp only at hw hdel ⊢
  subst hdel; subst hw
  have hbq : (b == Body.quit) = false := by rcases hb with hb | hb | hb <;> subst hb <;> rfl
  simp only [Bool.not_true, Bool.false_eq_true, if_false, hbq, Bool.false_or,
    shouldClear_false (ctx := ctx) (s := { s3 with continueConn := none }) (Or.inl hks)]
  split
  · exact tx_sessionClose_nil h3t
  · exact h3t

/-! ## The connections COMMIT is sent to -/

/-- connections that received the backend call `k`, newest first -/
def callsOn (k : CK) (tr : List Event) : List Nat :=
  tr.filterMap fun e =>
    match e with
    | .call k' c _ => if k' = k then some c else none
    | _ => none

theorem callsOn_recycle (k : CK) (c : Nat) (w : World) : callsOn k (recycle c w).trace = callsOn k w.trace := by
  unfold recycle
  split
  · rfl
  · simp [callsOn, World.emit]

theorem callsOn_call_same (ctx : Ctx) (k : CK) {c : Nat} {w : World} {cn : Conn} (hcn : w.conns[c]? = some cn) :
    callsOn k (call ctx k c w).1.trace = c :: callsOn k w.trace := by
  simp [call, hcn, callsOn, World.emit]

theorem callsOn_commitTx (ctx : Ctx) {c : Nat} {w : World} {cn : Conn} (hcn : w.conns[c]? = some cn) :
    callsOn .C (commitTx ctx c w).1.trace = c :: callsOn .C w.trace := by
  unfold commitTx
  have h := callsOn_call_same ctx .C hcn
  generalize call ctx .C c w = p at h
  obtain ⟨w1, r⟩ := p
  simp only at h ⊢
  rw [callsOn_recycle]; exact h

theorem callsOn_eachCommitTx (ctx : Ctx) (m : Bool → Bool → Bool) :
    ∀ (cs : List Nat) (w : World) (b : Bool), (∀ c ∈ cs, ∃ cn : Conn, w.conns[c]? = some cn) →
      callsOn .C (eachConn (commitTx ctx) m cs (w, b)).1.trace = cs.reverse ++ callsOn .C w.trace := by
  intro cs
  induction cs with
  | nil => intro w b _; simp [eachConn]
  | cons c cs ih =>
    intro w b hv
    obtain ⟨cn, hcn⟩ := hv c (by simp)
    have h1 := callsOn_commitTx ctx hcn
    have hext : Ext w (commitTx ctx c w).1 := ext_commitTx ctx c w
    have hv' : ∀ d ∈ cs, ∃ dn : Conn, (commitTx ctx c w).1.conns[d]? = some dn := by
      intro d hd
      obtain ⟨dn, hdn⟩ := hv d (by simp [hd])
      obtain ⟨dn', hdn', _⟩ := hext d dn hdn
      exact ⟨dn', hdn'⟩
    simp only [eachConn]
    split
    · rename_i w1 r heq
      rw [heq] at h1 hv'
      rw [ih w1 _ hv', h1]; simp
    · rename_i w1 heq
      rw [heq] at h1 hv'
      rw [ih w1 _ hv', h1]; simp

/-- outside keep-session mode, with no streamed result pending: the world after
    one command is the world `executeCommand` leaves -/
theorem runCommand_w_noks (hks : ctx.cfg.ks = false) (b : Body) (hb : b = .commit ∨ b = .rollback ∨ b = .ac true)
    (hcont : s.continueConn = none) (hksn : s.ksConns = []) :
    ∃ s2 : St, s2.w = s.w ∧ s2.txConns = s.txConns ∧ s2.ksConns = s.ksConns ∧
      (runCommand ctx b s).1.w = (executeCommand ctx b s2).1.w := by
  unfold runCommand
  dsimp only
  rw [clearKsConns_noReload (s := { s with nsCtx := s.nsCur }) (Or.inl hks)]
  generalize hs2 : (if !({ s with nsCtx := s.nsCur } : St).isInTransaction then
      { ({ s with nsCtx := s.nsCur } : St) with nsOld := ({ s with nsCtx := s.nsCur } : St).nsCtx }
      else ({ s with nsCtx := s.nsCur } : St)) = s2
  have hc2 : s2.continueConn = none ∧ s2.w = s.w ∧ s2.txConns = s.txConns ∧ s2.ksConns = s.ksConns := by
    rw [← hs2]; split <;> exact ⟨hcont, rfl, rfl, rfl⟩
  refine ⟨s2, hc2.2.1, hc2.2.2.1, hc2.2.2.2, ?_⟩
  simp only [shouldClear_false (ctx := ctx) (s := s2) (Or.inl hks), Bool.false_eq_true, if_false]
  have hk2 : s2.ksConns = [] := hc2.2.2.2.trans hksn
  have hex : (executeCommand ctx b s2).1.continueConn = none ∧ (executeCommand ctx b s2).2 ≠ .badconn ∧
      (executeCommand ctx b s2).1.txConns = [] ∧ (executeCommand ctx b s2).1.ksConns = [] := by
    rcases hb with hb | hb | hb <;> subst hb
    · exact ⟨hc2.1, by simp only [executeCommand]; split <;> simp, rfl, hk2⟩
    · exact ⟨hc2.1, by simp only [executeCommand]; split <;> simp, rfl, hk2⟩
    · refine ⟨?_, by simp only [executeCommand]; split <;> simp, ?_, ?_⟩
      · show (handleSetAutoCommit ctx true s2).1.continueConn = none
        simp [handleSetAutoCommit, hc2.1]
      · show (handleSetAutoCommit ctx true s2).1.txConns = []
        simp [handleSetAutoCommit]
      · show (handleSetAutoCommit ctx true s2).1.ksConns = []
        simp [handleSetAutoCommit, hk2]
  generalize executeCommand ctx b s2 = p3 at hex
  obtain ⟨s3, r⟩ := p3
  obtain ⟨h3c, h3r, h3t, h3k⟩ := hex
  simp only at h3c h3r h3t h3k ⊢
  have hdel : (writeResponse ctx r s3).2 = true := by
    unfold writeResponse; simp only [bne_iff_ne, ne_eq, decide_eq_true_eq]; exact h3r
  have hw := writeResponse_none (ctx := ctx) r h3c
  generalize writeResponse ctx r s3 = p4 at hw hdel
  obtain ⟨s4, d⟩ := p4
  simp only at hw hdel ⊢
  subst hdel; subst hw
  have hbq : (b == Body.quit) = false := by rcases hb with hb | hb | hb <;> subst hb <;> rfl
  simp only [Bool.not_true, Bool.false_eq_true, if_false, hbq, Bool.false_or,
    shouldClear_false (ctx := ctx) (s := { s3 with continueConn := none }) (Or.inl hks),
    txConnLost_of_nil (s := { s3 with continueConn := none }) h3t h3k]

/-- the command operations -/
def Body.isCommand : Body → Bool
  | .nsc | .disc => false
  | _ => true

theorem step_command (cfg : Cfg) (op : Op) (hcmd : op.body.isCommand = true) (hncl : s.closed = false) :
    (step cfg s op).1 = (runCommand { cfg := cfg, ord := op.ord, faults := op.faults } op.body
      { s with w := { s.w with trace := [] } }).1 := by
  unfold step
  dsimp only
  simp only [hncl, Bool.false_eq_true, if_false]
  split
  · rename_i hb; rw [hb] at hcmd; simp [Body.isCommand] at hcmd
  · rename_i hb; rw [hb] at hcmd; simp [Body.isCommand] at hcmd
  · rfl

/-- one operation of a history (a command, a disconnect or a reload) on an open
    session with no reload pending: what it leaves of the two maps -/
theorem keep_step (cfg : Cfg) (op : Op) (hT : QHOp q op)
    (h : Idle q cfg s) (hncl : s.closed = false) (hnr : cfg.ks = false ∨ s.nsCur ≤ s.nsOld)
    (hcmd : op.body.isCommand = true) :
    CmdResult op.body s (step cfg s op).1 := by
  have h0 : Idle q cfg { s with w := { s.w with trace := [] } } := idle_of_eq_fields h rfl rfl rfl rfl rfl rfl rfl
  have key := keep_runCommand (ctx := { cfg := cfg, ord := op.ord, faults := op.faults }) rfl (hT.toCtx cfg)
    op.body h0 hncl hnr
  rw [step_command cfg op hcmd hncl]
  exact ⟨key.tx, key.ks, key.ns, key.intx⟩

/-- keep-session, a reload pending, inside a transaction: whatever the command,
    the session is closed afterwards (and the command is answered with an error) -/
theorem closed_runCommand_reload_in_tx (b : Body) (hks : ctx.cfg.ks = true) (hns : s.nsCur > s.nsOld)
    (hin : s.isInTransaction = true) (hcont : s.continueConn = none) (hncl : s.closed = false) :
    (runCommand ctx b s).2 = .err ∧ (runCommand ctx b s).1.closed = true := by
  have hin' : (s.inTrans || !s.autocommit) = true := hin
  unfold runCommand
  simp only [clearKsConns, shouldClear, St.isInTransaction, hks, hin', hns, writeResponse, hcont,
    recycleContinueConn, sessionClose, hncl, Bool.not_true, Bool.and_false, Bool.false_eq_true, if_false,
    Bool.and_self, decide_true, if_true, Bool.or_true, Bool.true_or]
  exact ⟨rfl, rfl⟩

/-- one operation that does not end the transaction, on a session that is in a
    transaction: afterwards the session is closed, or it is still in the
    transaction and holds every connection it held -/
theorem keep_step_in_tx (cfg : Cfg) (op : Op) (hT : QHOp q op) (h : Idle q cfg s)
    (hkeep : op.body.keepsTx = true) (hin : s.isInTransaction = true) :
    (step cfg s op).1.closed = true ∨
    ((step cfg s op).1.isInTransaction = true ∧ (∀ e ∈ s.txConns, e ∈ (step cfg s op).1.txConns) ∧
      (∀ e ∈ s.ksConns, e ∈ (step cfg s op).1.ksConns)) := by
  cases hcl : s.closed with
  | true =>
    left
    unfold step
    simp [hcl]
  | false =>
    cases hcmd : op.body.isCommand with
    | true =>
      by_cases hnr : cfg.ks = false ∨ s.nsCur ≤ s.nsOld
      · have key := keep_step cfg op hT h hcl hnr hcmd
        rcases key.intx hkeep hin with hc | hi
        · exact Or.inl hc
        · by_cases hc : (step cfg s op).1.closed = true
          · exact Or.inl hc
          · right
            refine ⟨hi, ?_, ?_⟩
            · intro e he
              rcases key.tx hkeep e he with h1 | h1
              · exact h1
              · exact absurd h1 hc
            · intro e he
              rcases key.ks e he with h1 | h1 | ⟨_, h1⟩
              · exact h1
              · exact absurd h1 hc
              · rw [hin] at h1; cases h1
      · left
        have hks : cfg.ks = true := by
          cases hk : cfg.ks with
          | true => rfl
          | false => exact absurd (Or.inl hk) hnr
        have hns : s.nsCur > s.nsOld := by
          have : ¬ s.nsCur ≤ s.nsOld := fun hle => hnr (Or.inr hle)
          omega
        rw [step_command cfg op hcmd hcl]
        exact (closed_runCommand_reload_in_tx (ctx := { cfg := cfg, ord := op.ord, faults := op.faults })
          (s := { s with w := { s.w with trace := [] } }) op.body hks hns hin h.cont hcl).2
    | false =>
      right
      have hb : op.body = .nsc := by
        cases hb : op.body <;> simp_all [Body.isCommand, Body.keepsTx]
      unfold step
      simp only [hcl, hb, Bool.false_eq_true, if_false]
      exact ⟨hin, fun e he => he, fun e he => he⟩

/-! ## The connections ROLLBACK is sent to -/

theorem conns_call_other (ctx : Ctx) (k : CK) {c d : Nat} (hne : c ≠ d) (w : World) :
    (call ctx k c w).1.conns[d]? = w.conns[d]? := by
  unfold call
  split
  · rfl
  · simp [hne]

theorem conns_recycle_other {c d : Nat} (hne : c ≠ d) (w : World) : (recycle c w).conns[d]? = w.conns[d]? := by
  unfold recycle
  split
  · rfl
  · simp [hne]

theorem conns_rollbackTx_other (ctx : Ctx) {c d : Nat} (hne : c ≠ d) (w : World) :
    (rollbackTx ctx c w).1.conns[d]? = w.conns[d]? := by
  unfold rollbackTx
  split
  · exact conns_recycle_other hne w
  · have h := conns_call_other ctx .R hne w
    generalize call ctx .R c w = p at h
    obtain ⟨w1, r⟩ := p
    simp only at h ⊢
    rw [conns_recycle_other hne, h]

theorem callsOn_rollbackTx (ctx : Ctx) {c : Nat} {w : World} {cn : Conn} (hcn : w.conns[c]? = some cn)
    (hop : cn.closed = false) : callsOn .R (rollbackTx ctx c w).1.trace = c :: callsOn .R w.trace := by
  unfold rollbackTx
  simp only [isClosed, hcn, hop, Bool.false_eq_true, if_false]
  have h := callsOn_call_same ctx .R hcn
  generalize call ctx .R c w = p at h
  obtain ⟨w1, r⟩ := p
  simp only at h ⊢
  rw [callsOn_recycle]; exact h

/-- ROLLBACK over connections that are all open: every one of them receives it, once, in order -/
theorem callsOn_eachRollbackTx (ctx : Ctx) (m : Bool → Bool → Bool) :
    ∀ (cs : List Nat) (w : World) (b : Bool), cs.Nodup →
      (∀ c ∈ cs, ∃ cn : Conn, w.conns[c]? = some cn ∧ cn.closed = false) →
      callsOn .R (eachConn (rollbackTx ctx) m cs (w, b)).1.trace = cs.reverse ++ callsOn .R w.trace := by
  intro cs
  induction cs with
  | nil => intro w b _ _; simp [eachConn]
  | cons c cs ih =>
    intro w b hnd hv
    obtain ⟨cn, hcn, hop⟩ := hv c (by simp)
    have h1 := callsOn_rollbackTx ctx hcn hop
    have hnd' := List.nodup_cons.1 hnd
    have hv' : ∀ d ∈ cs, ∃ dn : Conn, (rollbackTx ctx c w).1.conns[d]? = some dn ∧ dn.closed = false := by
      intro d hd
      obtain ⟨dn, hdn, hdo⟩ := hv d (by simp [hd])
      have hne : c ≠ d := fun e => hnd'.1 (e ▸ hd)
      exact ⟨dn, by rw [conns_rollbackTx_other ctx hne]; exact hdn, hdo⟩
    simp only [eachConn]
    split
    · rename_i w1 r heq
      rw [heq] at h1 hv'
      rw [ih w1 _ hnd'.2 hv', h1]; simp
    · rename_i w1 heq
      rw [heq] at h1 hv'
      rw [ih w1 _ hnd'.2 hv', h1]; simp

/-! ## An open session in a transaction holds no closed connection -/

/-- between two commands: the connections of an open session that is in a
    transaction are all open (`txConnLost` closed the session otherwise) -/
def HeldOpen (s : St) : Prop :=
  s.closed = false → s.isInTransaction = true → ∀ c ∈ s.txConns.vals ++ s.ksConns.vals, isClosed c s.w = false

theorem heldOpen_of_not_lost (h : txConnLost s = false) (hin : s.isInTransaction = true) :
    ∀ c ∈ s.txConns.vals ++ s.ksConns.vals, isClosed c s.w = false := by
  intro c hc
  simp only [txConnLost, hin, Bool.true_and] at h
  cases hcl : isClosed c s.w with
  | false => rfl
  | true =>
    have : ((s.txConns.vals ++ s.ksConns.vals).any fun c => isClosed c s.w) = true :=
      List.any_eq_true.2 ⟨c, hc, hcl⟩
    rw [h] at this; cases this

theorem heldOpen_runCommand (b : Body) : HeldOpen (runCommand ctx b s).1 := by
  unfold runCommand
  dsimp only
  generalize clearKsConns ctx { s with nsCtx := s.nsCur } = s1
  generalize (if !s1.isInTransaction then { s1 with nsOld := s1.nsCtx } else s1) = s2
  generalize (if shouldClear ctx s2 then (s2, Resp.err) else executeCommand ctx b s2) = p3
  obtain ⟨s3, r⟩ := p3
  generalize writeResponse ctx r s3 = p4
  obtain ⟨s4, delivered⟩ := p4
  dsimp only
  split
  · intro hc; rw [closed_sessionClose] at hc; cases hc
  · by_cases hC : (b == Body.quit || shouldClear ctx s4 || txConnLost s4) = true
    · rw [if_pos hC]
      intro hc
      have : (sessionClose ctx s4).closed = true := closed_sessionClose
      simp only at hc
      rw [this] at hc; cases hc
    · rw [if_neg hC]
      intro _ hin
      have hl : txConnLost s4 = false := by
        cases h : txConnLost s4 with
        | false => rfl
        | true => simp [h] at hC
      exact heldOpen_of_not_lost hl hin

theorem heldOpen_step (cfg : Cfg) (op : Op) (h : HeldOpen s) : HeldOpen (step cfg s op).1 := by
  unfold step
  dsimp only
  split
  · rename_i hcl
    intro hc; simp only at hc; rw [hcl] at hc; cases hc
  · split
    · exact h
    · intro hc; rw [closed_sessionClose] at hc; cases hc
    · exact heldOpen_runCommand _

theorem heldOpen_run (cfg : Cfg) (ops : List Op) : HeldOpen (run cfg ops) := by
  have : ∀ (ops : List Op) (s : St), HeldOpen s → HeldOpen (ops.foldl (fun s op => (step cfg s op).1) s) := by
    intro ops
    induction ops with
    | nil => intro s h; exact h
    | cons op ops ih => intro s h; exact ih _ (heldOpen_step cfg op h)
  exact this ops {} (fun _ _ c hc => by simp [CMap.vals] at hc)

end GaeaVerif.SessionConns
