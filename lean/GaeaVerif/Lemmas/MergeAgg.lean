import GaeaVerif.Lemmas.MergeOrder
/-
  C02 helper lemmas: COUNT / SUM / MAX / MIN of a concatenation are the merger
  applied to the aggregates of the parts (values of one column type; empty
  parts and NULL aggregates included).
-/
namespace GaeaVerif.Merge

/-- the type of the non-NULL values of a column -/
inductive VTy where
  | int
  | dec (scale : Nat)
  | str
  deriving DecidableEq, Repr

/-- `v` is a non-NULL value of type `t` -/
def hasTy : VTy → Val → Bool
  | .int, .int _ => true
  | .dec s, .dec _ s' => s == s'
  | .str, .str _ => true
  | _, _ => false

def VTy.scale : VTy → Nat
  | .dec s => s
  | _ => 0

theorem toDec_scale {t : VTy} {v : Val} (h : hasTy t v = true) (ht : t ≠ .str) : (toDec v).2 = t.scale := by
  cases t <;> cases v <;> simp_all [hasTy, toDec, VTy.scale]

theorem decAdd_same (u1 u2 : Int) (s : Nat) : decAdd (u1, s) (u2, s) = (u1 + u2, s) := by
  simp [decAdd]

/-- sum of the unscaled values -/
def sumU : List Val → Int
  | [] => 0
  | v :: vs => (toDec v).1 + sumU vs

theorem sumU_append (a b : List Val) : sumU (a ++ b) = sumU a + sumU b := by
  induction a with
  | nil => simp [sumU]
  | cons v vs ih => simp [sumU, ih]; omega

theorem foldl_decAdd {t : VTy} (ht : t ≠ .str) : ∀ (l : List Val) (u : Int), (∀ v ∈ l, hasTy t v = true) →
    l.foldl (fun acc x => decAdd acc (toDec x)) (u, t.scale) = (u + sumU l, t.scale)
  | [], u, _ => by simp [sumU]
  | v :: vs, u, h => by
    have hv := h v (by simp)
    have hs := toDec_scale hv ht
    have e : toDec v = ((toDec v).1, t.scale) := by rw [← hs]
    simp only [List.foldl_cons]
    rw [e, decAdd_same, foldl_decAdd ht vs _ (fun w hw => h w (by simp [hw]))]
    simp [sumU]; omega

theorem aggOf_sum_typed {t : VTy} (ht : t ≠ .str) (v : Val) (vs : List Val) (h : ∀ w ∈ v :: vs, hasTy t w = true) :
    aggOf .sum (v :: vs) = .dec (sumU (v :: vs)) t.scale := by
  have hv := h v (by simp)
  have hs := toDec_scale hv ht
  have e : toDec v = ((toDec v).1, t.scale) := by rw [← hs]
  simp only [aggOf]
  rw [e, foldl_decAdd ht vs _ (fun w hw => h w (by simp [hw]))]
  simp [sumU]

/-! ### MAX / MIN -/

theorem maxVal_assoc (a b c : Val) : maxVal (maxVal a b) c = maxVal a (maxVal b c) := by
  unfold maxVal
  repeat' split
  all_goals try rfl
  · rename_i h1 h2 h3; exact absurd (ltVal_trans _ _ _ h1 h2) h3
  · rename_i h1 h2 h3
    exfalso
    have hb : leVal b a = true := by simpa [ltVal] using h1
    have hc : leVal c b = true := by simpa [ltVal] using h3
    have := leVal_trans c b a hc hb
    simp [ltVal, this] at h2

theorem minVal_assoc (a b c : Val) : minVal (minVal a b) c = minVal a (minVal b c) := by
  unfold minVal
  repeat' split
  all_goals try rfl
  · rename_i h1 h2 h3; exact absurd (ltVal_trans _ _ _ h2 h1) h3
  · rename_i h1 h2 h3
    exfalso
    have hb : leVal a b = true := by simpa [ltVal] using h1
    have hc : leVal b c = true := by simpa [ltVal] using h3
    have := leVal_trans a b c hb hc
    simp [ltVal, this] at h2

theorem foldl_assoc_op (f : Val → Val → Val) (assoc : ∀ a b c, f (f a b) c = f a (f b c)) :
    ∀ (ys : List Val) (A y : Val), ys.foldl f (f A y) = f A (ys.foldl f y)
  | [], _, _ => rfl
  | z :: zs, A, y => by
    simp only [List.foldl_cons]
    rw [assoc, foldl_assoc_op f assoc zs A (f y z)]

theorem aggOf_max_append (v w : Val) (vs ws : List Val) :
    aggOf .max ((v :: vs) ++ (w :: ws)) = maxVal (aggOf .max (v :: vs)) (aggOf .max (w :: ws)) := by
  simp only [aggOf, List.cons_append, List.foldl_append, List.foldl_cons]
  exact foldl_assoc_op maxVal maxVal_assoc ws _ w

theorem aggOf_min_append (v w : Val) (vs ws : List Val) :
    aggOf .min ((v :: vs) ++ (w :: ws)) = minVal (aggOf .min (v :: vs)) (aggOf .min (w :: ws)) := by
  simp only [aggOf, List.cons_append, List.foldl_append, List.foldl_cons]
  exact foldl_assoc_op minVal minVal_assoc ws _ w

theorem foldl_maxVal_typed {t : VTy} : ∀ (l : List Val) (v : Val), hasTy t v = true → (∀ w ∈ l, hasTy t w = true) →
    hasTy t (l.foldl maxVal v) = true
  | [], _, hv, _ => hv
  | x :: xs, v, hv, h => by
    simp only [List.foldl_cons]
    apply foldl_maxVal_typed xs _ _ (fun w hw => h w (by simp [hw]))
    unfold maxVal; split
    · exact h x (by simp)
    · exact hv

theorem foldl_minVal_typed {t : VTy} : ∀ (l : List Val) (v : Val), hasTy t v = true → (∀ w ∈ l, hasTy t w = true) →
    hasTy t (l.foldl minVal v) = true
  | [], _, hv, _ => hv
  | x :: xs, v, hv, h => by
    simp only [List.foldl_cons]
    apply foldl_minVal_typed xs _ _ (fun w hw => h w (by simp [hw]))
    unfold minVal; split
    · exact h x (by simp)
    · exact hv

theorem decCmp_same (u1 u2 : Int) (s : Nat) :
    decCmp (u1, s) (u2, s) = if u1 < u2 then -1 else if u1 > u2 then 1 else 0 := by
  simp [decCmp]

theorem mergeVal_max_int (x y : Int) : mergeVal .max (.int y) (.int x) = .ok (maxVal (.int x) (.int y)) := by
  simp only [mergeVal, maxVal, ltVal, leVal]
  by_cases h : y ≤ x
  · have : ¬ y > x := by omega
    simp [h, this]
  · have : y > x := by omega
    simp [h, this]

theorem mergeVal_max_str (x y : List UInt8) : mergeVal .max (.str y) (.str x) = .ok (maxVal (.str x) (.str y)) := by
  simp only [mergeVal, maxVal, ltVal, leVal]
  by_cases h : bytesLe y x = true <;> simp [h]

theorem mergeVal_max_dec (u u' : Int) (s : Nat) :
    mergeVal .max (.dec u' s) (.dec u s) = .ok (maxVal (.dec u s) (.dec u' s)) := by
  simp only [mergeVal, maxVal, ltVal, leVal, decCmp_same]
  by_cases h : u' ≤ u
  · by_cases h2 : u' < u
    · simp [h, h2]
    · have : ¬ u' > u := by omega
      simp [h, h2, this]
  · have h1 : ¬ u' < u := by omega
    have h2 : u' > u := by omega
    simp [h, h1, h2]

theorem mergeVal_min_int (x y : Int) : mergeVal .min (.int y) (.int x) = .ok (minVal (.int x) (.int y)) := by
  simp only [mergeVal, minVal, ltVal, leVal]
  by_cases h : x ≤ y
  · have : ¬ y < x := by omega
    simp [h, this]
  · have : y < x := by omega
    simp [h, this]

theorem mergeVal_min_str (x y : List UInt8) : mergeVal .min (.str y) (.str x) = .ok (minVal (.str x) (.str y)) := by
  simp only [mergeVal, minVal, ltVal, leVal]
  by_cases h : bytesLe x y = true <;> simp [h]

theorem mergeVal_min_dec (u u' : Int) (s : Nat) :
    mergeVal .min (.dec u' s) (.dec u s) = .ok (minVal (.dec u s) (.dec u' s)) := by
  simp only [mergeVal, minVal, ltVal, leVal, decCmp_same]
  by_cases h : u ≤ u'
  · have h1 : ¬ u' < u := by omega
    by_cases h2 : u < u'
    · simp [h, h1, h2]
    · simp [h, h1, h2]
  · have h1 : u' < u := by omega
    simp [h, h1]

/-- on two values of one type the MAX merger keeps the larger, the accumulated one on ties -/
theorem mergeVal_max_typed {t : VTy} {a b : Val} (ha : hasTy t a = true) (hb : hasTy t b = true) :
    mergeVal .max b a = .ok (maxVal a b) := by
  cases t <;> cases a <;> cases b <;> simp [hasTy] at ha hb
  · exact mergeVal_max_int _ _
  · subst ha; subst hb; exact mergeVal_max_dec _ _ _
  · exact mergeVal_max_str _ _

theorem mergeVal_min_typed {t : VTy} {a b : Val} (ha : hasTy t a = true) (hb : hasTy t b = true) :
    mergeVal .min b a = .ok (minVal a b) := by
  cases t <;> cases a <;> cases b <;> simp [hasTy] at ha hb
  · exact mergeVal_min_int _ _
  · subst ha; subst hb; exact mergeVal_min_dec _ _ _
  · exact mergeVal_min_str _ _

/-- **Aggregate homomorphism.**  `l1` are the argument values seen by the
    shards merged so far, `l2` those of the next shard, all non-NULL values of
    one column type (for SUM a numeric one): merging the next shard's aggregate
    into the accumulated one gives the aggregate of the concatenation.  Empty
    parts (COUNT 0, NULL for SUM/MAX/MIN) are included. -/
theorem agg_homomorphism (t : VTy) (k : AggKind) (l1 l2 : List Val)
    (h1 : ∀ v ∈ l1, hasTy t v = true) (h2 : ∀ v ∈ l2, hasTy t v = true)
    (hsum : k = .sum → t ≠ .str) :
    mergeVal k (aggOf k l2) (aggOf k l1) = .ok (aggOf k (l1 ++ l2)) := by
  cases k
  · -- COUNT
    simp [mergeVal, aggOf, getInt, bind, R.bind]
  · -- SUM
    have ht := hsum rfl
    cases l2 with
    | nil => cases l1 <;> simp [mergeVal, aggOf]
    | cons w ws =>
      cases l1 with
      | nil =>
        simp only [List.nil_append]
        rw [aggOf_sum_typed ht w ws h2]
        rfl
      | cons v vs =>
        have h12 : ∀ x ∈ v :: (vs ++ w :: ws), hasTy t x = true := by
          intro x hx
          simp only [List.mem_cons, List.mem_append] at hx
          rcases hx with rfl | hx | rfl | hx
          · exact h1 _ (by simp)
          · exact h1 _ (by simp [hx])
          · exact h2 _ (by simp)
          · exact h2 _ (by simp [hx])
        rw [aggOf_sum_typed ht w ws h2, aggOf_sum_typed ht v vs h1, List.cons_append,
          aggOf_sum_typed ht v (vs ++ w :: ws) h12]
        simp only [mergeVal, getDecimal, bind, R.bind, decAdd_same]
        have : sumU (v :: (vs ++ w :: ws)) = sumU (v :: vs) + sumU (w :: ws) := by
          have := sumU_append (v :: vs) (w :: ws)
          simpa using this
        rw [this]; rfl
  · -- MAX
    cases l2 with
    | nil => cases l1 <;> simp [mergeVal, aggOf]
    | cons w ws =>
      cases l1 with
      | nil =>
        have := foldl_maxVal_typed ws w (h2 w (by simp)) (fun x hx => h2 x (by simp [hx]))
        simp only [List.nil_append, aggOf]
        generalize ws.foldl maxVal w = m at this
        cases m <;> simp_all [mergeVal, hasTy]
      | cons v vs =>
        rw [aggOf_max_append]
        exact mergeVal_max_typed
          (foldl_maxVal_typed vs v (h1 v (by simp)) (fun x hx => h1 x (by simp [hx])))
          (foldl_maxVal_typed ws w (h2 w (by simp)) (fun x hx => h2 x (by simp [hx])))
  · -- MIN
    cases l2 with
    | nil => cases l1 <;> simp [mergeVal, aggOf]
    | cons w ws =>
      cases l1 with
      | nil =>
        have := foldl_minVal_typed ws w (h2 w (by simp)) (fun x hx => h2 x (by simp [hx]))
        simp only [List.nil_append, aggOf]
        generalize ws.foldl minVal w = m at this
        cases m <;> simp_all [mergeVal, hasTy]
      | cons v vs =>
        rw [aggOf_min_append]
        exact mergeVal_min_typed
          (foldl_minVal_typed vs v (h1 v (by simp)) (fun x hx => h1 x (by simp [hx])))
          (foldl_minVal_typed ws w (h2 w (by simp)) (fun x hx => h2 x (by simp [hx])))

/-! ### MAX / MIN of distinct values -/

theorem leVal_maxVal_left (m a : Val) : leVal m (maxVal m a) = true := by
  unfold maxVal; split
  · rename_i h
    rcases leVal_total m a with h1 | h1
    · exact h1
    · simp [ltVal, h1] at h
  · exact leVal_refl m

theorem leVal_maxVal_right (m a : Val) : leVal a (maxVal m a) = true := by
  unfold maxVal; split
  · exact leVal_refl a
  · rename_i h
    simpa [ltVal] using h

theorem foldl_maxVal_dedupAux : ∀ (l seen : List Val) (m : Val), (∀ x ∈ seen, leVal x m = true) →
    (dedupAux seen l).foldl maxVal m = l.foldl maxVal m
  | [], _, _, _ => rfl
  | a :: l, seen, m, h => by
    simp only [dedupAux]
    split
    · rename_i ha
      have : maxVal m a = m := by
        unfold maxVal
        have := h a ha
        simp [ltVal, this]
      simp only [List.foldl_cons, this]
      exact foldl_maxVal_dedupAux l seen m h
    · simp only [List.foldl_cons]
      apply foldl_maxVal_dedupAux l (a :: seen) (maxVal m a)
      intro x hx
      rcases List.mem_cons.mp hx with rfl | hx
      · exact leVal_maxVal_right m x
      · exact leVal_trans _ _ _ (h x hx) (leVal_maxVal_left m a)

theorem aggOf_max_dedup (l : List Val) : aggOf .max (dedup l) = aggOf .max l := by
  cases l with
  | nil => rfl
  | cons v vs =>
    simp only [dedup, dedupAux, List.not_mem_nil, if_false, aggOf]
    exact foldl_maxVal_dedupAux vs [v] v (by intro x hx; simp at hx; subst hx; exact leVal_refl _)

theorem leVal_minVal_left (m a : Val) : leVal (minVal m a) m = true := by
  unfold minVal; split
  · rename_i h
    rcases leVal_total a m with h1 | h1
    · exact h1
    · simp [ltVal, h1] at h
  · exact leVal_refl m

theorem leVal_minVal_right (m a : Val) : leVal (minVal m a) a = true := by
  unfold minVal; split
  · exact leVal_refl a
  · rename_i h
    simpa [ltVal] using h

theorem foldl_minVal_dedupAux : ∀ (l seen : List Val) (m : Val), (∀ x ∈ seen, leVal m x = true) →
    (dedupAux seen l).foldl minVal m = l.foldl minVal m
  | [], _, _, _ => rfl
  | a :: l, seen, m, h => by
    simp only [dedupAux]
    split
    · rename_i ha
      have : minVal m a = m := by
        unfold minVal
        have := h a ha
        simp [ltVal, this]
      simp only [List.foldl_cons, this]
      exact foldl_minVal_dedupAux l seen m h
    · simp only [List.foldl_cons]
      apply foldl_minVal_dedupAux l (a :: seen) (minVal m a)
      intro x hx
      rcases List.mem_cons.mp hx with rfl | hx
      · exact leVal_minVal_right m x
      · exact leVal_trans _ _ _ (leVal_minVal_left m a) (h x hx)

theorem aggOf_min_dedup (l : List Val) : aggOf .min (dedup l) = aggOf .min l := by
  cases l with
  | nil => rfl
  | cons v vs =>
    simp only [dedup, dedupAux, List.not_mem_nil, if_false, aggOf]
    exact foldl_minVal_dedupAux vs [v] v (by intro x hx; simp at hx; subst hx; exact leVal_refl _)

/-- MAX(DISTINCT x) = MAX(x), MIN(DISTINCT x) = MIN(x) -/
theorem evalItem_distinct_max (grp : List Row) (arg : Option Nat) :
    evalItem grp (.agg .max arg true) = evalItem grp (.agg .max arg false) := by
  cases arg with
  | none => simp [evalItem, aggArgs]
  | some c => simp only [evalItem, aggArgs, if_true, Bool.false_eq_true, if_false, aggOf_max_dedup]

theorem evalItem_distinct_min (grp : List Row) (arg : Option Nat) :
    evalItem grp (.agg .min arg true) = evalItem grp (.agg .min arg false) := by
  cases arg with
  | none => simp [evalItem, aggArgs]
  | some c => simp only [evalItem, aggArgs, if_true, Bool.false_eq_true, if_false, aggOf_min_dedup]

end GaeaVerif.Merge
