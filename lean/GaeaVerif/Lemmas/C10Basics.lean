import GaeaVerif.Model.C10Config
/-
  Helper lemmas for C10: Go maps as write logs, association lists, consecutive
  index lists, the loops of parseHashRuleSliceInfos and of the calendar rules.
-/
namespace GaeaVerif.C10
open GaeaVerif

/-- inversion of the `match x with | .ok a => … | .fail => .fail | .panic => .panic` steps -/
macro "r_cases " h:ident " : " x:term " with " a:ident ha:ident : tactic =>
  `(tactic| (have hex : ∃ a, $x = R.ok a := by
               cases hx : $x with
               | ok a => exact ⟨a, rfl⟩
               | fail => rw [hx] at $h:ident; simp at $h:ident
               | panic => rw [hx] at $h:ident; simp at $h:ident
             refine Exists.elim hex (fun $a $ha => ?_)
             rw [$ha:ident] at $h:ident
             try simp only at $h:ident))

/-! ### write logs -/

theorem distinctCount_of_nodup : ∀ (l : List Int), l.Nodup → distinctCount l = l.length
  | [], _ => rfl
  | a :: l, h => by
    have h' := List.nodup_cons.mp h
    simp [distinctCount, h'.1, distinctCount_of_nodup l h'.2]
    omega

theorem mapGet_mem : ∀ (m : IntMap) (k v : Int), mapGet m k = some v → (k, v) ∈ m
  | [], _, _, h => by simp [mapGet] at h
  | (k', v') :: rest, k, v, h => by
    unfold mapGet at h
    split at h
    · next x hx =>
      cases h
      exact List.mem_cons_of_mem _ (mapGet_mem rest k v hx)
    · next hx =>
      split at h
      · next hk => cases h; subst hk; exact List.mem_cons_self
      · cases h

theorem mapGet_isSome_iff : ∀ (m : IntMap) (k : Int), (mapGet m k).isSome ↔ k ∈ m.map (·.1)
  | [], k => by simp [mapGet]
  | (k', v') :: rest, k => by
    unfold mapGet
    have ih := mapGet_isSome_iff rest k
    cases hr : mapGet rest k with
    | some x =>
      rw [hr] at ih
      have hm : k ∈ rest.map (·.1) := ih.mp rfl
      simp only [Option.isSome_some, List.map_cons, List.mem_cons, true_iff]
      exact Or.inr hm
    | none =>
      rw [hr] at ih
      have hm : ¬ k ∈ rest.map (·.1) := fun h => by simpa using ih.mpr h
      by_cases hk : k' = k
      · simp [hk]
      · simp only [hk, if_false, Option.isSome_none, List.map_cons, List.mem_cons]
        constructor
        · intro h; cases h
        · rintro (h | h)
          · exact absurd h.symm hk
          · exact absurd h hm

/-! ### association lists keyed by (db, table) -/

theorem lookup_append_single {α : Type} (m : List ((Str × Str) × α)) (k : Str × Str) (v : α) (k' : Str × Str) :
    lookup (m ++ [(k, v)]) k' = if k = k' then some v else lookup m k' := by
  induction m with
  | nil => simp [lookup]
  | cons a m ih =>
    obtain ⟨ka, va⟩ := a
    simp only [List.cons_append, lookup, ih]
    by_cases h : k = k'
    · simp [h]
    · simp [h]

theorem lookup_mem {α : Type} : ∀ (m : List ((Str × Str) × α)) (k : Str × Str) (v : α),
    lookup m k = some v → (k, v) ∈ m
  | [], _, _, h => by simp [lookup] at h
  | (k', v') :: rest, k, v, h => by
    unfold lookup at h
    split at h
    · next x hx => cases h; exact List.mem_cons_of_mem _ (lookup_mem rest k v hx)
    · split at h
      · next hk => cases h; subst hk; exact List.mem_cons_self
      · cases h

/-! ### consecutive integer lists -/

/-- `l = [s, s+1, …]` -/
def IsConsec : List Int → Int → Prop
  | [], _ => True
  | a :: l, s => a = s ∧ IsConsec l (s + 1)

theorem isConsec_range_map (n : Nat) (s : Int) :
    IsConsec ((List.range n).map (fun (j : Nat) => (j : Int) + s)) s := by
  induction n generalizing s with
  | zero => simp [IsConsec]
  | succ n ih =>
    rw [show n + 1 = 1 + n by omega, List.range_add]
    simp only [List.range_one, List.map_cons, List.map_map, List.singleton_append]
    refine ⟨by simp, ?_⟩
    have := ih (s + 1)
    have heq : (fun (j : Nat) => (j : Int) + (s + 1)) = ((fun (j : Nat) => (j : Int) + s) ∘ fun x => 1 + x) := by
      funext j; simp; omega
    rw [heq] at this
    exact this

theorem isConsec_append : ∀ (l1 l2 : List Int) (s : Int),
    IsConsec l1 s → IsConsec l2 (s + l1.length) → IsConsec (l1 ++ l2) s
  | [], l2, s, _, h2 => by
    simp only [List.length_nil, List.nil_append] at h2 ⊢
    simpa using h2
  | a :: l1, l2, s, h1, h2 => by
    refine ⟨h1.1, isConsec_append l1 l2 (s + 1) h1.2 ?_⟩
    have : s + 1 + (l1.length : Int) = s + ((a :: l1).length : Int) := by simp; omega
    rw [this]; exact h2

theorem isConsec_mem : ∀ (l : List Int) (s k : Int), IsConsec l s → (k ∈ l ↔ s ≤ k ∧ k < s + l.length)
  | [], s, k, _ => by simp
  | a :: l, s, k, h => by
    have ih := isConsec_mem l (s + 1) k h.2
    simp only [List.mem_cons, ih, List.length_cons, h.1]
    constructor
    · rintro (h | h)
      · omega
      · omega
    · intro h
      by_cases hk : k = s
      · left; exact hk
      · right; omega

theorem isConsec_pairwise : ∀ (l : List Int) (s : Int), IsConsec l s → l.Pairwise (· < ·)
  | [], _, _ => List.Pairwise.nil
  | a :: l, s, h => by
    refine List.Pairwise.cons ?_ (isConsec_pairwise l (s + 1) h.2)
    intro b hb
    have := (isConsec_mem l (s + 1) b h.2).mp hb
    have := h.1
    omega

theorem pairwise_lt_nodup {l : List Int} (h : l.Pairwise (· < ·)) : l.Nodup := by
  refine List.Pairwise.imp ?_ h
  intro a b hab; omega

/-! ### hashTables -/

theorem hashTables_spec : ∀ (locs : List Int) (i s : Int) (t : IntMap), hashTables locs i s = .ok t →
    IsConsec (t.map (·.1)) s ∧ ((t.length : Int) = locs.sum) ∧ (∀ kv ∈ t, i ≤ kv.2 ∧ kv.2 < i + locs.length)
  | [], i, s, t, h => by
    simp [hashTables] at h; subst h; simp [IsConsec]
  | loc :: rest, i, s, t, h => by
    unfold hashTables at h
    split at h
    · cases h
    · next hloc =>
      split at h
      · next r hr =>
        cases h
        have ih := hashTables_spec rest (i + 1) (s + loc) r hr
        have hl : ((List.range loc.toNat).map (fun (j : Nat) => ((j : Int) + s, i))).length = loc.toNat := by simp
        refine ⟨?_, ?_, ?_⟩
        · rw [List.map_append]
          apply isConsec_append
          · rw [List.map_map]
            exact isConsec_range_map loc.toNat s
          · rw [List.length_map, hl]
            have : s + ((loc.toNat : Nat) : Int) = s + loc := by omega
            rw [this]; exact ih.1
        · rw [List.length_append, hl]
          simp only [List.sum_cons]
          have := ih.2.1
          omega
        · intro kv hkv
          rcases List.mem_append.mp hkv with h1 | h1
          · simp only [List.mem_map, List.mem_range] at h1
            obtain ⟨j, _, hj⟩ := h1
            subst hj
            simp only [List.length_cons]
            omega
          · have := ih.2.2 kv h1
            simp only [List.length_cons]
            omega
      · cases h
      · cases h

end GaeaVerif.C10
