import GaeaVerif.Lemmas.C13Total
import GaeaVerif.Model.ColDef
/-
  C13 helper lemmas: column definitions.  `FieldData.Parse` on the packet a
  server sends for a column, `writeColumnDefinition` on what it extracted, and
  the spec's reader on both.
-/
namespace GaeaVerif.C13
open GaeaVerif GaeaVerif.BinRow GaeaVerif.BinProto GaeaVerif.LenEnc GaeaVerif.ColDef

/-- What `Parse` extracts from the definition `c`. -/
def fieldOf (c : ColumnDef) : FieldFull :=
  { schema := c.schema, table := c.table, orgTable := c.orgTable, name := c.name, orgName := c.orgName,
    charset := c.charset, columnLength := c.columnLength, typ := c.typ, flag := c.flags, decimal := c.decimals,
    defaultValueLength := 0, defaultValue := none }

theorem fieldOf_toField (c : ColumnDef) : (fieldOf c).toField = c.toField := rfl

theorem strEnc_length (b : Bytes) : (appendLenEncStringBytes b).length = lenEncIntSize b.length + b.length := by
  simp [appendLenEncStringBytes, GaeaVerif.C12.appendLenEncInt_length]

theorem readStr_at (p pre b suf : Bytes) (hp : p = pre ++ appendLenEncStringBytes b ++ suf) (hb : b.length < 2 ^ 63) :
    readStr p pre.length = .ok (b, (((pre ++ appendLenEncStringBytes b).length : Nat) : Int)) := by
  subst hp
  unfold readStr
  rw [GaeaVerif.C12.lenenc_str_roundtrip pre suf b hb]
  simp only [List.length_append, strEnc_length]
  congr 2; omega

theorem skip_at (p b suf : Bytes) (hp : p = appendLenEncStringBytes b ++ suf) (hb : b.length < 2 ^ 63) :
    skipLenEncString p 0 = .ok (((appendLenEncStringBytes b).length : Nat) : Int) := by
  subst hp
  unfold skipLenEncString appendLenEncStringBytes
  have e : appendLenEncInt b.length ++ b ++ suf = [] ++ appendLenEncInt b.length ++ (b ++ suf) := by simp
  have h := GaeaVerif.C12.lenenc_int_roundtrip [] (b ++ suf) b.length (by omega)
  simp only [List.length_nil, Int.natCast_zero, Int.zero_add] at h
  rw [e, h]
  simp only [R.bind_ok]
  have hu : u64ToInt b.length = (b.length : Int) := by unfold u64ToInt; rw [if_pos hb]
  rw [hu]
  have hlen := GaeaVerif.C12.appendLenEncInt_length b.length
  rw [if_neg (by simp only [List.length_append, List.length_nil, hlen]; omega)]
  simp only [List.length_append, hlen]
  congr 1

theorem tail_length (c : ColumnDef) : (columnDefTail c).length = 13 := by
  simp [columnDefTail, GaeaVerif.C12.leBytes_length]

theorem fixedPart_tail (c : ColumnDef) (h : c.wf) :
    fixedPart (columnDefTail c) = some (c.charset, c.columnLength, c.typ, c.flags, c.decimals) := by
  obtain ⟨h1, h2, h3, h4, h5, _⟩ := h
  have e1 : ((columnDefTail c).drop 1).take 2 = leBytes c.charset 2 := by simp [columnDefTail, leBytes]
  have e2 : ((columnDefTail c).drop 3).take 4 = leBytes c.columnLength 4 := by simp [columnDefTail, leBytes]
  have e3 : (columnDefTail c).getD 7 0 = UInt8.ofNat c.typ := by simp [columnDefTail, leBytes]
  have e4 : ((columnDefTail c).drop 8).take 2 = leBytes c.flags 2 := by simp [columnDefTail, leBytes]
  have e5 : (columnDefTail c).getD 10 0 = UInt8.ofNat c.decimals := by simp [columnDefTail, leBytes]
  unfold fixedPart
  rw [if_neg (by rw [tail_length]; omega), e1, e2, e3, e4, e5,
    GaeaVerif.C12.leNat_leBytes 2 c.charset (by omega), GaeaVerif.C12.leNat_leBytes 4 c.columnLength (by omega),
    GaeaVerif.C12.leNat_leBytes 2 c.flags (by omega), GaeaVerif.C12.ofNat_toNat c.typ h3,
    GaeaVerif.C12.ofNat_toNat c.decimals h5]

/-- **`Parse` reads a server's column definition exactly.** -/
theorem fieldParse_encode (c : ColumnDef) (h : c.wf) : fieldParse (encodeColumnDef c) = .ok (fieldOf c) := by
  have hw := h
  obtain ⟨_, _, _, _, _, l0, l1, l2, l3, l4, l5⟩ := hw
  generalize hp : encodeColumnDef c = p
  unfold encodeColumnDef at hp
  generalize hS0 : appendLenEncStringBytes c.catalog = S0 at hp
  generalize hS1 : appendLenEncStringBytes c.schema = S1 at hp
  generalize hS2 : appendLenEncStringBytes c.table = S2 at hp
  generalize hS3 : appendLenEncStringBytes c.orgTable = S3 at hp
  generalize hS4 : appendLenEncStringBytes c.name = S4 at hp
  generalize hS5 : appendLenEncStringBytes c.orgName = S5 at hp
  have k0 := skip_at p c.catalog (S1 ++ S2 ++ S3 ++ S4 ++ S5 ++ columnDefTail c)
    (by rw [hS0, ← hp]; simp [List.append_assoc]) (by omega)
  have k1 := readStr_at p S0 c.schema (S2 ++ S3 ++ S4 ++ S5 ++ columnDefTail c)
    (by rw [hS1, ← hp]; simp [List.append_assoc]) (by omega)
  have k2 := readStr_at p (S0 ++ S1) c.table (S3 ++ S4 ++ S5 ++ columnDefTail c)
    (by rw [hS2, ← hp]; simp [List.append_assoc]) (by omega)
  have k3 := readStr_at p (S0 ++ S1 ++ S2) c.orgTable (S4 ++ S5 ++ columnDefTail c)
    (by rw [hS3, ← hp]; simp [List.append_assoc]) (by omega)
  have k4 := readStr_at p (S0 ++ S1 ++ S2 ++ S3) c.name (S5 ++ columnDefTail c)
    (by rw [hS4, ← hp]; simp [List.append_assoc]) (by omega)
  have k5 := readStr_at p (S0 ++ S1 ++ S2 ++ S3 ++ S4) c.orgName (columnDefTail c)
    (by rw [hS5, ← hp]) (by omega)
  rw [hS0] at k0
  rw [hS1] at k1
  rw [hS2] at k2
  rw [hS3] at k3
  rw [hS4] at k4
  rw [hS5] at k5
  have hsl : goSlice p (((S0 ++ S1 ++ S2 ++ S3 ++ S4 ++ S5).length : Nat) : Int) p.length = .ok (columnDefTail c) := by
    have := GaeaVerif.C12.goSlice_append (S0 ++ S1 ++ S2 ++ S3 ++ S4 ++ S5) (columnDefTail c) []
    rw [List.append_nil, hp] at this
    rw [← this]
    congr 1
    rw [← hp]; simp only [List.length_append]; omega
  have hlen : ¬ ((p.length : Int) > (((S0 ++ S1 ++ S2 ++ S3 ++ S4 ++ S5).length : Nat) : Int) + 13) := by
    rw [← hp]; simp only [List.length_append, tail_length]; omega
  unfold fieldParse
  simp only [k0, k1, k2, k3, k4, k5, hsl, fixedPart_tail c h, if_neg hlen]
  rfl

/-- **`writeColumnDefinition` re-serialises what `Parse` extracted as the
    server's packet** (with the catalog the proxy always writes, "def"). -/
theorem write_fieldOf (c : ColumnDef) :
    writeColumnDefinition (fieldOf c) = .ok (encodeColumnDef { c with catalog := defCatalog }) := by
  simp only [writeColumnDefinition, fieldOf, GaeaVerif.C12.write_eq_append, encodeColumnDef, columnDefTail,
    appendLenEncStringBytes, defCatalog]
  simp [appendLenEncInt, List.append_assoc]

theorem takeLenEnc_str (b rest : Bytes) (h : b.length < 2 ^ 64) :
    takeLenEnc (appendLenEncStringBytes b ++ rest) = some (b, rest) := by
  have := takeLenEnc_append b rest h
  simpa [appendLenEncStringBytes, List.append_assoc] using this

/-- The spec's reader reads a server's column definition as itself. -/
theorem decode_encode_coldef (c : ColumnDef) (h : c.wf) : decodeColumnDef (encodeColumnDef c) = some c := by
  obtain ⟨h1, h2, h3, h4, h5, l0, l1, l2, l3, l4, l5⟩ := h
  unfold decodeColumnDef encodeColumnDef
  simp only [List.append_assoc]
  rw [takeLenEnc_str _ _ (by omega)]
  simp only
  rw [takeLenEnc_str _ _ (by omega)]
  simp only
  rw [takeLenEnc_str _ _ (by omega)]
  simp only
  rw [takeLenEnc_str _ _ (by omega)]
  simp only
  rw [takeLenEnc_str _ _ (by omega)]
  simp only
  rw [takeLenEnc_str _ _ (by omega)]
  simp only
  have hc := GaeaVerif.C12.leNat_leBytes 2 c.charset (by omega)
  have hl := GaeaVerif.C12.leNat_leBytes 4 c.columnLength (by omega)
  have hf := GaeaVerif.C12.leNat_leBytes 2 c.flags (by omega)
  simp only [leBytes] at hc hl hf
  simp only [columnDefTail, leBytes, List.cons_append, List.nil_append, hc, hl, hf,
    GaeaVerif.C12.ofNat_toNat c.typ h3, GaeaVerif.C12.ofNat_toNat c.decimals h5]

theorem wf_def (c : ColumnDef) (h : c.wf) : ({ c with catalog := defCatalog } : ColumnDef).wf := by
  obtain ⟨h1, h2, h3, h4, h5, l0, l1, l2, l3, l4, l5⟩ := h
  exact ⟨h1, h2, h3, h4, h5, by simp [defCatalog], l1, l2, l3, l4, l5⟩

/-! ### lists of definitions -/

theorem parseDefs_encode (cds : List ColumnDef) (h : ∀ c ∈ cds, c.wf) :
    parseDefs (cds.map encodeColumnDef) = .ok (cds.map fieldOf) := by
  induction cds with
  | nil => rfl
  | cons c cs ih =>
    simp only [List.map_cons, parseDefs, fieldParse_encode c (h c (by simp)),
      ih (fun c' hc' => h c' (by simp [hc']))]

theorem writeDefs_fieldOf (cds : List ColumnDef) :
    writeDefs (cds.map fieldOf) = .ok (cds.map fun c => encodeColumnDef { c with catalog := defCatalog }) := by
  induction cds with
  | nil => rfl
  | cons c cs ih => simp only [List.map_cons, writeDefs, write_fieldOf c, ih]

theorem toField_map (cds : List ColumnDef) :
    (cds.map fieldOf).map FieldFull.toField = cds.map ColumnDef.toField := by
  simp [List.map_map, Function.comp_def, fieldOf_toField]

/-- What a COM_STMT_EXECUTE result is made of, for definitions as a server
    sends them. -/
theorem stmtResult_shape (ops : FloatOps) (cds : List ColumnDef) (h : ∀ c ∈ cds, c.wf) (rows : List Bytes) :
    stmtResult ops (cds.map encodeColumnDef) rows
      = match rowsToBinary ops (cds.map ColumnDef.toField) rows with
        | .err e => .err e
        | .ok bins => .ok (cds.map (fun c => encodeColumnDef { c with catalog := defCatalog }), bins) := by
  unfold stmtResult
  simp only [parseDefs_encode cds h, toField_map, writeDefs_fieldOf]
  cases rowsToBinary ops (cds.map ColumnDef.toField) rows <;> rfl

end GaeaVerif.C13
