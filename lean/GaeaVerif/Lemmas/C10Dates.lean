import GaeaVerif.Lemmas.C10Rules
/-
  C10: the lists produced by ParseYearRange / ParseMonthRange / ParseDayRange
  (both copies) are strictly ascending, and the strict copies (models) accept
  only what the lenient copies (router) accept, with the same result.
-/
namespace GaeaVerif.C10
open GaeaVerif

theorem intRange_pairwise (lo hi : Int) : (intRange lo hi).Pairwise (· < ·) := by
  unfold intRange
  have h := isConsec_range_map (hi - lo + 1).toNat lo
  have heq : (fun (k : Nat) => lo + (k : Int)) = (fun (j : Nat) => (j : Int) + lo) := by
    funext k; omega
  rw [heq]
  exact isConsec_pairwise _ _ h

/-! ### months -/

/-- lower bound of everything `monthLoop n y m` emits -/
def monthLb (y m : Int) : Int := if 12 < m then (y + 1) * 100 + m % 12 else y * 100 + m

theorem monthLoop_spec : ∀ (n : Nat) (y m : Int),
    (∀ x ∈ monthLoop n y m, monthLb y m ≤ x) ∧ (monthLoop n y m).Pairwise (· < ·)
  | 0, y, m => by simp [monthLoop]
  | n + 1, y, m => by
    unfold monthLoop
    by_cases hm : 12 < m
    · simp only [hm, if_true]
      have ih := monthLoop_spec n (y + 1) (m % 12 + 1)
      have hlb : (y + 1) * 100 + m % 12 < monthLb (y + 1) (m % 12 + 1) := by
        unfold monthLb; split <;> omega
      refine ⟨?_, ?_⟩
      · intro x hx
        rcases List.mem_cons.mp hx with h | h
        · subst h; unfold monthLb; simp [hm]
        · have := ih.1 x h
          unfold monthLb; simp only [hm, if_true]; omega
      · refine List.Pairwise.cons ?_ ih.2
        intro x hx
        have := ih.1 x hx
        omega
    · simp only [hm, if_false]
      have ih := monthLoop_spec n y (m + 1)
      have hlb : y * 100 + m < monthLb y (m + 1) := by
        unfold monthLb; split <;> omega
      refine ⟨?_, ?_⟩
      · intro x hx
        rcases List.mem_cons.mp hx with h | h
        · subst h; unfold monthLb; simp [hm]
        · have := ih.1 x h
          unfold monthLb; simp only [hm, if_false]; omega
      · refine List.Pairwise.cons ?_ ih.2
        intro x hx
        have := ih.1 x hx
        omega

/-! ### days -/

def ValidDate (dt : Nat × Nat × Nat) : Prop :=
  1 ≤ dt.2.1 ∧ dt.2.1 ≤ 12 ∧ 1 ≤ dt.2.2 ∧ dt.2.2 ≤ daysIn dt.2.1 dt.1

theorem daysIn_le (m y : Nat) : daysIn m y ≤ 31 ∧ 28 ≤ daysIn m y := by
  unfold daysIn; repeat' split
  all_goals omega

theorem nextDay_valid (dt : Nat × Nat × Nat) (h : ValidDate dt) :
    ValidDate (nextDay dt) ∧ dayNum dt < dayNum (nextDay dt) := by
  obtain ⟨y, m, d⟩ := dt
  unfold ValidDate at h
  simp only at h
  have hd := daysIn_le m y
  by_cases h1 : d < daysIn m y
  · simp only [nextDay, h1, if_true, ValidDate, dayNum]
    refine ⟨⟨h.1, h.2.1, by omega, by omega⟩, by omega⟩
  · by_cases h2 : m < 12
    · have := daysIn_le (m + 1) y
      simp only [nextDay, h1, h2, if_true, if_false, ValidDate, dayNum]
      refine ⟨⟨by omega, by omega, by omega, by omega⟩, by omega⟩
    · have := daysIn_le 1 (y + 1)
      simp only [nextDay, h1, h2, if_false, ValidDate, dayNum]
      refine ⟨⟨by omega, by omega, by omega, by omega⟩, by omega⟩

theorem dayLoop_spec : ∀ (n : Nat) (dt : Nat × Nat × Nat), ValidDate dt →
    (∀ x ∈ dayLoop n dt, dayNum dt ≤ x) ∧ (dayLoop n dt).Pairwise (· < ·)
  | 0, dt, _ => by simp [dayLoop]
  | n + 1, dt, h => by
    unfold dayLoop
    have hn := nextDay_valid dt h
    have ih := dayLoop_spec n (nextDay dt) hn.1
    refine ⟨?_, ?_⟩
    · intro x hx
      rcases List.mem_cons.mp hx with h1 | h1
      · omega
      · have := ih.1 x h1; omega
    · refine List.Pairwise.cons ?_ ih.2
      intro x hx
      have := ih.1 x hx; omega

theorem timeParseDay_valid (s : Str) (dt : Nat × Nat × Nat) (h : timeParseDay s = some dt) : ValidDate dt := by
  unfold timeParseDay at h
  split at h
  · simp only at h
    split at h
    · next hv => cases h; exact hv
    · cases h
  · cases h

/-! ### the three parsers -/

theorem parseYearRange_pairwise (st : Bool) (dr : Str) (nums : List Int)
    (h : parseYearRange st dr = .ok nums) : nums.Pairwise (· < ·) := by
  unfold parseYearRange at h
  repeat' split at h
  all_goals cases h
  all_goals first | exact intRange_pairwise _ _ | simp

theorem parseMonthRange_pairwise (st : Bool) (dr : Str) (nums : List Int)
    (h : parseMonthRange st dr = .ok nums) : nums.Pairwise (· < ·) := by
  unfold parseMonthRange at h
  repeat' split at h
  all_goals cases h
  all_goals first | exact (monthLoop_spec _ _ _).2 | simp

theorem parseDayRange_pairwise (st : Bool) (dr : Str) (nums : List Int)
    (h : parseDayRange st dr = .ok nums) : nums.Pairwise (· < ·) := by
  unfold parseDayRange at h
  repeat' split at h
  all_goals cases h
  all_goals first
    | simp
    | (rename_i b hb _ _ _; exact (dayLoop_spec _ b (timeParseDay_valid _ b hb)).2)

/-- the models copies accept only what the router copies accept, with the same list -/
theorem parseYearRange_lenient (dr : Str) (nums : List Int)
    (h : parseYearRange true dr = .ok nums) : parseYearRange false dr = .ok nums := by
  unfold parseYearRange at h ⊢
  repeat' split at h
  all_goals cases h
  all_goals simp_all

theorem parseMonthRange_lenient (dr : Str) (nums : List Int)
    (h : parseMonthRange true dr = .ok nums) : parseMonthRange false dr = .ok nums := by
  unfold parseMonthRange at h ⊢
  repeat' split at h
  all_goals cases h
  all_goals simp_all

theorem parseDayRange_lenient (dr : Str) (nums : List Int)
    (h : parseDayRange true dr = .ok nums) : parseDayRange false dr = .ok nums := by
  unfold parseDayRange at h ⊢
  repeat' split at h
  all_goals cases h
  all_goals simp_all

end GaeaVerif.C10
