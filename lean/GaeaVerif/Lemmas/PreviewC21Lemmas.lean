import GaeaVerif.Model.PreviewC21Spec
import GaeaVerif.Lemmas.LexC17Basic
/-
  Helper lemmas for C21: the Go string functions of the Preview model on ASCII
  prefixes and suffixes.
-/
namespace GaeaVerif.PreviewC21
open GaeaVerif GaeaVerif.LexC17

theorem decodeRune_ascii (b : UInt8) (t : Bytes) (h : b.toNat < 0x80) : decodeRune (b :: t) = (b.toNat, 1) := by
  simp [decodeRune, h]

theorem decodeRune_width_pos (b : UInt8) (t : Bytes) : 1 ≤ (decodeRune (b :: t)).2 := by
  by_cases h : b.toNat < 0x80
  · rw [decodeRune_ascii b t h]; exact Nat.le_refl 1
  · generalize hd : decodeRune (b :: t) = d
    obtain ⟨r, w⟩ := d
    rcases decodeRune_high b t h r w hd with ⟨_, h2⟩ | ⟨_, h2, _⟩
    · show 1 ≤ w; omega
    · show 1 ≤ w; omega

/-! ### trimLeftFunc -/

theorem trimLeft_fuel (f : Nat → Bool) : ∀ (n m : Nat) (s : Bytes), s.length ≤ n → s.length ≤ m →
    trimLeftFunc f n s = trimLeftFunc f m s := by
  intro n
  induction n with
  | zero =>
    intro m s h1 _
    have : s = [] := List.length_eq_zero_iff.mp (by omega)
    subst this
    cases m <;> simp [trimLeftFunc]
  | succ n ih =>
    intro m s h1 h2
    cases s with
    | nil => cases m <;> simp [trimLeftFunc]
    | cons b t =>
      cases m with
      | zero => simp at h2
      | succ m =>
        simp only [trimLeftFunc]
        split
        · have := decodeRune_width_pos b t
          apply ih <;> simp only [List.length_drop, List.length_cons] at * <;> omega
        · rfl

theorem trimLeft_stop (f : Nat → Bool) (n : Nat) (b : UInt8) (t : Bytes) (h : b.toNat < 0x80) (hf : f b.toNat = false) :
    trimLeftFunc f n (b :: t) = b :: t := by
  cases n with
  | zero => rfl
  | succ n => simp [trimLeftFunc, decodeRune_ascii b t h, hf]

theorem trimLeft_nil (f : Nat → Bool) (n : Nat) : trimLeftFunc f n [] = [] := by
  cases n <;> simp [trimLeftFunc]

/-- Leading ASCII bytes that satisfy `f` are removed. -/
theorem trimLeft_ascii_run (f : Nat → Bool) (ws s : Bytes) (hws : ∀ b ∈ ws, b.toNat < 0x80 ∧ f b.toNat = true) :
    trimLeftFunc f (ws ++ s).length (ws ++ s) = trimLeftFunc f s.length s := by
  induction ws with
  | nil => rfl
  | cons b t ih =>
    have hb := hws b (by simp)
    simp only [List.cons_append, List.length_cons, trimLeftFunc, decodeRune_ascii b _ hb.1, hb.2, if_true,
      List.drop_succ_cons, List.drop_zero]
    exact ih (fun b' hb' => hws b' (by simp [hb']))

/-! ### decodeLastRune, trimRightFunc -/

theorem decodeLastRune_ascii_last (s : Bytes) (b : UInt8) (h : b.toNat < 0x80) :
    decodeLastRune (s ++ [b]) = (b.toNat, 1) := by
  simp only [decodeLastRune, List.length_append, List.length_cons, List.length_nil]
  rw [if_neg (by omega)]
  have : (s ++ [b]).getD (s.length + (0 + 1) - 1) 0 = b := by
    simp [List.getD_eq_getElem?_getD]
  simp only [this, h, if_true]

theorem trimRight_succ (f : Nat → Bool) (n : Nat) (s : Bytes) (hs : s ≠ []) :
    trimRightFunc f (n + 1) s =
      if f (decodeLastRune s).1 = true then trimRightFunc f n (s.take (s.length - (decodeLastRune s).2)) else s := by
  cases s with
  | nil => exact absurd rfl hs
  | cons b t => rfl

theorem trimRight_stop (f : Nat → Bool) (n : Nat) (s : Bytes) (b : UInt8) (h : b.toNat < 0x80) (hf : f b.toNat = false) :
    trimRightFunc f n (s ++ [b]) = s ++ [b] := by
  cases n with
  | zero => rfl
  | succ n =>
    rw [trimRight_succ f n _ (by simp), decodeLastRune_ascii_last s b h]
    simp [hf]

theorem trimRight_nil (f : Nat → Bool) (n : Nat) : trimRightFunc f n [] = [] := by
  cases n <;> simp [trimRightFunc]

/-- Trailing ASCII bytes that satisfy `f` are removed, down to an ASCII byte that does not. -/
theorem trimRight_ascii_run (f : Nat → Bool) (s : Bytes) (b : UInt8) (h : b.toNat < 0x80) (hf : f b.toNat = false) :
    ∀ (k : Nat) (tail : Bytes) (n : Nat), tail.length = k → (∀ x ∈ tail, x.toNat < 0x80 ∧ f x.toNat = true) → k ≤ n →
      trimRightFunc f n (s ++ [b] ++ tail) = s ++ [b] := by
  intro k
  induction k with
  | zero =>
    intro tail n hk _ _
    have : tail = [] := List.length_eq_zero_iff.mp hk
    subst this
    simpa using trimRight_stop f n s b h hf
  | succ k ih =>
    intro tail n hk hx hn
    rcases List.eq_nil_or_concat tail with e | ⟨init, x, e⟩
    · subst e; simp at hk
    rw [List.concat_eq_append] at e
    subst e
    have hk' : init.length = k := by simp at hk; omega
    have hxx := hx x (by simp)
    obtain ⟨n, rfl⟩ : ∃ m, n = m + 1 := ⟨n - 1, by omega⟩
    have e : s ++ [b] ++ (init ++ [x]) = (s ++ [b] ++ init) ++ [x] := by simp
    rw [e, trimRight_succ f n _ (by simp), decodeLastRune_ascii_last _ x hxx.1]
    simp only [hxx.2, if_true]
    have : List.take (((s ++ [b] ++ init) ++ [x]).length - 1) ((s ++ [b] ++ init) ++ [x]) = s ++ [b] ++ init := by
      have hl : ((s ++ [b] ++ init) ++ [x]).length - 1 = (s ++ [b] ++ init).length := by simp
      rw [hl, List.take_left']
      rfl
    rw [this]
    exact ih init n hk' (fun y hy => hx y (by simp [hy])) (by omega)

theorem trimRight_is_take (f : Nat → Bool) : ∀ (n : Nat) (s : Bytes), ∃ m, trimRightFunc f n s = s.take m := by
  intro n
  induction n with
  | zero => intro s; exact ⟨s.length, by simp [trimRightFunc]⟩
  | succ n ih =>
    intro s
    cases s with
    | nil => exact ⟨0, by simp [trimRightFunc]⟩
    | cons b t =>
      simp only [trimRightFunc]
      split
      · obtain ⟨m, hm⟩ := ih ((b :: t).take ((b :: t).length - (decodeLastRune (b :: t)).2))
        rw [hm, List.take_take]
        exact ⟨_, rfl⟩
      · exact ⟨(b :: t).length, by simp⟩


/-! ### the leading loop of trimLeadingBlanks -/

theorem peek_ascii (b : UInt8) (t : Bytes) (h : b.toNat < 0x80) : peek (b :: t) = (b.toNat, 1) := by
  simp [peek, h]

theorem trimLead_stop (n : Nat) (b : UInt8) (t : Bytes) (h : b.toNat < 0x80) (hf : isLeadBlank b.toNat = false) :
    trimLeadLoop n (b :: t) = b :: t := by
  cases n with
  | zero => rfl
  | succ n => simp [trimLeadLoop, peek_ascii b t h, hf]

theorem trimLead_ascii_run (ws s : Bytes) (hws : ∀ b ∈ ws, b.toNat < 0x80 ∧ isLeadBlank b.toNat = true) :
    trimLeadLoop (ws ++ s).length (ws ++ s) = trimLeadLoop s.length s := by
  induction ws with
  | nil => rfl
  | cons b t ih =>
    have hb := hws b (by simp)
    simp only [List.cons_append, List.length_cons, trimLeadLoop, peek_ascii b _ hb.1, hb.2, if_true,
      List.drop_succ_cons, List.drop_zero]
    exact ih (fun b' hb' => hws b' (by simp [hb']))

/-! ### trimFunc on texts that start and end with ASCII bytes -/

def AsciiWs (l : Bytes) : Prop := ∀ b ∈ l, b.toNat < 0x80 ∧ isSpace b.toNat = true

theorem isAsciiWs_space (b : UInt8) (h : isAsciiWs b = true) : b.toNat < 0x80 ∧ isSpace b.toNat = true := by
  simp only [isAsciiWs, Bool.or_eq_true, Bool.and_eq_true, decide_eq_true_eq] at h
  refine ⟨by omega, ?_⟩
  simp only [isSpace, Bool.or_eq_true, Bool.and_eq_true, decide_eq_true_eq]
  omega

/-- `z` starts and ends with an ASCII byte that is not white space. -/
structure Solid (z : Bytes) : Prop where
  first : ∃ b t, z = b :: t ∧ b.toNat < 0x80 ∧ isLeadBlank b.toNat = false
  last : ∃ s b, z = s ++ [b] ∧ b.toNat < 0x80 ∧ isSpace b.toNat = false

theorem trimFunc_solid (z tail : Bytes) (hz : Solid z) (ht : AsciiWs tail) : trimLeadingBlanks (z ++ tail) = z := by
  obtain ⟨b, t, e1, hb, hsb⟩ := hz.first
  obtain ⟨s, c, e2, hc, hsc⟩ := hz.last
  simp only [trimLeadingBlanks]
  have hl : trimLeadLoop (z ++ tail).length (z ++ tail) = z ++ tail := by
    rw [e1, List.cons_append]; exact trimLead_stop _ b _ hb hsb
  rw [hl, e2]
  exact trimRight_ascii_run isSpace s c hc hsc tail.length tail _ rfl ht (by simp; omega)

/-- Leading white space and semicolons. -/
def AsciiLead (l : Bytes) : Prop := ∀ b ∈ l, b.toNat < 0x80 ∧ isLeadBlank b.toNat = true

theorem lead_byte (b : UInt8) (h : (isAsciiWs b || decide (b.toNat = 0x3B)) = true) : b.toNat < 0x80 ∧ isLeadBlank b.toNat = true := by
  simp only [isAsciiWs, Bool.or_eq_true, Bool.and_eq_true, decide_eq_true_eq] at h
  refine ⟨by omega, ?_⟩
  simp only [isLeadBlank, isSpace, Bool.or_eq_true, Bool.and_eq_true, decide_eq_true_eq]
  omega

theorem trimFunc_ws_prefix (ws x : Bytes) (hws : AsciiLead ws) : trimLeadingBlanks (ws ++ x) = trimLeadingBlanks x := by
  simp only [trimLeadingBlanks]
  rw [trimLead_ascii_run ws x hws]

theorem solid_append_left (c z : Bytes) (b : UInt8) (t : Bytes) (hc : c = b :: t) (hb : b.toNat < 0x80)
    (hsb : isLeadBlank b.toNat = false) (hz : Solid z) : Solid (c ++ z) := by
  obtain ⟨s, x, e2, hx, hsx⟩ := hz.last
  exact ⟨⟨b, t ++ z, by rw [hc]; rfl, hb, hsb⟩, ⟨c ++ s, x, by rw [e2]; simp, hx, hsx⟩⟩

/-! ### strings.Index -/

theorem indexSub_nl : ∀ (pre y : Bytes), (∀ b ∈ pre, b.toNat ≠ 0x0A) →
    indexSub [0x0A] (pre ++ 0x0A :: y) = some pre.length := by
  intro pre
  induction pre with
  | nil => intro y _; simp [indexSub, isPrefixB]
  | cons b t ih =>
    intro y h
    have hb : b ≠ 0x0A := by intro e; exact h b (by simp) (by rw [e]; decide)
    have hp : isPrefixB [0x0A] (b :: (t ++ 0x0A :: y)) = false := by
      simp only [isPrefixB, List.length_cons, List.length_nil, List.take_succ_cons, List.take_zero,
        beq_eq_false_iff_ne, ne_eq, List.cons.injEq, and_true]
      exact hb
    simp only [List.cons_append, indexSub, hp, Bool.false_eq_true, if_false, List.length_cons]
    rw [ih y (fun b' hb' => h b' (by simp [hb']))]
    simp

theorem hasSS_tail (a : UInt8) (l : Bytes) (h : Trivia.ok.hasSS (a :: l) = false) : Trivia.ok.hasSS l = false := by
  cases l with
  | nil => rfl
  | cons b t => simp only [Trivia.ok.hasSS, Bool.or_eq_false_iff] at h; exact h.2

theorem indexSub_starslash : ∀ (body y : Bytes), Trivia.ok.hasSS (body ++ [0x2A]) = false →
    indexSub cStarSlash (body ++ 0x2A :: 0x2F :: y) = some body.length := by
  intro body
  induction body with
  | nil => intro y _; simp [indexSub, isPrefixB, cStarSlash]
  | cons b t ih =>
    intro y h
    have hnot : isPrefixB cStarSlash (b :: (t ++ 0x2A :: 0x2F :: y)) = false := by
      cases t with
      | nil =>
        simp only [List.nil_append, List.cons_append, Trivia.ok.hasSS, Bool.or_false, Bool.and_eq_false_iff,
          decide_eq_false_iff_not] at h
        simp only [isPrefixB, cStarSlash, List.nil_append, List.length_cons, List.length_nil, List.take_succ_cons,
          List.take_zero, beq_eq_false_iff_ne, ne_eq, List.cons.injEq, and_true, not_and]
        intro e; rcases h with h | h
        · exact absurd (by rw [e]; decide) h
        · intro e2; exact h (by rw [e2]; decide)
      | cons c t' =>
        simp only [List.cons_append, Trivia.ok.hasSS, Bool.or_eq_false_iff, Bool.and_eq_false_iff,
          decide_eq_false_iff_not] at h
        simp only [isPrefixB, cStarSlash, List.cons_append, List.length_cons, List.length_nil, List.take_succ_cons,
          List.take_zero, beq_eq_false_iff_ne, ne_eq, List.cons.injEq, and_true, not_and]
        intro e1 e2; rcases h.1 with h | h
        · exact h (by rw [e1]; decide)
        · exact h (by rw [e2]; decide)
    simp only [List.cons_append, indexSub, hnot, Bool.false_eq_true, if_false, List.length_cons]
    rw [ih y (hasSS_tail b _ (by simpa using h))]
    simp

end GaeaVerif.PreviewC21
