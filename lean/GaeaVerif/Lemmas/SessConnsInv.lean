import GaeaVerif.Lemmas.SessConnsWorld
/-
  Helper lemmas for C18 / C19 / C23: the session invariant `Inv` (what the
  session holds = what is out in the ledger) and its preservation by every
  function of Model/SessionConns.lean, up to `step`.
-/
namespace GaeaVerif.SessionConns

/-! ## Maps -/

theorem get?_none_iff {m : CMap} {k : Nat} : m.get? k = none ↔ k ∉ m.keys := by
  induction m with
  | nil => simp [CMap.get?, CMap.keys]
  | cons e m ih =>
    obtain ⟨k', v⟩ := e
    simp only [CMap.get?, CMap.keys, List.map_cons, List.mem_cons, not_or]
    split
    · rename_i h; subst h; simp
    · rename_i h
      rw [ih]
      constructor
      · intro h2; exact ⟨fun e => h e.symm, h2⟩
      · intro h2; exact h2.2

theorem get?_some_mem {m : CMap} {k c : Nat} (h : m.get? k = some c) : (k, c) ∈ m := by
  induction m with
  | nil => simp [CMap.get?] at h
  | cons e m ih =>
    obtain ⟨k', v⟩ := e
    simp only [CMap.get?] at h
    split at h
    · rename_i hk; subst hk; cases h; simp
    · exact List.mem_cons_of_mem _ (ih h)

theorem put_of_not_mem {m : CMap} {k v : Nat} (h : k ∉ m.keys) : m.put k v = m ++ [(k, v)] := by
  simp only [CMap.put, List.append_cancel_right_eq, List.filter_eq_self]
  intro e he
  simp only [bne_iff_ne, ne_eq]
  intro hk
  exact h (mem_keys.2 ⟨e.2, by rw [← hk]; exact he⟩)

/-! ## The session invariant -/

/-- what the session holds -/
def held (s : St) : CMap := s.txConns ++ s.ksConns

/-- the held connections, all of which must be master connections (since the
    keep-session repair for every user: `_cfg` is kept for the callers) -/
def masters (_cfg : Cfg) (s : St) : List Nat :=
  s.txConns.vals ++ s.ksConns.vals

/-- `L`: connections taken by the command in progress that are in neither map -/
structure Inv (q : Q) (cfg : Cfg) (L : CMap) (s : St) : Prop where
  wi : WInv q (held s ++ L) (masters cfg s) s.w
  ksOff : cfg.ks = false → s.ksConns = []
  ksOn : cfg.ks = true → s.txConns = []
  txIdle : s.isInTransaction = false → s.txConns = []

/-- everything but the world and the two maps is unchanged -/
structure SameFlags (s s' : St) : Prop where
  autocommit : s'.autocommit = s.autocommit
  inTrans : s'.inTrans = s.inTrans
  continueConn : s'.continueConn = s.continueConn
  savepoints : s'.savepoints = s.savepoints
  closed : s'.closed = s.closed
  nsOld : s'.nsOld = s.nsOld
  nsCtx : s'.nsCtx = s.nsCtx
  nsCur : s'.nsCur = s.nsCur

theorem SameFlags.refl (s : St) : SameFlags s s := ⟨rfl, rfl, rfl, rfl, rfl, rfl, rfl, rfl⟩

theorem SameFlags.trans {s s' s'' : St} (a : SameFlags s s') (b : SameFlags s' s'') : SameFlags s s'' :=
  ⟨b.autocommit.trans a.autocommit, b.inTrans.trans a.inTrans, b.continueConn.trans a.continueConn,
   b.savepoints.trans a.savepoints, b.closed.trans a.closed, b.nsOld.trans a.nsOld,
   b.nsCtx.trans a.nsCtx, b.nsCur.trans a.nsCur⟩

theorem SameFlags.inTx {s s' : St} (a : SameFlags s s') : s'.isInTransaction = s.isInTransaction := by
  simp [St.isInTransaction, a.autocommit, a.inTrans]

variable {q : Q} {cfg : Cfg} {L : CMap} {s s' : St} {ctx : Ctx}

theorem wi_sliceGetConn (ctx : Ctx) (fromSlave : Bool) (sl : Nat) {O : CMap} {M : List Nat} {w w' : World}
    {r : Option Nat} (h : WInv q O M w) (hs : sl ∉ O.keys) (hp : sliceGetConn ctx fromSlave sl w = (w', r)) :
    (∃ c, r = some c ∧ c ∉ O.vals ∧ WInv q (O ++ [(sl, c)]) M w') ∨ (r = none ∧ WInv q O M w') := by
  have weaken : ∀ {m : Bool} {w1 w2 : World} {r : Option Nat} {O : CMap}, WInv q O M w1 → sl ∉ O.keys →
      poolGet ctx m sl w1 = (w2, r) →
      (∃ c, r = some c ∧ c ∉ O.vals ∧ WInv q (O ++ [(sl, c)]) M w2) ∨ (r = none ∧ WInv q O M w2) := by
    intro m w1 w2 r O h hs hp
    rcases wi_poolGet ctx m sl h hs hp with ⟨c, hr, hn, hw⟩ | ⟨hr, hw⟩
    · left; exact ⟨c, hr, hn, hw.subM (by intro d hd; cases m <;> simp [hd])⟩
    · right; exact ⟨hr, hw⟩
  unfold sliceGetConn at hp
  split at hp
  · exact weaken h hs hp
  · split at hp
    · split at hp
      · rename_i w1 c heq
        cases hp
        exact weaken h hs heq
      · rename_i w1 heq
        rcases weaken h hs heq with ⟨c, hr, _, _⟩ | ⟨_, hw⟩
        · cases hr
        · exact weaken hw hs hp
    · exact weaken h hs hp

theorem perm_snoc_mid {α : Type} (A B : List α) (x : α) : (A ++ B ++ [x]).Perm (A ++ [x] ++ B) := by
  rw [List.append_assoc, List.append_assoc]
  exact (List.perm_append_comm (l₁ := B) (l₂ := [x])).append_left A

theorem drop_snoc {c sl : Nat} {A : CMap} (h : c ∉ A.vals) : drop c (A ++ [(sl, c)]) = A := by
  rw [drop_append, drop_of_not_mem h]
  simp [drop]

theorem vals_append (A B : CMap) : (A ++ B).vals = A.vals ++ B.vals := by simp [CMap.vals]
theorem keys_append (A B : CMap) : (A ++ B).keys = A.keys ++ B.keys := by simp [CMap.keys]

/-- closing and recycling a connection that was just taken restores the ledger -/
theorem wi_undo_get {O : CMap} {M : List Nat} {w : World} {sl c : Nat} (hn : c ∉ O.vals)
    (h : WInv q (O ++ [(sl, c)]) M w) : WInv q O M (recycle c (close c w)) := by
  have hc : c ∈ (O ++ [(sl, c)]).vals := by simp [CMap.vals]
  have := wi_closeRecycle h hc
  rwa [drop_snoc hn] at this

theorem wi_savepoints (ctx : Ctx) (hT : QH q ctx) {O : CMap} {M : List Nat} {c : Nat}
    (hc : c ∈ O.vals) : ∀ (sps : List Nat) (w : World), WInv q O M w →
      WInv q O M (sps.foldl (fun w _ => (call ctx .S c w).1) w) := by
  intro sps
  induction sps with
  | nil => intro w h; simpa using h
  | cons x xs ih => intro w h; simp only [List.foldl_cons]; exact ih _ (wi_call ctx .S hT h hc)

theorem inv_getTransactionConn {sl : Nat} {pc : Option Nat} {err : Bool}
    (hcfg : ctx.cfg = cfg) (hT : QH q ctx) (hk : cfg.ks = false)
    (h : Inv q cfg L s) (hin : s.isInTransaction = true) (hL : sl ∉ L.keys)
    (hg : getTransactionConn ctx sl s = (s', pc, err)) :
    Inv q cfg L s' ∧ SameFlags s s' ∧ s'.ksConns = s.ksConns ∧
    (s'.txConns = s.txConns ∨ ∃ c, s.txConns.get? sl = none ∧ s'.txConns = s.txConns ++ [(sl, c)]) ∧
    (∀ c, pc = some c → err = false ∧ (sl, c) ∈ s'.txConns) ∧ (pc = none → err = true) := by
  unfold getTransactionConn at hg
  split at hg
  · rename_i c hget
    cases hg
    exact ⟨h, SameFlags.refl _, rfl, Or.inl rfl, fun d hd => by cases hd; exact ⟨rfl, get?_some_mem hget⟩, by simp⟩
  · rename_i hget
    have hks : s.ksConns = [] := h.ksOff hk
    have hsl : sl ∉ (held s ++ L).keys := by
      simp only [held, hks, List.append_nil, keys_append, List.mem_append, not_or]
      exact ⟨get?_none_iff.1 hget, hL⟩
    split at hg
    · rename_i w1 hp
      cases hg
      rcases wi_poolGet ctx true sl h.wi hsl hp with ⟨c, hr, _, _⟩ | ⟨_, hw⟩
      · cases hr
      · exact ⟨⟨hw, h.ksOff, h.ksOn, h.txIdle⟩, ⟨rfl, rfl, rfl, rfl, rfl, rfl, rfl, rfl⟩, rfl, Or.inl rfl, by simp, by simp⟩
    · rename_i w1 c hp
      rcases wi_poolGet ctx true sl h.wi hsl hp with ⟨c', hr, hn, hw⟩ | ⟨hr, _⟩
      · cases hr
        simp only [if_true] at hw
        have hcm : c ∈ (held s ++ L ++ [(sl, c)]).vals := by simp [CMap.vals]
        have hwY := wi_call ctx .Y hT hw hcm
        generalize hY : call ctx .Y c w1 = pY at hg hwY
        obtain ⟨wY, rY⟩ := pY
        simp only at hg hwY
        split at hg
        · cases hg
          refine ⟨⟨(wi_undo_get hn hwY).subM (fun d hd => List.mem_append_left _ hd), h.ksOff, h.ksOn, h.txIdle⟩,
            ⟨rfl, rfl, rfl, rfl, rfl, rfl, rfl, rfl⟩, rfl, Or.inl rfl, by simp, by simp⟩
        · have hwB : WInv q (held s ++ L ++ [(sl, c)]) (masters cfg s ++ [c])
              (if s.autocommit then call ctx .B c wY else call ctx .A0 c wY).1 := by
            split
            · exact wi_call ctx .B hT hwY hcm
            · exact wi_call ctx .A0 hT hwY hcm
          generalize hB : (if s.autocommit then call ctx .B c wY else call ctx .A0 c wY) = pB at hg hwB
          obtain ⟨wB, rB⟩ := pB
          simp only at hg hwB
          split at hg
          · cases hg
            refine ⟨⟨(wi_undo_get hn hwB).subM (fun d hd => List.mem_append_left _ hd), h.ksOff, h.ksOn, h.txIdle⟩,
              ⟨rfl, rfl, rfl, rfl, rfl, rfl, rfl, rfl⟩, rfl, Or.inl rfl, by simp, by simp⟩
          · cases hg
            have hwS := wi_savepoints ctx hT hcm s.savepoints wB hwB
            have hput : s.txConns.put sl c = s.txConns ++ [(sl, c)] := put_of_not_mem (get?_none_iff.1 hget)
            refine ⟨⟨?_, ?_, ?_, ?_⟩, ⟨rfl, rfl, rfl, rfl, rfl, rfl, rfl, rfl⟩, rfl, Or.inr ⟨c, hget, hput⟩, ?_, by simp⟩
            · simp only [held, masters, hput, hks, List.append_nil, vals_append]
              refine (hwS.perm ?_).subM ?_
              · simp only [held, hks, List.append_nil]
                exact perm_snoc_mid _ _ _
              · intro d hd
                simp only [masters, hks, CMap.vals, List.map_nil, List.append_nil] at hd ⊢
                simpa [CMap.vals] using hd
            · exact h.ksOff
            · intro hk'; rw [hk] at hk'; cases hk'
            · intro hf
              simp only [St.isInTransaction] at hf hin
              rw [hin] at hf; cases hf
            · intro d hd; cases hd
              exact ⟨rfl, by rw [hput]; simp⟩
      · cases hr

/-- `sliceGetConn`, remembering that the connection is a master connection when no replica was asked for -/
theorem wi_sliceGetConn' (ctx : Ctx) (fromSlave : Bool) (sl : Nat) {O : CMap} {M : List Nat} {w w' : World}
    {r : Option Nat} (h : WInv q O M w) (hs : sl ∉ O.keys) (hp : sliceGetConn ctx fromSlave sl w = (w', r)) :
    (∃ c, r = some c ∧ c ∉ O.vals ∧ WInv q (O ++ [(sl, c)]) (if fromSlave then M else M ++ [c]) w') ∨
    (r = none ∧ WInv q O M w') := by
  cases fromSlave with
  | true => simpa using wi_sliceGetConn ctx true sl h hs hp
  | false =>
    simp only [sliceGetConn, Bool.not_false, if_true] at hp
    simpa using wi_poolGet ctx true sl h hs hp

theorem inv_getBackendKsConn {sl : Nat} {pc : Option Nat} {err : Bool}
    (hcfg : ctx.cfg = cfg) (hT : QH q ctx) (hk : cfg.ks = true)
    (h : Inv q cfg L s) (hL : sl ∉ L.keys)
    (hg : getBackendKsConn ctx sl s = (s', pc, err)) :
    Inv q cfg L s' ∧ SameFlags s s' ∧ s'.txConns = s.txConns ∧
    (s'.ksConns = s.ksConns ∨ ∃ c, s.ksConns.get? sl = none ∧ s'.ksConns = s.ksConns ++ [(sl, c)]) ∧
    (∀ c, pc = some c → err = false ∧ (sl, c) ∈ s'.ksConns) ∧ (pc = none → err = true) := by
  unfold getBackendKsConn at hg
  split at hg
  · rename_i c hget
    cases hg
    exact ⟨h, SameFlags.refl _, rfl, Or.inl rfl, fun d hd => by cases hd; exact ⟨rfl, get?_some_mem hget⟩, by simp⟩
  · rename_i hget
    have htx : s.txConns = [] := h.ksOn hk
    have hsl : sl ∉ (held s ++ L).keys := by
      simp only [held, htx, List.nil_append, keys_append, List.mem_append, not_or]
      exact ⟨get?_none_iff.1 hget, hL⟩
    split at hg
    · rename_i w1 hp
      cases hg
      rcases wi_sliceGetConn' ctx _ sl h.wi hsl hp with ⟨c, hr, _, _⟩ | ⟨_, hw⟩
      · cases hr
      · exact ⟨⟨hw, h.ksOff, h.ksOn, h.txIdle⟩, ⟨rfl, rfl, rfl, rfl, rfl, rfl, rfl, rfl⟩, rfl, Or.inl rfl, by simp, by simp⟩
    · rename_i w1 c hp
      rcases wi_sliceGetConn' ctx _ sl h.wi hsl hp with ⟨c', hr, hn, hw⟩ | ⟨hr, _⟩
      · cases hr
        -- the masters list after the connection is pinned
        have hM : ∀ d, d ∈ masters cfg { s with ksConns := s.ksConns ++ [(sl, c)] } → d ∈ masters cfg s ++ [c] := by
          intro d hd
          simpa [masters, htx, CMap.vals] using hd
        have hM0 : ∀ d, d ∈ masters cfg s → d ∈ masters cfg s ++ [c] := fun d hd => List.mem_append_left _ hd
        simp only [Bool.false_eq_true, if_false] at hw
        have hcm : c ∈ (held s ++ L ++ [(sl, c)]).vals := by simp [CMap.vals]
        generalize hMM : masters cfg s ++ [c] = M' at hw hM hM0
        have hwA : WInv q (held s ++ L ++ [(sl, c)]) M' (if !s.autocommit then call ctx .A0 c w1 else (w1, Res.ok)).1 := by
          split
          · exact wi_call ctx .A0 hT hw hcm
          · exact hw
        generalize hA : (if !s.autocommit then call ctx .A0 c w1 else (w1, Res.ok)) = pA at hg hwA
        obtain ⟨wA, rA⟩ := pA
        simp only at hg hwA
        split at hg
        · cases hg
          exact ⟨⟨(wi_undo_get hn hwA).subM hM0, h.ksOff, h.ksOn, h.txIdle⟩,
            ⟨rfl, rfl, rfl, rfl, rfl, rfl, rfl, rfl⟩, rfl, Or.inl rfl, by simp, by simp⟩
        · have hwB : WInv q (held s ++ L ++ [(sl, c)]) M' (if s.isInTransaction then call ctx .B c wA else (wA, Res.ok)).1 := by
            split
            · exact wi_call ctx .B hT hwA hcm
            · exact hwA
          generalize hB : (if s.isInTransaction then call ctx .B c wA else (wA, Res.ok)) = pB at hg hwB
          obtain ⟨wB, rB⟩ := pB
          simp only at hg hwB
          split at hg
          · cases hg
            exact ⟨⟨(wi_undo_get hn hwB).subM hM0, h.ksOff, h.ksOn, h.txIdle⟩,
              ⟨rfl, rfl, rfl, rfl, rfl, rfl, rfl, rfl⟩, rfl, Or.inl rfl, by simp, by simp⟩
          · cases hg
            have hput : s.ksConns.put sl c = s.ksConns ++ [(sl, c)] := put_of_not_mem (get?_none_iff.1 hget)
            refine ⟨⟨?_, ?_, ?_, ?_⟩, ⟨rfl, rfl, rfl, rfl, rfl, rfl, rfl, rfl⟩, rfl, Or.inr ⟨c, hget, hput⟩, ?_, by simp⟩
            · simp only [hput]
              refine (hwB.perm ?_).subM hM
              simp only [held, htx, List.nil_append]
              exact perm_snoc_mid _ _ _
            · intro hk'; rw [hk] at hk'; cases hk'
            · intro _; exact htx
            · intro _; exact htx
            · intro d hd; cases hd
              exact ⟨rfl, by rw [hput]; simp⟩
      · cases hr

theorem isClosed_poolGet_new (ctx : Ctx) (m : Bool) (sl : Nat) {w w' : World} {c : Nat}
    (hp : poolGet ctx m sl w = (w', some c)) : isClosed c w' = false := by
  by_cases hf : fault ctx (if m then .gm else .gs) sl = some .e
  · simp only [poolGet, hf, if_true] at hp
    cases hp
  · simp only [poolGet, hf, if_false] at hp
    cases hp
    simp [isClosed, getElem?_snoc]

theorem isClosed_sliceGetConn_new (ctx : Ctx) (fromSlave : Bool) (sl : Nat) {w w' : World} {c : Nat}
    (hp : sliceGetConn ctx fromSlave sl w = (w', some c)) : isClosed c w' = false := by
  unfold sliceGetConn at hp
  split at hp
  · exact isClosed_poolGet_new ctx _ sl hp
  · split at hp
    · split at hp
      · rename_i w1 c1 heq; cases hp; exact isClosed_poolGet_new ctx _ sl heq
      · exact isClosed_poolGet_new ctx _ sl hp
    · exact isClosed_poolGet_new ctx _ sl hp

/-- the maps only grow -/
def MapsGrow (s s' : St) : Prop :=
  (∃ A, s'.txConns = s.txConns ++ A) ∧ (∃ B, s'.ksConns = s.ksConns ++ B)

theorem MapsGrow.refl (s : St) : MapsGrow s s := ⟨⟨[], by simp⟩, ⟨[], by simp⟩⟩

theorem MapsGrow.trans {s s' s'' : St} (a : MapsGrow s s') (b : MapsGrow s' s'') : MapsGrow s s'' := by
  obtain ⟨⟨A, hA⟩, ⟨B, hB⟩⟩ := a
  obtain ⟨⟨A', hA'⟩, ⟨B', hB'⟩⟩ := b
  exact ⟨⟨A ++ A', by rw [hA', hA, List.append_assoc]⟩, ⟨B ++ B', by rw [hB', hB, List.append_assoc]⟩⟩

/-- outcome of `getBackendConn` for slice `sl` -/
inductive GotConn (q : Q) (cfg : Cfg) (L : CMap) (sl : Nat) (s s' : St) (pc : Option Nat) (err : Bool) : Prop
  | none (hpc : pc = none) (herr : err = true) (hI : Inv q cfg L s')
  | held (c : Nat) (hpc : pc = some c) (herr : err = false) (hm : (sl, c) ∈ held s') (hI : Inv q cfg L s')
  | loc (c : Nat) (hpc : pc = some c) (herr : err = false) (hks : cfg.ks = false)
      (hin : s.isInTransaction = false) (htx : s'.txConns = s.txConns) (hkc : s'.ksConns = s.ksConns)
      (hn : c ∉ (held s ++ L).vals) (hcl : isClosed c s'.w = false) (hI : Inv q cfg (L ++ [(sl, c)]) s')

theorem inv_getBackendConn {sl : Nat} {pc : Option Nat} {err fromSlave : Bool}
    (hcfg : ctx.cfg = cfg) (hT : QH q ctx)
    (h : Inv q cfg L s) (hL : sl ∉ L.keys)
    (hg : getBackendConn ctx fromSlave sl s = (s', pc, err)) :
    SameFlags s s' ∧ MapsGrow s s' ∧ GotConn q cfg L sl s s' pc err := by
  unfold getBackendConn at hg
  rw [hcfg] at hg
  cases hk : cfg.ks with
  | true =>
    simp only [hk, if_true] at hg
    obtain ⟨hI, hF, htx, hks, hpc, hnone⟩ := inv_getBackendKsConn hcfg hT hk h hL hg
    refine ⟨hF, ⟨⟨[], by simp [htx]⟩, ?_⟩, ?_⟩
    · rcases hks with hks | ⟨c, _, hks⟩
      · exact ⟨[], by simp [hks]⟩
      · exact ⟨_, hks⟩
    · cases pc with
      | none => exact .none rfl (hnone rfl) hI
      | some c =>
        obtain ⟨he, hm⟩ := hpc c rfl
        exact .held c rfl he (by simp [held, hm]) hI
  | false =>
    simp only [hk, Bool.false_eq_true, if_false] at hg
    unfold getBackendNoKsConn at hg
    cases hin : s.isInTransaction with
    | true =>
      simp only [hin, Bool.not_true, Bool.false_eq_true, if_false] at hg
      obtain ⟨hI, hF, hks, htx, hpc, hnone⟩ := inv_getTransactionConn hcfg hT hk h hin hL hg
      refine ⟨hF, ⟨?_, ⟨[], by simp [hks]⟩⟩, ?_⟩
      · rcases htx with htx | ⟨c, _, htx⟩
        · exact ⟨[], by simp [htx]⟩
        · exact ⟨_, htx⟩
      · cases pc with
        | none => exact .none rfl (hnone rfl) hI
        | some c =>
          obtain ⟨he, hm⟩ := hpc c rfl
          exact .held c rfl he (by simp [held, hm]) hI
    | false =>
      simp only [hin, Bool.not_false, if_true] at hg
      have htx : s.txConns = [] := h.txIdle hin
      have hks : s.ksConns = [] := h.ksOff hk
      have hsl : sl ∉ (held s ++ L).keys := by
        simp only [held, htx, hks, List.append_nil, List.nil_append]; exact hL
      split at hg
      · rename_i w1 hp
        cases hg
        rcases wi_sliceGetConn ctx fromSlave sl h.wi hsl hp with ⟨c, hr, _, _⟩ | ⟨_, hw⟩
        · cases hr
        · exact ⟨⟨rfl, rfl, rfl, rfl, rfl, rfl, rfl, rfl⟩, MapsGrow.refl _,
            .none rfl rfl ⟨hw, h.ksOff, h.ksOn, h.txIdle⟩⟩
      · rename_i w1 c hp
        cases hg
        rcases wi_sliceGetConn ctx fromSlave sl h.wi hsl hp with ⟨c', hr, hn, hw⟩ | ⟨hr, _⟩
        · cases hr
          refine ⟨⟨rfl, rfl, rfl, rfl, rfl, rfl, rfl, rfl⟩, MapsGrow.refl _,
            .loc c rfl rfl hk hin rfl rfl hn (isClosed_sliceGetConn_new ctx fromSlave sl hp) ⟨?_, h.ksOff, h.ksOn, h.txIdle⟩⟩
          have : masters cfg { s with w := w1 } = masters cfg s := rfl
          rw [this]
          simpa [held, List.append_assoc] using hw
        · cases hr

theorem inv_clearKsConns (h : Inv q cfg L s) :
    Inv q cfg L (clearKsConns ctx s) ∧ SameFlags s (clearKsConns ctx s) ∧
    (clearKsConns ctx s).txConns = s.txConns ∧
    ((clearKsConns ctx s).ksConns = s.ksConns ∨ (clearKsConns ctx s).ksConns = []) := by
  unfold clearKsConns
  split
  · refine ⟨⟨?_, fun _ => rfl, h.ksOn, h.txIdle⟩, ⟨rfl, rfl, rfl, rfl, rfl, rfl, rfl, rfl⟩, rfl, Or.inr rfl⟩
    have hp : (held s ++ L).Perm (iterOrder ctx.ord s.ksConns ++ (s.txConns ++ L)) := by
      simp only [held]
      refine (List.perm_append_comm (l₁ := s.txConns) (l₂ := s.ksConns)).append_right L |>.trans ?_
      rw [List.append_assoc]
      exact (iterOrder_perm ctx.ord s.ksConns).symm.append_right _
    have := wi_foldl_drop closeRecycle (fun O w c hc hw => wi_closeRecycle hw hc) _ _ _ (h.wi.perm hp)
    simp only [held, List.append_nil, closeRecycleAll]
    refine this.subM ?_
    intro d hd
    simp only [masters, CMap.vals, List.map_nil, List.append_nil] at hd
    simp only [masters, List.mem_append]
    exact Or.inl hd
  · exact ⟨h, SameFlags.refl _, rfl, Or.inl rfl⟩

/-- the closed branch of `recycleBackendConn` / `recycleContinueConn` outside a transaction -/
theorem inv_recycleClosed {c : Nat}
    (h : Inv q cfg L s) (hc : c ∈ (held s ++ L).vals) (hin : s.isInTransaction = false) :
    let s2 := forgetKsConn c s
    Inv q cfg (drop c L) { s2 with w := recycle c s2.w } := by
  intro s2
  have htx := h.txIdle hin
  have hw2 := wi_recycle h.wi hc
  have hdrop : drop c (held s ++ L) = s.ksConns.filter (fun e => e.2 != c) ++ drop c L := by
    simp only [held, htx, List.nil_append, drop_append]; rfl
  rw [hdrop] at hw2
  refine ⟨?_, ?_, ?_, ?_⟩
  · simp only [s2, forgetKsConn, held, htx, List.nil_append]
    refine hw2.subM ?_
    intro d hd
    simp only [masters, htx, CMap.vals, List.map_nil, List.nil_append, List.mem_map, List.mem_filter] at hd ⊢
    obtain ⟨e, ⟨he, _⟩, hed⟩ := hd
    exact ⟨e, he, hed⟩
  · intro hk
    simp only [s2, forgetKsConn, h.ksOff hk, List.filter_nil]
  · intro _
    simp only [s2, forgetKsConn, htx]
  · intro _
    simp only [s2, forgetKsConn, htx]

/-- how the connection handed to a recycle function is owned: held in a map, or
    (outside keep-session and transactions) taken by the command in progress -/
def OwnedBy (cfg : Cfg) (L : CMap) (s : St) (c : Nat) : Prop :=
  c ∈ (held s).vals ∨ (cfg.ks = false ∧ s.isInTransaction = false ∧ c ∈ L.vals)

theorem not_local_of_held (h : Inv q cfg L s) {c : Nat} (hc : c ∈ (held s).vals) : c ∉ L.vals := by
  have := h.wi.nodupC
  rw [vals_append] at this
  exact fun hl => (List.nodup_append.1 this).2.2 c hc c hl rfl

theorem flags_clearKsConns : SameFlags s (clearKsConns ctx s) := by
  unfold clearKsConns; split <;> exact ⟨rfl, rfl, rfl, rfl, rfl, rfl, rfl, rfl⟩

theorem inv_recycleRest (hcfg : ctx.cfg = cfg) {c : Nat}
    (h : Inv q cfg L s) (hc : OwnedBy cfg L s c) :
    Inv q cfg (drop c L)
      (if ctx.cfg.ks then clearKsConns ctx s else if s.isInTransaction then s else { s with w := recycle c s.w }) := by
  rw [hcfg]
  cases hk : cfg.ks with
  | true =>
    simp only [if_true]
    rcases hc with hc | ⟨hk', _, _⟩
    · rw [drop_of_not_mem (not_local_of_held h hc)]
      exact (inv_clearKsConns h).1
    · rw [hk] at hk'; cases hk'
  | false =>
    simp only [Bool.false_eq_true, if_false]
    cases hin : s.isInTransaction with
    | true =>
      simp only [if_true]
      rcases hc with hc | ⟨_, hin', _⟩
      · rw [drop_of_not_mem (not_local_of_held h hc)]; exact h
      · rw [hin] at hin'; cases hin'
    | false =>
      simp only [Bool.false_eq_true, if_false]
      have htx := h.txIdle hin
      have hks := h.ksOff hk
      have hcl : c ∈ L.vals := by
        rcases hc with hc | ⟨_, _, hc⟩
        · simp [held, htx, hks, CMap.vals] at hc
        · exact hc
      have hw := h.wi
      simp only [held, htx, hks, List.append_nil, List.nil_append] at hw
      refine ⟨?_, h.ksOff, h.ksOn, h.txIdle⟩
      simp only [held, htx, hks, List.append_nil, List.nil_append]
      have := wi_recycle hw hcl
      simpa [masters, htx, hks] using this

theorem inv_recycleBackendConn (hcfg : ctx.cfg = cfg) (_hT : QH q ctx) {c : Nat}
    (h : Inv q cfg L s) (hc : OwnedBy cfg L s c) :
    SameFlags s (recycleBackendConn ctx (some c) s) ∧
    (Inv q cfg (drop c L) (recycleBackendConn ctx (some c) s) ∨
     (recycleBackendConn ctx (some c) s = s ∧ s.continueConn.isSome = true ∧ morePending c s.w = true ∧
      isClosed c s.w = false)) := by
  have hcm : c ∈ (held s ++ L).vals := by
    rw [vals_append]
    rcases hc with hc | ⟨_, _, hc⟩
    · exact List.mem_append_left _ hc
    · exact List.mem_append_right _ hc
  unfold recycleBackendConn
  simp only
  split
  · cases hin : s.isInTransaction with
    | true =>
      simp only [if_true]
      refine ⟨SameFlags.refl _, Or.inl ?_⟩
      rcases hc with hc | ⟨_, hin', _⟩
      · rw [drop_of_not_mem (not_local_of_held h hc)]; exact h
      · rw [hin] at hin'; cases hin'
    | false =>
      simp only [Bool.false_eq_true, if_false]
      exact ⟨⟨rfl, rfl, rfl, rfl, rfl, rfl, rfl, rfl⟩, Or.inl (inv_recycleClosed h hcm hin)⟩
  · rename_i hcl
    split
    · rename_i hcont
      simp only [Bool.and_eq_true] at hcont
      exact ⟨SameFlags.refl _, Or.inr ⟨rfl, hcont.1, hcont.2, by simpa using hcl⟩⟩
    · refine ⟨?_, Or.inl (inv_recycleRest hcfg h hc)⟩
      split
      · exact flags_clearKsConns
      · split
        · exact SameFlags.refl _
        · exact ⟨rfl, rfl, rfl, rfl, rfl, rfl, rfl, rfl⟩

theorem inv_recycleContinueConn (hcfg : ctx.cfg = cfg) (_hT : QH q ctx) {c : Nat}
    (h : Inv q cfg L s) (hc : OwnedBy cfg L s c) :
    SameFlags s (recycleContinueConn ctx (some c) s) ∧
    Inv q cfg (drop c L) (recycleContinueConn ctx (some c) s) := by
  have hcm : c ∈ (held s ++ L).vals := by
    rw [vals_append]
    rcases hc with hc | ⟨_, _, hc⟩
    · exact List.mem_append_left _ hc
    · exact List.mem_append_right _ hc
  unfold recycleContinueConn
  simp only
  split
  · cases hin : s.isInTransaction with
    | true =>
      simp only [if_true]
      refine ⟨SameFlags.refl _, ?_⟩
      rcases hc with hc | ⟨_, hin', _⟩
      · rw [drop_of_not_mem (not_local_of_held h hc)]; exact h
      · rw [hin] at hin'; cases hin'
    | false =>
      simp only [Bool.false_eq_true, if_false]
      exact ⟨⟨rfl, rfl, rfl, rfl, rfl, rfl, rfl, rfl⟩, inv_recycleClosed h hcm hin⟩
  · refine ⟨?_, inv_recycleRest hcfg h hc⟩
    split
    · exact flags_clearKsConns
    · split
      · exact SameFlags.refl _
      · exact ⟨rfl, rfl, rfl, rfl, rfl, rfl, rfl, rfl⟩

/-! ## Statements -/

theorem isClosed_call (ctx : Ctx) (k : CK) (c d : Nat) (w : World) (hne : (call ctx k c w).2 ≠ .z) :
    isClosed d (call ctx k c w).1 = isClosed d w := by
  unfold call at hne ⊢
  split
  · rfl
  · rename_i cn hcn
    rw [hcn] at hne
    simp only at hne
    simp only [isClosed, emit_conns, List.getElem?_set]
    by_cases e : c = d
    · subst e
      obtain ⟨hlt, hget⟩ := List.getElem?_eq_some_iff.1 hcn
      have : (callRes ctx k cn == Res.z) = false := by simpa using hne
      simp [hlt, Conn.afterCall, hget, this]
    · simp [e]

theorem call_ne_z_of_calm (ctx : Ctx) (hT : Calm ctx) (k : CK) (c : Nat) (w : World) : (call ctx k c w).2 ≠ .z := by
  unfold call
  split
  · simp
  · exact callRes_ne_z ctx hT _ _

theorem ne_z_of_isOk {r : Res} (h : r.isOk = true) : r ≠ .z := by
  intro e; subst e; simp [Res.isOk] at h

/-- `executeSingleSQLInSlice` and the `Close` that follows a statement timeout on both execution paths -/
theorem wi_executeSingle_close {O : CMap} {M : List Nat} {w : World} (ctx : Ctx) (hT : QH q ctx) {c : Nat}
    (h : WInv q O M w) (hc : c ∈ O.vals) :
    WInv q O M (if (executeSingleSQLInSlice ctx c w).2 = .t then close c (executeSingleSQLInSlice ctx c w).1
      else (executeSingleSQLInSlice ctx c w).1) := by
  unfold executeSingleSQLInSlice
  have h1 := wi_call ctx .U hT h hc
  generalize call ctx .U c w = p at h1
  obtain ⟨w1, r1⟩ := p
  simp only
  split
  · simp only [reduceCtorEq, if_false]; exact h1
  · by_cases ht : (call ctx .X c w1).2 = .t
    · rw [if_pos ht]; exact wi_callX_close ctx hT h1 hc ht
    · rw [if_neg ht]; exact wi_callX ctx hT h1 hc ht

theorem isClosed_executeSingle (ctx : Ctx) (c d : Nat) (w : World)
    (hok : (executeSingleSQLInSlice ctx c w).2.isOk = true) :
    isClosed d (executeSingleSQLInSlice ctx c w).1 = isClosed d w := by
  unfold executeSingleSQLInSlice at hok ⊢
  have h1 := isClosed_call ctx .U c d w
  generalize call ctx .U c w = p at h1 hok
  obtain ⟨w1, r1⟩ := p
  simp only at h1 hok ⊢
  split
  · rename_i hbad; rw [if_pos hbad] at hok; simp [Res.isOk] at hok
  · rename_i hgood
    rw [if_neg hgood] at hok
    have hr1 : r1.isOk = true := by simpa using hgood
    rw [isClosed_call ctx .X c d w1 (ne_z_of_isOk hok)]
    exact h1 (ne_z_of_isOk hr1)

theorem executeSingle_ne_t (ctx : Ctx) (hT : NoT ctx) (c : Nat) (w : World) :
    (executeSingleSQLInSlice ctx c w).2 ≠ .t := by
  unfold executeSingleSQLInSlice
  generalize call ctx .U c w = p
  obtain ⟨w1, r1⟩ := p
  simp only
  split
  · simp
  · unfold call
    split
    · simp
    · exact callRes_ne_t ctx hT _ _

theorem wi_executeUnshard {O : CMap} {M : List Nat} {w : World} (ctx : Ctx) (hT : QH q ctx) {c : Nat}
    (h : WInv q O M w) (hc : c ∈ O.vals) : WInv q O M (executeUnshardSQLInSlice ctx c w).1 := by
  unfold executeUnshardSQLInSlice
  have h1 := wi_executeSingle_close ctx hT h hc
  generalize executeSingleSQLInSlice ctx c w = p at h1
  obtain ⟨w1, r1⟩ := p
  simp only at h1 ⊢
  split
  · rename_i ht; rw [if_pos ht] at h1; exact h1
  · rename_i ht; rw [if_neg ht] at h1; exact h1

/-- `executeMultipleSQLInSlice`: the statement, the fetch of its pending rows, the `Close` after a timeout -/
theorem wi_executeMultiple {O : CMap} {M : List Nat} {w : World} (ctx : Ctx) (hT : QH q ctx) (rs : Bool) {c : Nat}
    (h : WInv q O M w) (hc : c ∈ O.vals) : WInv q O M (executeMultipleSQLInSlice ctx rs c w).1 := by
  unfold executeMultipleSQLInSlice executeCompleteSQLInSlice
  have h1 := wi_executeSingle_close ctx hT h hc
  generalize executeSingleSQLInSlice ctx c w = p at h1
  obtain ⟨w1, r1⟩ := p
  simp only at h1 ⊢
  by_cases hm : (r1.isOk && rs && moreRows c w1) = true
  · have hnt : r1 ≠ .t := by
      intro e; subst e; simp [Res.isOk] at hm
    rw [if_neg hnt] at h1
    simp only [hm, if_true]
    have h2 := wi_call ctx .M hT h1 hc
    generalize call ctx .M c w1 = pM at h2
    obtain ⟨w2, r2⟩ := pM
    simp only at h2 ⊢
    have hne : (if r2.isOk = true then Res.ok else Res.e) ≠ Res.t := by split <;> simp
    rw [if_neg hne]; exact h2
  · have hm' : (r1.isOk && rs && moreRows c w1) = false := by simpa using hm
    simp only [hm', Bool.false_eq_true, if_false]
    split
    · rename_i ht; rw [if_pos ht] at h1; exact h1
    · rename_i ht; rw [if_neg ht] at h1; exact h1

theorem isClosed_executeUnshard (ctx : Ctx) (c d : Nat) (w : World)
    (hok : (executeUnshardSQLInSlice ctx c w).2.isOk = true) :
    isClosed d (executeUnshardSQLInSlice ctx c w).1 = isClosed d w := by
  unfold executeUnshardSQLInSlice at hok ⊢
  have h1 := isClosed_executeSingle ctx c d w
  generalize executeSingleSQLInSlice ctx c w = p at h1 hok
  obtain ⟨w1, r1⟩ := p
  simp only at h1 hok ⊢
  split
  · rename_i ht; simp [ht, Res.isOk] at hok
  · rename_i hnt
    rw [if_neg hnt] at hok
    exact h1 hok

/-- `writeOKResultStream`: the fetch of the pending rows and of the further results -/
theorem wi_streamRest {O : CMap} {M : List Nat} {w : World} (ctx : Ctx) (hT : QH q ctx) {c : Nat}
    (h : WInv q O M w) (hc : c ∈ O.vals) : WInv q O M (streamRest ctx c w) := by
  unfold streamRest
  have h1 : WInv q O M (if moreRows c w then
      (let (w, r) := call ctx .M c w; (w, r.isOk)) else (w, true)).1 := by
    split
    · exact wi_call ctx .M hT h hc
    · exact h
  generalize (if moreRows c w then (let (w, r) := call ctx .M c w; (w, r.isOk)) else (w, true)) = p at h1
  obtain ⟨w1, ok⟩ := p
  simp only at h1 ⊢
  split
  · exact wi_call ctx .N hT h1 hc
  · exact h1

/-- the invariant between `executeCommand` and `writeResponse`: a streamed result
    keeps its connection (`continueConn`) out until the response is written -/
def Mid (q : Q) (cfg : Cfg) (s : St) : Prop :=
  match s.continueConn with
  | none => Inv q cfg [] s
  | some c => (c ∈ (held s).vals ∧ Inv q cfg [] s) ∨
              (∃ sl, cfg.ks = false ∧ s.isInTransaction = false ∧ Inv q cfg [(sl, c)] s)

theorem mid_of_inv (h : Inv q cfg [] s) (hc : s.continueConn = none) : Mid q cfg s := by
  simp [Mid, hc, h]

/-- flags other than `continueConn` -/
structure SameFlagsC (s s' : St) : Prop where
  autocommit : s'.autocommit = s.autocommit
  inTrans : s'.inTrans = s.inTrans
  savepoints : s'.savepoints = s.savepoints
  closed : s'.closed = s.closed
  nsOld : s'.nsOld = s.nsOld
  nsCtx : s'.nsCtx = s.nsCtx
  nsCur : s'.nsCur = s.nsCur

theorem SameFlags.toC {s s' : St} (a : SameFlags s s') : SameFlagsC s s' :=
  ⟨a.autocommit, a.inTrans, a.savepoints, a.closed, a.nsOld, a.nsCtx, a.nsCur⟩

theorem SameFlagsC.trans {s s' s'' : St} (a : SameFlagsC s s') (b : SameFlagsC s' s'') : SameFlagsC s s'' :=
  ⟨b.autocommit.trans a.autocommit, b.inTrans.trans a.inTrans,
   b.savepoints.trans a.savepoints, b.closed.trans a.closed, b.nsOld.trans a.nsOld,
   b.nsCtx.trans a.nsCtx, b.nsCur.trans a.nsCur⟩

theorem SameFlagsC.inTx {s s' : St} (a : SameFlagsC s s') : s'.isInTransaction = s.isInTransaction := by
  simp [St.isInTransaction, a.autocommit, a.inTrans]

theorem drop_single (c sl : Nat) : drop c [(sl, c)] = [] := by simp [drop]

theorem inv_executeSQL {sl : Nat} {fromSlave : Bool} (hcfg : ctx.cfg = cfg) (hT : QH q ctx)
    (h : Inv q cfg [] s) (hcont : s.continueConn = none) :
    Mid q cfg (executeSQL ctx fromSlave sl s).1 ∧ SameFlagsC s (executeSQL ctx fromSlave sl s).1 := by
  unfold executeSQL
  generalize hg : getBackendConn ctx fromSlave sl s = g
  obtain ⟨s1, pc, err⟩ := g
  obtain ⟨hF, _, hG⟩ := inv_getBackendConn hcfg hT h (by simp [CMap.keys]) hg
  have hc1 : s1.continueConn = none := by rw [hF.continueConn]; exact hcont
  simp only
  -- recycling `c` when no result is being streamed
  have recyc : ∀ {L : CMap} {s2 : St} {c : Nat}, Inv q cfg L s2 → OwnedBy cfg L s2 c → drop c L = [] →
      s2.continueConn = none → SameFlagsC s s2 →
      Mid q cfg (recycleBackendConn ctx (some c) s2) ∧ SameFlagsC s (recycleBackendConn ctx (some c) s2) := by
    intro L s2 c hI hO hd hcn hFl
    obtain ⟨hF2, hR⟩ := inv_recycleBackendConn hcfg hT hI hO
    refine ⟨?_, hFl.trans hF2.toC⟩
    rcases hR with hR | ⟨_, hsome, _, _⟩
    · rw [hd] at hR
      exact mid_of_inv hR (by rw [hF2.continueConn]; exact hcn)
    · rw [hcn] at hsome; cases hsome
  cases hG with
  | none hpc herr hI =>
    subst hpc; subst herr
    simp only [if_true, recycleBackendConn]
    exact ⟨mid_of_inv hI hc1, hF.toC⟩
  | held c hpc herr hm hI =>
    subst hpc; subst herr
    simp only [Bool.false_eq_true, if_false]
    have hO : OwnedBy cfg [] s1 c := Or.inl (mem_vals.2 ⟨sl, hm⟩)
    split
    · exact recyc hI hO rfl hc1 hF.toC
    · rename_i hncl
      generalize hx : executeUnshardSQLInSlice ctx c s1.w = x
      obtain ⟨w2, r⟩ := x
      have hcm : c ∈ (held s1 ++ []).vals := by simpa using hO.resolve_right (by simp [CMap.vals])
      have hw2 : WInv q (held s1 ++ []) (masters cfg s1) w2 := by
        have := wi_executeUnshard ctx hT hI.wi hcm; rw [hx] at this; exact this
      have hI2 : Inv q cfg [] { s1 with w := w2 } := ⟨hw2, hI.ksOff, hI.ksOn, hI.txIdle⟩
      have hO2 : OwnedBy cfg [] { s1 with w := w2 } c := hO
      have hFw : SameFlagsC s { s1 with w := w2 } :=
        ⟨hF.autocommit, hF.inTrans, hF.savepoints, hF.closed, hF.nsOld, hF.nsCtx, hF.nsCur⟩
      simp only
      split
      · exact recyc hI2 hO2 rfl hc1 hFw
      · rename_i hok
        have hok' : (executeUnshardSQLInSlice ctx c s1.w).2.isOk = true := by rw [hx]; simpa using hok
        have hcl2 : isClosed c w2 = false := by
          have := isClosed_executeUnshard ctx c c s1.w hok'
          rw [hx] at this; simp only at this; rw [this]; simpa using hncl
        split
        · rename_i hmore
          simp only [recycleBackendConn, hcl2, Bool.false_eq_true, if_false, Option.isSome_some, hmore,
            Bool.and_self, if_true]
          refine ⟨?_, ⟨hF.autocommit, hF.inTrans, hF.savepoints, hF.closed, hF.nsOld, hF.nsCtx, hF.nsCur⟩⟩
          simp only [Mid]
          exact Or.inl ⟨mem_vals.2 ⟨sl, hm⟩, hI2.wi, hI2.ksOff, hI2.ksOn, hI2.txIdle⟩
        · exact recyc hI2 hO2 rfl hc1 hFw
  | loc c hpc herr hks hin htx hkc hn _ hI =>
    subst hpc; subst herr
    simp only [Bool.false_eq_true, if_false]
    have hin1 : s1.isInTransaction = false := by rw [hF.inTx]; exact hin
    have hO : OwnedBy cfg ([] ++ [(sl, c)]) s1 c := Or.inr ⟨hks, hin1, by simp [CMap.vals]⟩
    have hd : drop c ([] ++ [(sl, c)]) = [] := by simp [drop]
    split
    · exact recyc hI hO hd hc1 hF.toC
    · rename_i hncl
      generalize hx : executeUnshardSQLInSlice ctx c s1.w = x
      obtain ⟨w2, r⟩ := x
      have hcm : c ∈ (held s1 ++ ([] ++ [(sl, c)])).vals := by simp [CMap.vals]
      have hw2 : WInv q (held s1 ++ ([] ++ [(sl, c)])) (masters cfg s1) w2 := by
        have := wi_executeUnshard ctx hT hI.wi hcm; rw [hx] at this; exact this
      have hI2 : Inv q cfg ([] ++ [(sl, c)]) { s1 with w := w2 } := ⟨hw2, hI.ksOff, hI.ksOn, hI.txIdle⟩
      have hO2 : OwnedBy cfg ([] ++ [(sl, c)]) { s1 with w := w2 } c := hO
      have hFw : SameFlagsC s { s1 with w := w2 } :=
        ⟨hF.autocommit, hF.inTrans, hF.savepoints, hF.closed, hF.nsOld, hF.nsCtx, hF.nsCur⟩
      simp only
      split
      · exact recyc hI2 hO2 hd hc1 hFw
      · rename_i hok
        have hok' : (executeUnshardSQLInSlice ctx c s1.w).2.isOk = true := by rw [hx]; simpa using hok
        have hcl2 : isClosed c w2 = false := by
          have := isClosed_executeUnshard ctx c c s1.w hok'
          rw [hx] at this; simp only at this; rw [this]; simpa using hncl
        split
        · rename_i hmore
          simp only [recycleBackendConn, hcl2, Bool.false_eq_true, if_false, Option.isSome_some, hmore,
            Bool.and_self, if_true]
          refine ⟨?_, ⟨hF.autocommit, hF.inTrans, hF.savepoints, hF.closed, hF.nsOld, hF.nsCtx, hF.nsCur⟩⟩
          simp only [Mid]
          refine Or.inr ⟨sl, hks, hin1, ?_⟩
          have := hI2
          simp only [List.nil_append] at this
          exact ⟨this.wi, this.ksOff, this.ksOn, this.txIdle⟩
        · exact recyc hI2 hO2 hd hc1 hFw

/-! ## Sharded statements -/

/-- how the connections collected by `getBackendConns` are owned -/
def PcsOK (cfg : Cfg) (L : CMap) (s : St) (pcs : CMap) : Prop :=
  if cfg.ks = true ∨ s.isInTransaction = true then L = [] ∧ ∀ e ∈ pcs, e ∈ held s else L = pcs

theorem inv_getBackendConns {fromSlave : Bool} (hcfg : ctx.cfg = cfg) (hT : QH q ctx) :
    ∀ (sls : List Nat) (s : St) (pcs L : CMap) {s' : St} {pcs' : CMap} {g : Got},
      Inv q cfg L s → sls.Nodup → (∀ x ∈ sls, x ∉ L.keys) → (∀ x ∈ sls, x ∉ pcs.keys) → PcsOK cfg L s pcs →
      getBackendConns ctx fromSlave sls s pcs = (s', pcs', g) →
      SameFlags s s' ∧ (g = .panic → (cfg.ks = true ∨ s.isInTransaction = true)) ∧
      ∃ L', Inv q cfg L' s' ∧ PcsOK cfg L' s' pcs' := by
  intro sls
  induction sls with
  | nil =>
    intro s pcs L s' pcs' g hI _ _ _ hP hg
    simp only [getBackendConns] at hg
    cases hg
    exact ⟨SameFlags.refl _, by simp, L, hI, hP⟩
  | cons sl rest ih =>
    intro s pcs L s' pcs' g hI hnd hL hpk hP hg
    simp only [getBackendConns] at hg
    generalize hgc : getBackendConn ctx fromSlave sl s = gc at hg
    obtain ⟨s1, pc, err⟩ := gc
    obtain ⟨hF, hMG, hG⟩ := inv_getBackendConn hcfg hT hI (hL sl (by simp)) hgc
    have hmode : (cfg.ks = true ∨ s1.isInTransaction = true) ↔ (cfg.ks = true ∨ s.isInTransaction = true) := by
      rw [hF.inTx]
    have hheld : ∀ e ∈ held s, e ∈ held s1 := by
      obtain ⟨⟨A, hA⟩, ⟨B, hB⟩⟩ := hMG
      intro e he
      simp only [held, hA, hB, List.mem_append] at he ⊢
      rcases he with he | he
      · exact Or.inl (Or.inl he)
      · exact Or.inr (Or.inl he)
    cases hG with
    | none hpc herr hI1 =>
      subst hpc; subst herr
      simp only at hg
      cases hg
      refine ⟨hF, by simp, L, hI1, ?_⟩
      unfold PcsOK at hP ⊢
      by_cases hm : cfg.ks = true ∨ s.isInTransaction = true
      · rw [if_pos hm] at hP; rw [if_pos (hmode.2 hm)]
        exact ⟨hP.1, fun e he => hheld e (hP.2 e he)⟩
      · rw [if_neg hm] at hP; rw [if_neg (fun h => hm (hmode.1 h))]; exact hP
    | held c hpc herr hm hI1 =>
      subst hpc; subst herr
      simp only at hg
      -- held mode: the local mode holds nothing
      have hmd : cfg.ks = true ∨ s.isInTransaction = true := by
        by_cases hk : cfg.ks = true
        · exact Or.inl hk
        · right
          cases hin : s.isInTransaction with
          | true => rfl
          | false =>
            have hin1 : s1.isInTransaction = false := by rw [hF.inTx]; exact hin
            have := hI1.txIdle hin1
            have hks := hI1.ksOff (by simpa using hk)
            simp [held, this, hks] at hm
      unfold PcsOK at hP
      rw [if_pos hmd] at hP
      split at hg
      · cases hg
        refine ⟨hF, fun _ => hmd, L, hI1, ?_⟩
        unfold PcsOK; rw [if_pos (hmode.2 hmd)]
        exact ⟨hP.1, fun e he => hheld e (hP.2 e he)⟩
      · have hput : pcs.put sl c = pcs ++ [(sl, c)] := put_of_not_mem (hpk sl (by simp))
        rw [hput] at hg
        have hnd' := (List.nodup_cons.1 hnd)
        obtain ⟨hF2, _, L', hI2, hP2⟩ := ih s1 (pcs ++ [(sl, c)]) L hI1 hnd'.2
          (fun x hx => hL x (by simp [hx]))
          (fun x hx => by
            rw [keys_append]; simp only [CMap.keys, List.map_cons, List.map_nil, List.mem_append, List.mem_cons,
              List.not_mem_nil, or_false, not_or]
            exact ⟨hpk x (by simp [hx]), fun e => hnd'.1 (e ▸ hx)⟩)
          (by
            unfold PcsOK; rw [if_pos (hmode.2 hmd)]
            refine ⟨hP.1, fun e he => ?_⟩
            rcases List.mem_append.1 he with he | he
            · exact hheld e (hP.2 e he)
            · simp at he; subst he; exact hm)
          hg
        exact ⟨hF.trans hF2, fun _ => hmd, L', hI2, hP2⟩
    | loc c hpc herr hks hin htx hkc hn hcl hI1 =>
      subst hpc; subst herr
      simp only at hg
      have hmd : ¬ (cfg.ks = true ∨ s.isInTransaction = true) := by
        simp [hks, hin]
      unfold PcsOK at hP
      rw [if_neg hmd] at hP
      subst hP
      simp only [hcl, Bool.false_eq_true, if_false] at hg
      have hput : L.put sl c = L ++ [(sl, c)] := put_of_not_mem (hpk sl (by simp))
      rw [hput] at hg
      have hnd' := (List.nodup_cons.1 hnd)
      have hk' : ∀ x ∈ rest, x ∉ (L ++ [(sl, c)]).keys := by
        intro x hx
        rw [keys_append]; simp only [CMap.keys, List.map_cons, List.map_nil, List.mem_append, List.mem_cons,
          List.not_mem_nil, or_false, not_or]
        exact ⟨hpk x (by simp [hx]), fun e => hnd'.1 (e ▸ hx)⟩
      obtain ⟨hF2, hpan, L', hI2, hP2⟩ := ih s1 (L ++ [(sl, c)]) (L ++ [(sl, c)]) hI1 hnd'.2 hk' hk'
        (by unfold PcsOK; rw [if_neg (fun h => hmd (hmode.1 h))]) hg
      exact ⟨hF.trans hF2, fun hp => hmode.1 (hpan hp), L', hI2, hP2⟩

theorem wi_execShard {O : CMap} {M : List Nat} (ctx : Ctx) (hT : QH q ctx) (rs : Bool) :
    ∀ (cs : List Nat) (w : World), (∀ c ∈ cs, c ∈ O.vals) → WInv q O M w → WInv q O M (execShard ctx rs cs w).1 := by
  intro cs
  induction cs with
  | nil => intro w _ h; simpa [execShard] using h
  | cons c cs ih =>
    intro w hsub h
    simp only [execShard]
    have h1 := wi_executeMultiple ctx hT rs h (hsub c (by simp))
    generalize executeMultipleSQLInSlice ctx rs c w = p at h1
    obtain ⟨w1, r1⟩ := p
    have h2 := ih w1 (fun d hd => hsub d (by simp [hd])) h1
    generalize execShard ctx rs cs w1 = p2 at h2
    obtain ⟨w2, ok⟩ := p2
    exact h2

theorem inv_recycleBackendConns {pcs : CMap} (hcfg : ctx.cfg = cfg) (h : Inv q cfg L s) (hP : PcsOK cfg L s pcs) :
    Inv q cfg [] (recycleBackendConns ctx pcs s) ∧ SameFlags s (recycleBackendConns ctx pcs s) := by
  unfold recycleBackendConns PcsOK at *
  rw [hcfg]
  by_cases hm : cfg.ks = true ∨ s.isInTransaction = true
  · rw [if_pos hm] at hP
    have : (s.isInTransaction || cfg.ks) = true := by
      rcases hm with hm | hm <;> simp [hm]
    simp only [this, if_true]
    rw [hP.1] at h
    exact ⟨h, SameFlags.refl _⟩
  · rw [if_neg hm] at hP
    subst hP
    have hks : cfg.ks = false := by cases hk : cfg.ks <;> simp_all
    have hin : s.isInTransaction = false := by cases hi : s.isInTransaction <;> simp_all
    simp only [hks, hin, Bool.or_self, Bool.false_eq_true, if_false]
    refine ⟨⟨?_, h.ksOff, h.ksOn, h.txIdle⟩, ⟨rfl, rfl, rfl, rfl, rfl, rfl, rfl, rfl⟩⟩
    have hp : (held s ++ L).Perm (iterOrder ctx.ord L ++ held s) :=
      List.perm_append_comm.trans ((iterOrder_perm ctx.ord L).symm.append_right _)
    have := wi_foldl_drop recycle (fun O w c hc hw => wi_recycle hw hc) _ _ _ (h.wi.perm hp)
    show WInv q (held s ++ []) (masters cfg s) _
    simpa [held] using this

theorem mem_of_mem_dedup : ∀ (l : List Nat) (y : Nat), y ∈ dedup l → y ∈ l := by
  intro l
  induction l with
  | nil => intro y hy; simp [dedup] at hy
  | cons a as iha =>
    intro y hy
    simp only [dedup] at hy
    split at hy
    · exact List.mem_cons_of_mem _ (iha y hy)
    · rcases List.mem_cons.1 hy with hy | hy
      · simp [hy]
      · exact List.mem_cons_of_mem _ (iha y hy)

theorem dedup_nodup (l : List Nat) : (dedup l).Nodup := by
  induction l with
  | nil => simp [dedup]
  | cons x xs ih =>
    simp only [dedup]
    split
    · exact ih
    · rename_i hx
      exact List.nodup_cons.2 ⟨fun hmem => hx (by simpa using mem_of_mem_dedup xs x hmem), ih⟩

theorem inv_executeSQLs {fromSlave rs : Bool} {slices : List Nat} (hcfg : ctx.cfg = cfg) (hT : QH q ctx)
    (h : Inv q cfg [] s) :
    Inv q cfg [] (executeSQLs ctx fromSlave rs slices s).1 ∧ SameFlags s (executeSQLs ctx fromSlave rs slices s).1 := by
  unfold executeSQLs
  split
  · exact ⟨h, SameFlags.refl _⟩
  · dsimp only
    generalize hk : (iterOrder ctx.ord ((dedup slices).map fun k => (k, 0))).map (·.1) = keys
    have hnd : keys.Nodup := by
      rw [← hk]
      have hp : ((iterOrder ctx.ord ((dedup slices).map fun k => (k, 0))).map (·.1)).Perm (dedup slices) := by
        have := (iterOrder_perm ctx.ord ((dedup slices).map fun k => (k, 0))).map (fun e : Nat × Nat => e.1)
        simpa [Function.comp_def] using this
      exact (hp.nodup_iff).2 (dedup_nodup slices)
    generalize hg : getBackendConns ctx fromSlave keys s [] = g
    obtain ⟨s1, pcs, got⟩ := g
    obtain ⟨hF, hpan, L', hI1, hP1⟩ := inv_getBackendConns hcfg hT keys s [] [] h hnd (by simp [CMap.keys]) (by simp [CMap.keys])
      (by unfold PcsOK; split <;> simp) hg
    cases got with
    | panic =>
      -- a closed connection among the held ones: nothing was taken by this statement
      simp only
      have hm := hpan rfl
      unfold PcsOK at hP1
      rw [if_pos (by rw [hF.inTx]; exact hm)] at hP1
      rw [hP1.1] at hI1
      exact ⟨hI1, hF⟩
    | err =>
      simp only
      obtain ⟨hI2, hF2⟩ := inv_recycleBackendConns hcfg hI1 hP1
      exact ⟨hI2, hF.trans hF2⟩
    | ok =>
      simp only
      generalize hx : execShard ctx rs (bySlice pcs).vals s1.w = x
      obtain ⟨w2, ok⟩ := x
      have hsub : ∀ c ∈ (bySlice pcs).vals, c ∈ (held s1 ++ L').vals := by
        intro c hc
        have hc' : c ∈ pcs.vals := ((bySlice_perm pcs).map (fun e : Nat × Nat => e.2)).mem_iff.1 hc
        obtain ⟨sl, hsl⟩ := mem_vals.1 hc'
        unfold PcsOK at hP1
        split at hP1
        · exact mem_vals.2 ⟨sl, List.mem_append_left _ (hP1.2 _ hsl)⟩
        · subst hP1; exact mem_vals.2 ⟨sl, List.mem_append_right _ hsl⟩
      have hw2 : WInv q (held s1 ++ L') (masters cfg s1) w2 := by
        have := wi_execShard ctx hT rs _ _ hsub hI1.wi; rw [hx] at this; exact this
      have hI2 : Inv q cfg L' { s1 with w := w2 } := ⟨hw2, hI1.ksOff, hI1.ksOn, hI1.txIdle⟩
      obtain ⟨hI3, hF3⟩ := inv_recycleBackendConns (pcs := pcs) hcfg hI2 hP1
      simp only
      have hFw : SameFlags s1 { s1 with w := w2 } := ⟨rfl, rfl, rfl, rfl, rfl, rfl, rfl, rfl⟩
      exact ⟨hI3, hF.trans (hFw.trans hF3)⟩

/-! ## Transaction control -/

section bodies
variable {O : CMap} {M : List Nat} {w : World} {c : Nat}

theorem wi_commitTx (hT : QH q ctx) (hc : c ∈ O.vals) (h : WInv q O M w) :
    WInv q (drop c O) M (commitTx ctx c w).1 := by
  unfold commitTx
  have h1 := wi_call ctx .C hT h hc
  generalize call ctx .C c w = p at h1
  obtain ⟨w1, r⟩ := p
  exact wi_recycle h1 hc

theorem wi_commitKs (hT : QH q ctx) (hc : c ∈ O.vals) (h : WInv q O M w) :
    WInv q O M (commitKs ctx c w).1 := by
  unfold commitKs
  have h1 := wi_call ctx .C hT h hc
  generalize call ctx .C c w = p at h1
  obtain ⟨w1, r⟩ := p
  exact h1

theorem wi_rollbackTx (hT : QH q ctx) (hc : c ∈ O.vals) (h : WInv q O M w) :
    WInv q (drop c O) M (rollbackTx ctx c w).1 := by
  unfold rollbackTx
  split
  · exact wi_recycle h hc
  · have h1 := wi_call ctx .R hT h hc
    generalize call ctx .R c w = p at h1
    obtain ⟨w1, r⟩ := p
    exact wi_recycle h1 hc

theorem wi_rollbackKs (hT : QH q ctx) (hc : c ∈ O.vals) (h : WInv q O M w) :
    WInv q O M (rollbackKs ctx c w).1 := by
  unfold rollbackKs
  split
  · exact h
  · have h1 := wi_call ctx .R hT h hc
    generalize call ctx .R c w = p at h1
    obtain ⟨w1, r⟩ := p
    exact h1

theorem wi_savepointOn (hT : QH q ctx) (hc : c ∈ O.vals) (h : WInv q O M w) :
    WInv q O M (savepointOn ctx c w).1 := by
  unfold savepointOn
  have h1 := wi_call ctx .S hT h hc
  generalize call ctx .S c w = p at h1
  obtain ⟨w1, r⟩ := p
  exact h1

theorem wi_autocommitOnTx (hT : QH q ctx) (hc : c ∈ O.vals) (h : WInv q O M w) :
    WInv q (drop c O) M (autocommitOnTx ctx c w).1 := by
  unfold autocommitOnTx
  have h1 := wi_call ctx .A1 hT h hc
  generalize call ctx .A1 c w = p at h1
  obtain ⟨w1, r⟩ := p
  exact wi_recycle h1 hc

theorem wi_autocommitOnKs (hT : QH q ctx) (hc : c ∈ O.vals) (h : WInv q O M w) :
    WInv q O M (autocommitOnKs ctx c w).1 := by
  unfold autocommitOnKs
  have h1 := wi_call ctx .A1 hT h hc
  generalize call ctx .A1 c w = p at h1
  obtain ⟨w1, r⟩ := p
  exact h1

theorem wi_autocommitOffKs (hT : QH q ctx) (hc : c ∈ O.vals) (h : WInv q O M w) :
    WInv q O M (autocommitOffKs ctx c w).1 := by
  unfold autocommitOffKs
  have h1 := wi_call ctx .A0 hT h hc
  generalize call ctx .A0 c w = p at h1
  obtain ⟨w1, r⟩ := p
  exact h1

end bodies

theorem iter_vals_sub (ord : List Nat) (m : CMap) : ∀ c ∈ (iterOrder ord m).vals, c ∈ m.vals := by
  intro c hc
  exact ((iterOrder_perm ord m).map (fun e : Nat × Nat => e.2)).mem_iff.1 hc

/-- a loop that gives back every transaction connection, followed by a loop
    over the pinned ones that keeps them: the shape of commit, rollback and
    `set autocommit = 1` -/
theorem wi_endTx {bodyTx bodyKs : Nat → World → World × Option Bool} {mergeT mergeK : Bool → Bool → Bool}
    (hbt : ∀ (O : CMap) (w : World) (c : Nat), c ∈ O.vals → WInv q O (masters cfg s) w →
      WInv q (drop c O) (masters cfg s) (bodyTx c w).1)
    (hbk : ∀ (O : CMap) (w : World) (c : Nat), c ∈ O.vals → WInv q O (masters cfg s) w →
      WInv q O (masters cfg s) (bodyKs c w).1)
    (h : Inv q cfg [] s) (b : Bool) :
    WInv q s.ksConns (masters cfg s)
      (eachConn bodyKs mergeK (iterOrder ctx.ord s.ksConns).vals
        (eachConn bodyTx mergeT (iterOrder ctx.ord s.txConns).vals (s.w, b))).1 := by
  have hp : (held s ++ []).Perm (iterOrder ctx.ord s.txConns ++ s.ksConns) := by
    simp only [held, List.append_nil]
    exact (iterOrder_perm ctx.ord s.txConns).symm.append_right _
  have h1 := wi_eachConn_drop bodyTx mergeT hbt _ _ _ b (h.wi.perm hp)
  generalize eachConn bodyTx mergeT (iterOrder ctx.ord s.txConns).vals (s.w, b) = p at h1
  obtain ⟨w1, b1⟩ := p
  exact wi_eachConn_keep bodyKs mergeK (fun w c hc hw => hbk _ w c hc hw) _ _ _ (iter_vals_sub _ _) h1

/-- the session part of a state after its transaction connections were given back -/
theorem inv_endTx {w' : World} {s' : St} (h : Inv q cfg [] s) (hw : WInv q s.ksConns (masters cfg s) w')
    (htx : s'.txConns = []) (hks : s'.ksConns = s.ksConns) (hw' : s'.w = w') : Inv q cfg [] s' := by
  refine ⟨?_, ?_, fun _ => htx, fun _ => htx⟩
  · simp only [held, htx, hks, hw', List.nil_append, List.append_nil]
    refine hw.subM ?_
    intro d hd
    simp only [masters, htx, hks, CMap.vals, List.map_nil, List.nil_append] at hd
    simp only [masters, List.mem_append]
    exact Or.inr hd
  · intro hk; rw [hks]; exact h.ksOff hk

theorem inv_commit (hT : QH q ctx) (h : Inv q cfg [] s) :
    Inv q cfg [] (commit ctx s).1 :=
  inv_endTx h (wi_endTx (fun _ _ _ hc hw => wi_commitTx hT hc hw) (fun _ _ _ hc hw => wi_commitKs hT hc hw) h true)
    rfl rfl rfl

theorem inv_rollback (hT : QH q ctx) (h : Inv q cfg [] s) :
    Inv q cfg [] (rollback ctx s).1 :=
  inv_endTx h (wi_endTx (fun _ _ _ hc hw => wi_rollbackTx hT hc hw) (fun _ _ _ hc hw => wi_rollbackKs hT hc hw) h true)
    rfl rfl rfl

/-- loops that only talk to the held connections -/
theorem wi_heldLoop {body : Nat → World → World × Option Bool} {merge : Bool → Bool → Bool} {m : CMap}
    (hb : ∀ (w : World) (c : Nat), c ∈ (held s ++ []).vals → WInv q (held s ++ []) (masters cfg s) w →
      WInv q (held s ++ []) (masters cfg s) (body c w).1)
    (hm : ∀ c ∈ m.vals, c ∈ (held s).vals) {w : World} (b : Bool)
    (h : WInv q (held s ++ []) (masters cfg s) w) :
    WInv q (held s ++ []) (masters cfg s) (eachConn body merge (iterOrder ctx.ord m).vals (w, b)).1 :=
  wi_eachConn_keep body merge hb _ _ _ (fun c hc => by simpa using hm c (iter_vals_sub _ _ c hc)) h

theorem tx_sub_held (s : St) : ∀ c ∈ s.txConns.vals, c ∈ (held s).vals := by
  intro c hc; simp only [held, vals_append]; exact List.mem_append_left _ hc

theorem ks_sub_held (s : St) : ∀ c ∈ s.ksConns.vals, c ∈ (held s).vals := by
  intro c hc; simp only [held, vals_append]; exact List.mem_append_right _ hc

theorem inv_setW {w' : World} (h : Inv q cfg [] s) (hw : WInv q (held s ++ []) (masters cfg s) w')
    {s' : St} (htx : s'.txConns = s.txConns) (hks : s'.ksConns = s.ksConns) (hw' : s'.w = w')
    (hin : s'.isInTransaction = false → s.txConns = []) : Inv q cfg [] s' := by
  refine ⟨?_, ?_, ?_, ?_⟩
  · simp only [held, masters, htx, hks, hw'] at hw ⊢; exact hw
  · intro hk; rw [hks]; exact h.ksOff hk
  · intro hk; rw [htx]; exact h.ksOn hk
  · intro hi; rw [htx]; exact hin hi

theorem inv_rollbackSavepoint (hT : QH q ctx) (n : Nat) (h : Inv q cfg [] s) :
    Inv q cfg [] (rollbackSavepoint ctx n s).1 := by
  unfold rollbackSavepoint savepointAll
  have h1 := wi_heldLoop (ctx := ctx) (merge := mergeLast) (fun w c hc hw => wi_savepointOn hT hc hw) (tx_sub_held s) true h.wi
  generalize eachConn (savepointOn ctx) mergeLast (iterOrder ctx.ord s.txConns).vals (s.w, true) = p at h1
  obtain ⟨w1, b1⟩ := p
  have h2 := wi_heldLoop (ctx := ctx) (merge := mergeLast) (fun w c hc hw => wi_savepointOn hT hc hw) (ks_sub_held s) b1 h1
  simp only
  split
  · exact inv_setW h h2 rfl rfl rfl (fun hi => h.txIdle (by simpa [St.isInTransaction] using hi))
  · exact inv_setW h h2 rfl rfl rfl (fun hi => h.txIdle (by simpa [St.isInTransaction] using hi))

theorem inv_handleSavepoint (hT : QH q ctx) (rel : Bool) (n : Nat) (h : Inv q cfg [] s) :
    Inv q cfg [] (handleSavepoint ctx rel n s).1 := by
  unfold handleSavepoint savepointAll
  have h1 := wi_heldLoop (ctx := ctx) (merge := mergeLast) (fun w c hc hw => wi_savepointOn hT hc hw) (tx_sub_held s) true h.wi
  generalize eachConn (savepointOn ctx) mergeLast (iterOrder ctx.ord s.txConns).vals (s.w, true) = p at h1
  obtain ⟨w1, b1⟩ := p
  simp only
  have base : ∀ sp : List Nat, Inv q cfg [] { s with w := w1, savepoints := sp } := fun sp =>
    inv_setW h h1 rfl rfl rfl (fun hi => h.txIdle (by simpa [St.isInTransaction] using hi))
  split
  · split
    · split
      · exact base _
      · exact inv_setW h h1 rfl rfl rfl (fun hi => h.txIdle (by simpa [St.isInTransaction] using hi))
    · exact base _
  · exact inv_setW h h1 rfl rfl rfl (fun hi => h.txIdle (by simpa [St.isInTransaction] using hi))

theorem inv_handleBegin (hT : QH q ctx) (h : Inv q cfg [] s) :
    Inv q cfg [] (handleBegin ctx s).1 := by
  unfold handleBegin
  have h1 := wi_beginAll ctx hT (iterOrder ctx.ord s.txConns).vals s.w
    (fun c hc => by simpa using tx_sub_held s c (iter_vals_sub _ _ c hc)) h.wi
  generalize beginAll ctx (iterOrder ctx.ord s.txConns).vals s.w = p at h1
  obtain ⟨w1, ok1⟩ := p
  simp only
  split
  · exact inv_setW h h1 rfl rfl rfl (fun hi => h.txIdle (by simpa [St.isInTransaction] using hi))
  · have h2 := wi_beginAll ctx hT (iterOrder ctx.ord s.ksConns).vals w1
      (fun c hc => by simpa using ks_sub_held s c (iter_vals_sub _ _ c hc)) h1
    generalize beginAll ctx (iterOrder ctx.ord s.ksConns).vals w1 = p2 at h2
    obtain ⟨w2, ok2⟩ := p2
    simp only
    split
    · exact inv_setW h h2 rfl rfl rfl (fun hi => h.txIdle (by simpa [St.isInTransaction] using hi))
    · exact inv_setW h h2 rfl rfl rfl (fun hi => by simp [St.isInTransaction] at hi)

theorem inv_handleSetAutoCommit (hT : QH q ctx) (v : Bool) (h : Inv q cfg [] s) :
    Inv q cfg [] (handleSetAutoCommit ctx v s).1 := by
  unfold handleSetAutoCommit
  split
  · exact inv_endTx h (wi_endTx (fun _ _ _ hc hw => wi_autocommitOnTx hT hc hw)
      (fun _ _ _ hc hw => wi_autocommitOnKs hT hc hw) h true) rfl rfl rfl
  · have h1 := wi_heldLoop (ctx := ctx) (merge := mergeAnd) (fun w c hc hw => wi_autocommitOffKs hT hc hw) (ks_sub_held s) true h.wi
    exact inv_setW h h1 rfl rfl rfl (fun hi => by simp [St.isInTransaction] at hi)

/-! ## Keep-session housekeeping, session close -/

theorem wi_pingDrop {O : CMap} {M : List Nat} {w : World} {c : Nat} (inTx : Bool) (hc : c ∈ O.vals)
    (h : WInv q O M w) : WInv q (drop c O) M (pingDrop inTx c w) := by
  unfold pingDrop
  split
  · exact wi_closeRecycle h hc
  · exact wi_recycle h hc

/-- giving back all pinned connections -/
theorem inv_dropKs {body : Nat → World → World} {w : World}
    (hb : ∀ (O : CMap) (w : World) (c : Nat), c ∈ O.vals → WInv q O (masters cfg s) w →
      WInv q (drop c O) (masters cfg s) (body c w))
    (h : Inv q cfg [] s) (hw : WInv q (held s ++ []) (masters cfg s) w) {s' : St}
    (htx : s'.txConns = s.txConns) (hks : s'.ksConns = [])
    (hw' : s'.w = (iterOrder ctx.ord s.ksConns).vals.foldl (fun w c => body c w) w)
    (hin : s'.isInTransaction = false → s.txConns = []) : Inv q cfg [] s' := by
  have hp : (held s ++ []).Perm (iterOrder ctx.ord s.ksConns ++ s.txConns) := by
    simp only [held, List.append_nil]
    exact List.perm_append_comm.trans ((iterOrder_perm ctx.ord s.ksConns).symm.append_right _)
  have h1 := wi_foldl_drop body hb _ _ _ (hw.perm hp)
  refine ⟨?_, fun _ => hks, ?_, ?_⟩
  · simp only [held, htx, hks, hw', List.append_nil]
    refine h1.subM ?_
    intro d hd
    simp only [masters, htx, hks, CMap.vals, List.map_nil, List.append_nil] at hd
    simp only [masters, List.mem_append]
    exact Or.inl hd
  · intro hk; rw [htx]; exact h.ksOn hk
  · intro hi; rw [htx]; exact hin hi

theorem inv_handleKeepSessionPing (hT : QH q ctx) (h : Inv q cfg [] s) :
    Inv q cfg [] (handleKeepSessionPing ctx s).1 := by
  unfold handleKeepSessionPing
  have h1 := wi_pingAll ctx hT (iterOrder ctx.ord s.ksConns).vals s.w
    (fun c hc => by simpa using ks_sub_held s c (iter_vals_sub _ _ c hc)) h.wi
  generalize pingAll ctx (iterOrder ctx.ord s.ksConns).vals s.w = p at h1
  obtain ⟨w1, ok⟩ := p
  simp only
  split
  · exact inv_setW h h1 rfl rfl rfl (fun hi => h.txIdle (by simpa [St.isInTransaction] using hi))
  · exact inv_dropKs (ctx := ctx) (body := pingDrop s.isInTransaction) (fun _ _ _ hc hw => wi_pingDrop _ hc hw) h h1 rfl rfl rfl
      (fun hi => h.txIdle (by simpa [St.isInTransaction] using hi))

theorem inv_handleKsQuit (h : Inv q cfg [] s) : Inv q cfg [] (handleKsQuit ctx s) :=
  inv_dropKs (ctx := ctx) (body := closeRecycle) (fun _ _ _ hc hw => wi_closeRecycle hw hc) h h.wi rfl rfl rfl
    (fun hi => h.txIdle (by simpa [St.isInTransaction, handleKsQuit] using hi))

theorem inv_sessionClose (hT : QH q ctx) (h : Inv q cfg [] s) :
    Inv q cfg [] (sessionClose ctx s) ∧
    ((sessionClose ctx s).closed = true → s.closed = false →
      (sessionClose ctx s).txConns = [] ∧ (sessionClose ctx s).ksConns = []) := by
  unfold sessionClose
  split
  · rename_i hc; exact ⟨h, fun _ hf => by rw [hc] at hf; cases hf⟩
  · have h0 : Inv q cfg [] { s with closed := true } := ⟨h.wi, h.ksOff, h.ksOn, h.txIdle⟩
    exact ⟨inv_handleKsQuit (inv_rollback hT h0), fun _ _ => ⟨rfl, rfl⟩⟩

theorem inv_handleFieldList (hcfg : ctx.cfg = cfg) (hT : QH q ctx)
    (h : Inv q cfg [] s) (hcont : s.continueConn = none) :
    Inv q cfg [] (handleFieldList ctx s).1 ∧ SameFlags s (handleFieldList ctx s).1 := by
  unfold handleFieldList
  generalize hg : getBackendConn ctx (ctx.cfg.user != .w) 0 s = g
  obtain ⟨s1, pc, err⟩ := g
  obtain ⟨hF, _, hG⟩ := inv_getBackendConn hcfg hT h (by simp [CMap.keys]) hg
  have hc1 : s1.continueConn = none := by rw [hF.continueConn]; exact hcont
  have recyc : ∀ {L : CMap} {s2 : St} {c : Nat}, Inv q cfg L s2 → OwnedBy cfg L s2 c → drop c L = [] →
      s2.continueConn = none → SameFlags s s2 →
      Inv q cfg [] (recycleBackendConn ctx (some c) s2) ∧ SameFlags s (recycleBackendConn ctx (some c) s2) := by
    intro L s2 c hI hO hd hcn hFl
    obtain ⟨hF2, hR⟩ := inv_recycleBackendConn hcfg hT hI hO
    refine ⟨?_, hFl.trans hF2⟩
    rcases hR with hR | ⟨_, hsome, _, _⟩
    · rw [hd] at hR; exact hR
    · rw [hcn] at hsome; cases hsome
  have body : ∀ {L : CMap} {c : Nat}, Inv q cfg L s1 → OwnedBy cfg L s1 c → drop c L = [] →
      c ∈ (held s1 ++ L).vals →
      Inv q cfg [] (match call ctx .U c s1.w with
        | (w, r) => if !r.isOk then (recycleBackendConn ctx (some c) { s1 with w := w }, false) else
          match call ctx .F c w with
          | (w, r) => (recycleBackendConn ctx (some c) { s1 with w := w }, r.isOk)).1 ∧
      SameFlags s (match call ctx .U c s1.w with
        | (w, r) => if !r.isOk then (recycleBackendConn ctx (some c) { s1 with w := w }, false) else
          match call ctx .F c w with
          | (w, r) => (recycleBackendConn ctx (some c) { s1 with w := w }, r.isOk)).1 := by
    intro L c hI hO hd hcm
    have hU := wi_call ctx .U hT hI.wi hcm
    generalize call ctx .U c s1.w = pU at hU
    obtain ⟨wU, rU⟩ := pU
    have hFw : ∀ w', SameFlags s { s1 with w := w' } := fun w' =>
      ⟨hF.autocommit, hF.inTrans, hF.continueConn, hF.savepoints, hF.closed, hF.nsOld, hF.nsCtx, hF.nsCur⟩
    simp only
    split
    · exact recyc (s2 := { s1 with w := wU }) ⟨hU, hI.ksOff, hI.ksOn, hI.txIdle⟩ hO hd hc1 (hFw _)
    · have hFc := wi_call ctx .F hT hU hcm
      generalize call ctx .F c wU = pF at hFc
      obtain ⟨wF, rF⟩ := pF
      exact recyc (s2 := { s1 with w := wF }) ⟨hFc, hI.ksOff, hI.ksOn, hI.txIdle⟩ hO hd hc1 (hFw _)
  cases hG with
  | none hpc herr hI =>
    subst hpc; subst herr
    exact ⟨hI, hF⟩
  | held c hpc herr hm hI =>
    subst hpc; subst herr
    exact body hI (Or.inl (mem_vals.2 ⟨0, hm⟩)) rfl (by simpa using mem_vals.2 ⟨0, hm⟩)
  | loc c hpc herr hks hin htx hkc hn hcl hI =>
    subst hpc; subst herr
    have hin1 : s1.isInTransaction = false := by rw [hF.inTx]; exact hin
    exact body hI (Or.inr ⟨hks, hin1, by simp [CMap.vals]⟩) (by simp [drop]) (by simp [CMap.vals])

/-! ## Commands and steps -/

theorem inv_congr {s1 s2 : St} (h : Inv q cfg L s1) (htx : s2.txConns = s1.txConns) (hks : s2.ksConns = s1.ksConns)
    (hw : s2.w.conns = s1.w.conns) (hac : s2.autocommit = s1.autocommit) (hit : s2.inTrans = s1.inTrans) :
    Inv q cfg L s2 := by
  obtain ⟨hwi, h1, h2, h3⟩ := h
  refine ⟨?_, ?_, ?_, ?_⟩
  · simp only [held, masters, htx, hks] at hwi ⊢
    exact ⟨hwi.nodupC, hwi.nodupS, by rw [hw]; exact hwi.out, by rw [hw]; exact hwi.ret, by rw [hw]; exact hwi.flags,
      by rw [hw]; exact hwi.mast, by rw [hw]; exact hwi.quiet, by rw [hw]; exact hwi.cr⟩
  · intro hk; rw [hks]; exact h1 hk
  · intro hk; rw [htx]; exact h2 hk
  · intro hi; rw [htx]; exact h3 (by simpa [St.isInTransaction, hac, hit] using hi)

/-- the invariant between two commands -/
structure Idle (q : Q) (cfg : Cfg) (s : St) : Prop where
  inv : Inv q cfg [] s
  cont : s.continueConn = none
  /-- a closed session holds nothing -/
  clean : s.closed = true → s.txConns = [] ∧ s.ksConns = []

theorem cont_commit : (commit ctx s).1.continueConn = s.continueConn := rfl
theorem cont_rollback : (rollback ctx s).1.continueConn = s.continueConn := rfl
theorem cont_handleBegin : (handleBegin ctx s).1.continueConn = s.continueConn := by
  unfold handleBegin; dsimp only; split
  · rfl
  · split <;> rfl
theorem cont_handleSetAutoCommit (v : Bool) : (handleSetAutoCommit ctx v s).1.continueConn = s.continueConn := by
  unfold handleSetAutoCommit; split <;> rfl
theorem cont_handleSavepoint (r : Bool) (n : Nat) : (handleSavepoint ctx r n s).1.continueConn = s.continueConn := by
  unfold handleSavepoint; dsimp only
  split
  · split
    · split <;> rfl
    · rfl
  · rfl
theorem cont_rollbackSavepoint (n : Nat) : (rollbackSavepoint ctx n s).1.continueConn = s.continueConn := by
  unfold rollbackSavepoint; dsimp only; split <;> rfl
theorem cont_handleKeepSessionPing : (handleKeepSessionPing ctx s).1.continueConn = s.continueConn := by
  unfold handleKeepSessionPing; dsimp only; split <;> rfl

theorem mid_executeCommand (hcfg : ctx.cfg = cfg) (hT : QH q ctx) (b : Body) (h : Idle q cfg s) :
    Mid q cfg (executeCommand ctx b s).1 := by
  have hI := h.inv
  have hc := h.cont
  unfold executeCommand
  dsimp only
  cases b with
  | qu k =>
    dsimp only
    split
    · exact mid_of_inv hI hc
    · exact (inv_executeSQL hcfg hT hI hc).1
  | qs k slices =>
    dsimp only
    split
    · exact mid_of_inv hI hc
    · obtain ⟨h1, hF⟩ := inv_executeSQLs (fromSlave := checkExecuteFromSlave ctx.cfg.user k) (rs := k != .w) (slices := slices) hcfg hT hI
      exact mid_of_inv h1 (by rw [hF.continueConn]; exact hc)
  | «show» => exact (inv_executeSQL hcfg hT hI hc).1
  | fl =>
    obtain ⟨h1, hF⟩ := inv_handleFieldList hcfg hT hI hc
    exact mid_of_inv h1 (by rw [hF.continueConn]; exact hc)
  | begin => exact mid_of_inv (inv_handleBegin hT hI) (by rw [cont_handleBegin]; exact hc)
  | commit => exact mid_of_inv (inv_commit hT hI) hc
  | rollback => exact mid_of_inv (inv_rollback hT hI) hc
  | ac v => exact mid_of_inv (inv_handleSetAutoCommit hT v hI) (by rw [cont_handleSetAutoCommit]; exact hc)
  | sp n => exact mid_of_inv (inv_handleSavepoint hT false n hI) (by rw [cont_handleSavepoint]; exact hc)
  | rel n => exact mid_of_inv (inv_handleSavepoint hT true n hI) (by rw [cont_handleSavepoint]; exact hc)
  | rbt n => exact mid_of_inv (inv_rollbackSavepoint hT n hI) (by rw [cont_rollbackSavepoint]; exact hc)
  | ping =>
    dsimp only
    split
    · exact mid_of_inv (inv_handleKeepSessionPing hT hI) (by rw [cont_handleKeepSessionPing]; exact hc)
    · exact mid_of_inv hI hc
  | quit => exact mid_of_inv (inv_rollback hT hI) hc
  | disc => exact mid_of_inv hI hc
  | nsc => exact mid_of_inv hI hc

theorem closed_executeCommand (hcfg : ctx.cfg = cfg) (hT : QH q ctx) (b : Body) (h : Idle q cfg s) :
    (executeCommand ctx b s).1.closed = s.closed := by
  have hI := h.inv
  have hc := h.cont
  unfold executeCommand
  dsimp only
  cases b with
  | qu k =>
    dsimp only
    split
    · rfl
    · exact (inv_executeSQL hcfg hT hI hc).2.closed
  | qs k slices =>
    dsimp only
    split
    · rfl
    · exact (inv_executeSQLs (fromSlave := checkExecuteFromSlave ctx.cfg.user k) (rs := k != .w) (slices := slices) hcfg hT hI).2.closed
  | «show» => exact (inv_executeSQL hcfg hT hI hc).2.closed
  | fl => exact (inv_handleFieldList hcfg hT hI hc).2.closed
  | begin =>
    show (handleBegin ctx s).1.closed = s.closed
    unfold handleBegin; dsimp only; split
    · rfl
    · split <;> rfl
  | commit => rfl
  | rollback => rfl
  | ac v =>
    show (handleSetAutoCommit ctx v s).1.closed = s.closed
    unfold handleSetAutoCommit; split <;> rfl
  | sp n =>
    show (handleSavepoint ctx false n s).1.closed = s.closed
    unfold handleSavepoint; dsimp only
    split
    · split
      · split <;> rfl
      · rfl
    · rfl
  | rel n =>
    show (handleSavepoint ctx true n s).1.closed = s.closed
    unfold handleSavepoint; dsimp only
    split
    · split
      · split <;> rfl
      · rfl
    · rfl
  | rbt n =>
    show (rollbackSavepoint ctx n s).1.closed = s.closed
    unfold rollbackSavepoint; dsimp only; split <;> rfl
  | ping =>
    dsimp only
    split
    · show (handleKeepSessionPing ctx s).1.closed = s.closed
      unfold handleKeepSessionPing; dsimp only; split <;> rfl
    · rfl
  | quit => rfl
  | disc => rfl
  | nsc => rfl

theorem closed_recycleContinueConn (pc : Option Nat) : (recycleContinueConn ctx pc s).closed = s.closed := by
  unfold recycleContinueConn
  split
  · rfl
  · dsimp only
    split
    · split <;> rfl
    · split
      · exact flags_clearKsConns.closed
      · split <;> rfl

theorem closed_writeResponse (r : Resp) : (writeResponse ctx r s).1.closed = s.closed := by
  have e : (writeResponse ctx r s).1 =
      (fun s1 : St => ({ (recycleContinueConn ctx s1.continueConn s1) with continueConn := none } : St))
      (match s.continueConn with
       | some c => if r == .res || r == .ok then { s with w := closeGivenUp c (streamRest ctx c s.w) } else s
       | none => s) := rfl
  rw [e]
  simp only [closed_recycleContinueConn]
  split
  · split <;> rfl
  · rfl

theorem idle_writeResponse (hcfg : ctx.cfg = cfg) (hT : QH q ctx) (r : Resp) (h : Mid q cfg s)
    (hncl : s.closed = false) :
    Idle q cfg (writeResponse ctx r s).1 := by
  have hcl : s.closed = true → s.txConns = [] ∧ s.ksConns = [] := fun hc => by rw [hncl] at hc; cases hc
  have e : (writeResponse ctx r s).1 =
      (fun s1 : St => ({ (recycleContinueConn ctx s1.continueConn s1) with continueConn := none } : St))
      (match s.continueConn with
       | some c => if r == .res || r == .ok then { s with w := closeGivenUp c (streamRest ctx c s.w) } else s
       | none => s) := rfl
  rw [e]
  generalize hs1 : (match s.continueConn with
       | some c => if r == Resp.res || r == Resp.ok then { s with w := closeGivenUp c (streamRest ctx c s.w) } else s
       | none => s) = s1
  have hc1 : s1.continueConn = s.continueConn := by
    rw [← hs1]; split
    · split <;> rfl
    · rfl
  -- the state after the pending rows were fetched satisfies what `s` satisfies
  have hI1 : ∀ {L : CMap} {c : Nat}, s.continueConn = some c → Inv q cfg L s → c ∈ (held s ++ L).vals → Inv q cfg L s1 := by
    intro L c hcc hI hcm
    rw [← hs1]; simp only [hcc]
    split
    · exact ⟨wi_closeGivenUp ctx hT hI.wi hcm (wi_streamRest ctx hT hI.wi hcm), hI.ksOff, hI.ksOn, hI.txIdle⟩
    · exact hI
  have hO1 : ∀ {L : CMap} {c : Nat}, s.continueConn = some c → OwnedBy cfg L s c → OwnedBy cfg L s1 c := by
    intro L c hcc hO
    rw [← hs1]; simp only [hcc]
    split <;> exact hO
  simp only
  rw [hc1]
  cases hcc : s.continueConn with
  | none =>
    have : s1 = s := by rw [← hs1]; simp only [hcc]
    subst this
    simp only [Mid, hcc] at h
    simp only [recycleContinueConn]
    exact ⟨inv_congr h rfl rfl rfl rfl rfl, rfl, hcl⟩
  | some c =>
    simp only [Mid, hcc] at h
    have hcl1 : s1.closed = false := by
      rw [← hs1]; simp only [hcc]; split <;> exact hncl
    have key : ∀ {L : CMap}, Inv q cfg L s → OwnedBy cfg L s c → drop c L = [] →
        c ∈ (held s ++ L).vals →
        Idle q cfg { (recycleContinueConn ctx (some c) s1) with continueConn := none } := by
      intro L hI hO hd hcm
      obtain ⟨_, hR⟩ := inv_recycleContinueConn hcfg hT (hI1 hcc hI hcm) (hO1 hcc hO)
      rw [hd] at hR
      refine ⟨inv_congr hR rfl rfl rfl rfl rfl, rfl, ?_⟩
      intro hc'
      have : (recycleContinueConn ctx (some c) s1).closed = s1.closed := closed_recycleContinueConn _
      simp only at hc'
      rw [this, hcl1] at hc'; cases hc'
    rcases h with ⟨hm, hI⟩ | ⟨sl, hks, hin, hI⟩
    · exact key hI (Or.inl hm) rfl (by simpa using hm)
    · exact key hI (Or.inr ⟨hks, hin, by simp [CMap.vals]⟩) (by simp [drop]) (by simp [CMap.vals])

theorem idle_of_eq_fields {s1 s2 : St} (h : Idle q cfg s1) (htx : s2.txConns = s1.txConns) (hks : s2.ksConns = s1.ksConns)
    (hw : s2.w.conns = s1.w.conns) (hac : s2.autocommit = s1.autocommit) (hit : s2.inTrans = s1.inTrans)
    (hcc : s2.continueConn = s1.continueConn) (hcl : s2.closed = s1.closed) : Idle q cfg s2 :=
  ⟨inv_congr h.inv htx hks hw hac hit, by rw [hcc]; exact h.cont, by rw [hcl, htx, hks]; exact h.clean⟩

theorem idle_clearKsConns (h : Idle q cfg s) : Idle q cfg (clearKsConns ctx s) := by
  obtain ⟨hI, hF, htx, hks⟩ := inv_clearKsConns (ctx := ctx) h.inv
  refine ⟨hI, by rw [hF.continueConn]; exact h.cont, ?_⟩
  intro hc
  rw [hF.closed] at hc
  obtain ⟨h1, h2⟩ := h.clean hc
  refine ⟨by rw [htx]; exact h1, ?_⟩
  rcases hks with hks | hks
  · rw [hks]; exact h2
  · exact hks

theorem idle_sessionClose (hT : QH q ctx) (h : Idle q cfg s) : Idle q cfg (sessionClose ctx s) := by
  obtain ⟨hI, hcl⟩ := inv_sessionClose (ctx := ctx) hT h.inv
  refine ⟨hI, ?_, ?_⟩
  · unfold sessionClose
    split
    · exact h.cont
    · exact h.cont
  · intro hc
    cases hs : s.closed with
    | true =>
      have : sessionClose ctx s = s := by unfold sessionClose; simp [hs]
      rw [this]; exact h.clean hs
    | false => exact hcl hc hs

theorem closed_clearKsConns : (clearKsConns ctx s).closed = s.closed := flags_clearKsConns.closed

theorem idle_runCommand (hcfg : ctx.cfg = cfg) (hT : QH q ctx) (b : Body) (h : Idle q cfg s)
    (hncl : s.closed = false) :
    Idle q cfg (runCommand ctx b s).1 := by
  unfold runCommand
  dsimp only
  have h0 : Idle q cfg { s with nsCtx := s.nsCur } := idle_of_eq_fields h rfl rfl rfl rfl rfl rfl rfl
  have h1 := idle_clearKsConns (ctx := ctx) h0
  have c1 : (clearKsConns ctx { s with nsCtx := s.nsCur }).closed = false := by rw [closed_clearKsConns]; exact hncl
  generalize clearKsConns ctx { s with nsCtx := s.nsCur } = s1 at h1 c1
  have h2 : Idle q cfg (if !s1.isInTransaction then { s1 with nsOld := s1.nsCtx } else s1) := by
    split
    · exact idle_of_eq_fields h1 rfl rfl rfl rfl rfl rfl rfl
    · exact h1
  have c2 : (if !s1.isInTransaction then { s1 with nsOld := s1.nsCtx } else s1).closed = false := by
    split <;> exact c1
  generalize (if !s1.isInTransaction then { s1 with nsOld := s1.nsCtx } else s1) = s2 at h2 c2
  have h3 : Mid q cfg (if shouldClear ctx s2 then (s2, Resp.err) else executeCommand ctx b s2).1 := by
    split
    · exact mid_of_inv h2.inv h2.cont
    · exact mid_executeCommand hcfg hT b h2
  have c3 : (if shouldClear ctx s2 then (s2, Resp.err) else executeCommand ctx b s2).1.closed = false := by
    split
    · exact c2
    · rw [closed_executeCommand hcfg hT b h2]; exact c2
  generalize (if shouldClear ctx s2 then (s2, Resp.err) else executeCommand ctx b s2) = p3 at h3 c3
  obtain ⟨s3, r⟩ := p3
  have h4 := idle_writeResponse hcfg hT r h3 c3
  have c4 : (writeResponse ctx r s3).1.closed = false := by rw [closed_writeResponse]; exact c3
  generalize writeResponse ctx r s3 = p4 at h4 c4
  obtain ⟨s4, delivered⟩ := p4
  dsimp only at h4 c4 ⊢
  split
  · exact idle_sessionClose hT (idle_clearKsConns h4)
  · have h5 : Idle q cfg (if b == .quit || shouldClear ctx s4 || txConnLost s4 then sessionClose ctx s4 else s4) := by
      split
      · exact idle_sessionClose hT h4
      · exact h4
    exact idle_of_eq_fields h5 rfl rfl rfl rfl rfl rfl rfl

/-- no statement timeout is injected by this operation -/
def NoTOp (op : Op) : Prop := ∀ f ∈ op.faults, f.mode ≠ .t

/-- the backend loses no connection during this operation: no statement timeout,
    no call that leaves the connection closed, no ping failure -/
def CalmOp (op : Op) : Prop :=
  ∀ f ∈ op.faults, f.mode ≠ .t ∧ f.mode ≠ .z ∧ f.k ≠ .p ∧ ¬(f.mode = .e ∧ (f.k = .m ∨ f.k = .n))

structure QHOp (q : Q) (op : Op) : Prop where
  p : q.p = true → CalmOp op

theorem QHOp.toCtx {op : Op} (h : QHOp q op) (cfg : Cfg) : QH q { cfg := cfg, ord := op.ord, faults := op.faults } :=
  ⟨fun hq f hf => h.p hq f hf⟩

/-- what needs no hypothesis on the faults: everything but "a closed connection has been given back" -/
def qNone : Q := { t := true, p := false }

theorem qhop_none (op : Op) : QHOp qNone op :=
  ⟨fun h => by simp [qNone] at h⟩

theorem idle_step (op : Op) (hT : QHOp q op) (h : Idle q cfg s) : Idle q cfg (step cfg s op).1 := by
  unfold step
  dsimp only
  have h0 : Idle q cfg { s with w := { s.w with trace := [] } } := idle_of_eq_fields h rfl rfl rfl rfl rfl rfl rfl
  have hT' := hT.toCtx cfg
  split
  · exact h0
  · rename_i hncl
    split
    · exact idle_of_eq_fields h0 rfl rfl rfl rfl rfl rfl rfl
    · exact idle_sessionClose hT' (idle_clearKsConns h0)
    · exact idle_runCommand rfl hT' _ h0 (by simpa using hncl)

theorem idle_init (q : Q) (cfg : Cfg) : Idle q cfg {} := by
  refine ⟨⟨⟨?_, ?_, ?_, ?_, ?_, ?_, ?_, ?_⟩, fun _ => rfl, fun _ => rfl, fun _ => rfl⟩, rfl, fun _ => ⟨rfl, rfl⟩⟩ <;>
    simp [held, masters, CMap.vals, CMap.keys]

theorem idle_foldl (ops : List Op) (hT : ∀ op ∈ ops, QHOp q op) :
    ∀ s, Idle q cfg s → Idle q cfg (ops.foldl (fun s op => (step cfg s op).1) s) := by
  induction ops with
  | nil => intro s h; exact h
  | cons op ops ih =>
    intro s h
    simp only [List.foldl_cons]
    exact ih (fun o ho => hT o (by simp [ho])) _ (idle_step op (hT op (by simp)) h)

theorem idle_run (cfg : Cfg) (ops : List Op) (hT : ∀ op ∈ ops, QHOp q op) : Idle q cfg (run cfg ops) :=
  idle_foldl ops hT _ (idle_init q cfg)

/-- the invariant without optional parts holds of every history -/
theorem idle_run_all (cfg : Cfg) (ops : List Op) : Idle qNone cfg (run cfg ops) :=
  idle_run cfg ops (fun op _ => qhop_none op)

end GaeaVerif.SessionConns
