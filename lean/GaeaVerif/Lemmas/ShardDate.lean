import GaeaVerif.Lemmas.ShardStr
import GaeaVerif.Model.ShardPlace
/-
  Digit-string lemmas for the date rules (shard.go) and the `date_range`
  parsers (numkey.go): zero-padded fields, their concatenation read back by
  Atoi, slicing a formatted date.
-/
namespace GaeaVerif.ShardLemmas
open GaeaVerif.ShardGo GaeaVerif.ShardPlace

theorem digitsVal_app (a b : List Nat) (acc : Nat) :
    digitsVal (a ++ b) acc = digitsVal b (digitsVal a acc) := by
  induction a generalizing acc with
  | nil => rfl
  | cons x xs ih => simp [digitsVal, ih]

theorem digitsVal_acc (b : List Nat) (acc : Nat) :
    digitsVal b acc = acc * 10 ^ b.length + digitsVal b 0 := by
  induction b generalizing acc with
  | nil => simp [digitsVal]
  | cons x xs ih =>
    simp only [digitsVal, List.length_cons]
    rw [ih (acc * 10 + (x - 48)), ih (0 * 10 + (x - 48))]
    rw [Nat.pow_succ]
    simp only [Nat.zero_mul, Nat.zero_add, Nat.add_mul]
    rw [Nat.mul_assoc, Nat.mul_comm 10]
    omega

theorem digitsVal_zeros (k : Nat) (b : List Nat) : digitsVal (List.replicate k 48 ++ b) 0 = digitsVal b 0 := by
  induction k with
  | zero => rfl
  | succ k ih => simp [List.replicate_succ, digitsVal, ih]

theorem fmtNat_length_le (n w : Nat) (h : n < 10 ^ w) (hw : 1 ≤ w) : (fmtNat n).length ≤ w := by
  induction w generalizing n with
  | zero => omega
  | succ w ih =>
    by_cases h10 : n < 10
    · rw [fmtNat_lt10 n h10]; simp
    · rw [fmtNat_ge10 n (by omega)]
      have hw' : 1 ≤ w := by
        cases w with
        | zero => simp at h; omega
        | succ w => omega
      have : n / 10 < 10 ^ w := by
        rw [Nat.pow_succ] at h
        exact Nat.div_lt_of_lt_mul (by omega)
      have := ih (n / 10) this hw'
      simp; omega

theorem zeroPad_length (w n : Nat) (h : n < 10 ^ w) (hw : 1 ≤ w) : (zeroPad w n).length = w := by
  unfold zeroPad
  have := fmtNat_length_le n w h hw
  simp; omega

theorem zeroPad_digits (w n : Nat) : ∀ b ∈ zeroPad w n, isDigit b = true := by
  intro b hb
  unfold zeroPad at hb
  simp only [List.mem_append, List.mem_replicate] at hb
  rcases hb with ⟨_, h⟩ | h
  · subst h; decide
  · exact fmtNat_digits n b h

theorem zeroPad_val (w n : Nat) : digitsVal (zeroPad w n) 0 = n := by
  unfold zeroPad; simp only; rw [digitsVal_zeros, digitsVal_fmtNat]

theorem all_digits_append (a b : List Nat) (ha : ∀ x ∈ a, isDigit x = true) (hb : ∀ x ∈ b, isDigit x = true) :
    (a ++ b).all isDigit = true := by
  rw [List.all_eq_true]; intro x hx
  rcases List.mem_append.mp hx with h | h
  · exact ha x h
  · exact hb x h

/-- Atoi of a non-empty digit string below 2^63. -/
theorem parseInt64_digits (s : List Nat) (hne : s ≠ []) (hd : s.all isDigit = true)
    (hv : digitsVal s 0 < 2 ^ 63) : parseInt64 s = some (digitsVal s 0 : Int) := by
  have hu : parseUDec s = some (digitsVal s 0) := by unfold parseUDec; simp [hne, hd]
  obtain ⟨b, r, rfl⟩ : ∃ b r, s = b :: r := by
    cases s with
    | nil => exact absurd rfl hne
    | cons b r => exact ⟨b, r, rfl⟩
  have hb : isDigit b = true := by
    rw [List.all_eq_true] at hd; exact hd b (by simp)
  have h43 : b ≠ 43 := by intro e; subst e; simp [isDigit] at hb
  have h45 : b ≠ 45 := by intro e; subst e; simp [isDigit] at hb
  have hbig : parseBigDec (b :: r) = some (digitsVal (b :: r) 0 : Int) := by
    unfold parseBigDec
    split
    · rename_i heq; simp at heq; exact absurd heq.1 h43
    · rename_i heq; simp at heq; exact absurd heq.1 h45
    · rw [hu]; rfl
  unfold parseInt64
  rw [hbig]
  simp only
  rw [if_pos ⟨by omega, by omega⟩]

theorem atoiDigits_digits (s : List Nat) (hne : s ≠ []) (hd : s.all isDigit = true)
    (hv : digitsVal s 0 < 2 ^ 63) : atoiDigits s = some (digitsVal s 0 : Int) := by
  unfold atoiDigits; rw [if_pos hd]; exact parseInt64_digits s hne hd hv

/-- A field with a non-digit is rejected by `atoiDigits`. -/
theorem atoiDigits_nondigit (s : List Nat) (h : ∃ b ∈ s, isDigit b = false) : atoiDigits s = none := by
  unfold atoiDigits
  obtain ⟨b, hb, hnd⟩ := h
  have : ¬ (s.all isDigit = true) := by
    rw [List.all_eq_true]; intro hall; rw [hall b hb] at hnd; cases hnd
  rw [if_neg this]

end GaeaVerif.ShardLemmas
