import GaeaVerif.Model.ShardStart
import GaeaVerif.Spec.ShardCalendar
import GaeaVerif.Lemmas.CivilDays
import GaeaVerif.Lemmas.ShardDate
import GaeaVerif.Props.C09
/-
  Calendar rules of C01: what the accepted spellings of a date-time
  (`CalendarSpec.parseSpelling`) look like byte by byte, where
  `Date{Year,Month,Day}Shard.FindForKey` places them, when the repaired
  `isPeriodStartString` answers true for them, and that `EqualStart` never
  panics.  Helper lemmas for Props/C01.lean (calendar_route_sound).
-/
namespace GaeaVerif.RouteCal
open GaeaVerif GaeaVerif.ShardGo GaeaVerif.ShardPlace GaeaVerif.ShardLemmas GaeaVerif.CivilDays
def dig (b : Nat) : Nat := b - 48
theorem number2 (a b n : Nat) (h : CalendarSpec.number? [a, b] = some n) :
    isDigit a = true ∧ isDigit b = true ∧ n = dig a * 10 + dig b := by
  by_cases ha : 48 ≤ a ∧ a ≤ 57 <;> by_cases hb : 48 ≤ b ∧ b ≤ 57 <;>
    simp [CalendarSpec.number?, CalendarSpec.digit?, ha, hb, isDigit, dig] at h ⊢ <;> omega

theorem number4 (a b c d n : Nat) (h : CalendarSpec.number? [a, b, c, d] = some n) :
    isDigit a = true ∧ isDigit b = true ∧ isDigit c = true ∧ isDigit d = true ∧
      n = ((dig a * 10 + dig b) * 10 + dig c) * 10 + dig d := by
  by_cases ha : 48 ≤ a ∧ a ≤ 57 <;> by_cases hb : 48 ≤ b ∧ b ≤ 57 <;>
    by_cases hc : 48 ≤ c ∧ c ≤ 57 <;> by_cases hd : 48 ≤ d ∧ d ≤ 57 <;>
    simp [CalendarSpec.number?, CalendarSpec.digit?, ha, hb, hc, hd, isDigit, dig] at h ⊢ <;> omega

/-- the ten bytes `YYYY-MM-DD` -/
def dateBytes (y1 y2 y3 y4 m1 m2 d1 d2 : Nat) : GoStr := [y1, y2, y3, y4, 45, m1, m2, 45, d1, d2]
/-- the nine bytes ` hh:mm:ss` -/
def timeBytes (h1 h2 i1 i2 s1 s2 : Nat) : GoStr := [32, h1, h2, 58, i1, i2, 58, s1, s2]

theorem len10 (s : List Nat) (h : s.length = 10) : ∃ a0 a1 a2 a3 a4 a5 a6 a7 a8 a9, s = [a0, a1, a2, a3, a4, a5, a6, a7, a8, a9] := by
  match s, h with
  | [a0, a1, a2, a3, a4, a5, a6, a7, a8, a9], _ => exact ⟨a0, a1, a2, a3, a4, a5, a6, a7, a8, a9, rfl⟩

theorem len19 (s : List Nat) (h : s.length = 19) : ∃ a0 a1 a2 a3 a4 a5 a6 a7 a8 a9 b0 b1 b2 b3 b4 b5 b6 b7 b8,
    s = [a0, a1, a2, a3, a4, a5, a6, a7, a8, a9, b0, b1, b2, b3, b4, b5, b6, b7, b8] := by
  match s, h with
  | [a0, a1, a2, a3, a4, a5, a6, a7, a8, a9, b0, b1, b2, b3, b4, b5, b6, b7, b8], _ =>
    exact ⟨a0, a1, a2, a3, a4, a5, a6, a7, a8, a9, b0, b1, b2, b3, b4, b5, b6, b7, b8, rfl⟩

/-- What `CalendarSpec.parseSpelling s = some c` says about the bytes of `s`. -/
structure Spelled (s : GoStr) (c : CalendarSpec.DateTime) : Prop where
  valid : c.valid = true
  shape : ∃ y1 y2 y3 y4 m1 m2 d1 d2 t, s = dateBytes y1 y2 y3 y4 m1 m2 d1 d2 ++ t ∧
    isDigit y1 = true ∧ isDigit y2 = true ∧ isDigit y3 = true ∧ isDigit y4 = true ∧
    isDigit m1 = true ∧ isDigit m2 = true ∧ isDigit d1 = true ∧ isDigit d2 = true ∧
    c.year = ((((dig y1 * 10 + dig y2) * 10 + dig y3) * 10 + dig y4 : Nat) : Int) ∧
    c.month = dig m1 * 10 + dig m2 ∧ c.day = dig d1 * 10 + dig d2 ∧
    ((t = [] ∧ c.hour = 0 ∧ c.minute = 0 ∧ c.second = 0) ∨
     ∃ h1 h2 i1 i2 s1 s2, t = timeBytes h1 h2 i1 i2 s1 s2 ∧
       isDigit h1 = true ∧ isDigit h2 = true ∧ isDigit i1 = true ∧ isDigit i2 = true ∧
       isDigit s1 = true ∧ isDigit s2 = true ∧
       c.hour = dig h1 * 10 + dig h2 ∧ c.minute = dig i1 * 10 + dig i2 ∧ c.second = dig s1 * 10 + dig s2)

theorem date10 (a0 a1 a2 a3 a4 a5 a6 a7 a8 a9 : Nat) (c : CalendarSpec.DateTime)
    (h : (match [a0, a1, a2, a3, a4, a5, a6, a7, a8, a9] with
      | [y1, y2, y3, y4, 45, m1, m2, 45, d1, d2] => do
        let y ← CalendarSpec.number? [y1, y2, y3, y4]; let m ← CalendarSpec.number? [m1, m2]
        let d ← CalendarSpec.number? [d1, d2]
        some ({ year := y, month := m, day := d } : CalendarSpec.DateTime)
      | _ => none) = some c) :
    a4 = 45 ∧ a7 = 45 ∧ ∃ y m d, CalendarSpec.number? [a0, a1, a2, a3] = some y ∧
      CalendarSpec.number? [a5, a6] = some m ∧ CalendarSpec.number? [a8, a9] = some d ∧
      c = { year := y, month := m, day := d } := by
  split at h
  · rename_i y1 y2 y3 y4 m1 m2 d1 d2 heq
    simp only [List.cons.injEq, and_true] at heq
    obtain ⟨rfl, rfl, rfl, rfl, rfl, rfl, rfl, rfl, rfl, rfl⟩ := heq
    refine ⟨rfl, rfl, ?_⟩
    cases hy : CalendarSpec.number? [a0, a1, a2, a3] with
    | none => simp [hy] at h
    | some y =>
      cases hm : CalendarSpec.number? [a5, a6] with
      | none => simp [hy, hm] at h
      | some m =>
        cases hd : CalendarSpec.number? [a8, a9] with
        | none => simp [hy, hm, hd] at h
        | some d =>
          simp [hy, hm, hd] at h
          exact ⟨y, m, d, rfl, rfl, rfl, h.symm⟩
  · cases h


theorem spelled_of_parse (s : GoStr) (c : CalendarSpec.DateTime) (h : CalendarSpec.parseSpelling s = some c) :
    Spelled s c := by
  unfold CalendarSpec.parseSpelling at h
  simp only at h
  split at h
  · rename_i hlen
    obtain ⟨a0, a1, a2, a3, a4, a5, a6, a7, a8, a9, rfl⟩ := len10 s hlen
    rw [Option.bind_eq_some_iff] at h
    obtain ⟨c0, hc0, hv⟩ := h
    obtain ⟨rfl, rfl, y, m, d, hy, hm, hd, rfl⟩ := date10 a0 a1 a2 a3 a4 a5 a6 a7 a8 a9 c0 hc0
    split at hv
    · rename_i hvalid
      cases hv
      obtain ⟨y1, y2, y3, y4, rfl⟩ := number4 _ _ _ _ _ hy
      obtain ⟨m1, m2, rfl⟩ := number2 _ _ _ hm
      obtain ⟨d1, d2, rfl⟩ := number2 _ _ _ hd
      exact ⟨hvalid, a0, a1, a2, a3, a5, a6, a8, a9, [], rfl, y1, y2, y3, y4, m1, m2, d1, d2, rfl, rfl, rfl,
        Or.inl ⟨rfl, rfl, rfl, rfl⟩⟩
    · cases hv
  · split at h
    · rename_i hlen
      obtain ⟨a0, a1, a2, a3, a4, a5, a6, a7, a8, a9, b0, b1, b2, b3, b4, b5, b6, b7, b8, rfl⟩ := len19 s hlen
      simp only [List.drop_succ_cons, List.drop_zero, List.take_succ_cons, List.take_zero] at h
      split at h
      · rename_i h1 h2 i1 i2 s1 s2 heq
        simp only [List.cons.injEq, and_true] at heq
        obtain ⟨rfl, rfl, rfl, rfl, rfl, rfl, rfl, rfl, rfl⟩ := heq
        simp only [Option.bind_eq_bind] at h
        rw [Option.bind_eq_some_iff] at h
        obtain ⟨c0, hc0, h⟩ := h
        ·
          obtain ⟨rfl, rfl, y, m, d, hy, hm, hd, rfl⟩ := date10 a0 a1 a2 a3 a4 a5 a6 a7 a8 a9 c0 hc0
          cases hh : CalendarSpec.number? [b1, b2] with
          | none => simp [hh] at h
          | some hv =>
            cases hi : CalendarSpec.number? [b4, b5] with
            | none => simp [hh, hi] at h
            | some iv =>
              cases hs : CalendarSpec.number? [b7, b8] with
              | none => simp [hh, hi, hs] at h
              | some sv =>
                simp only [hh, hi, hs, Option.bind_some] at h
                split at h
                · rename_i hvalid
                  cases h
                  obtain ⟨y1, y2, y3, y4, rfl⟩ := number4 _ _ _ _ _ hy
                  obtain ⟨m1, m2, rfl⟩ := number2 _ _ _ hm
                  obtain ⟨d1, d2, rfl⟩ := number2 _ _ _ hd
                  obtain ⟨g1, g2, rfl⟩ := number2 _ _ _ hh
                  obtain ⟨g3, g4, rfl⟩ := number2 _ _ _ hi
                  obtain ⟨g5, g6, rfl⟩ := number2 _ _ _ hs
                  exact ⟨hvalid, a0, a1, a2, a3, a5, a6, a8, a9, timeBytes b1 b2 b4 b5 b7 b8, rfl, y1, y2, y3, y4,
                    m1, m2, d1, d2, rfl, rfl, rfl,
                    Or.inr ⟨b1, b2, b4, b5, b7, b8, rfl, g1, g2, g3, g4, g5, g6, rfl, rfl, rfl⟩⟩
                · cases h
      · cases h
    · cases h


theorem dig_le (b : Nat) (h : isDigit b = true) : dig b ≤ 9 := by
  unfold isDigit at h; unfold dig; simp at h; omega

/-- `FindForKey` of the three calendar rules on a string that begins with the
    ten bytes `YYYY-MM-DD` (digits), whatever follows. -/
theorem date_string_find (civilOf : Int → Civil) (y1 y2 y3 y4 m1 m2 d1 d2 : Nat) (t : GoStr)
    (hy1 : isDigit y1 = true) (hy2 : isDigit y2 = true) (hy3 : isDigit y3 = true) (hy4 : isDigit y4 = true)
    (hm1 : isDigit m1 = true) (hm2 : isDigit m2 = true) (hd1 : isDigit d1 = true) (hd2 : isDigit d2 = true) :
    let s := dateBytes y1 y2 y3 y4 m1 m2 d1 d2 ++ t
    let y : Int := ((((dig y1 * 10 + dig y2) * 10 + dig y3) * 10 + dig y4 : Nat) : Int)
    let m : Int := ((dig m1 * 10 + dig m2 : Nat) : Int)
    let d : Int := ((dig d1 * 10 + dig d2 : Nat) : Int)
    DateYearShard.FindForKey civilOf (.str s) = .ok y ∧
    DateMonthShard.FindForKey civilOf (.str s) = .ok (y * 100 + m) ∧
    DateDayShard.FindForKey civilOf (.str s) = .ok (y * 10000 + m * 100 + d) := by
  intro s y m d
  have b1 := dig_le _ hy1; have b2 := dig_le _ hy2; have b3 := dig_le _ hy3; have b4 := dig_le _ hy4
  have b5 := dig_le _ hm1; have b6 := dig_le _ hm2; have b7 := dig_le _ hd1; have b8 := dig_le _ hd2
  have e4 : atoiDigits [y1, y2, y3, y4] = some y := by
    rw [atoiDigits_digits _ (by simp) (by simp [hy1, hy2, hy3, hy4]) (by simp [digitsVal]; unfold dig at *; omega)]
    simp [digitsVal, y, dig]
  have e6 : atoiDigits ([y1, y2, y3, y4] ++ [m1, m2]) = some (y * 100 + m) := by
    rw [atoiDigits_digits _ (by simp) (by simp [hy1, hy2, hy3, hy4, hm1, hm2])
      (by simp [digitsVal]; unfold dig at *; omega)]
    simp [digitsVal, y, m, dig]; omega
  have e8 : atoiDigits ([y1, y2, y3, y4] ++ [m1, m2] ++ [d1, d2]) = some (y * 10000 + m * 100 + d) := by
    rw [atoiDigits_digits _ (by simp) (by simp [hy1, hy2, hy3, hy4, hm1, hm2, hd1, hd2])
      (by simp [digitsVal]; unfold dig at *; omega)]
    simp [digitsVal, y, m, d, dig]; omega
  have hlen : s.length = 10 + t.length := by simp [s, dateBytes]; omega
  have s04 : strSlice s 0 4 = .ok [y1, y2, y3, y4] := by
    unfold strSlice; rw [if_pos (by omega)]; simp [s, dateBytes]
  have s57 : strSlice s 5 7 = .ok [m1, m2] := by
    unfold strSlice; rw [if_pos (by omega)]; simp [s, dateBytes]
  have s810 : strSlice s 8 10 = .ok [d1, d2] := by
    unfold strSlice; rw [if_pos (by omega)]; simp [s, dateBytes]
  refine ⟨?_, ?_, ?_⟩
  · show (if s.length < 4 then Out.err ErrKind.invalidDate else
      match strSlice s 0 4 with
      | .ok p => (match atoiDigits p with | some v => Out.ok v | none => .err .invalidDate)
      | .err k => .err k
      | .panic => .panic) = _
    rw [if_neg (by omega), s04]; simp only [e4]
  · show (if s.length < 10 then Out.err ErrKind.invalidDate else
      match strSlice s 0 4, strSlice s 5 7 with
      | .ok a, .ok b => (match atoiDigits (a ++ b) with | some n => Out.ok n | none => .err .invalidDate)
      | _, _ => .panic) = _
    rw [if_neg (by omega), s04, s57]; simp only [e6]
  · show (if s.length < 10 then Out.err ErrKind.invalidDate else
      match strSlice s 0 4, strSlice s 5 7, strSlice s 8 10 with
      | .ok a, .ok b, .ok c =>
        (match atoiDigits (a ++ b ++ c) with | some n => Out.ok n | none => .err .invalidDate)
      | _, _, _ => .panic) = _
    rw [if_neg (by omega), s04, s57, s810]; simp only [e8]


theorem periodStart_date (y1 y2 y3 y4 m1 m2 d1 d2 unit : Nat)
    (hb : isPeriodStartString (dateBytes y1 y2 y3 y4 m1 m2 d1 d2 ++ []) unit = .ok true) :
    unit = 100 ∨ (d1 = 48 ∧ d2 = 49 ∧ (unit = 109 ∨ (m1 = 48 ∧ m2 = 49))) := by
  simp [isPeriodStartString, dateBytes, strFrom, restIsMidnight, strSlice, text01] at hb
  by_cases hu : unit = 100
  · exact Or.inl hu
  · right
    have hb := hb hu
    by_cases h1 : d1 = 48 <;> by_cases h2 : d2 = 49 <;> simp [h1, h2] at hb
    refine ⟨h1, h2, ?_⟩
    by_cases hm : unit = 109
    · exact Or.inl hm
    · simp [hm] at hb; exact Or.inr hb

theorem periodStart_datetime (y1 y2 y3 y4 m1 m2 d1 d2 h1 h2 i1 i2 s1 s2 unit : Nat)
    (hb : isPeriodStartString (dateBytes y1 y2 y3 y4 m1 m2 d1 d2 ++ timeBytes h1 h2 i1 i2 s1 s2) unit = .ok true) :
    (h1 = 48 ∧ h2 = 48 ∧ i1 = 48 ∧ i2 = 48 ∧ s1 = 48 ∧ s2 = 48) ∧
    (unit = 100 ∨ (d1 = 48 ∧ d2 = 49 ∧ (unit = 109 ∨ (m1 = 48 ∧ m2 = 49)))) := by
  simp [isPeriodStartString, dateBytes, timeBytes, strFrom, restIsMidnight, strSlice, text01, hasPrefix, midnightText] at hb
  by_cases ht : h1 = 48 ∧ h2 = 48 ∧ i1 = 48 ∧ i2 = 48 ∧ s1 = 48 ∧ s2 = 48
  · refine ⟨ht, ?_⟩
    obtain ⟨e1, e2, e3, e4, e5, e6⟩ := ht
    simp [e1, e2, e3, e4, e5, e6] at hb
    by_cases hu : unit = 100
    · exact Or.inl hu
    · right
      simp [hu] at hb
      by_cases g1 : d1 = 48 <;> by_cases g2 : d2 = 49 <;> simp [g1, g2] at hb
      refine ⟨g1, g2, ?_⟩
      by_cases hm : unit = 109
      · exact Or.inl hm
      · simp [hm] at hb; exact Or.inr hb
  · exfalso
    have : (¬h1 = 48 ∨ ¬h2 = 48 ∨ ¬i1 = 48 ∨ ¬i2 = 48 ∨ ¬s1 = 48 ∨ ¬s2 = 48) := by omega
    simp [this] at hb


theorem restIsMidnight_ne_panic (rest : GoStr) : restIsMidnight rest ≠ .panic := by
  unfold restIsMidnight
  split
  · simp
  · split
    · simp
    · rename_i hne hp
      simp only [Bool.not_eq_true] at hp
      have hlen : 9 ≤ rest.length := by
        unfold hasPrefix at hp; simp [midnightText] at hp; exact hp.1
      unfold strFrom; rw [if_pos hlen]
      simp only
      split
      · simp
      · rename_i hf
        have hpos : 0 < (List.drop 9 rest).length := List.length_pos_iff.mpr hf
        unfold strAt
        rw [if_pos (by omega)]
        cases hg : (List.drop 9 rest)[0]? with
        | none => rw [List.getElem?_eq_none_iff] at hg; omega
        | some b => simp

theorem isPeriodStartString_ne_panic (val : GoStr) (unit : Nat) : isPeriodStartString val unit ≠ .panic := by
  unfold isPeriodStartString
  split
  · simp
  · rename_i hlen
    unfold strFrom; rw [if_pos (by omega)]
    simp only
    have hr := restIsMidnight_ne_panic (List.drop 10 val)
    cases hrm : restIsMidnight (List.drop 10 val) with
    | panic => exact absurd hrm hr
    | err k => simp
    | ok b =>
      cases b with
      | false => simp
      | true =>
        simp only
        split
        · simp
        · rw [C09.strSlice_ok val 8 10 ⟨by omega, by omega⟩, C09.strSlice_ok val 5 7 ⟨by omega, by omega⟩]
          simp only
          split
          · simp
          · split <;> simp

theorem isPeriodStart_ne_panic (civilOf : Int → Civil) (clockOf : Int → Clock) (key : Key) (unit : Nat) :
    isPeriodStart civilOf clockOf key unit ≠ .panic := by
  cases key <;> simp [isPeriodStart]
  exact isPeriodStartString_ne_panic _ _

/-- **`EqualStart` of the calendar rules never panics**, for every key, index and zone. -/
theorem date_equalStart_ne_panic (civilOf : Int → Civil) (clockOf : Int → Clock) (key : Key) (index : Int) :
    DateYearShard.EqualStart civilOf clockOf key index ≠ .panic ∧
    DateMonthShard.EqualStart civilOf clockOf key index ≠ .panic ∧
    DateDayShard.EqualStart civilOf clockOf key index ≠ .panic := by
  have hp := C09.date_keys_never_panic civilOf key
  refine ⟨?_, ?_, ?_⟩
  · unfold DateYearShard.EqualStart dateEqualStart
    cases h : DateYearShard.FindForKey civilOf key with
    | panic => exact absurd h hp.1
    | err k => simp
    | ok n => simp only; split; exact isPeriodStart_ne_panic _ _ _ _; simp
  · unfold DateMonthShard.EqualStart dateEqualStart
    cases h : DateMonthShard.FindForKey civilOf key with
    | panic => exact absurd h hp.2.1
    | err k => simp
    | ok n => simp only; split; exact isPeriodStart_ne_panic _ _ _ _; simp
  · unfold DateDayShard.EqualStart dateEqualStart
    cases h : DateDayShard.FindForKey civilOf key with
    | panic => exact absurd h hp.2.2
    | err k => simp
    | ok n => simp only; split; exact isPeriodStart_ne_panic _ _ _ _; simp

theorem spelled_start (s : GoStr) (c : CalendarSpec.DateTime) (hs : Spelled s c) (unit : Nat)
    (hb : isPeriodStartString s unit = .ok true) :
    c.hour = 0 ∧ c.minute = 0 ∧ c.second = 0 ∧ (unit = 100 ∨ (c.day = 1 ∧ (unit = 109 ∨ c.month = 1))) := by
  obtain ⟨_, y1, y2, y3, y4, m1, m2, d1, d2, t, rfl, _, _, _, _, _, _, _, _, _, hm, hd, ht⟩ := hs
  rcases ht with ⟨rfl, h0, i0, s0⟩ | ⟨h1, h2, i1, i2, s1, s2, rfl, _, _, _, _, _, _, hh, hi, hsec⟩
  · refine ⟨h0, i0, s0, ?_⟩
    rcases periodStart_date _ _ _ _ _ _ _ _ _ hb with hu | ⟨rfl, rfl, hu⟩
    · exact Or.inl hu
    · right
      refine ⟨by rw [hd]; rfl, ?_⟩
      rcases hu with hu | ⟨rfl, rfl⟩
      · exact Or.inl hu
      · right; rw [hm]; rfl
  · obtain ⟨⟨rfl, rfl, rfl, rfl, rfl, rfl⟩, hu⟩ := periodStart_datetime _ _ _ _ _ _ _ _ _ _ _ _ _ _ _ hb
    refine ⟨by rw [hh]; rfl, by rw [hi]; rfl, by rw [hsec]; rfl, ?_⟩
    rcases hu with hu | ⟨rfl, rfl, hu⟩
    · exact Or.inl hu
    · right
      refine ⟨by rw [hd]; rfl, ?_⟩
      rcases hu with hu | ⟨rfl, rfl⟩
      · exact Or.inl hu
      · right; rw [hm]; rfl

/-! ### the three calendar rules, uniformly -/

inductive CalKind where
  | year | month | day
  deriving DecidableEq, Repr

/-- the `unit` byte `EqualStart` passes to `isPeriodStart` -/
def CalKind.unit : CalKind → Nat
  | .year => 121
  | .month => 109
  | .day => 100

/-- `Date{Year,Month,Day}Shard.FindForKey` -/
def CalKind.find (k : CalKind) (civilOf : Int → Civil) (key : Key) : Out Int :=
  match k with
  | .year => DateYearShard.FindForKey civilOf key
  | .month => DateMonthShard.FindForKey civilOf key
  | .day => DateDayShard.FindForKey civilOf key

/-- `Date{Year,Month,Day}Shard.EqualStart` -/
def CalKind.equalStart (k : CalKind) (civilOf : Int → Civil) (clockOf : Int → Clock) (key : Key) (index : Int) :
    Out Bool :=
  match k with
  | .year => DateYearShard.EqualStart civilOf clockOf key index
  | .month => DateMonthShard.EqualStart civilOf clockOf key index
  | .day => DateDayShard.EqualStart civilOf clockOf key index

theorem CalKind.equalStart_eq (k : CalKind) (civilOf : Int → Civil) (clockOf : Int → Clock) (key : Key) (index : Int) :
    k.equalStart civilOf clockOf key index = dateEqualStart (k.find civilOf) civilOf clockOf k.unit key index := by
  cases k <;> rfl

/-- period number of a civil date: the table index of the rule -/
def CalKind.num (k : CalKind) (c : Civil) : Int :=
  match k with
  | .year => c.year
  | .month => c.year * 100 + c.month
  | .day => c.year * 10000 + c.month * 100 + c.day

/-! ### DATETIME columns: string keys -/

/-- A date-time as the number `YYYYMMDDhhmmss`: an order embedding of the valid date-times. -/
def pack (c : CalendarSpec.DateTime) : Int :=
  ((((c.year * 100 + c.month) * 100 + c.day) * 100 + c.hour) * 100 + c.minute) * 100 + c.second

/-- what is cut off a packed date-time to get the period number -/
def CalKind.div : CalKind → Int
  | .year => 10000000000
  | .month => 100000000
  | .day => 1000000

/-- the table of a row whose DATETIME sharding column holds the packed value `v` -/
def pvStr (k : CalKind) (v : Int) : Int := v / k.div

/-- the packed valid date-times -/
def VStr (v : Int) : Prop := ∃ c : CalendarSpec.DateTime, c.valid = true ∧ pack c = v

theorem monthLength_le (y : Int) (m : Nat) : CalendarSpec.monthLength y m ≤ 31 := by
  unfold CalendarSpec.monthLength; split <;> try omega
  split <;> omega

theorem valid_bounds (c : CalendarSpec.DateTime) (h : c.valid = true) :
    0 ≤ c.year ∧ c.year ≤ 9999 ∧ 1 ≤ c.month ∧ c.month ≤ 12 ∧ 1 ≤ c.day ∧ c.day ≤ 31 ∧
      c.hour < 24 ∧ c.minute < 60 ∧ c.second < 60 := by
  unfold CalendarSpec.DateTime.valid at h
  simp only [Bool.and_eq_true, decide_eq_true_eq] at h
  have := monthLength_le c.year c.month
  omega

theorem pack_num (k : CalKind) (c : CalendarSpec.DateTime) (h : c.valid = true) :
    pvStr k (pack c) = k.num { year := c.year, month := c.month, day := c.day } := by
  have := valid_bounds c h
  cases k <;> simp only [pvStr, pack, CalKind.div, CalKind.num] <;> omega

/-- **A spelled date-time is placed in the table of its period** (strings do not consult the zone). -/
theorem str_place (k : CalKind) (civilOf : Int → Civil) (s : GoStr) (c : CalendarSpec.DateTime) (hs : Spelled s c) :
    k.find civilOf (.str s) = .ok (pvStr k (pack c)) := by
  rw [pack_num k c hs.valid]
  obtain ⟨_, y1, y2, y3, y4, m1, m2, d1, d2, t, rfl, a1, a2, a3, a4, a5, a6, a7, a8, hy, hm, hd, _⟩ := hs
  obtain ⟨f1, f2, f3⟩ := date_string_find civilOf y1 y2 y3 y4 m1 m2 d1 d2 t a1 a2 a3 a4 a5 a6 a7 a8
  cases k
  · simp only [CalKind.find, CalKind.num]; rw [f1, hy]
  · simp only [CalKind.find, CalKind.num]; rw [f2, hy, hm]
  · simp only [CalKind.find, CalKind.num]; rw [f3, hy, hm, hd]

/-- **`EqualStart` answers true for a spelled date-time only at the first instant
    of its period**: every valid date-time before it lies in an earlier table. -/
theorem str_start (k : CalKind) (civilOf : Int → Civil) (clockOf : Int → Clock) (s : GoStr)
    (c : CalendarSpec.DateTime) (hs : Spelled s c) (i : Int)
    (he : k.equalStart civilOf clockOf (.str s) i = .ok true) :
    ∀ y, VStr y → y < pack c → pvStr k y < pvStr k (pack c) := by
  rw [CalKind.equalStart_eq, dateEqualStart, str_place k civilOf s c hs] at he
  simp only at he
  split at he
  · simp only [isPeriodStart] at he
    obtain ⟨h0, i0, s0, hu⟩ := spelled_start s c hs k.unit he
    intro y ⟨c', hv', hy⟩ hlt
    subst hy
    have b := valid_bounds c hs.valid
    have b' := valid_bounds c' hv'
    cases k
    · simp [CalKind.unit] at hu
      simp only [pvStr, pack, CalKind.div] at hlt ⊢
      omega
    · simp [CalKind.unit] at hu
      simp only [pvStr, pack, CalKind.div] at hlt ⊢
      omega
    · simp only [pvStr, pack, CalKind.div] at hlt ⊢
      omega
  · cases he


/-! ### integer columns: unix-timestamp keys in the proxy's time zone -/

/-- What the routing of timestamp keys needs of the zone behind `civilOf` /
    `clockOf` (`time.Unix(v, 0)` read as a civil date and a clock): real months
    and days, dates that never go back as time advances, and 00:00:00 being
    the first instant of its day.  `fixedZone_ok`: every zone with a fixed
    offset has them. -/
structure ZoneOK (civilOf : Int → Civil) (clockOf : Int → Clock) : Prop where
  month : ∀ v, 1 ≤ (civilOf v).month ∧ (civilOf v).month ≤ 12
  day : ∀ v, 1 ≤ (civilOf v).day ∧ (civilOf v).day ≤ 31
  mono : ∀ a b, a ≤ b → civilNum (civilOf a) ≤ civilNum (civilOf b)
  midnight : ∀ v, (clockOf v).hour = 0 → (clockOf v).minute = 0 → (clockOf v).second = 0 →
    ∀ a, a < v → civilNum (civilOf a) < civilNum (civilOf v)

/-- the timestamps whose civil year is written with four digits (C09: beyond
    them `Format("2006-01-02")` is sliced wrongly, a listed finding of C09) -/
def VUnix (civilOf : Int → Civil) (v : Int) : Prop := 0 ≤ (civilOf v).year ∧ (civilOf v).year ≤ 9999

/-- the table of a row whose integer sharding column holds the timestamp `v` -/
def pvUnix (k : CalKind) (civilOf : Int → Civil) (v : Int) : Int := k.num (civilOf v)

theorem unix_place (k : CalKind) (civilOf : Int → Civil) (clockOf : Int → Clock) (hz : ZoneOK civilOf clockOf)
    (v : Int) (hv : VUnix civilOf v) : k.find civilOf (.int64 v) = .ok (pvUnix k civilOf v) := by
  have hm := hz.month v
  have hd := hz.day v
  obtain ⟨t1, t2, t3⟩ := C09.timestamp_place civilOf v hv (by omega) (by omega)
  cases k
  · exact t1
  · exact t2
  · exact t3

theorem unix_mono (k : CalKind) (civilOf : Int → Civil) (clockOf : Int → Clock) (hz : ZoneOK civilOf clockOf)
    (a b : Int) (h : a ≤ b) : pvUnix k civilOf a ≤ pvUnix k civilOf b := by
  have := hz.mono a b h
  have ma := hz.month a; have da := hz.day a; have mb := hz.month b; have db := hz.day b
  unfold civilNum at this
  cases k <;> simp only [pvUnix, CalKind.num] <;> omega

theorem unix_start (k : CalKind) (civilOf : Int → Civil) (clockOf : Int → Clock) (hz : ZoneOK civilOf clockOf)
    (v i : Int) (hv : VUnix civilOf v) (he : k.equalStart civilOf clockOf (.int64 v) i = .ok true) :
    ∀ a, a < v → pvUnix k civilOf a < pvUnix k civilOf v := by
  rw [CalKind.equalStart_eq, dateEqualStart, unix_place k civilOf clockOf hz v hv] at he
  simp only at he
  split at he
  · simp only [isPeriodStart, isPeriodStartTime, Out.ok.injEq] at he
    intro a ha
    split at he
    · cases he
    · rename_i hclock
      have hmid := hz.midnight v (by omega) (by omega) (by omega) a ha
      have ma := hz.month a; have da := hz.day a; have mv := hz.month v; have dv := hz.day v
      unfold civilNum at hmid
      cases k
      · simp [CalKind.unit] at he
        simp only [pvUnix, CalKind.num]
        omega
      · simp [CalKind.unit] at he
        simp only [pvUnix, CalKind.num]
        omega
      · simp only [pvUnix, CalKind.num]
        omega
  · cases he

/-- **Every zone with a fixed offset satisfies the laws** (`civilOfUnix off`,
    `clockOfUnix off`: the instances the drivers run with). -/
theorem fixedZone_ok (off : Int) : ZoneOK (civilOfUnix off) (clockOfUnix off) := by
  refine ⟨?_, ?_, ?_, ?_⟩
  · intro v; have := civil_bounds ((v + off) / 86400); exact ⟨this.1, this.2.1⟩
  · intro v; have := civil_bounds ((v + off) / 86400); exact ⟨this.2.2.1, this.2.2.2⟩
  · intro a b h
    unfold civilOfUnix
    by_cases he : (a + off) / 86400 = (b + off) / 86400
    · rw [he]; exact Int.le_refl _
    · exact Int.le_of_lt (civil_strict_mono _ _ (by omega))
  · intro v h0 m0 s0 a ha
    unfold civilOfUnix
    apply civil_strict_mono
    simp only [clockOfUnix] at h0 m0 s0
    omega

end GaeaVerif.RouteCal
