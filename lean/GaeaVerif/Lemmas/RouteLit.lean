import GaeaVerif.Model.RouteLit
import GaeaVerif.Lemmas.InsertStoredLemmas
import GaeaVerif.Lemmas.RouteLists
/-
  Lemmas about the literals of a comparison with the sharding column
  (Model/RouteLit.lean) for Props/C01.lean: the `Lit` built for a literal the
  planner does not route by, `encodeStr` is injective, and — family by family —
  a literal that `getShardingCompareValue` hands to the rule denotes exactly an
  integer (a string) that the rule places where it places the literal.
-/
namespace GaeaVerif.RouteLit
open GaeaVerif GaeaVerif.ShardGo GaeaVerif.ShardPlace GaeaVerif.Route GaeaVerif.Insert GaeaVerif.InsertStored
  GaeaVerif.ShardLemmas

/-! ### `mkLit` / `litOf` -/

theorem mkLit_wide (fam : Fam) (ct : ColType) (q : SqlLit) (p : Option Int) (e : Bool) (h : isWide fam q = true) :
    (mkLit fam ct q p e).wide = true ∧ (mkLit fam ct q p e).place = none := by
  simp [mkLit, h]

theorem mkLit_place (fam : Fam) (ct : ColType) (q : SqlLit) (p : Option Int) (e : Bool) (i : Int)
    (h : (mkLit fam ct q p e).place = some i) :
    isWide fam q = false ∧ p = some i ∧ (mkLit fam ct q p e).rank = (den ct q).rank ∧
      (mkLit fam ct q p e).sem = (den ct q).sem ∧ (mkLit fam ct q p e).eqStart = e := by
  by_cases hw : isWide fam q = true
  · simp [mkLit, hw] at h
  · have hw' : isWide fam q = false := by simpa using hw
    refine ⟨hw', ?_⟩
    simp only [mkLit, hw', Bool.false_eq_true, ↓reduceIte] at h ⊢
    simp [h]

/-- a literal of `litOf` that is placed: the planner hands `key` to the rule,
    which answers `i`, and the literal carries the denotation of `q` -/
theorem litOf_place (fam : Fam) (ct : ColType) (find : Key → Out Int) (eqs : Key → Int → Bool) (q : SqlLit)
    (i : Int) (h : (litOf fam ct find eqs q).place = some i) :
    ∃ key, compareValue fam q = some key ∧ find key = .ok i ∧
      (litOf fam ct find eqs q).rank = (den ct q).rank ∧ (litOf fam ct find eqs q).sem = (den ct q).sem ∧
      (litOf fam ct find eqs q).eqStart = eqs key i := by
  unfold litOf at h ⊢
  cases hc : compareValue fam q with
  | none =>
    simp only [hc] at h
    have := (mkLit_place fam ct q none false i h).2.1
    cases this
  | some key =>
    simp only [hc] at h ⊢
    cases hf : find key with
    | ok j =>
      simp only [hf] at h ⊢
      obtain ⟨_, hp, hr, hs, he⟩ := mkLit_place fam ct q (some j) (eqs key j) i h
      cases hp
      exact ⟨key, rfl, hf, hr, hs, he⟩
    | err k =>
      simp only [hf] at h
      have := (mkLit_place fam ct q none false i h).2.1
      cases this
    | panic =>
      simp only [hf] at h
      have := (mkLit_place fam ct q none false i h).2.1
      cases this

/-! ### `encodeStr` -/

theorem decode_encode (s : GoStr) (hs : ∀ b ∈ s, b < 256) (fuel : Nat) (hf : s.length ≤ fuel) :
    decodeStr fuel (encodeStr s) = s := by
  induction s generalizing fuel with
  | nil => cases fuel <;> simp [encodeStr, decodeStr]
  | cons b s ih =>
    cases fuel with
    | zero => simp at hf
    | succ fuel =>
      have hb : b < 256 := hs b (by simp)
      have he : encodeStr (b :: s) = b + 1 + 257 * encodeStr s := rfl
      rw [he]
      generalize encodeStr s = e at *
      have h0 : ¬ (b + 1 + 257 * e = 0) := by omega
      have h1 : (b + 1 + 257 * e) % 257 = b + 1 := by omega
      have h2 : (b + 1 + 257 * e) / 257 = e := by omega
      simp only [decodeStr, h0, ↓reduceIte, h1, h2]
      rw [ih (fun c hc => hs c (by simp [hc])) fuel (by simpa using hf)]
      simp

theorem encodeStr_inj (s t : GoStr) (hs : ∀ b ∈ s, b < 256) (ht : ∀ b ∈ t, b < 256)
    (h : encodeStr s = encodeStr t) : s = t := by
  have h1 := decode_encode s hs (s.length + t.length) (by omega)
  have h2 := decode_encode t ht (s.length + t.length) (by omega)
  rw [h] at h1
  rw [← h1, h2]

theorem length_le_encodeStr (s : GoStr) : s.length ≤ encodeStr s := by
  induction s with
  | nil => simp [encodeStr]
  | cons b s ih => simp only [encodeStr, List.length_cons]; omega

/-- the string an encoded value stands for -/
def decode (x : Int) : GoStr := decodeStr x.toNat x.toNat

theorem decode_encodeStr (s : GoStr) (hs : ∀ b ∈ s, b < 256) : decode (encodeStr s : Nat) = s := by
  unfold decode
  simp only [Int.toNat_natCast]
  exact decode_encode s hs _ (length_le_encodeStr s)

/-! ### where a rule places the value a literal denotes

`Placed fam ct find pv q`: if `getShardingCompareValue` hands the literal `q` to
the rule and the rule answers `i`, then `q` denotes exactly a value `v` of the
column, and rows holding `v` live in table `i` (`pv v = i`). -/

def Placed (fam : Fam) (ct : ColType) (find : Key → Out Int) (pv : Int → Int) (q : SqlLit) : Prop :=
  ∀ key i, compareValue fam q = some key → find key = .ok i →
    ∃ v, (den ct q).rank = some v ∧ (den ct q).sem = .exact ∧ pv v = i

/-- the table an outcome names (`-1`: no table) -/
def outIdx : Out Int → Int
  | .ok i => i
  | _ => -1

/-- rules that read the key through `NumValue` (mod, range, mycat_long): the
    table of a row of an integer column holding `v` (an int64, or a uint64
    the rule reads as the int64 with the same bits) -/
def pvNum (f : Int → Out Int) (v : Int) : Int := outIdx (f (wrap64 v))

theorem strNum_of_mysqlInt (s : GoStr) (n : Int) (h : mysqlInt s = some n) : strNum s = { rank := some n } := by
  simp [strNum, h]

/-- **integer rules, integer column**: every literal the planner hands to the
    rule — an integer literal, or a string `strconv.ParseInt` reads — denotes
    exactly the integer the rule places. -/
theorem num_placed (f : Int → Out Int) (q : SqlLit) (hq : q.wf) : Placed .num .int (viaNum f) (pvNum f) q := by
  intro key i hc hf
  cases q with
  | int v =>
    simp only [compareValue, Option.some.injEq] at hc; subst hc
    simp only [viaNum, NumValue] at hf
    simp only [SqlLit.wf] at hq
    refine ⟨v, rfl, rfl, ?_⟩
    simp only [pvNum]
    rw [wrap64_id v (by omega), hf]; rfl
  | uint v =>
    simp only [compareValue, Option.some.injEq] at hc; subst hc
    simp only [viaNum, NumValue, u64ToI64] at hf
    refine ⟨v, rfl, rfl, ?_⟩
    simp only [pvNum]
    rw [hf]; rfl
  | str s =>
    simp only [compareValue] at hc
    cases hp : parseInt64 s with
    | none => simp [hp] at hc
    | some n =>
      simp only [hp, Option.isNone_some, Bool.false_eq_true, ↓reduceIte, Option.some.injEq] at hc; subst hc
      simp only [viaNum, NumValue, hp] at hf
      have hm := mysqlInt_of_parseInt64 s n hp
      have hrange : -2 ^ 63 ≤ n ∧ n < 2 ^ 63 := by
        unfold parseInt64 at hp
        split at hp
        · split at hp
          · simp at hp; subst hp; assumption
          · simp at hp
        · simp at hp
      refine ⟨n, ?_, ?_, ?_⟩
      · simp only [den]; rw [strNum_of_mysqlInt s n hm]
      · simp only [den]; rw [strNum_of_mysqlInt s n hm]
      · simp only [pvNum]; rw [wrap64_id n hrange, hf]; rfl
  | hex bs => simp [compareValue] at hc
  | bit bs => simp [compareValue] at hc
  | dec d sc => simp [compareValue] at hc
  | float b => simp [compareValue] at hc
  | null => simp [compareValue] at hc

/-- mycat_mod (`big.Int.SetString` of `GetString(key)`): the table of the integer `v` -/
def pvBig (g : Int → Out Int) (v : Int) : Int := outIdx (g v)

/-- the placement function of a rule that reads the key as a big integer -/
def viaBig (g : Int → Out Int) : Key → Out Int :=
  viaStr fun s => match parseBigDec s with
    | some n => g n
    | none => .err .keyPanic

/-- **mycat_mod, integer column** -/
theorem big_placed (g : Int → Out Int) (q : SqlLit) : Placed .big .int (viaBig g) (pvBig g) q := by
  intro key i hc hf
  cases q with
  | int v =>
    simp only [compareValue, Option.some.injEq] at hc; subst hc
    simp only [viaBig, viaStr, GetString, parseBigDec_fmtInt] at hf
    exact ⟨v, rfl, rfl, by simp only [pvBig]; rw [hf]; rfl⟩
  | uint v =>
    simp only [compareValue, Option.some.injEq] at hc; subst hc
    simp only [viaBig, viaStr, GetString, parseBigDec_fmtNat] at hf
    exact ⟨v, rfl, rfl, by simp only [pvBig]; rw [hf]; rfl⟩
  | str s =>
    simp only [compareValue] at hc
    cases hp : parseBigDec s with
    | none => simp [hp] at hc
    | some n =>
      simp only [hp, Option.isNone_some, Bool.false_eq_true, ↓reduceIte, Option.some.injEq] at hc; subst hc
      simp only [viaBig, viaStr, GetString, hp] at hf
      have hm := mysqlInt_of_parseBigDec s n hp
      refine ⟨n, ?_, ?_, ?_⟩
      · simp only [den]; rw [strNum_of_mysqlInt s n hm]
      · simp only [den]; rw [strNum_of_mysqlInt s n hm]
      · simp only [pvBig]; rw [hf]; rfl
  | hex bs => simp [compareValue] at hc
  | bit bs => simp [compareValue] at hc
  | dec d sc => simp [compareValue] at hc
  | float b => simp [compareValue] at hc
  | null => simp [compareValue] at hc

/-- the kingshard `hash` rule: the table of a row of an integer column holding `v` -/
def pvHash (n : Nat) (v : Int) : Int := ((v % 2 ^ 64).toNat % n : Nat)

/-- **hash rule, integer column**: integer literals and strings of digits
    denote exactly the integer the rule hashes.  A string MySQL does not read as
    a number (`looksLikeNumber s = false`) is placed by the CRC32 of its text;
    it is compared with an integer column only with the warning "Truncated
    incorrect DOUBLE value": the hypothesis `hnum` excludes it. -/
theorem ksHash_placed_int (n : Nat) (hn : n ≠ 0) (q : SqlLit) (hq : q.wf)
    (hnum : ∀ s, q = .str s → looksLikeNumber s = true) :
    Placed .hash .int (HashShard.FindForKey n) (pvHash n) q := by
  intro key i hc hf
  cases q with
  | int v =>
    simp only [compareValue, Option.some.injEq] at hc; subst hc
    simp only [HashShard.FindForKey, HashValue, hn, ↓reduceIte, Out.ok.injEq] at hf
    exact ⟨v, rfl, rfl, by simp only [pvHash]; exact hf⟩
  | uint v =>
    simp only [compareValue, Option.some.injEq] at hc; subst hc
    simp only [HashShard.FindForKey, HashValue, hn, ↓reduceIte, Out.ok.injEq] at hf
    simp only [SqlLit.wf] at hq
    refine ⟨v, rfl, rfl, ?_⟩
    simp only [pvHash]
    have : ((v : Int) % 2 ^ 64).toNat = v := by omega
    rw [this]; exact hf
  | str s =>
    simp only [compareValue] at hc
    have hl := hnum s rfl
    cases hp : parseUint64 s with
    | none => simp [hp, hl] at hc
    | some m =>
      simp only [hp, Option.isNone_some, Bool.false_eq_true, Bool.false_and, ↓reduceIte, Option.some.injEq] at hc
      subst hc
      simp only [HashShard.FindForKey, HashValue, hp, hn, ↓reduceIte, Out.ok.injEq] at hf
      obtain ⟨hu, hlt⟩ := parseUint64_some s m hp
      have hm := mysqlInt_of_parseUDec s m hu
      refine ⟨m, ?_, ?_, ?_⟩
      · simp only [den]; rw [strNum_of_mysqlInt s m hm]
      · simp only [den]; rw [strNum_of_mysqlInt s m hm]
      · simp only [pvHash]
        have : ((m : Int) % 2 ^ 64).toNat = m := by omega
        rw [this]; exact hf
  | hex bs => simp [compareValue] at hc
  | bit bs => simp [compareValue] at hc
  | dec d sc => simp [compareValue] at hc
  | float b => simp [compareValue] at hc
  | null => simp [compareValue] at hc

/-- a string column: the table of a row holding the string encoded as `x`, for
    any placement function -/
def pvStrCol (find : Key → Out Int) (x : Int) : Int := outIdx (find (.str (decode x)))

/-- **string column, any rule**: a string literal denotes its bytes, and the
    rule is asked to place exactly those.  Integer literals are compared with a
    string column by converting every *row* to a number (a row `'007'` equals
    7): the hypothesis `hstr` excludes them. -/
theorem strcol_placed (fam : Fam) (find : Key → Out Int) (q : SqlLit) (hq : q.wf)
    (hstr : (∀ v, q ≠ .int v) ∧ (∀ v, q ≠ .uint v)) :
    Placed fam .str find (pvStrCol find) q := by
  intro key i hc hf
  cases q with
  | int v => exact absurd rfl (hstr.1 v)
  | uint v => exact absurd rfl (hstr.2 v)
  | str s =>
    have hk : key = .str s := by
      simp only [compareValue] at hc
      cases fam <;> simp only at hc
      all_goals first
        | (split at hc <;> simp at hc <;> exact hc.symm)
        | (simp at hc; exact hc.symm)
    subst hk
    refine ⟨(encodeStr s : Nat), rfl, rfl, ?_⟩
    simp only [pvStrCol, SqlLit.wf] at hq ⊢
    rw [decode_encodeStr s hq, hf]; rfl
  | hex bs => simp [compareValue] at hc
  | bit bs => simp [compareValue] at hc
  | dec d sc => simp [compareValue] at hc
  | float b => simp [compareValue] at hc
  | null => simp [compareValue] at hc

/-- mycat_string / mycat_murmur (`GetString(key)` is hashed): the table of a row
    of an integer column holding `v` -/
def pvText (f : GoStr → Out Int) (v : Int) : Int := outIdx (f (fmtInt v))

/-- **Rules that hash the text of the key, integer column.**  FULL STATEMENT,
    NOT TRUE: `∀ f q, q.wf → Placed .text .int (viaStr f) (pvText f) q`
    (`mycat_text_numeric_string_witness` in Props/C01.lean: `'007'` is hashed as
    another text than 7; known finding `mycat-numeric-string-routed-as-text`).
    Proved: integer literals, and string literals that are the decimal spelling
    of the integer MySQL reads from them. -/
theorem text_placed_int_partial (f : GoStr → Out Int) (q : SqlLit)
    (hcanon : ∀ s, q = .str s → ∃ n, mysqlInt s = some n ∧ s = fmtInt n) :
    Placed .text .int (viaStr f) (pvText f) q := by
  intro key i hc hf
  cases q with
  | int v =>
    simp only [compareValue, Option.some.injEq] at hc; subst hc
    simp only [viaStr, GetString] at hf
    exact ⟨v, rfl, rfl, by simp only [pvText]; rw [hf]; rfl⟩
  | uint v =>
    simp only [compareValue, Option.some.injEq] at hc; subst hc
    simp only [viaStr, GetString] at hf
    exact ⟨v, rfl, rfl, by simp only [pvText]; rw [fmtInt_natCast, hf]; rfl⟩
  | str s =>
    simp only [compareValue, Option.some.injEq] at hc; subst hc
    obtain ⟨n, hm, hs⟩ := hcanon s rfl
    simp only [viaStr, GetString] at hf
    refine ⟨n, ?_, ?_, ?_⟩
    · simp only [den]; rw [strNum_of_mysqlInt s n hm]
    · simp only [den]; rw [strNum_of_mysqlInt s n hm]
    · simp only [pvText]; rw [← hs, hf]; rfl
  | hex bs => simp [compareValue] at hc
  | bit bs => simp [compareValue] at hc
  | dec d sc => simp [compareValue] at hc
  | float b => simp [compareValue] at hc
  | null => simp [compareValue] at hc

/-- the kinds the planner never routes by, whatever the rule -/
theorem wide_kinds (fam : Fam) (q : SqlLit)
    (h : (∃ b, q = .hex b) ∨ (∃ b, q = .bit b) ∨ (∃ d s, q = .dec d s) ∨ (∃ b, q = .float b) ∨ q = .null) :
    isWide fam q = true := by
  rcases h with ⟨b, rfl⟩ | ⟨b, rfl⟩ | ⟨d, s, rfl⟩ | ⟨b, rfl⟩ | rfl <;> rfl

/-- strings the `hash` rule does not read as MySQL does are not routed by -/
theorem wide_hash_numeric_text (s : GoStr) (h1 : parseUint64 s = none) (h2 : looksLikeNumber s = true) :
    isWide .hash (.str s) = true := by
  simp [isWide, compareValue, h1, h2]

/-- strings an integer rule does not read are not routed by -/
theorem wide_num_unread (s : GoStr) (h : parseInt64 s = none) : isWide .num (.str s) = true := by
  simp [isWide, compareValue, h]

theorem wide_big_unread (s : GoStr) (h : parseBigDec s = none) : isWide .big (.str s) = true := by
  simp [isWide, compareValue, h]

end GaeaVerif.RouteLit
