import GaeaVerif.Model.ShardPlace
import GaeaVerif.Spec.Mycat
/-
  The murmur3-32 arithmetic of util/murmur.go (int64 products truncated to
  int32, rotation spelled as two shifts) equals Guava's 32-bit arithmetic.
-/
namespace GaeaVerif.ShardLemmas
open GaeaVerif.ShardGo GaeaVerif.ShardPlace

theorem trunc_mul (k : BitVec 32) (c : BitVec 64) :
    ((k.signExtend 64) * c).setWidth 32 = k * c.setWidth 32 := by
  rw [BitVec.setWidth_mul _ _ (by decide)]
  congr 1
  apply BitVec.eq_of_getLsbD_eq
  intro i hi
  simp [BitVec.getLsbD_signExtend, hi]
  omega

theorem rotl_eq (x : BitVec 32) (d : Nat) (hd : d < 32) : ShardPlace.rotateLeft x d = x.rotateLeft d := by
  unfold ShardPlace.rotateLeft
  rw [BitVec.rotateLeft_def]
  simp [Nat.mod_eq_of_lt hd]

theorem mixK1_eq (k : BitVec 32) : ShardPlace.mixK1 k = MycatSpec.mixK1 k := by
  unfold ShardPlace.mixK1 MycatSpec.mixK1
  simp only [trunc_mul, rotl_eq _ 15 (by decide)]
  rfl

theorem mixH1_eq (h k : BitVec 32) : ShardPlace.mixH1 h k = MycatSpec.mixH1 h k := by
  unfold ShardPlace.mixH1 MycatSpec.mixH1
  simp only [rotl_eq _ 13 (by decide)]
  rw [BitVec.setWidth_add _ _ (by decide), trunc_mul]
  rfl

theorem fmix_eq (h l : BitVec 32) : ShardPlace.fmix h l = MycatSpec.fmix h l := rfl

theorem murmurBody_eq : ∀ (l : List Nat) (h : BitVec 32), murmurBody l h = MycatSpec.hashChars l h
  | [], _ => by unfold murmurBody MycatSpec.hashChars; rfl
  | [u0], h => by
    unfold murmurBody MycatSpec.hashChars
    rw [mixK1_eq]
  | u0 :: u1 :: rest, h => by
    unfold murmurBody MycatSpec.hashChars
    rw [mixK1_eq, mixH1_eq]
    exact murmurBody_eq rest _

theorem HashUnencodedChars_eq (seed : Int) (s : GoStr) :
    HashUnencodedChars seed s = MycatSpec.hashUnencodedChars (BitVec.ofInt 32 seed) (utf16Units s) := by
  unfold HashUnencodedChars MycatSpec.hashUnencodedChars
  dsimp only
  rw [murmurBody_eq, fmix_eq]
end GaeaVerif.ShardLemmas
