import GaeaVerif.Lemmas.LexC17Progress
/-
  Helper lemmas for C17: `scan` never runs out of fuel and every token it
  returns strictly decreases a measure of the scanner stack, so the loop of
  `SplitStatementToPieces` ends.
-/
namespace GaeaVerif.LexC17
open GaeaVerif

/-- Measure that decreases with every `;` / other token. -/
def mu1 (f : Frame) : Nat := 2 * f.rest.length + 1 + (if f.hint && !f.ended then 1 else 0)
def mu (fs : List Frame) : Nat := (fs.map mu1).sum

/-- Measure that decreases with every recursive call of `scan` (`scanFuel fs = nu fs + 1`). -/
def nu (fs : List Frame) : Nat := (fs.map (fun f => f.rest.length + 2)).sum

theorem scanFuel_eq (fs : List Frame) : scanFuel fs = nu fs + 1 := rfl

/-- What a scanner does when it reports token 0. -/
def endOf (fuel : Nat) (f : Frame) (ps : List Frame) (o : Nat) (f' : Frame) : ScanOut :=
  match ps with
  | [] => ⟨.eof, o, [f']⟩
  | p :: ps' =>
    if f.hint && !f.ended then ⟨.other, o, { f' with ended := true } :: p :: ps'⟩
    else scan fuel (p :: ps')

theorem scan_cons (fuel : Nat) (f : Frame) (ps : List Frame) :
    scan (fuel + 1) (f :: ps) =
      (let up := sumBases (f :: ps)
       let ws := incAsLongAs isSpace f.rest
       let rest := f.rest.drop ws
       let off := f.off + ws
       let adv (n : Nat) : Frame := { f with rest := rest.drop n, off := off + n }
       match rest with
       | [] => endOf fuel f ps (off + up) (adv 0)
       | _ :: _ =>
         match plainStep rest with
         | .tok .eof n => endOf fuel f ps (off + up) (adv n)
         | .tok t n => ⟨t, off + up, adv n :: ps⟩
         | .skip n => scan fuel (adv n :: ps)
         | .unclosed => endOf fuel f ps (off + up) { f with rest := [], off := off + rest.length, errs := true }
         | .special true n inner begin =>
           ⟨.other, off + up,
             { rest := inner, off := 0, base := off + begin, hint := true, ended := false, errs := false } :: adv n :: ps⟩
         | .special false n inner begin =>
           scan fuel ({ rest := inner, off := 0, base := off + begin, hint := false, ended := false, errs := false } :: adv n :: ps)
         | .panic => ⟨.panic, 0, []⟩) := by
  simp only [scan, endOf]
  generalize List.drop (incAsLongAs isSpace f.rest) f.rest = r'
  cases r' with
  | nil => cases ps <;> rfl
  | cons b t =>
    simp only
    cases plainStep (b :: t) with
    | tok t n => cases t <;> cases ps <;> rfl
    | skip n => rfl
    | unclosed => cases ps <;> rfl
    | special hint n inner begin => cases hint <;> rfl
    | panic => rfl

/-- The claim about one call of `scan`. -/
def ScanGood (fs : List Frame) (o : ScanOut) : Prop :=
  o.tok ≠ .stuck ∧ (o.tok = .semi ∨ o.tok = .other → mu o.frames < mu fs)

theorem mu_cons (f : Frame) (ps : List Frame) : mu (f :: ps) = mu1 f + mu ps := by simp [mu]
theorem nu_cons (f : Frame) (ps : List Frame) : nu (f :: ps) = f.rest.length + 2 + nu ps := by simp [nu]

theorem scanGood_mono (fs fs' : List Frame) (o : ScanOut) (h : ScanGood fs' o) (hmu : mu fs' ≤ mu fs) : ScanGood fs o :=
  ⟨h.1, fun ht => Nat.lt_of_lt_of_le (h.2 ht) hmu⟩

theorem endOf_good (fuel : Nat) (f : Frame) (ps : List Frame) (o : Nat) (f' : Frame)
    (ih : ∀ fs, nu fs < fuel → ScanGood fs (scan fuel fs)) (hnu : nu (f :: ps) < fuel + 1)
    (hlen : f'.rest.length ≤ f.rest.length) (hh : f'.hint = f.hint) :
    ScanGood (f :: ps) (endOf fuel f ps o f') := by
  unfold endOf
  cases ps with
  | nil => exact ⟨by simp, by simp⟩
  | cons p ps' =>
    simp only
    split
    · rename_i hc
      refine ⟨by simp, fun _ => ?_⟩
      simp only [mu_cons, mu1, hh]
      simp only [Bool.and_eq_true, Bool.not_eq_true'] at hc
      simp only [hc.1, hc.2, Bool.not_true, Bool.and_false, Bool.not_false, Bool.and_true, Bool.false_eq_true, if_false, if_true]
      omega
    · have h1 := ih (p :: ps') (by rw [nu_cons] at hnu; omega)
      refine ⟨h1.1, fun ht => ?_⟩
      have := h1.2 ht
      rw [mu_cons f]; omega

/-- The token classes a dispatch can return. -/
theorem classOfRune_cases (r : Nat) : classOfRune r = .eof ∨ classOfRune r = .semi ∨ classOfRune r = .other := by
  unfold classOfRune; repeat' split
  all_goals simp

theorem startWithAt_class (rest : Bytes) :
    (startWithAt rest).1 = .eof ∨ (startWithAt rest).1 = .semi ∨ (startWithAt rest).1 = .other := by
  unfold startWithAt
  simp only []
  split
  · simp only [scanIdentifierOrString]
    repeat' split
    all_goals first | (right; right; rfl) | exact classOfRune_cases _
  · right; right; rfl

def TokOK : Step → Prop
  | .tok t _ => t = .eof ∨ t = .semi ∨ t = .other
  | _ => True

theorem tokOK_ite (c : Prop) [Decidable c] (a b : Step) (ha : TokOK a) (hb : TokOK b) : TokOK (if c then a else b) := by
  split <;> assumption

theorem startWithDash_tok (rest : Bytes) : TokOK (startWithDash rest) := by
  unfold startWithDash; repeat' split
  all_goals simp [TokOK]

theorem startWithSlash_tok (rest : Bytes) : TokOK (startWithSlash rest) := by
  unfold startWithSlash
  cases rest with
  | nil => simp [TokOK]
  | cons b t =>
    cases t with
    | nil => simp [TokOK]
    | cons a t' =>
      simp only
      split
      · cases commentLoop t'.length false t' with
        | none => simp [TokOK]
        | some k =>
          simp only
          cases t' with
          | nil => simp [TokOK]
          | cons x t'' =>
            simp only
            split
            · cases sqlOffsetInComment (List.take (2 + k) (b :: a :: x :: t'')) <;> simp [TokOK]
            · split
              · cases sqlOffsetInComment (List.take (2 + k) (b :: a :: x :: t'')) <;> simp [TokOK]
              · simp [TokOK]
      · simp [TokOK]

theorem plainStep_tok (rest : Bytes) : TokOK (plainStep rest) := by
  unfold plainStep
  cases rest with
  | nil => simp [TokOK]
  | cons b t =>
    dsimp only
    repeat' (refine tokOK_ite _ _ _ ?_ ?_)
    all_goals first
      | exact startWithDash_tok _
      | exact startWithSlash_tok _
      | exact startWithAt_class _
      | (simp only [TokOK]; split <;> simp)
      | simp [TokOK]

theorem scan_good : ∀ (fuel : Nat) (fs : List Frame), nu fs < fuel → ScanGood fs (scan fuel fs) := by
  intro fuel
  induction fuel with
  | zero => intro fs h; omega
  | succ fuel ih =>
    intro fs hnu
    cases fs with
    | nil => exact ⟨by simp [scan], by simp [scan]⟩
    | cons f ps =>
      rw [scan_cons]
      simp only
      have hdl : (f.rest.drop (incAsLongAs isSpace f.rest)).length ≤ f.rest.length := by
        simp only [List.length_drop]; omega
      cases hrest : f.rest.drop (incAsLongAs isSpace f.rest) with
      | nil =>
        simp only
        exact endOf_good fuel f ps _ _ ih hnu (by simp) rfl
      | cons b t =>
        simp only
        rw [hrest] at hdl
        have hstep := plainStep_progress (b :: t) (by simp)
        have htok := plainStep_tok (b :: t)
        cases hp : plainStep (b :: t) with
        | tok tk n =>
          rw [hp] at hstep htok
          simp only [StepOK] at hstep
          simp only [TokOK] at htok
          have hadv : ((b :: t).drop n).length + 1 ≤ f.rest.length := by
            simp only [List.length_drop, List.length_cons] at hdl ⊢; omega
          cases tk with
          | eof => simp only; exact endOf_good fuel f ps _ _ ih hnu (by simp only; omega) rfl
          | semi =>
            simp only
            refine ⟨by simp, fun _ => ?_⟩
            simp only [mu_cons, mu1]; omega
          | other =>
            simp only
            refine ⟨by simp, fun _ => ?_⟩
            simp only [mu_cons, mu1]; omega
          | panic => simp at htok
          | stuck => simp at htok
        | skip n =>
          rw [hp] at hstep
          simp only [StepOK] at hstep
          simp only
          have hadv : ((b :: t).drop n).length + 1 ≤ f.rest.length := by
            simp only [List.length_drop, List.length_cons] at hdl ⊢; omega
          exact scanGood_mono _ _ _ (ih _ (by rw [nu_cons] at hnu ⊢; simp only; omega))
            (by simp only [mu_cons, mu1]; omega)
        | unclosed =>
          simp only
          exact endOf_good fuel f ps _ _ ih hnu (by simp) rfl
        | special hint n inner begin =>
          rw [hp] at hstep
          simp only [StepOK] at hstep
          have hadv : ((b :: t).drop n).length + n ≤ f.rest.length := by
            simp only [List.length_drop, List.length_cons] at hdl hstep ⊢; omega
          cases hint with
          | true =>
            simp only
            refine ⟨by simp, fun _ => ?_⟩
            simp only [mu_cons, mu1, Bool.not_false, Bool.and_true, if_true]; omega
          | false =>
            simp only
            exact scanGood_mono _ _ _ (ih _ (by rw [nu_cons] at hnu; simp only [nu_cons]; omega))
              (by simp only [mu_cons, mu1, Bool.false_and, Bool.false_eq_true, if_false]; omega)
        | panic => simp only; exact ⟨by simp, by simp⟩

end GaeaVerif.LexC17
