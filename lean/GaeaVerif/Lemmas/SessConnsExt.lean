import GaeaVerif.Lemmas.SessConnsInv
/-
  Helper lemmas for C18 / C23: the ledger only grows.  Whatever the session
  does, a connection of the ledger stays in it with the same slice and role,
  its return count never decreases and it never re-opens (`Ext`).
-/
namespace GaeaVerif.SessionConns

/-- `w'` extends `w` -/
def Ext (w w' : World) : Prop :=
  ∀ (c : Nat) (cn : Conn), w.conns[c]? = some cn →
    ∃ cn' : Conn, w'.conns[c]? = some cn' ∧ cn'.slice = cn.slice ∧ cn'.master = cn.master ∧
      cn.returns ≤ cn'.returns ∧ (cn.closed = true → cn'.closed = true)

theorem Ext.refl (w : World) : Ext w w := fun _ cn h => ⟨cn, h, rfl, rfl, Nat.le_refl _, id⟩

theorem Ext.trans {a b c : World} (h1 : Ext a b) (h2 : Ext b c) : Ext a c := by
  intro i cn hcn
  obtain ⟨cn1, h1a, h1b, h1c, h1d, h1e⟩ := h1 i cn hcn
  obtain ⟨cn2, h2a, h2b, h2c, h2d, h2e⟩ := h2 i cn1 h1a
  exact ⟨cn2, h2a, h2b.trans h1b, h2c.trans h1c, Nat.le_trans h1d h2d, fun h => h2e (h1e h)⟩

theorem ext_of_conns {w w' : World} (h : w'.conns = w.conns) : Ext w w' := by
  intro c cn hcn; exact ⟨cn, by rw [h]; exact hcn, rfl, rfl, Nat.le_refl _, id⟩

theorem ext_emit (e : Event) (w : World) : Ext w (w.emit e) := ext_of_conns rfl

theorem ext_set {w : World} {c : Nat} {cn cn' : Conn} (hcn : w.conns[c]? = some cn)
    (hs : cn'.slice = cn.slice) (hm : cn'.master = cn.master) (hr : cn.returns ≤ cn'.returns)
    (hc : cn.closed = true → cn'.closed = true) :
    Ext w { w with conns := w.conns.set c cn' } := by
  intro d dn hdn
  have hlt : c < w.conns.length := (List.getElem?_eq_some_iff.1 hcn).1
  simp only [List.getElem?_set]
  by_cases e : c = d
  · subst e; rw [hcn] at hdn; cases hdn
    exact ⟨cn', by simp [hlt], hs, hm, hr, hc⟩
  · exact ⟨dn, by simp [e, hdn], rfl, rfl, Nat.le_refl _, id⟩

theorem ext_poolGet (ctx : Ctx) (m : Bool) (sl : Nat) (w : World) : Ext w (poolGet ctx m sl w).1 := by
  by_cases hf : fault ctx (if m then .gm else .gs) sl = some .e
  · simp only [poolGet, hf, if_true]; exact ext_emit _ _
  · simp only [poolGet, hf, if_false]
    refine Ext.trans ?_ (ext_emit _ _)
    intro c cn hcn
    have hlt : c < w.conns.length := (List.getElem?_eq_some_iff.1 hcn).1
    exact ⟨cn, by simp only [getElem?_snoc, if_pos hlt]; exact hcn, rfl, rfl, Nat.le_refl _, id⟩

theorem ext_call (ctx : Ctx) (k : CK) (c : Nat) (w : World) : Ext w (call ctx k c w).1 := by
  unfold call
  split
  · exact Ext.refl _
  · rename_i cn hcn
    exact Ext.trans (ext_set hcn (by simp [Conn.afterCall]) (by simp [Conn.afterCall])
      (by simp [Conn.afterCall]) (by simp only [Conn.afterCall]; intro h; simp [h])) (ext_emit _ _)

theorem ext_close (c : Nat) (w : World) : Ext w (close c w) := by
  unfold close
  split
  · exact Ext.refl _
  · rename_i cn hcn
    exact Ext.trans (ext_set hcn (by simp [Conn.afterClose]) (by simp [Conn.afterClose])
      (by simp [Conn.afterClose]) (by simp [Conn.afterClose])) (ext_emit _ _)

theorem ext_recycle (c : Nat) (w : World) : Ext w (recycle c w) := by
  unfold recycle
  split
  · exact Ext.refl _
  · rename_i cn hcn
    exact Ext.trans (ext_set hcn (by simp [Conn.afterRecycle]) (by simp [Conn.afterRecycle])
      (by simp [Conn.afterRecycle]) (by simp [Conn.afterRecycle]; intro h; simp [h])) (ext_emit _ _)

theorem ext_sliceGetConn (ctx : Ctx) (fs : Bool) (sl : Nat) (w : World) : Ext w (sliceGetConn ctx fs sl w).1 := by
  unfold sliceGetConn
  split
  · exact ext_poolGet _ _ _ _
  · split
    · have h1 := ext_poolGet ctx false sl w
      generalize poolGet ctx false sl w = p at h1
      obtain ⟨w1, r⟩ := p
      cases r with
      | some c => exact h1
      | none => exact h1.trans (ext_poolGet _ _ _ _)
    · exact ext_poolGet _ _ _ _

theorem ext_closeRecycle (c : Nat) (w : World) : Ext w (closeRecycle c w) :=
  (ext_close c w).trans (ext_recycle c _)

theorem ext_foldl (body : Nat → World → World) (hb : ∀ c w, Ext w (body c w)) :
    ∀ (cs : List Nat) (w : World), Ext w (cs.foldl (fun w c => body c w) w) := by
  intro cs
  induction cs with
  | nil => intro w; exact Ext.refl _
  | cons c cs ih => intro w; simp only [List.foldl_cons]; exact (hb c w).trans (ih _)

theorem ext_eachConn (body : Nat → World → World × Option Bool) (merge : Bool → Bool → Bool)
    (hb : ∀ c w, Ext w (body c w).1) :
    ∀ (cs : List Nat) (w : World) (b : Bool), Ext w (eachConn body merge cs (w, b)).1 := by
  intro cs
  induction cs with
  | nil => intro w b; exact Ext.refl _
  | cons c cs ih =>
    intro w b
    simp only [eachConn]
    have h1 := hb c w
    split
    · rename_i w1 r heq; rw [heq] at h1; exact h1.trans (ih _ _)
    · rename_i w1 heq; rw [heq] at h1; exact h1.trans (ih _ _)

section bodies
variable (ctx : Ctx) (c : Nat) (w : World)

theorem ext_commitTx : Ext w (commitTx ctx c w).1 := by
  unfold commitTx
  have h := ext_call ctx .C c w
  generalize call ctx .C c w = p at h
  exact h.trans (ext_recycle _ _)
theorem ext_commitKs : Ext w (commitKs ctx c w).1 := by
  unfold commitKs
  have h := ext_call ctx .C c w
  generalize call ctx .C c w = p at h
  exact h
theorem ext_rollbackTx : Ext w (rollbackTx ctx c w).1 := by
  unfold rollbackTx
  split
  · exact ext_recycle _ _
  · have h := ext_call ctx .R c w
    generalize call ctx .R c w = p at h
    exact h.trans (ext_recycle _ _)
theorem ext_rollbackKs : Ext w (rollbackKs ctx c w).1 := by
  unfold rollbackKs
  split
  · exact Ext.refl _
  · have h := ext_call ctx .R c w
    generalize call ctx .R c w = p at h
    exact h
theorem ext_savepointOn : Ext w (savepointOn ctx c w).1 := by
  unfold savepointOn
  have h := ext_call ctx .S c w
  generalize call ctx .S c w = p at h
  exact h
theorem ext_autocommitOnTx : Ext w (autocommitOnTx ctx c w).1 := by
  unfold autocommitOnTx
  have h := ext_call ctx .A1 c w
  generalize call ctx .A1 c w = p at h
  exact h.trans (ext_recycle _ _)
theorem ext_autocommitOnKs : Ext w (autocommitOnKs ctx c w).1 := by
  unfold autocommitOnKs
  have h := ext_call ctx .A1 c w
  generalize call ctx .A1 c w = p at h
  exact h
theorem ext_autocommitOffKs : Ext w (autocommitOffKs ctx c w).1 := by
  unfold autocommitOffKs
  have h := ext_call ctx .A0 c w
  generalize call ctx .A0 c w = p at h
  exact h
theorem ext_pingDrop (b : Bool) : Ext w (pingDrop b c w) := by
  unfold pingDrop
  split
  · exact (ext_close _ _).trans (ext_recycle _ _)
  · exact ext_recycle _ _
theorem ext_executeSingle : Ext w (executeSingleSQLInSlice ctx c w).1 := by
  unfold executeSingleSQLInSlice
  have h := ext_call ctx .U c w
  generalize call ctx .U c w = p at h
  obtain ⟨w1, r⟩ := p
  simp only
  split
  · exact h
  · exact h.trans (ext_call _ _ _ _)
theorem ext_executeUnshard : Ext w (executeUnshardSQLInSlice ctx c w).1 := by
  unfold executeUnshardSQLInSlice
  have h := ext_executeSingle ctx c w
  generalize executeSingleSQLInSlice ctx c w = p at h
  obtain ⟨w1, r⟩ := p
  simp only
  split
  · exact h.trans (ext_close _ _)
  · exact h
theorem ext_executeMultiple (rs : Bool) : Ext w (executeMultipleSQLInSlice ctx rs c w).1 := by
  unfold executeMultipleSQLInSlice executeCompleteSQLInSlice
  have h := ext_executeSingle ctx c w
  generalize executeSingleSQLInSlice ctx c w = p at h
  obtain ⟨w1, r⟩ := p
  simp only
  split
  · have h2 := h.trans (ext_call ctx .M c w1)
    generalize call ctx .M c w1 = pM at h2
    obtain ⟨w2, r2⟩ := pM
    simp only
    have hne : (if r2.isOk = true then Res.ok else Res.e) ≠ Res.t := by split <;> simp
    rw [if_neg hne]; exact h2
  · simp only
    split
    · exact h.trans (ext_close _ _)
    · exact h
end bodies

theorem ext_beginAll (ctx : Ctx) : ∀ (cs : List Nat) (w : World), Ext w (beginAll ctx cs w).1 := by
  intro cs
  induction cs with
  | nil => intro w; exact Ext.refl _
  | cons c cs ih =>
    intro w
    simp only [beginAll]
    have h := ext_call ctx .B c w
    generalize call ctx .B c w = p at h
    obtain ⟨w1, r⟩ := p
    simp only
    split
    · exact h.trans (ih _)
    · exact h

theorem ext_pingAll (ctx : Ctx) : ∀ (cs : List Nat) (w : World), Ext w (pingAll ctx cs w).1 := by
  intro cs
  induction cs with
  | nil => intro w; exact Ext.refl _
  | cons c cs ih =>
    intro w
    simp only [pingAll]
    have h := ext_call ctx .P c w
    generalize call ctx .P c w = p at h
    obtain ⟨w1, r⟩ := p
    simp only
    split
    · exact h.trans (ih _)
    · exact h.trans (ext_close _ _)

theorem ext_execShard (ctx : Ctx) (rs : Bool) : ∀ (cs : List Nat) (w : World), Ext w (execShard ctx rs cs w).1 := by
  intro cs
  induction cs with
  | nil => intro w; exact Ext.refl _
  | cons c cs ih =>
    intro w
    simp only [execShard]
    have h := ext_executeMultiple ctx c w rs
    generalize executeMultipleSQLInSlice ctx rs c w = p at h
    obtain ⟨w1, r⟩ := p
    have h2 := ih w1
    generalize execShard ctx rs cs w1 = p2 at h2
    obtain ⟨w2, ok⟩ := p2
    exact h.trans h2

/-! ## Session functions -/

variable {ctx : Ctx} {s : St}

theorem ext_clearKsConns : Ext s.w (clearKsConns ctx s).w := by
  unfold clearKsConns
  split
  · exact ext_foldl closeRecycle ext_closeRecycle _ _
  · exact Ext.refl _

theorem ext_undo (c : Nat) (w : World) : Ext w (recycle c (close c w)) := (ext_close c w).trans (ext_recycle c _)

theorem ext_savepoints (ctx : Ctx) (c : Nat) : ∀ (sps : List Nat) (w : World),
    Ext w (sps.foldl (fun w _ => (call ctx .S c w).1) w) := by
  intro sps
  induction sps with
  | nil => intro w; exact Ext.refl _
  | cons x xs ih => intro w; simp only [List.foldl_cons]; exact (ext_call _ _ _ _).trans (ih _)

theorem ext_getTransactionConn (sl : Nat) : Ext s.w (getTransactionConn ctx sl s).1.w := by
  unfold getTransactionConn
  split
  · exact Ext.refl _
  · have hp := ext_poolGet ctx true sl s.w
    generalize poolGet ctx true sl s.w = p at hp
    obtain ⟨w1, r⟩ := p
    cases r with
    | none => exact hp
    | some c =>
      simp only
      have hY := ext_call ctx .Y c w1
      generalize call ctx .Y c w1 = pY at hY
      obtain ⟨wY, rY⟩ := pY
      simp only
      split
      · exact hp.trans (hY.trans (ext_undo _ _))
      · have hB : Ext wY (if s.autocommit then call ctx .B c wY else call ctx .A0 c wY).1 := by
          split <;> exact ext_call _ _ _ _
        generalize (if s.autocommit then call ctx .B c wY else call ctx .A0 c wY) = pB at hB
        obtain ⟨wB, rB⟩ := pB
        simp only
        split
        · exact hp.trans (hY.trans (hB.trans (ext_undo _ _)))
        · exact hp.trans (hY.trans (hB.trans (ext_savepoints _ _ _ _)))

theorem ext_getBackendKsConn (sl : Nat) : Ext s.w (getBackendKsConn ctx sl s).1.w := by
  unfold getBackendKsConn
  split
  · exact Ext.refl _
  · have hp := ext_sliceGetConn ctx false sl s.w
    generalize sliceGetConn ctx false sl s.w = p at hp
    obtain ⟨w1, r⟩ := p
    cases r with
    | none => exact hp
    | some c =>
      simp only
      have hA : Ext w1 (if !s.autocommit then call ctx .A0 c w1 else (w1, Res.ok)).1 := by
        split
        · exact ext_call _ _ _ _
        · exact Ext.refl _
      generalize (if !s.autocommit then call ctx .A0 c w1 else (w1, Res.ok)) = pA at hA
      obtain ⟨wA, rA⟩ := pA
      simp only
      split
      · exact hp.trans (hA.trans (ext_undo _ _))
      · have hB : Ext wA (if s.isInTransaction then call ctx .B c wA else (wA, Res.ok)).1 := by
          split
          · exact ext_call _ _ _ _
          · exact Ext.refl _
        generalize (if s.isInTransaction then call ctx .B c wA else (wA, Res.ok)) = pB at hB
        obtain ⟨wB, rB⟩ := pB
        simp only
        split
        · exact hp.trans (hA.trans (hB.trans (ext_undo _ _)))
        · exact hp.trans (hA.trans hB)

theorem ext_getBackendConn (fs : Bool) (sl : Nat) : Ext s.w (getBackendConn ctx fs sl s).1.w := by
  unfold getBackendConn
  split
  · exact ext_getBackendKsConn sl
  · unfold getBackendNoKsConn
    split
    · have hp := ext_sliceGetConn ctx fs sl s.w
      generalize sliceGetConn ctx fs sl s.w = p at hp
      obtain ⟨w1, r⟩ := p
      cases r <;> exact hp
    · exact ext_getTransactionConn sl

theorem ext_recycleRest (c : Nat) :
    Ext s.w (if ctx.cfg.ks then clearKsConns ctx s else if s.isInTransaction then s else { s with w := recycle c s.w }).w := by
  split
  · exact ext_clearKsConns
  · split
    · exact Ext.refl _
    · exact ext_recycle _ _

theorem ext_recycleBackendConn (pc : Option Nat) : Ext s.w (recycleBackendConn ctx pc s).w := by
  unfold recycleBackendConn
  split
  · exact Ext.refl _
  · dsimp only
    split
    · split
      · exact Ext.refl _
      · exact ext_recycle _ _
    · split
      · exact Ext.refl _
      · exact ext_recycleRest _

theorem ext_recycleContinueConn (pc : Option Nat) : Ext s.w (recycleContinueConn ctx pc s).w := by
  unfold recycleContinueConn
  split
  · exact Ext.refl _
  · dsimp only
    split
    · split
      · exact Ext.refl _
      · exact ext_recycle _ _
    · exact ext_recycleRest _

theorem ext_executeSQL (fs : Bool) (sl : Nat) : Ext s.w (executeSQL ctx fs sl s).1.w := by
  unfold executeSQL
  have hg := ext_getBackendConn (ctx := ctx) (s := s) fs sl
  generalize getBackendConn ctx fs sl s = g at hg
  obtain ⟨s1, pc, err⟩ := g
  simp only at hg ⊢
  split
  · exact hg.trans (ext_recycleBackendConn _)
  · cases pc with
    | none => exact hg
    | some c =>
      simp only
      split
      · exact hg.trans (ext_recycleBackendConn _)
      · have hx := ext_executeUnshard ctx c s1.w
        generalize executeUnshardSQLInSlice ctx c s1.w = x at hx
        obtain ⟨w2, r⟩ := x
        simp only
        split
        · exact hg.trans (hx.trans (ext_recycleBackendConn (s := { s1 with w := w2 }) _))
        · split
          · exact hg.trans (hx.trans (ext_recycleBackendConn (s := { s1 with w := w2, continueConn := some c }) _))
          · exact hg.trans (hx.trans (ext_recycleBackendConn (s := { s1 with w := w2 }) _))

theorem ext_getBackendConns (fs : Bool) : ∀ (sls : List Nat) (s : St) (pcs : CMap),
    Ext s.w (getBackendConns ctx fs sls s pcs).1.w := by
  intro sls
  induction sls with
  | nil => intro s pcs; exact Ext.refl _
  | cons sl rest ih =>
    intro s pcs
    simp only [getBackendConns]
    have hg := ext_getBackendConn (ctx := ctx) (s := s) fs sl
    generalize getBackendConn ctx fs sl s = g at hg
    obtain ⟨s1, pc, err⟩ := g
    cases err with
    | true => exact hg
    | false =>
      cases pc with
      | none => exact hg
      | some c =>
        simp only
        split
        · exact hg
        · exact hg.trans (ih _ _)

theorem ext_recycleBackendConns (pcs : CMap) : Ext s.w (recycleBackendConns ctx pcs s).w := by
  unfold recycleBackendConns
  split
  · exact Ext.refl _
  · exact ext_foldl recycle ext_recycle _ _

theorem ext_executeSQLs (fs rs : Bool) (slices : List Nat) : Ext s.w (executeSQLs ctx fs rs slices s).1.w := by
  unfold executeSQLs
  split
  · exact Ext.refl _
  · dsimp only
    generalize (iterOrder ctx.ord ((dedup slices).map fun k => (k, 0))).map (·.1) = keys
    have hg := ext_getBackendConns (ctx := ctx) fs keys s []
    generalize getBackendConns ctx fs keys s [] = g at hg
    obtain ⟨s1, pcs, got⟩ := g
    cases got with
    | panic => exact hg
    | err => exact hg.trans (ext_recycleBackendConns _)
    | ok =>
      simp only
      have hx := ext_execShard ctx rs (bySlice pcs).vals s1.w
      generalize execShard ctx rs (bySlice pcs).vals s1.w = x at hx
      obtain ⟨w2, ok⟩ := x
      exact hg.trans (hx.trans (ext_recycleBackendConns (s := { s1 with w := w2 }) _))

theorem ext_handleBegin : Ext s.w (handleBegin ctx s).1.w := by
  unfold handleBegin
  have h1 := ext_beginAll ctx (iterOrder ctx.ord s.txConns).vals s.w
  generalize beginAll ctx (iterOrder ctx.ord s.txConns).vals s.w = p at h1
  obtain ⟨w1, ok1⟩ := p
  simp only
  split
  · exact h1
  · have h2 := ext_beginAll ctx (iterOrder ctx.ord s.ksConns).vals w1
    generalize beginAll ctx (iterOrder ctx.ord s.ksConns).vals w1 = p2 at h2
    obtain ⟨w2, ok2⟩ := p2
    simp only
    split <;> exact h1.trans h2

theorem ext_two {b1 b2 : Nat → World → World × Option Bool} {m1 m2 : Bool → Bool → Bool}
    (h1 : ∀ c w, Ext w (b1 c w).1) (h2 : ∀ c w, Ext w (b2 c w).1) (cs1 cs2 : List Nat) (w : World) (b : Bool) :
    Ext w (eachConn b2 m2 cs2 (eachConn b1 m1 cs1 (w, b))).1 := by
  have e1 := ext_eachConn b1 m1 h1 cs1 w b
  generalize eachConn b1 m1 cs1 (w, b) = p at e1
  obtain ⟨w1, b1'⟩ := p
  exact e1.trans (ext_eachConn b2 m2 h2 cs2 w1 b1')

theorem ext_commit : Ext s.w (commit ctx s).1.w :=
  ext_two (fun c w => ext_commitTx ctx c w) (fun c w => ext_commitKs ctx c w) _ _ _ _

theorem ext_rollback : Ext s.w (rollback ctx s).1.w :=
  ext_two (fun c w => ext_rollbackTx ctx c w) (fun c w => ext_rollbackKs ctx c w) _ _ _ _

theorem ext_rollbackSavepoint (n : Nat) : Ext s.w (rollbackSavepoint ctx n s).1.w := by
  unfold rollbackSavepoint savepointAll
  have h := ext_two (m1 := mergeLast) (m2 := mergeLast) (fun c w => ext_savepointOn ctx c w) (fun c w => ext_savepointOn ctx c w)
    (iterOrder ctx.ord s.txConns).vals (iterOrder ctx.ord s.ksConns).vals s.w true
  dsimp only
  split <;> exact h

theorem ext_handleSavepoint (r : Bool) (n : Nat) : Ext s.w (handleSavepoint ctx r n s).1.w := by
  unfold handleSavepoint savepointAll
  have h := ext_eachConn (savepointOn ctx) mergeLast (fun c w => ext_savepointOn ctx c w)
    (iterOrder ctx.ord s.txConns).vals s.w true
  generalize eachConn (savepointOn ctx) mergeLast (iterOrder ctx.ord s.txConns).vals (s.w, true) = p at h
  obtain ⟨w1, ok⟩ := p
  simp only
  split
  · split
    · split <;> exact h
    · exact h
  · exact h

theorem ext_handleSetAutoCommit (v : Bool) : Ext s.w (handleSetAutoCommit ctx v s).1.w := by
  unfold handleSetAutoCommit
  split
  · exact ext_two (fun c w => ext_autocommitOnTx ctx c w) (fun c w => ext_autocommitOnKs ctx c w) _ _ _ _
  · exact ext_eachConn _ _ (fun c w => ext_autocommitOffKs ctx c w) _ _ _

theorem ext_handleKeepSessionPing : Ext s.w (handleKeepSessionPing ctx s).1.w := by
  unfold handleKeepSessionPing
  have h1 := ext_pingAll ctx (iterOrder ctx.ord s.ksConns).vals s.w
  generalize pingAll ctx (iterOrder ctx.ord s.ksConns).vals s.w = p at h1
  obtain ⟨w1, ok⟩ := p
  simp only
  split
  · exact h1
  · exact h1.trans (ext_foldl (pingDrop s.isInTransaction) (fun c w => ext_pingDrop c w _) _ _)

theorem ext_handleKsQuit : Ext s.w (handleKsQuit ctx s).w :=
  ext_foldl closeRecycle ext_closeRecycle _ _

theorem ext_sessionClose : Ext s.w (sessionClose ctx s).w := by
  unfold sessionClose
  split
  · exact Ext.refl _
  · exact (ext_rollback (ctx := ctx) (s := { s with closed := true })).trans ext_handleKsQuit

theorem ext_handleFieldList : Ext s.w (handleFieldList ctx s).1.w := by
  unfold handleFieldList
  have hg := ext_getBackendConn (ctx := ctx) (s := s) (ctx.cfg.user != .w) 0
  generalize getBackendConn ctx (ctx.cfg.user != .w) 0 s = g at hg
  obtain ⟨s1, pc, err⟩ := g
  cases err with
  | true => exact hg
  | false =>
    cases pc with
    | none => exact hg
    | some c =>
      simp only
      have hU := ext_call ctx .U c s1.w
      generalize call ctx .U c s1.w = pU at hU
      obtain ⟨wU, rU⟩ := pU
      simp only
      split
      · exact hg.trans (hU.trans (ext_recycleBackendConn (s := { s1 with w := wU }) _))
      · have hF := ext_call ctx .F c wU
        generalize call ctx .F c wU = pF at hF
        obtain ⟨wF, rF⟩ := pF
        exact hg.trans (hU.trans (hF.trans (ext_recycleBackendConn (s := { s1 with w := wF }) _)))

theorem ext_executeCommand (b : Body) : Ext s.w (executeCommand ctx b s).1.w := by
  unfold executeCommand
  dsimp only
  cases b with
  | qu k =>
    dsimp only
    split
    · exact Ext.refl _
    · exact ext_executeSQL _ _
  | qs k slices =>
    dsimp only
    split
    · exact Ext.refl _
    · exact ext_executeSQLs _ _ _
  | «show» => exact ext_executeSQL _ _
  | fl => exact ext_handleFieldList
  | begin => exact ext_handleBegin
  | commit => exact ext_commit
  | rollback => exact ext_rollback
  | ac v => exact ext_handleSetAutoCommit v
  | sp n => exact ext_handleSavepoint false n
  | rel n => exact ext_handleSavepoint true n
  | rbt n => exact ext_rollbackSavepoint n
  | ping =>
    dsimp only
    split
    · exact ext_handleKeepSessionPing
    · exact Ext.refl _
  | quit => exact ext_rollback
  | disc => exact Ext.refl _
  | nsc => exact Ext.refl _

theorem ext_streamRest (ctx : Ctx) (c : Nat) (w : World) : Ext w (streamRest ctx c w) := by
  unfold streamRest
  have h1 : Ext w (if moreRows c w then
      (let (w, r) := call ctx .M c w; (w, r.isOk)) else (w, true)).1 := by
    split
    · exact ext_call _ _ _ _
    · exact Ext.refl _
  generalize (if moreRows c w then (let (w, r) := call ctx .M c w; (w, r.isOk)) else (w, true)) = p at h1
  obtain ⟨w1, ok⟩ := p
  simp only at h1 ⊢
  split
  · exact h1.trans (ext_call _ _ _ _)
  · exact h1

theorem ext_closeGivenUp (c : Nat) (w : World) : Ext w (closeGivenUp c w) := by
  unfold closeGivenUp
  split
  · exact ext_close _ _
  · exact Ext.refl _

theorem ext_writeResponse (r : Resp) : Ext s.w (writeResponse ctx r s).1.w := by
  have e : (writeResponse ctx r s).1 =
      (fun s1 : St => ({ (recycleContinueConn ctx s1.continueConn s1) with continueConn := none } : St))
      (match s.continueConn with
       | some c => if r == .res || r == .ok then { s with w := closeGivenUp c (streamRest ctx c s.w) } else s
       | none => s) := rfl
  rw [e]
  have h1 : Ext s.w (match s.continueConn with
       | some c => if r == Resp.res || r == Resp.ok then { s with w := closeGivenUp c (streamRest ctx c s.w) } else s
       | none => s).w := by
    split
    · split
      · exact (ext_streamRest _ _ _).trans (ext_closeGivenUp _ _)
      · exact Ext.refl _
    · exact Ext.refl _
  exact h1.trans (ext_recycleContinueConn _)

theorem ext_runCommand (b : Body) : Ext s.w (runCommand ctx b s).1.w := by
  unfold runCommand
  dsimp only
  have h1 : Ext s.w (clearKsConns ctx { s with nsCtx := s.nsCur }).w := ext_clearKsConns (s := { s with nsCtx := s.nsCur })
  generalize clearKsConns ctx { s with nsCtx := s.nsCur } = s1 at h1
  have h2 : Ext s.w (if !s1.isInTransaction then { s1 with nsOld := s1.nsCtx } else s1).w := by
    split <;> exact h1
  generalize (if !s1.isInTransaction then { s1 with nsOld := s1.nsCtx } else s1) = s2 at h2
  have h3 : Ext s.w (if shouldClear ctx s2 then (s2, Resp.err) else executeCommand ctx b s2).1.w := by
    split
    · exact h2
    · exact h2.trans (ext_executeCommand b)
  generalize (if shouldClear ctx s2 then (s2, Resp.err) else executeCommand ctx b s2) = p3 at h3
  obtain ⟨s3, r⟩ := p3
  have h4 := h3.trans (ext_writeResponse (ctx := ctx) (s := s3) r)
  generalize writeResponse ctx r s3 = p4 at h4
  obtain ⟨s4, delivered⟩ := p4
  dsimp only at h4 ⊢
  split
  · exact h4.trans (ext_clearKsConns.trans ext_sessionClose)
  · have h5 : Ext s.w (if b == .quit || shouldClear ctx s4 || txConnLost s4 then sessionClose ctx s4 else s4).w := by
      split
      · exact h4.trans ext_sessionClose
      · exact h4
    exact h5

theorem ext_step (cfg : Cfg) (op : Op) : Ext s.w (step cfg s op).1.w := by
  unfold step
  dsimp only
  split
  · exact ext_of_conns rfl
  · split
    · exact ext_of_conns rfl
    · exact (ext_of_conns rfl).trans ((ext_clearKsConns (s := { s with w := { s.w with trace := [] } })).trans ext_sessionClose)
    · exact (ext_of_conns rfl).trans (ext_runCommand (s := { s with w := { s.w with trace := [] } }) _)

end GaeaVerif.SessionConns
