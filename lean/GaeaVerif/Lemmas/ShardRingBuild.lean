import GaeaVerif.Lemmas.ShardStr
import GaeaVerif.Lemmas.ShardMurmur
import GaeaVerif.Lemmas.ShardRing
/-
  `generateBucketMap` (shard_mycat.go) performs exactly the puts of Mycat's
  `generateBucketMap`: same node names (`SHARD-i-NODE-0-NODE-1…`), same hashes,
  same order.
-/
namespace GaeaVerif.ShardLemmas
open GaeaVerif.ShardGo GaeaVerif.ShardPlace

/-- The `StringBuilder` before node `n` is appended. -/
def nodeBuf (i n : Nat) : List Nat :=
  MycatSpec.ascii "SHARD-" ++ MycatSpec.natToString i ++
    (List.range n).flatMap fun k => MycatSpec.ascii "-NODE-" ++ MycatSpec.natToString k

theorem nodeName_eq (i n : Nat) : MycatSpec.nodeName i n = nodeBuf i (n + 1) := rfl

theorem nodeBuf_succ (i n : Nat) :
    nodeBuf i (n + 1) = nodeBuf i n ++ nodeInfix ++ fmtNat n := by
  unfold nodeBuf
  rw [List.range_succ, List.flatMap_append, fmtNat_eq]
  simp only [List.flatMap_cons, List.flatMap_nil, List.append_nil, List.append_assoc]
  rfl

theorem natToString_ascii (n : Nat) : ∀ b ∈ MycatSpec.natToString n, b < 128 := by
  intro b hb
  rw [← fmtNat_eq] at hb
  have := fmtNat_digits n b hb
  simp [isDigit] at this; omega

theorem nodeBuf_ascii (i n : Nat) : ∀ b ∈ nodeBuf i n, b < 128 := by
  intro b hb
  unfold nodeBuf at hb
  simp only [List.mem_append, List.mem_flatMap, List.mem_range] at hb
  rcases hb with (hb | hb) | ⟨k, _, hb | hb⟩
  · have : MycatSpec.ascii "SHARD-" = [83, 72, 65, 82, 68, 45] := by decide
    rw [this] at hb; simp at hb; omega
  · exact natToString_ascii i b hb
  · have : MycatSpec.ascii "-NODE-" = [45, 78, 79, 68, 69, 45] := by decide
    rw [this] at hb; simp at hb; omega
  · exact natToString_ascii k b hb

/-- The Go hash of a node name is Guava's hash of the same name. -/
theorem hash_nodeBuf (seed : Int) (i n : Nat) :
    HashUnencodedChars seed (nodeBuf i n) =
      MycatSpec.hashUnencodedChars (BitVec.ofInt 32 seed) (nodeBuf i n) := by
  rw [HashUnencodedChars_eq, utf16Units_ascii _ (nodeBuf_ascii i n)]

theorem bucketLoop_eq (seed : Int) (i : Nat) (cnt n : Nat) (m : List (Int × Int)) :
    bucketLoop seed (i : Int) cnt n (nodeBuf i n) m =
      tmBuild m (putsInt ((List.range' n cnt).map fun k =>
        (MycatSpec.hashUnencodedChars (BitVec.ofInt 32 seed) (MycatSpec.nodeName i k), i))) := by
  induction cnt generalizing n m with
  | zero => rfl
  | succ cnt ih =>
    unfold bucketLoop
    simp only
    rw [← nodeBuf_succ, ih (n + 1)]
    simp only [List.range'_succ, List.map_cons, putsInt, tmBuild, List.foldl_cons]
    rw [nodeName_eq, hash_nodeBuf]

theorem tmBuild_append (m : List (Int × Int)) (a b : List (Int × Int)) :
    tmBuild (tmBuild m a) b = tmBuild m (a ++ b) := by
  unfold tmBuild; rw [List.foldl_append]

theorem putsInt_append (a b : List (Int × Nat)) : putsInt (a ++ b) = putsInt a ++ putsInt b := by
  unfold putsInt; rw [List.map_append]

theorem generate_fold (seed : Int) (vbt : Nat) (is : List Nat) (m : List (Int × Int)) :
    is.foldl (fun m (i : Nat) => bucketLoop seed (i : Int) vbt 0 (shardPrefix ++ fmtNat i) m) m =
      tmBuild m (putsInt (is.flatMap fun i => (List.range vbt).map fun n =>
        (MycatSpec.hashUnencodedChars (BitVec.ofInt 32 seed) (MycatSpec.nodeName i n), i))) := by
  induction is generalizing m with
  | nil => rfl
  | cons i is ih =>
    simp only [List.foldl_cons, List.flatMap_cons]
    have hb : shardPrefix ++ fmtNat i = nodeBuf i 0 := by
      unfold nodeBuf; rw [fmtNat_eq]; simp; rfl
    rw [hb, bucketLoop_eq, ih, tmBuild_append, putsInt_append, List.range_eq_range']

/-- **`generateBucketMap` is the tree map after Mycat's puts.** -/
theorem generateBucketMap_eq (seed : Int) (count vbt : Nat) :
    generateBucketMap seed count vbt =
      tmBuild [] (putsInt (MycatSpec.ringPuts (BitVec.ofInt 32 seed) count vbt)) := by
  unfold generateBucketMap MycatSpec.ringPuts
  simp only [Int.toNat_natCast]
  exact generate_fold seed vbt (List.range count) []

end GaeaVerif.ShardLemmas
