import GaeaVerif.Model.SessionConns
/-
  Helper lemmas for C18 / C19 / C23: the ledger invariant `WInv` of the backend
  world and its preservation by the primitives of Model/SessionConns.lean
  (pool get, backend call, close, recycle) and by the loops over connections.
-/
namespace GaeaVerif.SessionConns

theorem getElem?_snoc {α : Type} (l : List α) (a : α) (i : Nat) :
    (l ++ [a])[i]? = if i < l.length then l[i]? else if i = l.length then some a else none := by
  rw [List.getElem?_append]
  split
  · rfl
  · rename_i h
    split
    · rename_i h2; subst h2; simp
    · rename_i h2
      have : i - l.length ≠ 0 := by omega
      cases hk : i - l.length with
      | zero => exact absurd hk this
      | succ k => simp

/-- no statement timeout is injected during this command -/
def NoT (ctx : Ctx) : Prop := ∀ f ∈ ctx.faults, f.mode ≠ .t

/-- the backend loses no connection during this command: no statement timeout,
    no call that leaves the connection closed, no ping failure, no failed fetch
    of the pending rows / results of a streamed answer (since fix 7cb439b the
    connection of a stream that is given up is closed) -/
def Calm (ctx : Ctx) : Prop :=
  ∀ f ∈ ctx.faults, f.mode ≠ .t ∧ f.mode ≠ .z ∧ f.k ≠ .p ∧ ¬(f.mode = .e ∧ (f.k = .m ∨ f.k = .n))

theorem Calm.noT {ctx : Ctx} (h : Calm ctx) : NoT ctx := fun f hf => (h f hf).1

/-- which optional parts of the ledger invariant are tracked: `t` (nothing in
    flight between two backend interactions; holds of every history since a
    statement timeout closes the connection on both execution paths), `p` (a
    closed connection has been given back; needs histories without timeouts,
    connection losses and ping failures) -/
structure Q where
  t : Bool
  p : Bool

/-- the hypotheses on the faults of a command that the tracked parts need -/
structure QH (q : Q) (ctx : Ctx) : Prop where
  p : q.p = true → Calm ctx

abbrev CMap.keys (m : CMap) : List Nat := m.map (·.1)

/-- The ledger invariant.  `O` lists the connections that are out (taken from a
    pool and not given back) with their slices: at most one per slice; every
    other connection of the ledger was given back exactly once; no connection
    was touched after it was given back, nor handed out while another one of its
    slice was out; the connections of `M` are master connections; with `q`, no
    statement is in flight and no connection was given back in flight. -/
structure WInv (q : Q) (O : CMap) (M : List Nat) (w : World) : Prop where
  nodupC : O.vals.Nodup
  nodupS : O.keys.Nodup
  out : ∀ e ∈ O, ∃ cn : Conn, w.conns[e.2]? = some cn ∧ cn.returns = 0 ∧ cn.slice = e.1
  ret : ∀ (c : Nat) (cn : Conn), w.conns[c]? = some cn → c ∉ O.vals → cn.returns = 1
  flags : ∀ (c : Nat) (cn : Conn), w.conns[c]? = some cn → cn.uar = false ∧ cn.dup = false
  mast : ∀ c ∈ M, ∃ cn : Conn, w.conns[c]? = some cn ∧ cn.master = true
  quiet : q.t = true → ∀ (c : Nat) (cn : Conn), w.conns[c]? = some cn → cn.inflight = false ∧ cn.rif = false
  cr : q.p = true → ∀ (c : Nat) (cn : Conn), w.conns[c]? = some cn → cn.closed = true → 1 ≤ cn.returns

variable {q : Q} {O O' : CMap} {M M' : List Nat} {w w' : World}

theorem WInv.perm (h : WInv q O M w) (p : O.Perm O') : WInv q O' M w where
  nodupC := ((p.map (fun e : Nat × Nat => e.2)).nodup_iff).1 h.nodupC
  nodupS := ((p.map (fun e : Nat × Nat => e.1)).nodup_iff).1 h.nodupS
  out := fun e he => h.out e (p.mem_iff.2 he)
  ret := fun c cn hcn hc => h.ret c cn hcn (fun hm => hc (((p.map (fun e : Nat × Nat => e.2)).mem_iff).1 hm))
  flags := h.flags
  mast := h.mast
  quiet := h.quiet
  cr := h.cr

theorem WInv.subM (h : WInv q O M w) (hs : ∀ c ∈ M', c ∈ M) : WInv q O M' w :=
  { h with mast := fun c hc => h.mast c (hs c hc) }

theorem WInv.lt (h : WInv q O M w) {e : Nat × Nat} (he : e ∈ O) : e.2 < w.conns.length := by
  obtain ⟨cn, hcn, _⟩ := h.out e he
  exact (List.getElem?_eq_some_iff.1 hcn).1

theorem mem_vals {m : CMap} {c : Nat} : c ∈ m.vals ↔ ∃ s, (s, c) ∈ m := by
  simp [CMap.vals]

theorem mem_keys {m : CMap} {k : Nat} : k ∈ m.keys ↔ ∃ c, (k, c) ∈ m := by
  simp [CMap.keys]

@[simp] theorem emit_conns (e : Event) (w : World) : (w.emit e).conns = w.conns := rfl

theorem wi_emit (e : Event) (h : WInv q O M w) : WInv q O M (w.emit e) :=
  ⟨h.nodupC, h.nodupS, h.out, h.ret, h.flags, h.mast, h.quiet, h.cr⟩

/-- a connection that is out lies in `O` -/
theorem WInv.mem_of_out (h : WInv q O M w) {c : Nat} {cn : Conn} (hcn : w.conns[c]? = some cn)
    (h0 : cn.returns = 0) : c ∈ O.vals := by
  by_cases hm : c ∈ O.vals
  · exact hm
  · have := h.ret c cn hcn hm; omega

theorem wi_poolGet (ctx : Ctx) (m : Bool) (sl : Nat) {r : Option Nat}
    (h : WInv q O M w) (hs : sl ∉ O.keys) (hp : poolGet ctx m sl w = (w', r)) :
    (∃ c, r = some c ∧ c ∉ O.vals ∧ WInv q (O ++ [(sl, c)]) (if m then M ++ [c] else M) w') ∨
    (r = none ∧ WInv q O M w') := by
  by_cases hf : fault ctx (if m then .gm else .gs) sl = some .e
  · simp only [poolGet, hf, if_true] at hp
    cases hp
    right; exact ⟨rfl, wi_emit _ h⟩
  · simp only [poolGet, hf, if_false] at hp
    cases hp
    left
    have hn : w.conns.length ∉ O.vals := by
      intro hm
      obtain ⟨s, hs⟩ := mem_vals.1 hm
      exact Nat.lt_irrefl _ (h.lt hs)
    have hdup : (w.conns.any fun c => c.slice == sl && c.returns == 0) = false := by
      rw [Bool.eq_false_iff]
      intro hany
      obtain ⟨cn, hmem, hc⟩ := List.any_eq_true.1 hany
      simp only [Bool.and_eq_true, beq_iff_eq] at hc
      obtain ⟨i, hi, hget⟩ := List.mem_iff_getElem.1 hmem
      have hcn : w.conns[i]? = some cn := by rw [List.getElem?_eq_getElem hi, hget]
      have hin := h.mem_of_out hcn hc.2
      obtain ⟨s, hs'⟩ := mem_vals.1 hin
      obtain ⟨cn', hcn', _, hsl⟩ := h.out _ hs'
      rw [hcn] at hcn'; cases hcn'
      exact hs (mem_keys.2 ⟨i, by rw [← hc.1, hsl]; exact hs'⟩)
    refine ⟨w.conns.length, rfl, hn, ?_, ?_, ?_, ?_, ?_, ?_, ?_, ?_⟩
    · simp only [CMap.vals, List.map_append, List.map_cons, List.map_nil]
      exact List.nodup_append.2 ⟨h.nodupC, by simp, by
        intro a ha b hb; simp at hb; subst hb; intro e; subst e; exact hn ha⟩
    · simp only [CMap.keys, List.map_append, List.map_cons, List.map_nil]
      exact List.nodup_append.2 ⟨h.nodupS, by simp, by
        intro a ha b hb; simp at hb; subst hb; intro e; subst e; exact hs ha⟩
    · intro e he
      simp only [emit_conns, getElem?_snoc]
      rcases List.mem_append.1 he with he | he
      · rw [if_pos (h.lt he)]; exact h.out e he
      · simp at he; subst he; simp
    · intro c cn hcn hc
      simp only [emit_conns, getElem?_snoc] at hcn
      split at hcn
      · exact h.ret c cn hcn (fun hm => hc (by simp [CMap.vals] at hm ⊢; exact Or.inl hm))
      · split at hcn
        · rename_i h2; exact absurd (by simp [CMap.vals, h2]) hc
        · cases hcn
    · intro c cn hcn
      simp only [emit_conns, getElem?_snoc] at hcn
      split at hcn
      · exact h.flags c cn hcn
      · split at hcn
        · cases hcn; exact ⟨rfl, hdup⟩
        · cases hcn
    · intro c hc
      simp only [emit_conns, getElem?_snoc]
      have old : ∀ c ∈ M, ∃ cn : Conn,
          (if c < w.conns.length then w.conns[c]? else if c = w.conns.length then
            some ({ slice := sl, master := m, dup := (w.conns.any fun c => c.slice == sl && c.returns == 0) } : Conn)
            else none) = some cn ∧ cn.master = true := by
        intro c hc
        obtain ⟨cn, hcn, hm⟩ := h.mast c hc
        have : c < w.conns.length := (List.getElem?_eq_some_iff.1 hcn).1
        rw [if_pos this]; exact ⟨cn, hcn, hm⟩
      cases m with
      | false => exact old c hc
      | true =>
        simp only [if_true] at hc
        rcases List.mem_append.1 hc with hc | hc
        · exact old c hc
        · simp at hc; subst hc; simp
    · intro hq c cn hcn
      simp only [emit_conns, getElem?_snoc] at hcn
      split at hcn
      · exact h.quiet hq c cn hcn
      · split at hcn
        · cases hcn; exact ⟨rfl, rfl⟩
        · cases hcn
    · intro hq c cn hcn hcl
      simp only [emit_conns, getElem?_snoc] at hcn
      split at hcn
      · exact h.cr hq c cn hcn hcl
      · split at hcn
        · cases hcn; cases hcl
        · cases hcn

/-- removing the connection `c` from an ownership list -/
def drop (c : Nat) (O : CMap) : CMap := O.filter (fun e => e.2 != c)

theorem mem_drop {c : Nat} {O : CMap} {e : Nat × Nat} : e ∈ drop c O ↔ e ∈ O ∧ e.2 ≠ c := by
  simp [drop]

theorem drop_append (c : Nat) (A B : CMap) : drop c (A ++ B) = drop c A ++ drop c B := by
  simp [drop]

theorem drop_of_not_mem {c : Nat} {O : CMap} (h : c ∉ O.vals) : drop c O = O := by
  simp only [drop, List.filter_eq_self]
  intro e he
  simp only [bne_iff_ne, ne_eq]
  intro hc; subst hc
  exact h (mem_vals.2 ⟨e.1, he⟩)

theorem vals_drop (c : Nat) (O : CMap) : (drop c O).vals = O.vals.filter (· != c) := by
  simp [drop, CMap.vals, List.filter_map, Function.comp_def]

/-- updating a connection that is out, keeping it out -/
theorem wi_set_keep {c : Nat} {cn cn' : Conn} (h : WInv q O M w) (hc : c ∈ O.vals)
    (hcn : w.conns[c]? = some cn) (h0 : cn'.returns = 0) (hsl : cn'.slice = cn.slice)
    (hm : cn'.master = cn.master) (hu : cn'.uar = false) (hd : cn'.dup = cn.dup)
    (hq : q.t = true → cn'.inflight = false ∧ cn'.rif = false)
    (hcl : q.p = true → cn'.closed = false) :
    WInv q O M { w with conns := w.conns.set c cn' } := by
  have hlt : c < w.conns.length := (List.getElem?_eq_some_iff.1 hcn).1
  refine ⟨h.nodupC, h.nodupS, ?_, ?_, ?_, ?_, ?_, ?_⟩
  · intro e he
    simp only [List.getElem?_set]
    by_cases eq : c = e.2
    · obtain ⟨en, hen, _, hes⟩ := h.out e he
      rw [← eq, hcn] at hen; cases hen
      simp [eq.symm ▸ hlt, h0, hsl, hes, eq]
    · simp [eq]; exact h.out e he
  · intro d dn hdn hd'
    simp only [List.getElem?_set] at hdn
    by_cases eq : c = d
    · subst eq; exact absurd hc hd'
    · simp [eq] at hdn; exact h.ret d dn hdn hd'
  · intro d dn hdn
    simp only [List.getElem?_set] at hdn
    by_cases eq : c = d
    · subst eq; simp [hlt] at hdn; subst hdn
      exact ⟨hu, by rw [hd]; exact (h.flags c cn hcn).2⟩
    · simp [eq] at hdn; exact h.flags d dn hdn
  · intro d hdM
    obtain ⟨dn, hdn, hdm⟩ := h.mast d hdM
    simp only [List.getElem?_set]
    by_cases eq : c = d
    · subst eq; rw [hcn] at hdn; cases hdn
      simp [hlt, hm, hdm]
    · simp [eq]; exact ⟨dn, hdn, hdm⟩
  · intro hq' d dn hdn
    simp only [List.getElem?_set] at hdn
    by_cases eq : c = d
    · subst eq; simp [hlt] at hdn; subst hdn; exact hq hq'
    · simp [eq] at hdn; exact h.quiet hq' d dn hdn
  · intro hp d dn hdn hdc
    simp only [List.getElem?_set] at hdn
    by_cases eq : c = d
    · subst eq; simp [hlt] at hdn; subst hdn; rw [hcl hp] at hdc; cases hdc
    · simp [eq] at hdn; exact h.cr hp d dn hdn hdc

/-- giving back a connection that is out -/
theorem wi_set_ret {c : Nat} {cn cn' : Conn} (h : WInv q O M w) (_hc : c ∈ O.vals)
    (hcn : w.conns[c]? = some cn) (h1 : cn'.returns = 1)
    (hm : cn'.master = cn.master) (hu : cn'.uar = false) (hd : cn'.dup = cn.dup)
    (hq : q.t = true → cn'.inflight = false ∧ cn'.rif = false) :
    WInv q (drop c O) M { w with conns := w.conns.set c cn' } := by
  have hlt : c < w.conns.length := (List.getElem?_eq_some_iff.1 hcn).1
  refine ⟨?_, ?_, ?_, ?_, ?_, ?_, ?_, ?_⟩
  · rw [vals_drop]; exact h.nodupC.filter _
  · exact h.nodupS.sublist ((List.filter_sublist).map _)
  · intro e he
    obtain ⟨he, hne⟩ := mem_drop.1 he
    simp only [List.getElem?_set]
    have : ¬ c = e.2 := fun eq => hne eq.symm
    simp [this]; exact h.out e he
  · intro d dn hdn hd'
    simp only [List.getElem?_set] at hdn
    by_cases eq : c = d
    · subst eq; simp [hlt] at hdn; subst hdn; exact h1
    · simp [eq] at hdn
      refine h.ret d dn hdn (fun hmem => hd' ?_)
      rw [vals_drop]
      simp only [List.mem_filter, bne_iff_ne, ne_eq]
      exact ⟨hmem, fun e' => eq e'.symm⟩
  · intro d dn hdn
    simp only [List.getElem?_set] at hdn
    by_cases eq : c = d
    · subst eq; simp [hlt] at hdn; subst hdn
      exact ⟨hu, by rw [hd]; exact (h.flags c cn hcn).2⟩
    · simp [eq] at hdn; exact h.flags d dn hdn
  · intro d hdM
    obtain ⟨dn, hdn, hdm⟩ := h.mast d hdM
    simp only [List.getElem?_set]
    by_cases eq : c = d
    · subst eq; rw [hcn] at hdn; cases hdn
      simp [hlt, hm, hdm]
    · simp [eq]; exact ⟨dn, hdn, hdm⟩
  · intro hq' d dn hdn
    simp only [List.getElem?_set] at hdn
    by_cases eq : c = d
    · subst eq; simp [hlt] at hdn; subst hdn; exact hq hq'
    · simp [eq] at hdn; exact h.quiet hq' d dn hdn
  · intro hp d dn hdn hdc
    simp only [List.getElem?_set] at hdn
    by_cases eq : c = d
    · subst eq; simp [hlt] at hdn; subst hdn; omega
    · simp [eq] at hdn; exact h.cr hp d dn hdn hdc

/-- a connection that is out is not closed (when `p` is tracked) -/
theorem WInv.open_of_out (h : WInv q O M w) (hp : q.p = true) {c : Nat} {cn : Conn}
    (hcn : w.conns[c]? = some cn) (h0 : cn.returns = 0) : cn.closed = false := by
  cases hcl : cn.closed with
  | false => rfl
  | true => have := h.cr hp c cn hcn hcl; omega

theorem callRes_ne_t (ctx : Ctx) (hT : NoT ctx) (k : CK) (c : Conn) : callRes ctx k c ≠ .t := by
  unfold callRes
  split
  · simp
  · split
    · simp
    · rename_i hf
      exfalso
      simp only [fault, Option.map_eq_some_iff] at hf
      obtain ⟨f, hf1, hf2⟩ := hf
      exact hT f (List.mem_of_find?_eq_some hf1) hf2
    · split <;> simp
    · split <;> simp
    · simp
    · simp

theorem callRes_ne_z (ctx : Ctx) (hT : Calm ctx) (k : CK) (c : Conn) : callRes ctx k c ≠ .z := by
  unfold callRes
  split
  · simp
  · split
    · simp
    · split <;> simp
    · split <;> simp
    · split <;> simp
    · rename_i hf
      exfalso
      simp only [fault, Option.map_eq_some_iff] at hf
      obtain ⟨f, hf1, hf2⟩ := hf
      exact (hT f (List.mem_of_find?_eq_some hf1)).2.1 hf2
    · simp

/-- only a statement can time out -/
theorem callRes_ne_t_of_ne_X (ctx : Ctx) {k : CK} (hk : k ≠ .X) (c : Conn) : callRes ctx k c ≠ .t := by
  unfold callRes
  split
  · simp
  · split <;> first | simp | simp [hk]

/-- a backend call on a connection that is out, provided it does not time out -/
theorem wi_call_of_ne_t (ctx : Ctx) (k : CK) {c : Nat} (hT : QH q ctx) (h : WInv q O M w) (hc : c ∈ O.vals)
    (hne : ∀ cn : Conn, w.conns[c]? = some cn → callRes ctx k cn ≠ .t) :
    WInv q O M (call ctx k c w).1 := by
  obtain ⟨s, hs⟩ := mem_vals.1 hc
  obtain ⟨cn, hcn, h0, _⟩ := h.out _ hs
  simp only [call, hcn]
  apply wi_emit
  apply wi_set_keep h hc hcn
  · simp [Conn.afterCall, h0]
  · simp [Conn.afterCall]
  · simp [Conn.afterCall]
  · simp [Conn.afterCall, h0, (h.flags c cn hcn).1]
  · simp [Conn.afterCall]
  · intro hq
    have := h.quiet hq c cn hcn
    have hne := hne cn hcn
    simp only [Conn.afterCall, this.1, this.2, Bool.false_or, and_true]
    split
    · rfl
    · simpa using hne
  · intro hp
    have hne := callRes_ne_z ctx (hT.p hp) k cn
    simp only [Conn.afterCall, h.open_of_out hp hcn h0, Bool.false_or, beq_eq_false_iff_ne, ne_eq]
    exact hne

/-- a backend call other than a statement (which alone can time out) -/
theorem wi_call (ctx : Ctx) (k : CK) {c : Nat} (hT : QH q ctx) (h : WInv q O M w) (hc : c ∈ O.vals)
    (hk : k ≠ .X := by decide) :
    WInv q O M (call ctx k c w).1 :=
  wi_call_of_ne_t ctx k hT h hc (fun cn _ => callRes_ne_t_of_ne_X ctx hk cn)

theorem wi_congr {w' : World} (hc : w'.conns = w.conns) (h : WInv q O M w) : WInv q O M w' :=
  ⟨h.nodupC, h.nodupS, by rw [hc]; exact h.out, by rw [hc]; exact h.ret, by rw [hc]; exact h.flags,
    by rw [hc]; exact h.mast, by rw [hc]; exact h.quiet, by rw [hc]; exact h.cr⟩

/-- a statement that does not time out -/
theorem wi_callX (ctx : Ctx) {c : Nat} (hT : QH q ctx) (h : WInv q O M w) (hc : c ∈ O.vals)
    (hne : (call ctx .X c w).2 ≠ .t) : WInv q O M (call ctx .X c w).1 := by
  refine wi_call_of_ne_t ctx .X hT h hc ?_
  intro cn hcn
  simpa [call, hcn] using hne

/-- a statement that times out, and the `Close` that follows on both execution
    paths: the connection is out, closed, and nothing is in flight -/
theorem wi_callX_close (ctx : Ctx) {c : Nat} (hT : QH q ctx) (h : WInv q O M w) (hc : c ∈ O.vals)
    (ht : (call ctx .X c w).2 = .t) : WInv q O M (close c (call ctx .X c w).1) := by
  obtain ⟨s, hs⟩ := mem_vals.1 hc
  obtain ⟨cn, hcn, h0, _⟩ := h.out _ hs
  replace hcn : w.conns[c]? = some cn := hcn
  obtain ⟨hlt, hget⟩ := List.getElem?_eq_some_iff.1 hcn
  have hr : callRes ctx .X cn = .t := by simpa [call, hcn] using ht
  cases hp : q.p with
  | true => exact absurd hr (callRes_ne_t ctx (hT.p hp).noT .X cn)
  | false =>
    have hw : WInv q O M { w with conns := w.conns.set c (cn.afterCall .X .t).afterClose } := by
      apply wi_set_keep h hc hcn
      · simp [Conn.afterCall, Conn.afterClose, h0]
      · simp [Conn.afterCall, Conn.afterClose]
      · simp [Conn.afterCall, Conn.afterClose]
      · simp [Conn.afterCall, Conn.afterClose, h0, (h.flags c cn hcn).1]
      · simp [Conn.afterCall, Conn.afterClose]
      · intro hq
        have := h.quiet hq c cn hcn
        simp [Conn.afterCall, Conn.afterClose, this.2]
      · intro hp'; rw [hp] at hp'; cases hp'
    refine wi_congr ?_ hw
    simp [call, close, hlt, hget, hr]

/-- closing alone breaks "closed ⇒ given back": only without `p` -/
theorem wi_close {c : Nat} (hp : q.p = false) (h : WInv q O M w) (hc : c ∈ O.vals) : WInv q O M (close c w) := by
  obtain ⟨s, hs⟩ := mem_vals.1 hc
  obtain ⟨cn, hcn, h0, _⟩ := h.out _ hs
  simp only [close, hcn]
  apply wi_emit
  apply wi_set_keep h hc hcn
  · simp [Conn.afterClose, h0]
  · simp [Conn.afterClose]
  · simp [Conn.afterClose]
  · simp [Conn.afterClose, h0, (h.flags c cn hcn).1]
  · simp [Conn.afterClose]
  · intro hq
    have := h.quiet hq c cn hcn
    simp [Conn.afterClose, this.2]
  · intro hp'; rw [hp] at hp'; cases hp'

/-- without backend trouble the fetch of pending rows / results succeeds -/
theorem callRes_fetch_ok (ctx : Ctx) (hT : Calm ctx) {k : CK} (hk : k = .M ∨ k = .N) (cn : Conn)
    (hcl : cn.closed = false) : callRes ctx k cn = .ok := by
  unfold callRes
  rw [hcl]
  simp only [Bool.false_eq_true, if_false]
  cases hf : fault ctx k.fk cn.slice with
  | none => rfl
  | some m =>
    simp only [fault, Option.map_eq_some_iff] at hf
    obtain ⟨f, hf1, hf2⟩ := hf
    have hmem := List.mem_of_find?_eq_some hf1
    have hkk := List.find?_some hf1
    simp only [Bool.and_eq_true, beq_iff_eq] at hkk
    obtain ⟨c1, c2, _, c4⟩ := hT f hmem
    cases m with
    | e =>
      exfalso; apply c4
      refine ⟨hf2, ?_⟩
      rcases hk with hk | hk <;> subst hk
      · exact .inl hkk.1
      · exact .inr hkk.1
    | t => rcases hk with hk | hk <;> subst hk <;> simp
    | more => rcases hk with hk | hk <;> subst hk <;> simp
    | mres => rcases hk with hk | hk <;> subst hk <;> simp
    | z => exact absurd hf2 c2

theorem call_get (ctx : Ctx) (k : CK) {c : Nat} {cn : Conn} (hcn : w.conns[c]? = some cn) :
    (call ctx k c w).1.conns[c]? = some (cn.afterCall k (callRes ctx k cn)) ∧
    (call ctx k c w).2 = callRes ctx k cn := by
  obtain ⟨hlt, hget⟩ := List.getElem?_eq_some_iff.1 hcn
  subst hget
  simp [call, World.emit, hlt]

/-- without backend trouble nothing is pending once `writeOKResultStream` is through -/
theorem morePending_streamRest_calm (ctx : Ctx) (hT : Calm ctx) {c : Nat} (hp : q.p = true)
    (h : WInv q O M w) (hc : c ∈ O.vals) : morePending c (streamRest ctx c w) = false := by
  obtain ⟨sl, hs⟩ := mem_vals.1 hc
  obtain ⟨cn, hcn, h0, _⟩ := h.out _ hs
  replace hcn : w.conns[c]? = some cn := hcn
  have hcl : cn.closed = false := h.open_of_out hp hcn h0
  have hM := callRes_fetch_ok ctx hT (k := .M) (.inl rfl) cn hcl
  -- the state after the fetch of the pending rows: nothing pending, not closed
  have step1 : ∃ (w1 : World) (ok : Bool) (cn1 : Conn),
      (if moreRows c w then (let (w, r) := call ctx .M c w; (w, r.isOk)) else (w, true)) = (w1, ok) ∧
      ok = true ∧ w1.conns[c]? = some cn1 ∧ cn1.more = false ∧ cn1.closed = false ∧ cn1.moreRes = cn.moreRes := by
    cases hmore : cn.more with
    | false =>
      refine ⟨w, true, cn, ?_, rfl, hcn, hmore, hcl, rfl⟩
      simp [moreRows, hcn, hmore]
    | true =>
      obtain ⟨g1, g2⟩ := call_get ctx .M hcn
      rw [hM] at g1 g2
      refine ⟨(call ctx .M c w).1, true, cn.afterCall .M .ok, ?_, rfl, g1, ?_, ?_, ?_⟩
      · simp only [moreRows, hcn, hmore, if_true]
        rw [show (call ctx .M c w) = ((call ctx .M c w).1, (call ctx .M c w).2) from rfl, g2]
        rfl
      · simp [Conn.afterCall]
      · simp [Conn.afterCall, hcl]
      · simp [Conn.afterCall]
  obtain ⟨w1, ok, cn1, e1, hok, hcn1, hm1, hcl1, hr1⟩ := step1
  unfold streamRest
  rw [e1]
  subst hok
  simp only [Bool.true_and]
  cases hres : cn1.moreRes with
  | false =>
    simp [morePending, moreResults, moreRows, hcn1, hm1, hres]
  | true =>
    have hN := callRes_fetch_ok ctx hT (k := .N) (.inr rfl) cn1 hcl1
    obtain ⟨g1, _⟩ := call_get (w := w1) ctx .N hcn1
    rw [hN] at g1
    simp only [moreResults, hcn1, hres, if_true, morePending, moreRows, g1]
    simp [Conn.afterCall, hm1]

/-- `writeOKResultStream` and the deferred close of `writeResponse` of a connection whose
    stream was given up -/
theorem wi_closeGivenUp (ctx : Ctx) (hT : QH q ctx) {c : Nat} (h : WInv q O M w) (hc : c ∈ O.vals)
    (hs : WInv q O M (streamRest ctx c w)) : WInv q O M (closeGivenUp c (streamRest ctx c w)) := by
  unfold closeGivenUp
  split
  · rename_i hm
    cases hp : q.p with
    | true => rw [morePending_streamRest_calm ctx (hT.p hp) hp h hc] at hm; cases hm
    | false => exact wi_close hp hs hc
  · exact hs

theorem wi_recycle {c : Nat} (h : WInv q O M w) (hc : c ∈ O.vals) : WInv q (drop c O) M (recycle c w) := by
  obtain ⟨s, hs⟩ := mem_vals.1 hc
  obtain ⟨cn, hcn, h0, _⟩ := h.out _ hs
  simp only [recycle, hcn]
  apply wi_emit
  apply wi_set_ret h hc hcn
  · simp [Conn.afterRecycle, h0]
  · simp [Conn.afterRecycle]
  · simp [Conn.afterRecycle, (h.flags c cn hcn).1]
  · simp [Conn.afterRecycle]
  · intro hq
    have := h.quiet hq c cn hcn
    simp [Conn.afterRecycle, this.1, this.2]

/-! ## Loops -/

theorem insertBy_perm (key : Nat → Nat) (e : Nat × Nat) (l : CMap) : (insertBy key e l).Perm (e :: l) := by
  induction l with
  | nil => simp [insertBy]
  | cons x xs ih =>
    simp only [insertBy]
    split
    · exact List.Perm.refl _
    · exact (List.Perm.cons x ih).trans (List.Perm.swap e x xs)

theorem sortBy_perm (key : Nat → Nat) (m : CMap) : (sortBy key m).Perm m := by
  induction m with
  | nil => simp [sortBy]
  | cons x xs ih =>
    simp only [sortBy, List.foldr_cons]
    exact (insertBy_perm key x _).trans (List.Perm.cons x ih)

theorem iterOrder_perm (ord : List Nat) (m : CMap) : (iterOrder ord m).Perm m := sortBy_perm _ m

theorem bySlice_perm (m : CMap) : (bySlice m).Perm m := sortBy_perm _ m

theorem drop_head {c s : Nat} {T : CMap} (h : c ∉ T.vals) : drop c ((s, c) :: T) = T := by
  simp only [drop, List.filter_cons, bne_self_eq_false, Bool.false_eq_true, if_false]
  exact drop_of_not_mem h

theorem closeRecycle_eq {c : Nat} {cn : Conn} (hcn : w.conns[c]? = some cn) :
    closeRecycle c w = (World.emit (.recycle c)
      (World.emit (.close c) { w with conns := w.conns.set c cn.afterClose.afterRecycle })) := by
  have hlt : c < w.conns.length := (List.getElem?_eq_some_iff.1 hcn).1
  simp only [closeRecycle, close, hcn, recycle, emit_conns, List.getElem?_set, hlt, if_true, List.set_set]
  rfl

/-- `Close` then `Recycle` of a connection that is out -/
theorem wi_closeRecycle {c : Nat} (h : WInv q O M w) (hc : c ∈ O.vals) :
    WInv q (drop c O) M (closeRecycle c w) := by
  obtain ⟨s, hs⟩ := mem_vals.1 hc
  obtain ⟨cn, hcn, h0, _⟩ := h.out _ hs
  rw [closeRecycle_eq hcn]
  apply wi_emit
  apply wi_emit
  apply wi_set_ret h hc hcn
  · simp [Conn.afterRecycle, Conn.afterClose, h0]
  · simp [Conn.afterRecycle, Conn.afterClose]
  · simp [Conn.afterRecycle, Conn.afterClose, h0, (h.flags c cn hcn).1]
  · simp [Conn.afterRecycle, Conn.afterClose]
  · intro hq
    have := h.quiet hq c cn hcn
    simp [Conn.afterRecycle, Conn.afterClose, this.2]

/-- a loop whose body gives every visited connection back -/
theorem wi_foldl_drop (body : Nat → World → World)
    (hb : ∀ (O : CMap) (w : World) (c : Nat), c ∈ O.vals → WInv q O M w → WInv q (drop c O) M (body c w)) :
    ∀ (E R : CMap) (w : World), WInv q (E ++ R) M w →
      WInv q R M (E.vals.foldl (fun w c => body c w) w) := by
  intro E
  induction E with
  | nil => intro R w h; simpa [CMap.vals] using h
  | cons e E ih =>
    intro R w h
    obtain ⟨s, c⟩ := e
    simp only [CMap.vals, List.map_cons, List.foldl_cons]
    have hc : c ∈ CMap.vals (((s, c) :: E) ++ R) := by simp [CMap.vals]
    have hn : c ∉ CMap.vals (E ++ R) := by
      have := h.nodupC
      simp only [CMap.vals, List.cons_append, List.map_cons, List.nodup_cons] at this
      exact this.1
    have h2 := hb _ w c hc h
    rw [List.cons_append, drop_head hn] at h2
    exact ih R _ h2

/-- the same for loops that also report success or failure -/
theorem wi_eachConn_drop (body : Nat → World → World × Option Bool) (merge : Bool → Bool → Bool)
    (hb : ∀ (O : CMap) (w : World) (c : Nat), c ∈ O.vals → WInv q O M w → WInv q (drop c O) M (body c w).1) :
    ∀ (E R : CMap) (w : World) (b : Bool), WInv q (E ++ R) M w →
      WInv q R M (eachConn body merge E.vals (w, b)).1 := by
  intro E
  induction E with
  | nil => intro R w b h; simpa [eachConn, CMap.vals] using h
  | cons e E ih =>
    intro R w b h
    obtain ⟨s, c⟩ := e
    have hc : c ∈ CMap.vals (((s, c) :: E) ++ R) := by simp [CMap.vals]
    have hn : c ∉ CMap.vals (E ++ R) := by
      have := h.nodupC
      simp only [CMap.vals, List.cons_append, List.map_cons, List.nodup_cons] at this
      exact this.1
    have h2 := hb _ w c hc h
    rw [List.cons_append, drop_head hn] at h2
    simp only [CMap.vals, List.map_cons, eachConn]
    split
    · rename_i w1 r heq; rw [heq] at h2; exact ih R _ _ h2
    · rename_i w1 heq; rw [heq] at h2; exact ih R _ _ h2

/-- a loop whose body keeps the visited connections out -/
theorem wi_eachConn_keep (body : Nat → World → World × Option Bool) (merge : Bool → Bool → Bool)
    (hb : ∀ (w : World) (c : Nat), c ∈ O.vals → WInv q O M w → WInv q O M (body c w).1) :
    ∀ (cs : List Nat) (w : World) (b : Bool), (∀ c ∈ cs, c ∈ O.vals) → WInv q O M w →
      WInv q O M (eachConn body merge cs (w, b)).1 := by
  intro cs
  induction cs with
  | nil => intro w b _ h; simpa [eachConn] using h
  | cons c cs ih =>
    intro w b hsub h
    have h2 := hb w c (hsub c (by simp)) h
    simp only [eachConn]
    split
    · rename_i w1 r heq; rw [heq] at h2; exact ih _ _ (fun d hd => hsub d (by simp [hd])) h2
    · rename_i w1 heq; rw [heq] at h2; exact ih _ _ (fun d hd => hsub d (by simp [hd])) h2

theorem wi_foldl_keep (body : Nat → World → World)
    (hb : ∀ (w : World) (c : Nat), c ∈ O.vals → WInv q O M w → WInv q O M (body c w)) :
    ∀ (cs : List Nat) (w : World), (∀ c ∈ cs, c ∈ O.vals) → WInv q O M w →
      WInv q O M (cs.foldl (fun w c => body c w) w) := by
  intro cs
  induction cs with
  | nil => intro w _ h; simpa using h
  | cons c cs ih =>
    intro w hsub h
    simp only [List.foldl_cons]
    exact ih _ (fun d hd => hsub d (by simp [hd])) (hb w c (hsub c (by simp)) h)

theorem wi_beginAll (ctx : Ctx) (hT : QH q ctx) :
    ∀ (cs : List Nat) (w : World), (∀ c ∈ cs, c ∈ O.vals) → WInv q O M w →
      WInv q O M (beginAll ctx cs w).1 := by
  intro cs
  induction cs with
  | nil => intro w _ h; simpa [beginAll] using h
  | cons c cs ih =>
    intro w hsub h
    have h2 := wi_call ctx .B hT h (hsub c (by simp))
    simp only [beginAll]
    split
    · exact ih _ (fun d hd => hsub d (by simp [hd])) h2
    · exact h2

/-- with `p`: a ping of a connection that is out cannot fail -/
theorem call_ping_ok (ctx : Ctx) (hp : q.p = true) (hT : QH q ctx) {c : Nat} (h : WInv q O M w) (hc : c ∈ O.vals) :
    (call ctx .P c w).2 = .ok := by
  obtain ⟨s, hs⟩ := mem_vals.1 hc
  obtain ⟨cn, hcn, h0, _⟩ := h.out _ hs
  simp only [call, hcn, callRes, h.open_of_out hp hcn h0, Bool.false_eq_true, if_false]
  have hno : fault ctx CK.P.fk cn.slice = none := by
    cases hf : fault ctx CK.P.fk cn.slice with
    | none => rfl
    | some m =>
      exfalso
      simp only [fault, Option.map_eq_some_iff] at hf
      obtain ⟨f, hf1, _⟩ := hf
      have hk := List.find?_some hf1
      simp only [CK.fk, Bool.and_eq_true, beq_iff_eq] at hk
      exact ((hT.p hp) f (List.mem_of_find?_eq_some hf1)).2.2.1 hk.1
  rw [hno]

theorem wi_pingAll (ctx : Ctx) (hT : QH q ctx) :
    ∀ (cs : List Nat) (w : World), (∀ c ∈ cs, c ∈ O.vals) → WInv q O M w →
      WInv q O M (pingAll ctx cs w).1 := by
  intro cs
  induction cs with
  | nil => intro w _ h; simpa [pingAll] using h
  | cons c cs ih =>
    intro w hsub h
    have h2 := wi_call ctx .P hT h (hsub c (by simp))
    simp only [pingAll]
    split
    · exact ih _ (fun d hd => hsub d (by simp [hd])) h2
    · rename_i hbad
      cases hp : q.p with
      | false => exact wi_close hp h2 (hsub c (by simp))
      | true =>
        exfalso
        have := call_ping_ok ctx hp hT h (hsub c (by simp))
        rw [this] at hbad
        exact hbad rfl

end GaeaVerif.SessionConns
