import GaeaVerif.Lemmas.C10Rules
/-
  C10: MycatPartitionLongShard.Init builds a `segment` of PartitionLength
  entries, each naming a listed table.
-/
namespace GaeaVerif.C10
open GaeaVerif

theorem segmentOf_length : ∀ (runs : List Int) (k : Int), (∀ l ∈ runs, 0 ≤ l) →
    ((segmentOf runs k).length : Int) = runs.sum
  | [], _, _ => by simp [segmentOf]
  | l :: rest, k, h => by
    have h0 : 0 ≤ l := h l List.mem_cons_self
    have ih := segmentOf_length rest (k + 1) (fun x hx => h x (List.mem_cons_of_mem _ hx))
    simp only [segmentOf, List.length_append, List.length_replicate, List.sum_cons]
    omega

theorem segmentOf_mem : ∀ (runs : List Int) (k x : Int), x ∈ segmentOf runs k →
    k ≤ x ∧ x < k + runs.length
  | [], _, _, h => by simp [segmentOf] at h
  | l :: rest, k, x, h => by
    simp only [segmentOf, List.mem_append, List.mem_replicate] at h
    simp only [List.length_cons]
    rcases h with h | h
    · omega
    · have := segmentOf_mem rest (k + 1) x h
      omega

theorem partitionRuns_length : ∀ (counts lengths : List Int), counts.length = lengths.length →
    (∀ cl ∈ counts.zip lengths, 0 ≤ cl.1) →
    ((partitionRuns counts lengths).length : Int) = counts.sum
  | [], _, _, _ => by simp [partitionRuns]
  | c :: cs, [], h, _ => by simp at h
  | c :: cs, l :: ls, h, hb => by
    have h0 : 0 ≤ c := hb (c, l) (by simp)
    have ih := partitionRuns_length cs ls (by simpa using h)
      (fun cl hcl => hb cl (by simp only [List.zip_cons_cons, List.mem_cons]; exact Or.inr hcl))
    unfold partitionRuns at ih ⊢
    simp only [List.zip_cons_cons, List.flatMap_cons, List.length_append, List.length_replicate, List.sum_cons]
    omega

theorem partitionRuns_mem (counts lengths : List Int) (x : Int) (h : x ∈ partitionRuns counts lengths) :
    ∃ cl ∈ counts.zip lengths, x = cl.2 := by
  unfold partitionRuns at h
  obtain ⟨cl, hcl, hx⟩ := List.mem_flatMap.mp h
  exact ⟨cl, hcl, (List.mem_replicate.mp hx).2⟩

theorem partitionLongInit_spec (n : Int) (pc pl : Str) (seg : List Int)
    (h : partitionLongInit n pc pl = .ok seg) :
    seg.length = partitionLength ∧ ∀ x ∈ seg, 0 ≤ x ∧ x < n := by
  unfold partitionLongInit at h
  repeat' split at h
  all_goals cases h
  rename_i _ countList _ _ lengthList _ hlen hany hsum hruns
  have hb : ∀ cl ∈ countList.zip lengthList, 0 ≤ cl.1 ∧ 0 ≤ cl.2 := by
    intro cl hcl
    have : ¬ ((cl.1 < 0 || cl.1 > n || cl.2 < 0 || cl.2 > (partitionLength : Int)) = true) := by
      intro hbad
      apply hany
      exact List.any_eq_true.mpr ⟨cl, hcl, hbad⟩
    simp only [Bool.or_eq_true, decide_eq_true_eq, not_or, Int.not_lt] at this
    omega
  have hnn : ∀ l ∈ partitionRuns countList lengthList, 0 ≤ l := by
    intro l hl
    obtain ⟨cl, hcl, hx⟩ := partitionRuns_mem _ _ _ hl
    have := (hb cl hcl).2
    omega
  have hl1 := segmentOf_length (partitionRuns countList lengthList) 0 hnn
  have hl2 := partitionRuns_length countList lengthList (by omega) (fun cl hcl => (hb cl hcl).1)
  refine ⟨?_, ?_⟩
  · have : ((segmentOf (partitionRuns countList lengthList) 0).length : Int) = (partitionLength : Int) := by
      rw [hl1]; omega
    omega
  · intro x hx
    have := segmentOf_mem _ 0 x hx
    omega

end GaeaVerif.C10
