/-
  C02 helper lemmas: merging per-shard top-(o+c) prefixes.  Generic in the
  element type and in the (total, transitive) comparison.
-/
namespace GaeaVerif.Merge
open List

section TopK
variable {α : Type} {le : α → α → Bool}

/-- number of elements of `P` that sort before or with `r` -/
def countLe (le : α → α → Bool) (P : List α) (r : α) : Nat := (P.filter (fun p => le p r)).length

theorem countLe_perm {P Q : List α} (h : P.Perm Q) (r : α) : countLe le P r = countLe le Q r := by
  unfold countLe; exact (h.filter _).length_eq

theorem countLe_append (P Q : List α) (r : α) : countLe le (P ++ Q) r = countLe le P r + countLe le Q r := by
  simp [countLe]

/-- in a sorted list, an element among the first `n` that does not sort before
    `r` leaves fewer than `n` elements that do -/
theorem count_lt_of_mem_take (trans : ∀ a b c, le a b → le b c → le a c) (r : α) :
    ∀ (l : List α) (n : Nat), l.Pairwise (fun a b => le a b) → ∀ x ∈ l.take n, le x r = false → countLe le l r < n
  | [], n, _, x, hx, _ => by simp at hx
  | y :: l', 0, _, x, hx, _ => by simp at hx
  | y :: l', n + 1, hs, x, hx, hxr => by
    rw [List.take_succ_cons, List.mem_cons] at hx
    have hs' := List.pairwise_cons.mp hs
    rcases hx with rfl | hx
    · -- nothing at or after `x` sorts before `r`
      have hnone : ∀ z ∈ x :: l', le z r = false := by
        intro z hz
        rcases List.mem_cons.mp hz with rfl | hz
        · exact hxr
        · cases h : le z r
          · rfl
          · have := trans x z r (hs'.1 z hz) h
            rw [hxr] at this; exact absurd this (by simp)
      have : (x :: l').filter (fun p => le p r) = [] := by
        apply List.filter_eq_nil_iff.mpr
        intro z hz; simp [hnone z hz]
      simp [countLe, this]
    · have ih := count_lt_of_mem_take trans r l' n hs'.2 x hx hxr
      simp only [countLe] at ih ⊢
      rw [List.filter_cons]
      split
      · simp only [List.length_cons]; omega
      · omega

/-- the `n` smallest elements of `P` sort before every `r` that has at least
    `n` elements of `P` before it -/
theorem take_le_of_count (trans : ∀ a b c, le a b → le b c → le a c) (total : ∀ a b, le a b || le b a)
    (P R : List α) (n : Nat) (H : ∀ r ∈ R, n ≤ countLe le P r) :
    ∀ x ∈ (P.mergeSort le).take n, ∀ r ∈ R, le x r = true := by
  intro x hx r hr
  cases h : le x r
  · have hs := List.pairwise_mergeSort trans total P
    have := count_lt_of_mem_take trans r (P.mergeSort le) n hs x hx h
    rw [countLe_perm (List.mergeSort_perm P le) r] at this
    have := H r hr
    omega
  · rfl

theorem topk_sorted (trans : ∀ a b c, le a b → le b c → le a c) (total : ∀ a b, le a b || le b a)
    (P R : List α) (n : Nat) (H : ∀ r ∈ R, n ≤ countLe le P r) :
    ((P.mergeSort le).take n ++ ((P.mergeSort le).drop n ++ R).mergeSort le).Pairwise (fun a b => le a b) := by
  have hs := List.pairwise_mergeSort trans total P
  rw [List.pairwise_append]
  refine ⟨?_, List.pairwise_mergeSort trans total _, ?_⟩
  · exact hs.sublist (List.take_sublist _ _)
  · intro a ha b hb
    rw [List.mem_mergeSort, List.mem_append] at hb
    rcases hb with hb | hb
    · have : (P.mergeSort le) = (P.mergeSort le).take n ++ (P.mergeSort le).drop n := (List.take_append_drop n _).symm
      rw [this, List.pairwise_append] at hs
      exact hs.2.2 a ha b hb
    · exact take_le_of_count trans total P R n H a ha b hb

theorem topk_perm (P R : List α) (n : Nat) :
    ((P.mergeSort le).take n ++ ((P.mergeSort le).drop n ++ R).mergeSort le).Perm (P ++ R) := by
  have h1 : (((P.mergeSort le).drop n ++ R).mergeSort le).Perm ((P.mergeSort le).drop n ++ R) := List.mergeSort_perm _ _
  have h2 : ((P.mergeSort le).take n ++ ((P.mergeSort le).drop n ++ R)).Perm (P ++ R) := by
    rw [← List.append_assoc, List.take_append_drop]
    exact (List.mergeSort_perm P le).append_right R
  exact (h1.append_left _).trans h2

/-- the window `[o, o+c)` only looks at the first `o+c` elements -/
theorem window_prefix (A X : List α) (o c : Nat) (h : X ≠ [] → o + c ≤ A.length) :
    ((A ++ X).drop o).take c = (A.drop o).take c := by
  by_cases hX : X = []
  · subst hX; simp
  · have hl := h hX
    rw [List.drop_append_of_le_length (by omega)]
    rw [List.take_append_of_le_length (by simp; omega)]

theorem take_drop_take (l : List α) (o c : Nat) : ((l.take (o + c)).drop o).take c = (l.drop o).take c := by
  rw [List.drop_take]
  simp [List.take_take]

/-- shard lists: the first `n` of every list / the rest -/
def heads (n : Nat) (Ls : List (List α)) : List α := (Ls.map (List.take n)).flatten
def tails (n : Nat) (Ls : List (List α)) : List α := (Ls.map (List.drop n)).flatten

theorem heads_tails_perm (n : Nat) : ∀ Ls : List (List α), (heads n Ls ++ tails n Ls).Perm Ls.flatten
  | [] => by simp [heads, tails]
  | L :: Ls => by
    have ih := heads_tails_perm n Ls
    simp only [heads, tails, List.map_cons, List.flatten_cons] at ih ⊢
    -- (take ++ H) ++ (drop ++ T) ~ (take ++ drop) ++ (H ++ T)
    have : (List.take n L ++ (Ls.map (List.take n)).flatten ++ (List.drop n L ++ (Ls.map (List.drop n)).flatten)).Perm
        (List.take n L ++ List.drop n L ++ ((Ls.map (List.take n)).flatten ++ (Ls.map (List.drop n)).flatten)) := by
      simp only [List.append_assoc]
      apply List.Perm.append_left
      rw [← List.append_assoc, ← List.append_assoc]
      exact List.perm_append_comm.append_right _
    rw [List.take_append_drop] at this
    exact this.trans (ih.append_left L)

theorem countLe_heads (n : Nat) (r : α) : ∀ (Ls : List (List α)) (L : List α), L ∈ Ls →
    countLe le (L.take n) r ≤ countLe le (heads n Ls) r
  | [], _, h => by simp at h
  | L' :: Ls, L, h => by
    simp only [heads, List.map_cons, List.flatten_cons]
    rw [countLe_append]
    rcases List.mem_cons.mp h with rfl | h
    · omega
    · have := countLe_heads n r Ls L h
      simp only [heads] at this
      omega

/-- every element beyond the first `n` of a sorted shard list has `n` elements of the heads before it -/
theorem tails_count (n : Nat) (Ls : List (List α)) (hs : ∀ L ∈ Ls, L.Pairwise (fun a b => le a b)) :
    ∀ r ∈ tails n Ls, n ≤ countLe le (heads n Ls) r := by
  intro r hr
  simp only [tails, List.mem_flatten, List.mem_map] at hr
  obtain ⟨D, ⟨L, hL, rfl⟩, hrD⟩ := hr
  have hsL := hs L hL
  have hlen : n < L.length := by
    have := List.length_pos_of_mem hrD
    simp at this; omega
  -- all of take n L sorts before r
  have hall : ∀ x ∈ L.take n, le x r = true := by
    rw [← List.take_append_drop n L, List.pairwise_append] at hsL
    exact fun x hx => hsL.2.2 x hx r hrD
  have : countLe le (L.take n) r = n := by
    simp only [countLe]
    rw [List.filter_eq_self.mpr (by simpa using hall)]
    simp; omega
  have := countLe_heads (le := le) n r Ls L hL
  omega

/-- **Top-k merge.**  Every shard list is sorted; merging (sorting) the first
    `o+c` elements of every shard and taking `[o, o+c)` is the window
    `[o, o+c)` of some sorted arrangement of all elements. -/
theorem topk_merge (trans : ∀ a b c, le a b → le b c → le a c) (total : ∀ a b, le a b || le b a)
    (Ls : List (List α)) (hs : ∀ L ∈ Ls, L.Pairwise (fun a b => le a b)) (o c : Nat) :
    ∃ S : List α, S.Perm Ls.flatten ∧ S.Pairwise (fun a b => le a b) ∧
      (S.drop o).take c = (((heads (o + c) Ls).mergeSort le).drop o).take c := by
  let P := heads (o + c) Ls
  let R := tails (o + c) Ls
  have H := tails_count (le := le) (o + c) Ls hs
  refine ⟨(P.mergeSort le).take (o + c) ++ ((P.mergeSort le).drop (o + c) ++ R).mergeSort le, ?_, ?_, ?_⟩
  · exact (topk_perm P R (o + c)).trans (heads_tails_perm (o + c) Ls)
  · exact topk_sorted trans total P R (o + c) H
  · rw [window_prefix, take_drop_take]
    intro hne
    rw [List.length_take, List.length_mergeSort]
    have : o + c ≤ P.length := by
      by_cases hd : (P.mergeSort le).drop (o + c) = []
      · have hR : R ≠ [] := by
          intro hR
          apply hne
          simp [hd, hR]
        obtain ⟨r, hr⟩ := List.exists_mem_of_ne_nil R hR
        have h1 : o + c ≤ countLe le P r := H r hr
        have h2 : countLe le P r ≤ P.length := List.length_filter_le _ _
        omega
      · have h1 := List.length_pos_iff.mpr hd
        rw [List.length_drop, List.length_mergeSort] at h1
        omega
    omega

end TopK
end GaeaVerif.Merge
