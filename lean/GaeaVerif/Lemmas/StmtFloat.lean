import GaeaVerif.Lemmas.StmtRelex
/-
  What can be proved about Model/StmtGoFloat.lean, the model of Go's `%v`
  formatting of a float (C15: a FLOAT / DOUBLE parameter is written into the
  statement by `util.ItoString` = `fmt.Sprintf("%v", f)`):

    fmtV_numLit      a finite float is rendered as a numeric literal
                     `[-] digits [. digits] [e (+|-) digits]`
    fmtV_word        every float is rendered as a bare word for the statement
                     lexer (`Word` of Lemmas/StmtRelex.lean), so `ArgFits` holds
    findShortest_inB, chosenOf_inB
                     the number whose digits are printed lies between the
                     midpoints to the neighbouring floats (a midpoint only when
                     the mantissa is even)
    digitsTrim_value the digit list and decimal point position denote that number
    fmtE_value, fmtF_value, fmtDigits_value
                     the text written (`%e` or `%f` form) denotes those digits
                     (`readUNum`, a reader of numeric literals, as reference)
    float_literal_within_half_ulp
                     all of it together: the literal of a finite non-zero float
                     denotes a decimal inside the float's rounding interval

  That the server reads such a decimal back as the same double (its reader of
  numeric literals rounds to nearest, ties to even) is not provable here: the
  server is not modelled.  It is the named assumption `ReadsNearestDouble` of
  Props/C15.lean.
-/
set_option linter.unusedSimpArgs false

namespace GaeaVerif.StmtFloat
open GaeaVerif GaeaVerif.StmtGoFloat GaeaVerif.StmtLex GaeaVerif.StmtBind GaeaVerif.C15

/-! ### digits -/

/-- an ASCII digit -/
def IsDig (c : UInt8) : Prop := 0x30 ≤ c ∧ c ≤ 0x39

/-- a non-empty run of ASCII digits -/
def Digs1 (l : Bytes) : Prop := l ≠ [] ∧ ∀ c ∈ l, IsDig c

theorem digitChar_isDig (d : Nat) (h : d < 10) : IsDig (digitChar d) := by
  unfold IsDig digitChar
  have : (UInt8.ofNat (48 + d)).toNat = 48 + d := by simp [UInt8.toNat_ofNat']; omega
  constructor <;> (simp only [UInt8.le_iff_toNat_le, this]; simp; try omega)

theorem char_isDigit_range (c : Char) (h : c.isDigit = true) : 48 ≤ c.toNat ∧ c.toNat ≤ 57 := by
  simp [Char.isDigit] at h
  have h1 := h.1
  have h2 := h.2
  simp only [UInt32.le_iff_toNat_le] at h1 h2
  exact ⟨h1, h2⟩

theorem ofNat_char_isDig (c : Char) (h : c.isDigit = true) : IsDig (UInt8.ofNat c.toNat) := by
  obtain ⟨h1, h2⟩ := char_isDigit_range c h
  unfold IsDig
  have : (UInt8.ofNat c.toNat).toNat = c.toNat := by simp [UInt8.toNat_ofNat']; omega
  constructor <;> (simp only [UInt8.le_iff_toNat_le, this]; simp; try omega)

theorem digitsOf_lt (n : Nat) : ∀ d ∈ digitsOf n, d < 10 := by
  intro d hd
  unfold digitsOf at hd
  split at hd
  · simp at hd
  · simp only [List.mem_map] at hd
    obtain ⟨c, hc, rfl⟩ := hd
    have := char_isDigit_range c (Nat.isDigit_of_mem_toDigits (by decide) (by decide) hc)
    omega

theorem digitsTrim_lt (r : Nat) (s : Int) : ∀ d ∈ (digitsTrim r s).1, d < 10 := by
  intro d hd
  unfold digitsTrim at hd
  simp only [List.mem_reverse] at hd
  have := (List.dropWhile_sublist (fun x => x == 0)).subset hd
  exact digitsOf_lt r d (List.mem_reverse.mp this)

theorem shortest_lt (v4 l4 u4 : Nat) (e : Int) (inc : Bool) : ∀ d ∈ (shortest v4 l4 u4 e inc).1, d < 10 := by
  unfold shortest; exact digitsTrim_lt _ _

/-! ### the numeric-literal grammar -/

/-- `digits [ '.' digits ] [ 'e' ('+'|'-') digits ]` -/
def UNumLit (b : Bytes) : Prop :=
  ∃ ip fp ep, b = ip ++ fp ++ ep ∧ Digs1 ip ∧
    (fp = [] ∨ ∃ f, fp = 0x2e :: f ∧ Digs1 f) ∧
    (ep = [] ∨ ∃ s e, ep = 0x65 :: s :: e ∧ (s = 0x2b ∨ s = 0x2d) ∧ Digs1 e)

/-- a numeric literal with an optional minus sign -/
def NumLit (b : Bytes) : Prop := UNumLit b ∨ ∃ u, b = 0x2d :: u ∧ UNumLit u

theorem digs1_map (l : List Nat) (hne : l ≠ []) (h : ∀ d ∈ l, d < 10) : Digs1 (l.map digitChar) := by
  refine ⟨by simpa using hne, ?_⟩
  intro c hc
  simp only [List.mem_map] at hc
  obtain ⟨d, hd, rfl⟩ := hc
  exact digitChar_isDig d (h d hd)

theorem headD_lt (ds : List Nat) (h : ∀ d ∈ ds, d < 10) : ds.headD 0 < 10 := by
  cases ds with
  | nil => simp
  | cons a r => simpa using h a (by simp)

theorem getD_lt (ds : List Nat) (h : ∀ d ∈ ds, d < 10) (i : Nat) : ds.getD i 0 < 10 := by
  rw [List.getD_eq_getElem?_getD]
  cases hi : ds[i]? with
  | none => simp
  | some d => simpa using h d (List.mem_of_getElem? hi)

theorem fmtE_numLit (ds : List Nat) (dp : Int) (h : ∀ d ∈ ds, d < 10) : UNumLit (fmtE ds dp) := by
  unfold fmtE
  simp only
  refine ⟨[digitChar (ds.headD 0)],
    (if (ds.drop 1).isEmpty then [] else 0x2e :: (ds.drop 1).map digitChar),
    0x65 :: (if dp - 1 < 0 then 0x2d else 0x2b) ::
      ((if (dp - 1).natAbs < 10 then [0x30] else []) ++
        (Nat.toDigits 10 (dp - 1).natAbs).map fun c => UInt8.ofNat c.toNat), ?_, ?_, ?_, ?_⟩
  · simp
  · refine ⟨by simp, ?_⟩
    intro c hc
    have := List.mem_singleton.mp hc; subst this
    exact digitChar_isDig _ (headD_lt ds h)
  · have hmem : ∀ d ∈ ds.drop 1, d < 10 := fun d hd => h d (List.mem_of_mem_drop hd)
    cases hr : ds.drop 1 with
    | nil => left; rfl
    | cons a t =>
      right
      rw [hr] at hmem
      exact ⟨(a :: t).map digitChar, rfl, digs1_map _ (by simp) hmem⟩
  · right
    refine ⟨_, _, rfl, ?_, ?_, ?_⟩
    · split <;> simp
    · intro e
      have := congrArg List.length e
      simp at this
    · intro c hc
      simp only [List.mem_append, List.mem_map] at hc
      rcases hc with hc | ⟨ch, hch, rfl⟩
      · split at hc
        · simp at hc; subst hc; exact ⟨by decide, by decide⟩
        · simp at hc
      · exact ofNat_char_isDig ch (Nat.isDigit_of_mem_toDigits (by decide) (by decide) hch)

theorem fmtF_numLit (ds : List Nat) (dp : Int) (h : ∀ d ∈ ds, d < 10) : UNumLit (fmtF ds dp) := by
  unfold fmtF
  simp only
  refine ⟨_, _, [], (List.append_nil _).symm, ?_, ?_, Or.inl rfl⟩
  · by_cases hdp : dp > 0
    · rw [if_pos hdp]
      refine ⟨?_, ?_⟩
      · intro e
        have := congrArg List.length e
        simp at this; omega
      · intro c hc
        simp only [List.mem_map, List.mem_range] at hc
        obtain ⟨i, _, rfl⟩ := hc
        split
        · exact digitChar_isDig _ (getD_lt ds h i)
        · exact ⟨by decide, by decide⟩
    · rw [if_neg hdp]
      refine ⟨by simp, ?_⟩
      intro c hc; simp at hc; subst hc; exact ⟨by decide, by decide⟩
  · by_cases hp : (ds.length : Int) - dp > 0
    · have hp' : (if (ds.length : Int) - dp > 0 then ((ds.length : Int) - dp).toNat else 0) > 0 := by
        rw [if_pos hp]; omega
      rw [if_pos hp']
      right
      refine ⟨_, rfl, ?_, ?_⟩
      · intro e
        have := congrArg List.length e
        simp at this; omega
      · intro c hc
        simp only [List.mem_map, List.mem_range] at hc
        obtain ⟨i, _, rfl⟩ := hc
        split
        · exact ⟨by decide, by decide⟩
        · exact digitChar_isDig _ (getD_lt ds h _)
    · have hp' : ¬ (if (ds.length : Int) - dp > 0 then ((ds.length : Int) - dp).toNat else 0) > 0 := by
        rw [if_neg hp]; omega
      rw [if_neg hp']
      left; rfl

theorem fmtDigits_numLit (ds : List Nat) (dp : Int) (h : ∀ d ∈ ds, d < 10) : UNumLit (fmtDigits ds dp) := by
  unfold fmtDigits; split
  · exact fmtE_numLit ds dp h
  · exact fmtF_numLit ds dp h

theorem fmtMagnitude_numLit (dbl : Bool) (bits : Nat) : UNumLit (fmtMagnitude dbl bits) := by
  unfold fmtMagnitude
  split
  · exact ⟨[0x30], [], [], rfl, ⟨by simp, by intro c hc; simp at hc; subst hc; exact ⟨by decide, by decide⟩⟩,
      Or.inl rfl, Or.inl rfl⟩
  · exact fmtDigits_numLit _ _ (by unfold shortestOf; exact shortest_lt _ _ _ _ _)

/-- **A finite float is rendered as a numeric literal**: an optional minus
    sign, digits, optionally `.` and digits, optionally `e`, a sign and digits. -/
theorem fmtV_numLit (dbl : Bool) (bits : Nat) (hf : finite dbl bits = true) : NumLit (fmtV dbl bits) := by
  unfold fmtV
  rw [if_pos hf]
  split
  · right; exact ⟨_, rfl, fmtMagnitude_numLit dbl bits⟩
  · left; simpa using fmtMagnitude_numLit dbl bits

/-- A numeric literal starts with a digit, or with `-` and a digit: it is none
    of `NaN`, `+Inf`, `-Inf`, and no identifier, string, comment or placeholder. -/
theorem uNumLit_head (b : Bytes) (h : UNumLit b) : ∃ c r, b = c :: r ∧ IsDig c := by
  obtain ⟨ip, fp, ep, rfl, ⟨hne, hd⟩, _, _⟩ := h
  cases ip with
  | nil => exact absurd rfl hne
  | cons c r => exact ⟨c, r ++ fp ++ ep, by simp, hd c (by simp)⟩

theorem numLit_head (b : Bytes) (h : NumLit b) :
    (∃ c r, b = c :: r ∧ IsDig c) ∨ (∃ c r, b = 0x2d :: c :: r ∧ IsDig c) := by
  rcases h with h | ⟨u, rfl, h⟩
  · exact Or.inl (uNumLit_head b h)
  · obtain ⟨c, r, rfl, hc⟩ := uNumLit_head u h
    exact Or.inr ⟨c, r, rfl, hc⟩

/-! ### a numeric literal is a bare word for the statement lexer -/

theorem wordByte_of_isDig (c : UInt8) (h : IsDig c) : wordByte c = true := by
  obtain ⟨h1, h2⟩ := h
  simp [wordByte, h1, h2]

theorem wordAux_append_all (a b : Bytes) (ha : ∀ c ∈ a, wordByte c = true) (hb : WordAux b) : WordAux (a ++ b) := by
  induction a with
  | nil => exact hb
  | cons c r ih =>
    exact ⟨Or.inl (ha c (by simp)), ih (fun c hc => ha c (List.mem_cons_of_mem _ hc))⟩

theorem wordAux_all (a : Bytes) (ha : ∀ c ∈ a, wordByte c = true) : WordAux a := by
  have := wordAux_append_all a [] ha trivial
  simpa using this

theorem uNumLit_wordAux (b : Bytes) (h : UNumLit b) : WordAux b := by
  obtain ⟨ip, fp, ep, rfl, ⟨_, hip⟩, hfp, hep⟩ := h
  have hepw : WordAux ep := by
    rcases hep with rfl | ⟨s, e, rfl, hs, hne, he⟩
    · trivial
    · have hew : WordAux e := wordAux_all e (fun c hc => wordByte_of_isDig c (he c hc))
      refine ⟨Or.inl (by decide), ?_, hew⟩
      rcases hs with rfl | rfl
      · exact Or.inl (by decide)
      · cases e with
        | nil => exact absurd rfl hne
        | cons x r => exact Or.inr ⟨rfl, x, r, rfl, wordByte_of_isDig x (he x (by simp))⟩
  have hfpw : ∀ c ∈ fp, wordByte c = true := by
    rcases hfp with rfl | ⟨f, rfl, _, hf⟩
    · simp
    · intro c hc
      simp at hc
      rcases hc with rfl | hc
      · decide
      · exact wordByte_of_isDig c (hf c hc)
  rw [List.append_assoc]
  exact wordAux_append_all ip _ (fun c hc => wordByte_of_isDig c (hip c hc))
    (wordAux_append_all fp ep hfpw hepw)

theorem numLit_word (b : Bytes) (h : NumLit b) : Word b := by
  rcases h with h | ⟨u, rfl, h⟩
  · obtain ⟨c, r, rfl, _⟩ := uNumLit_head b h
    exact ⟨by simp, uNumLit_wordAux _ h⟩
  · obtain ⟨c, r, rfl, hc⟩ := uNumLit_head u h
    exact ⟨by simp, Or.inr ⟨rfl, c, r, rfl, wordByte_of_isDig c hc⟩, uNumLit_wordAux _ h⟩

/-- Whatever its bits, a float is rendered as a bare word (a numeric literal
    when finite; `NaN`, `+Inf`, `-Inf` otherwise — words too, which is why the
    repaired `bindStmtArgs` refuses those values, `bound_float_finite`). -/
theorem fmtV_word (dbl : Bool) (bits : Nat) : Word (fmtV dbl bits) := by
  by_cases hf : finite dbl bits = true
  · exact numLit_word _ (fmtV_numLit dbl bits hf)
  · unfold fmtV
    rw [if_neg hf]
    split
    · exact ⟨by simp, Or.inl (by decide), Or.inl (by decide), Or.inl (by decide), trivial⟩
    · split
      · exact ⟨by simp, Or.inr ⟨rfl, 0x49, _, rfl, by decide⟩, Or.inl (by decide), Or.inl (by decide),
          Or.inl (by decide), trivial⟩
      · exact ⟨by simp, Or.inl (by decide), Or.inl (by decide), Or.inl (by decide), Or.inl (by decide), trivial⟩

/-! ### the digits chosen lie inside the rounding interval of the float -/

/-- `x` lies between the bounds `lo` and `up`; a bound itself only when `inc`. -/
def InB (lo up : Nat) (inc : Bool) (x : Nat) : Prop :=
  (lo < x ∨ (inc = true ∧ x = lo)) ∧ (x < up ∨ (inc = true ∧ x = up))

theorem okdown_iff (lo a : Nat) (inc : Bool) :
    (decide (a > lo) || (inc && a == lo)) = true ↔ (lo < a ∨ (inc = true ∧ a = lo)) := by
  simp

theorem okup_iff (up a : Nat) (inc : Bool) :
    (decide (a < up) || (inc && a == up)) = true ↔ (a < up ∨ (inc = true ∧ a = up)) := by
  simp

/-- Whatever the fuel and the starting exponent, the number `findShortest`
    returns lies inside the bounds (given that `v` itself lies strictly inside). -/
theorem findShortest_inB (v lo up : Nat) (inc : Bool) (h : lo < v ∧ v < up) :
    ∀ fuel j, InB lo up inc (findShortest v lo up inc fuel j).1 := by
  intro fuel
  induction fuel with
  | zero =>
    intro j
    have hp : 0 < 10 ^ j := Nat.pos_of_ne_zero (by simp)
    have hdown : v / 10 ^ j * 10 ^ j ≤ v := Nat.div_mul_le_self v _
    have hup : v < v / 10 ^ j * 10 ^ j + 10 ^ j := by
      have := Nat.div_add_mod v (10 ^ j)
      have := Nat.mod_lt v hp
      rw [Nat.mul_comm]; omega
    unfold findShortest
    simp only
    by_cases hd : (lo < v / 10 ^ j * 10 ^ j ∨ (inc = true ∧ v / 10 ^ j * 10 ^ j = lo))
    · by_cases hu : (v / 10 ^ j * 10 ^ j + 10 ^ j < up ∨ (inc = true ∧ v / 10 ^ j * 10 ^ j + 10 ^ j = up))
      · have hd' := (okdown_iff lo _ inc).mpr hd
        have hu' := (okup_iff up _ inc).mpr hu
        simp only [hd', hu', Bool.and_self, Bool.or_self, if_true]
        repeat' split
        all_goals first
          | exact ⟨Or.inl (by omega), hu⟩
          | exact ⟨hd, Or.inl (by omega)⟩
      · have hd' := (okdown_iff lo _ inc).mpr hd
        have hu' : (decide (v / 10 ^ j * 10 ^ j + 10 ^ j < up) || (inc && v / 10 ^ j * 10 ^ j + 10 ^ j == up)) = false := by
          rw [Bool.eq_false_iff]; exact fun e => hu ((okup_iff up _ inc).mp e)
        simp only [hd', hu', Bool.and_false, Bool.or_false, if_true, Bool.false_eq_true, if_false]
        exact ⟨hd, Or.inl (by omega)⟩
    · have hd' : (decide (v / 10 ^ j * 10 ^ j > lo) || (inc && v / 10 ^ j * 10 ^ j == lo)) = false := by
        rw [Bool.eq_false_iff]; exact fun e => hd ((okdown_iff lo _ inc).mp e)
      by_cases hu : (v / 10 ^ j * 10 ^ j + 10 ^ j < up ∨ (inc = true ∧ v / 10 ^ j * 10 ^ j + 10 ^ j = up))
      · have hu' := (okup_iff up _ inc).mpr hu
        simp only [hd', hu', Bool.false_and, Bool.false_or, if_true, Bool.false_eq_true, if_false]
        exact ⟨Or.inl (by omega), hu⟩
      · have hu' : (decide (v / 10 ^ j * 10 ^ j + 10 ^ j < up) || (inc && v / 10 ^ j * 10 ^ j + 10 ^ j == up)) = false := by
          rw [Bool.eq_false_iff]; exact fun e => hu ((okup_iff up _ inc).mp e)
        simp only [hd', hu', Bool.or_self, Bool.false_eq_true, if_false]
        exact ⟨Or.inl h.1, Or.inl h.2⟩
  | succ f ih =>
    intro j
    have hp : 0 < 10 ^ j := Nat.pos_of_ne_zero (by simp)
    have hdown : v / 10 ^ j * 10 ^ j ≤ v := Nat.div_mul_le_self v _
    have hup : v < v / 10 ^ j * 10 ^ j + 10 ^ j := by
      have := Nat.div_add_mod v (10 ^ j)
      have := Nat.mod_lt v hp
      rw [Nat.mul_comm]; omega
    unfold findShortest
    simp only
    by_cases hd : (lo < v / 10 ^ j * 10 ^ j ∨ (inc = true ∧ v / 10 ^ j * 10 ^ j = lo))
    · by_cases hu : (v / 10 ^ j * 10 ^ j + 10 ^ j < up ∨ (inc = true ∧ v / 10 ^ j * 10 ^ j + 10 ^ j = up))
      · have hd' := (okdown_iff lo _ inc).mpr hd
        have hu' := (okup_iff up _ inc).mpr hu
        simp only [hd', hu', Bool.and_self, Bool.or_self, if_true]
        repeat' split
        all_goals first
          | exact ⟨Or.inl (by omega), hu⟩
          | exact ⟨hd, Or.inl (by omega)⟩
      · have hd' := (okdown_iff lo _ inc).mpr hd
        have hu' : (decide (v / 10 ^ j * 10 ^ j + 10 ^ j < up) || (inc && v / 10 ^ j * 10 ^ j + 10 ^ j == up)) = false := by
          rw [Bool.eq_false_iff]; exact fun e => hu ((okup_iff up _ inc).mp e)
        simp only [hd', hu', Bool.and_false, Bool.or_false, if_true, Bool.false_eq_true, if_false]
        exact ⟨hd, Or.inl (by omega)⟩
    · have hd' : (decide (v / 10 ^ j * 10 ^ j > lo) || (inc && v / 10 ^ j * 10 ^ j == lo)) = false := by
        rw [Bool.eq_false_iff]; exact fun e => hd ((okdown_iff lo _ inc).mp e)
      by_cases hu : (v / 10 ^ j * 10 ^ j + 10 ^ j < up ∨ (inc = true ∧ v / 10 ^ j * 10 ^ j + 10 ^ j = up))
      · have hu' := (okup_iff up _ inc).mpr hu
        simp only [hd', hu', Bool.false_and, Bool.false_or, if_true, Bool.false_eq_true, if_false]
        exact ⟨Or.inl (by omega), hu⟩
      · have hu' : (decide (v / 10 ^ j * 10 ^ j + 10 ^ j < up) || (inc && v / 10 ^ j * 10 ^ j + 10 ^ j == up)) = false := by
          rw [Bool.eq_false_iff]; exact fun e => hu ((okup_iff up _ inc).mp e)
        simp only [hd', hu', Bool.or_self, Bool.false_eq_true, if_false]
        split
        · exact ⟨Or.inl h.1, Or.inl h.2⟩
        · exact ih (j - 1)

/-! ### the digit list denotes the chosen number -/

theorem foldl_digits_acc (b : List Nat) (acc : Nat) :
    b.foldl (fun a d => a * 10 + d) acc = acc * 10 ^ b.length + b.foldl (fun a d => a * 10 + d) 0 := by
  induction b generalizing acc with
  | nil => simp
  | cons x b ih =>
    simp only [List.foldl_cons, List.length_cons]
    rw [ih (acc * 10 + x), ih (0 * 10 + x), Nat.pow_succ]
    simp only [Nat.zero_mul, Nat.zero_add, Nat.add_mul]
    rw [Nat.mul_assoc, Nat.mul_comm 10]
    omega

theorem natOfDigits_append (a b : List Nat) : natOfDigits (a ++ b) = natOfDigits a * 10 ^ b.length + natOfDigits b := by
  unfold natOfDigits
  rw [List.foldl_append, foldl_digits_acc]

theorem natOfDigits_digitsOf (n : Nat) : natOfDigits (digitsOf n) = n := by
  unfold digitsOf
  split
  · rename_i h; subst h; rfl
  · have := @Nat.ofDigitChars_ten_toDigits n
    rw [Nat.ofDigitChars_eq_foldl] at this
    refine Eq.trans ?_ this
    unfold natOfDigits
    rw [List.foldl_map]
    congr 1
    funext a c
    simp [Nat.mul_comm]

/-- stripping trailing zeros divides by a power of ten -/
theorem natOfDigits_trim (m : List Nat) :
    natOfDigits m.reverse =
      natOfDigits (m.dropWhile (· == 0)).reverse * 10 ^ (m.length - (m.dropWhile (· == 0)).length) ∧
    (m.dropWhile (· == 0)).length ≤ m.length := by
  induction m with
  | nil => simp [natOfDigits]
  | cons x m ih =>
    by_cases hx : x = 0
    · subst hx
      have hd : (0 :: m).dropWhile (· == 0) = m.dropWhile (· == 0) := by simp [List.dropWhile_cons]
      rw [hd]
      have hl : (0 :: m).length - (m.dropWhile (· == 0)).length =
          (m.length - (m.dropWhile (· == 0)).length) + 1 := by simp only [List.length_cons]; omega
      refine ⟨?_, by simp only [List.length_cons]; omega⟩
      rw [hl, List.reverse_cons, natOfDigits_append, ih.1, Nat.pow_succ, Nat.mul_assoc]
      simp [natOfDigits]
    · have hd : (x :: m).dropWhile (· == 0) = x :: m := by simp [List.dropWhile_cons, hx]
      rw [hd]; simp

/-- **The digits denote the chosen number**: for `(ds, dp) = digitsTrim r s`,
    `ds` read as a number, times the power of ten of the stripped zeros, is `r`
    (so `0.d₁d₂… × 10^dp = r × 10^s`), and `ds` has no more digits than `r`. -/
theorem digitsTrim_value (r : Nat) (s : Int) :
    (digitsTrim r s).1.length ≤ (digitsOf r).length ∧
    natOfDigits (digitsTrim r s).1 * 10 ^ ((digitsOf r).length - (digitsTrim r s).1.length) = r ∧
    (digitsTrim r s).2 = ((digitsOf r).length : Int) + s := by
  have h := natOfDigits_trim (digitsOf r).reverse
  simp only [List.reverse_reverse, List.length_reverse] at h
  have e1 : (digitsTrim r s).1 = ((digitsOf r).reverse.dropWhile (· == 0)).reverse := rfl
  refine ⟨?_, ?_, rfl⟩
  · rw [e1, List.length_reverse]; exact h.2
  · rw [e1, List.length_reverse, ← h.1, natOfDigits_digitsOf]

/-! ### what a numeric literal denotes -/

def isDigB (c : UInt8) : Bool := 0x30 ≤ c && c ≤ 0x39

theorem isDigB_iff (c : UInt8) : isDigB c = true ↔ IsDig c := by
  unfold isDigB IsDig; simp

/-- value of a run of ASCII digits -/
def digVal (l : Bytes) : Nat := l.foldl (fun a c => a * 10 + (c.toNat - 48)) 0

/-- the exponent part: nothing, or `e`, a sign and at least one digit -/
def readExp : Bytes → Option Int
  | [] => some 0
  | 0x65 :: s :: e =>
    if e ≠ [] ∧ e.all isDigB = true then
      (if s = 0x2b then some (digVal e : Int) else if s = 0x2d then some (-(digVal e : Int)) else none)
    else none
  | _ => none

/-- Reads a whole string `digits [ . digits ] [ e ± digits ]` as the pair
    `(M, E)` that denotes `M × 10^E`: `M` the digits before and after the point
    read as one number, `E` the exponent minus the number of digits after the
    point.  `none` for anything else. -/
def readUNum (b : Bytes) : Option (Nat × Int) :=
  let ip := b.takeWhile isDigB
  if ip = [] then none else
  match b.dropWhile isDigB with
  | 0x2e :: t =>
    let f := t.takeWhile isDigB
    if f = [] then none
    else (readExp (t.dropWhile isDigB)).map fun x => (digVal (ip ++ f), x - (f.length : Int))
  | r => (readExp r).map fun x => (digVal ip, x)

/-- exponent parts as `fmtE` writes them -/
def ExpPart (ep : Bytes) (x : Int) : Prop :=
  (ep = [] ∧ x = 0) ∨ ∃ e, Digs1 e ∧ ((ep = 0x65 :: 0x2b :: e ∧ x = digVal e) ∨ (ep = 0x65 :: 0x2d :: e ∧ x = -(digVal e : Int)))

theorem readExp_part (ep : Bytes) (x : Int) (h : ExpPart ep x) : readExp ep = some x := by
  rcases h with ⟨rfl, rfl⟩ | ⟨e, ⟨hne, hd⟩, h⟩
  · rfl
  · have hall : e.all isDigB = true := by
      rw [List.all_eq_true]; intro c hc; exact (isDigB_iff c).mpr (hd c hc)
    rcases h with ⟨rfl, rfl⟩ | ⟨rfl, rfl⟩
    · simp [readExp, hne, hall]
    · simp [readExp, hne, hall]

theorem expPart_head (ep : Bytes) (x : Int) (h : ExpPart ep x) : ep = [] ∨ ∃ t, ep = 0x65 :: t := by
  rcases h with ⟨rfl, _⟩ | ⟨e, _, ⟨rfl, _⟩ | ⟨rfl, _⟩⟩
  · exact Or.inl rfl
  · exact Or.inr ⟨_, rfl⟩
  · exact Or.inr ⟨_, rfl⟩

theorem takeWhile_digs (a r : Bytes) (ha : ∀ c ∈ a, IsDig c) (hr : r = [] ∨ ∃ c t, r = c :: t ∧ isDigB c = false) :
    (a ++ r).takeWhile isDigB = a ∧ (a ++ r).dropWhile isDigB = r := by
  have hp : ∀ c ∈ a, isDigB c = true := fun c hc => (isDigB_iff c).mpr (ha c hc)
  rw [List.takeWhile_append_of_pos hp, List.dropWhile_append_of_pos hp]
  rcases hr with rfl | ⟨c, t, rfl, hc⟩
  · simp
  · simp [hc]

/-- integer part and exponent only -/
theorem readUNum_int (ip ep : Bytes) (x : Int) (hip : Digs1 ip) (hep : ExpPart ep x) :
    readUNum (ip ++ ep) = some (digVal ip, x) := by
  have hr : ep = [] ∨ ∃ c t, ep = c :: t ∧ isDigB c = false := by
    rcases expPart_head ep x hep with h | ⟨t, h⟩
    · exact Or.inl h
    · exact Or.inr ⟨_, t, h, by decide⟩
  obtain ⟨h1, h2⟩ := takeWhile_digs ip ep hip.2 hr
  unfold readUNum
  simp only [h1, h2, if_neg hip.1]
  have hre := readExp_part ep x hep
  rcases expPart_head ep x hep with h | ⟨t, h⟩
  · subst h; simp [hre]
  · subst h; simp [hre]

/-- integer part, fraction and exponent -/
theorem readUNum_frac (ip f ep : Bytes) (x : Int) (hip : Digs1 ip) (hf : Digs1 f) (hep : ExpPart ep x) :
    readUNum (ip ++ 0x2e :: (f ++ ep)) = some (digVal (ip ++ f), x - (f.length : Int)) := by
  have hr : ep = [] ∨ ∃ c t, ep = c :: t ∧ isDigB c = false := by
    rcases expPart_head ep x hep with h | ⟨t, h⟩
    · exact Or.inl h
    · exact Or.inr ⟨_, t, h, by decide⟩
  obtain ⟨h1, h2⟩ := takeWhile_digs ip (0x2e :: (f ++ ep)) hip.2 (Or.inr ⟨0x2e, f ++ ep, rfl, by decide⟩)
  obtain ⟨h3, h4⟩ := takeWhile_digs f ep hf.2 hr
  unfold readUNum
  simp only [h1, h2, if_neg hip.1, h3, h4, if_neg hf.1]
  rw [readExp_part ep x hep]; rfl

/-! ### what `fmtE` and `fmtF` write denotes the digits -/

theorem digVal_acc (b : Bytes) (acc : Nat) :
    b.foldl (fun a c => a * 10 + (c.toNat - 48)) acc = acc * 10 ^ b.length + digVal b := by
  unfold digVal
  induction b generalizing acc with
  | nil => simp
  | cons x b ih =>
    simp only [List.foldl_cons, List.length_cons]
    rw [ih (acc * 10 + (x.toNat - 48)), ih (0 * 10 + (x.toNat - 48)), Nat.pow_succ]
    simp only [Nat.zero_mul, Nat.zero_add, Nat.add_mul]
    rw [Nat.mul_assoc, Nat.mul_comm 10]
    omega

theorem digVal_append (a b : Bytes) : digVal (a ++ b) = digVal a * 10 ^ b.length + digVal b := by
  show (a ++ b).foldl _ 0 = _
  rw [List.foldl_append, digVal_acc]; rfl

theorem digVal_replicate_zero (n : Nat) : digVal (List.replicate n 0x30) = 0 := by
  induction n with
  | zero => rfl
  | succ n ih =>
    rw [List.replicate_succ]
    have : digVal (0x30 :: List.replicate n 0x30) = digVal ([0x30] ++ List.replicate n 0x30) := rfl
    rw [this, digVal_append, ih]; simp [digVal]

theorem digitChar_val (d : Nat) (h : d < 10) : (digitChar d).toNat - 48 = d := by
  unfold digitChar
  have : (UInt8.ofNat (48 + d)).toNat = 48 + d := by simp [UInt8.toNat_ofNat']; omega
  omega

theorem digVal_map_digitChar (l : List Nat) (h : ∀ d ∈ l, d < 10) : digVal (l.map digitChar) = natOfDigits l := by
  unfold digVal natOfDigits
  rw [List.foldl_map]
  generalize (0 : Nat) = acc
  induction l generalizing acc with
  | nil => rfl
  | cons x l ih =>
    simp only [List.foldl_cons]
    rw [digitChar_val x (h x (by simp))]
    exact ih (fun d hd => h d (List.mem_cons_of_mem _ hd)) _

theorem digVal_toDigits (n : Nat) : digVal ((Nat.toDigits 10 n).map fun c => UInt8.ofNat c.toNat) = n := by
  have := @Nat.ofDigitChars_ten_toDigits n
  rw [Nat.ofDigitChars_eq_foldl] at this
  refine Eq.trans ?_ this
  unfold digVal
  rw [List.foldl_map]
  have hmem : ∀ c ∈ Nat.toDigits 10 n, c.isDigit = true :=
    fun c hc => Nat.isDigit_of_mem_toDigits (by decide) (by decide) hc
  generalize (0 : Nat) = acc
  generalize Nat.toDigits 10 n = l at hmem
  induction l generalizing acc with
  | nil => rfl
  | cons x l ih =>
    simp only [List.foldl_cons]
    have hx := char_isDigit_range x (hmem x (by simp))
    have e : (UInt8.ofNat x.toNat).toNat - 48 = x.toNat - '0'.toNat := by
      have : (UInt8.ofNat x.toNat).toNat = x.toNat := by simp [UInt8.toNat_ofNat']; omega
      rw [this]; rfl
    rw [e, Nat.mul_comm acc 10]
    exact ih _ (fun c hc => hmem c (List.mem_cons_of_mem _ hc))

/-- The exponent part `fmtE` writes for the decimal exponent `x`. -/
theorem fmtE_expPart (x : Int) :
    ExpPart (0x65 :: (if x < 0 then 0x2d else 0x2b) ::
      ((if x.natAbs < 10 then [0x30] else []) ++ (Nat.toDigits 10 x.natAbs).map fun c => UInt8.ofNat c.toNat)) x := by
  right
  refine ⟨(if x.natAbs < 10 then [0x30] else []) ++ (Nat.toDigits 10 x.natAbs).map fun c => UInt8.ofNat c.toNat,
    ⟨?_, ?_⟩, ?_⟩
  · intro e
    have := congrArg List.length e
    simp at this
  · intro c hc
    simp only [List.mem_append, List.mem_map] at hc
    rcases hc with hc | ⟨ch, hch, rfl⟩
    · split at hc
      · simp at hc; subst hc; exact ⟨by decide, by decide⟩
      · simp at hc
    · exact ofNat_char_isDig ch (Nat.isDigit_of_mem_toDigits (by decide) (by decide) hch)
  · have hv : digVal ((if x.natAbs < 10 then [0x30] else []) ++
        (Nat.toDigits 10 x.natAbs).map fun c => UInt8.ofNat c.toNat) = x.natAbs := by
      rw [digVal_append, digVal_toDigits]
      split
      · show digVal (List.replicate 1 0x30) * _ + _ = _
        rw [digVal_replicate_zero]; simp
      · simp [digVal]
    rw [hv]
    by_cases hx : x < 0
    · right; rw [if_pos hx]; exact ⟨rfl, by omega⟩
    · left; rw [if_neg hx]; exact ⟨rfl, by omega⟩

/-- **`%e` form**: `d.ddde±xx` denotes `0.d₁d₂… × 10^dp`, i.e. the digits as a
    number times `10^(dp - number of digits)`. -/
theorem fmtE_value (ds : List Nat) (dp : Int) (hne : ds ≠ []) (h : ∀ d ∈ ds, d < 10) :
    readUNum (fmtE ds dp) = some (natOfDigits ds, dp - (ds.length : Int)) := by
  cases ds with
  | nil => exact absurd rfl hne
  | cons d0 rest =>
    have hd0 : d0 < 10 := h d0 (by simp)
    have hrest : ∀ d ∈ rest, d < 10 := fun d hd => h d (List.mem_cons_of_mem _ hd)
    have hip : Digs1 [digitChar d0] :=
      ⟨by simp, fun c hc => by rw [List.mem_singleton.mp hc]; exact digitChar_isDig d0 hd0⟩
    have hep := fmtE_expPart (dp - 1)
    unfold fmtE
    simp only [List.headD_cons, List.drop_succ_cons, List.drop_zero]
    cases rest with
    | nil =>
      simp only [List.isEmpty_nil, if_true, List.append_assoc, List.cons_append, List.nil_append]
      have := readUNum_int [digitChar d0] _ _ hip hep
      simp only [List.cons_append, List.nil_append] at this
      rw [this]
      have e1 : digVal [digitChar d0] = d0 := by
        have := digVal_map_digitChar [d0] (by simpa using hd0)
        simpa [natOfDigits] using this
      simp [e1, natOfDigits]
    | cons d1 r =>
      have hf : Digs1 ((d1 :: r).map digitChar) := digs1_map _ (by simp) hrest
      have := readUNum_frac [digitChar d0] ((d1 :: r).map digitChar) _ _ hip hf hep
      simp only [List.isEmpty_cons, Bool.false_eq_true, if_false, List.append_assoc, List.cons_append,
        List.nil_append] at this ⊢
      rw [this]
      have e1 : digVal (digitChar d0 :: List.map digitChar (d1 :: r)) = natOfDigits (d0 :: d1 :: r) := by
        have := digVal_map_digitChar (d0 :: d1 :: r) h
        simpa using this
      rw [e1]
      simp only [List.length_cons, List.length_map]
      congr 2
      omega

theorem getD_of_lt (ds : List Nat) (i : Nat) (h : i < ds.length) : ds.getD i 0 = ds[i] := by
  rw [List.getD_eq_getElem?_getD, List.getElem?_eq_getElem h]; rfl

theorem intPart_eq (ds : List Nat) (D : Nat) :
    ((List.range D).map fun (i : Nat) => if (i : Int) < (ds.length : Int) then digitChar (ds.getD i 0) else 0x30) =
      (ds.take D).map digitChar ++ List.replicate (D - ds.length) 0x30 := by
  apply List.ext_getElem
  · simp; omega
  · intro i h1 h2
    simp only [List.length_map, List.length_range] at h1
    simp only [List.getElem_map, List.getElem_range]
    by_cases hi : i < ds.length
    · rw [if_pos (by omega), getD_of_lt ds i hi, List.getElem_append_left (by simp; omega)]
      simp
    · rw [if_neg (by omega), List.getElem_append_right (by simp; omega)]
      simp

theorem fracPos_eq (ds : List Nat) (D : Nat) :
    ((List.range (ds.length - D)).map fun (i : Nat) =>
      if (D : Int) + (i : Int) < 0 ∨ (D : Int) + (i : Int) ≥ (ds.length : Int) then (0x30 : UInt8)
      else digitChar (ds.getD ((D : Int) + (i : Int)).toNat 0)) = (ds.drop D).map digitChar := by
  apply List.ext_getElem
  · simp
  · intro i h1 h2
    simp only [List.length_map, List.length_range] at h1
    simp only [List.getElem_map, List.getElem_range, List.getElem_drop]
    rw [if_neg (by omega)]
    have : ((D : Int) + (i : Int)).toNat = D + i := by omega
    rw [this, getD_of_lt ds (D + i) (by omega)]

theorem fracNeg_eq (ds : List Nat) (Z : Nat) :
    ((List.range (Z + ds.length)).map fun (i : Nat) =>
      if -(Z : Int) + (i : Int) < 0 ∨ -(Z : Int) + (i : Int) ≥ (ds.length : Int) then (0x30 : UInt8)
      else digitChar (ds.getD (-(Z : Int) + (i : Int)).toNat 0)) =
      List.replicate Z 0x30 ++ ds.map digitChar := by
  apply List.ext_getElem
  · simp
  · intro i h1 h2
    simp only [List.length_map, List.length_range] at h1
    simp only [List.getElem_map, List.getElem_range]
    by_cases hi : i < Z
    · rw [if_pos (by omega), List.getElem_append_left (by simp; omega)]
      simp
    · rw [if_neg (by omega), List.getElem_append_right (by simp; omega)]
      have : (-(Z : Int) + (i : Int)).toNat = i - Z := by omega
      simp only [List.length_replicate, List.getElem_map]
      rw [this, getD_of_lt ds (i - Z) (by omega)]

theorem digs_map (l : List Nat) (h : ∀ d ∈ l, d < 10) : ∀ c ∈ l.map digitChar, IsDig c := by
  intro c hc
  simp only [List.mem_map] at hc
  obtain ⟨d, hd, rfl⟩ := hc
  exact digitChar_isDig d (h d hd)

theorem isDig_zero : IsDig 0x30 := ⟨by decide, by decide⟩

/-- **`%f` form**: the text denotes `M × 10^E` with `M = digits × 10^k`,
    `E + k = dp - number of digits`: trailing zeros of the integer part (`k > 0`,
    then `E = 0`) or a fraction (`k = 0`). -/
theorem fmtF_value (ds : List Nat) (dp : Int) (hne : ds ≠ []) (h : ∀ d ∈ ds, d < 10) :
    ∃ (M : Nat) (E : Int) (k : Nat), readUNum (fmtF ds dp) = some (M, E) ∧ M = natOfDigits ds * 10 ^ k ∧
      E + (k : Int) = dp - (ds.length : Int) ∧ (k = 0 ∨ E = 0) := by
  have hlen : 0 < ds.length := List.length_pos_iff.mpr hne
  unfold fmtF
  simp only
  by_cases hdp : dp > 0
  · obtain ⟨D, rfl⟩ : ∃ D : Nat, dp = (D : Int) := ⟨dp.toNat, by omega⟩
    have hD : 0 < D := by omega
    rw [if_pos hdp, Int.toNat_natCast, intPart_eq]
    by_cases hp : (ds.length : Int) - (D : Int) > 0
    · -- digits on both sides of the point
      have hp' : (if (ds.length : Int) - (D : Int) > 0 then ((ds.length : Int) - (D : Int)).toNat else 0) > 0 := by
        rw [if_pos hp]; omega
      have e : ((ds.length : Int) - (D : Int)).toNat = ds.length - D := by omega
      rw [if_pos hp', if_pos hp, e, fracPos_eq]
      have hz : D - ds.length = 0 := by omega
      rw [hz]
      simp only [List.replicate_zero, List.append_nil]
      have hip : Digs1 ((ds.take D).map digitChar) := by
        refine ⟨?_, digs_map _ (fun d hd => h d (List.mem_of_mem_take hd))⟩
        intro e
        have := congrArg List.length e
        simp only [List.length_map, List.length_take, List.length_drop, List.length_append, List.length_replicate,
          List.length_nil] at this
        omega
      have hf : Digs1 ((ds.drop D).map digitChar) := by
        refine ⟨?_, digs_map _ (fun d hd => h d (List.mem_of_mem_drop hd))⟩
        intro e
        have := congrArg List.length e
        simp only [List.length_map, List.length_take, List.length_drop, List.length_append, List.length_replicate,
          List.length_nil] at this
        omega
      have := readUNum_frac _ _ [] 0 hip hf (Or.inl ⟨rfl, rfl⟩)
      simp only [List.append_nil] at this
      refine ⟨_, _, 0, this, ?_, ?_, Or.inl rfl⟩
      · rw [← List.map_append, List.take_append_drop, digVal_map_digitChar ds h]; simp
      · simp; omega
    · -- an integer: the digits and `D - nd` zeros
      have hp' : ¬ (if (ds.length : Int) - (D : Int) > 0 then ((ds.length : Int) - (D : Int)).toNat else 0) > 0 := by
        rw [if_neg hp]; omega
      rw [if_neg hp']
      have ht : ds.take D = ds := List.take_of_length_le (by omega)
      rw [ht, List.append_nil]
      have hip : Digs1 (ds.map digitChar ++ List.replicate (D - ds.length) 0x30) := by
        refine ⟨?_, ?_⟩
        · intro e
          have := congrArg List.length e
          simp only [List.length_map, List.length_take, List.length_drop, List.length_append, List.length_replicate,
            List.length_nil] at this
          omega
        · intro c hc
          rcases List.mem_append.mp hc with hc | hc
          · exact digs_map ds h c hc
          · rw [(List.mem_replicate.mp hc).2]; exact isDig_zero
      have := readUNum_int _ [] 0 hip (Or.inl ⟨rfl, rfl⟩)
      simp only [List.append_nil] at this
      refine ⟨_, _, D - ds.length, this, ?_, ?_, Or.inr rfl⟩
      · rw [digVal_append, digVal_map_digitChar ds h, digVal_replicate_zero]; simp
      · omega
  · -- 0.000ddd
    obtain ⟨Z, rfl⟩ : ∃ Z : Nat, dp = -(Z : Int) := ⟨(-dp).toNat, by omega⟩
    have hp : (ds.length : Int) - -(Z : Int) > 0 := by omega
    have hp' : (if (ds.length : Int) - -(Z : Int) > 0 then ((ds.length : Int) - -(Z : Int)).toNat else 0) > 0 := by
      rw [if_pos hp]; omega
    have e : ((ds.length : Int) - -(Z : Int)).toNat = Z + ds.length := by omega
    rw [if_neg hdp, if_pos hp', if_pos hp, e, fracNeg_eq]
    have hip : Digs1 [0x30] := ⟨by simp, fun c hc => by rw [List.mem_singleton.mp hc]; exact isDig_zero⟩
    have hf : Digs1 (List.replicate Z 0x30 ++ ds.map digitChar) := by
      refine ⟨?_, ?_⟩
      · intro e
        have := congrArg List.length e
        simp only [List.length_map, List.length_take, List.length_drop, List.length_append, List.length_replicate,
          List.length_nil] at this
        omega
      · intro c hc
        rcases List.mem_append.mp hc with hc | hc
        · rw [(List.mem_replicate.mp hc).2]; exact isDig_zero
        · exact digs_map ds h c hc
    have := readUNum_frac _ _ [] 0 hip hf (Or.inl ⟨rfl, rfl⟩)
    simp only [List.append_nil] at this
    refine ⟨_, _, 0, this, ?_, ?_, Or.inl rfl⟩
    · have e1 : ([0x30] : Bytes) = List.replicate 1 0x30 := rfl
      rw [e1, ← List.append_assoc, digVal_append, digVal_append, digVal_replicate_zero, digVal_replicate_zero,
        digVal_map_digitChar ds h]
      simp
    · simp; omega

/-! ### the literal of a finite non-zero float lies inside its rounding interval -/

theorem fmtDigits_value (ds : List Nat) (dp : Int) (hne : ds ≠ []) (h : ∀ d ∈ ds, d < 10) :
    ∃ (M : Nat) (E : Int) (k : Nat), readUNum (fmtDigits ds dp) = some (M, E) ∧ M = natOfDigits ds * 10 ^ k ∧
      E + (k : Int) = dp - (ds.length : Int) ∧ (k = 0 ∨ E = 0) := by
  unfold fmtDigits
  split
  · exact ⟨_, _, 0, fmtE_value ds dp hne h, by simp, by simp, Or.inl rfl⟩
  · exact fmtF_value ds dp hne h

/-- The float and the midpoints to its neighbours, scaled to integers
    `(v, lo, up, s)` in units of `10^s` (`scaled`). -/
def scaledOf (dbl : Bool) (bits : Nat) : Nat × Nat × Nat × Int :=
  let me := mantExp dbl bits
  scaled (4 * me.1) (lower4 dbl me.1 me.2) (4 * me.1 + 2) (me.2 - mantbits dbl - 2)

/-- The number (in units of `10^s`) whose digits are printed. -/
def chosenOf (dbl : Bool) (bits : Nat) : Nat :=
  let sc := scaledOf dbl bits
  (findShortest sc.1 sc.2.1 sc.2.2.1 (decide ((mantExp dbl bits).1 % 2 = 0))
    (digitsOf sc.2.2.1).length (digitsOf sc.2.2.1).length).1

theorem shortestOf_eq (dbl : Bool) (bits : Nat) :
    shortestOf dbl bits = digitsTrim (chosenOf dbl bits) (scaledOf dbl bits).2.2.2 := rfl

theorem scaled_order (v4 l4 u4 : Nat) (e : Int) (h : 0 < l4 ∧ l4 < v4 ∧ v4 < u4) :
    let sc := scaled v4 l4 u4 e
    0 < sc.2.1 ∧ sc.2.1 < sc.1 ∧ sc.1 < sc.2.2.1 ∧ sc.2.2.2 ≤ 0 := by
  unfold scaled
  split
  · have hp : 0 < 2 ^ e.toNat := Nat.pos_of_ne_zero (by simp)
    exact ⟨Nat.mul_pos h.1 hp, Nat.mul_lt_mul_of_pos_right h.2.1 hp, Nat.mul_lt_mul_of_pos_right h.2.2 hp,
      Int.le_refl 0⟩
  · have hp : 0 < 5 ^ (-e).toNat := Nat.pos_of_ne_zero (by simp)
    rename_i hneg
    exact ⟨Nat.mul_pos h.1 hp, Nat.mul_lt_mul_of_pos_right h.2.1 hp, Nat.mul_lt_mul_of_pos_right h.2.2 hp,
      by show e ≤ 0; omega⟩

theorem lower4_order (dbl : Bool) (mant : Nat) (exp : Int) (hm : mant ≠ 0) :
    0 < lower4 dbl mant exp ∧ lower4 dbl mant exp < 4 * mant ∧ 4 * mant < 4 * mant + 2 := by
  unfold lower4; split <;> omega

theorem scaledOf_order (dbl : Bool) (bits : Nat) (hm : (mantExp dbl bits).1 ≠ 0) :
    0 < (scaledOf dbl bits).2.1 ∧ (scaledOf dbl bits).2.1 < (scaledOf dbl bits).1 ∧
    (scaledOf dbl bits).1 < (scaledOf dbl bits).2.2.1 ∧ (scaledOf dbl bits).2.2.2 ≤ 0 :=
  scaled_order _ _ _ _ (lower4_order dbl _ _ hm)

/-- **The number printed lies inside the rounding interval** of the float:
    between the midpoints to the neighbouring floats, a midpoint itself only
    when the float's mantissa is even (which is when round-half-to-even reads
    a midpoint back as this float). -/
theorem chosenOf_inB (dbl : Bool) (bits : Nat) (hm : (mantExp dbl bits).1 ≠ 0) :
    InB (scaledOf dbl bits).2.1 (scaledOf dbl bits).2.2.1 (decide ((mantExp dbl bits).1 % 2 = 0))
      (chosenOf dbl bits) := by
  have h := scaledOf_order dbl bits hm
  exact findShortest_inB _ _ _ _ ⟨h.2.1, h.2.2.1⟩ _ _

/-- The decimal `M × 10^E` lies inside the rounding interval of the finite
    non-zero float with these bits: with `(v, lo, up, s) = scaledOf`,
    `s ≤ E` and the integer `M × 10^(E-s)` (the decimal in units of `10^s`) lies
    between `lo` and `up`. -/
def WithinHalfUlp (dbl : Bool) (bits : Nat) (M : Nat) (E : Int) : Prop :=
  (scaledOf dbl bits).2.2.2 ≤ E ∧
  InB (scaledOf dbl bits).2.1 (scaledOf dbl bits).2.2.1 (decide ((mantExp dbl bits).1 % 2 = 0))
    (M * 10 ^ (E - (scaledOf dbl bits).2.2.2).toNat)

/-- **float_literal_within_half_ulp.**  For every finite non-zero float32 /
    float64, the text `%v` prints for its magnitude is a numeric literal that
    denotes a decimal `M × 10^E` inside the float's rounding interval. -/
theorem float_literal_within_half_ulp (dbl : Bool) (bits : Nat) (hm : (mantExp dbl bits).1 ≠ 0) :
    ∃ M E, readUNum (fmtMagnitude dbl bits) = some (M, E) ∧ WithinHalfUlp dbl bits M E := by
  have hord := scaledOf_order dbl bits hm
  have hin := chosenOf_inB dbl bits hm
  have hr : 0 < chosenOf dbl bits := by
    rcases hin.1 with h | ⟨_, h⟩ <;> omega
  have hv := digitsTrim_value (chosenOf dbl bits) (scaledOf dbl bits).2.2.2
  rw [← shortestOf_eq] at hv
  obtain ⟨hle, hval, hdp⟩ := hv
  have hne : (shortestOf dbl bits).1 ≠ [] := by
    intro e
    rw [e] at hval
    simp [natOfDigits] at hval
    omega
  have hlt : ∀ d ∈ (shortestOf dbl bits).1, d < 10 := by
    unfold shortestOf; exact shortest_lt _ _ _ _ _
  obtain ⟨M, E, k, hread, hM, hE, hk⟩ := fmtDigits_value _ (shortestOf dbl bits).2 hne hlt
  refine ⟨M, E, ?_, ?_, ?_⟩
  · unfold fmtMagnitude; rw [if_neg hm]; exact hread
  · rcases hk with hk | hk <;> omega
  · have hexp : k + (E - (scaledOf dbl bits).2.2.2).toNat =
        (digitsOf (chosenOf dbl bits)).length - (shortestOf dbl bits).1.length := by
      rcases hk with hk | hk <;> omega
    have : M * 10 ^ (E - (scaledOf dbl bits).2.2.2).toNat = chosenOf dbl bits := by
      rw [hM, Nat.mul_assoc, ← Nat.pow_add, hexp, hval]
    rw [this]; exact hin

end GaeaVerif.StmtFloat
