import GaeaVerif.Lemmas.MergeGroup
import GaeaVerif.Lemmas.MergeTopK
/-
  C02 helper lemmas: merging per-shard top-(o+c) prefixes of duplicate-free
  sorted lists whose elements may occur on several shards (SELECT DISTINCT rows,
  GROUP BY keys).  Generic in the element type and in the comparison.
-/
namespace GaeaVerif.Merge
open List

section TopKNodup
set_option linter.unusedSectionVars false
variable {α : Type} [DecidableEq α] {le : α → α → Bool}

theorem nodup_card_le_of_subset : ∀ (l Q : List α), l.Nodup → (∀ x ∈ l, x ∈ Q) → l.length ≤ Q.length
  | [], _, _, _ => by simp
  | a :: l, Q, hl, hsub => by
    rw [List.nodup_cons] at hl
    have ha : a ∈ Q := hsub a (by simp)
    have ih := nodup_card_le_of_subset l (Q.erase a) hl.2 (fun x hx => by
      have hne : x ≠ a := fun e => hl.1 (e ▸ hx)
      exact (List.mem_erase_of_ne hne).mpr (hsub x (by simp [hx])))
    rw [List.length_erase_of_mem ha] at ih
    have := List.length_pos_of_mem ha
    simp only [List.length_cons]
    omega

theorem nodup_card_le_filter (l P : List α) (q : α → Bool) (hl : l.Nodup)
    (hsub : ∀ x ∈ l, x ∈ P ∧ q x = true) : l.length ≤ (P.filter q).length :=
  nodup_card_le_of_subset l (P.filter q) hl (fun x hx => List.mem_filter.mpr (hsub x hx))

/-- the core of the top-k argument: `P` are the candidates kept, `R` the rest, every `r ∈ R`
    has `o+c` candidates before it -/
theorem topk_candidates (trans : ∀ a b c, le a b → le b c → le a c)
    (total : ∀ a b, le a b || le b a) (P R : List α) (o c : Nat)
    (H : ∀ r ∈ R, o + c ≤ countLe le P r) :
    ∃ S : List α, S.Perm (P ++ R) ∧ S.Pairwise (fun a b => le a b) ∧
      (S.drop o).take c = ((P.mergeSort le).drop o).take c := by
  refine ⟨(P.mergeSort le).take (o + c) ++ ((P.mergeSort le).drop (o + c) ++ R).mergeSort le,
    topk_perm P R (o + c), topk_sorted trans total P R (o + c) H, ?_⟩
  rw [window_prefix, take_drop_take]
  intro hne
  rw [List.length_take, List.length_mergeSort]
  have : o + c ≤ P.length := by
    by_cases hd : (P.mergeSort le).drop (o + c) = []
    · have hR : R ≠ [] := by
        intro hR
        apply hne
        simp [hd, hR]
      obtain ⟨r, hr⟩ := List.exists_mem_of_ne_nil R hR
      have h1 : o + c ≤ countLe le P r := H r hr
      have h2 : countLe le P r ≤ P.length := List.length_filter_le _ _
      omega
    · have h1 := List.length_pos_iff.mpr hd
      rw [List.length_drop, List.length_mergeSort] at h1
      omega
  omega

theorem mem_heads (n : Nat) (Ls : List (List α)) (x : α) :
    x ∈ heads n Ls ↔ ∃ L ∈ Ls, x ∈ L.take n := by
  simp only [heads, List.mem_flatten, List.mem_map]
  constructor
  · rintro ⟨l, ⟨L, hL, rfl⟩, hx⟩; exact ⟨L, hL, hx⟩
  · rintro ⟨L, hL, hx⟩; exact ⟨_, ⟨L, hL, rfl⟩, hx⟩

/-- **Top-k merge of duplicate-free lists.**  Every shard list is sorted and
    without duplicates (an element may be on several shards); removing the
    duplicates among the first `o+c` elements of every shard, sorting and taking
    `[o, o+c)` is the window `[o, o+c)` of a sorted arrangement of the distinct
    elements of all shards. -/
theorem topk_nodup (trans : ∀ a b c, le a b → le b c → le a c) (total : ∀ a b, le a b || le b a)
    (Ls : List (List α)) (hs : ∀ L ∈ Ls, L.Pairwise (fun a b => le a b)) (hnd : ∀ L ∈ Ls, L.Nodup)
    (o c : Nat) :
    ∃ S : List α, S.Perm (dedup Ls.flatten) ∧ S.Pairwise (fun a b => le a b) ∧
      (S.drop o).take c = (((dedup (heads (o + c) Ls)).mergeSort le).drop o).take c := by
  let P := dedup (heads (o + c) Ls)
  let D := dedup Ls.flatten
  let R := D.filter fun x => x ∉ P
  have hheads_sub : ∀ x ∈ heads (o + c) Ls, x ∈ Ls.flatten := by
    intro x hx
    obtain ⟨L, hL, hxL⟩ := (mem_heads _ _ _).mp hx
    exact List.mem_flatten.mpr ⟨L, hL, List.mem_of_mem_take hxL⟩
  have hP_sub : ∀ x ∈ P, x ∈ D := by
    intro x hx
    exact (mem_dedup _ _).mpr (hheads_sub x ((mem_dedup _ _).mp hx))
  have hPR : (P ++ R).Perm D := by
    rw [List.perm_ext_iff_of_nodup _ (nodup_dedup _)]
    · intro x
      simp only [R, List.mem_append, List.mem_filter, decide_eq_true_eq]
      constructor
      · rintro (hx | ⟨hx, _⟩)
        · exact hP_sub x hx
        · exact hx
      · intro hx
        by_cases hxP : x ∈ P
        · exact Or.inl hxP
        · exact Or.inr ⟨hx, hxP⟩
    · rw [List.nodup_append]
      refine ⟨nodup_dedup _, (nodup_dedup _).filter _, ?_⟩
      intro a ha b hb e
      simp only [R, List.mem_filter, decide_eq_true_eq] at hb
      exact hb.2 (e ▸ ha)
  have H : ∀ r ∈ R, o + c ≤ countLe le P r := by
    intro r hr
    simp only [R, List.mem_filter, decide_eq_true_eq] at hr
    obtain ⟨hrD, hrP⟩ := hr
    obtain ⟨L, hL, hrL'⟩ := List.mem_flatten.mp ((mem_dedup _ _).mp hrD)
    have hnot : r ∉ L.take (o + c) := by
      intro hin
      apply hrP
      exact (mem_dedup _ _).mpr ((mem_heads _ _ _).mpr ⟨L, hL, hin⟩)
    have hdrop : r ∈ L.drop (o + c) := by
      have := List.take_append_drop (o + c) L
      rw [← this] at hrL'
      rcases List.mem_append.mp hrL' with h1 | h1
      · exact absurd h1 hnot
      · exact h1
    have hsL := hs L hL
    have hlen : o + c < L.length := by
      have := List.length_pos_of_mem hdrop
      simp at this; omega
    have hall' : ∀ x ∈ L.take (o + c), le x r = true := by
      rw [← List.take_append_drop (o + c) L, List.pairwise_append] at hsL
      exact fun x hx => hsL.2.2 x hx r hdrop
    have hcount := nodup_card_le_filter (L.take (o + c)) P (fun x => le x r)
      ((hnd L hL).sublist (List.take_sublist _ _)) (by
        intro x hx
        exact ⟨(mem_dedup _ _).mpr ((mem_heads _ _ _).mpr ⟨L, hL, hx⟩), hall' x hx⟩)
    simp only [List.length_take] at hcount
    simp only [countLe]
    omega
  obtain ⟨S, hp, hss, hwin⟩ := topk_candidates trans total P R o c H
  exact ⟨S, hp.trans hPR, hss, hwin⟩

/-- an element among the first `n` of the sorted candidates is among the first
    `n` of every shard list that holds it (the comparison is antisymmetric on
    the elements present) -/
theorem take_complete (trans : ∀ a b c, le a b → le b c → le a c) (total : ∀ a b, le a b || le b a)
    (Ls : List (List α)) (hs : ∀ L ∈ Ls, L.Pairwise (fun a b => le a b)) (hnd : ∀ L ∈ Ls, L.Nodup)
    (antisymm : ∀ a ∈ Ls.flatten, ∀ b ∈ Ls.flatten, le a b = true → le b a = true → a = b) (n : Nat) :
    ∀ k ∈ ((dedup (heads n Ls)).mergeSort le).take n, ∀ L ∈ Ls, k ∈ L → k ∈ L.take n := by
  intro k hk L hL hkL
  apply Classical.byContradiction
  intro hnot
  have hn : 0 < n := by
    rcases Nat.eq_zero_or_pos n with h | h
    · subst h; simp at hk
    · exact h
  have hdrop : k ∈ L.drop n := by
    have := List.take_append_drop n L
    rw [← this] at hkL
    rcases List.mem_append.mp hkL with h1 | h1
    · exact absurd h1 hnot
    · exact h1
  have hlen : n < L.length := by
    have := List.length_pos_of_mem hdrop
    simp at this; omega
  have hsL := hs L hL
  have hsplit : (L.take n ++ L.drop n).Pairwise (fun a b => le a b) := by
    rw [List.take_append_drop]; exact hsL
  rw [List.pairwise_append] at hsplit
  have hTne : L.take n ≠ [] := by
    intro h
    rcases List.take_eq_nil_iff.mp h with h0 | h0
    · omega
    · subst h0; simp at hlen
  let r := (L.take n).getLast hTne
  have hrT : r ∈ L.take n := List.getLast_mem hTne
  have hrk : le r k = true := hsplit.2.2 r hrT k hdrop
  have hxr : ∀ x ∈ L.take n, le x r = true := by
    intro x hx
    have hT := hsplit.1
    rw [← List.dropLast_concat_getLast hTne, List.pairwise_append] at hT
    rw [← List.dropLast_concat_getLast hTne] at hx
    rcases List.mem_append.mp hx with h1 | h1
    · exact hT.2.2 x h1 r (by simp [r])
    · simp only [List.mem_singleton] at h1
      subst h1
      have := total r r
      simpa using this
  have hne : r ≠ k := by
    intro e
    have hnd' : (L.take n ++ L.drop n).Nodup := by rw [List.take_append_drop]; exact hnd L hL
    rw [List.nodup_append] at hnd'
    exact hnd'.2.2 r hrT k hdrop e
  have hkr : le k r = false := by
    cases h : le k r
    · rfl
    · exfalso
      apply hne
      exact antisymm r (List.mem_flatten.mpr ⟨L, hL, List.mem_of_mem_take hrT⟩)
        k (List.mem_flatten.mpr ⟨L, hL, hkL⟩) hrk h
  have hsorted := List.pairwise_mergeSort trans total (dedup (heads n Ls))
  have hlt := count_lt_of_mem_take trans r _ n hsorted k hk hkr
  rw [countLe_perm (List.mergeSort_perm _ le) r] at hlt
  have hcount := nodup_card_le_filter (L.take n) (dedup (heads n Ls)) (fun x => le x r)
    ((hnd L hL).sublist (List.take_sublist _ _)) (by
      intro x hx
      exact ⟨(mem_dedup _ _).mpr ((mem_heads _ _ _).mpr ⟨L, hL, hx⟩), hxr x hx⟩)
  simp only [List.length_take] at hcount
  simp only [countLe] at hlt
  omega

end TopKNodup
end GaeaVerif.Merge
