import GaeaVerif.Lemmas.C10Router
/-
  C10: the sharding function of a parsed hash / mod / range / mycat rule only
  names tables of the rule's sub-table list, and never panics.
-/
namespace GaeaVerif.C10
open GaeaVerif

/-- keys are Go values: an int64, a uint64 or a string -/
def Key.WF : Key → Prop
  | .int v => minInt64 ≤ v ∧ v ≤ maxInt64
  | .uint v => v < 2 ^ 64
  | .str _ => True

theorem atoiBody_range (neg : Bool) (ds : Str) (v : Int) (h : atoiBody neg ds = some v) :
    minInt64 ≤ v ∧ v ≤ maxInt64 := by
  unfold atoiBody at h
  repeat' split at h
  all_goals cases h
  all_goals (unfold minInt64 maxInt64; omega)

theorem atoi_range (s : Str) (v : Int) (h : atoi s = some v) : minInt64 ≤ v ∧ v ≤ maxInt64 := by
  unfold atoi at h
  split at h <;> exact atoiBody_range _ _ _ h

theorem numValue_range (k : Key) (hk : k.WF) (v : Int) (h : numValue k = .ok v) :
    minInt64 ≤ v ∧ v ≤ maxInt64 := by
  cases k with
  | int x => simp only [numValue, R.ok.injEq] at h; subst h; exact hk
  | uint x =>
    simp only [numValue, R.ok.injEq] at h; subst h
    unfold Key.WF at hk
    unfold wrap64 minInt64 maxInt64; omega
  | str s =>
    simp only [numValue] at h
    split at h
    · next x hx => cases h; exact atoi_range s _ hx
    · cases h

/-- `|a % n|` computed as `hack.Abs(a % n)` lies in `[0, n)` -/
theorem hackAbs_goMod (a n : Int) (hn : 0 < n) (hn2 : n ≤ 2 ^ 63) :
    0 ≤ hackAbs (goMod a n) ∧ hackAbs (goMod a n) < n := by
  have h1 := Int.emod_nonneg a (show n ≠ 0 by omega)
  have h2 := Int.emod_lt_of_pos a hn
  have h3 := Int.emod_nonneg (-a) (show n ≠ 0 by omega)
  have h4 := Int.emod_lt_of_pos (-a) hn
  unfold hackAbs goMod minInt64
  split
  · split
    · omega
    · split <;> omega
  · split
    · omega
    · split <;> omega

theorem goMod_hackAbs (a n : Int) (hn : 0 < n) (ha : a ≠ minInt64) (ha2 : minInt64 ≤ a) :
    0 ≤ goMod (hackAbs a) n ∧ goMod (hackAbs a) n < n := by
  have hnn : 0 ≤ hackAbs a := by
    unfold hackAbs; unfold minInt64 at *; split
    · omega
    · split <;> omega
  have h1 := Int.emod_nonneg (hackAbs a) (show n ≠ 0 by omega)
  have h2 := Int.emod_lt_of_pos (hackAbs a) hn
  unfold goMod
  rw [if_pos hnn]
  exact ⟨h1, h2⟩

theorem rangeFind_spec : ∀ (shards : List (Int × Int)) (v i r : Int), rangeFind shards v i = some r →
    i ≤ r ∧ r < i + shards.length
  | [], _, _, _, h => by simp [rangeFind] at h
  | s :: rest, v, i, r, h => by
    unfold rangeFind at h
    split at h
    · cases h; simp only [List.length_cons]; omega
    · have := rangeFind_spec rest v (i + 1) r h
      simp only [List.length_cons]; omega

/-! ### the murmur shard, for an arbitrary hash function -/

theorem ceilingVal_mem (m : List (Int × Int)) (h v : Int) (hv : ceilingVal m h = some v) :
    ∃ kv ∈ m, kv.2 = v := by
  unfold ceilingVal at hv
  simp only at hv
  split at hv
  · cases hv
  · next c cs hc =>
    simp only [Option.map_eq_some_iff] at hv
    obtain ⟨kv, hkv, hv2⟩ := hv
    have hm := List.mem_of_getLast? hkv
    have hm2 := (List.mem_filter.mp hm).1
    have hm3 : kv ∈ List.filter (fun kv => decide (h ≤ kv.1)) m := by rw [hc]; exact hm2
    exact ⟨kv, (List.mem_filter.mp hm3).1, hv2⟩

theorem murmurBuckets_vals (bucketOf : Nat → Nat → Int) (count vbt : Int) (kv : Int × Int)
    (h : kv ∈ murmurBuckets bucketOf count vbt) : 0 ≤ kv.2 ∧ kv.2 < count := by
  unfold murmurBuckets at h
  simp only [List.mem_flatMap, List.mem_map, List.mem_range] at h
  obtain ⟨i, hi, n, _, hkv⟩ := h
  subst hkv
  simp only
  omega

theorem murmurFind_range (bucketOf : Nat → Nat → Int) (keyHash count vbt i : Int)
    (h : murmurFind bucketOf keyHash count vbt = .ok i) : 0 ≤ i ∧ i < count := by
  unfold murmurFind at h
  simp only at h
  split at h
  · next v hv =>
    cases h
    obtain ⟨kv, hkv, hv2⟩ := ceilingVal_mem _ _ _ hv
    rw [← hv2]; exact murmurBuckets_vals _ _ _ kv hkv
  · split at h
    · cases h
    · next c cs hm =>
      split at h
      · next v hv =>
        cases h
        obtain ⟨kv, hkv, hv2⟩ := ceilingVal_mem _ _ _ hv
        rw [← hv2]; exact murmurBuckets_vals bucketOf count vbt kv (by rw [hm]; exact hkv)
      · cases h

theorem murmurFind_no_panic (bucketOf : Nat → Nat → Int) (keyHash count vbt : Int) :
    murmurFind bucketOf keyHash count vbt ≠ .panic := by
  unfold murmurFind
  simp only
  repeat' split
  all_goals simp

/-! ### the padding-mod shard -/

theorem strSlice_ok (s : Str) (lo hi : Int) (h : 0 ≤ lo ∧ lo ≤ hi ∧ hi ≤ s.length) :
    ∃ r, strSlice s lo hi = .ok r ∧ (r.length : Int) = hi - lo := by
  unfold strSlice
  rw [if_pos h]
  refine ⟨_, rfl, ?_⟩
  simp only [List.length_take, List.length_drop]
  omega

theorem paddingKey_spec (p : PaddingMod) (h : Int) (hp : 0 < p.padLength) :
    paddingKey p h ≠ .panic ∧ ∀ pk, paddingKey p h = .ok pk → (pk.length : Int) = p.padLength := by
  unfold paddingKey
  split
  · next hlong =>
    obtain ⟨pk, hpk, hl⟩ := strSlice_ok (itoa h) 0 p.padLength (by omega)
    rw [hpk]
    refine ⟨by simp, ?_⟩
    intro pk' h'; cases h'; omega
  · next hshort =>
    split
    · split
      · simp
      · refine ⟨by simp, ?_⟩
        intro pk' h'; cases h'
        simp only [List.length_append, List.length_replicate]; omega
    · refine ⟨by simp, ?_⟩
      intro pk' h'; cases h'
      simp only [List.length_append, List.length_replicate]; omega

theorem paddingMod_spec (p : PaddingMod) (pk : Str)
    (hp : 2 ≤ p.mod ∧ 0 ≤ p.modBegin ∧ p.modBegin < p.modEnd ∧ p.modEnd ≤ p.padLength) (hm : p.mod ≤ 2 ^ 63)
    (hlen : (pk.length : Int) = p.padLength) :
    paddingMod p pk ≠ .panic ∧ ∀ i, paddingMod p pk = .ok i → 0 ≤ i ∧ i < p.mod := by
  unfold paddingMod
  obtain ⟨seg, hseg, _⟩ := strSlice_ok pk p.modBegin p.modEnd (by omega)
  rw [hseg]
  simp only
  cases atoi seg with
  | none => simp
  | some big =>
    simp only
    have hne : ¬ p.mod = 0 := by omega
    rw [if_neg hne]
    have := hackAbs_goMod big p.mod (by omega) hm
    refine ⟨by simp, ?_⟩
    intro i hi
    cases hi
    exact this

theorem paddingFind_spec (p : PaddingMod) (h : Int)
    (hp : 2 ≤ p.mod ∧ 0 ≤ p.modBegin ∧ p.modBegin < p.modEnd ∧ p.modEnd ≤ p.padLength) (hm : p.mod ≤ 2 ^ 63) :
    paddingFind p h ≠ .panic ∧ ∀ i, paddingFind p h = .ok i → 0 ≤ i ∧ i < p.mod := by
  unfold paddingFind
  have hk := paddingKey_spec p h (by omega)
  cases hpk : paddingKey p h with
  | fail => simp
  | panic => exact absurd hpk hk.1
  | ok pk => exact paddingMod_spec p pk hp hm (hk.2 pk hpk)

/-! ### every probed shard type -/

/-- the rule types whose sharding function C10 speaks about -/
def ShardFn.probed : ShardFn → Bool
  | .hash _ | .mod _ | .range _ | .mycatMod _ | .mycatLong _ | .mycatString _ _ _
  | .mycatMurmur _ _ _ | .mycatPadding _ => true
  | _ => false

theorem segment_lookup (seg : List Int) (idx : List Int) (x : Int)
    (hseg : seg.length = partitionLength ∧ ∀ y ∈ seg, y ∈ idx) :
    (match seg[(x % 1024).toNat]? with
      | some i => (R.ok i : R Int)
      | none => .panic) ≠ .panic ∧
    ∀ i, (match seg[(x % 1024).toNat]? with
      | some i => (R.ok i : R Int)
      | none => .panic) = .ok i → i ∈ idx := by
  have hlt : (x % 1024).toNat < seg.length := by
    rw [hseg.1]; unfold partitionLength; omega
  have hget : seg[(x % 1024).toNat]? = some seg[(x % 1024).toNat] := List.getElem?_eq_getElem hlt
  rw [hget]
  refine ⟨by simp, ?_⟩
  intro i hi
  simp only [R.ok.injEq] at hi
  rw [← hi]
  exact hseg.2 _ (List.getElem_mem hlt)

theorem findForKey_spec (bucketOf : Nat → Nat → Int) (keyHash : Str → Int) (sh : ShardFn) (idx : List Int)
    (hwf : ShardWF sh idx) (hlen : (idx.length : Int) ≤ 2 ^ 63) (k : Key) (hk : k.WF)
    (hprobed : sh.probed = true) :
    findForKey bucketOf keyHash sh k ≠ .panic ∧ ∀ i, findForKey bucketOf keyHash sh k = .ok i → i ∈ idx := by
  cases sh with
  | hash n =>
    obtain ⟨hn, hc, hl⟩ := hwf
    simp only [findForKey]
    rw [if_neg (by omega)]
    refine ⟨by simp, ?_⟩
    intro i hi
    simp only [R.ok.injEq] at hi
    have hlt : hashValue k % n.toNat < n.toNat := Nat.mod_lt _ (by omega)
    exact consec_mem_of_lt hc hl (by omega) (by omega)
  | mod n =>
    obtain ⟨hn, hc, hl⟩ := hwf
    simp only [findForKey]
    cases hv : numValue k with
    | fail => simp
    | panic => cases k <;> simp [numValue] at hv; split at hv <;> cases hv
    | ok v =>
      simp only
      rw [if_neg (by omega)]
      have := hackAbs_goMod v n hn (by omega)
      refine ⟨by simp, ?_⟩
      intro i hi
      simp only [R.ok.injEq] at hi
      subst hi
      exact consec_mem_of_lt hc hl this.1 this.2
  | range shards =>
    obtain ⟨hc, hl⟩ := hwf
    simp only [findForKey]
    cases hv : numValue k with
    | fail => simp
    | panic => cases k <;> simp [numValue] at hv; split at hv <;> cases hv
    | ok v =>
      simp only
      cases hr : rangeFind shards v 0 with
      | none => simp
      | some r =>
        simp only
        have := rangeFind_spec shards v 0 r hr
        refine ⟨by simp, ?_⟩
        intro i hi
        simp only [R.ok.injEq] at hi
        subst hi
        exact consec_mem_of_lt hc rfl (by omega) (by omega)
  | mycatMod n =>
    obtain ⟨hn, hc, hl⟩ := hwf
    simp only [findForKey]
    cases hv : parseBigDec (getString k) with
    | none => simp
    | some v =>
      simp only
      rw [if_neg (by omega)]
      have h1 := Int.emod_nonneg (v.natAbs : Int) (show n ≠ 0 by omega)
      have h2 := Int.emod_lt_of_pos (v.natAbs : Int) hn
      refine ⟨by simp, ?_⟩
      intro i hi
      simp only [R.ok.injEq] at hi
      subst hi
      exact consec_mem_of_lt hc hl h1 h2
  | mycatLong seg =>
    simp only [findForKey]
    cases hv : numValue k with
    | fail => simp
    | panic => cases k <;> simp [numValue] at hv; split at hv <;> cases hv
    | ok v => exact segment_lookup seg idx v hwf
  | mycatString seg s e =>
    simp only [findForKey]
    exact segment_lookup seg idx _ hwf
  | mycatMurmur seed count vbt =>
    obtain ⟨hc, hl⟩ := hwf
    simp only [findForKey]
    refine ⟨murmurFind_no_panic _ _ _ _, ?_⟩
    intro i hi
    have := murmurFind_range _ _ _ _ _ hi
    exact consec_mem_of_lt hc hl this.1 this.2
  | mycatPadding p =>
    obtain ⟨hc, hl, hp⟩ := hwf
    simp only [findForKey]
    cases hv : numValue k with
    | fail => simp
    | panic => cases k <;> simp [numValue] at hv; split at hv <;> cases hv
    | ok v =>
      simp only
      have := paddingFind_spec p v hp (by omega)
      refine ⟨this.1, ?_⟩
      intro i hi
      have := this.2 i hi
      exact consec_mem_of_lt hc hl this.1 this.2
  | dateYear => simp [ShardFn.probed] at hprobed
  | dateMonth => simp [ShardFn.probed] at hprobed
  | dateDay => simp [ShardFn.probed] at hprobed
  | global => simp [ShardFn.probed] at hprobed

end GaeaVerif.C10
