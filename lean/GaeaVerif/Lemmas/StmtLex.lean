import GaeaVerif.Model.StmtLex
/-
  Lemmas about the lexical specification `Model/StmtLex.lean`, shared by the
  theorems of C14, C15 and C16.
-/
namespace GaeaVerif.StmtLex
open GaeaVerif

/-! ### the scanners of single elements cut the text where they say -/

theorem scanStr_split (nbe : Bool) (q : UInt8) (t body rest : Bytes)
    (h : scanStr nbe q t = some (body, rest)) : t = body ++ q :: rest := by
  fun_induction scanStr nbe q t generalizing body rest <;> simp_all
  all_goals
    obtain ⟨b, r, hb, rfl, rfl⟩ := h
    simp_all

theorem scanQIdent_split (t body rest : Bytes)
    (h : scanQIdent t = some (body, rest)) : t = body ++ cBQuote :: rest := by
  fun_induction scanQIdent t generalizing body rest <;> simp_all
  all_goals
    obtain ⟨b, r, hb, rfl, rfl⟩ := h
    simp_all

theorem scanBlock_split (t body rest : Bytes)
    (h : scanBlock t = some (body, rest)) : t = body ++ cStar :: cSlash :: rest := by
  fun_induction scanBlock t generalizing body rest
  · simp at h
  · simp at h
  · rename_i c d r hc
    obtain ⟨rfl, rfl⟩ := hc
    simp at h; obtain ⟨rfl, rfl⟩ := h; rfl
  · rename_i c d r hc ih
    simp only [Option.map_eq_some_iff] at h
    obtain ⟨⟨b, r'⟩, hb, heq⟩ := h
    simp at heq; obtain ⟨rfl, rfl⟩ := heq
    have := ih b r' hb
    simp [this]

theorem scanLine_cons (c : UInt8) (rest : Bytes) :
    scanLine (c :: rest) =
      if c = cNewline then ([c], rest) else (c :: (scanLine rest).1, (scanLine rest).2) := by
  simp only [scanLine]

theorem scanLine_split (t : Bytes) : t = (scanLine t).1 ++ (scanLine t).2 := by
  induction t with
  | nil => rfl
  | cons c rest ih =>
    rw [scanLine_cons]
    split
    · rfl
    · simp only [List.cons_append, ← ih]

/-! ### the token stream covers the text -/

theorem rawOf_cons (t : Tok) (ts : List Tok) : rawOf (t :: ts) = t.raw ++ rawOf ts := by
  simp [rawOf]

theorem rawOf_append (a b : List Tok) : rawOf (a ++ b) = rawOf a ++ rawOf b := by
  simp [rawOf]

theorem head?_eq_some_cons {α : Type} (l : List α) (a : α) (h : l.head? = some a) : l = a :: l.tail := by
  cases l with
  | nil => simp at h
  | cons b r => simp at h; simp [h]

/-- The text is the concatenation of its lexical elements. -/
theorem lexF_raw (nbe : Bool) (fuel : Nat) (v : Bool) (text : Bytes) (toks : List Tok)
    (h : lexF nbe fuel v text = some toks) : rawOf toks = text := by
  fun_induction lexF nbe fuel v text generalizing toks
  all_goals try (simp at h; done)
  all_goals try (simp at h; subst h; rfl)
  all_goals
    simp only [Option.map_eq_some_iff] at h
    obtain ⟨ts, hts, rfl⟩ := h
    rename_i ih
    rw [rawOf_cons, ih ts hts]
  case case4 _ _ _ _ _ body rest' hs => rw [scanStr_split _ _ _ _ _ hs]; simp [Tok.raw]
  case case6 _ _ _ body rest' hs _ => rw [scanQIdent_split _ _ _ hs]; simp [Tok.raw]
  case case8 _ _ c rest _ _ _ =>
    simp only [Tok.raw, List.cons_append]; rw [← scanLine_split]
  case case9 _ _ c rest _ _ _ h1 h2 =>
    obtain ⟨rfl, h1⟩ := h1
    have e1 := head?_eq_some_cons _ _ h1
    have e2 := head?_eq_some_cons _ _ h2
    rw [e1]; simp only [List.tail_cons] at e2 ⊢; rw [e2]; simp [Tok.raw]
  case case10 _ _ c rest _ _ _ h1 h2 body rest' hs =>
    obtain ⟨rfl, h1⟩ := h1
    have e1 := head?_eq_some_cons _ _ h1
    have e3 := scanBlock_split _ _ _ hs
    rw [e1, e3]; simp [Tok.raw]
  case case12 _ _ c rest _ _ _ _ h1 =>
    obtain ⟨rfl, _, h1⟩ := h1
    have e1 := head?_eq_some_cons _ _ h1
    rw [e1]; simp [Tok.raw]
  case case13 => simp [Tok.raw]
  case case14 => simp [Tok.raw]

theorem lex_raw (nbe : Bool) (text : Bytes) (toks : List Tok) (h : lex nbe text = some toks) :
    rawOf toks = text := lexF_raw nbe _ false text toks h

/-- The lexer never classifies a `?` as an ordinary byte: a `?` in the text
    lies in a string literal, a quoted identifier, a comment, or is a
    parameter marker. -/
theorem lexF_other_ne_qmark (nbe : Bool) (fuel : Nat) (v : Bool) (text : Bytes) (toks : List Tok)
    (h : lexF nbe fuel v text = some toks) : ∀ b, Tok.other b ∈ toks → b ≠ cQMark := by
  fun_induction lexF nbe fuel v text generalizing toks
  all_goals try (simp at h; done)
  all_goals try (simp at h; subst h; simp; done)
  all_goals
    simp only [Option.map_eq_some_iff] at h
    obtain ⟨ts, hts, rfl⟩ := h
    rename_i ih
    intro b hb
    simp only [List.mem_cons] at hb
    rcases hb with hb | hb
    · first
        | (injection hb with e; subst e; assumption)
        | exact absurd hb (by simp)
    · exact ih ts hts b hb


/-! ### offsets of the markers -/

theorem paramOffsets_param (i : Nat) (ts : List Tok) :
    paramOffsets i (Tok.param :: ts) = i :: paramOffsets (i + 1) ts := rfl

theorem paramOffsets_nonparam (i : Nat) (t : Tok) (ts : List Tok) (h : t ≠ Tok.param) :
    paramOffsets i (t :: ts) = paramOffsets (i + t.len) ts := by
  cases t <;> simp_all [paramOffsets]

/-- The reported offsets are exactly the positions of the marker elements in the text. -/
theorem paramOffsets_iff (i : Nat) (toks : List Tok) (o : Nat) :
    o ∈ paramOffsets i toks ↔
      ∃ pre post, toks = pre ++ Tok.param :: post ∧ o = i + (rawOf pre).length := by
  induction toks generalizing i with
  | nil => simp [paramOffsets]
  | cons t ts ih =>
    by_cases ht : t = Tok.param
    · subst ht
      rw [paramOffsets_param, List.mem_cons, ih]
      constructor
      · rintro (rfl | ⟨pre, post, rfl, rfl⟩)
        · exact ⟨[], ts, rfl, by simp [rawOf]⟩
        · exact ⟨Tok.param :: pre, post, rfl, by simp [rawOf_cons, Tok.raw]; omega⟩
      · rintro ⟨pre, post, h1, rfl⟩
        cases pre with
        | nil => left; simp [rawOf]
        | cons p pre' =>
          right
          simp only [List.cons_append, List.cons.injEq] at h1
          obtain ⟨rfl, rfl⟩ := h1
          exact ⟨pre', post, rfl, by simp [rawOf_cons, Tok.raw]; omega⟩
    · rw [paramOffsets_nonparam i t ts ht, ih]
      constructor
      · rintro ⟨pre, post, rfl, rfl⟩
        exact ⟨t :: pre, post, rfl, by simp [rawOf_cons, Tok.len]; omega⟩
      · rintro ⟨pre, post, h1, rfl⟩
        cases pre with
        | nil => simp at h1; exact absurd h1.1 ht
        | cons p pre' =>
          simp only [List.cons_append, List.cons.injEq] at h1
          obtain ⟨rfl, rfl⟩ := h1
          exact ⟨pre', post, rfl, by simp [rawOf_cons, Tok.len]; omega⟩

/-! ### the items joined are the text -/

/-- `offs` are increasing offsets of `?` bytes of `text`, none before `sub`. -/
def MarkersAt (text : Bytes) : Nat → List Nat → Prop
  | sub, [] => sub ≤ text.length
  | sub, o :: os => sub ≤ o ∧ text[o]? = some cQMark ∧ MarkersAt text (o + 1) os

theorem MarkersAt_mono (text : Bytes) (sub sub' : Nat) (offs : List Nat) (h : sub' ≤ sub)
    (hm : MarkersAt text sub offs) : MarkersAt text sub' offs := by
  cases offs with
  | nil => simp only [MarkersAt] at hm ⊢; omega
  | cons o os => simp only [MarkersAt] at hm ⊢; exact ⟨by omega, hm.2⟩

theorem cutItems_flatten (text : Bytes) (sub : Nat) (offs : List Nat) (hm : MarkersAt text sub offs) :
    (cutItems text sub offs).flatten = text.drop sub := by
  induction offs generalizing sub with
  | nil =>
    simp only [MarkersAt] at hm
    simp only [cutItems]
    split
    · simp
    · rename_i h; simp at h; subst h; simp
  | cons o os ih =>
    simp only [MarkersAt] at hm
    obtain ⟨h1, h2, h3⟩ := hm
    simp only [cutItems, List.flatten_cons, ih (o + 1) h3]
    have ho : o < text.length := by
      rcases Nat.lt_or_ge o text.length with h | h
      · exact h
      · rw [List.getElem?_eq_none h] at h2; simp at h2
    have e1 : text.drop sub = (text.drop sub).take (o - sub) ++ (text.drop sub).drop (o - sub) :=
      (List.take_append_drop _ _).symm
    have e2 : (text.drop sub).drop (o - sub) = text.drop o := by
      rw [List.drop_drop]; congr 1; omega
    have e3 : text.drop o = cQMark :: text.drop (o + 1) := by
      rw [List.drop_eq_getElem_cons ho]
      have := List.getElem?_eq_getElem ho
      rw [this] at h2; simp at h2; rw [h2]
    conv => rhs; rw [e1, e2, e3]
    simp

theorem markersAt_paramOffsets (pre : Bytes) (toks : List Tok) :
    MarkersAt (pre ++ rawOf toks) pre.length (paramOffsets pre.length toks) := by
  induction toks generalizing pre with
  | nil => simp [paramOffsets, MarkersAt, rawOf]
  | cons t ts ih =>
    by_cases ht : t = Tok.param
    · subst ht
      rw [paramOffsets_param]
      simp only [MarkersAt]
      refine ⟨Nat.le_refl _, ?_, ?_⟩
      · simp [rawOf_cons, Tok.raw]
      · have := ih (pre ++ [cQMark])
        simpa [rawOf_cons, Tok.raw] using this
    · rw [paramOffsets_nonparam _ t ts ht]
      have := ih (pre ++ t.raw)
      simp only [List.length_append, List.append_assoc] at this
      rw [rawOf_cons]
      exact MarkersAt_mono _ _ _ _ (by simp [Tok.len]) this

end GaeaVerif.StmtLex
