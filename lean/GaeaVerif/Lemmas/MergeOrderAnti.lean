import GaeaVerif.Lemmas.MergeOrder
/-
  C02 helper lemmas: the order on values is antisymmetric; the lexicographic
  comparison of ORDER BY keys splits into a prefix and the rest; keys that are
  equivalent under a prefix agree on it.
-/
namespace GaeaVerif.Merge

theorem leVal_antisymm (a b : Val) (h1 : leVal a b = true) (h2 : leVal b a = true) : a = b := by
  cases a <;> cases b <;> simp [leVal, Val.rank] at h1 h2 ⊢
  · omega
  · rename_i u s u' s'
    by_cases h : s = s'
    · subst h
      simp at h1 h2
      exact ⟨by omega, rfl⟩
    · have h' : ¬ s' = s := fun e => h e.symm
      simp [h, h'] at h1 h2
      omega
  · exact bytesLe_antisymm _ _ h1 h2

theorem ltVal_false_both (x y : Val) (h1 : ltVal x y = false) (h2 : ltVal y x = false) : x = y := by
  simp only [ltVal, Bool.not_eq_false'] at h1 h2
  exact leVal_antisymm x y h2 h1

theorem drop_succ_eq_tail_drop {α : Type} (l : List α) (n : Nat) : l.drop (n + 1) = l.tail.drop n := by
  cases l <;> simp

/-- one lexicographic step, as a function of the two head values -/
def lexStep (d : Bool) (x y : Val) (rest : Bool) : Bool :=
  if ltVal (if d then y else x) (if d then x else y) then true
  else if ltVal (if d then x else y) (if d then y else x) then false
  else rest

theorem leKey_cons' (d : Bool) (ds : List Bool) (a b : List Val) :
    leKey (d :: ds) a b = lexStep d (a.headD .null) (b.headD .null) (leKey ds a.tail b.tail) := by
  simp only [leKey, lexStep]

/-- the comparison under `ds1 ++ ds2`: decided by the first keys unless they are
    equivalent, then by the others -/
theorem leKey_append : ∀ (ds1 ds2 : List Bool) (a b : List Val),
    leKey (ds1 ++ ds2) a b =
      if leKey ds1 a b && leKey ds1 b a then leKey ds2 (a.drop ds1.length) (b.drop ds1.length)
      else leKey ds1 a b
  | [], ds2, a, b => by simp [leKey]
  | d :: ds1, ds2, a, b => by
    rw [List.cons_append, leKey_cons', leKey_cons', leKey_cons', leKey_append ds1 ds2 a.tail b.tail]
    simp only [List.length_cons, drop_succ_eq_tail_drop]
    generalize a.headD .null = x
    generalize b.headD .null = y
    simp only [lexStep]
    cases d <;> simp only [if_true, if_false, Bool.false_eq_true]
    · by_cases p1 : ltVal x y = true
      · have p2 := ltVal_asymm _ _ p1
        simp [p1, p2]
      · by_cases p2 : ltVal y x = true
        · simp [p1, p2]
        · simp [p1, p2]
    · by_cases p1 : ltVal y x = true
      · have p2 := ltVal_asymm _ _ p1
        simp [p1, p2]
      · by_cases p2 : ltVal x y = true
        · simp [p1, p2]
        · simp [p1, p2]

/-- keys that compare both ways agree on the compared entries -/
theorem leKey_eqv_getD : ∀ (ds : List Bool) (a b : List Val), leKey ds a b = true → leKey ds b a = true →
    ∀ i, i < ds.length → a.getD i .null = b.getD i .null
  | [], _, _, _, _, i, hi => by simp at hi
  | d :: ds, a, b, h1, h2, i, hi => by
    rw [leKey_cons'] at h1 h2
    have hxy : a.headD .null = b.headD .null ∧ leKey ds a.tail b.tail = true ∧ leKey ds b.tail a.tail = true := by
      revert h1 h2
      generalize a.headD .null = x
      generalize b.headD .null = y
      generalize leKey ds a.tail b.tail = r1
      generalize leKey ds b.tail a.tail = r2
      simp only [lexStep]
      cases d <;> simp only [if_true, if_false, Bool.false_eq_true]
      · intro h1 h2
        by_cases p1 : ltVal x y = true
        · have p2 := ltVal_asymm _ _ p1
          simp [p1, p2] at h2
        · by_cases p2 : ltVal y x = true
          · simp [p1, p2] at h1
          · simp only [p1, p2, if_false] at h1 h2
            exact ⟨ltVal_false_both x y (by simpa using p1) (by simpa using p2), h1, h2⟩
      · intro h1 h2
        by_cases p1 : ltVal y x = true
        · have p2 := ltVal_asymm _ _ p1
          simp [p1, p2] at h2
        · by_cases p2 : ltVal x y = true
          · simp [p1, p2] at h1
          · simp only [p1, p2, if_false] at h1 h2
            exact ⟨ltVal_false_both x y (by simpa using p2) (by simpa using p1), h1, h2⟩
    cases i with
    | zero =>
      have := hxy.1
      cases a <;> cases b <;> simpa using this
    | succ i =>
      have ih := leKey_eqv_getD ds a.tail b.tail hxy.2.1 hxy.2.2 i (by simpa using hi)
      cases a <;> cases b <;> simpa using ih

/-- the comparison only reads as many entries as there are directions -/
theorem leKey_append_left : ∀ (ds : List Bool) (p p' x y : List Val), p.length = ds.length → p'.length = ds.length →
    leKey ds (p ++ x) (p' ++ y) = leKey ds p p'
  | [], _, _, _, _, _, _ => by simp [leKey]
  | d :: ds, [], _, _, _, h, _ => by simp at h
  | d :: ds, _ :: _, [], _, _, _, h => by simp at h
  | d :: ds, v :: p, v' :: p', x, y, h, h' => by
    rw [leKey_cons', leKey_cons']
    simp only [List.cons_append, List.headD_cons, List.tail_cons]
    rw [leKey_append_left ds p p' x y (by simpa using h) (by simpa using h')]

theorem leKey_refl' (ds : List Bool) (a : List Val) : leKey ds a a = true := by
  rcases leKey_total ds a a with h | h <;> exact h

end GaeaVerif.Merge
