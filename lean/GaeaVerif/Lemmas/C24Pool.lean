import GaeaVerif.Model.ResourcePool
/-
  Helper definitions and lemmas for C24: sums over the thread list, the
  per-thread measures of the inductive invariant (slots held, pending grow /
  close work, counter lags) and the effect of one `stepThread` on them.
-/
namespace GaeaVerif.C24
open GaeaVerif.ResourcePool

/-! ## Sums over threads -/

def sumN (f : Thread → Nat) (l : List Thread) : Nat := (l.map f).sum
def sumI (f : Thread → Int) (l : List Thread) : Int := (l.map f).sum

@[simp] theorem sumN_nil (f : Thread → Nat) : sumN f [] = 0 := rfl
@[simp] theorem sumN_cons (f : Thread → Nat) (t : Thread) (l : List Thread) :
    sumN f (t :: l) = f t + sumN f l := by simp [sumN]
@[simp] theorem sumI_nil (f : Thread → Int) : sumI f [] = 0 := rfl
@[simp] theorem sumI_cons (f : Thread → Int) (t : Thread) (l : List Thread) :
    sumI f (t :: l) = f t + sumI f l := by simp [sumI]

theorem sumN_append (f : Thread → Nat) (l m : List Thread) : sumN f (l ++ m) = sumN f l + sumN f m := by
  induction l with
  | nil => simp
  | cons a l ih => simp [ih]; omega

theorem sumI_append (f : Thread → Int) (l m : List Thread) : sumI f (l ++ m) = sumI f l + sumI f m := by
  induction l with
  | nil => simp
  | cons a l ih => simp [ih]; omega

theorem sumN_set (f : Thread → Nat) (l : List Thread) (i : Nat) (t x : Thread) (h : l[i]? = some t) :
    sumN f (l.set i x) + f t = sumN f l + f x := by
  induction l generalizing i with
  | nil => simp at h
  | cons a l ih =>
    cases i with
    | zero => simp at h; subst h; simp; omega
    | succ i => simp at h; have := ih i h; simp; omega

theorem sumI_set (f : Thread → Int) (l : List Thread) (i : Nat) (t x : Thread) (h : l[i]? = some t) :
    sumI f (l.set i x) + f t = sumI f l + f x := by
  induction l generalizing i with
  | nil => simp at h
  | cons a l ih =>
    cases i with
    | zero => simp at h; subst h; simp; omega
    | succ i => simp at h; have := ih i h; simp; omega

theorem sumN_elem_le (f : Thread → Nat) (l : List Thread) (i : Nat) (t : Thread) (h : l[i]? = some t) :
    f t ≤ sumN f l := by
  induction l generalizing i with
  | nil => simp at h
  | cons a l ih =>
    cases i with
    | zero => simp at h; subst h; simp
    | succ i => simp at h; have := ih i h; simp; omega

theorem sumN_zero_of (f g : Thread → Nat) (hfg : ∀ t, g t = 0 → f t = 0) (l : List Thread)
    (h : sumN g l = 0) : sumN f l = 0 := by
  induction l with
  | nil => simp
  | cons a l ih =>
    simp at h ⊢
    exact ⟨hfg a h.1, ih h.2⟩

theorem sumN_map_zero {α : Type} (f : Thread → Nat) (g : α → Thread) (hz : ∀ x, f (g x) = 0) (l : List α) :
    sumN f (l.map g) = 0 := by
  induction l with
  | nil => simp
  | cons a l ih => simp [hz, ih]

theorem sumI_map_zero {α : Type} (f : Thread → Int) (g : α → Thread) (hz : ∀ x, f (g x) = 0) (l : List α) :
    sumI f (l.map g) = 0 := by
  induction l with
  | nil => simp
  | cons a l ih => simp [hz, ih]

theorem sumN_le_of (f g : Thread → Nat) (h : ∀ t, f t ≤ g t) (l : List Thread) : sumN f l ≤ sumN g l := by
  induction l with
  | nil => simp
  | cons a l ih => have := h a; simp; omega

theorem sumN_congr (f g : Thread → Nat) (l : List Thread) (h : ∀ t ∈ l, f t = g t) : sumN f l = sumN g l := by
  induction l with
  | nil => simp
  | cons a l ih =>
    have h1 := h a (by simp)
    have h2 := ih (fun t ht => h t (by simp [ht]))
    simp; omega

theorem sumI_zero_of (f : Thread → Int) (l : List Thread) (h : ∀ t ∈ l, f t = 0) : sumI f l = 0 := by
  induction l with
  | nil => simp
  | cons a l ih =>
    have h1 := h a (by simp)
    have h2 := ih (fun t ht => h t (by simp [ht]))
    simp; omega

theorem sumN_two_le (f : Thread → Nat) (l : List Thread) (i j : Nat) (a b : Thread) (hij : i ≠ j)
    (hi : l[i]? = some a) (hj : l[j]? = some b) : f a + f b ≤ sumN f l := by
  induction l generalizing i j with
  | nil => simp at hi
  | cons x l ih =>
    cases i with
    | zero =>
      cases j with
      | zero => exact absurd rfl hij
      | succ j =>
        simp at hi hj; subst hi
        have := sumN_elem_le f l j b hj
        simp; omega
    | succ i =>
      cases j with
      | zero =>
        simp at hi hj; subst hj
        have := sumN_elem_le f l i a hi
        simp; omega
      | succ j =>
        simp at hi hj
        have := ih i j (by omega) hi hj
        simp; omega

/-! ## Per-thread measures -/

/-- Slots (tokens) a thread holds inside an operation, by program counter. -/
def pcTok : Pc → Nat
  | .soAvail _ | .gMake _ | .gFailSend | .gAct _ | .gAvail _ | .gInUse _
  | .pAct | .pSend _ | .cAct _ _ | .cSend _ _ _ => 1
  | .soUnlock _ ok _ => if ok then 1 else 0
  | _ => 0

/-- Slots held by a thread: inside an operation, or as resources of its client. -/
def tok (t : Thread) : Nat := pcTok t.pc + t.held.length

/-- Slots a growing ScaleCapacity still has to put into the channel. -/
def growP (t : Thread) : Nat :=
  match t.pc with
  | .sGrowSend c old i => (c - old - i).toNat
  | .sGrowAvail c old i => (c - old - i - 1).toNat
  | _ => 0

/-- Slots a shrinking ScaleCapacity still has to take out of the channel. -/
def closeP (t : Thread) : Nat :=
  match t.pc with
  | .sShrRecv c old i => (old - c - i).toNat
  | .sShrAct c old i | .sShrAvail c old i => (old - c - i - 1).toNat
  | _ => 0

/-- 1 for a thread inside the shrink loop or about to close the channel. -/
def closer (t : Thread) : Nat :=
  match t.pc with
  | .sShrRecv _ _ _ | .sShrAct _ _ _ | .sShrAvail _ _ _ | .sClose => 1
  | _ => 0

/-- 1 for a thread inside closeIdleResources. -/
def sweepF (t : Thread) : Nat :=
  match t.pc with
  | .cLoad | .cRecv _ _ | .cAct _ _ | .cSend _ _ _ => 1
  | _ => 0

/-- Contribution of a thread to the `inUse` counter. -/
def inUseW (t : Thread) : Nat :=
  t.held.length + (match t.pc with | .pAct | .pSend _ | .pInUse => 1 | _ => 0)

/-- Lag of the `available` counter behind the channel length caused by a thread. -/
def avW (t : Thread) : Int :=
  match t.pc with
  | .gMake _ | .gFailSend | .gAct _ | .gAvail _ | .cAct _ _ | .cSend _ _ _
  | .sShrAct _ _ _ | .sShrAvail _ _ _ => 1
  | .soUnlock _ ok _ => if ok then 1 else 0
  | .pInUse | .pAvail | .sGrowAvail _ _ _ => -1
  | _ => 0

/-- Program-counter assertions (facts about a thread's local variables). -/
def A (maxCap : Nat) (t : Thread) : Prop :=
  match t.pc with
  | .soAdd _ c => 0 < c ∧ c < maxCap
  | .sLoad c => 0 ≤ c ∧ c ≤ maxCap
  | .sCas c old => 0 ≤ c ∧ c ≤ maxCap ∧ old ≠ 0 ∧ old ≠ c
  | .sShrRecv c old i | .sShrAct c old i | .sShrAvail c old i => c = 0 ∧ 0 ≤ i ∧ i < old - c
  | .sGrowSend c old i | .sGrowAvail c old i => 0 < c ∧ 0 ≤ i ∧ i < c - old
  | _ => True

/-- The hypothesis of the partial theorem, for one thread: a ScaleCapacity that
    lowers the capacity is the one of Close (target 0, timers stopped). -/
def AllowedT (p : Pool) (t : Thread) : Prop :=
  ∀ c old, t.pc = .sCas c old → p.capacity = old → c < old → c = 0 ∧ p.idleOn = false

/-! ## Resource occurrences (for "no resource is issued twice") -/

def slotRes (r : Nat) : Slot → Nat
  | some x => if x = r then 1 else 0
  | none => 0

def pcRes (r : Nat) : Pc → Nat
  | .gAct x | .gAvail x | .gInUse x => if x = r then 1 else 0
  | .pSend w => slotRes r w
  | .cSend _ _ w => slotRes r w
  | _ => 0

/-- Occurrences of resource `r` at a thread: held by its client or carried by
    the operation in progress. -/
def resW (r : Nat) (t : Thread) : Nat := t.held.count r + pcRes r t.pc

/-! ## One `stepThread` and the measures

  Every lemma below is proved by the same case analysis over the program
  counter and the branches of `stepThread`. -/

syntax "step_auto" ident : tactic
macro_rules
  | `(tactic| step_auto $h:ident) => `(tactic| (
      all_goals (repeat' split at $h:ident)
      all_goals (first | cases $h:ident | skip)
      all_goals (simp_all [tok, pcTok, growP, closeP, closer, sweepF, inUseW, avW, A, AllowedT])
      all_goals (try omega)))

/-- The slot balance `len(chan) + held + pending grow - capacity - pending close` is unchanged. -/
theorem step_eq (p : Pool) (t : Thread) (a : Alt) (r : Res)
    (h : stepThread p t a = some r)
    (hA : A p.maxCap t) (hall : AllowedT p t)
    (hcl : p.closed = true → tok t = 0 ∧ growP t = 0 ∧ closer t = 0 ∧ sweepF t = 0)
    (hroom : p.chan.length + tok t ≤ p.maxCap) :
    (r.pool.chan.length : Int) + tok r.thr + growP r.thr - r.pool.capacity - closeP r.thr
      = p.chan.length + tok t + growP t - p.capacity - closeP t := by
  obtain ⟨prog, pc, held, child⟩ := t
  cases pc <;> simp only [stepThread, startOp, sweepEnd, scaleEntry, scaleTail, gotWrapper, afterScale] at h
  step_auto h

/-- Capacity stays within bounds; at most one closing ScaleCapacity; the channel
    is closed only by it, at capacity 0. -/
theorem step_cap (p : Pool) (t : Thread) (a : Alt) (r : Res) (S : Nat)
    (h : stepThread p t a = some r)
    (hA : A p.maxCap t) (hall : AllowedT p t)
    (hcl : p.closed = true → tok t = 0 ∧ growP t = 0 ∧ closer t = 0 ∧ sweepF t = 0)
    (hcap : 0 ≤ p.capacity) (hcc : p.closed = true → p.capacity = 0)
    (hc0 : closer t = 1 → p.capacity = 0)
    (hS : p.capacity ≠ 0 → S = 0) (hJ2 : p.capacity + S ≤ p.maxCap) (hle : closeP t ≤ S) :
    0 ≤ r.pool.capacity
    ∧ r.pool.capacity + (S + closeP r.thr : Nat) ≤ p.maxCap + (closeP t : Nat)
    ∧ (r.pool.capacity ≠ 0 → closer r.thr = 0 ∧ p.capacity ≠ 0)
    ∧ (closer r.thr ≤ closer t ∨ (p.capacity ≠ 0 ∧ closer r.thr ≤ 1))
    ∧ (r.pool.closed = true → r.pool.capacity = 0 ∧ closer r.thr = 0 ∧ (p.closed = true ∨ closer t = 1)) := by
  obtain ⟨prog, pc, held, child⟩ := t
  cases pc <;> simp only [stepThread, startOp, sweepEnd, scaleEntry, scaleTail, gotWrapper, afterScale] at h
  step_auto h
  all_goals (try (rcases hpc : p.closed with _ | _ <;> simp_all <;> omega))

/-- Timer bookkeeping: capacity 0 only with the idle timer stopped, a stopped
    timer has no sweep in progress, `idleBusy` counts the sweeping threads. -/
theorem step_timer (p : Pool) (t : Thread) (a : Alt) (r : Res)
    (h : stepThread p t a = some r)
    (hA : A p.maxCap t) (hall : AllowedT p t)
    (hcl : p.closed = true → tok t = 0 ∧ growP t = 0 ∧ closer t = 0 ∧ sweepF t = 0)
    (hcap : 0 ≤ p.capacity)
    (h7 : p.capacity = 0 → p.idleOn = false) (h8 : p.idleOn = false → p.idleBusy = 0)
    (h9 : sweepF t ≤ p.idleBusy) :
    (r.pool.capacity = 0 → r.pool.idleOn = false)
    ∧ (r.pool.idleOn = false → r.pool.idleBusy = 0)
    ∧ sweepF r.thr + p.idleBusy = sweepF t + r.pool.idleBusy := by
  obtain ⟨prog, pc, held, child⟩ := t
  cases pc <;> simp only [stepThread, startOp, sweepEnd, scaleEntry, scaleTail, gotWrapper, afterScale] at h
  step_auto h
  all_goals (try (rcases hpc : p.closed with _ | _ <;> simp_all <;> omega))

/-- Program-counter assertions are preserved; a spawned thread starts with zero measures. -/
theorem step_A (p : Pool) (t : Thread) (a : Alt) (r : Res)
    (h : stepThread p t a = some r)
    (hA : A p.maxCap t) (hall : AllowedT p t) (hcap : 0 ≤ p.capacity) :
    A r.pool.maxCap r.thr ∧ r.pool.maxCap = p.maxCap
    ∧ (∀ c, r.spawn = some c → tok c = 0 ∧ growP c = 0 ∧ closeP c = 0 ∧ closer c = 0 ∧ sweepF c = 0
        ∧ inUseW c = 0 ∧ avW c = 0 ∧ A p.maxCap c ∧ c.pc ≠ .dead) := by
  obtain ⟨prog, pc, held, child⟩ := t
  cases pc <;> simp only [stepThread, startOp, sweepEnd, scaleEntry, scaleTail, gotWrapper, afterScale] at h
  step_auto h

/-- The `inUse` and `available` counters follow the threads; no thread panics. -/
theorem step_counters (p : Pool) (t : Thread) (a : Alt) (r : Res)
    (h : stepThread p t a = some r)
    (hcl : p.closed = true → tok t = 0 ∧ growP t = 0 ∧ closer t = 0 ∧ sweepF t = 0)
    (hroom : p.chan.length + tok t ≤ p.maxCap) (hA : A p.maxCap t) :
    r.pool.inUse - inUseW r.thr = p.inUse - inUseW t
    ∧ r.pool.available - r.pool.chan.length - avW r.thr = p.available - p.chan.length - avW t
    ∧ r.thr.pc ≠ .dead := by
  obtain ⟨prog, pc, held, child⟩ := t
  cases pc <;> simp only [stepThread, startOp, sweepEnd, scaleEntry, scaleTail, gotWrapper, afterScale] at h
  step_auto h
  all_goals (try (rcases hpc : p.closed with _ | _ <;> simp_all <;> omega))

/-- Occurrences of a resource never grow, except for the fresh number the factory hands out. -/
theorem step_res (p : Pool) (t : Thread) (a : Alt) (q : Res) (r : Nat)
    (h : stepThread p t a = some q) :
    ((q.pool.nextRes = p.nextRes ∧ q.pool.chan.count (some r) + resW r q.thr ≤ p.chan.count (some r) + resW r t)
     ∨ (q.pool.nextRes = p.nextRes + 1 ∧
        q.pool.chan.count (some r) + resW r q.thr ≤ p.chan.count (some r) + resW r t + (if p.nextRes = r then 1 else 0)))
    ∧ (∀ c, q.spawn = some c → resW r c = 0) := by
  obtain ⟨prog, pc, held, child⟩ := t
  cases pc <;> simp only [stepThread, startOp, sweepEnd, scaleEntry, scaleTail, gotWrapper, afterScale] at h
  all_goals (repeat' split at h)
  all_goals (first | cases h | skip)
  all_goals (simp_all [resW, pcRes, slotRes, List.count_cons, List.count_append])
  all_goals (try (cases ‹Slot› <;> simp_all))
  all_goals (try (split <;> omega))
  all_goals (try omega)

/-! ## Panics -/

def evIsPanic : Ev → Bool
  | .panicPutFull | .panicPutClosed | .panicSendClosed | .panicCloseClosed => true
  | _ => false

/-- A step reports a panic exactly when it kills the thread. -/
theorem ev_panic_dead (p : Pool) (t : Thread) (a : Alt) (r : Res) (h : stepThread p t a = some r) :
    evIsPanic r.ev = true → r.thr.pc = .dead := by
  obtain ⟨prog, pc, held, child⟩ := t
  cases pc <;> simp only [stepThread, startOp, sweepEnd, scaleEntry, scaleTail, gotWrapper, afterScale] at h
  all_goals (repeat' split at h)
  all_goals (first | cases h | skip)
  all_goals (simp_all [evIsPanic])

/-! ## The fragment Get / Put / Put(nil) / sweep / Close -/

def basicOp : Op → Bool
  | .get _ | .put | .drop | .sweep | .close | .age => true
  | _ => false

/-- Program counters of Close after its timers were stopped. -/
def inClose : Pc → Bool
  | .clCap | .sLoad _ | .sCas _ _ | .sShrRecv _ _ _ | .sShrAct _ _ _ | .sShrAvail _ _ _
  | .sGrowSend _ _ _ | .sGrowAvail _ _ _ | .sClose => true
  | _ => false

/-- A thread of the fragment: only basic operations left, not the scale-in
    goroutine, and any ScaleCapacity in progress is the `ScaleCapacity(0)` of Close. -/
def BasicT (t : Thread) : Prop :=
  t.prog.all basicOp = true ∧ t.child = false ∧
  match t.pc with
  | .scLoad _ | .scCas _ _ | .tLock | .tCap | .tTodo | .tUnlock | .kLoad | .kDone => False
  | .sLoad c | .sCas c _ | .sShrRecv c _ _ | .sShrAct c _ _ | .sShrAvail c _ _
  | .sGrowSend c _ _ | .sGrowAvail c _ _ => c = 0
  | _ => True

theorem step_basic (p : Pool) (t : Thread) (a : Alt) (r : Res)
    (h : stepThread p t a = some r) (hB : BasicT t) (hc : inClose t.pc = true → p.idleOn = false) :
    BasicT r.thr ∧ (inClose r.thr.pc = true → r.pool.idleOn = false) ∧ r.spawn = none
    ∧ (p.idleOn = false → r.pool.idleOn = false) := by
  obtain ⟨prog, pc, held, child⟩ := t
  cases pc <;> simp only [stepThread, startOp, sweepEnd, scaleEntry, scaleTail, gotWrapper, afterScale] at h
  all_goals (repeat' split at h)
  all_goals (first | cases h | skip)
  all_goals (simp_all [BasicT, inClose, basicOp])

theorem basic_allowed (p : Pool) (t : Thread) (hB : BasicT t) (hc : inClose t.pc = true → p.idleOn = false) :
    AllowedT p t := by
  intro c old hpc _ _
  obtain ⟨prog, pc, held, child⟩ := t
  simp at hpc
  subst hpc
  simp_all [BasicT, inClose]

/-! ## Sums after a step of the whole system -/

theorem sumN_step (f : Thread → Nat) (l l' : List Thread) (i : Nat) (t x : Thread) (sp : Option Thread)
    (h : l[i]? = some t)
    (hl' : l' = match sp with | some c => l.set i x ++ [c] | none => l.set i x)
    (hsp : ∀ c, sp = some c → f c = 0) :
    sumN f l' + f t = sumN f l + f x := by
  have := sumN_set f l i t x h
  subst hl'
  cases sp with
  | none => simpa using this
  | some c => have := hsp c rfl; simp [sumN_append]; omega

theorem sumI_step (f : Thread → Int) (l l' : List Thread) (i : Nat) (t x : Thread) (sp : Option Thread)
    (h : l[i]? = some t)
    (hl' : l' = match sp with | some c => l.set i x ++ [c] | none => l.set i x)
    (hsp : ∀ c, sp = some c → f c = 0) :
    sumI f l' + f t = sumI f l + f x := by
  have := sumI_set f l i t x h
  subst hl'
  cases sp with
  | none => simpa using this
  | some c => have := hsp c rfl; simp [sumI_append]; omega

theorem mem_step {l l' : List Thread} {i : Nat} {x t' : Thread} {sp : Option Thread}
    (hl' : l' = match sp with | some c => l.set i x ++ [c] | none => l.set i x) (h : t' ∈ l') :
    t' ∈ l ∨ t' = x ∨ sp = some t' := by
  subst hl'
  cases sp with
  | none =>
    rcases List.mem_or_eq_of_mem_set h with h | h
    · exact Or.inl h
    · exact Or.inr (Or.inl h)
  | some c =>
    simp at h
    rcases h with h | h
    · rcases List.mem_or_eq_of_mem_set h with h | h
      · exact Or.inl h
      · exact Or.inr (Or.inl h)
    · exact Or.inr (Or.inr (by rw [h]))

end GaeaVerif.C24
